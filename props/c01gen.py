"""Generator and renderers for the FEEL core fragment shared by the C01 and C13 checks.
An expression is a nested tuple mirroring coq/C01/Syntax.v `expr`; `feel(e)` renders fully parenthesised FEEL text,
`coq(e)` the Gallina term."""

NAMES = {50: 'item', 60: 'partial', 201: 'abs', 202: 'sum', 203: 'count', 204: 'not', 101: 'va', 102: 'vb', 103: 'vc', 104: 'vd', 105: 've', 106: 'vf', 107: 'vg', 108: 'vh'}
VARS = [101, 102, 103, 104, 105, 106, 107, 108]
ID_OF = {v: k for k, v in NAMES.items()}
BINOPS = {'Add': '+', 'Sub': '-', 'Mul': '*', 'Div': '/', 'Exp': '**', 'Eq': '=', 'Ne': '!=', 'Lt': '<', 'Le': '<=', 'Gt': '>', 'Ge': '>=', 'And': 'and', 'Or': 'or'}
CMPS = {'CLt': '<', 'CLe': '<=', 'CGt': '>', 'CGe': '>='}
STR_ALPHABET = ['a', 'b', 'c', 'B', 'é', '😀', 'z']


# ---------------------------------------------------------------- types of formal parameters
TANY = ('t', 'Any')
COQ_S = {'Any': 'SAny', 'Null': 'SNull', 'number': 'SNumber', 'string': 'SString', 'boolean': 'SBoolean'}


def ftype(t):
    if t[0] == 't':
        return t[1]
    if t[0] == 'tlist':
        return 'list<%s>' % ftype(t[1])
    if t[0] == 'tctx':
        return 'context<%s>' % ', '.join('%s: %s' % (NAMES[k], ftype(x)) for k, x in t[1])
    return 'function<%s> -> %s' % (', '.join(ftype(x) for x in t[1]), ftype(t[2]))


def ctype(t):
    M = 'C16.Model.'
    if t[0] == 't':
        return '(%sTS %s%s)' % (M, M, COQ_S[t[1]])
    if t[0] == 'tlist':
        return '(%sTList %s)' % (M, ctype(t[1]))
    if t[0] == 'tctx':
        return '(%sTCtx [%s])' % (M, '; '.join('(%d%%N, %s)' % (k, ctype(x)) for k, x in sorted(t[1])))
    return '(%sTFun [%s] %s)' % (M, '; '.join(ctype(x) for x in t[1]), ctype(t[2]))


def param(p):
    """a formal parameter is an id (untyped = Any) or (id, type)"""
    return (p, TANY) if isinstance(p, int) else p


KIND_TYPES = {
    'num': [('t', 'number'), TANY, ('tlist', ('t', 'number')), ('t', 'string')],
    'str': [('t', 'string'), TANY, ('tlist', ('t', 'string')), ('t', 'number')],
    'bool': [('t', 'boolean'), TANY, ('t', 'number')],
    'lnum': [('tlist', ('t', 'number')), ('tlist', TANY), TANY, ('t', 'number'), ('tlist', ('t', 'string'))],
    'lstr': [('tlist', ('t', 'string')), TANY],
    'ctx': [('tctx', ((101, TANY),)), ('tctx', ()), TANY, ('tctx', ((101, ('t', 'number')),)), ('t', 'number')],
    'lctx': [('tlist', TANY), TANY, ('tlist', ('tctx', ()))],
    'any': [TANY],
    'fun1': [('tfun', (('t', 'number'),), TANY), ('tfun', (TANY,), TANY), TANY],
    'fun2': [TANY],
}


# ---------------------------------------------------------------- rendering
def fstr(s):
    return '"' + s + '"'


def feel(e):
    k = e[0]
    if k == 'null':
        return 'null'
    if k == 'bool':
        return 'true' if e[1] else 'false'
    if k == 'num':
        return str(e[1]) if e[1] >= 0 else '(%d)' % e[1]
    if k == 'dec':                                   # m * 10^e written as a plain decimal literal
        m, ex = e[1], e[2]
        digits = str(abs(m))
        if ex >= 0:
            text = digits + '0' * ex
        else:
            digits = digits.rjust(-ex + 1, '0')
            text = digits[:ex] + '.' + digits[ex:]
        return text if m >= 0 else '(-%s)' % text
    if k == 'str':
        return fstr(e[1])
    if k == 'name':
        return NAMES[e[1]]
    if k == 'bin':
        return '(%s %s %s)' % (feel(e[2]), BINOPS[e[1]], feel(e[3]))
    if k == 'neg':
        return '(-%s)' % feel(e[1])
    if k == 'if':
        return '(if %s then %s else %s)' % (feel(e[1]), feel(e[2]), feel(e[3]))
    if k == 'between':
        return '(%s between %s and %s)' % (feel(e[1]), feel(e[2]), feel(e[3]))
    if k == 'in':
        ts = [ftest(t) for t in e[2]]
        return '(%s in %s)' % (feel(e[1]), ts[0] if len(ts) == 1 else '(' + ', '.join(ts) + ')')
    if k == 'inlist':
        return '(%s in %s)' % (feel(e[1]), feel(e[2]))
    if k == 'list':
        return '[' + ', '.join(feel(x) for x in e[1]) + ']'
    if k == 'ctx':
        return '{' + ', '.join('%s: %s' % (NAMES[n], feel(x)) for n, x in e[1]) + '}'
    if k == 'path':
        return '((%s).%s)' % (feel(e[1]), NAMES[e[2]])   # parenthesised: after a dot the lexer would read `vc * 2` as one name
    if k == 'filter':
        return '(%s)[%s]' % (feel(e[1]), feel(e[2]))
    if k == 'for':
        return '(for %s return %s)' % (', '.join('%s in %s' % (NAMES[n], fdom(d)) for n, d in e[1]), feel(e[2]))
    if k in ('some', 'every'):
        return '(%s %s satisfies %s)' % (k, ', '.join('%s in %s' % (NAMES[n], feel(d)) for n, d in e[1]), feel(e[2]))
    if k == 'fun':
        return '(function(%s) %s)' % (', '.join(NAMES[p] if isinstance(p, int) else '%s: %s' % (NAMES[p[0]], ftype(p[1])) for p in e[1]), feel(e[2]))
    if k == 'call':
        return '%s(%s)' % (fcallee(e[1]), ', '.join(feel(a) for a in e[2]))
    if k == 'calln':
        return '%s(%s)' % (fcallee(e[1]), ', '.join('%s: %s' % (NAMES[n], feel(a)) for n, a in e[2]))
    raise ValueError(k)


def fcallee(f):
    return NAMES[f[1]] if f[0] == 'name' else feel(f)


def ftest(t):
    if t[0] == 'val':
        return feel(t[1])
    if t[0] == 'cmp':
        return '%s %s' % (CMPS[t[1]], feel(t[2]))
    return '%s%s..%s%s' % ('[' if t[2] else '(', feel(t[1]), feel(t[3]), ']' if t[4] else ')')


def fdom(d):
    if d[0] == 'dlist':
        return feel(d[1])
    return '%s..%s' % (feel(d[1]), feel(d[2]))


def cstr(s):
    return '[' + '; '.join('%d%%N' % ord(c) for c in s) + ']'


def cb(b):
    return 'true' if b else 'false'


def coq(e):
    k = e[0]
    if k == 'null':
        return 'ENull'
    if k == 'bool':
        return '(EBool %s)' % cb(e[1])
    if k == 'num':
        return '(enum (%d))' % e[1]
    if k == 'dec':
        return '(ENum (Base.Dec.of_Z (%d) (%d)))' % (e[1], e[2])
    if k == 'str':
        return '(EStr %s)' % cstr(e[1])
    if k == 'name':
        return '(EName %d%%N)' % e[1]
    if k == 'bin':
        return '(EBin %s %s %s)' % (e[1], coq(e[2]), coq(e[3]))
    if k == 'neg':
        return '(ENeg %s)' % coq(e[1])
    if k == 'if':
        return '(EIf %s %s %s)' % (coq(e[1]), coq(e[2]), coq(e[3]))
    if k == 'between':
        return '(EBetween %s %s %s)' % (coq(e[1]), coq(e[2]), coq(e[3]))
    if k == 'in':
        return '(EIn %s [%s])' % (coq(e[1]), '; '.join(ctest(t) for t in e[2]))
    if k == 'inlist':
        return '(EInList %s %s)' % (coq(e[1]), coq(e[2]))
    if k == 'list':
        return '(EList [%s])' % '; '.join(coq(x) for x in e[1])
    if k == 'ctx':
        return '(ECtx [%s])' % '; '.join('(%d%%N, %s)' % (n, coq(x)) for n, x in e[1])
    if k == 'path':
        return '(EPath %s %d%%N)' % (coq(e[1]), e[2])
    if k == 'filter':
        return '(EFilter %s %s)' % (coq(e[1]), coq(e[2]))
    if k == 'for':
        return '(EFor [%s] %s)' % ('; '.join('(%d%%N, %s)' % (n, cdom(d)) for n, d in e[1]), coq(e[2]))
    if k == 'some':
        return '(ESome [%s] %s)' % ('; '.join('(%d%%N, %s)' % (n, coq(d)) for n, d in e[1]), coq(e[2]))
    if k == 'every':
        return '(EEvery [%s] %s)' % ('; '.join('(%d%%N, %s)' % (n, coq(d)) for n, d in e[1]), coq(e[2]))
    if k == 'fun':
        return '(EFun [%s] %s)' % ('; '.join('(%d%%N, %s)' % (param(p)[0], ctype(param(p)[1])) for p in e[1]), coq(e[2]))
    if k == 'call':
        return '(ECall %s [%s])' % (coq(e[1]), '; '.join(coq(a) for a in e[2]))
    if k == 'calln':
        return '(ECallN %s [%s])' % (coq(e[1]), '; '.join('(%d%%N, %s)' % (n, coq(a)) for n, a in e[2]))
    raise ValueError(k)


def ctest(t):
    if t[0] == 'val':
        return '(TVal %s)' % coq(t[1])
    if t[0] == 'cmp':
        return '(TCmp %s %s)' % (t[1], coq(t[2]))
    return '(TRange %s %s %s %s)' % (coq(t[1]), cb(t[2]), coq(t[3]), cb(t[4]))


def cdom(d):
    if d[0] == 'dlist':
        return '(DList %s)' % coq(d[1])
    return '(DRange %s %s)' % (coq(d[1]), coq(d[2]))


def constructs(e, acc=None, parent=None):
    """multiset of (parent construct, construct) pairs — the nesting coverage matrix"""
    if acc is None:
        acc = {}
    if not isinstance(e, tuple) or not e or not isinstance(e[0], str):
        return acc
    k = e[0] if e[0] != 'bin' else 'bin:' + e[1]
    acc[(parent, k)] = acc.get((parent, k), 0) + 1
    for x in e[1:]:
        if isinstance(x, tuple) and x and isinstance(x[0], str):
            constructs(x, acc, k)
        elif isinstance(x, (list, tuple)):
            for y in x:
                if isinstance(y, tuple) and y and isinstance(y[0], str):
                    constructs(y, acc, k)
                elif isinstance(y, tuple) and len(y) == 2 and isinstance(y[1], tuple):
                    constructs(y[1], acc, k)
    return acc


# ---------------------------------------------------------------- generation
class Gen:
    """Typed random expressions.  env: dict name-id -> kind in {'num','str','bool','lnum','lstr','lctx','ctx','fun1','fun2','any'}"""

    def __init__(self, rng):
        self.rng = rng

    def num_lit(self):
        r = self.rng
        if r.random() < 0.2:      # decimal literals: fractions, trailing zeros, values that do not divide evenly
            return ('dec',) + r.choice([(5, -1), (25, -2), (250, -2), (1, -1), (15, -1), (-75, -2), (3, -3), (1000, -2), (125, -3), (7, -1), (-5, -1), (33, -1)])
        return ('num', r.choice([0, 1, 2, 3, 4, 5, 6, 10, -1, -2, -3, 7, 12, 100]))

    def str_lit(self):
        r = self.rng
        return ('str', ''.join(r.choice(STR_ALPHABET) for _ in range(r.choice([0, 1, 1, 2, 3]))))

    def names_of(self, env, kind):
        # `partial` (60) is never used as a plain operand: inside a for it is the list of all previous results, and a body that returns it
        # doubles the result size at every iteration (2^27 elements for three 3-element domains); it is referenced only by the special
        # forms partial[-1] / x in partial of g_lnum and shadow_cases
        return [n for n, k in env.items() if k == kind and n != 60]

    def fresh(self, env):
        if self.rng.random() < 0.06:
            return self.rng.choice([50, 60])     # a variable / parameter named `item` or `partial`: shadows the implicit ones
        free = [v for v in VARS if v not in env]
        return self.rng.choice(free) if free else self.rng.choice(VARS)

    def gen(self, kind, d, env):
        r = self.rng
        names = self.names_of(env, kind)
        if names and r.random() < (0.45 if d > 0 else 0.7):
            return ('name', r.choice(names))
        if d <= 0:
            return self.leaf(kind, env)
        if r.random() < 0.06:
            return ('null',)
        if r.random() < 0.04:   # ill-typed operand on purpose
            kind = r.choice(['num', 'str', 'bool', 'lnum', 'ctx'])
        f = getattr(self, 'g_' + kind)
        return f(d, env)

    def leaf(self, kind, env):
        r = self.rng
        if kind == 'num':
            return self.num_lit()
        if kind == 'str':
            return self.str_lit()
        if kind == 'bool':
            return ('bool', r.random() < 0.5)
        if kind == 'lnum':
            return ('list', tuple(self.num_lit() for _ in range(r.choice([0, 1, 2, 3]))))
        if kind == 'lstr':
            return ('list', tuple(self.str_lit() for _ in range(r.choice([0, 1, 2]))))
        if kind == 'lctx':
            return ('list', tuple(self.leaf('ctx', env) for _ in range(r.choice([0, 1, 2]))))
        if kind == 'ctx':
            ks = sorted(r.sample([101, 102, 103], r.choice([1, 2, 2, 3])))
            if r.random() < 0.2:
                ks = [50] + ks            # an entry named `item`: the filter then pushes only the element's own context
            return ('ctx', tuple((k, self.num_lit() if r.random() < 0.7 else self.str_lit()) for k in ks))
        if kind == 'fun1':
            p = 108
            return ('fun', (p,), ('bin', r.choice(['Add', 'Mul', 'Sub']), ('name', p), self.num_lit()))
        if kind == 'fun2':
            return ('fun', (107, 108), ('bin', r.choice(['Add', 'Mul', 'Sub']), ('name', 107), ('name', 108)))
        return self.leaf(r.choice(['num', 'str', 'bool', 'lnum']), env)

    def common(self, kind, d, env):
        """constructs that can produce any kind"""
        r = self.rng
        c = r.random()
        if c < 0.18:
            return ('if', self.gen('bool', d - 1, env), self.gen(kind, d - 1, env), self.gen(kind, d - 1, env))
        if c < 0.30:   # path into a context literal holding the kind
            k = r.choice([101, 102, 103])
            ctxe = self.ctx_with(k, kind, d - 1, env)
            return ('path', ctxe, k)
        if c < 0.42:   # numeric-index filter on a list of the kind
            n = r.choice([0, 1, 2, 3, 3, 4, 5])
            lst = ('list', tuple(self.gen(kind, d - 1, env) if i < 2 else self.leaf(kind, env) for i in range(n)))
            return ('filter', lst, ('num', r.randint(-(n + 1), n + 1)))     # every position from -(n+1) to n+1
        if c < 0.56:   # invocation of a function literal / bound function
            fns = self.names_of(env, 'fun1')
            if kind == 'num' and fns and r.random() < 0.6:
                return ('call', ('name', r.choice(fns)), (self.gen('num', d - 1, env),))
            p = self.fresh(env)
            env2 = dict(env)
            env2[p] = kind
            body = self.gen(kind, d - 1, {p: kind}) if r.random() < 0.8 else self.gen(kind, d - 1, env2)
            arg = self.gen(kind, d - 1, env)
            if r.random() < 0.4:       # a declared parameter type: the argument is coerced (identity / singleton wrap / unwrap / null)
                tp = r.choice(KIND_TYPES.get(kind, [TANY]))
                if r.random() < 0.25:
                    arg = ('list', (arg,))                      # unwrap candidate
                if r.random() < 0.5:
                    return ('call', ('fun', ((p, tp),), body), (arg,))
                return ('calln', ('fun', ((p, tp),), body), ((p, arg),))
            if r.random() < 0.3:
                return ('calln', ('fun', (p,), body), ((p, arg),))
            c2 = r.random()
            if c2 < 0.06:      # too few positional arguments / a missing named argument: the invocation is null
                q = self.fresh(env2)
                if q != p:
                    return ('call', ('fun', (p, q), body), (arg,)) if r.random() < 0.5 else ('calln', ('fun', (p, q), body), ((p, arg),))
            if c2 < 0.10:
                return ('call', ('fun', (p,), body), ())
            if c2 < 0.18:      # a function without formal parameters: its body sees the names of the enclosing scope only
                return ('call', ('fun', (), self.gen(kind, d - 1, env)), () if c2 < 0.165 else (arg,))
            extra = (self.num_lit(),) if c2 > 0.92 else ()
            return ('call', ('fun', (p,), body), (arg,) + extra)
        if c < 0.64:   # a context entry referring to an earlier entry, then path
            # the entries are evaluated in the order they are WRITTEN, which half of the time is not the order of their keys (seeded change C01_j:
            # a map sorted by key), and the later entry reads the earlier one
            k1, k2 = (104, 105) if r.random() < 0.5 else (105, 104)
            e1 = self.gen(kind, d - 1, env)
            env2 = dict(env)
            env2[k1] = kind
            e2 = self.gen(kind, d - 1, env2)
            if r.random() < 0.5:
                e2 = ('bin', 'Add', ('name', k1), self.num_lit()) if kind == 'num' else ('if', self.gen('bool', d - 1, env2), ('name', k1), e2)
            return ('path', ('ctx', ((k1, e1), (k2, e2))), k2)
        if c < 0.70:   # boolean filter with a single survivor (singleton unwrapping)
            if kind in ('num', 'str'):
                x = self.leaf(kind, env)
                return ('filter', ('list', (x, self.leaf(kind, env))), ('bin', 'Eq', ('name', 50), x))
        return None

    def ctx_with(self, k, kind, d, env):
        r = self.rng
        others = [x for x in (101, 102, 103) if x != k]
        es = [(k, self.gen(kind, d, env))]
        if r.random() < 0.6:
            es.append((r.choice(others), self.num_lit()))
        return ('ctx', tuple(sorted(es)))

    def g_num(self, d, env):
        r = self.rng
        x = self.common('num', d, env)
        if x:
            return x
        c = r.random()
        if c < 0.55:
            op = r.choice(['Add', 'Sub', 'Mul', 'Add', 'Sub', 'Mul', 'Div', 'Exp'])
            a = self.gen('num', d - 1, env)
            b = self.gen('num', d - 1, env) if op != 'Exp' else ('num', r.choice([0, 1, 2, 3]))
            if op == 'Div' and r.random() < 0.3:
                b = ('num', r.choice([1, -1, 2, 3, 7]))
            return ('bin', op, a, b)
        if c < 0.65:
            return ('neg', self.gen('num', d - 1, env))
        return self.num_lit()

    def g_str(self, d, env):
        x = self.common('str', d, env)
        if x:
            return x
        if self.rng.random() < 0.6:
            return ('bin', 'Add', self.gen('str', d - 1, env), self.gen('str', d - 1, env))
        return self.str_lit()

    def g_bool(self, d, env):
        r = self.rng
        x = self.common('bool', d, env) if r.random() < 0.3 else None
        if x:
            return x
        c = r.random()
        k = r.choice(['num', 'num', 'str'])
        if c < 0.22:
            return ('bin', r.choice(['Eq', 'Ne', 'Lt', 'Le', 'Gt', 'Ge']), self.gen(k, d - 1, env), self.gen(k, d - 1, env))
        if c < 0.30:
            k2 = r.choice(['lnum', 'ctx', 'bool', 'any'])
            return ('bin', r.choice(['Eq', 'Ne']), self.gen(k2, d - 1, env), self.gen(k2 if r.random() < 0.8 else 'num', d - 1, env))
        if c < 0.48:
            return ('bin', r.choice(['And', 'Or']), self.gen('bool', d - 1, env), self.gen('bool', d - 1, env))
        if c < 0.58:
            # the lower bound is kept free of `and`/`between`: the lexer reads any `and` after `between` as the between separator,
            # even inside parentheses (`1 between (if (true and true) then 0 else 5) and 4` is rejected; reported under C06)
            lo = ('name', r.choice(self.names_of(env, k))) if self.names_of(env, k) and r.random() < 0.5 else self.leaf(k, env)
            return ('between', self.gen(k, d - 1, env), lo, self.gen(k, d - 1, env))
        if c < 0.74:
            n = r.choice([1, 1, 2, 3])
            return ('in', self.gen(k, d - 1, env), tuple(self.test(k, d - 1, env) for _ in range(n)))
        if c < 0.80:
            return ('inlist', self.gen(k, d - 1, env), self.gen('lnum' if k == 'num' else 'lstr', d - 1, env))
        if c < 0.83:
            return ('inlist', self.gen('lnum', d - 1, env), ('list', (self.gen('lnum', d - 1, env),)))
        if c < 0.93:
            q = r.choice(['some', 'every'])
            nv = r.choice([1, 1, 2])
            env2 = dict(env)
            ds = []
            for _ in range(nv):
                v = self.fresh(env2)
                ds.append((v, self.domain_expr(d - 1, env)))
                env2[v] = 'num'
            return (q, tuple(ds), self.gen('bool', d - 1, env2))
        return ('bool', r.random() < 0.5)

    def simple(self, k, env):
        """an endpoint / unary-test operand: the parser accepts only names and non-negative literals there"""
        r = self.rng
        names = self.names_of(env, k)
        if names and r.random() < 0.5:
            return ('name', r.choice(names))
        if k == 'num':
            return ('num', r.choice([0, 1, 2, 3, 4, 5, 6, 10, 12]))
        return self.str_lit()

    def test(self, k, d, env):
        r = self.rng
        c = r.random()
        if c < 0.4:
            return ('val', self.gen(k, d, env))
        if c < 0.7:
            return ('cmp', r.choice(list(CMPS)), self.simple(k, env))
        return ('range', self.simple(k, env), r.random() < 0.5, self.simple(k, env), r.random() < 0.5)

    def domain_expr(self, d, env):
        r = self.rng
        c = r.random()
        if c < 0.15:
            return ('list', ())
        if c < 0.25:
            return self.num_lit()          # a scalar is a one-element domain
        return self.gen('lnum', d, env)

    def g_lnum(self, d, env):
        r = self.rng
        c = r.random()
        if c < 0.30:   # for expression
            nv = r.choice([1, 1, 2, 2, 3])
            env2 = dict(env)
            ds = []
            for _ in range(nv):
                v = self.fresh(env2)
                if v == 60:
                    v = 50      # a for-variable named `partial` is overwritten by the implicit one: the body would return the growing list
                if r.random() < 0.35:
                    lo, hi = r.choice([(1, 3), (3, 1), (0, 0), (2, 4), (-1, 1)])
                    ds.append((v, ('drange', ('num', lo), ('num', hi))))
                else:
                    ds.append((v, ('dlist', self.domain_expr(d - 1, env))))
                env2[v] = 'num'
            body = self.gen('num', d - 1, env2)
            if r.random() < 0.1:
                body = ('bin', 'Add', body, ('filter', ('name', 60), ('num', -1))) if r.random() < 0.5 else ('inlist', body, ('name', 60))
            return ('for', tuple(ds), body)
        if c < 0.48:   # boolean filter
            lst = self.gen('lnum', d - 1, env)
            env2 = dict(env)
            env2[50] = 'num'
            return ('filter', lst, self.gen('bool', d - 1, env2))
        if c < 0.58:   # path over a list of contexts
            return ('path', self.gen('lctx', d - 1, env), r.choice([101, 102]))
        x = self.common('lnum', d, env)
        if x:
            return x
        return ('list', tuple(self.gen('num', d - 1, env) for _ in range(r.choice([0, 1, 2, 3]))))

    def g_lstr(self, d, env):
        return ('list', tuple(self.gen('str', d - 1, env) for _ in range(self.rng.choice([0, 1, 2]))))

    def g_lctx(self, d, env):
        r = self.rng
        if r.random() < 0.3:   # filter on contexts: entries visible as names
            lst = self.leaf('lctx', env) if r.random() < 0.7 else ('list', tuple(self.leaf('ctx', env) for _ in range(r.choice([1, 2, 3]))))
            who = r.choice([('name', 101), ('name', 101), ('name', 50), ('name', 102), ('path', ('name', 50), 101), ('path', ('name', 50), 101)])
            return ('filter', lst, ('bin', r.choice(['Gt', 'Eq', 'Le']), who, self.num_lit()))
        return ('list', tuple(self.g_ctx(d - 1, env) for _ in range(r.choice([0, 1, 2, 3]))))

    def g_ctx(self, d, env):
        r = self.rng
        ks = sorted(r.sample([101, 102, 103, 104, 105, 106], r.choice([1, 2, 2, 3, 4, 5, 6])))
        if r.random() < 0.15:
            ks = [r.choice([50, 60])] + ks   # entries named `item` / `partial`
        env2 = dict(env)
        es = []
        for k in ks:
            kind = r.choice(['num', 'num', 'str', 'lnum', 'bool'])
            es.append((k, self.gen(kind, d - 1, env2)))
            env2[k] = kind
        return ('ctx', tuple(es))

    def g_fun1(self, d, env):
        return self.leaf('fun1', env)

    def g_fun2(self, d, env):
        return self.leaf('fun2', env)

    def g_any(self, d, env):
        return self.gen(self.rng.choice(['num', 'str', 'bool', 'lnum', 'ctx', 'lctx']), d, env)

    def input_context(self):
        """the context binding the free names: closed literal expressions of every value kind"""
        r = self.rng
        kinds = ['num', 'str', 'bool', 'lnum', 'ctx', 'fun1', 'lctx', 'num']
        r.shuffle(kinds)
        env, entries = {}, []
        for v, kind in zip(sorted(r.sample(VARS[:6], r.choice([2, 3, 4, 5]))), kinds):
            env[v] = kind
            e = ('null',) if r.random() < 0.06 else self.leaf(kind, {})
            entries.append((v, e))
        if r.random() < 0.12:                    # the implicit names bound from outside
            k = r.choice([50, 60])
            kind = r.choice(['num', 'ctx', 'lnum'])
            env[k] = kind
            entries.append((k, self.leaf(kind, {})))
            entries.sort()
        return env, tuple(entries)

    def case(self, depth):
        env, entries = self.input_context()
        kind = self.rng.choice(['num', 'num', 'bool', 'bool', 'lnum', 'lnum', 'str', 'ctx', 'lctx', 'any'])
        return entries, self.gen(kind, depth, env)


# ---------------------------------------------------------------- systematic nesting matrix
def root(e):
    return e[0] if e[0] != 'bin' else 'bin:' + e[1]


def parents(gen, env):
    """(parent name, hole kind, builder) — builder wraps a child expression of the hole kind into the parent construct"""
    r = gen.rng
    n = lambda: gen.leaf('num', env)
    out = []
    for op in ('Add', 'Sub', 'Mul', 'Div', 'Exp', 'Lt', 'Le', 'Gt', 'Ge', 'Eq', 'Ne'):
        out.append(('bin:' + op, 'num', lambda c, op=op: ('bin', op, c, ('num', r.choice([1, 2])))))
        out.append(('bin:' + op + '/r', 'num', lambda c, op=op: ('bin', op, ('num', r.choice([4, 6])), c) if op != 'Exp' else ('bin', 'Mul', ('num', 2), c)))
    for op in ('And', 'Or'):
        out.append(('bin:' + op, 'bool', lambda c, op=op: ('bin', op, c, ('bool', r.random() < 0.5))))
    out.append(('bin:Add/str', 'str', lambda c: ('bin', 'Add', c, ('str', 'z'))))
    out.append(('bin:Eq/any', 'any', lambda c: ('bin', 'Eq', c, c)))
    out.append(('neg', 'num', lambda c: ('neg', c)))
    out.append(('if/cond', 'bool', lambda c: ('if', c, n(), n())))
    out.append(('if/then', 'any', lambda c: ('if', ('bool', True), c, ('null',))))
    out.append(('if/else', 'any', lambda c: ('if', ('bool', False), ('null',), c)))
    out.append(('between/x', 'num', lambda c: ('between', c, ('num', 0), ('num', 5))))
    out.append(('between/hi', 'num', lambda c: ('between', ('num', 3), ('num', 0), c)))
    out.append(('in/x', 'num', lambda c: ('in', c, (('cmp', 'CLt', ('num', 3)), ('val', ('num', 10))))))
    out.append(('in/val', 'num', lambda c: ('in', ('num', 2), (('val', c), ('range', ('num', 5), True, ('num', 6), False)))))
    out.append(('inlist/l', 'lnum', lambda c: ('inlist', ('num', 2), c)))
    out.append(('list', 'any', lambda c: ('list', (n(), c))))
    out.append(('ctx/entry', 'any', lambda c: ('ctx', ((101, n()), (102, c)))))
    out.append(('path', 'ctx', lambda c: ('path', c, 101)))
    out.append(('path/list', 'lctx', lambda c: ('path', c, 101)))
    out.append(('filter/list', 'lnum', lambda c: ('filter', c, ('bin', 'Gt', ('name', 50), ('num', 1)))))
    out.append(('filter/index', 'num', lambda c: ('filter', ('list', (n(), n(), n())), c)))
    out.append(('filter/pred', 'bool', lambda c: ('filter', ('list', (n(), n())), c)))
    out.append(('for/dom', 'lnum', lambda c: ('for', ((108, ('dlist', c)), (107, ('drange', ('num', 1), ('num', 2)))), ('bin', 'Add', ('name', 108), ('name', 107)))))
    # the range end is clamped: an arbitrary numeric expression could make the iteration astronomically long (legitimate work, not a hang)
    out.append(('for/range', 'num', lambda c: ('for', ((108, ('drange', ('num', 1), ('if', ('between', c, ('num', -20), ('num', 20)), c, ('num', 3)))),), ('name', 108))))
    out.append(('for/body', 'any', lambda c: ('for', ((108, ('dlist', ('list', (n(), n())))),), c)))
    out.append(('some/dom', 'lnum', lambda c: ('some', ((108, c),), ('bin', 'Gt', ('name', 108), ('num', 1)))))
    out.append(('some/body', 'bool', lambda c: ('some', ((108, ('list', (n(), n()))),), c)))
    out.append(('every/body', 'bool', lambda c: ('every', ((108, ('list', (n(), n()))), (107, ('list', (n(),)))), c)))
    out.append(('fun/body', 'any', lambda c: ('call', ('fun', (108,), c), (n(),))))
    out.append(('call/arg', 'any', lambda c: ('call', ('fun', (108,), ('name', 108)), (c,))))
    out.append(('calln/arg', 'any', lambda c: ('calln', ('fun', (108, 107), ('list', (('name', 107), ('name', 108)))), ((107, c), (108, n())))))
    return out


def systematic_cases(gen, tries=40):
    """for every parent position and every construct that can stand there, one expression with that nesting (found by rejection sampling)"""
    cases, missing = [], []
    env, entries = gen.input_context()
    while len(env) < 4:
        env, entries = gen.input_context()
    all_roots = ['bin:' + o for o in BINOPS] + ['neg', 'if', 'between', 'in', 'inlist', 'list', 'ctx', 'path', 'filter', 'for', 'some', 'every', 'call', 'calln',
                                               'num', 'str', 'bool', 'null', 'name']
    for pname, kind, build in parents(gen, env):
        found = {}
        for _ in range(tries * len(all_roots)):
            c = gen.gen(kind, gen.rng.choice([1, 2, 2]), env)
            found.setdefault(root(c), c)
            if len(found) == len(all_roots):
                break
        for rt, c in found.items():
            cases.append((entries, build(c), pname, rt))
        missing += [(pname, rt) for rt in all_roots if rt not in found]
    return cases, missing


def builtin_name_cases():
    """names spelled like built-in functions bound to user-defined functions by a context entry, the input context, a formal parameter, an
    iteration variable, and invoked (positionally and by name): a binding of the invoked name hides the built-in (seeded change C01_g)"""
    n = lambda z: ('num', z)
    cases = []
    for nm in (201, 202, 203, 204):
        f = ('fun', (101,), ('bin', 'Add', ('name', 101), n(100)))
        call = ('call', ('name', nm), (n(-1),))
        calln = ('calln', ('name', nm), ((101, n(-1)),))
        for c in (call, calln):
            cases.append(((), ('path', ('ctx', ((nm, f), (102, c))), 102)))                          # context entry
            cases.append((((nm, f),), c))                                                              # input context
            cases.append(((), ('call', ('fun', (nm,), c), (f,))))                                      # formal parameter
            cases.append(((), ('for', ((nm, ('dlist', ('list', (f,)))),), c)))                         # iteration variable
            cases.append(((), ('some', ((nm, ('list', (f,))),), ('bin', 'Eq', c, n(99)))))
            cases.append(((), ('filter', ('list', (n(5), n(6))), ('bin', 'Eq', ('path', ('ctx', ((nm, f), (102, c))), 102), n(99)))))
    return cases


def null_provenance_cases():
    """FEEL has ONE null: nulls of different origin (the literal, a division by zero, an addition of a string and a number, a missing context entry, a
    function called with too few arguments) are the same value wherever values are compared - also inside lists and contexts (seeded change C01_k:
    lists were compared with the derived equality of the value type, which also compares the diagnostic text a null carries)"""
    n = lambda z: ('num', z)
    nulls = [('null',), ('bin', 'Div', n(1), n(0)), ('bin', 'Add', ('str', 'a'), n(1)), ('path', ('ctx', ((101, n(1)),)), 102),
             ('call', ('fun', (101, 102), ('name', 101)), (n(1),)), ('if', ('bin', 'Gt', n(1), ('null',)), n(1), ('null',))]
    cases = []
    for i, a in enumerate(nulls):
        for b in nulls[i:]:
            for op in ('Eq', 'Ne'):
                cases.append(((), ('bin', op, ('list', (a,)), ('list', (b,)))))
                cases.append(((), ('bin', op, ('list', (n(1), a, n(2))), ('list', (n(1), b, n(2))))))
            cases.append(((), ('bin', 'Eq', ('list', (('list', (a,)),)), ('list', (('list', (b,)),)))))
            cases.append(((), ('bin', 'Eq', ('list', (('ctx', ((101, a),)),)), ('list', (('ctx', ((101, b),)),)))))
            cases.append(((), ('bin', 'Eq', ('ctx', ((101, ('list', (a,))),)), ('ctx', ((101, ('list', (b,))),)))))
            cases.append(((), ('bin', 'Eq', a, b)))
    return cases


def computed_number_cases():
    """positions and range bounds that are COMPUTED: a result of arithmetic is held reduced, so a multiple of ten has a positive exponent (2*5 is 1E+1) - it is
    the integer 10 all the same, as a list index (either sign) and as a bound of an iteration range (found on the unchanged tree by an outsider: l[2*5] was null,
    fixed in /repo dd83860; seeded change C01_l: the same test of the representation in front of the iteration ranges)"""
    n = lambda z: ('num', z)
    L = ('list', tuple(n(100 + i) for i in range(1, 13)))
    tens = [('bin', 'Mul', n(2), n(5)), ('bin', 'Add', n(5), n(5)), ('bin', 'Sub', n(20), n(10)), ('bin', 'Div', n(30), n(3)), ('bin', 'Sub', n(0), n(10)), ('bin', 'Mul', n(-2), n(5)),
            ('bin', 'Sub', n(15), n(5)), ('bin', 'Mul', n(1), n(10))]
    cases = []
    for t in tens:
        cases.append(((), ('filter', L, t)))
        cases.append(((), ('filter', ('list', (n(1), n(2), n(3))), t)))
        cases.append((((101, t),), ('filter', L, ('name', 101))))
    ten = tens[0]
    for lo, hi in ((n(8), ten), (tens[3], n(12)), (tens[2], n(8)), (tens[1], tens[0]), (n(12), tens[6])):
        cases.append(((), ('for', ((101, ('drange', lo, hi)),), ('name', 101))))
        cases.append(((), ('for', ((101, ('drange', n(1), n(2))), (102, ('drange', lo, hi))), ('bin', 'Mul', ('name', 101), ('name', 102)))))
        cases.append((((103, lo), (104, hi)), ('for', ((101, ('drange', ('name', 103), ('name', 104))),), ('bin', 'Add', ('name', 101), n(1)))))
    return cases


def shadow_cases(gen):
    """implicit names (`item` in filters, `partial` in for) against every way of binding the same name outside"""
    r = gen.rng
    n = lambda z: ('num', z)
    lctx = ('list', (('ctx', ((101, n(1)),)), ('ctx', ((101, n(2)),)), ('ctx', ((101, n(3)), (102, n(9))))))
    lctx_item = ('list', (('ctx', ((50, n(1)), (101, n(5)))), ('ctx', ((50, n(7)), (101, n(2))))))
    lnum = ('list', (n(1), n(2), n(3)))
    inner = [
        ('filter', lctx, ('bin', 'Ge', ('path', ('name', 50), 101), n(2))),         # item.va on contexts without their own item
        ('filter', lctx, ('bin', 'Ge', ('name', 101), n(2))),
        ('filter', lctx_item, ('bin', 'Ge', ('name', 50), n(2))),                   # contexts with their own item entry
        ('filter', lnum, ('bin', 'Gt', ('name', 50), n(1))),
        ('filter', lnum, ('bin', 'Eq', ('name', 50), n(2))),
        ('for', ((108, ('dlist', lnum)),), ('bin', 'Add', ('name', 108), ('filter', ('name', 60), n(-1)))),   # partial[-1]
        ('for', ((108, ('dlist', lnum)),), ('inlist', ('name', 108), ('name', 60))),
    ]
    cases = []
    for e in inner:
        for nm in (50, 60):
            cases.append((((nm, n(100)),), e))                                                    # bound in the input context
            cases.append((((nm, ('ctx', ((101, n(0)),))),), e))
            cases.append(((), ('for', ((nm, ('dlist', ('list', (n(10), n(20))))),), e)))           # iteration variable
            cases.append(((), ('some', ((nm, ('list', (n(10),))),), ('bin', 'Eq', e, e))))
            cases.append(((), ('call', ('fun', (nm,), e), (n(100),))))                             # function argument
            cases.append(((), ('path', ('ctx', ((nm, n(100)), (101, e))), 101)))                   # earlier context entry
            cases.append(((), ('filter', ('list', (n(5), n(6))), ('bin', 'Eq', ('bin', 'Eq', e, e), ('bool', True)))))   # enclosing filter
    return cases
