(* C19 — text -> table for every rules-as-rows table drawn with one, two or three header lines and merged header cells
   (coq/C19/CanvasHeadersDraw.v): composition of the characters -> plane theorem for merged drawings (coq/C19/CanvasMergedPlane.v)
   with the plane-level round trip (coq/C19/Proofs.v) through the "same partition into regions" invariance of the recogniser
   (coq/C19/CanvasPartition.v).  (owner: ext-merged) *)
From Coq Require Import List NArith Bool Arith Lia.
From DV Require Import C19.Model C19.Canvas C19.CanvasDraw C19.Proofs C19.CanvasTable C19.CanvasPartition.
From DV Require Import C19.CanvasMerged C19.CanvasMergedGeom C19.CanvasMergedPlane C19.CanvasHeadersDraw.
From DV Require C19.CanvasProofs.
Import ListNotations.

Tactic Notation "tr_ltb" constr(a) constr(b) := replace (a <? b) with true by (symmetry; apply Nat.ltb_lt; lia).
Tactic Notation "fa_ltb" constr(a) constr(b) := replace (a <? b) with false by (symmetry; apply Nat.ltb_ge; lia).
Tactic Notation "tr_eqb" constr(a) constr(b) := replace (a =? b) with true by (symmetry; apply Nat.eqb_eq; lia).
Tactic Notation "fa_eqb" constr(a) constr(b) := replace (a =? b) with false by (symmetry; apply Nat.eqb_neq; lia).
Tactic Notation "tr_leb" constr(a) constr(b) := replace (a <=? b) with true by (symmetry; apply Nat.leb_le; lia).
Tactic Notation "fa_leb" constr(a) constr(b) := replace (a <=? b) with false by (symmetry; apply Nat.leb_gt; lia).

(* ================================================================== lists *)
Lemma zipw_app {A B C} (f : A -> B -> C) a : forall a' b b', length a = length a' -> zipw f (a ++ b) (a' ++ b') = zipw f a a' ++ zipw f b b'.
Proof. induction a as [|x a IH]; intros [|x' a'] b b' L; cbn [length] in L; try discriminate; [reflexivity|]. cbn [app zipw]. now rewrite IH by lia. Qed.
Lemma zipw_map {A B C D} (f : B -> C -> D) (g : A -> B) (k : A -> C) l : zipw f (map g l) (map k l) = map (fun x => f (g x) (k x)) l.
Proof. induction l as [|x l IH]; [reflexivity|]. cbn [map zipw]. now rewrite IH. Qed.
Lemma N_of_nat_eqb a b : (N.of_nat a =? N.of_nat b)%N = (a =? b).
Proof.
  destruct (Nat.eqb_spec a b) as [->|Hne]; [apply N.eqb_refl|]. apply N.eqb_neq. intro E. apply Nnat.Nat2N.inj in E. contradiction.
Qed.
Lemma zipcons_app a : forall m b n, length a = length m -> zipcons (a ++ b) (m ++ n) = zipcons a m ++ zipcons b n.
Proof. induction a as [|x a IH]; intros [|r m] b n L; cbn [length] in L; try discriminate; [reflexivity|]. cbn [app zipcons]. now rewrite IH by lia. Qed.
Lemma zipcons_repeat_map {I} c (f : I -> list cell) l : zipcons (repeat c (length l)) (map f l) = map (fun k => c :: f k) l.
Proof. induction l as [|k l IH]; [reflexivity|]. cbn [length repeat map zipcons]. now rewrite IH. Qed.

(* ================================================================== the lines of the plane of a merged drawing, abstractly *)
Section MRows.
Variable code : list N -> N.
Variable d : mdraw.
Hypothesis Hwf : wf_mdraw d = true.
Local Notation nr := (mrows d).
Local Notation nc := (mcols d).
Local Notation reg := (md_reg d).
Local Notation AB := (map (abs_cell code)).

Lemma first_exists i j : i < nr -> j < nc ->
  exists ab, In ab (firsts d) /\ rect_eqb (reg (fst ab) (snd ab)) (reg i j) = true.
Proof.
  intros Hi Hj. destruct (reg i j) as [[[r0 c0] r1] c1] eqn:E. exists (r0, c0). split; [now apply (first_cell_listed d Hwf i j r0 c0 r1 c1)|].
  cbn [fst snd]. pose proof (tile d Hwf i j r0 c0 r1 c1 Hi Hj E) as (T1 & T2 & T3 & T4 & T5 & T6 & T7). rewrite (T7 r0 c0) by lia. apply rect_eqb_refl.
Qed.

(* two grid cells have the same region number exactly when they belong to the same merged cell *)
Lemma rnum_eqb i j i' j' : i < nr -> j < nc -> i' < nr -> j' < nc ->
  (rnum d i j =? rnum d i' j') = rect_eqb (reg i j) (reg i' j').
Proof.
  intros Hi Hj Hi' Hj'. destruct (rect_eqb_spec (reg i j) (reg i' j')) as [Q|Q].
  - unfold rnum. rewrite Q. apply Nat.eqb_refl.
  - apply Nat.eqb_neq. intro En.
    destruct (index_of_first (fun ab => rect_eqb (reg (fst ab) (snd ab)) (reg i j)) (firsts d) (first_exists i j Hi Hj)) as (a & H1 & H2).
    destruct (index_of_first (fun ab => rect_eqb (reg (fst ab) (snd ab)) (reg i' j')) (firsts d) (first_exists i' j' Hi' Hj')) as (a' & H1' & H2').
    fold (rnum d i j) in H1. fold (rnum d i' j') in H1'. rewrite En in H1. rewrite H1 in H1'. injection H1' as <-.
    apply rect_eqb_eq in H2, H2'. congruence.
Qed.

Definition mcells (i j : nat) : list ccell := mlead d j ++ [mcell d i j].

Lemma zipw_lead j : zipw same_id (AB (mlead d j)) (AB (mlead d j)) = map (fun _ => false) (mlead d j).
Proof. unfold mlead. destruct (j =? md_v1 d); destruct (md_v2 d) as [k|]; try destruct (j =? k); reflexivity. Qed.

Lemma zip_mrows k k' : k < nr -> k' < nr ->
  zipw same_id (AB (mrow d k)) (AB (mrow d k')) =
  flat_map (fun j => map (fun _ => false) (mlead d j) ++ [rect_eqb (reg k j) (reg k' j)]) (seq 0 nc).
Proof.
  intros Hk Hk'. unfold mrow.
  assert (forall n a, a + n <= nc ->
            zipw same_id (AB (flat_map (mcells k) (seq a n))) (AB (flat_map (mcells k') (seq a n))) =
            flat_map (fun j => map (fun _ => false) (mlead d j) ++ [rect_eqb (reg k j) (reg k' j)]) (seq a n)) as G.
  { induction n as [|n IH]; intros a Ha; [reflexivity|]. cbn [seq flat_map]. rewrite !map_app.
    rewrite zipw_app by (unfold mcells; now rewrite !map_length, !app_length).
    rewrite IH by lia. f_equal. unfold mcells. rewrite !map_app. rewrite zipw_app by reflexivity. rewrite zipw_lead. f_equal.
    cbn [map zipw abs_cell mcell same_id]. unfold rid_eqb. cbn [fst snd]. rewrite N_of_nat_eqb, N.eqb_refl, andb_true_r.
    now rewrite rnum_eqb by lia. }
  apply (G nc 0). lia.
Qed.

(* one line of grid cells, names erased: three blocks of texts *)
Lemma mseg_plain i n : forall a, (forall j, a <= j < a + n -> mlead d j = []) ->
  EA code (flat_map (mcells i) (seq a n)) = map (fun j => R code (mtext d i j)) (seq a n).
Proof.
  induction n as [|n IH]; intros a Hl; [reflexivity|]. cbn [seq flat_map map]. unfold mcells at 1. rewrite Hl by lia. cbn [app].
  unfold EA in *. cbn [map abs_cell mcell erase]. f_equal. apply IH. intros j Hj. apply Hl. lia.
Qed.
Lemma mseg_led i n a c : mlead d a = [c] -> (forall j, a < j < a + S n -> mlead d j = []) ->
  EA code (flat_map (mcells i) (seq a (S n))) = erase (abs_cell code c) :: map (fun j => R code (mtext d i j)) (seq a (S n)).
Proof.
  intros Ha Hl. cbn [seq flat_map]. unfold mcells at 1. rewrite Ha. unfold EA. cbn [app map]. f_equal. cbn [abs_cell mcell erase]. f_equal.
  apply (mseg_plain i n (S a)). intros j Hj. apply Hl. lia.
Qed.

Lemma mlead_none j : j <> md_v1 d -> (forall k, md_v2 d = Some k -> j <> k) -> mlead d j = [].
Proof.
  intros H1 H2. unfold mlead. replace (j =? md_v1 d) with false by (symmetry; now apply Nat.eqb_neq).
  destruct (md_v2 d) as [k|]; [|reflexivity]. specialize (H2 k eq_refl). now replace (j =? k) with false by (symmetry; now apply Nat.eqb_neq).
Qed.
Lemma mlead_main j : j = md_v1 d -> (forall k, md_v2 d = Some k -> j <> k) -> mlead d j = [CVOut].
Proof.
  intros H1 H2. unfold mlead. rewrite H1, Nat.eqb_refl. rewrite <- H1.
  destruct (md_v2 d) as [k|]; [|reflexivity]. specialize (H2 k eq_refl). now replace (j =? k) with false by (symmetry; now apply Nat.eqb_neq).
Qed.
Lemma mlead_ann j : md_v2 d = Some j -> j <> md_v1 d -> mlead d j = [CVAnn].
Proof. intros H1 H2. unfold mlead. rewrite H1, Nat.eqb_refl. now replace (j =? md_v1 d) with false by (symmetry; now apply Nat.eqb_neq). Qed.

Lemma mrow_crow i (A a b c : list (list N)) :
  (forall j, j < nc -> mtext d i j = nth j (a ++ b ++ c) []) -> nc = length a + length b + length c ->
  md_v1 d = length a -> 1 <= length b -> length c = length A ->
  md_v2 d = match A with [] => None | _ => Some (length a + length b) end ->
  EA code (mrow d i) = crow code A a b c.
Proof.
  intros Htxt Hnc Hv1 Hb Hc Hv2. change (mrow d i) with (flat_map (mcells i) (seq 0 nc)).
  unfold crow. rewrite Hnc, !seq_app, !flat_map_app, <- app_assoc, !EA_app. cbn [Nat.add].
  assert (forall pre l post, a ++ b ++ c = pre ++ l ++ post ->
            map (fun j => R code (mtext d i j)) (seq (length pre) (length l)) = map (R code) l) as Seg.
  { intros pre l post Eq. rewrite <- (map_nth_segment (R code) pre l post []). apply map_ext_in. intros j Hj. apply in_seq in Hj.
    rewrite Htxt; [now rewrite Eq|]. assert (length (a ++ b ++ c) = length (pre ++ l ++ post)) as L by now rewrite Eq.
    rewrite !app_length in L. lia. }
  assert (EA code (flat_map (mcells i) (seq 0 (length a))) = map (R code) a) as ->.
  { rewrite mseg_plain.
    + apply (Seg [] a (b ++ c)). reflexivity.
    + intros j Hj. apply mlead_none; [lia|]. intros k Hk. rewrite Hv2 in Hk. destruct A; [discriminate|]. injection Hk as <-. lia. }
  assert (EA code (flat_map (mcells i) (seq (length a) (length b))) = VOut :: map (R code) b) as ->.
  { destruct (length b) as [|lb] eqn:Elb; [lia|].
    rewrite (mseg_led i lb (length a) CVOut).
    + cbn [abs_cell erase]. f_equal. rewrite <- Elb. apply (Seg a b c). reflexivity.
    + apply mlead_main; [now symmetry|]. intros k Hk. rewrite Hv2 in Hk. destruct A; [discriminate|]. injection Hk as <-. lia.
    + intros j Hj. apply mlead_none; [lia|]. intros k Hk. rewrite Hv2 in Hk. destruct A; [discriminate|]. injection Hk as <-. lia. }
  assert (EA code (flat_map (mcells i) (seq (length a + length b) (length c))) = match A with [] => [] | _ => VAnn :: map (R code) c end) as ->; [|reflexivity].
  destruct A as [|a0 A].
  - cbn [length] in Hc. rewrite Hc. reflexivity.
  - destruct (length c) as [|lc] eqn:Elc; [cbn [length] in Hc; lia|].
    rewrite (mseg_led i lc (length a + length b) CVAnn).
    + cbn [abs_cell erase]. f_equal. rewrite <- Elc, <- app_length. apply (Seg (a ++ b) c []). now rewrite <- app_assoc, app_nil_r.
    + apply mlead_ann; [assumption|lia].
    + intros j Hj. apply mlead_none; [lia|]. intros k Hk. rewrite Hv2 in Hk. injection Hk as <-. lia.
Qed.

Lemma mcross_ccross (A : list (list N)) la lb lc :
  nc = la + lb + lc -> md_v1 d = la -> 1 <= lb -> lc = length A ->
  md_v2 d = match A with [] => None | _ => Some (la + lb) end ->
  EA code (mcross d) = ccross A la lb lc.
Proof.
  intros Hnc Hv1 Hb Hc Hv2. unfold EA, mcross, ccross. rewrite !map_map.
  assert (mwidth d = la + (1 + (lb + match A with [] => 0 | _ => 1 + lc end))) as ->.
  { unfold mwidth. rewrite Hv2, Hnc. destruct A; cbn [length] in *; lia. }
  set (f := fun x : nat => erase (abs_cell code (if x =? md_v1 d then CMain
              else match md_v2 d with Some k => if x =? S k then CHCross else CHOut | None => CHOut end))).
  assert (forall j, j <> la -> j <> S (la + lb) -> f j = HOut) as Fo.
  { intros j J1 J2. unfold f. replace (j =? md_v1 d) with false by (symmetry; apply Nat.eqb_neq; lia).
    rewrite Hv2. destruct A; [reflexivity|]. now replace (j =? S (la + lb)) with false by (symmetry; apply Nat.eqb_neq; lia). }
  assert (f la = Main) as Fm by (unfold f; now rewrite Hv1, Nat.eqb_refl).
  rewrite seq_app, map_app. cbn [Nat.add]. rewrite (map_const_segment f HOut la 0) by (intros; apply Fo; lia). f_equal.
  cbn [seq map]. rewrite Fm. f_equal.
  rewrite seq_app, map_app. rewrite (map_const_segment f HOut lb (S la)) by (intros; apply Fo; lia). f_equal.
  destruct A as [|a0 A]; [reflexivity|]. cbn [seq map]. f_equal.
  - unfold f. replace (S la + lb =? md_v1 d) with false by (symmetry; apply Nat.eqb_neq; lia).
    rewrite Hv2. now replace (S la + lb =? S (la + lb)) with true by (symmetry; apply Nat.eqb_eq; lia).
  - apply map_const_segment. intros j Hj. apply Fo; lia.
Qed.
End MRows.

Lemma nth_map' {A B} (f : A -> B) l q d1 d2 : q < length l -> nth q (map f l) d1 = f (nth q l d2).
Proof. intro Hq. rewrite (nth_indep _ d1 (f d2)) by now rewrite map_length. apply map_nth. Qed.

Lemma flat_map_single {A B} (f : A -> B) (g : A -> list B) l : (forall a, In a l -> g a = [f a]) -> flat_map g l = map f l.
Proof. induction l as [|a l IH]; intro Hg; [reflexivity|]. cbn [flat_map map]. rewrite (Hg a (or_introl eq_refl)), IH; [reflexivity|]. intros b Hb. apply Hg. now right. Qed.
Lemma flat_map_const {B} (g : nat -> list B) v n : forall a, (forall j, a <= j < a + n -> g j = [v]) -> flat_map g (seq a n) = repeat v n.
Proof. induction n as [|n IH]; intros a Hg; [reflexivity|]. cbn [seq flat_map repeat]. rewrite Hg by lia. cbn [app]. f_equal. apply IH. intros j Hj. apply Hg. lia. Qed.

(* ================================================================== a drawn table with header lines *)
Section HeaderTable.
Variable code : list N -> N.
Variable s : htable.
Hypothesis Hs : wf_htable s = true.

Local Notation d := (header_drawing s).
Local Notation t := (abs_htable s code).
Local Notation ni := (h_ni s).
Local Notation no := (h_no s).
Local Notation na := (h_na s).
Local Notation nr := (h_nr s).
Local Notation hdr := (h_hdr s).
Local Notation top := (h_top s).
Local Notation cout := (c_out s).
Local Notation cann := (c_ann s).
Local Notation bcd := (bc code).
Local Notation hp_text := (bc code (ht_hp s)).
Local Notation numb := (fun r : block * list block * list block * list block => let '(n, _, _, _) := r in n).
Local Notation num_text := (fun k : nat => bc code (nth (k - 1) (map numb (ht_rules s)) [])).
Local Notation A := (map btext (ht_anns s)).

Lemma hfacts :
  wf_mdraw d = true /\ 1 <= ni /\ 1 <= no /\ 1 <= nr /\
  (forall n i o a, In (n, i, o, a) (ht_rules s) -> length i = ni /\ length o = no /\ length a = na) /\
  mcols d = cann + na /\ mrows d = hdr + nr.
Proof.
  unfold wf_htable in Hs. rewrite !andb_true_iff in Hs. destruct Hs as (((((((H1 & H2) & H3) & H4) & H5) & H6) & H7) & H8).
  apply Nat.leb_le in H2, H3, H4. apply Nat.eqb_eq in H6, H7. repeat split; try assumption.
  - unfold hrule_lengths_ok in H5. rewrite forallb_forall in H5. specialize (H5 _ H). cbn in H5. rewrite !andb_true_iff in H5.
    destruct H5 as ((D1 & D2) & D3). now apply Nat.eqb_eq in D1.
  - unfold hrule_lengths_ok in H5. rewrite forallb_forall in H5. specialize (H5 _ H). cbn in H5. rewrite !andb_true_iff in H5.
    destruct H5 as ((D1 & D2) & D3). now apply Nat.eqb_eq in D2.
  - unfold hrule_lengths_ok in H5. rewrite forallb_forall in H5. specialize (H5 _ H). cbn in H5. rewrite !andb_true_iff in H5.
    destruct H5 as ((D1 & D2) & D3). now apply Nat.eqb_eq in D3.
Qed.

(* the numbers of header lines *)
Lemma hdr_facts : 1 <= top /\ top <= hdr /\ hdr <= top + 1 /\ hdr <= 3 /\
  top = 1 + (if h_lrow s then 1 else 0) /\ hdr = top + (if ht_values s then 1 else 0) /\ (h_lrow s = true -> h_multi s = true).
Proof.
  unfold h_top, h_hdr, h_lrow. destruct (h_multi s), (ht_label s), (ht_values s); cbn; repeat split; try lia; discriminate.
Qed.

Lemma t_multi : multi t = h_multi s.
Proof. unfold multi, h_multi, h_no. cbn [abs_htable t_outputs]. now rewrite map_length. Qed.
Lemma t_label_row : label_row t = h_lrow s.
Proof.
  unfold label_row. rewrite t_multi. unfold h_lrow. cbn [abs_htable t_label]. destruct (h_multi s); [|reflexivity].
  now destruct (ht_label s).
Qed.
Lemma t_hdr : Model.hdr t = hdr.
Proof. unfold Model.hdr, h_hdr. now rewrite t_label_row. Qed.
Lemma t_top_rows : top_rows t = top.
Proof. unfold top_rows, h_top. now rewrite t_hdr. Qed.

Lemma t_wf : wf t = true.
Proof.
  destruct hfacts as (_ & Hi & Ho & _ & Hl & _). unfold wf, abs_htable. cbn [t_inputs t_outputs t_annotations t_rules]. rewrite !map_length.
  rewrite !andb_true_iff. repeat split; try (apply Nat.ltb_lt; assumption).
  apply forallb_forall. intros r Hr. apply in_map_iff in Hr. destruct Hr as ((((n & i) & o) & a) & <- & Hin).
  cbn [r_in r_out r_ann]. rewrite !map_length. destruct (Hl n i o a Hin) as (L1 & L2 & L3). fold ni no na. now rewrite L1, L2, L3, !Nat.eqb_refl.
Qed.
Lemma t_rules_ne : t_rules t <> [].
Proof. destruct hfacts as (_ & _ & _ & Hr & _). cbn [abs_htable t_rules]. unfold h_nr in Hr. destruct (ht_rules s); [cbn in Hr; lia|discriminate]. Qed.
Lemma t_rules_length : length (t_rules t) = nr.
Proof. cbn [abs_htable t_rules]. apply map_length. Qed.

(* ------------------------------------------------------------------ the blocks of a header line *)
Lemma hb_hp k : nth 0 (hrow_blocks s k) [] = ht_hp s.
Proof. reflexivity. Qed.
Lemma hb_in k j : 1 <= j -> j < cout -> nth j (hrow_blocks s k) [] = sel s k (nth (j - 1) (ht_ins s) ([], [])).
Proof.
  intros J1 J2. unfold c_out, h_ni in J2. unfold hrow_blocks. destruct j as [|j]; [lia|]. cbn [nth]. replace (S j - 1) with j by lia.
  rewrite app_nth1 by (rewrite map_length; lia). apply nth_map'. lia.
Qed.
Lemma hb_out k j : cout <= j -> j < cann -> nth j (hrow_blocks s k) [] =
  if h_lrow s && (k =? 0) then label_block s else sel s k (nth (j - cout) (ht_outs s) ([], [])).
Proof.
  intros J1 J2. unfold c_out, c_ann, h_ni, h_no in *. unfold hrow_blocks. destruct j as [|j]; [lia|]. cbn [nth].
  rewrite app_nth2 by (rewrite map_length; lia). rewrite map_length.
  destruct (h_lrow s && (k =? 0)).
  - rewrite app_nth1 by (rewrite map_length; lia). rewrite (nth_map' (fun _ : block * block => label_block s) (ht_outs s) _ [] ([], [])) by lia. reflexivity.
  - rewrite app_nth1 by (rewrite map_length; lia). rewrite (nth_map' (sel s k) (ht_outs s) _ [] ([], [])) by lia. reflexivity.
Qed.
Lemma hb_ann k j : cann <= j -> nth j (hrow_blocks s k) [] = nth (j - cann) (ht_anns s) [].
Proof.
  intros J1. unfold c_ann, h_ni, h_no in *. unfold hrow_blocks. destruct j as [|j]; [lia|]. cbn [nth].
  rewrite app_nth2 by (rewrite map_length; lia). rewrite map_length.
  rewrite app_nth2 by (destruct (h_lrow s && (k =? 0)); rewrite map_length; lia).
  f_equal. destruct (h_lrow s && (k =? 0)); rewrite map_length; lia.
Qed.

(* ------------------------------------------------------------------ the merged cells of the header *)
Lemma hreg_rule i j : hdr <= i -> hreg s i j =
  if (1 <=? j) && (j <? cout) then
    match merge_of s (j - 1) (i - hdr) with Some (_, a, b) => (hdr + a, j, S (hdr + b), S j) | None => (i, j, S i, S j) end
  else (i, j, S i, S j).
Proof. intro Hi. unfold hreg. now tr_leb hdr i. Qed.
Lemma hreg_hp k : k < hdr -> hreg s k 0 = (0, 0, hdr, 1).
Proof. intro Hk. unfold hreg. now fa_leb hdr k. Qed.
Lemma hreg_in k j : k < hdr -> 1 <= j -> j < cout -> hreg s k j = if k <? top then (0, j, top, S j) else (top, j, hdr, S j).
Proof. intros Hk J1 J2. unfold hreg. fa_leb hdr k. fa_eqb j 0. now tr_ltb j cout. Qed.
Lemma hreg_out k j : k < hdr -> cout <= j -> j < cann -> hreg s k j =
  if h_multi s then (if h_lrow s && (k =? 0) then (0, cout, 1, cann) else (k, j, S k, S j))
  else (if k <? top then (0, j, top, S j) else (top, j, hdr, S j)).
Proof. intros Hk J1 J2. unfold hreg. fa_leb hdr k. unfold c_out in J1. fa_eqb j 0. fold cout in J1. fa_ltb j cout. now tr_ltb j cann. Qed.
Lemma hreg_ann k j : k < hdr -> cann <= j -> hreg s k j = (0, j, hdr, S j).
Proof.
  intros Hk J1. unfold hreg. fa_leb hdr k. unfold c_ann, c_out in *. fa_eqb j 0. fa_ltb j (1 + ni). now fa_ltb j (1 + ni + no).
Qed.


(* ------------------------------------------------------------------ the text of every grid cell *)
Lemma htxt_hdr k j : k < hdr -> htxt s k j = nth j (hrow_blocks s k) [].
Proof. intro Hk. unfold htxt, grid_blocks. now tr_ltb k hdr. Qed.

Lemma block_eqb_eq (a b : block) : block_eqb a b = true -> a = b.
Proof.
  assert (forall x y : list N, all2 N.eqb x y = true -> x = y) as H1.
  { induction x as [|c x IH]; intros [|c' y] E'; cbn [all2] in E'; try discriminate; [reflexivity|].
    apply andb_true_iff in E'. destruct E' as [E1 E2]. apply N.eqb_eq in E1. subst. f_equal. now apply IH. }
  unfold block_eqb. revert b. induction a as [|x a IH]; intros [|y b] E'; cbn [all2] in E'; try discriminate; [reflexivity|].
  apply andb_true_iff in E'. destruct E' as [E1 E2]. f_equal; [now apply H1|now apply IH].
Qed.

(* the entry of input q in rule r is where the grid of blocks has it *)
Lemma rule_entry r q : r < nr -> q < ni -> htxt s (hdr + r) (S q) = input_entry s r q.
Proof.
  intros Hr Hq. destruct hfacts as (_ & _ & _ & _ & Hl & _). unfold htxt, grid_blocks, input_entry. fa_ltb (hdr + r) hdr. replace (hdr + r - hdr) with r by lia.
  assert (In (nth r (ht_rules s) ([], [], [], [])) (ht_rules s)) as Hin by (apply nth_In; unfold h_nr in Hr; lia).
  destruct (nth r (ht_rules s) ([], [], [], [])) as [[[n ii] o] a]. destruct (Hl n ii o a Hin) as (L1 & _).
  unfold rule_blocks. cbn [nth]. apply app_nth1. lia.
Qed.

Lemma merged_entry q a b r : In (q, a, b) (ht_merge s) -> a <= r -> r <= b -> input_entry s r q = input_entry s a q.
Proof.
  intros Hin Ha Hb. unfold wf_htable in Hs. rewrite !andb_true_iff in Hs. destruct Hs as (_ & H8). unfold merged_same in H8.
  rewrite forallb_forall in H8. specialize (H8 _ Hin).
  change (forallb (fun r => block_eqb (input_entry s r q) (input_entry s a q)) (seq a (S b - a)) = true) in H8.
  rewrite forallb_forall in H8. apply block_eqb_eq. apply H8. apply in_seq. lia.
Qed.

Lemma mtext_cell i j : i < hdr + nr -> j < cann + na -> mtext d i j = btext (htxt s i j).
Proof.
  intros Hir Hj. destruct hdr_facts as (F1 & F2 & F3 & F4 & F5 & F6 & F7). destruct hfacts as (_ & Hi1 & Ho1 & _).
  unfold mtext. cbn [header_drawing md_reg md_txt].
  destruct (Nat.le_gt_cases hdr i) as [Hi|Hi].
  { rewrite hreg_rule by assumption. destruct ((1 <=? j) && (j <? cout)) eqn:Ej; [|reflexivity].
    apply andb_true_iff in Ej. destruct Ej as [J1 J2]. apply Nat.leb_le in J1. apply Nat.ltb_lt in J2. unfold c_out in J2.
    destruct (merge_of s (j - 1) (i - hdr)) as [[[q a] b]|] eqn:Em; [|reflexivity].
    unfold merge_of in Em. apply find_some in Em. destruct Em as [Hin Hp]. rewrite !andb_true_iff in Hp. destruct Hp as ((P1 & P2) & P3).
    apply Nat.eqb_eq in P1. apply Nat.leb_le in P2, P3. subst q.
    unfold btext.
    assert (htxt s (hdr + a) j = input_entry s a (j - 1)) as -> by (rewrite <- (rule_entry a (j - 1)) by lia; f_equal; lia).
    assert (htxt s i j = input_entry s (i - hdr) (j - 1)) as -> by (rewrite <- (rule_entry (i - hdr) (j - 1)) by lia; f_equal; lia).
    now rewrite (merged_entry (j - 1) a b (i - hdr) Hin P2 P3). }
  destruct (Nat.eq_dec j 0) as [->|J0].
  { rewrite hreg_hp by assumption. unfold btext. now rewrite !htxt_hdr by lia. }
  destruct (Nat.lt_ge_cases j cout) as [J1|J1].
  { rewrite hreg_in by (try assumption; lia). destruct (i <? top) eqn:Et.
    - apply Nat.ltb_lt in Et. unfold btext. rewrite !htxt_hdr, !hb_in by lia. unfold sel. tr_ltb 0 top. now tr_ltb i top.
    - apply Nat.ltb_ge in Et. unfold btext. rewrite !htxt_hdr, !hb_in by lia. unfold sel. rewrite Nat.ltb_irrefl. now fa_ltb i top. }
  destruct (Nat.lt_ge_cases j cann) as [J2|J2].
  { rewrite hreg_out by (try assumption; lia). destruct (h_multi s) eqn:Em.
    - destruct (h_lrow s && (i =? 0)) eqn:El; [|reflexivity].
      apply andb_true_iff in El. destruct El as [El Ei]. apply Nat.eqb_eq in Ei. subst i.
      unfold btext. rewrite !htxt_hdr, !hb_out by (unfold c_ann, c_out in *; lia). now rewrite El.
    - assert (h_lrow s = false) as El by (destruct (h_lrow s) eqn:E; [discriminate (F7 eq_refl)|reflexivity]).
      destruct (i <? top) eqn:Et.
      + apply Nat.ltb_lt in Et. unfold btext. rewrite !htxt_hdr, !hb_out by lia. rewrite El. cbn [andb]. unfold sel. tr_ltb 0 top. now tr_ltb i top.
      + apply Nat.ltb_ge in Et. unfold btext. rewrite !htxt_hdr, !hb_out by lia. rewrite El. cbn [andb]. unfold sel. rewrite Nat.ltb_irrefl. now fa_ltb i top. }
  rewrite hreg_ann by assumption. unfold btext. now rewrite !htxt_hdr, !hb_ann by lia.
Qed.

(* the texts of header line k: marker and inputs / outputs / annotations *)
Definition a_k (k : nat) : list (list N) := btext (ht_hp s) :: map (fun ev => btext (sel s k ev)) (ht_ins s).
Definition b_k (k : nat) : list (list N) :=
  if h_lrow s && (k =? 0) then map (fun _ => btext (label_block s)) (ht_outs s) else map (fun nv => btext (sel s k nv)) (ht_outs s).

Lemma row_texts k : map btext (hrow_blocks s k) = a_k k ++ b_k k ++ A.
Proof. unfold hrow_blocks, a_k, b_k. cbn [map app]. rewrite !map_app, !map_map. now destruct (h_lrow s && (k =? 0)); rewrite map_map. Qed.

Lemma d_ncols : mcols d = cann + na. Proof. apply hfacts. Qed.
Lemma d_nrows : mrows d = hdr + nr. Proof. apply hfacts. Qed.
Lemma d_v2 : md_v2 d = match A with [] => None | _ => Some cann end.
Proof. cbn [header_drawing md_v2]. now destruct (ht_anns s). Qed.
Lemma a_k_length k : length (a_k k) = 1 + ni. Proof. unfold a_k. cbn [length]. now rewrite map_length. Qed.
Lemma b_k_length k : length (b_k k) = no. Proof. unfold b_k. destruct (h_lrow s && (k =? 0)); now rewrite map_length. Qed.
Lemma A_length : length A = na. Proof. apply map_length. Qed.

Lemma canvas_header_row k : k < hdr -> EA code (mrow d k) = crow code A (a_k k) (b_k k) A.
Proof.
  intro Hk. destruct hfacts as (Hd & Hi1 & Ho1 & _). apply (mrow_crow code d).
  - intros j Hj. rewrite d_ncols in Hj. rewrite mtext_cell by (try assumption; lia). rewrite htxt_hdr by assumption. rewrite <- row_texts.
    change (@nil N) with (btext []). symmetry. apply map_nth.
  - rewrite d_ncols, a_k_length, b_k_length, A_length. unfold c_ann. lia.
  - now rewrite a_k_length.
  - now rewrite b_k_length.
  - reflexivity.
  - rewrite d_v2, a_k_length, b_k_length. reflexivity.
Qed.

(* a rule line *)
Lemma canvas_rule_row_h k n i o a : nth_error (ht_rules s) k = Some (n, i, o, a) ->
  EA code (mrow d (hdr + k)) = crow code A (btext n :: map btext i) (map btext o) (map btext a).
Proof.
  intro Hk. destruct hfacts as (Hd & Hi1 & Ho1 & _ & Hl & _). destruct (Hl n i o a (nth_error_In _ _ Hk)) as (L1 & L2 & L3).
  apply (mrow_crow code d).
  - intros j Hj. rewrite d_ncols in Hj. assert (k < nr) as Lk by (apply nth_error_Some; unfold h_nr; congruence).
    rewrite mtext_cell by (try assumption; lia). unfold htxt, grid_blocks. fa_ltb (hdr + k) hdr.
    replace (hdr + k - hdr) with k by lia. rewrite (nth_error_nth _ _ _ Hk). unfold rule_blocks.
    replace ((btext n :: map btext i) ++ map btext o ++ map btext a) with (map btext (n :: i ++ o ++ a)) by (cbn [map app]; now rewrite !map_app).
    change (@nil N) with (btext []). symmetry. apply map_nth.
  - rewrite d_ncols. cbn [length]. rewrite !map_length. unfold c_ann. lia.
  - cbn [length]. rewrite map_length. cbn [header_drawing md_v1]. unfold c_out. lia.
  - rewrite map_length. lia.
  - rewrite !map_length. exact L3.
  - rewrite d_v2. cbn [length]. rewrite !map_length, L1, L2. reflexivity.
Qed.

Lemma canvas_cross_h : EA code (mcross d) = ccross A (S ni) no na.
Proof.
  destruct hfacts as (Hd & Hi1 & Ho1 & _). apply (mcross_ccross code d).
  - rewrite d_ncols. unfold c_ann. lia.
  - reflexivity.
  - assumption.
  - now rewrite A_length.
  - rewrite d_v2. reflexivity.
Qed.


(* ------------------------------------------------------------------ the lines of the laid-out plane, names erased *)
Lemma sep_ann_erased_h (c : cell) (l : list cell) (l' : list cell) : erase c = c -> map erase l = l' ->
  map erase (sep_ann t c l) = match A with [] => [] | _ => c :: l' end.
Proof.
  intros Hc Hl. unfold sep_ann. cbn [abs_htable t_annotations]. destruct (ht_anns s) as [|a0 A0]; [reflexivity|].
  cbn [map erase]. now rewrite Hc, Hl.
Qed.

Lemma single_output : h_multi s = false -> exists nv, ht_outs s = [nv].
Proof.
  intro Em. destruct hfacts as (_ & _ & Ho & _). unfold h_multi in Em. apply Nat.ltb_ge in Em. unfold h_no in *.
  destruct (ht_outs s) as [|nv [|nv' r]]; cbn [length] in *; try lia. now exists nv.
Qed.

Lemma header_erased_h k : erase (marker hp_text) :: map erase (header_row t k) = crow code A (a_k k) (b_k k) A.
Proof.
  destruct hdr_facts as (F1 & F2 & F3 & F4 & F5 & F6 & F7).
  assert (map erase (h_ins t k) = map (R code) (map (fun ev => btext (sel s k ev)) (ht_ins s))) as E1.
  { unfold h_ins. rewrite t_top_rows. unfold sel. destruct (k <? top).
    - rewrite map_map. cbn [erase]. rewrite (map_indexed (fun x : N * N => Region (0%N, 0%N) (fst x))). cbn [abs_htable t_inputs]. now rewrite !map_map.
    - rewrite map_map. cbn [erase]. rewrite (map_indexed (fun x : N * N => Region (0%N, 0%N) (snd x))). cbn [abs_htable t_inputs]. now rewrite !map_map. }
  assert (map erase (h_outs t k) = map (R code) (b_k k)) as E2.
  { unfold h_outs, b_k. rewrite t_multi, t_label_row, t_top_rows. destruct (h_multi s) eqn:Em.
    - destruct (h_lrow s && (k =? 0)) eqn:El.
      + apply andb_true_iff in El. destruct El as [El _]. unfold h_lrow in El. rewrite Em in El. cbn [andb] in El.
        unfold lbl_text, label_block. cbn [abs_htable t_label t_outputs]. rewrite Em. destruct (ht_label s) as [l|]; [|discriminate].
        cbn [option_map]. now rewrite !map_map.
      + unfold sel. destruct (k <? top).
        * rewrite map_map. cbn [erase]. rewrite (map_indexed (fun x : N * N => Region (0%N, 0%N) (fst x))). cbn [abs_htable t_outputs]. now rewrite !map_map.
        * rewrite map_map. cbn [erase]. rewrite (map_indexed (fun x : N * N => Region (0%N, 0%N) (snd x))). cbn [abs_htable t_outputs]. now rewrite !map_map.
    - assert (h_lrow s = false) as -> by (unfold h_lrow; now rewrite Em). cbn [andb].
      destruct (single_output Em) as (nv & Env). unfold lbl_text, indexed, sel. cbn [abs_htable t_outputs t_label]. rewrite Em, Env.
      cbn [map length seq combine fst snd]. now destruct (k <? top). }
  assert (map erase (h_anns t) = map (R code) A) as E3.
  { unfold h_anns. rewrite map_map. cbn [erase]. rewrite (map_indexed (fun x : N => Region (0%N, 0%N) x)). cbn [abs_htable t_annotations]. now rewrite !map_map. }
  unfold crow, header_row, a_k. cbn [marker erase map app]. rewrite map_app. cbn [map erase]. rewrite map_app.
  rewrite E1, E2, (sep_ann_erased_h VAnn _ _ eq_refl E3). reflexivity.
Qed.

Lemma cross_erased_h : HOut :: map erase (cross_row t) = ccross A (S ni) no na.
Proof.
  assert (forall {B} (l : list B), map erase (map (fun _ => HOut) l) = repeat HOut (length l)) as Hc.
  { intros B l. rewrite map_map. cbn [erase]. apply map_const_list. }
  unfold ccross, cross_row. rewrite map_app. cbn [map erase]. rewrite map_app.
  rewrite !Hc, (sep_ann_erased_h HCross _ _ eq_refl (Hc _ _)).
  cbn [abs_htable t_inputs t_outputs t_annotations]. rewrite !map_length. reflexivity.
Qed.

Lemma rule_erased_h k n i o a : nth_error (ht_rules s) k = Some (n, i, o, a) ->
  map erase (Region (10%N, N.of_nat k) (num_text (S k)) ::
             rule_row t (N.of_nat k, {| r_in := map bcd i; r_out := map bcd o; r_ann := map bcd a |}))
  = crow code A (btext n :: map btext i) (map btext o) (map btext a).
Proof.
  intro Hk.
  assert (forall tag (l : list block), map erase (map (fun x => Region tag x) (map bcd l)) = map (R code) (map btext l)) as Hm.
  { intros tag l. rewrite !map_map. reflexivity. }
  unfold crow, rule_row. cbn [map erase fst snd r_in r_out r_ann app]. rewrite map_app. cbn [map erase]. rewrite map_app.
  rewrite !Hm, (sep_ann_erased_h VAnn _ _ eq_refl (Hm _ _)).
  replace (S k - 1) with k by lia. rewrite (nth_error_map_nth numb _ k _ [] Hk). reflexivity.
Qed.


(* ------------------------------------------------------------------ the two planes: same cells up to the names of the regions *)
Lemma mplane_split : mplane d = map (mrow d) (seq 0 hdr) ++ mcross d :: map (mrow d) (seq hdr nr).
Proof.
  destruct hfacts as (_ & _ & _ & Hr & _). unfold mplane. rewrite d_nrows. cbn [header_drawing md_h1 md_h2].
  rewrite seq_app, flat_map_app. cbn [Nat.add]. f_equal.
  - apply flat_map_single. intros i Hi. apply in_seq in Hi. now fa_eqb i hdr.
  - destruct nr as [|n] eqn:En; [lia|]. cbn [seq flat_map map]. rewrite Nat.eqb_refl. cbn [app]. do 2 f_equal.
    apply flat_map_single. intros i Hi. apply in_seq in Hi. now fa_eqb i hdr.
Qed.

Lemma layout_split : layout_rows hp_text num_text t =
  map (fun k => marker hp_text :: header_row t k) (seq 0 hdr) ++
  (HOut :: cross_row t) :: zipcons (numbers_cells num_text t) (map (rule_row t) (indexed (t_rules t))).
Proof.
  unfold layout_rows, layout_h. rewrite t_hdr. rewrite zipcons_app by now rewrite repeat_length, map_length, seq_length.
  cbn [zipcons]. f_equal. rewrite <- (seq_length hdr 0) at 1. apply zipcons_repeat_map.
Qed.

Lemma seq_add a n : seq a n = map (fun k => a + k) (seq 0 n).
Proof. revert a. induction n as [|n IH]; intro a; [reflexivity|]. cbn [seq map]. rewrite Nat.add_0_r. f_equal. rewrite IH, <- seq_shift, map_map. apply map_ext. intro k. lia. Qed.

Theorem planes_agree_h : E (layout_rows hp_text num_text t) = E (map (map (abs_cell code)) (mplane d)).
Proof.
  rewrite layout_split, mplane_split. unfold E. rewrite !map_app, !map_map. cbn [map]. f_equal; [|f_equal].
  - apply map_ext_in. intros k Hk. apply in_seq in Hk. cbn [map]. rewrite header_erased_h. symmetry. apply canvas_header_row. lia.
  - cbn [erase]. rewrite cross_erased_h. symmetry. apply canvas_cross_h.
  - unfold numbers_cells, indexed. fold (E (zipcons (map (fun i => Region (10%N, N.of_nat i) (num_text (S i))) (seq 0 (length (t_rules t))))
       (map (rule_row t) (combine (map N.of_nat (seq 0 (length (t_rules t)))) (t_rules t))))).
    rewrite (zip_indexed _ _ (fun k => EA code (mrow d (hdr + k))) (t_rules t) 0).
    + rewrite t_rules_length, (seq_add hdr nr), !map_map. reflexivity.
    + intros k x Hx. cbn [Nat.add]. cbn [abs_htable t_rules] in Hx. rewrite nth_error_map in Hx.
      destruct (nth_error (ht_rules s) k) as [(((n & i) & o) & a)|] eqn:Hk; [|discriminate]. cbn [option_map] in Hx. injection Hx as <-.
      rewrite (canvas_rule_row_h k n i o a Hk). apply (rule_erased_h k n i o a Hk).
Qed.


(* ------------------------------------------------------------------ the two planes: same partition of the header lines into regions *)
Lemma rid_eqb_refl a : rid_eqb a a = true.
Proof. unfold rid_eqb. now rewrite !N.eqb_refl. Qed.

Lemma zipw_const {B C} (f : B -> C -> bool) v : forall a b, (forall x y, In x a -> In y b -> f x y = v) -> length a = length b ->
  zipw f a b = repeat v (length a).
Proof.
  induction a as [|x a IH]; intros [|y b] Hf L; cbn [length] in L; try discriminate; [reflexivity|]. cbn [zipw length repeat].
  rewrite (Hf x y (or_introl eq_refl) (or_introl eq_refl)). f_equal. apply IH; [|lia]. intros x' y' Hx Hy. apply Hf; now right.
Qed.

Lemma row_at_split (F : nat -> list cell) n rest k : k < n -> row_at (map F (seq 0 n) ++ rest) k = F k.
Proof. intro Hk. unfold row_at. rewrite app_nth1 by now rewrite map_length, seq_length. now apply CanvasProofs.nth_map_seq. Qed.

Definition pat (k : nat) : list bool :=
  true :: repeat (S k <? top) ni ++ false :: repeat false no ++ match ht_anns s with [] => [] | _ => false :: repeat true na end.

Lemma pattern_layout k : S k < hdr -> below_pattern (layout_rows hp_text num_text t) k = pat k.
Proof.
  intro Hk. destruct hdr_facts as (F1 & F2 & F3 & F4 & F5 & F6 & F7). destruct hfacts as (_ & Hi1 & Ho1 & _).
  unfold below_pattern. rewrite layout_split, !row_at_split by lia. unfold header_row, pat. cbn [zipw same_id marker]. rewrite rid_eqb_refl. f_equal.
  rewrite zipw_app by now rewrite !(h_ins_length t).
  assert (zipw same_id (h_ins t k) (h_ins t (S k)) = repeat (S k <? top) ni) as ->.
  { unfold h_ins. rewrite zipw_map, t_top_rows.
    rewrite (map_ext _ (fun _ => S k <? top)).
    - rewrite map_const_list, indexed_length. cbn [abs_htable t_inputs]. now rewrite map_length.
    - intros ie. destruct (Nat.ltb_spec k top), (Nat.ltb_spec (S k) top); try lia; cbn [same_id]; [apply rid_eqb_refl|reflexivity]. }
  f_equal. cbn [zipw same_id]. f_equal. rewrite zipw_app by now rewrite !(h_outs_length t).
  assert (zipw same_id (h_outs t k) (h_outs t (S k)) = repeat false no) as ->.
  { assert (length (h_outs t k) = no) as L by (rewrite (h_outs_length t); cbn [abs_htable t_outputs]; now rewrite map_length).
    rewrite <- L. apply zipw_const; [|now rewrite !(h_outs_length t)].
    intros x y Hx Hy. unfold h_outs in Hx, Hy. rewrite t_multi, t_label_row, t_top_rows in Hx, Hy.
    replace (S k =? 0) with false in Hy by reflexivity. rewrite andb_false_r in Hy. revert Hx Hy.
    destruct (h_multi s) eqn:Em.
    - destruct (h_lrow s) eqn:El; cbn [andb].
      + destruct (Nat.eqb_spec k 0) as [->|Hk0].
        * intros Hx Hy. apply in_map_iff in Hx. destruct Hx as (x0 & <- & _). destruct (1 <? top); apply in_map_iff in Hy; destruct Hy as (y0 & <- & _); reflexivity.
        * assert (k = 1) as -> by lia. tr_ltb 1 top. fa_ltb 2 top. intros Hx Hy. apply in_map_iff in Hx. destruct Hx as (x0 & <- & _).
          apply in_map_iff in Hy. destruct Hy as (y0 & <- & _). reflexivity.
      + assert (k = 0) as -> by lia. tr_ltb 0 top. fa_ltb 1 top. intros Hx Hy. apply in_map_iff in Hx. destruct Hx as (x0 & <- & _).
        apply in_map_iff in Hy. destruct Hy as (y0 & <- & _). reflexivity.
    - assert (h_lrow s = false) as El by (destruct (h_lrow s) eqn:E'; [discriminate (F7 eq_refl)|reflexivity]). rewrite El in F5.
      assert (k = 0) as -> by lia. tr_ltb 0 top. fa_ltb 1 top. intros Hx Hy. apply in_map_iff in Hx. destruct Hx as (x0 & <- & _).
      apply in_map_iff in Hy. destruct Hy as (y0 & <- & _). reflexivity. }
  f_equal. unfold sep_ann. cbn [abs_htable t_annotations]. destruct (ht_anns s) as [|a0 A0] eqn:Ea; [reflexivity|].
  cbn [map zipw same_id]. f_equal. unfold h_anns. rewrite zipw_map. rewrite (map_ext _ (fun _ => true)) by (intro; apply rid_eqb_refl).
  rewrite map_const_list, indexed_length. cbn [abs_htable t_annotations]. rewrite Ea. cbn [map length]. unfold h_na. now rewrite Ea, map_length.
Qed.

Lemma rect_eqb_diff (a b : creg) : fst (fst (fst a)) <> fst (fst (fst b)) -> rect_eqb a b = false.
Proof. intro H. apply rect_eqb_neq. intro E'. subst. contradiction. Qed.

Lemma pattern_canvas k : S k < hdr -> below_pattern (map (map (abs_cell code)) (mplane d)) k = pat k.
Proof.
  intro Hk. destruct hdr_facts as (F1 & F2 & F3 & F4 & F5 & F6 & F7). destruct hfacts as (Hd & Hi1 & Ho1 & Hr1 & _).
  unfold below_pattern. rewrite mplane_split, map_app, map_map, !row_at_split by lia.
  rewrite (zip_mrows code d Hd) by (rewrite d_nrows; lia). rewrite d_ncols. cbn [header_drawing md_reg].
  assert (forall j, j <> cout -> j <> cann -> mlead d j = []) as L0.
  { intros j J1 J2. apply mlead_none; [assumption|]. intros k' E'. rewrite d_v2 in E'. destruct A; [discriminate|]. injection E' as <-. assumption. }
  unfold c_ann at 1. replace (1 + ni + no + na) with (1 + (ni + (no + na))) by lia. rewrite !seq_app, !flat_map_app. cbn [Nat.add].
  unfold pat. cbn [seq flat_map]. rewrite L0 by (unfold c_ann, c_out; lia). rewrite !hreg_hp by lia. rewrite rect_eqb_refl. cbn [map app]. f_equal. f_equal.
  - apply flat_map_const. intros j Hj. rewrite L0 by (unfold c_ann, c_out; lia). cbn [map app]. f_equal.
    rewrite !hreg_in by (unfold c_out; lia).
    destruct (Nat.ltb_spec k top), (Nat.ltb_spec (S k) top); try lia; [apply rect_eqb_refl|]. apply rect_eqb_diff. cbn [fst]. lia.
  - assert (forall j, cout <= j -> j < cann -> rect_eqb (hreg s k j) (hreg s (S k) j) = false) as Ho.
    { intros j J1 J2. rewrite !hreg_out by (try assumption; lia). replace (S k =? 0) with false by reflexivity. rewrite andb_false_r.
      destruct (h_multi s) eqn:Em.
      - destruct (h_lrow s && (k =? 0)); apply rect_eqb_diff; cbn [fst]; lia.
      - assert (h_lrow s = false) as El by (destruct (h_lrow s) eqn:E'; [discriminate (F7 eq_refl)|reflexivity]). rewrite El in F5.
        destruct (Nat.ltb_spec k top), (Nat.ltb_spec (S k) top); try lia. apply rect_eqb_diff. cbn [fst]. lia. }
    replace (S ni) with cout by reflexivity. replace (S (ni + no)) with cann by (unfold c_ann; lia).
    destruct no as [|n] eqn:En; [lia|]. cbn [seq flat_map repeat].
    assert (mlead d cout = [CVOut]) as ->.
    { apply mlead_main; [reflexivity|]. intros k' E'. rewrite d_v2 in E'. destruct A; [discriminate|]. injection E' as <-. unfold c_ann, c_out. lia. }
    cbn [map app]. rewrite Ho by (unfold c_ann, c_out; lia). f_equal. f_equal.
    rewrite (flat_map_const _ false n (S cout)).
    2:{ intros j Hj. rewrite L0 by (unfold c_ann, c_out in *; lia). cbn [map app]. f_equal. apply Ho; unfold c_ann, c_out in *; lia. }
    f_equal.
    destruct (ht_anns s) as [|a0 A0] eqn:Ea; [unfold h_na; rewrite Ea; reflexivity|].
    assert (na = S (length A0)) as Ena by (unfold h_na; now rewrite Ea). rewrite Ena. cbn [seq flat_map repeat].
    assert (mlead d cann = [CVAnn]) as ->.
    { apply mlead_ann; [rewrite d_v2, Ea; reflexivity|]. cbn [header_drawing md_v1]. unfold c_ann, c_out. lia. }
    cbn [map app]. rewrite !hreg_ann by lia. rewrite rect_eqb_refl. f_equal. f_equal.
    apply flat_map_const. intros j Hj. rewrite L0 by (unfold c_ann, c_out in *; lia). cbn [map app]. f_equal.
    rewrite !hreg_ann by lia. apply rect_eqb_refl.
Qed.


(* ------------------------------------------------------------------ text -> table *)
Theorem text_to_table_headers parse_hp parse_num hp :
  parse_hp hp_text = Some hp ->
  (forall k n i o a, nth_error (ht_rules s) k = Some (n, i, o, a) -> parse_num (bcd n) = Some (S k)) ->
  exists p, canvas_to_plane code (drawm d) = Some p /\
            recognize_plane parse_hp parse_num p = Some (AsRow, hp, nr, fields_of t).
Proof.
  intros Hhp Hnum. destruct hfacts as (Hd & _).
  exists (map (map (abs_cell code)) (mplane d)). split; [apply (draw_roundtrip_merged code d Hd)|].
  assert (forall k, 1 <= k <= length (t_rules t) -> parse_num (num_text k) = Some k) as Hn.
  { intros k Hk. rewrite t_rules_length in Hk. destruct k as [|k]; [lia|]. replace (S k - 1) with k by lia.
    destruct (nth_error (ht_rules s) k) as [(((n & i) & o) & a)|] eqn:Ek.
    - rewrite (nth_error_map_nth numb _ k _ [] Ek). apply (Hnum k n i o a Ek).
    - apply nth_error_None in Ek. unfold h_nr in Hk. lia. }
  rewrite (recognize_plane_partition parse_hp parse_num (layout_rows hp_text num_text t) _ hp (length (t_rules t)) (length (t_inputs t)) hdr).
  - rewrite (roundtrip_rows_in_range parse_hp parse_num hp_text hp num_text Hhp t t_wf t_rules_ne Hn). now rewrite t_rules_length.
  - split; [apply planes_agree_h|]. intros k Hk. now rewrite pattern_layout, pattern_canvas.
  - apply (orientation_in_range parse_hp parse_num hp_text hp num_text Hhp t t_rules_ne Hn).
  - rewrite tails_P, main_position, t_hdr by apply t_wf. reflexivity.
Qed.

End HeaderTable.
