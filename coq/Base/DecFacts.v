(* Base/DecFacts.v — facts about Base/Dec.v (owner: builder-dec). *)
From Coq Require Import ZArith NArith Bool List Lia.
From DV Require Import Base.Dec.
Open Scope Z_scope.

(* ---------------------------------------------------------------- comparison by value *)
Lemma emin2_comm : forall a b, emin2 a b = emin2 b a.
Proof. intros. unfold emin2. apply Z.min_comm. Qed.

Lemma veq_refl : forall a, veq a a.
Proof. intros a. unfold veq. reflexivity. Qed.

Lemma veq_sym : forall a b, veq a b -> veq b a.
Proof. intros a b H. unfold veq in *. rewrite (emin2_comm b a). symmetry. exact H. Qed.

Lemma dcmp_eq_iff_veq : forall a b, dcmp a b = Eq <-> veq a b.
Proof. intros a b. unfold dcmp, veq. apply Z.compare_eq_iff. Qed.

Lemma veqb_iff : forall a b, veqb a b = true <-> veq a b.
Proof. intros a b. unfold veqb, veq. apply Z.eqb_eq. Qed.

Lemma dcmp_antisym : forall a b, dcmp b a = CompOpp (dcmp a b).
Proof. intros a b. unfold dcmp. rewrite (emin2_comm b a). apply Z.compare_antisym. Qed.

Lemma dcmp_refl : forall a, dcmp a a = Eq.
Proof. intros a. unfold dcmp. apply Z.compare_refl. Qed.

(* the comparison does not depend on the common exponent chosen *)
Lemma scaled_shift : forall d e0 e1, e1 <= e0 <= expo d -> scaled d e1 = scaled d e0 * 10 ^ (e0 - e1).
Proof.
  intros d e0 e1 H. unfold scaled. rewrite <- Z.mul_assoc, <- Z.pow_add_r by lia. f_equal. f_equal. lia.
Qed.

Lemma cmp_at : forall a b e, e <= expo a -> e <= expo b -> dcmp a b = Z.compare (scaled a e) (scaled b e).
Proof.
  intros a b e Ha Hb. unfold dcmp.
  assert (Hm : e <= emin2 a b <= expo a /\ emin2 a b <= expo b) by (unfold emin2; lia).
  rewrite (scaled_shift a (emin2 a b) e), (scaled_shift b (emin2 a b) e) by lia.
  assert (0 < 10 ^ (emin2 a b - e)) by (apply Z.pow_pos_nonneg; lia).
  apply Zmult_compare_compat_r. lia.
Qed.

Definition emin3 (a b c : dec) : Z := Z.min (expo a) (Z.min (expo b) (expo c)).

Lemma veq_trans : forall a b c, veq a b -> veq b c -> veq a c.
Proof.
  intros a b c H1 H2. apply dcmp_eq_iff_veq in H1. apply dcmp_eq_iff_veq in H2. apply dcmp_eq_iff_veq.
  rewrite (cmp_at a b (emin3 a b c)) in H1 by (unfold emin3; lia).
  rewrite (cmp_at b c (emin3 a b c)) in H2 by (unfold emin3; lia).
  rewrite (cmp_at a c (emin3 a b c)) by (unfold emin3; lia).
  apply Z.compare_eq_iff in H1. apply Z.compare_eq_iff in H2. apply Z.compare_eq_iff. congruence.
Qed.

Lemma dcmp_lt_trans : forall a b c, dcmp a b = Lt -> dcmp b c = Lt -> dcmp a c = Lt.
Proof.
  intros a b c H1 H2.
  rewrite (cmp_at a b (emin3 a b c)) in H1 by (unfold emin3; lia).
  rewrite (cmp_at b c (emin3 a b c)) in H2 by (unfold emin3; lia).
  rewrite (cmp_at a c (emin3 a b c)) by (unfold emin3; lia).
  rewrite Z.compare_lt_iff in *. lia.
Qed.

(* equal numbers compare equal whatever their number of trailing zeros *)
Lemma trailing_zeros_equal : forall s c e k, 0 <= k ->
  dcmp (mkdec s c e) (mkdec s (c * 10 ^ Z.to_N k)%N (e - k)) = Eq.
Proof.
  intros s c e k Hk. apply dcmp_eq_iff_veq. unfold veq, scaled, emin2, sval. cbn [neg coef expo].
  rewrite Z.min_r by lia. replace (e - (e - k)) with k by lia. rewrite Z.sub_diag, Z.pow_0_r.
  rewrite N2Z.inj_mul, N2Z.inj_pow, Z2N.id by lia. change (Z.of_N 10) with 10. destruct s; lia.
Qed.

(* ---------------------------------------------------------------- number of digits *)
Lemma ndigits_fuel_spec : forall f n, (0 < n)%N -> (n < 10 ^ N.of_nat f)%N ->
  (10 ^ (ndigits_fuel f n - 1) <= n < 10 ^ ndigits_fuel f n)%N /\ (1 <= ndigits_fuel f n)%N.
Proof.
  induction f as [|f IH]; intros n Hp Hn.
  - cbn in Hn. lia.
  - cbn [ndigits_fuel]. destruct (n <? 10)%N eqn:E.
    + apply N.ltb_lt in E. cbn. lia.
    + apply N.ltb_ge in E.
      assert (Hq : (0 < n / 10)%N) by (apply N.div_str_pos; lia).
      assert (Hq2 : (n / 10 < 10 ^ N.of_nat f)%N).
      { rewrite Nat2N.inj_succ, N.pow_succ_r' in Hn. apply N.div_lt_upper_bound; lia. }
      destruct (IH (n / 10)%N Hq Hq2) as [[L U] P].
      set (k := ndigits_fuel f (n / 10)%N) in *.
      replace (N.succ k - 1)%N with (N.succ (k - 1)) by lia.
      rewrite !N.pow_succ_r'. pose proof (N.div_mod n 10 ltac:(lia)). pose proof (N.mod_lt n 10 ltac:(lia)).
      set (x := (10 ^ (k - 1))%N) in *. set (y := (10 ^ k)%N) in *. set (q := (n / 10)%N) in *. set (r := (n mod 10)%N) in *. clearbody x y q r k.
      split; [split|]; lia.
Qed.

Lemma ndigits_spec : forall n, (0 < n)%N -> (10 ^ (ndigits n - 1) <= n < 10 ^ ndigits n)%N /\ (1 <= ndigits n)%N.
Proof.
  intros n Hp. unfold ndigits. apply ndigits_fuel_spec; [exact Hp|].
  rewrite N2Nat.id. pose proof (N.size_gt n).
  assert ((2 ^ N.size n <= 10 ^ N.size n)%N) by (apply N.pow_le_mono_l; lia). lia.
Qed.

Lemma ndigits_le : forall n k, (0 < n)%N -> (n < 10 ^ k)%N -> (ndigits n <= k)%N.
Proof.
  intros n k Hp Hk. destruct (ndigits_spec n Hp) as [[L _] P].
  destruct (N.le_gt_cases (ndigits n) k) as [H|H]; [exact H|].
  assert ((10 ^ k <= 10 ^ (ndigits n - 1))%N) by (apply N.pow_le_mono_r; lia). lia.
Qed.

(* ---------------------------------------------------------------- reduce keeps the value *)
Lemma strip_zeros_value : forall f c e c' e', strip_zeros f c e = (c', e') ->
  Z.of_N c * 10 ^ (e - Z.min e e') = Z.of_N c' * 10 ^ (e' - Z.min e e') /\ e <= e'.
Proof.
  induction f as [|f IH]; intros c e c' e' H.
  - cbn in H. injection H as <- <-. split; [reflexivity | lia].
  - cbn [strip_zeros] in H. destruct ((c mod 10 =? 0)%N && (e <? ETOP)) eqn:E.
    + apply andb_true_iff in E. destruct E as [E1 _]. apply N.eqb_eq in E1.
      destruct (IH _ _ _ _ H) as [V L]. split; [|lia].
      rewrite (Z.min_l (e + 1) e') in V by lia. rewrite (Z.min_l e e') by lia.
      rewrite Z.sub_diag, Z.pow_0_r in *.
      replace (e' - e) with (1 + (e' - (e + 1))) by lia. rewrite Z.pow_add_r by lia.
      pose proof (N.div_mod c 10 ltac:(lia)). assert (c = 10 * (c / 10))%N as Hc by lia.
      rewrite Hc at 1. rewrite N2Z.inj_mul. change (Z.of_N 10) with 10. lia.
    + injection H as <- <-. split; [reflexivity | lia].
Qed.

Lemma dreduce_value : forall d, veq (dreduce d) d.
Proof.
  intros d. unfold dreduce. destruct (dis_zero d) eqn:Z0.
  - unfold dis_zero in Z0. apply N.eqb_eq in Z0. unfold veq, scaled, sval, emin2. cbn [neg coef expo]. rewrite Z0. destruct (neg d); cbn; lia.
  - destruct (strip_zeros _ (coef d) (expo d)) as [c e] eqn:S.
    destruct (strip_zeros_value _ _ _ _ _ S) as [V L].
    unfold veq, scaled, sval, emin2. cbn [neg coef expo]. rewrite Z.min_comm. destruct (neg d); lia.
Qed.
