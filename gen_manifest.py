#!/usr/bin/env python3
"""Writes MANIFEST.json from the table below (one entry per claimed property)."""
import json, os

ENGINE = "coq-proof+correspondence"
CHECKS = {}
NOT_APPLICABLE = {}
PENDING = "not yet built in this round: no check is registered, nothing is claimed"

def collect():
    """Every plug-in props/cNN.py that defines MANIFEST = dict(technique=, text=, note=[, category=]) is a claimed check."""
    import importlib, sys
    here = os.path.dirname(os.path.abspath(__file__))
    sys.path.insert(0, here)
    for i in range(1, 21):
        pid = 'C%02d' % i
        if os.path.exists(os.path.join(here, 'props', pid.lower() + '.py')):
            mod = importlib.import_module('props.' + pid.lower())
            if hasattr(mod, 'MANIFEST'):
                CHECKS[pid] = mod.MANIFEST
            if hasattr(mod, 'NOT_APPLICABLE'):
                NOT_APPLICABLE[pid] = mod.NOT_APPLICABLE


def main():
    collect()
    ids = ['C%02d' % i for i in range(1, 21)]
    checks = []
    for pid in ids:
        if pid in CHECKS:
            c = CHECKS[pid]
            checks.append({
              "property_id": pid,
              "quick_cmd": "./check %s --tier quick" % pid,
              "thorough_cmd": "./check %s --tier thorough" % pid,
              "evidence_file": "evidence/%s.json" % pid,
              "replay_cmd_template": "./check %s --replay {path}" % pid,
              "engine": ENGINE,
              "technique": c["technique"],
              "level_claimed": {"category": c.get("category", "proof"), "text": c["text"], "design_ref": "DESIGN.md §6 " + pid},
              "level_note": c["note"]})
    na = [{"property_id": pid, "reason": NOT_APPLICABLE.get(pid, PENDING)} for pid in ids if pid not in CHECKS]
    m = {
      "version": 1,
      "setup_cmd": "./setup.sh",
      "hooks": {
        "guard": "--cfg dmntk_verif",
        "enable": "RUSTFLAGS=\"--cfg dmntk_verif\" cargo build --offline (in /verif/harness: path deps + [patch.crates-io] onto the /repo working tree)",
        "baseline_off_cmd": "cd /repo && cargo test --workspace --no-fail-fast --offline",
        "source_commits": ["3dd96f1", "81e6a85"],
        "add_only": True},
      "engines": [{"name": ENGINE, "path": "check", "serves_properties": sorted(CHECKS),
                   "kind_free_text": "Coq 8.16 theorems over hand-written executable models (coq/), tied to /repo on every run by a differential correspondence check: Rust harness on the working tree vs the model evaluated by vm_compute inside coqc"}],
      "checks": checks,
      "not_applicable": na,
      "notes": "See DESIGN.md. known_findings.txt lists known findings and fixed defects."}
    json.dump(m, open(os.path.join(os.path.dirname(os.path.abspath(__file__)), 'MANIFEST.json'), 'w'), indent=1)

if __name__ == '__main__':
    main()
