#!/usr/bin/env python3
"""Writes MANIFEST.json from the table below (one entry per claimed property)."""
import json, os

ENGINE = "coq-proof+correspondence"
CHECKS = {
 "C16": dict(
   technique="Coq proof (fuelled transliteration of is_equivalent/is_conformant/coerced; preorder, equivalence, variance and coercion laws for all types) with model/code correspondence",
   text="Theorems (coq/Props/C16.v, closed under the global context) hold for every type of any depth and arity whose context keys are unique: equivalence is reflexive/symmetric/transitive and implies mutual conformance, conformance is reflexive/transitive with Any top and Null bottom, list/range/context/function variance, function results, coercion = identity/wrap/unwrap/null, conforms-or-null, idempotent. Tied to feel/src/types.rs by comparing both relations on the exhaustive depth-1 universe and sampled deeper types, and coerced/type_of on generated values; the laws are also evaluated on the implementation's own answers.",
   note="Trusted: Coq kernel + vm_compute, hand-written model of types.rs / Value::type_of (correspondence-checked, not verified), harness. Atom payloads and names are abstract."),
 "C17": dict(
   technique="Coq proof (invariant by induction over histories + refinement of an abstract workspace) with model/code correspondence",
   text="Theorems (coq/Props/C17.v, closed under the global context) hold for every operation history of the modelled workspace: the index/list invariant, refinement of the abstract workspace, add-iff-free, deployed-exactly, failed-build isolation. The model is tied to workspace.rs by comparing every step of exhaustive short and random long histories (state via the verif_snapshot hook).",
   note="Trusted: Coq kernel + vm_compute, hand-written model of workspace.rs (correspondence-checked, not verified), harness, ModelEvaluator::new abstracted to a `builds` flag."),
}
NOT_APPLICABLE = {}
PENDING = "not yet built in this round: no check is registered, nothing is claimed"

def main():
    ids = ['C%02d' % i for i in range(1, 21)]
    checks = []
    for pid in ids:
        if pid in CHECKS:
            c = CHECKS[pid]
            checks.append({
              "property_id": pid,
              "quick_cmd": "./check %s --tier quick" % pid,
              "thorough_cmd": "./check %s --tier thorough" % pid,
              "evidence_file": "evidence/%s.json" % pid,
              "replay_cmd_template": "./check %s --replay {path}" % pid,
              "engine": ENGINE,
              "technique": c["technique"],
              "level_claimed": {"category": c.get("category", "proof"), "text": c["text"], "design_ref": "DESIGN.md §6 " + pid},
              "level_note": c["note"]})
    na = [{"property_id": pid, "reason": NOT_APPLICABLE.get(pid, PENDING)} for pid in ids if pid not in CHECKS]
    m = {
      "version": 1,
      "setup_cmd": "./setup.sh",
      "hooks": {
        "guard": "--cfg dmntk_verif",
        "enable": "RUSTFLAGS=\"--cfg dmntk_verif\" cargo build --offline (in /verif/harness: path deps + [patch.crates-io] onto the /repo working tree)",
        "baseline_off_cmd": "cd /repo && cargo test --workspace --no-fail-fast --offline",
        "source_commits": ["3dd96f1"],
        "add_only": True},
      "engines": [{"name": ENGINE, "path": "check", "serves_properties": sorted(CHECKS),
                   "kind_free_text": "Coq 8.16 theorems over hand-written executable models (coq/), tied to /repo on every run by a differential correspondence check: Rust harness on the working tree vs the model evaluated by vm_compute inside coqc"}],
      "checks": checks,
      "not_applicable": na,
      "notes": "See DESIGN.md. known_findings.txt lists known findings and fixed defects."}
    json.dump(m, open(os.path.join(os.path.dirname(os.path.abspath(__file__)), 'MANIFEST.json'), 'w'), indent=1)

if __name__ == '__main__':
    main()
