(* C06 — the semantic actions of feel-parser/src/parser.rs (impl ReduceActions for Parser, lines 318-1239), all 90 of them,
   transliterated as functions on the node stack, and the loop of Parser::parse (lines 169-315) run with them over
   Gen/LalrTables.v (regenerated from feel-parser/src/lalr.rs on every run): `parse_full` is a model of the real parser on
   token lists for the WHOLE expression language (binders, collections, ranges, unary tests, types), not only the operator
   fragment of Lr.v.  The action of a rule is selected by the action NAME the translator reads from the reduce arms of lalr.rs.
   Owner: ext-actions (extension of builder-parse's C06).  No proofs here. *)
From Coq Require Import List NArith ZArith Bool Arith String FMapPositive.
From DV Require Import Gen.LalrTables C06.Lr.
Import ListNotations.
Open Scope Z_scope.

(* ------------------------------------------------------------------ semantic values (lexer.rs TokenValue)
   texts (names, digit strings, string literals, type names) are opaque identifiers: the actions only move them around *)
Inductive tval :=
| VEmpty                              (* TokenValue::YyEmpty, the bottom of the value stack *)
| VState (s : Z)                      (* TokenValue::YyState, pushed by every reduction *)
| VTok (t : Z)                        (* the value of a token without content: TokenValue::LeftBracket for tok_LeftBracket, ... *)
| VName (n : N)
| VNameDateTime (n : N)
| VBuiltInTypeName (n : N)
| VNumeric (before after : N)
| VString (s : N)
| VBoolean (b : bool).

(* a token as the lexer delivers it: (TokenType number, TokenValue) *)
Definition ftok : Type := (Z * tval)%type.

(* ------------------------------------------------------------------ feel/src/ast.rs AstNode (Box<AstNode> = ast, Vec<AstNode> = list ast;
   the constructor names abbreviate the AstNode names with "Param") *)
Inductive ast :=
| AAdd (a b : ast)
| AAnd (a b : ast)
| AAt (s : N)
| ABetween (a b c : ast)
| ABoolean (b : bool)
| ACommaList (l : list ast)
| AContext (l : list ast)
| AContextEntry (a b : ast)
| AContextEntryKey (n : N)
| AContextType (l : list ast)
| AContextTypeEntry (a b : ast)
| AContextTypeEntryKey (n : N)
| ADiv (a b : ast)
| AEq (a b : ast)
| AEvaluatedExpression (a : ast)
| AEvery (a b : ast)
| AExp (a b : ast)
| AExpressionList (l : list ast)
| AFeelType (t : N)                   (* FeelType from a built-in type name *)
| AFeelTypeAny                        (* FeelType::Any given to a formal parameter without a type *)
| AFilter (a b : ast)
| AFor (a b : ast)
| AFormalParam (a b : ast)
| AFormalParams (l : list ast)
| AFunctionBody (a : ast) (external : bool)
| AFunctionDefinition (a b : ast)
| AFunctionInvocation (a b : ast)
| AFunctionType (a b : ast)
| AGe (a b : ast)
| AGt (a b : ast)
| AIf (a b c : ast)
| AIn (a b : ast)
| AInstanceOf (a b : ast)
| AIntervalEnd (a : ast) (closed : bool)
| AIntervalStart (a : ast) (closed : bool)
| AIrrelevant
| AIterationContexts (l : list ast)
| AIterationContextSingle (a b : ast)
| AIterationContextRange (a b c : ast)
| ALe (a b : ast)
| ALt (a b : ast)
| AList (l : list ast)
| AListType (a : ast)
| AMul (a b : ast)
| AName (n : N)
| ANamedParam (a b : ast)
| ANamedParams (l : list ast)
| ANegatedList (l : list ast)
| ANeg (a : ast)
| ANq (a b : ast)
| ANull
| ANumeric (before after : N)
| AOr (a b : ast)
| AOut (a b : ast)
| AParamName (n : N)
| AParamTypes (l : list ast)
| APath (a b : ast)
| APositionalParams (l : list ast)
| AQualifiedName (l : list ast)
| AQualifiedNameSegment (n : N)
| AQuantifiedContexts (l : list ast)
| AQuantifiedContext (a b : ast)
| ARange (a b : ast)
| ARangeType (a : ast)
| ASatisfies (a : ast)
| ASome (a b : ast)
| AString (s : N)
| ASub (a b : ast)
| AUnaryGe (a : ast)
| AUnaryGt (a : ast)
| AUnaryLe (a : ast)
| AUnaryLt (a : ast).

(* ------------------------------------------------------------------ the 90 actions of the trait ReduceActions, by name *)
Inductive act :=
| Act_addition | Act_between | Act_between_begin | Act_built_in_type_name
| Act_comparison_eq | Act_comparison_ge | Act_comparison_gt | Act_comparison_in | Act_comparison_le | Act_comparison_lt | Act_comparison_nq
| Act_comparison_unary_ge | Act_comparison_unary_gt | Act_comparison_unary_le | Act_comparison_unary_lt
| Act_conjunction | Act_context_begin | Act_context_end | Act_context_entry | Act_context_entry_tail
| Act_context_type_entry | Act_context_type_entry_tail | Act_disjunction | Act_division | Act_empty_context
| Act_every | Act_every_begin | Act_exponentiation | Act_expression_list_tail | Act_filter | Act_for | Act_for_begin
| Act_formal_parameter_with_type | Act_formal_parameter_without_type | Act_formal_parameters_begin | Act_formal_parameters_empty
| Act_formal_parameters_first | Act_formal_parameters_tail | Act_function_body | Act_function_body_external
| Act_function_definition | Act_function_invocation | Act_function_invocation_no_parameters | Act_function_type
| Act_function_type_parameters_empty | Act_function_type_parameters_tail | Act_if | Act_instance_of
| Act_interval | Act_interval_end | Act_interval_start
| Act_iteration_context_value_range | Act_iteration_context_value_single | Act_iteration_context_variable_name
| Act_iteration_context_variable_name_begin | Act_iteration_contexts_tail
| Act_key_name | Act_key_string | Act_list | Act_list_empty | Act_list_tail | Act_list_type
| Act_literal_at | Act_literal_boolean | Act_literal_date_time | Act_literal_null | Act_literal_numeric | Act_literal_string
| Act_multiplication | Act_name | Act_named_parameter | Act_named_parameters_tail | Act_negation
| Act_path | Act_path_names | Act_positional_parameters_tail | Act_qualified_name | Act_qualified_name_tail
| Act_quantified_expression | Act_quantified_expression_variable_name | Act_quantified_expression_variable_name_begin
| Act_quantified_expressions_tail | Act_range_type | Act_some | Act_some_begin | Act_subtraction
| Act_type_name | Act_unary_tests_begin | Act_unary_tests_irrelevant | Act_unary_tests_negated.

Definition act_names : list (string * act) := [
  ("addition", Act_addition); ("between", Act_between); ("between_begin", Act_between_begin);
  ("built_in_type_name", Act_built_in_type_name);
  ("comparison_eq", Act_comparison_eq); ("comparison_ge", Act_comparison_ge); ("comparison_gt", Act_comparison_gt);
  ("comparison_in", Act_comparison_in); ("comparison_le", Act_comparison_le); ("comparison_lt", Act_comparison_lt);
  ("comparison_nq", Act_comparison_nq);
  ("comparison_unary_ge", Act_comparison_unary_ge); ("comparison_unary_gt", Act_comparison_unary_gt);
  ("comparison_unary_le", Act_comparison_unary_le); ("comparison_unary_lt", Act_comparison_unary_lt);
  ("conjunction", Act_conjunction); ("context_begin", Act_context_begin); ("context_end", Act_context_end);
  ("context_entry", Act_context_entry); ("context_entry_tail", Act_context_entry_tail);
  ("context_type_entry", Act_context_type_entry); ("context_type_entry_tail", Act_context_type_entry_tail);
  ("disjunction", Act_disjunction); ("division", Act_division); ("empty_context", Act_empty_context);
  ("every", Act_every); ("every_begin", Act_every_begin); ("exponentiation", Act_exponentiation);
  ("expression_list_tail", Act_expression_list_tail); ("filter", Act_filter); ("for", Act_for); ("for_begin", Act_for_begin);
  ("formal_parameter_with_type", Act_formal_parameter_with_type);
  ("formal_parameter_without_type", Act_formal_parameter_without_type);
  ("formal_parameters_begin", Act_formal_parameters_begin); ("formal_parameters_empty", Act_formal_parameters_empty);
  ("formal_parameters_first", Act_formal_parameters_first); ("formal_parameters_tail", Act_formal_parameters_tail);
  ("function_body", Act_function_body); ("function_body_external", Act_function_body_external);
  ("function_definition", Act_function_definition); ("function_invocation", Act_function_invocation);
  ("function_invocation_no_parameters", Act_function_invocation_no_parameters); ("function_type", Act_function_type);
  ("function_type_parameters_empty", Act_function_type_parameters_empty);
  ("function_type_parameters_tail", Act_function_type_parameters_tail); ("if", Act_if); ("instance_of", Act_instance_of);
  ("interval", Act_interval); ("interval_end", Act_interval_end); ("interval_start", Act_interval_start);
  ("iteration_context_value_range", Act_iteration_context_value_range);
  ("iteration_context_value_single", Act_iteration_context_value_single);
  ("iteration_context_variable_name", Act_iteration_context_variable_name);
  ("iteration_context_variable_name_begin", Act_iteration_context_variable_name_begin);
  ("iteration_contexts_tail", Act_iteration_contexts_tail);
  ("key_name", Act_key_name); ("key_string", Act_key_string); ("list", Act_list); ("list_empty", Act_list_empty);
  ("list_tail", Act_list_tail); ("list_type", Act_list_type);
  ("literal_at", Act_literal_at); ("literal_boolean", Act_literal_boolean); ("literal_date_time", Act_literal_date_time);
  ("literal_null", Act_literal_null); ("literal_numeric", Act_literal_numeric); ("literal_string", Act_literal_string);
  ("multiplication", Act_multiplication); ("name", Act_name); ("named_parameter", Act_named_parameter);
  ("named_parameters_tail", Act_named_parameters_tail); ("negation", Act_negation);
  ("path", Act_path); ("path_names", Act_path_names); ("positional_parameters_tail", Act_positional_parameters_tail);
  ("qualified_name", Act_qualified_name); ("qualified_name_tail", Act_qualified_name_tail);
  ("quantified_expression", Act_quantified_expression);
  ("quantified_expression_variable_name", Act_quantified_expression_variable_name);
  ("quantified_expression_variable_name_begin", Act_quantified_expression_variable_name_begin);
  ("quantified_expressions_tail", Act_quantified_expressions_tail); ("range_type", Act_range_type);
  ("some", Act_some); ("some_begin", Act_some_begin); ("subtraction", Act_subtraction);
  ("type_name", Act_type_name); ("unary_tests_begin", Act_unary_tests_begin);
  ("unary_tests_irrelevant", Act_unary_tests_irrelevant); ("unary_tests_negated", Act_unary_tests_negated)]%string.

Definition act_of_name (s : string) : option act :=
  match find (fun p => String.eqb (fst p) s) act_names with Some (_, a) => Some a | None => None end.

(* ------------------------------------------------------------------ the outcome of one action *)
Inductive ares :=
| ROk (ns : list ast)        (* Ok(()) with this node stack *)
| RErrPop                    (* `.pop().ok_or_else(err_pop)?` on an empty node stack *)
| RPanic.                    (* an index into the value stack out of bounds *)

(* the stacks are lists with the TOP FIRST: `yy_value_stack[len - k]` is the k-th element, `.last()` the first *)
Definition vidx (vs : list tval) (k : nat) : option tval := match k with O => None | S j => nth_error vs j end.

(* let rhs = pop()?; let lhs = pop()?; push(f(lhs, rhs)) *)
Definition pop2 (f : ast -> ast -> ast) (ns : list ast) : ares :=
  match ns with rhs :: lhs :: st => ROk (f lhs rhs :: st) | _ => RErrPop end.

(* let rhs = pop()?; let mid = pop()?; let lhs = pop()?; push(f(lhs, mid, rhs)) *)
Definition pop3 (f : ast -> ast -> ast -> ast) (ns : list ast) : ares :=
  match ns with rhs :: mid :: lhs :: st => ROk (f lhs mid rhs :: st) | _ => RErrPop end.

(* let lhs = pop()?; push(f(lhs)) *)
Definition pop1 (f : ast -> ast) (ns : list ast) : ares :=
  match ns with x :: st => ROk (f x :: st) | [] => RErrPop end.

(* the `*_tail` actions:
     let node = pop()?;
     if let AstNode::K(mut items) = node { let item = pop()?; items.insert(0, item); push(K(items)); return Ok(()) }
     push(K(vec![node])) *)
Definition tail_action (is_k : ast -> option (list ast)) (mk : list ast -> ast) (ns : list ast) : ares :=
  match ns with
  | [] => RErrPop
  | node :: st =>
    match is_k node with
    | Some items => match st with item :: st' => ROk (mk (item :: items) :: st') | [] => RErrPop end
    | None => ROk (mk [node] :: st)
    end
  end.

Definition is_comma_list (n : ast) := match n with ACommaList l => Some l | _ => None end.
Definition is_context (n : ast) := match n with AContext l => Some l | _ => None end.
Definition is_context_type (n : ast) := match n with AContextType l => Some l | _ => None end.
Definition is_expression_list (n : ast) := match n with AExpressionList l => Some l | _ => None end.
Definition is_param_types (n : ast) := match n with AParamTypes l => Some l | _ => None end.
Definition is_iteration_contexts (n : ast) := match n with AIterationContexts l => Some l | _ => None end.
Definition is_named_params (n : ast) := match n with ANamedParams l => Some l | _ => None end.
Definition is_positional_params (n : ast) := match n with APositionalParams l => Some l | _ => None end.
Definition is_quantified_contexts (n : ast) := match n with AQuantifiedContexts l => Some l | _ => None end.
Definition is_formal_params (n : ast) := match n with AFormalParams l => Some l | _ => None end.
Definition is_qualified_name (n : ast) := match n with AQualifiedName l => Some l | _ => None end.

(* if let Some(AstNode::K(items)) = pop() { push(f(items)) }: the popped node is dropped when it is not a K *)
Definition pop_if (is_k : ast -> option (list ast)) (f : list ast -> ast) (ns : list ast) : ares :=
  match ns with
  | [] => ROk []
  | n :: st => match is_k n with Some items => ROk (f items :: st) | None => ROk st end
  end.

(* `len` is yy_len = YY_R2[rule] (the action runs BEFORE the right-hand side is popped from the state and value stacks);
   calls into the lexer (set_between, set_till_in, set_type_name, set_unary_tests, push_to_scope, pop_from_scope,
   add_name_to_scope) and into the scope (push, pop, set_entry) steer the tokenisation only: no effect on a token list *)
Definition apply_act (a : act) (len : nat) (vs : list tval) (ns : list ast) : ares :=
  match a with
  | Act_addition => pop2 AAdd ns
  | Act_between => pop3 ABetween ns
  | Act_between_begin => ROk ns
  | Act_built_in_type_name =>
    match vidx vs 1 with
    | None => RPanic
    | Some (VBuiltInTypeName n) => ROk (AFeelType n :: ns)
    | Some _ => ROk ns
    end
  | Act_comparison_eq => pop2 AEq ns
  | Act_comparison_ge => pop2 AGe ns
  | Act_comparison_gt => pop2 AGt ns
  | Act_comparison_in => pop2 AIn ns
  | Act_comparison_le => pop2 ALe ns
  | Act_comparison_lt => pop2 ALt ns
  | Act_comparison_nq => pop2 ANq ns
  | Act_comparison_unary_ge => pop1 AUnaryGe ns
  | Act_comparison_unary_gt => pop1 AUnaryGt ns
  | Act_comparison_unary_le => pop1 AUnaryLe ns
  | Act_comparison_unary_lt => pop1 AUnaryLt ns
  | Act_conjunction => pop2 AAnd ns
  | Act_context_begin => ROk ns
  | Act_context_end => ROk ns
  | Act_context_entry =>
    (* value = pop()?; key = pop()?; (a ContextEntryKey goes to the lexer's scope;) push(ContextEntry(key, value)) *)
    pop2 AContextEntry ns
  | Act_context_entry_tail => tail_action is_context AContext ns
  | Act_context_type_entry =>
    match ns with
    | [] => RErrPop
    | type_node :: st =>
      match vidx vs len with
      | None => RPanic
      | Some (VName n) => ROk (AContextTypeEntry (AContextTypeEntryKey n) type_node :: st)
      | Some _ => ROk st
      end
    end
  | Act_context_type_entry_tail => tail_action is_context_type AContextType ns
  | Act_disjunction => pop2 AOr ns
  | Act_division => pop2 ADiv ns
  | Act_empty_context => ROk (AContext [] :: ns)
  | Act_every => pop2 (fun lhs rhs => AEvery lhs (ASatisfies rhs)) ns
  | Act_every_begin => ROk ns
  | Act_exponentiation => pop2 AExp ns
  | Act_expression_list_tail => tail_action is_expression_list AExpressionList ns
  | Act_filter => pop2 AFilter ns
  | Act_for => pop2 (fun lhs rhs => AFor lhs (AEvaluatedExpression rhs)) ns
  | Act_for_begin => ROk ns
  | Act_formal_parameter_with_type =>
    match ns with
    | [] => RErrPop
    | rhs :: st =>
      match vidx vs len with
      | None => RPanic
      | Some (VName n) => ROk (AFormalParam (AParamName n) rhs :: st)
      | Some _ => ROk st
      end
    end
  | Act_formal_parameter_without_type =>
    match vidx vs len with
    | None => RPanic
    | Some (VName n) => ROk (AFormalParam (AParamName n) AFeelTypeAny :: ns)
    | Some _ => ROk ns
    end
  | Act_formal_parameters_begin => ROk ns
  | Act_formal_parameters_empty => ROk (AFormalParams [] :: ns)
  | Act_formal_parameters_first => pop1 (fun lhs => AFormalParams [lhs]) ns
  | Act_formal_parameters_tail =>
    (* rhs = pop()?; if let Some(FormalParameters(mut items)) = pop() { items.push(rhs); push(FormalParameters(items)) } *)
    match ns with
    | [] => RErrPop
    | rhs :: st => pop_if is_formal_params (fun items => AFormalParams (items ++ [rhs])) st
    end
  | Act_function_body =>
    (* if let Some(node) = pop() { push(FunctionBody(node, false)) } *)
    match ns with x :: st => ROk (AFunctionBody x false :: st) | [] => ROk [] end
  | Act_function_body_external =>
    match ns with x :: st => ROk (AFunctionBody x true :: st) | [] => ROk [] end
  | Act_function_definition => pop2 AFunctionDefinition ns
  | Act_function_invocation => pop2 AFunctionInvocation ns
  | Act_function_invocation_no_parameters =>
    match ns with lhs :: st => ROk (AFunctionInvocation lhs (APositionalParams []) :: st) | [] => ROk [] end
  | Act_function_type => pop2 AFunctionType ns
  | Act_function_type_parameters_empty => ROk (AParamTypes [] :: ns)
  | Act_function_type_parameters_tail => tail_action is_param_types AParamTypes ns
  | Act_if => pop3 AIf ns
  | Act_instance_of => pop2 AInstanceOf ns
  | Act_interval => pop2 ARange ns
  | Act_interval_end =>
    (* closed = matches!(value_stack[len - 1], RightBracket) is evaluated first (it can go out of bounds), then lhs = pop()? *)
    match vidx vs 1 with
    | None => RPanic
    | Some v =>
      let closed := match v with VTok t => t =? tok_RightBracket | _ => false end in
      pop1 (fun lhs => AIntervalEnd lhs closed) ns
    end
  | Act_interval_start =>
    match vidx vs len with
    | None => RPanic
    | Some v =>
      let closed := match v with VTok t => t =? tok_LeftBracket | _ => false end in
      pop1 (fun lhs => AIntervalStart lhs closed) ns
    end
  | Act_iteration_context_value_range => pop3 AIterationContextRange ns
  | Act_iteration_context_value_single => pop2 AIterationContextSingle ns
  | Act_iteration_context_variable_name =>
    match vidx vs 1 with
    | None => RPanic
    | Some (VName n) => ROk (AName n :: ns)
    | Some _ => ROk ns
    end
  | Act_iteration_context_variable_name_begin => ROk ns
  | Act_iteration_contexts_tail => tail_action is_iteration_contexts AIterationContexts ns
  | Act_key_name => match vidx vs 1 with Some (VName n) => ROk (AContextEntryKey n :: ns) | _ => ROk ns end
  | Act_key_string =>
    (* Name::from(value.clone()): the text of the string literal becomes the name (same identifier) *)
    match vidx vs 1 with Some (VString s) => ROk (AContextEntryKey s :: ns) | _ => ROk ns end
  | Act_list =>
    (* if let Some(CommaList(items)) = pop() { push(List(items)) } *)
    pop_if is_comma_list AList ns
  | Act_list_empty => ROk (ACommaList [] :: ns)
  | Act_list_tail => tail_action is_comma_list ACommaList ns
  | Act_list_type => pop1 AListType ns
  | Act_literal_at => match vidx vs 1 with Some (VString s) => ROk (AAt s :: ns) | _ => ROk ns end
  | Act_literal_boolean => match vidx vs 1 with Some (VBoolean b) => ROk (ABoolean b :: ns) | _ => ROk ns end
  | Act_literal_date_time =>
    match vidx vs 2 with
    | None => RPanic
    | Some (VNameDateTime n) => ROk (AName n :: ns)
    | Some _ => ROk ns
    end
  | Act_literal_null =>
    match vidx vs 1 with
    | Some (VTok t) => if t =? tok_Null then ROk (ANull :: ns) else ROk ns
    | _ => ROk ns
    end
  | Act_literal_numeric => match vidx vs 1 with Some (VNumeric b a) => ROk (ANumeric b a :: ns) | _ => ROk ns end
  | Act_literal_string => match vidx vs 1 with Some (VString s) => ROk (AString s :: ns) | _ => ROk ns end
  | Act_multiplication => pop2 AMul ns
  | Act_name => match vidx vs 1 with Some (VName n) => ROk (AName n :: ns) | _ => ROk ns end
  | Act_named_parameter =>
    (* if let Name(name) = value_stack[len - 3] { rhs = pop()?; push(NamedParameter(ParameterName(name), rhs)) } *)
    match vidx vs 3 with
    | None => RPanic
    | Some (VName n) => pop1 (fun rhs => ANamedParam (AParamName n) rhs) ns
    | Some _ => ROk ns
    end
  | Act_named_parameters_tail => tail_action is_named_params ANamedParams ns
  | Act_negation => match ns with x :: st => ROk (ANeg x :: st) | [] => ROk [] end
  | Act_path =>
    (* lhs = pop()?; if let Some(Name(name)) = value_stack.last() { push(Path(lhs, Name(name))) } *)
    match ns with
    | [] => RErrPop
    | lhs :: st => match vidx vs 1 with Some (VName n) => ROk (APath lhs (AName n) :: st) | _ => ROk st end
    end
  | Act_path_names =>
    match vidx vs 3 with
    | None => RPanic
    | Some (VName l) => match vidx vs 1 with Some (VName r) => ROk (APath (AName l) (AName r) :: ns) | _ => ROk ns end
    | Some _ => ROk ns
    end
  | Act_positional_parameters_tail => tail_action is_positional_params APositionalParams ns
  | Act_qualified_name =>
    match vidx vs 1 with Some (VName n) => ROk (AQualifiedName [AQualifiedNameSegment n] :: ns) | _ => ROk ns end
  | Act_qualified_name_tail =>
    (* if let Name(name) = value_stack[len - 3] { if let Some(QualifiedName(mut parts)) = pop() { parts.insert(0, Segment(name)); push } } *)
    match vidx vs 3 with
    | None => RPanic
    | Some (VName n) =>
      pop_if is_qualified_name (fun parts => AQualifiedName (AQualifiedNameSegment n :: parts)) ns
    | Some _ => ROk ns
    end
  | Act_quantified_expression => pop2 AQuantifiedContext ns
  | Act_quantified_expression_variable_name =>
    match vidx vs 1 with
    | None => RPanic
    | Some (VName n) => ROk (AName n :: ns)
    | Some _ => ROk ns
    end
  | Act_quantified_expression_variable_name_begin => ROk ns
  | Act_quantified_expressions_tail => tail_action is_quantified_contexts AQuantifiedContexts ns
  | Act_range_type => pop1 ARangeType ns
  | Act_some => pop2 (fun lhs rhs => ASome lhs (ASatisfies rhs)) ns
  | Act_some_begin => ROk ns
  | Act_subtraction => pop2 ASub ns
  | Act_type_name => ROk ns
  | Act_unary_tests_begin => ROk ns
  | Act_unary_tests_irrelevant => ROk (AIrrelevant :: ns)
  | Act_unary_tests_negated =>
    (* if let Some(ExpressionList(items)) = pop() { push(NegatedList(items)) } *)
    pop_if is_expression_list ANegatedList ns
  end.

(* ------------------------------------------------------------------ lalr.rs `reduce`: rule number -> action
   (a rule without an arm does nothing: `_ => Ok(())`; an arm whose action name this model does not know stops the model) *)
Inductive ract := RNoAction | RAct (a : act) | RUnknown.

Definition ract_of_rule (rule : Z) : ract :=
  match find (fun p => fst p =? rule) rule_actions with
  | None => RNoAction
  | Some (_, nm) => match act_of_name nm with Some a => RAct a | None => RUnknown end
  end.

(* computed once per translation of lalr.rs, then looked up in a trie *)
Definition t_ract : PositiveMap.t ract :=
  Eval vm_compute in
    fold_left (fun m r => PositiveMap.add (Z.to_pos (r + 1)) (ract_of_rule r) m) (map Z.of_nat (seq 0 (List.length yy_r2))) (PositiveMap.empty ract).

Definition ract_at (rule : Z) : ract :=
  if rule <? 0 then RNoAction else match PositiveMap.find (Z.to_pos (rule + 1)) t_ract with Some a => a | None => RNoAction end.

(* ------------------------------------------------------------------ Parser::parse with the three stacks *)
Record pstate := PS { p_ss : list Z; p_vs : list tval; p_ns : list ast }.

Inductive fres :=
| FAccept (t : ast)
| FSyntax                       (* Err(syntax_error) *)
| FBadResult                    (* Err(invalid_parse_result): accepted with a node stack that is not exactly one node *)
| FErrPop (rule : Z)            (* Err(err_pop) raised by the action of this rule *)
| FPanic (rule : Z)             (* the action of this rule indexes the value stack out of bounds *)
| FUnknownAction (rule : Z)     (* lalr.rs names an action this model does not have *)
| FStuck                        (* empty state stack (cannot happen) *)
| FFuel.

Inductive outcome := Next (st : pstate) (toks : list ftok) (reduced : option Z) | Done (r : fres).

Definition goto_of (rule top : Z) : Z :=
  let lhs := zn t_r1 rule - yy_n_tokens in
  let i := zn t_p_goto lhs + top in
  if (0 <=? i) && (i <=? yy_last) && (zn t_check i =? top) then zn t_table i else zn t_def_goto lhs.

(* Action::Reduce: the action first, then yy_len pops of the state and value stacks, then the goto *)
Definition freduce (rule : Z) (st : pstate) (toks : list ftok) : outcome :=
  let len := Z.to_nat (zn t_r2 rule) in
  let after :=
    match ract_at rule with
    | RNoAction => inl (p_ns st)
    | RUnknown => inr (FUnknownAction rule)
    | RAct a =>
      match apply_act a len (p_vs st) (p_ns st) with
      | ROk ns' => inl ns'
      | RErrPop => inr (FErrPop rule)
      | RPanic => inr (FPanic rule)
      end
    end in
  match after with
  | inr e => Done e
  | inl ns' =>
    match skipn len (p_ss st) with
    | [] => Done FStuck
    | top :: rest =>
      let s := goto_of rule top in
      Next (PS (s :: top :: rest) (VState s :: skipn len (p_vs st)) ns') toks (Some rule)
    end
  end.

(* Action::Accept *)
Definition faccept (ns : list ast) : fres := match ns with [n] => FAccept n | _ => FBadResult end.

(* one turn of the loop from Action::NewState; the lookahead is the head of toks, the end of input is token 0 *)
Definition fstep (st : pstate) (toks : list ftok) : outcome :=
  match p_ss st with
  | [] => Done FStuck
  | s :: _ =>
    if s =? yy_final then Done (faccept (p_ns st)) else
    let dflt := let r := zn t_def_act s in if r =? 0 then Done FSyntax else freduce r st toks in
    let n0 := zn t_pact s in
    if n0 =? yy_pact_n_inf then dflt else
    let '(tok, v) := match toks with [] => (0, VTok 0) | t :: _ => t end in
    if tok =? tok_YyError then Done FSyntax else
    let sym := if tok <=? 0 then 0 else zn t_translate tok in
    let n := n0 + sym in
    if (n <? 0) || (yy_last <? n) || negb (zn t_check n =? sym) then dflt else
    let a := zn t_table n in
    if a <=? 0 then
      if a =? yy_table_n_inf then Done FSyntax else freduce (- a) st toks
    else Next (PS (a :: p_ss st) (v :: p_vs st) (p_ns st)) (tl toks) None
  end.

Fixpoint frun (fuel : nat) (st : pstate) (toks : list ftok) : fres :=
  match fuel with
  | O => FFuel
  | S f => match fstep st toks with Next st' toks' _ => frun f st' toks' | Done r => r end
  end.

(* the same loop, recording the rules reduced (most recent first): which actions a parse went through *)
Fixpoint frun_trace (fuel : nat) (st : pstate) (toks : list ftok) (tr : list Z) : fres * list Z :=
  match fuel with
  | O => (FFuel, tr)
  | S f =>
    match fstep st toks with
    | Next st' toks' r => frun_trace f st' toks' (match r with Some x => x :: tr | None => tr end)
    | Done r => (r, tr)
    end
  end.

Definition pstate0 : pstate := PS [0] [VEmpty] [].
Definition fuel_of (toks : list ftok) : nat := 40 * S (List.length toks).

(* the token list begins with the start token (tok_StartExpression, tok_StartUnaryTests, ...) like the lexer's output *)
Definition parse_res (toks : list ftok) : fres := frun (fuel_of toks) pstate0 toks.
Definition parse_full (toks : list ftok) : option ast := match parse_res toks with FAccept t => Some t | _ => None end.
Definition parse_trace (toks : list ftok) : fres * list Z := frun_trace (fuel_of toks) pstate0 toks [].
