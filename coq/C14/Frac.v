(* C14 — the nanosecond fraction (nanoseconds_to_string then fraction_to_nanos) for every value 1..999999999,
   and from it the print-then-parse identity for every time and every date and time.  Uses C14/Proofs.v. *)
From Coq Require Import ZArith Bool List String Ascii Lia.
From DV Require Import Base.Calendar Base.CalendarProofs C15.Model C15.Proofs C14.Model C14.Proofs.
Import ListNotations.
Open Scope string_scope.
Open Scope Z_scope.

(* ---------------- digit lists: strip the trailing zeros, pad back ---------------- *)
Definition allzero (l : list Z) : Prop := Forall (fun d => d = 0) l.

Lemma frac_nanos_zeros : forall zs s, allzero zs -> frac_nanos zs s = 0.
Proof.
  induction zs as [|d zs IH]; intros s H; cbn [frac_nanos]; [reflexivity|].
  inversion H as [|? ? Hd Ht]; subst. rewrite (IH _ Ht). lia.
Qed.

Lemma frac_nanos_app_zeros : forall ds zs s, allzero zs -> frac_nanos (app ds zs) s = frac_nanos ds s.
Proof.
  induction ds as [|d ds IH]; intros zs s H; cbn [app frac_nanos].
  - apply frac_nanos_zeros. exact H.
  - rewrite (IH zs _ H). reflexivity.
Qed.

Lemma strip_zeros_rev_spec : forall l, exists zs, allzero zs /\ l = app zs (strip_zeros_rev l).
Proof.
  induction l as [|d l IH].
  - exists []. split; [constructor|reflexivity].
  - destruct IH as [zs [A E]]. destruct d as [|p|p].
    + exists (0 :: zs). split; [constructor; [reflexivity|exact A]|]. cbn [strip_zeros_rev app]. f_equal. exact E.
    + exists []. split; [constructor|reflexivity].
    + exists []. split; [constructor|reflexivity].
Qed.

(* a digit list read as a fraction at the scale of its own length is the number it writes *)
Lemma frac_nanos_num : forall ds, frac_nanos ds (10 ^ (Z.of_nat (List.length ds) - 1)) = num ds.
Proof.
  induction ds as [|d ds IH].
  - reflexivity.
  - rewrite num_cons. cbn [frac_nanos]. cbn [List.length].
    replace (Z.of_nat (S (List.length ds)) - 1) with (Z.of_nat (List.length ds)) by lia.
    destruct ds as [|e r].
    + reflexivity.
    + replace (10 ^ Z.of_nat (List.length (e :: r)) / 10) with (10 ^ (Z.of_nat (List.length (e :: r)) - 1)).
      * rewrite IH. reflexivity.
      * cbn [List.length]. rewrite Nat2Z.inj_succ. rewrite Z.pow_succ_r by lia.
        replace (Z.succ (Z.of_nat (List.length r)) - 1) with (Z.of_nat (List.length r)) by lia.
        rewrite Z.mul_comm, Z.div_mul by lia. reflexivity.
Qed.

Lemma num_repeat0 : forall k ds, num (app (repeat 0 k) ds) = num ds.
Proof.
  induction k as [|k IH]; intros ds; cbn [repeat app]; [reflexivity|].
  rewrite num_cons, IH. lia.
Qed.

Lemma isdig_repeat0 : forall k, Forall isdig (repeat 0 k).
Proof. intros k. apply Forall_forall. intros x Hx. apply repeat_spec in Hx. subst x. unfold isdig. lia. Qed.

Lemma digits_length9 : forall n, 0 <= n < 1000000000 -> (1 <= List.length (digits n) <= 9)%nat.
Proof.
  intros n Hn. destruct (digits_spec n ltac:(lia)) as [_ [_ [P Z0]]].
  destruct (Z.eq_dec n 0) as [E|E].
  - rewrite (Z0 E). cbn. lia.
  - destruct P as [d [r [Ed [_ [B1 _]]]]]; [lia|]. rewrite Ed. cbn [List.length]. split; [lia|].
    destruct (le_lt_dec (List.length r) 8) as [K|K]; [lia|exfalso].
    assert (10 ^ 9 <= 10 ^ Z.of_nat (List.length r)) by (apply Z.pow_le_mono_r; lia). lia.
Qed.

Lemma pad9_spec : forall n, 0 <= n < 1000000000 ->
  Forall isdig (pad9 n) /\ num (pad9 n) = n /\ List.length (pad9 n) = 9%nat.
Proof.
  intros n Hn. destruct (digits_spec n ltac:(lia)) as [F [N _]]. pose proof (digits_length9 n Hn) as L.
  unfold pad9. split; [apply Forall_app; split; [apply isdig_repeat0|exact F]|].
  split; [rewrite num_repeat0; exact N|]. rewrite app_length, repeat_length. lia.
Qed.

(* the digits that nanoseconds_to_string writes after the point *)
Definition frac_digits (ns : Z) : list Z := rev (strip_zeros_rev (rev (pad9 ns))).

Lemma nanos_str_digits : forall ns, 0 <= ns < 1000000000 -> nanos_str ns = str_of_digits (frac_digits ns).
Proof. intros ns H. unfold nanos_str, frac_digits. rewrite Z.mod_small by lia. reflexivity. Qed.

(* strip the trailing zeros of the nine digits, read the rest as a fraction: the number is back *)
Theorem frac_digits_spec : forall ns, 0 <= ns < 1000000000 ->
  Forall isdig (frac_digits ns) /\ frac_nanos (frac_digits ns) 100000000 = ns /\
  exists zs, allzero zs /\ pad9 ns = app (frac_digits ns) zs.
Proof.
  intros ns Hn. destruct (pad9_spec ns Hn) as [F [N L]].
  destruct (strip_zeros_rev_spec (rev (pad9 ns))) as [zs [A E]].
  assert (E2 : pad9 ns = app (frac_digits ns) (rev zs)).
  { rewrite <- (rev_involutive (pad9 ns)). rewrite E at 1. rewrite rev_app_distr. reflexivity. }
  assert (A2 : allzero (rev zs)) by (apply Forall_rev; exact A).
  split; [rewrite E2 in F; apply Forall_app in F; tauto|].
  split; [|exists (rev zs); split; assumption].
  rewrite <- (frac_nanos_app_zeros (frac_digits ns) (rev zs) _ A2). rewrite <- E2.
  replace 100000000 with (10 ^ (Z.of_nat (List.length (pad9 ns)) - 1)) by (rewrite L; reflexivity).
  rewrite frac_nanos_num. exact N.
Qed.

Lemma frac_digits_nonempty : forall ns, 0 < ns < 1000000000 -> exists d r, frac_digits ns = d :: r.
Proof.
  intros ns Hn. destruct (frac_digits_spec ns ltac:(lia)) as [_ [E _]].
  destruct (frac_digits ns) as [|d r]; [cbn in E; lia|]. exists d, r. reflexivity.
Qed.

(* ---------------- times: every nanosecond value ---------------- *)
Lemma nodigit_zone : forall z, nodigit_head (print_zone z).
Proof.
  intros [| |o|id]; try reflexivity. unfold print_zone. destruct (o <? 0); reflexivity.
Qed.

Lemma p_time_frac : forall pz h mi s ns z, 0 <= h < 24 -> 0 <= mi < 60 -> 0 <= s < 60 -> 0 < ns < 1000000000 ->
  pz (print_zone z) = Some z ->
  p_time pz (time_text h mi s (String "."%char (nanos_str ns ++ print_zone z))) =
  Some {| t_h := h; t_mi := mi; t_s := s; t_ns := ns; t_zone := z |}.
Proof.
  intros pz h mi s ns z Hh Hm Hs Hn Z. unfold p_time, time_text.
  rewrite two_pad2 by lia. rewrite two_pad2 by lia. rewrite two_pad2 by lia.
  assert (V : is_valid_time h mi s = true).
  { unfold is_valid_time. rewrite !andb_true_iff, !Z.ltb_lt. lia. }
  cbv beta iota zeta.
  destruct (frac_digits_spec ns ltac:(lia)) as [F [E _]].
  rewrite nanos_str_digits by lia.
  rewrite (span_digits_str (frac_digits ns) (print_zone z) F (nodigit_zone z)).
  destruct (frac_digits_nonempty ns Hn) as [d0 [r0 Efd]]. rewrite Efd in *.
  rewrite E, Z, V. reflexivity.
Qed.

Definition time_ok (db : string -> bool) (t : time) : Prop :=
  0 <= t_h t < 24 /\ 0 <= t_mi t < 60 /\ 0 <= t_s t < 60 /\ 0 <= t_ns t < 1000000000 /\ zone_ok db (t_zone t).

Theorem print_parse_time : forall db t, time_ok db t -> parse_time db (print_time t) = Some t.
Proof.
  intros db [h mi s ns z] [Hh [Hm [Hs [Hn Hz]]]]. cbn in Hh, Hm, Hs, Hn, Hz.
  destruct (Z.eq_dec ns 0) as [->|N].
  - apply print_parse_time_whole; cbn; try lia. exact Hz.
  - unfold parse_time.
    rewrite <- (p_time_frac (parse_zone db) h mi s ns z Hh Hm Hs ltac:(lia) (print_parse_zone db z Hz)).
    unfold print_time, print_time_gen. cbn [t_h t_mi t_s t_ns t_zone].
    replace (0 <? ns) with true by (symmetry; apply Z.ltb_lt; lia). reflexivity.
Qed.

(* the converse direction of the range conditions: what parses is a time of day with a nanosecond count below 10^9 *)
Lemma frac_nanos_bound : forall ds k, Forall isdig ds -> 0 <= k ->
  0 <= frac_nanos ds (10 ^ k) < 10 ^ (k + 1).
Proof.
  induction ds as [|d ds IH]; intros k F Hk; cbn [frac_nanos].
  - split; [lia|]. apply Z.pow_pos_nonneg; lia.
  - inversion F as [|? ? Hd Ht]; subst. unfold isdig in Hd.
    rewrite Z.pow_add_r by lia. change (10 ^ 1) with 10.
    assert (P : 0 < 10 ^ k) by (apply Z.pow_pos_nonneg; lia).
    destruct (Z.eq_dec k 0) as [->|Nk].
    + change (10 ^ 0 / 10) with 0.
      assert (Z0 : forall l, frac_nanos l 0 = 0).
      { induction l as [|x l IHl]; cbn [frac_nanos]; [reflexivity|]. change (0 / 10) with 0. rewrite IHl. lia. }
      rewrite Z0. change (10 ^ 0) with 1. lia.
    + replace (10 ^ k / 10) with (10 ^ (k - 1)).
      * specialize (IH (k - 1) Ht ltac:(lia)). replace (k - 1 + 1) with k in IH by lia. nia.
      * replace k with (Z.succ (k - 1)) at 2 by lia. rewrite Z.pow_succ_r by lia.
        rewrite Z.mul_comm, Z.div_mul by lia. reflexivity.
Qed.

Lemma span_digits_isdig : forall s ds r, span_digits s = (ds, r) -> Forall isdig ds.
Proof.
  induction s as [|c s IH]; intros ds r H; cbn [span_digits] in H.
  - injection H as <- <-. constructor.
  - destruct (digit_val c) as [d|] eqn:D.
    + destruct (span_digits s) as [ds' r'] eqn:S. injection H as <- <-.
      constructor; [apply (digit_val_range c d D)|apply (IH ds' r' eq_refl)].
    + injection H as <- <-. constructor.
Qed.

Theorem parse_time_ns_range : forall db s t, parse_time db s = Some t -> 0 <= t_ns t < 1000000000.
Proof.
  intros db s t H. unfold parse_time, p_time in H.
  destruct (two s) as [[h r1]|]; [|discriminate]. destruct r1 as [|c1 s1]; [discriminate|].
  destruct c1 as [[] [] [] [] [] [] [] []]; try discriminate.
  destruct (two s1) as [[mi r2]|]; [|discriminate]. destruct r2 as [|c2 s2]; [discriminate|].
  destruct c2 as [[] [] [] [] [] [] [] []]; try discriminate.
  destruct (two s2) as [[sec s3]|]; [|discriminate].
  assert (G : forall ns rest, 0 <= ns < 1000000000 ->
    match parse_zone db rest with
    | Some z => if is_valid_time h mi sec then Some {| t_h := h; t_mi := mi; t_s := sec; t_ns := ns; t_zone := z |} else None
    | None => None
    end = Some t -> 0 <= t_ns t < 1000000000).
  { intros ns rest R G. destruct (parse_zone db rest) as [z|]; [|discriminate].
    destruct (is_valid_time h mi sec); [|discriminate]. injection G as <-. exact R. }
  destruct s3 as [|c3 s4]; [exact (G 0 "" ltac:(lia) H)|].
  destruct c3 as [[] [] [] [] [] [] [] []];
    try (match type of H with context [parse_zone db ?r] => exact (G 0 r ltac:(lia) H) end).
  destruct (span_digits s4) as [ds s5] eqn:S. destruct ds as [|d0 ds0]; [discriminate|].
  pose proof (span_digits_isdig _ _ _ S) as F.
  pose proof (frac_nanos_bound (d0 :: ds0) 8 F ltac:(lia)) as B.
  change (10 ^ 8) with 100000000 in B. change (10 ^ (8 + 1)) with 1000000000 in B.
  match type of H with context [parse_zone db ?r] => exact (G _ r B H) end.
Qed.

(* ---------------- date and time: the date theorem composed with the time theorem ---------------- *)
Lemma print_date_append : forall y m d rest,
  print_date (y, m, d) ++ rest = sgn (y <? 0) (date_text (Z.abs y) m d rest).
Proof.
  intros y m d rest. unfold print_date, sgn, date_text.
  destruct (y <? 0); repeat (rewrite append_assoc || (progress cbn [append])); reflexivity.
Qed.

Theorem print_parse_datetime : forall db y m d t, feel_date y m d = true -> time_ok db t ->
  parse_datetime db (print_datetime ((y, m, d), t)) = Some ((y, m, d), t).
Proof.
  intros db y m d t H Ht. pose proof H as H0. unfold feel_date in H. apply andb_true_iff in H. destruct H as [Hy Hv].
  unfold feel_year in Hy. apply andb_true_iff in Hy. rewrite !Z.leb_le in Hy.
  apply valid_iff in Hv. destruct Hv as [Hm Hd]. pose proof (last_day_range y m Hm).
  unfold parse_datetime, p_datetime, print_datetime. cbn [fst snd].
  rewrite print_date_append.
  rewrite (p_date_print (y <? 0) (Z.abs y) m d ("T" ++ print_time t)) by lia.
  cbn [append]. cbv beta iota.
  pose proof (print_parse_time db t Ht) as T. unfold parse_time in T. rewrite T.
  replace (if y <? 0 then - Z.abs y else Z.abs y) with y by (destruct (Z.ltb_spec y 0); lia).
  rewrite is_valid_date_spec, H0. reflexivity.
Qed.

(* a date text alone is midnight of that date without a zone; the printed value reads back through the built-in too *)
Theorem bif_date_and_time_print : forall db y m d t, feel_date y m d = true -> time_ok db t ->
  bif_date_and_time db (print_datetime ((y, m, d), t)) = Some ((y, m, d), t).
Proof. intros db y m d t H Ht. unfold bif_date_and_time. rewrite (print_parse_datetime db y m d t H Ht). reflexivity. Qed.

(* the same two theorems with the range conditions written out *)
Theorem print_parse_time_all : forall db t,
  0 <= t_h t < 24 -> 0 <= t_mi t < 60 -> 0 <= t_s t < 60 -> 0 <= t_ns t <= 999999999 -> zone_ok db (t_zone t) ->
  parse_time db (print_time t) = Some t.
Proof. intros db t Hh Hm Hs Hn Hz. apply print_parse_time. unfold time_ok. repeat split; (lia || exact Hz). Qed.

Theorem print_parse_datetime_all : forall db y m d t, feel_date y m d = true ->
  0 <= t_h t < 24 -> 0 <= t_mi t < 60 -> 0 <= t_s t < 60 -> 0 <= t_ns t <= 999999999 -> zone_ok db (t_zone t) ->
  parse_datetime db (print_datetime ((y, m, d), t)) = Some ((y, m, d), t) /\
  bif_date_and_time db (print_datetime ((y, m, d), t)) = Some ((y, m, d), t).
Proof.
  intros db y m d t H Hh Hm Hs Hn Hz.
  assert (T : time_ok db t) by (unfold time_ok; repeat split; (lia || exact Hz)).
  split; [apply print_parse_datetime|apply bif_date_and_time_print]; assumption.
Qed.
