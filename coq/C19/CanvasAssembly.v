(* C19 — characters -> plane on regular drawings: the ASSEMBLY of the plane, for every well-formed regular drawing.
   (owner: prover-C19; model coq/C19/Canvas.v, drawing coq/C19/CanvasDraw.v, per-pass and per-cell theorems coq/C19/CanvasProofs.v)
   Proved here, for all numbers of columns and lines, all widths, all plain texts:
     scan_layers (draw d) = (T d, B d)                       the text splits back into the lines of the grid
     recognize_regions (TH d) = Ok (regions d)               the top-left corners line by line, one region per cell, row-major
     the walk of Canvas::plane over the GRID layer           region numbers, the cells of the double lines, the line of the crossings
     canvas_cplane (draw d) = Ok (None, expected_plane d)    the headline *)
From Coq Require Import List NArith Bool Arith Lia.
From DV Require Import C19.Model C19.Canvas C19.CanvasDraw C19.CanvasProofs.
Import ListNotations.

(* ================================================================== text -> lines *)
Lemma split_lines_row row : forall rest cur, (forall c, In c row -> c <> cNL) ->
  split_lines (row ++ rest) cur = split_lines rest (rev row ++ cur).
Proof.
  induction row as [|c row IH]; intros rest cur Hn; [reflexivity|].
  cbn [app split_lines]. destruct (c =? cNL)%N eqn:E.
  - apply N.eqb_eq in E. exfalso. apply (Hn c); [now left|assumption].
  - rewrite IH by (intros c' Hc'; apply Hn; now right). cbn [rev]. now rewrite <- app_assoc.
Qed.

Lemma split_lines_rows rows : (forall row c, In row rows -> In c row -> c <> cNL) ->
  split_lines (flat_map (fun row => row ++ [cNL]) rows) [] = rows ++ [[]].
Proof.
  induction rows as [|row rows IH]; intro Hn; [reflexivity|].
  cbn [flat_map]. rewrite <- app_assoc. rewrite split_lines_row by (intros c Hc; apply (Hn row); [now left|assumption]).
  cbn [app split_lines]. rewrite N.eqb_refl. rewrite app_nil_r, rev_involutive. f_equal.
  apply IH. intros r c Hr. apply Hn. now right.
Qed.

(* a line that begins and ends with a character that is not white space is its own trimmed form *)
Definition solid (l : list N) : Prop := l <> [] /\ is_ws (hd 0%N l) = false /\ is_ws (last l 0%N) = false.

Lemma rev_last (l : list N) dflt : l <> [] -> rev l = last l dflt :: rev (removelast l).
Proof. intro Hne. rewrite (app_removelast_last dflt Hne) at 1. now rewrite rev_app_distr. Qed.

Lemma trim_solid l : solid l -> trim l = l.
Proof.
  intros (Hne & Hh & Hl). unfold trim. destruct l as [|c r]; [congruence|]. cbn [hd] in Hh.
  cbn [trim_start]. rewrite Hh. rewrite (rev_last (c :: r) 0%N) by discriminate.
  cbn [trim_start]. rewrite Hl. rewrite <- (rev_last (c :: r) 0%N) by discriminate. apply rev_involutive.
Qed.

Lemma scan_line_first l : solid l -> hd 0%N l = cTL -> (last l 0 =? cBR)%N = false ->
  scan_line (false, false, [], 0) l = (true, false, [l], length l).
Proof.
  intros Hs Hh Hl. unfold scan_line. rewrite (trim_solid l Hs). destruct Hs as (Hne & _ & _).
  destruct l as [|c r]; [congruence|]. cbn [hd] in Hh. subst c. rewrite Hl. reflexivity.
Qed.
Lemma scan_line_mid l rows w : solid l -> (last l 0 =? cBR)%N = false ->
  scan_line (true, false, rows, w) l = (true, false, l :: rows, Nat.max w (length l)).
Proof.
  intros Hs Hl. unfold scan_line. rewrite (trim_solid l Hs). destruct Hs as (Hne & _ & _).
  destruct l as [|c r]; [congruence|]. rewrite Hl. destruct (c =? cTL)%N; reflexivity.
Qed.
Lemma scan_line_last l rows w : solid l -> (last l 0 =? cBR)%N = true ->
  scan_line (true, false, rows, w) l = (true, true, l :: rows, Nat.max w (length l)).
Proof.
  intros Hs Hl. unfold scan_line. rewrite (trim_solid l Hs). destruct Hs as (Hne & _ & _).
  destruct l as [|c r]; [congruence|]. rewrite Hl. destruct (c =? cTL)%N; reflexivity.
Qed.

Lemma scan_lines_mid w ls : forall rows, (forall l, In l ls -> solid l /\ (last l 0 =? cBR)%N = false /\ length l = w) ->
  fold_left scan_line ls (true, false, rows, w) = (true, false, rev ls ++ rows, w).
Proof.
  induction ls as [|l ls IH]; intros rows Hall; [reflexivity|].
  destruct (Hall l (or_introl eq_refl)) as (Hs & Hl & Hw). cbn [fold_left].
  rewrite scan_line_mid by assumption. rewrite Hw, Nat.max_id.
  rewrite IH by (intros l' Hl'; apply Hall; now right). cbn [rev]. now rewrite <- app_assoc.
Qed.

(* the lines of a picture: a first line that begins with the corner, lines that do not end with the closing corner, the last line that does *)
Lemma scan_lines_picture w first mids final :
  solid first -> hd 0%N first = cTL -> (last first 0 =? cBR)%N = false -> length first = w ->
  (forall l, In l mids -> solid l /\ (last l 0 =? cBR)%N = false /\ length l = w) ->
  solid final -> (last final 0 =? cBR)%N = true -> length final = w ->
  fold_left scan_line ((first :: mids ++ [final]) ++ [[]]) (false, false, [], 0) = (true, true, rev (first :: mids ++ [final]), w).
Proof.
  intros F1 F2 F3 F4 M L1 L2 L3. cbn [app fold_left]. rewrite scan_line_first by assumption. rewrite F4.
  rewrite <- app_assoc, fold_left_app. rewrite (scan_lines_mid w mids [first] M). cbn [app fold_left].
  rewrite scan_line_last by assumption. rewrite L3, Nat.max_id.
  unfold scan_line at 1. cbn [trim trim_start rev app]. cbn [rev]. rewrite rev_app_distr. cbn [rev app]. reflexivity.
Qed.

Lemma last_map_seq {A} (f : nat -> A) n dflt : last (map f (seq 0 (S n))) dflt = f n.
Proof. rewrite seq_S, map_app. cbn [map Nat.add]. apply last_last. Qed.

Lemma pad_full w c row : length row = w -> pad w c row = row.
Proof. intro E. unfold pad. rewrite E, Nat.sub_diag. apply app_nil_r. Qed.

(* ================================================================== a well-formed regular drawing *)
Section Assembly.
Variable d : rdraw.
Hypothesis Hwf : wf_rdraw d = true.

Local Notation ws := (rd_ws d).
Local Notation m := (nrows d).
Local Notation nc := (ncols d).
Local Notation v1 := (rd_v1 d).
Local Notation W := (Wd d).
Local Notation H := (Hd d).

Tactic Notation "eqb_false" constr(a) constr(b) := replace (a =? b) with false by (symmetry; apply Nat.eqb_neq; lia).
Tactic Notation "eqb_true" constr(a) constr(b) := replace (a =? b) with true by (symmetry; apply Nat.eqb_eq; lia).
Ltac facts :=
  pose proof (m_ge d Hwf) as Pm; pose proof (v1_ge d Hwf) as Pv1; pose proof (v1_lt d Hwf) as Pv2;
  pose proof (eq_refl : nc = length ws) as Pnc; pose proof (W_eq d) as PW; pose proof (H_eq d) as PH.

(* ------------------------------------------------------------------ the lines of the text *)
Definition line (y : nat) : list N := map (char_at d y) (seq 0 W).

Lemma junction_char i j : is_ws (junction d i j) = false /\ (junction d i j =? cNL)%N = false.
Proof.
  unfold junction. destruct (i =? 0), (i =? nrows d), (i =? 1), (j =? 0), (j =? ncols d), (is_dbl d j); split; reflexivity.
Qed.
Lemma vl_char j : is_ws (vl d j) = false /\ (vl d j =? cNL)%N = false /\ (vl d j =? cBR)%N = false.
Proof. unfold vl. destruct (is_dbl d j); repeat split; reflexivity. Qed.

Lemma line_length y : length (line y) = W.
Proof. unfold line. now rewrite map_length, seq_length. Qed.

Lemma line_hd y : hd 0%N (line y) = char_at d y (X ws 0).
Proof. facts. unfold line. rewrite PW. cbn [seq map hd]. now rewrite X_0. Qed.
Lemma line_last y : last (line y) 0%N = char_at d y (X ws nc).
Proof. facts. unfold line. rewrite PW. apply last_map_seq. Qed.
Lemma line_ne y : line y <> [].
Proof. facts. unfold line. rewrite PW. cbn [seq map]. discriminate. Qed.

Lemma line_even_solid i : i <= m -> solid (line (2 * i)) /\ (last (line (2 * i)) 0 =? cBR)%N = (i =? m).
Proof.
  intro Hi. facts. unfold solid. rewrite line_hd, line_last, !ch_junction by lia.
  repeat split; try apply line_ne; try apply junction_char.
  unfold junction. eqb_false nc 0. rewrite Nat.eqb_refl.
  destruct (i =? 0) eqn:E0; [apply Nat.eqb_eq in E0; subst i; now eqb_false 0 m|].
  destruct (i =? m); [reflexivity|]. destruct (i =? 1); reflexivity.
Qed.
Lemma line_odd_solid i : solid (line (2 * i + 1)) /\ (last (line (2 * i + 1)) 0 =? cBR)%N = false.
Proof.
  facts. unfold solid. rewrite line_hd, line_last, !ch_vline by lia.
  repeat split; try apply line_ne; apply vl_char.
Qed.

Lemma line_no_nl y c : y < H -> In c (line y) -> c <> cNL.
Proof.
  intros Hy Hin. facts. unfold line in Hin. apply in_map_iff in Hin. destruct Hin as (x & <- & Hx). apply in_seq in Hx.
  apply N.eqb_neq. rewrite <- (chT_in d y x) by lia.
  destruct (y_cases d y ltac:(lia)) as [(i & Hi & ->)|[(i & Hi & ->)|E]]; [| |lia].
  - destruct (rowT_even d i x Hi ltac:(lia)) as [(j & _ & _ & E)|(_ & E)]; rewrite E.
    + apply junction_char.
    + unfold hl. destruct (i =? 1); reflexivity.
  - destruct (rowT_odd d Hwf i x Hi ltac:(lia)) as [(j & _ & _ & E)|E].
    + rewrite E. apply vl_char.
    + apply (mem_neq _ cNL box_chars E). reflexivity.
Qed.

Lemma grid_lines : draw_grid d = line 0 :: map line (seq 1 (2 * m - 1)) ++ [line (2 * m)].
Proof.
  facts. unfold draw_grid, tab. rewrite PH. cbn [seq map]. f_equal.
  replace (2 * m) with (S (2 * m - 1)) at 1 by lia. rewrite seq_S, map_app. cbn [map]. do 2 f_equal. unfold line. f_equal. f_equal. lia.
Qed.

Theorem scan_layers_regular : scan_layers (draw d) = (T d, B d).
Proof.
  facts. unfold scan_layers, draw.
  rewrite split_lines_rows.
  2:{ intros row c Hr Hc. unfold draw_grid, tab in Hr. apply in_map_iff in Hr. destruct Hr as (y & <- & Hy). apply in_seq in Hy.
      apply (line_no_nl y c); [lia|exact Hc]. }
  rewrite grid_lines.
  rewrite (scan_lines_picture W).
  - set (ls := line 0 :: map line (seq 1 (2 * m - 1)) ++ [line (2 * m)]).
    assert (length ls = H) as Lls by (unfold ls; cbn [length]; rewrite app_length, map_length, seq_length; cbn [length]; lia).
    assert (forall l, In l ls -> length l = W) as Lw.
    { intros l Hl. unfold ls in Hl. destruct Hl as [<-|Hl]; [apply line_length|]. apply in_app_or in Hl.
      destruct Hl as [Hl|[<-|[]]]; [|apply line_length]. apply in_map_iff in Hl. destruct Hl as (y & <- & _). apply line_length. }
    rewrite rev_length, Lls, rev_involutive.
    replace (0 <? H) with true by (symmetry; apply Nat.ltb_lt; lia). replace (0 <? W) with true by (symmetry; apply Nat.ltb_lt; lia).
    cbn [andb]. rewrite !map_app. cbn [map length repeat]. f_equal.
    + rewrite (T_is_grid d), grid_lines. fold ls.
      assert (pad W cOuter [] = repeat cOuter W) as -> by (unfold pad; cbn [length app]; now rewrite Nat.sub_0_r).
      f_equal. rewrite <- (map_id ls) at 2. apply map_ext_in. intros l Hl. apply pad_full. now apply Lw.
    + unfold B, tab. rewrite seq_S, map_app. cbn [map Nat.add].
      assert (pad W cOuter [] = repeat cOuter W) as -> by (unfold pad; cbn [length app]; now rewrite Nat.sub_0_r).
      rewrite Nat.ltb_irrefl, map_const_seq. f_equal.
      assert (ls = map line (seq 0 H)) as -> by (unfold ls; rewrite <- grid_lines; reflexivity).
      rewrite map_map. apply map_ext_in. intros y Hy. apply in_seq in Hy. rewrite line_length.
      replace (y <? H) with true by (symmetry; apply Nat.ltb_lt; lia). rewrite map_const_seq. apply pad_full. apply repeat_length.
  - change 0 with (2 * 0) at 1. apply line_even_solid. lia.
  - rewrite line_hd. change 0 with (2 * 0) at 1. rewrite ch_junction by lia. reflexivity.
  - change 0 with (2 * 0) at 1. rewrite (proj2 (line_even_solid 0 ltac:(lia))). apply Nat.eqb_neq. lia.
  - apply line_length.
  - intros l Hl. apply in_map_iff in Hl. destruct Hl as (y & <- & Hy). apply in_seq in Hy. split; [|split; [|apply line_length]].
    + destruct (Nat.Even_or_Odd y) as [(q & ->)|(q & ->)]; [apply line_even_solid; lia|apply line_odd_solid].
    + destruct (Nat.Even_or_Odd y) as [(q & ->)|(q & ->)]; [|apply line_odd_solid].
      rewrite (proj2 (line_even_solid q ltac:(lia))). apply Nat.eqb_neq. lia.
  - apply line_even_solid. lia.
  - rewrite (proj2 (line_even_solid m (le_n _))). apply Nat.eqb_refl.
  - apply line_length.
Qed.

(* ------------------------------------------------------------------ generic: lines that matter, columns that matter *)
Lemma filter_seq_X (p : nat -> bool) l : forall n, n <= length l ->
  (forall j, j < n -> p (X l j) = true) ->
  (forall j o, j < n -> o < nth j l 0 -> p (X l j + 1 + o) = false) ->
  filter p (seq 0 (X l n)) = map (X l) (seq 0 n).
Proof.
  induction n as [|n IH]; intros Hn Ht Hf; [now rewrite X_0|].
  rewrite X_succ by lia. replace (X l n + nth n l 0 + 1) with (X l n + S (nth n l 0)) by lia.
  rewrite seq_app, filter_app. rewrite IH; [|lia|intros; apply Ht; lia|intros; apply Hf; lia].
  rewrite (seq_S n 0), map_app. f_equal. cbn [Nat.add seq filter map]. rewrite Ht by lia. f_equal.
  apply filter_none. intros a Ha. apply in_seq in Ha. replace a with (X l n + 1 + (a - X l n - 1)) by lia. apply Hf; lia.
Qed.

Lemma flat_map_even {A} (f : nat -> list A) n : (forall i, i < n -> f (2 * i + 1) = []) ->
  flat_map f (seq 0 (2 * n)) = flat_map (fun i => f (2 * i)) (seq 0 n).
Proof.
  induction n as [|n IH]; intro Ho; [reflexivity|].
  replace (2 * S n) with (S (S (2 * n))) by lia. rewrite !seq_S, !flat_map_app, IH by (intros; apply Ho; lia).
  cbn [Nat.add flat_map]. replace (S (2 * n)) with (2 * n + 1) by lia. rewrite (Ho n) by lia. now rewrite !app_nil_r.
Qed.

Lemma flat_map_ext_in' {A B} (f g : A -> list B) l : (forall a, In a l -> f a = g a) -> flat_map f l = flat_map g l.
Proof.
  induction l as [|a l IH]; intro E; [reflexivity|]. cbn [flat_map]. rewrite (E a (or_introl eq_refl)), IH; [reflexivity|].
  intros b Hb. apply E. now right.
Qed.

Lemma fold_res_app {A B} (F : A -> B -> res A) l1 : forall l2 a,
  fold_res F (l1 ++ l2) a = (a' <- fold_res F l1 a ;; fold_res F l2 a').
Proof.
  induction l1 as [|b l1 IH]; intros l2 a; [reflexivity|]. cbn [app fold_res].
  destruct (F a b) as [a'| |]; cbn [bind]; [apply IH|reflexivity|reflexivity].
Qed.

Lemma fold_res_even {A} (F : A -> nat -> res A) n : (forall i a, i < n -> F a (2 * i + 1) = Ok a) ->
  forall a, fold_res F (seq 0 (2 * n)) a = fold_res (fun a i => F a (2 * i)) (seq 0 n) a.
Proof.
  induction n as [|n IH]; intros Ho a; [reflexivity|].
  replace (2 * S n) with (S (S (2 * n))) by lia. rewrite !seq_S. rewrite <- app_assoc, !fold_res_app.
  rewrite IH by (intros; apply Ho; lia).
  destruct (fold_res (fun a0 i => F a0 (2 * i)) (seq 0 n) a) as [a'| |]; cbn [bind]; try reflexivity.
  cbn [Nat.add app fold_res]. destruct (F a' (2 * n)) as [a''| |]; cbn [bind]; try reflexivity.
  replace (S (2 * n)) with (2 * n + 1) by lia. now rewrite Ho by lia.
Qed.

Lemma fold_res_filter {A B} (F : A -> B -> res A) (p : B -> bool) l :
  (forall a b, In b l -> p b = false -> F a b = Ok a) -> forall a, fold_res F l a = fold_res F (filter p l) a.
Proof.
  induction l as [|b l IH]; intros Hs a; [reflexivity|]. cbn [fold_res filter]. destruct (p b) eqn:E.
  - cbn [fold_res]. destruct (F a b); cbn [bind]; try reflexivity. apply IH. intros a1 b1 Hb. apply Hs. now right.
  - rewrite (Hs a b (or_introl eq_refl) E). cbn [bind]. apply IH. intros a1 b1 Hb. apply Hs. now right.
Qed.

Lemma map_res_app {A B} (f : A -> res B) l1 l2 b1 b2 :
  map_res f l1 = Ok b1 -> map_res f l2 = Ok b2 -> map_res f (l1 ++ l2) = Ok (b1 ++ b2).
Proof.
  revert b1. induction l1 as [|a l1 IH]; intros b1 E1 E2.
  - cbn in E1. injection E1 as <-. exact E2.
  - cbn [app map_res] in *. destruct (f a) as [b| |]; cbn [bind] in *; try discriminate.
    destruct (map_res f l1) as [bs| |]; cbn [bind] in *; try discriminate. injection E1 as <-.
    rewrite (IH bs eq_refl E2). reflexivity.
Qed.
Lemma map_res_map {A B I} (f : A -> res B) (h : I -> A) (r : I -> B) l :
  (forall i, In i l -> f (h i) = Ok (r i)) -> map_res f (map h l) = Ok (map r l).
Proof.
  induction l as [|i l IH]; intro Hs; [reflexivity|]. cbn [map map_res]. rewrite (Hs i (or_introl eq_refl)). cbn [bind].
  rewrite IH by (intros; apply Hs; now right). reflexivity.
Qed.
Lemma map_res_flat {A B I} (f : A -> res B) (h : I -> list A) (r : I -> list B) l :
  (forall i, In i l -> map_res f (h i) = Ok (r i)) -> map_res f (flat_map h l) = Ok (flat_map r l).
Proof.
  induction l as [|i l IH]; intro Hs; [reflexivity|]. cbn [flat_map]. apply map_res_app.
  - apply Hs. now left.
  - apply IH. intros; apply Hs; now right.
Qed.

Lemma grid_list_length {A} (f : nat -> nat -> A) n k : forall a,
  length (flat_map (fun i => map (f i) (seq 0 n)) (seq a k)) = k * n.
Proof. induction k as [|k IH]; intro a; [reflexivity|]. cbn [seq flat_map]. rewrite app_length, map_length, seq_length, IH. lia. Qed.

Lemma find_region_skip l1 l2 r : forall s, (forall a, In a l1 -> contains a r = false) ->
  find_region (l1 ++ l2) r s = find_region l2 r (s + length l1).
Proof.
  induction l1 as [|a l1 IH]; intros s Hn; [cbn [app length]; now rewrite Nat.add_0_r|].
  cbn [app find_region length]. rewrite (Hn a (or_introl eq_refl)). rewrite IH by (intros; apply Hn; now right). f_equal. lia.
Qed.

(* ------------------------------------------------------------------ the top-left corners of THIN = GRID, line by line *)
Lemma TH_length : length (TH d) = S H.
Proof. unfold TH. now rewrite tab_length. Qed.
Lemma TH_row_length y : y < S H -> length (nth y (TH d) []) = W.
Proof. intro Hy. unfold TH. rewrite tab_row_nth by assumption. now rewrite map_length, seq_length. Qed.

Lemma corner_TH y x : y < S H -> x < W -> is_tl_corner (TH d) y x = mem (th d y x) corners_tl.
Proof. intros Hy Hx. unfold is_tl_corner, TH. now rewrite get_tab by assumption. Qed.

Lemma thj_corner i j : i < m -> j <= nc -> mem (thj d i j) corners_tl = negb (j =? nc).
Proof.
  intros Hi Hj. facts. unfold thj. eqb_false i m.
  destruct (j =? nc) eqn:En.
  - apply Nat.eqb_eq in En. subst j. eqb_false nc 0. destruct (i =? 0); reflexivity.
  - destruct (i =? 0), (j =? 0); reflexivity.
Qed.

Lemma corner_at i j : i < m -> j <= nc -> is_tl_corner (TH d) (2 * i) (X ws j) = negb (j =? nc).
Proof.
  intros Hi Hj. facts. pose proof (Xj_lt_W d j Hj) as Hx. rewrite corner_TH by lia.
  destruct (th_even d i (X ws j) ltac:(lia) Hx) as [(j' & J1 & J2 & J3)|((j' & o & J1 & J2 & J3) & _)].
  - apply X_inj in J2; try lia. subst j'. rewrite J3. now apply thj_corner.
  - exfalso. pose proof (Xin_lt d j' o J1 J2) as L. destruct (Nat.lt_ge_cases j (S j')) as [L'|G].
    + pose proof (X_le ws j j' ltac:(lia) ltac:(lia)). lia.
    + pose proof (X_le ws (S j') j ltac:(lia) ltac:(lia)). lia.
Qed.

Lemma corners_line i : i < m -> filter (is_tl_corner (TH d) (2 * i)) (seq 0 W) = map (X ws) (seq 0 nc).
Proof.
  intro Hi. facts. rewrite PW, seq_S, filter_app. cbn [Nat.add filter].
  rewrite (corner_at i nc Hi (le_n _)), Nat.eqb_refl. cbn [negb]. rewrite app_nil_r.
  apply filter_seq_X; [lia| |].
  - intros j Hj. rewrite corner_at by lia. now eqb_false j nc.
  - intros j o Hj Ho. pose proof (Xin_lt_W d j o Hj Ho) as Hx. rewrite corner_TH by lia.
    destruct (th_even d i (X ws j + 1 + o) ltac:(lia) Hx) as [(j' & J1 & J2 & J3)|(_ & J3)]; [|now rewrite J3].
    exfalso. pose proof (Xin_lt d j o Hj Ho) as L. destruct (Nat.lt_ge_cases j' (S j)) as [L'|G].
    + pose proof (X_le ws j' j ltac:(lia) ltac:(lia)). lia.
    + pose proof (X_le ws (S j) j' ltac:(lia) ltac:(lia)). lia.
Qed.

(* no corner on the bottom line, on the text lines and on the extra last line *)
Lemma no_corner y x : y < S H -> x < W -> (forall i, i < m -> y <> 2 * i) -> is_tl_corner (TH d) y x = false.
Proof.
  intros Hy Hx Hne. facts. rewrite corner_TH by assumption.
  destruct (y_cases d y Hy) as [(i & Hi & ->)|[(i & Hi & ->)| ->]].
  - assert (i = m) as -> by (destruct (Nat.eq_dec i m); [assumption|exfalso; apply (Hne i); lia]).
    destruct (th_even d m x (le_n _) Hx) as [(j & _ & _ & E)|(_ & E)]; rewrite E; [|reflexivity].
    unfold thj. eqb_false m 0. rewrite Nat.eqb_refl. destruct (j =? 0), (j =? nc); reflexivity.
  - destruct (th_odd d Hwf i x Hi Hx) as [(j & _ & _ & E)|(_ & E)]; rewrite E; reflexivity.
  - now rewrite th_last.
Qed.
Lemma corners_none y : y < S H -> (forall i, i < m -> y <> 2 * i) -> filter (is_tl_corner (TH d) y) (seq 0 W) = [].
Proof. intros Hy Hne. apply filter_none. intros x Hx. apply in_seq in Hx. apply no_corner; try assumption; lia. Qed.

Definition corners : list point := flat_map (fun i => map (fun j => (X ws j, 2 * i)) (seq 0 nc)) (seq 0 m).
Definition regions : list rect := flat_map (fun i => map (cell_rect d i) (seq 0 nc)) (seq 0 m).

Lemma lines_split : seq 0 (S H) = seq 0 (2 * m) ++ [2 * m; 2 * m + 1].
Proof. facts. rewrite PH. rewrite !seq_S. rewrite <- app_assoc. cbn [Nat.add app]. do 3 f_equal. lia. Qed.

Lemma corners_TH : find_top_left_corners (TH d) = corners.
Proof.
  facts. unfold find_top_left_corners. rewrite TH_length, lines_split, flat_map_app. cbn [flat_map].
  rewrite !TH_row_length by lia. rewrite !corners_none by (try lia; intros; lia). cbn [map app]. rewrite app_nil_r.
  rewrite flat_map_even.
  - unfold corners. apply flat_map_ext_in'. intros i Hi. apply in_seq in Hi. rewrite TH_row_length by lia.
    rewrite corners_line by lia. now rewrite map_map.
  - intros i Hi. rewrite TH_row_length by lia. rewrite corners_none by (try lia; intros; lia). reflexivity.
Qed.

Theorem regions_regular : recognize_regions (TH d) = Ok regions.
Proof.
  unfold recognize_regions. rewrite corners_TH. unfold corners, regions. apply map_res_flat. intros i Hi. apply in_seq in Hi.
  apply map_res_map. intros j Hj. apply in_seq in Hj. apply (region_cell d Hwf); lia.
Qed.

(* ------------------------------------------------------------------ the number of a region *)
Lemma contains_cell i j i' j' : j < nc -> j' < nc ->
  contains (cell_rect d i' j') (cell_rect d i j) = (i' =? i) && (j' =? j).
Proof.
  intros Hj Hj'. facts. unfold contains, cell_rect.
  destruct ((i' =? i) && (j' =? j)) eqn:E.
  - apply andb_true_iff in E. destruct E as [E1 E2]. apply Nat.eqb_eq in E1, E2. subst. now rewrite !Nat.leb_refl.
  - destruct (_ && _ && _ && _) eqn:C; [exfalso|reflexivity].
    rewrite !andb_true_iff, !Nat.leb_le in C. destruct C as (((C1 & C2) & C3) & C4).
    assert (i' = i) by lia. subst i'. rewrite Nat.eqb_refl in E. cbn [andb] in E. apply Nat.eqb_neq in E.
    destruct (Nat.lt_trichotomy j' j) as [L|[L|L]]; [|lia|].
    + pose proof (X_le ws (S j') (S j) ltac:(lia) ltac:(lia)). pose proof (X_mono ws (S j') (S j) ltac:(lia) ltac:(lia)). lia.
    + pose proof (X_mono ws j j' L ltac:(lia)). lia.
Qed.

Lemma region_number i j : i < m -> j < nc -> find_region regions (cell_rect d i j) 0 = Some (i * nc + j, cell_rect d i j).
Proof.
  intros Hi Hj. unfold regions.
  replace m with (i + S (m - i - 1)) by lia. rewrite seq_app, flat_map_app. cbn [Nat.add seq flat_map].
  rewrite find_region_skip.
  2:{ intros a Ha. apply in_flat_map in Ha. destruct Ha as (i' & Hi' & Ha). apply in_seq in Hi'. apply in_map_iff in Ha.
      destruct Ha as (j' & <- & Hj'). apply in_seq in Hj'. rewrite contains_cell by lia.
      replace (i' =? i) with false by (symmetry; apply Nat.eqb_neq; lia). reflexivity. }
  rewrite grid_list_length. cbn [Nat.add].
  replace (seq 0 nc) with (seq 0 (j + S (nc - j - 1))) at 1 by (f_equal; lia). rewrite seq_app, map_app. cbn [Nat.add seq map]. rewrite <- app_assoc.
  rewrite find_region_skip.
  2:{ intros a Ha. apply in_map_iff in Ha. destruct Ha as (j' & <- & Hj'). apply in_seq in Hj'. rewrite contains_cell by lia.
      replace (j' =? j) with false by (symmetry; apply Nat.eqb_neq; lia). apply andb_false_r. }
  rewrite map_length, seq_length. cbn [app find_region]. rewrite contains_cell by lia. now rewrite !Nat.eqb_refl.
Qed.

(* ------------------------------------------------------------------ generic: folds that always succeed *)
Lemma fold_res_map {A B I} (F : A -> B -> res A) (h : I -> B) l : forall a,
  fold_res F (map h l) a = fold_res (fun a i => F a (h i)) l a.
Proof. induction l as [|i l IH]; intro a; [reflexivity|]. cbn [map fold_res]. destruct (F a (h i)); cbn [bind]; try reflexivity. apply IH. Qed.

Lemma fold_res_ok {A B} (F : A -> B -> res A) (g : A -> B -> A) l :
  (forall a b, In b l -> F a b = Ok (g a b)) -> forall a, fold_res F l a = Ok (fold_left g l a).
Proof.
  induction l as [|b l IH]; intros Hs a; [reflexivity|]. cbn [fold_res fold_left]. rewrite (Hs a b (or_introl eq_refl)). cbn [bind].
  apply IH. intros a1 b1 Hb. apply Hs. now right.
Qed.

Lemma X_eqb j j' : j <= nc -> j' <= nc -> (X ws j =? X ws j') = (j =? j').
Proof.
  intros Hj Hj'. destruct (j =? j') eqn:E.
  - apply Nat.eqb_eq in E. subst. apply Nat.eqb_refl.
  - apply Nat.eqb_neq. intro E'. apply X_inj in E'; try assumption. subst. now rewrite Nat.eqb_refl in E.
Qed.

(* ------------------------------------------------------------------ the walk of Canvas::plane along one line of cells *)
Definition region_cell_of (i j : nat) : ccell := CRegion (i * nc + j) (cell_rect d i j) (cell_text d i j).
Definition prow (i n : nat) : list ccell := flat_map (fun j => lead d j ++ [region_cell_of i j]) (seq 0 n).

Definition cell_step (i : nat) (st : row_state) (j : nat) : row_state :=
  let '(cells, col, cc, ch) := st in
  (rev (lead d j ++ [region_cell_of i j]) ++ cells,
   col + length (lead d j) + 1,
   (if j =? v1 then Some col else cc),
   match rd_v2 d with Some k => if j =? k then Some col else ch | None => ch end).

Lemma plane_cell_regular i j st : i < m -> j < nc ->
  plane_cell (regular_canvas d) regions (2 * i) st (X ws j) = Ok (cell_step i st j).
Proof.
  intros Hi Hj. facts. destruct st as (((cells & col) & cc) & ch).
  unfold plane_cell. cbn [regular_canvas cv_grid cv_cross cv_horz cv_text fst snd].
  rewrite corner_at by lia. eqb_false j nc. cbn [negb].
  rewrite X_eqb by lia.
  assert (forall (cells1 : list ccell) (col1 : nat) (cc1 ch1 : option nat),
            (rect <- recognize_rectangle (TH d) (X ws j, 2 * i) ;;
             match find_region regions rect 0 with
             | Some (i0, region) => t <- text_from_rect (T d) region ;; Ok (CRegion i0 region t :: cells1, S col1, cc1, ch1)
             | None => Err
             end) = Ok (region_cell_of i j :: cells1, S col1, cc1, ch1)) as Fin.
  { intros. rewrite (rectangle_cell d Hwf i j Hi Hj). cbn [bind]. rewrite (region_number i j Hi Hj).
    rewrite (text_cell d Hwf i j Hi Hj). reflexivity. }
  unfold cell_step, lead.
  destruct (j =? v1) eqn:E1.
  - apply Nat.eqb_eq in E1. destruct (rd_v2 d) as [k|] eqn:E2; cbn [option_map].
    + destruct (v2_bounds d Hwf k E2) as [K1 K2]. cbn [fst]. rewrite X_eqb by lia. eqb_false j k.
      rewrite Fin. cbn [app rev length]. repeat (f_equal; try lia).
    + rewrite Fin. cbn [app rev length]. repeat (f_equal; try lia).
  - destruct (rd_v2 d) as [k|] eqn:E2; cbn [option_map].
    + destruct (v2_bounds d Hwf k E2) as [K1 K2]. cbn [fst]. rewrite X_eqb by lia. destruct (j =? k) eqn:E3.
      * rewrite Fin. cbn [app rev length]. repeat (f_equal; try lia).
      * rewrite Fin. cbn [app rev length]. repeat (f_equal; try lia).
    + rewrite Fin. cbn [app rev length]. repeat (f_equal; try lia).
Qed.

Definition cnt (n : nat) : nat :=
  n + (if v1 <? n then 1 else 0) + match rd_v2 d with Some k => if k <? n then 1 else 0 | None => 0 end.

Lemma prow_S i n : prow i (S n) = prow i n ++ lead d n ++ [region_cell_of i n].
Proof. unfold prow. rewrite seq_S, flat_map_app. cbn [Nat.add flat_map]. now rewrite app_nil_r. Qed.

Lemma prow_length i n : length (prow i n) = cnt n.
Proof.
  induction n as [|n IH]; [unfold cnt; cbn; now destruct (rd_v2 d)|].
  rewrite prow_S, !app_length, IH. unfold lead, cnt. cbn [length].
  destruct (Nat.ltb_spec v1 n), (Nat.ltb_spec v1 (S n)), (Nat.eqb_spec n v1); try lia;
    (destruct (rd_v2 d) as [k|]; [destruct (Nat.ltb_spec k n), (Nat.ltb_spec k (S n)), (Nat.eqb_spec n k); try lia|]); cbn [length app]; lia.
Qed.

Definition chv (ch0 : option nat) : option nat := match rd_v2 d with Some k => Some (S k) | None => ch0 end.

Lemma cells_fold i cc0 ch0 n : n <= nc ->
  fold_left (cell_step i) (seq 0 n) ([], 0, cc0, ch0) =
  (rev (prow i n), cnt n, (if v1 <? n then Some v1 else cc0),
   match rd_v2 d with Some k => if k <? n then Some (S k) else ch0 | None => ch0 end).
Proof.
  intro Hn. facts. induction n as [|n IH].
  - cbn [seq fold_left prow flat_map rev]. unfold cnt. cbn [Nat.ltb Nat.leb Nat.add]. destruct (rd_v2 d); reflexivity.
  - rewrite seq_S, fold_left_app, IH by lia. cbn [Nat.add fold_left cell_step].
    f_equal; [f_equal; [f_equal|]|].
    + rewrite prow_S. now rewrite (rev_app_distr (prow i n)).
    + rewrite <- !(prow_length i), prow_S, !app_length. cbn [length]. lia.
    + destruct (Nat.eqb_spec n v1) as [->|Hne].
      * replace (v1 <? S v1) with true by (symmetry; apply Nat.ltb_lt; lia). unfold cnt.
        rewrite Nat.ltb_irrefl. destruct (rd_v2 d) as [k|] eqn:E2; [|f_equal; lia].
        destruct (v2_bounds d Hwf k E2) as [K1 K2]. replace (k <? v1) with false by (symmetry; apply Nat.ltb_ge; lia). f_equal. lia.
      * destruct (Nat.ltb_spec v1 n), (Nat.ltb_spec v1 (S n)); try lia; reflexivity.
    + destruct (rd_v2 d) as [k|] eqn:E2; [|reflexivity]. destruct (v2_bounds d Hwf k E2) as [K1 K2].
      destruct (Nat.eqb_spec n k) as [->|Hne].
      * replace (k <? S k) with true by (symmetry; apply Nat.ltb_lt; lia). unfold cnt. rewrite E2, Nat.ltb_irrefl.
        replace (v1 <? k) with true by (symmetry; apply Nat.ltb_lt; lia). f_equal. lia.
      * destruct (Nat.ltb_spec k n), (Nat.ltb_spec k (S n)); try lia; reflexivity.
Qed.

Lemma plane_row_prow i : plane_row d i = prow i nc.
Proof. reflexivity. Qed.
Lemma cnt_nc : cnt nc = plane_width d.
Proof.
  facts. unfold cnt, plane_width. replace (v1 <? nc) with true by (symmetry; apply Nat.ltb_lt; lia).
  destruct (rd_v2 d) as [k|] eqn:E2; [|lia]. destruct (v2_bounds d Hwf k E2) as [K1 K2].
  replace (k <? nc) with true by (symmetry; apply Nat.ltb_lt; lia). lia.
Qed.
Lemma plane_row_length i : length (plane_row d i) = plane_width d.
Proof. rewrite plane_row_prow, prow_length. apply cnt_nc. Qed.

Lemma line_fold i cc0 ch0 : i < m ->
  fold_res (plane_cell (regular_canvas d) regions (2 * i)) (seq 0 (length (nth (2 * i) (cv_grid (regular_canvas d)) []))) ([], 0, cc0, ch0)
  = Ok (rev (plane_row d i), plane_width d, Some v1, chv ch0).
Proof.
  intro Hi. facts. cbn [regular_canvas cv_grid]. rewrite TH_row_length by lia.
  rewrite (fold_res_filter _ (is_tl_corner (TH d) (2 * i))).
  2:{ intros a x _ E. unfold plane_cell. cbn [regular_canvas cv_grid]. now rewrite E. }
  rewrite corners_line by assumption. rewrite fold_res_map.
  rewrite (fold_res_ok _ (cell_step i)).
  2:{ intros a j Hj. apply in_seq in Hj. apply plane_cell_regular; lia. }
  rewrite cells_fold by lia. rewrite cnt_nc, plane_row_prow. unfold chv.
  replace (v1 <? nc) with true by (symmetry; apply Nat.ltb_lt; lia).
  destruct (rd_v2 d) as [k|] eqn:E2; [|reflexivity]. destruct (v2_bounds d Hwf k E2) as [K1 K2].
  now replace (k <? nc) with true by (symmetry; apply Nat.ltb_lt; lia).
Qed.

Lemma line_fold_none y st : y < S H -> (forall i, i < m -> y <> 2 * i) ->
  fold_res (plane_cell (regular_canvas d) regions y) (seq 0 (length (nth y (cv_grid (regular_canvas d)) []))) st = Ok st.
Proof.
  intros Hy Hne. cbn [regular_canvas cv_grid]. rewrite TH_row_length by lia.
  rewrite (fold_res_filter _ (is_tl_corner (TH d) y)).
  2:{ intros a x _ E. unfold plane_cell. cbn [regular_canvas cv_grid]. now rewrite E. }
  now rewrite corners_none by assumption.
Qed.

(* ------------------------------------------------------------------ the walk over the lines *)
Definition cross_of (width : nat) (cc ch : option nat) : list ccell :=
  map (fun i => if opt_is cc i then CMain else if opt_is ch i then CHCross else CHOut) (seq 0 width).

Lemma plane_line_cells i rows width cc ch : i < m ->
  plane_line (regular_canvas d) regions (rows, width, cc, ch) (2 * i) =
  Ok (plane_row d i :: (if i =? 1 then cross_of width cc ch :: rows else rows), plane_width d, Some v1, chv ch).
Proof.
  intro Hi. facts. unfold plane_line. rewrite line_fold by assumption. cbn [bind].
  cbn [regular_canvas cv_cross cv_vert snd].
  replace (2 * i =? 2) with (i =? 1) by (destruct (Nat.eqb_spec i 1), (Nat.eqb_spec (2 * i) 2); lia || reflexivity).
  pose proof (plane_row_length i) as L. rewrite <- rev_length in L.
  destruct (rev (plane_row d i)) as [|c cs] eqn:E.
  - exfalso. cbn [length] in L. unfold plane_width in L. lia.
  - rewrite L. rewrite <- E, rev_involutive. reflexivity.
Qed.

Lemma plane_line_other y st : y < S H -> (forall i, i < m -> y <> 2 * i) ->
  plane_line (regular_canvas d) regions st y = Ok st.
Proof.
  intros Hy Hne. facts. destruct st as (((rows & width) & cc) & ch). unfold plane_line.
  rewrite line_fold_none by assumption. cbn [bind]. cbn [regular_canvas cv_cross cv_vert snd].
  assert (y <> 2) by (specialize (Hne 1); lia). eqb_false y 2. reflexivity.
Qed.

Lemma chv_idem c : chv (chv c) = chv c.
Proof. unfold chv. now destruct (rd_v2 d). Qed.

Lemma lines_rest n : forall a rows c, 2 <= a -> a + n <= m -> chv c = c ->
  fold_res (fun st i => plane_line (regular_canvas d) regions st (2 * i)) (seq a n) (rows, plane_width d, Some v1, c) =
  Ok (rev (map (plane_row d) (seq a n)) ++ rows, plane_width d, Some v1, c).
Proof.
  induction n as [|n IH]; intros a rows c Ha Hm Hc; [reflexivity|].
  cbn [seq fold_res]. rewrite plane_line_cells by lia. eqb_false a 1. cbn [bind]. rewrite Hc.
  rewrite IH by (try lia; assumption). cbn [map rev]. now rewrite <- app_assoc.
Qed.

Lemma cross_of_line : cross_of (plane_width d) (Some v1) (chv None) = cross_line d.
Proof.
  unfold cross_of, cross_line, chv. apply map_ext. intro c. unfold opt_is. rewrite (Nat.eqb_sym v1 c).
  destruct (c =? v1); [reflexivity|]. destruct (rd_v2 d) as [k|]; [|reflexivity]. now rewrite (Nat.eqb_sym (S k) c).
Qed.

Lemma expected_rows : expected_plane d = plane_row d 0 :: cross_line d :: map (plane_row d) (seq 1 (m - 1)).
Proof. facts. unfold expected_plane. replace m with (S (m - 1)) at 1 by lia. reflexivity. Qed.

Lemma finalize_expected : finalize (expected_plane d) = Ok (expected_plane d).
Proof.
  facts. rewrite expected_rows.
  unfold finalize. rewrite plane_row_length.
  assert (plane_width d =? 0 = false) as -> by (apply Nat.eqb_neq; unfold plane_width; lia). cbn [orb].
  rewrite existsb_false; [reflexivity|]. intros r Hr.
  assert (length r = plane_width d) as ->; [|now rewrite Nat.eqb_refl].
  destruct Hr as [<-|[<-|Hr]]; [apply plane_row_length| |].
  - unfold cross_line. now rewrite map_length, seq_length.
  - apply in_map_iff in Hr. destruct Hr as (i & <- & _). apply plane_row_length.
Qed.

Theorem plane_regular : plane_of (regular_canvas d) = Ok (expected_plane d).
Proof.
  facts. unfold plane_of. cbn [regular_canvas cv_thin]. rewrite regions_regular. cbn [bind].
  change (cv_grid (regular_canvas d)) with (TH d).
  rewrite TH_length, lines_split, fold_res_app.
  rewrite (fold_res_even (plane_line (regular_canvas d) regions)).
  2:{ intros i a Hi. apply plane_line_other; [lia|]. intros i' _. lia. }
  replace m with (S (S (m - 2))) at 1 by lia. cbn [seq fold_res].
  rewrite plane_line_cells by lia. cbn [Nat.eqb bind].
  rewrite plane_line_cells by lia. cbn [Nat.eqb bind].
  rewrite lines_rest by (try lia; apply chv_idem). cbn [bind fold_res].
  rewrite plane_line_other by (try lia; intros; lia). cbn [bind].
  rewrite plane_line_other by (try lia; intros; lia). cbn [bind].
  rewrite rev_app_distr, rev_involutive. cbn [rev app].
  assert (cross_of (plane_width d) (Some v1) (chv None) = cross_line d) as -> by apply cross_of_line.
  assert (plane_row d 0 :: cross_line d :: plane_row d 1 :: map (plane_row d) (seq 2 (m - 2)) = expected_plane d) as ->.
  { rewrite expected_rows. replace (m - 1) with (S (m - 2)) by lia. reflexivity. }
  apply finalize_expected.
Qed.

(* ------------------------------------------------------------------ the headline: text -> plane *)
Theorem cplane_regular : canvas_cplane (draw d) = Ok (None, expected_plane d).
Proof.
  unfold canvas_cplane, scan. rewrite scan_layers_regular. rewrite (scan_regular d Hwf). cbn [bind].
  rewrite plane_regular. reflexivity.
Qed.

End Assembly.

Theorem draw_roundtrip_regular code d : wf_rdraw d = true ->
  canvas_cplane (draw d) = Ok (None, expected_plane d) /\
  canvas_to_plane code (draw d) = Some (map (map (abs_cell code)) (expected_plane d)).
Proof. intro Hwf. split; [now apply cplane_regular|]. unfold canvas_to_plane. now rewrite cplane_regular. Qed.
