(* C02 — property theorems only.  Proofs are in C02/Proofs.v and Base/DecFacts.v.
   The theorems are about the specification model (Base/DecRound.v); the C kernel is tied to it by the correspondence check only. *)
From Coq Require Import ZArith NArith Bool List.
From DV Require Import Base.Dec Base.DecFacts Base.DecRound C02.Model C02.Proofs C02.Sqrt.
Import ListNotations.
Open Scope Z_scope.

(* HEADLINE.  The rounding step every operation ends with returns a decimal128 datum (exponent in range) whose value is a
   nearest one to the exact value m*10^e at the target quantum (34 digits, or the subnormal grid), half-way cases go to the even
   coefficient, and nothing is rounded when the exact value fits.  All values are written at the common base exponent b. *)
Theorem C02_round34_nearest_even : forall s m e d, (0 < m)%N -> round34 s m e = Some d ->
  let e1 := target_exp m e in let b := Z.min e ETINY in
  neg d = s /\ ETINY <= expo d <= ETOP /\
  2 * Z.abs (Z.of_N (coef d) * 10 ^ (expo d - b) - Z.of_N m * 10 ^ (e - b)) <= 10 ^ (e1 - b) /\
  (e < e1 -> 2 * Z.abs (Z.of_N (coef d) * 10 ^ (expo d - b) - Z.of_N m * 10 ^ (e - b)) = 10 ^ (e1 - b) ->
   N.even (round_half_even m (Z.to_N (e1 - e))) = true) /\
  (e1 = e -> Z.of_N (coef d) * 10 ^ (expo d - b) = Z.of_N m * 10 ^ (e - b)).
Proof. exact round34_nearest_even. Qed.

Theorem C02_round_half_even : forall m drop, (0 < drop)%N ->
  let p := (10 ^ drop)%N in let q := round_half_even m drop in
  2 * Z.abs (Z.of_N q * Z.of_N p - Z.of_N m) <= Z.of_N p /\
  (2 * Z.abs (Z.of_N q * Z.of_N p - Z.of_N m) = Z.of_N p -> N.even q = true).
Proof. exact round_half_even_spec. Qed.

(* representable values are returned unchanged (also: a literal of up to 34 significant digits is exact, C07) *)
Theorem C02_round_exact : forall s m e, (m < 10 ^ PREC)%N -> ETINY <= e <= ETOP -> round34 s m e = Some (mkdec s m e).
Proof. exact round34_exact. Qed.

(* every result of the rounding step is a decimal128 datum: coefficient below 10^34, exponent -6176..6111 (so no operation of the model can
   return anything but a finite number or null) *)
Theorem C02_round34_in_format : forall s m e d, round34 s m e = Some d -> in_format d = true.
Proof. exact round34_in_format. Qed.

(* division: the quotient is cut after >= 36 digits and one sticky digit records a non-zero remainder; rounding that number is rounding
   the exact quotient n/b (nearest, ties to even) as soon as two digits are dropped, and ddiv always drops at least three *)
Theorem C02_div_sticky : forall n b D, (0 < b)%N -> (2 <= D)%N ->
  let q := (n / b)%N in let r := (n mod b)%N in
  let m := (10 * q + (if (r =? 0)%N then 0 else 1))%N in
  let c := Z.of_N (round_half_even m D) in let P := Z.of_N (10 ^ (D - 1)) in
  2 * Z.abs (c * P * Z.of_N b - Z.of_N n) <= P * Z.of_N b /\
  (2 * Z.abs (c * P * Z.of_N b - Z.of_N n) = P * Z.of_N b -> Z.even c = true).
Proof. exact div_sticky. Qed.
Theorem C02_div_drops_at_least_3 : forall ca cb e, (0 < ca)%N -> (0 < cb)%N ->
  let k := Z.to_N (Z.max 0 (36 + Z.of_N (ndigits cb) - Z.of_N (ndigits ca))) in
  let q := (ca * 10 ^ k / cb)%N in
  forall s, (s <= 1)%N -> 3 <= target_exp (10 * q + s) e - e.
Proof. exact ddiv_drops_at_least_3. Qed.

(* square root: floor root plus a sticky digit; c is nearest to sqrt n / P (stated with squares of the half-way points), ties to even *)
Theorem C02_sqrt_sticky : forall n D, (2 <= D)%N ->
  let s := N.sqrt n in let m := (10 * s + (if (s * s =? n)%N then 0 else 1))%N in
  let c := Z.of_N (round_half_even m D) in let P := Z.of_N (10 ^ (D - 1)) in
  4 * Z.of_N n <= ((2 * c + 1) * P) ^ 2 /\ (0 < c -> ((2 * c - 1) * P) ^ 2 <= 4 * Z.of_N n) /\
  (4 * Z.of_N n = ((2 * c + 1) * P) ^ 2 -> Z.even c = true) /\
  (0 < c -> 4 * Z.of_N n = ((2 * c - 1) * P) ^ 2 -> Z.even c = true).
Proof. exact sqrt_sticky. Qed.

(* dsqrt's scaled radicand c * 10^(2k) always has a floor root of at least 36 digits, so at least three digits of 10*root + sticky are
   dropped by the rounding step: C02_sqrt_sticky applies to every square root the model computes (analogue of C02_div_drops_at_least_3) *)
Theorem C02_sqrt_root_digits : forall c, (0 < c)%N ->
  let k := Z.to_N (Z.max 0 (36 - Z.of_N (ndigits c) / 2)) in
  (10 ^ 35 <= N.sqrt (c * 10 ^ (2 * k)))%N.
Proof. exact dsqrt_root_digits. Qed.
Theorem C02_sqrt_drops_at_least_3 : forall c e, (0 < c)%N ->
  let k := Z.to_N (Z.max 0 (36 - Z.of_N (ndigits c) / 2)) in
  let s := N.sqrt (c * 10 ^ (2 * k)) in
  forall t, (t <= 1)%N -> 3 <= target_exp (10 * s + t) e - e.
Proof. exact dsqrt_drops_at_least_3. Qed.

(* HEADLINE for sqrt: for EVERY positive finite decimal d (any coefficient, any exponent) a result r of dsqrt is a decimal128 datum whose
   value is c * 10^q, where c * 10^q is a nearest multiple of 10^q to the exact square root of d, half-way cases going to an even c
   (integers only: at every common scale 10^B with B <= q and 2B <= expo d, X = 4 * d / 10^(2B) lies between the squares of the doubled
   half-way points lo = (2c-1) * 10^(q-B) and hi = (2c+1) * 10^(q-B)), c has at most 34 digits (c <= 10^34) and the quantum is the
   34-digit one (10^33 <= c) unless q is the smallest exponent -6176 *)
Theorem C02_sqrt_correctly_rounded : forall d r, (0 < coef d)%N -> neg d = false -> dsqrt d = Some r ->
  exists (c : N) (q : Z),
    in_format r = true /\ neg r = false /\ veq r (mkdec false c q) /\
    (c <= 10 ^ 34)%N /\ ETINY <= q /\ (ETINY < q -> (10 ^ 33 <= c)%N) /\
    forall B, B <= q -> 2 * B <= expo d ->
      let X := 4 * Z.of_N (coef d) * 10 ^ (expo d - 2 * B) in
      let lo := (2 * Z.of_N c - 1) * 10 ^ (q - B) in
      let hi := (2 * Z.of_N c + 1) * 10 ^ (q - B) in
      X <= hi ^ 2 /\ ((0 < c)%N -> lo ^ 2 <= X) /\
      (X = hi ^ 2 -> N.even c = true) /\ ((0 < c)%N -> X = lo ^ 2 -> N.even c = true).
Proof. exact dsqrt_correctly_rounded. Qed.

(* the square root of a non-negative decimal128 datum exists (never null: no overflow, no underflow) *)
Theorem C02_sqrt_defined : forall d, in_format d = true -> coef d = 0%N \/ neg d = false -> exists r, dsqrt d = Some r.
Proof. exact dsqrt_defined. Qed.

Example C02_sqrt_nonvacuous :
  dsqrt (mkdec false 2 0) = Some (mkdec false 1414213562373095048801688724209698 (-33)) /\
  f_sqrt (mkdec false 16 0) = Some (mkdec false 4 0) /\
  f_sqrt (mkdec false 1 (-6176)) = Some (mkdec false 1 (-3088)) /\
  f_sqrt (mkdec false 9999999999999999999999999999999999 6111) = Some (mkdec false 3162277660168379331998893544432718 3039) /\
  sqrt_nearest_even_at (mkdec false 2 0) 1414213562373095048801688724209698 (-33) (-33) /\
  (2 * 1414213562373095048801688724209698 - 1) ^ 2 < 4 * 2 * 10 ^ 66 < (2 * 1414213562373095048801688724209698 + 1) ^ 2.
Proof. exact sqrt_examples. Qed.

(* + and * : the exact integer result, then one rounding; exact when the exact result is representable *)
Theorem C02_add_exact_then_round : forall a b,
  dadd a b = round_Z (scaled a (emin2 a b) + scaled b (emin2 a b)) (emin2 a b) (neg a && neg b).
Proof. exact dadd_exact_then_round. Qed.
Theorem C02_mul_exact_then_round : forall a b,
  dmul a b = round34 (xorb (neg a) (neg b)) (coef a * coef b) (expo a + expo b).
Proof. exact dmul_exact_then_round. Qed.
Theorem C02_add_exact : forall a b, Z.abs (scaled a (emin2 a b) + scaled b (emin2 a b)) < 10 ^ 34 -> ETINY <= emin2 a b <= ETOP ->
  exists r, dadd a b = Some r /\ expo r = emin2 a b /\ sval r = scaled a (emin2 a b) + scaled b (emin2 a b).
Proof. exact dadd_exact. Qed.
Theorem C02_mul_exact : forall a b, (coef a * coef b < 10 ^ PREC)%N -> ETINY <= expo a + expo b <= ETOP ->
  dmul a b = Some (mkdec (xorb (neg a) (neg b)) (coef a * coef b) (expo a + expo b)).
Proof. exact dmul_exact. Qed.

(* comparison is by value: equal numbers compare equal whatever their trailing zeros; equality is an equivalence, < is transitive, antisymmetric *)
Theorem C02_trailing_zeros_equal : forall s c e k, 0 <= k -> dcmp (mkdec s c e) (mkdec s (c * 10 ^ Z.to_N k)%N (e - k)) = Eq.
Proof. exact trailing_zeros_equal. Qed.
Theorem C02_cmp_eq_iff_value : forall a b, dcmp a b = Eq <-> veq a b.
Proof. exact dcmp_eq_iff_veq. Qed.
Theorem C02_cmp_antisym : forall a b, dcmp b a = CompOpp (dcmp a b).
Proof. exact dcmp_antisym. Qed.
Theorem C02_value_eq_trans : forall a b c, veq a b -> veq b c -> veq a c.
Proof. exact veq_trans. Qed.
Theorem C02_cmp_lt_trans : forall a b c, dcmp a b = Lt -> dcmp b c = Lt -> dcmp a c = Lt.
Proof. exact dcmp_lt_trans. Qed.
(* reduce-after-operation does not change the value *)
Theorem C02_reduce_value : forall d, veq (dreduce d) d.
Proof. exact dreduce_value. Qed.

(* floor and ceiling are the integer floor and ceiling of the value *)
Theorem C02_floor_spec : forall d, expo d < 0 -> zfloor d * 10 ^ (- expo d) <= sval d < (zfloor d + 1) * 10 ^ (- expo d).
Proof. exact zfloor_spec. Qed.
Theorem C02_ceiling_spec : forall d, expo d < 0 -> (zceil d - 1) * 10 ^ (- expo d) < sval d <= zceil d * 10 ^ (- expo d).
Proof. exact zceil_spec. Qed.

(* modulo (Spec): the exact remainder a - b*floor(a/b), with the sign of the divisor *)
Theorem C02_mod_exact_remainder : forall a b, coef b <> 0%N ->
  let e := emin2 a b in let r := scaled a e - scaled b e * floor_div a b in
  r = (scaled a e) mod (scaled b e) /\ ((0 <= r < scaled b e) \/ (scaled b e < r <= 0)).
Proof. exact dmod_exact_remainder. Qed.

(* undefined results are null; a result of the model is a finite datum by construction (type dec has no Infinity and no NaN) *)
Theorem C02_div_by_zero_null : forall a b, coef b = 0%N -> ddiv a b = None /\ dmod a b = None.
Proof. exact div_by_zero_null. Qed.
Theorem C02_sqrt_negative_null : forall a, coef a <> 0%N -> neg a = true -> dsqrt a = None.
Proof. exact sqrt_negative_null. Qed.

(* the code's modulo (every step rounded) is not the Spec: known finding modulo-stepwise-rounding *)
Theorem C02_mod_steps_refuted : exists a b, mod_known a b = true /\ f_mod a b = Some (mkdec false 1 0) /\ f_mod_steps a b = Some (mkdec false 1 6).
Proof. exact mod_steps_refuted. Qed.

Example C02_nonvacuous :
  f_add (mkdec false 15 (-1)) (mkdec false 25 (-1)) = Some (mkdec false 4 0) /\
  f_div (mkdec false 2 0) (mkdec true 3 0) = Some (mkdec true 6666666666666666666666666666666667 (-34)) /\
  f_mul (mkdec false 1 6144) (mkdec false 10 0) = None /\
  f_mul (mkdec false 1 (-3100)) (mkdec false 15 (-3077)) = Some (mkdec false 2 (-6176)) /\
  f_cmp (mkdec false 10 (-1)) (mkdec false 100 (-2)) = Eq.
Proof. exact model_nontrivial. Qed.

Print Assumptions C02_round34_nearest_even.
Print Assumptions C02_round_half_even.
Print Assumptions C02_round_exact.
Print Assumptions C02_round34_in_format.
Print Assumptions C02_div_sticky.
Print Assumptions C02_div_drops_at_least_3.
Print Assumptions C02_sqrt_sticky.
Print Assumptions C02_sqrt_root_digits.
Print Assumptions C02_sqrt_drops_at_least_3.
Print Assumptions C02_sqrt_correctly_rounded.
Print Assumptions C02_sqrt_defined.
Print Assumptions C02_sqrt_nonvacuous.
Print Assumptions C02_add_exact_then_round.
Print Assumptions C02_mul_exact_then_round.
Print Assumptions C02_add_exact.
Print Assumptions C02_mul_exact.
Print Assumptions C02_trailing_zeros_equal.
Print Assumptions C02_cmp_eq_iff_value.
Print Assumptions C02_cmp_antisym.
Print Assumptions C02_value_eq_trans.
Print Assumptions C02_cmp_lt_trans.
Print Assumptions C02_reduce_value.
Print Assumptions C02_floor_spec.
Print Assumptions C02_ceiling_spec.
Print Assumptions C02_mod_exact_remainder.
Print Assumptions C02_div_by_zero_null.
Print Assumptions C02_sqrt_negative_null.
Print Assumptions C02_mod_steps_refuted.
Print Assumptions C02_nonvacuous.
