(* C19 — the information item name box above a drawn decision table.  (owner: ext-merged; the table is a merged drawing of
   coq/C19/CanvasMerged.v)
   The box is drawn on top of the first line of the table: a top line ┌──┐, the lines of the name │name│, and the top border of the
   table becomes the bottom line of the box: its first character becomes ├ and the character under the right edge of the box gets an
   upward arm (─ becomes ┴, ┬ becomes ┼, ┐ becomes ┤).  The right edge can be anywhere on the top border except on a double line.
   Nothing is drawn to the right of the box (the lines of the box are shorter than the lines of the table).
   `drawb` makes the text, `bplane` is the plane the recogniser must build: the plane of the table with every rectangle moved down by
   the height of the box and every region number raised by one (the box is region 0 of the THIN layer).  No proofs in this file. *)
From Coq Require Import List NArith Bool Arith.
From DV Require Import C19.Model C19.Canvas C19.CanvasDraw C19.CanvasMerged.
Import ListNotations.

Record ibox := {
  ib_name : list (list N);     (* the lines of the name, each as wide as the inside of the box *)
  ib_x : nat }.                (* the column of the right edge of the box *)

(* a junction character with an additional upward arm *)
Definition arm_up (c : N) : N :=
  if (c =? cH)%N then cB else if (c =? cT)%N then cX else if (c =? cTR)%N then cR else if (c =? cTL)%N then cL else c.

Section Box.
Variable d : mdraw.
Variable b : ibox.
Definition btp : nat := S (length (ib_name b)).        (* the line of the table's top border *)

Definition box_lines : list (list N) :=
  (cTL :: repeat cH (ib_x b - 1) ++ [cTR]) :: map (fun l => cV :: l ++ [cV]) (ib_name b).
(* the first line of the table with the two changed characters *)
Definition mod_first (row : list N) : list N :=
  mapi (fun x c => if (x =? 0) || (x =? ib_x b) then arm_up c else c) row.
Definition table_lines : list (list N) :=
  match mgrid d with [] => [] | r :: rest => mod_first r :: rest end.
Definition drawb : list N := flat_map (fun row => row ++ [cNL]) (box_lines ++ table_lines).

(* the plane: rectangles moved down, region numbers raised by one *)
Definition shift_rect (r : rect) : rect := let '(l, t, rr, bt) := r in (l, btp + t, rr, btp + bt).
Definition shift_cell (c : ccell) : ccell := match c with CRegion n r t => CRegion (S n) (shift_rect r) t | _ => c end.
Definition bplane : list (list ccell) := map (map shift_cell) (mplane d).
Definition bname : list N := text_rows (ib_name b) false.

(* the box: at least one line of name, every line as wide as the inside and without box characters; the right edge on the top border
   of the table, not on its first character and not on a double vertical line *)
Definition wf_ibox : bool :=
  (1 <=? length (ib_name b)) && (1 <=? ib_x b) && (ib_x b <? MW d) &&
  forallb (fun l => (length l =? ib_x b - 1) && plain l) (ib_name b) &&
  forallb (fun j => negb (dblv d j && (ib_x b =? X (md_ws d) j))) (seq 0 (S (mcols d))).
End Box.
