(* C06 — extended expression language: the Spec parser gives every tree back from its minimal rendering
   (all trees of C06.ModelExt.etree, no bound).  Owner: prover-C06. *)
From Coq Require Import List NArith Bool Arith Lia.
From DV Require Import C06.Model C06.ModelExt C06.ExtBase.
Import ListNotations.

(* ------------------------------------------------------------------ the rendering, one level at a time *)

Definition kvr (q : N * etree) : list etok := match q with (k, e) => XKey k :: rat 0 false e end.
Definition qdr (q : N * etree) : list etok := match q with (v, e) => XBind v :: rat 0 false e end.
Definition fdr (q : N * etree * option etree) : list etok :=
  match q with
  | (v, e, Some e2) => XBind v :: rat 0 false e ++ XEll :: rat 0 false e2
  | (v, e, None) => XBind v :: rat 0 false e
  end.

(* the tokens of t without parentheses around it; f: a continuing token follows *)
Definition ebody (f : bool) (t : etree) : list etok :=
  match t with
  | EAtom a => [XAtom a]
  | EBin o l r => rat (lc o) true l ++ XOp o :: rat (rc o) f r
  | ENeg x => XOp Sub :: rat r_neg f x
  | EBtw x lo hi => rat lv_between true x ++ XBetween :: rat 0 false lo ++ XBand :: rat rc_between f hi
  | EInst x ty => rat c_post true x ++ [XInst ty]
  | EPath x n => rat c_post true x ++ [XDot n]
  | EFilt x i => rat c_post true x ++ XLb :: rat 0 false i ++ [XRb]
  | ECall g args => rat c_post true g ++ XLp :: sepc (map (rat 0 false) args) ++ [XRp]
  | ECallN g a args => rat c_post true g ++ XLp :: sepc (map kvr (a :: args)) ++ [XRp]
  | EIf c a b => XIf :: rat 0 false c ++ XThen :: rat 0 false a ++ XElse :: rat 0 false b
  | EFor d ds b => XFor :: sepc (map fdr (d :: ds)) ++ XReturn :: rat 0 false b
  | EQuant q d ds b => quant_tok q :: sepc (map qdr (d :: ds)) ++ XSatisfies :: rat 0 false b
  | EFun ps b => XFun :: XLp :: sepc (map par_tok ps) ++ XRp :: rat 0 false b
  | EList l => XLb :: sepc (map (rat 0 false) l) ++ [XRb]
  | ECtx l => XLc :: sepc (map kvr l) ++ [XRc]
  | ERange o a b c => [ropen_tok o; XAtom a; XEll; XAtom b; rclose_tok c]
  end.

Lemma rat_eq : forall m f t, rat m f t = if paren m f t then XLp :: ebody false t ++ [XRp] else ebody f t.
Proof. intros m f t. destruct t; cbn [rat]; destruct (paren m f _); reflexivity. Qed.

Lemma noparen_inv : forall k l, paren k true l = false -> low l = false /\ k <= elvl l.
Proof.
  intros k l H. unfold paren in H. destruct (low l); [discriminate H|]. split; [reflexivity|].
  apply Nat.ltb_ge in H. exact H.
Qed.

Ltac norm_app := cbn [app]; repeat (rewrite <- app_assoc; cbn [app]).
Ltac lvls := unfold rc, lc, c_neg, r_neg, rc_between, lv_between, lv_neg, lv_inst, lv_post, c_post in *; cbn [asc lv elvl] in *.

(* ------------------------------------------------------------------ how a rendering begins *)

(* an operand never begins like the inside of a range (`a ..`), nor with a closing bracket unless that bracket opens a range,
   nor with `)` or a parameter name *)
Definition good_start (ts : list etok) : bool :=
  match ts with
  | XAtom _ :: XEll :: _ => false
  | XAtom _ :: _ => true
  | XRb :: r => range_start r
  | XOp Sub :: _ | XLp :: _ | XLb :: _ | XLc :: _ | XIf :: _ | XFor :: _ | XSome :: _ | XEvery :: _ | XFun :: _ => true
  | _ => false
  end.

Lemma good_start_range_head : forall ts, good_start ts = true -> range_head ts = None.
Proof.
  intros [|t ts] H; [reflexivity|]. destruct t; try reflexivity.
  destruct ts as [|t2 ts]; [reflexivity|]. destruct t2; try reflexivity. discriminate H.
Qed.

Lemma good_start_item : forall ts, good_start ts = true -> item_start ts.
Proof. intros [|t ts] H; [exact I|]. destruct t; try exact I. exact H. Qed.

Lemma good_start_arg : forall ts, good_start ts = true -> arg_start ts.
Proof. intros [|t ts] H; [exact I|]. destruct t; try exact I; discriminate H. Qed.

Lemma start_of_body : forall t, (forall f rest, not_ell rest -> good_start (ebody f t ++ rest) = true) ->
  forall m f rest, not_ell rest -> good_start (rat m f t ++ rest) = true.
Proof. intros t H m f rest Hn. rewrite rat_eq. destruct (paren m f t); [reflexivity|apply H; exact Hn]. Qed.

Lemma body_start : forall t f rest, not_ell rest -> good_start (ebody f t ++ rest) = true.
Proof.
  induction t using etree_ind'; intros f rest Hn; cbn [ebody]; norm_app;
    try reflexivity;
    try (apply start_of_body; [assumption|exact I]).
  - destruct rest as [|t r]; [reflexivity|]. destruct t; try reflexivity. destruct Hn.
  - destruct q; reflexivity.
  - destruct o; reflexivity.
Qed.

Lemma rat_start : forall t m f rest, not_ell rest -> good_start (rat m f t ++ rest) = true.
Proof. intros t. apply start_of_body. apply body_start. Qed.

(* ------------------------------------------------------------------ rendering, then parsing *)

Definition prefix_form (t : etree) : bool :=
  match t with
  | EAtom _ | ENeg _ | EIf _ _ _ | EFor _ _ _ | EQuant _ _ _ _ | EFun _ _ | EList _ | ECtx _ | ERange _ _ _ _ => true
  | _ => false
  end.

(* the level at which the right-most open operand of an unparenthesised t is parsed *)
Definition eedge (t : etree) : option nat :=
  match t with
  | EBin o _ _ => Some (rc o)
  | ENeg _ => Some c_neg
  | EBtw _ _ _ => Some rc_between
  | EIf _ _ _ | EFor _ _ _ | EQuant _ _ _ _ | EFun _ _ => Some 0
  | _ => None
  end.

Definition edge_stops (t : etree) (rest : list etok) : Prop :=
  match eedge t with Some k => estops k rest | None => True end.

Definition ena0 (t : etree) : nat := match t with EBin o _ _ => if is_non o then lv o else 0 | _ => 0 end.
Definition na_after (m' : nat) (f : bool) (t : etree) : nat := if paren m' f t then 0 else ena0 t.

(* what follows an operand is never an atom (it is a continuing token, a closing token or a separator): the one place where the
   parser looks beyond an operand form is the empty list, `[ ]` followed by `a ..` would be the beginning of a range *)
Definition not_atom (rest : list etok) : Prop := match rest with XAtom _ :: _ => False | _ => True end.

Lemma not_atom_range_start : forall rest, not_atom rest -> range_start rest = false.
Proof. intros [|t r] H; [reflexivity|]. destruct t; try reflexivity. destruct H. Qed.

Definition P (t : etree) : Prop := forall m m' f rest r,
  (paren m' f t = true \/ (m <= elvl t /\ m <= 13) \/ prefix_form t = true) ->
  (paren m' f t = true \/ edge_stops t rest) ->
  (f = false -> eclosing rest) -> not_atom rest ->
  Loops m (na_after m' f t) t rest r ->
  Parses m (rat m' f t ++ rest) r.

Definition Q (t : etree) : Prop := forall m f rest r,
  ((m <= elvl t /\ m <= 13) \/ prefix_form t = true) -> edge_stops t rest -> (f = false -> eclosing rest) -> not_atom rest ->
  Loops m (ena0 t) t rest r -> Parses m (ebody f t ++ rest) r.

Lemma edge_stops_closing : forall t rest, eclosing rest -> edge_stops t rest.
Proof. intros t rest H. unfold edge_stops. destruct (eedge t); [apply eclosing_stops; exact H|exact I]. Qed.

Lemma wrap : forall t, Q t -> P t.
Proof.
  intros t HQ m m' f rest r Hc He Hf Ha HL. rewrite rat_eq. unfold na_after in HL.
  destruct (paren m' f t) eqn:Ep.
  - cbn [app]. rewrite <- app_assoc. cbn [app].
    eapply Parses_of_prefix; [|exact HL]. apply prefix_paren.
    + apply good_start_range_head. apply body_start. exact I.
    + apply HQ.
      * left. lia.
      * apply edge_stops_closing. reflexivity.
      * intros _. reflexivity.
      * exact I.
      * apply Loops_stop. exact I.
  - apply HQ; [| |exact Hf|exact Ha|exact HL].
    + destruct Hc as [Hc|[Hc|Hc]]; [discriminate Hc|left; exact Hc|right; exact Hc].
    + destruct He as [He|He]; [discriminate He|exact He].
Qed.

(* an operand rendered at its own level and followed by something its loop does not consume *)
Lemma P_operand : forall t k f rest, P t -> k <= 13 -> estops k rest -> (f = false -> eclosing rest) -> not_atom rest ->
  (low t = false -> k <= elvl t -> forall e, eedge t = Some e -> k <= e) ->
  Parses k (rat k f t ++ rest) (t, rest).
Proof.
  intros t k f rest HP Hk Hs Hf Ha He. apply HP.
  - destruct (paren k f t) eqn:Ep; [left; reflexivity|right]. unfold paren in Ep.
    destruct (low t) eqn:El.
    + right. destruct t; try discriminate El; reflexivity.
    + left. apply Nat.ltb_ge in Ep. split; assumption.
  - destruct (paren k f t) eqn:Ep; [left; reflexivity|right]. unfold paren in Ep.
    destruct (low t) eqn:El.
    + subst f. unfold edge_stops. destruct (eedge t); [|exact I]. apply eclosing_stops. apply Hf. reflexivity.
    + apply Nat.ltb_ge in Ep. unfold edge_stops. destruct (eedge t) as [e|] eqn:E; [|exact I].
      eapply estops_mono; [|exact Hs]. exact (He eq_refl Ep e eq_refl).
  - exact Hf.
  - exact Ha.
  - apply Loops_stop. exact Hs.
Qed.

(* an operand in a delimited position: any tree, followed by a token that does not continue an expression *)
Lemma P_delimited : forall t rest, P t -> eclosing rest -> not_atom rest -> Parses 0 (rat 0 false t ++ rest) (t, rest).
Proof.
  intros t rest HP Hc Ha. apply P_operand; [exact HP|lia|apply eclosing_stops; exact Hc|intros _; exact Hc|exact Ha|].
  intros _ _ e _. lia.
Qed.

(* ------------------------------------------------------------------ sequences of rendered items *)

Lemma sepc_cons2 : forall (x y : list etok) l, sepc (x :: y :: l) = x ++ XComma :: sepc (y :: l).
Proof. intros. reflexivity. Qed.

Lemma sepc_one : forall x : list etok, sepc [x] = x.
Proof. intros. cbn. apply app_nil_r. Qed.

(* a rendered sequence begins with its first item, followed by a comma or by what follows the sequence *)
Lemma sepc_head : forall (A : Type) (rd : A -> list etok) x xs rest,
  sepc (map rd (x :: xs)) ++ rest = rd x ++ match xs with [] => rest | y :: ys => XComma :: sepc (map rd (y :: ys)) ++ rest end.
Proof.
  intros A rd x xs rest. destruct xs as [|y ys]; cbn [map].
  - rewrite sepc_one. reflexivity.
  - rewrite sepc_cons2. rewrite <- app_assoc. reflexivity.
Qed.

Lemma seq_gen : forall (A : Type) it (rd : A -> list etok), it_mono it ->
  forall xs x rest,
  Forall (fun y => forall rest', eclosing rest' -> not_ell rest' -> not_atom rest' -> Items it (rd y ++ rest') (y, rest')) (x :: xs) ->
  eclosing rest -> not_ell rest -> not_atom rest -> not_comma rest ->
  Seqs it (sepc (map rd (x :: xs)) ++ rest) (x, xs, rest).
Proof.
  intros A it rd Hm. induction xs as [|y ys IH]; intros x rest HF Hc Hn Ha Hk.
  - cbn [map]. rewrite sepc_one. apply Seqs_last; [|exact Hk]. inversion HF; subst. auto.
  - cbn [map]. rewrite sepc_cons2. rewrite <- app_assoc. cbn [app].
    inversion HF as [|? ? Hx Hr]; subst.
    eapply Seqs_cons; [exact Hm| |].
    + apply Hx; [reflexivity|exact I|exact I].
    + apply (IH y rest Hr Hc Hn Ha Hk).
Qed.

Lemma items_expr_of_P : forall xs, Forall P xs ->
  Forall (fun y => forall rest', eclosing rest' -> not_ell rest' -> not_atom rest' -> Items it_expr (rat 0 false y ++ rest') (y, rest')) xs.
Proof.
  intros xs H. induction H as [|x xs Hx _ IH]; constructor; [|exact IH].
  intros rest' Hc _ Ha. apply Items_expr. apply P_delimited; assumption.
Qed.

Lemma items_kv_of_P : forall xs, Forall (Pkv P) xs ->
  Forall (fun y => forall rest', eclosing rest' -> not_ell rest' -> not_atom rest' -> Items it_kv (kvr y ++ rest') (y, rest')) xs.
Proof.
  intros xs H. induction H as [|x xs Hx _ IH]; constructor; [|exact IH].
  intros rest' Hc _ Ha. destruct x as [k e]. cbn [kvr app]. apply Items_kv. apply P_delimited; assumption.
Qed.

Lemma items_qdom_of_P : forall xs, Forall (Pkv P) xs ->
  Forall (fun y => forall rest', eclosing rest' -> not_ell rest' -> not_atom rest' -> Items it_qdom (qdr y ++ rest') (y, rest')) xs.
Proof.
  intros xs H. induction H as [|x xs Hx _ IH]; constructor; [|exact IH].
  intros rest' Hc _ Ha. destruct x as [k e]. cbn [qdr app]. apply Items_qdom. apply P_delimited; assumption.
Qed.

Lemma items_fdom_of_P : forall xs, Forall (Pfd P) xs ->
  Forall (fun y => forall rest', eclosing rest' -> not_ell rest' -> not_atom rest' -> Items it_fdom (fdr y ++ rest') (y, rest')) xs.
Proof.
  intros xs H. induction H as [|x xs Hx _ IH]; constructor; [|exact IH].
  intros rest' Hc Hn Ha. destruct x as [[v e] [e2|]]; destruct Hx as [He He2]; cbn [fst snd] in *; cbn [fdr app].
  - rewrite <- app_assoc. cbn [app]. eapply Items_fdom2.
    + apply P_delimited; [exact He|reflexivity|exact I].
    + apply P_delimited; assumption.
  - apply Items_fdom1; [|exact Hn]. apply P_delimited; assumption.
Qed.

Lemma items_par : forall ps : list (N * option N),
  Forall (fun y => forall rest', eclosing rest' -> not_ell rest' -> not_atom rest' -> Items it_par_c (par_tok y ++ rest') (y, rest')) ps.
Proof.
  induction ps as [|p ps IH]; constructor; [|exact IH].
  intros rest' _ _ _. destruct p as [n ty]. apply Items_par.
Qed.

(* ------------------------------------------------------------------ the cases *)

Lemma Q_atom : forall a, Q (EAtom a).
Proof.
  intros a m f rest r _ _ _ _ HL. cbn [ebody app].
  eapply Parses_of_prefix; [apply prefix_atom|exact HL].
Qed.

(* the left operand of a token that continues it at level p, rendered at level k *)
Lemma left_ctx : forall l m k, m <= k -> m <= 13 -> paren k true l = true \/ (m <= elvl l /\ m <= 13) \/ prefix_form l = true.
Proof.
  intros l m k Hk Hm. destruct (paren k true l) eqn:Ep; [left; reflexivity|right; left].
  destruct (noparen_inv _ _ Ep) as [_ Hl]. split; lia.
Qed.

Lemma left_edge : forall l k p tk rest, elbp tk = Some p ->
  (low l = false -> k <= elvl l -> forall e, eedge l = Some e -> p < e) ->
  paren k true l = true \/ edge_stops l (tk :: rest).
Proof.
  intros l k p tk rest Hp He. destruct (paren k true l) eqn:Ep; [left; reflexivity|right].
  destruct (noparen_inv _ _ Ep) as [Hlow Hl]. unfold edge_stops. destruct (eedge l) as [e|] eqn:E; [|exact I].
  cbn [estops]. rewrite Hp. exact (He Hlow Hl e eq_refl).
Qed.

Lemma true_false : forall A : Prop, true = false -> A.
Proof. intros A H. discriminate H. Qed.

Lemma edge_bound_rc : forall o t e, low t = false -> rc o <= elvl t -> eedge t = Some e -> rc o <= e.
Proof.
  intros o t e Hlow Hl He. destruct t; cbn in He; try discriminate He; try discriminate Hlow; inversion He; subst; cbn [elvl] in Hl.
  - destruct o, o0; lvls; lia.
  - destruct o; lvls; lia.
  - destruct o; lvls; lia.
Qed.

Lemma Q_bin : forall o l r0, P l -> P r0 -> Q (EBin o l r0).
Proof.
  intros o l r0 Pl Pr m f rest r Hc He Hf Ha HL. cbn [ebody]. norm_app.
  assert (Hm : m <= lv o) by (destruct Hc as [[Hc _]|Hc]; [exact Hc|discriminate Hc]).
  unfold edge_stops in He. cbn [eedge] in He.
  apply Pl.
  - apply left_ctx; [unfold lc; destruct (asc o); lia|destruct o; lvls; lia].
  - eapply left_edge; [reflexivity|]. intros Hlow Hge e E.
    destruct l; cbn in E; try discriminate E; try discriminate Hlow; inversion E; subst; cbn [elvl] in Hge.
    + destruct o, o0; lvls; lia.
    + destruct o; lvls; lia.
    + destruct o; lvls; lia.
  - apply true_false.
  - exact I.
  - eapply Loops_op; [exact Hm| | |exact HL].
    + unfold na_after. destruct (paren (lc o) true l) eqn:Ep.
      * destruct (is_non o) eqn:En; [|reflexivity]. cbn [andb].
        destruct o; cbn in En; try discriminate En; reflexivity.
      * destruct (noparen_inv _ _ Ep) as [_ Hge].
        destruct (is_non o) eqn:En; [|reflexivity]. cbn [andb].
        destruct l; cbn [ena0]; try (destruct o; cbn in En; try discriminate En; reflexivity).
        destruct o, o0; cbn in En; try discriminate En; cbn in Hge |- *; try reflexivity; lia.
    + apply P_operand; [exact Pr|destruct o; lvls; lia|exact He|exact Hf|exact Ha|]. intros Hlow Hl e E. eapply edge_bound_rc; eauto.
Qed.

Lemma Q_neg : forall x, P x -> Q (ENeg x).
Proof.
  intros x Px m f rest r _ He Hf Ha HL. cbn [ebody app]. unfold edge_stops in He. cbn [eedge] in He.
  eapply Parses_of_prefix; [|exact HL]. apply prefix_neg. apply Px.
  - destruct (paren r_neg f x) eqn:Ep; [left; reflexivity|right]. unfold paren in Ep.
    destruct (low x) eqn:El.
    + right. destruct x; try discriminate El; reflexivity.
    + apply Nat.ltb_ge in Ep.
      destruct x; cbn [prefix_form elvl] in *; lvls; try (right; reflexivity); try (left; lia).
      destruct o; lvls; lia.
  - destruct (paren r_neg f x) eqn:Ep; [left; reflexivity|right]. unfold paren in Ep.
    destruct (low x) eqn:El.
    + subst f. apply edge_stops_closing. apply Hf. reflexivity.
    + apply Nat.ltb_ge in Ep. unfold edge_stops.
      destruct x; cbn [eedge]; try exact I; try discriminate El; cbn [elvl] in Ep.
      * destruct o; lvls; lia.
      * exact He.
      * lvls; lia.
  - exact Hf.
  - exact Ha.
  - apply Loops_stop. exact He.
Qed.

Lemma edge_bound : forall k t e, low t = false -> k <= elvl t -> k <= 8 -> eedge t = Some e -> k <= e.
Proof.
  intros k t e Hlow Hl Hk He. destruct t; cbn in He; try discriminate He; try discriminate Hlow; inversion He; subst; cbn [elvl] in Hl.
  - destruct o; lvls; lia.
  - lvls; lia.
  - lvls; lia.
Qed.

Lemma Q_btw : forall x lo hi, P x -> P lo -> P hi -> Q (EBtw x lo hi).
Proof.
  intros x lo hi Px Plo Phi m f rest r Hc He Hf Ha HL. cbn [ebody]. norm_app.
  assert (Hm : m <= lv_between) by (destruct Hc as [[Hc _]|Hc]; [exact Hc|discriminate Hc]).
  unfold edge_stops in He. cbn [eedge] in He.
  apply Px.
  - apply left_ctx; [exact Hm|lvls; lia].
  - eapply left_edge; [reflexivity|]. intros Hlow Hge e E.
    destruct x; cbn in E; try discriminate E; try discriminate Hlow; inversion E; subst; cbn [elvl] in Hge.
    + destruct o; lvls; lia.
    + lvls; lia.
    + lvls; lia.
  - apply true_false.
  - exact I.
  - eapply Loops_between; [exact Hm| | |exact HL].
    + apply P_delimited; [exact Plo|reflexivity|exact I].
    + apply P_operand; [exact Phi|lvls; lia|exact He|exact Hf|exact Ha|]. intros Hlow Hl e E. eapply edge_bound; eauto; lvls; lia.
Qed.

(* operand of a postfix form: rendered at c_post and followed by the postfix token *)
Lemma post_edge : forall x tk p rest, elbp tk = Some p -> paren c_post true x = true \/ edge_stops x (tk :: rest).
Proof.
  intros x tk p rest Hp. eapply left_edge; [exact Hp|]. intros Hlow Hge e E.
  destruct x; cbn in E; try discriminate E; try discriminate Hlow; cbn [elvl] in Hge; lvls; try lia.
  destruct o; lvls; lia.
Qed.

Lemma Q_inst : forall x ty, P x -> Q (EInst x ty).
Proof.
  intros x ty Px m f rest r Hc _ _ _ HL. cbn [ebody]. norm_app.
  assert (Hm : m <= lv_inst) by (destruct Hc as [[Hc _]|Hc]; [exact Hc|discriminate Hc]).
  apply Px; [apply left_ctx; lvls; lia|eapply post_edge; reflexivity|apply true_false|exact I|].
  apply Loops_inst; [exact Hm|exact HL].
Qed.

Lemma Q_path : forall x n, P x -> Q (EPath x n).
Proof.
  intros x n Px m f rest r Hc _ _ _ HL. cbn [ebody]. norm_app.
  assert (Hm : m <= lv_inst) by (destruct Hc as [[_ Hc]|Hc]; [lvls; lia|discriminate Hc]).
  apply Px; [apply left_ctx; lvls; lia|eapply post_edge; reflexivity|apply true_false|exact I|].
  apply Loops_dot; [lvls; lia|exact HL].
Qed.

Lemma Q_filt : forall x i, P x -> P i -> Q (EFilt x i).
Proof.
  intros x i Px Pi m f rest r Hc _ _ _ HL. cbn [ebody]. norm_app.
  assert (Hm : m <= lv_inst) by (destruct Hc as [[_ Hc]|Hc]; [lvls; lia|discriminate Hc]).
  apply Px; [apply left_ctx; lvls; lia|eapply post_edge; reflexivity|apply true_false|exact I|].
  eapply Loops_filter; [lvls; lia| |exact HL].
  apply P_delimited; [exact Pi|reflexivity|exact I].
Qed.

Lemma Q_call : forall g args, P g -> Forall P args -> Q (ECall g args).
Proof.
  intros g args Pg Pa m f rest r Hc _ _ _ HL. cbn [ebody]. norm_app.
  assert (Hm : m <= lv_inst) by (destruct Hc as [[_ Hc]|Hc]; [lvls; lia|discriminate Hc]).
  apply Pg; [apply left_ctx; lvls; lia|eapply post_edge; reflexivity|apply true_false|exact I|].
  destruct args as [|a args].
  - cbn [map sepc app]. apply Loops_call0; [lvls; lia|exact HL].
  - eapply Loops_call; [lvls; lia| | |exact HL].
    + apply good_start_arg. rewrite sepc_head. apply rat_start. destruct args; exact I.
    + apply seq_gen; [exact it_expr_mono|apply items_expr_of_P; exact Pa|reflexivity|exact I|exact I|exact I].
Qed.

Lemma Q_calln : forall g a args, P g -> Pkv P a -> Forall (Pkv P) args -> Q (ECallN g a args).
Proof.
  intros g a args Pg Pa Pas m f rest r Hc _ _ _ HL. cbn [ebody]. norm_app.
  assert (Hm : m <= lv_inst) by (destruct Hc as [[_ Hc]|Hc]; [lvls; lia|discriminate Hc]).
  apply Pg; [apply left_ctx; lvls; lia|eapply post_edge; reflexivity|apply true_false|exact I|].
  assert (HS : Seqs it_kv (sepc (map kvr (a :: args)) ++ XRp :: rest) (a, args, XRp :: rest)).
  { apply seq_gen; [exact it_kv_mono|apply items_kv_of_P; constructor; assumption|reflexivity|exact I|exact I|exact I]. }
  destruct a as [k e].
  assert (E : exists ts, sepc (map kvr ((k, e) :: args)) ++ XRp :: rest = XKey k :: ts).
  { rewrite sepc_head. cbn [kvr app]. eexists; reflexivity. }
  destruct E as [ts E]. rewrite E in *.
  eapply Loops_calln; [lvls; lia|exact HS|exact HL].
Qed.

Lemma low_closing : forall t rest, low t = true -> edge_stops t rest -> eclosing rest.
Proof.
  intros t rest Hl He. unfold edge_stops in He. destruct t; try discriminate Hl; cbn [eedge] in He; apply estops0_closing; exact He.
Qed.

Lemma Q_if : forall c a b, P c -> P a -> P b -> Q (EIf c a b).
Proof.
  intros c a b Pc Pa Pb m f rest r _ He _ Ha HL. cbn [ebody]. norm_app.
  eapply Parses_of_prefix; [|exact HL]. eapply prefix_if.
  - apply P_delimited; [exact Pc|reflexivity|exact I].
  - apply P_delimited; [exact Pa|reflexivity|exact I].
  - apply P_delimited; [exact Pb| |exact Ha]. eapply low_closing; [|exact He]. reflexivity.
Qed.

Lemma Q_for : forall d ds b, Pfd P d -> Forall (Pfd P) ds -> P b -> Q (EFor d ds b).
Proof.
  intros d ds b Pd Pds Pb m f rest r _ He _ Ha HL. cbn [ebody]. norm_app.
  eapply Parses_of_prefix; [|exact HL]. eapply prefix_for.
  - apply seq_gen; [exact it_fdom_mono|apply items_fdom_of_P; constructor; assumption|reflexivity|exact I|exact I|exact I].
  - apply P_delimited; [exact Pb| |exact Ha]. eapply low_closing; [|exact He]. reflexivity.
Qed.

Lemma Q_quant : forall q d ds b, Pkv P d -> Forall (Pkv P) ds -> P b -> Q (EQuant q d ds b).
Proof.
  intros q d ds b Pd Pds Pb m f rest r _ He _ Ha HL. cbn [ebody]. norm_app.
  eapply Parses_of_prefix; [|exact HL]. eapply prefix_quant.
  - apply seq_gen; [exact it_qdom_mono|apply items_qdom_of_P; constructor; assumption|reflexivity|exact I|exact I|exact I].
  - apply P_delimited; [exact Pb| |exact Ha]. eapply low_closing; [|exact He]. reflexivity.
Qed.

Lemma Q_fun : forall ps b, P b -> Q (EFun ps b).
Proof.
  intros ps b Pb m f rest r _ He _ Ha HL. cbn [ebody]. norm_app.
  assert (Hb : Parses 0 (rat 0 false b ++ rest) (b, rest)).
  { apply P_delimited; [exact Pb| |exact Ha]. eapply low_closing; [|exact He]. reflexivity. }
  eapply Parses_of_prefix; [|exact HL].
  destruct ps as [|p ps].
  - cbn [map sepc app]. apply prefix_fun0. exact Hb.
  - assert (HS : Seqs it_par_c (sepc (map par_tok (p :: ps)) ++ XRp :: rat 0 false b ++ rest) (p, ps, XRp :: rat 0 false b ++ rest)).
    { apply seq_gen; [exact it_par_mono|apply items_par|reflexivity|exact I|exact I|exact I]. }
    destruct p as [n ty].
    assert (E : exists ts, sepc (map par_tok ((n, ty) :: ps)) ++ XRp :: rat 0 false b ++ rest = XPar n ty :: ts).
    { rewrite sepc_head. cbn [par_tok fst snd app]. eexists; reflexivity. }
    destruct E as [ts E]. rewrite E in *.
    eapply prefix_fun; [exact HS|exact Hb].
Qed.

Lemma Q_list : forall l, Forall P l -> Q (EList l).
Proof.
  intros l Pl m f rest r _ _ _ Ha HL. cbn [ebody]. norm_app.
  eapply Parses_of_prefix; [|exact HL].
  destruct l as [|x xs].
  - cbn [map sepc app]. apply prefix_list0. apply not_atom_range_start. exact Ha.
  - assert (Hg : good_start (sepc (map (rat 0 false) (x :: xs)) ++ XRb :: rest) = true).
    { rewrite sepc_head. apply rat_start. destruct xs; exact I. }
    apply prefix_list; [apply good_start_range_head; exact Hg|apply good_start_item; exact Hg|].
    apply seq_gen; [exact it_expr_mono|apply items_expr_of_P; exact Pl|reflexivity|exact I|exact I|exact I].
Qed.

Lemma Q_ctx : forall l, Forall (Pkv P) l -> Q (ECtx l).
Proof.
  intros l Pl m f rest r _ _ _ _ HL. cbn [ebody]. norm_app.
  eapply Parses_of_prefix; [|exact HL].
  destruct l as [|x xs].
  - cbn [map sepc app]. apply prefix_ctx0.
  - assert (HS : Seqs it_kv (sepc (map kvr (x :: xs)) ++ XRc :: rest) (x, xs, XRc :: rest)).
    { apply seq_gen; [exact it_kv_mono|apply items_kv_of_P; exact Pl|reflexivity|exact I|exact I|exact I]. }
    destruct x as [k e].
    assert (E : exists ts, sepc (map kvr ((k, e) :: xs)) ++ XRc :: rest = XKey k :: ts).
    { rewrite sepc_head. cbn [kvr app]. eexists; reflexivity. }
    destruct E as [ts E]. rewrite E in *.
    apply prefix_ctx. exact HS.
Qed.

Lemma Q_range : forall o a b c, Q (ERange o a b c).
Proof.
  intros o a b c m f rest r _ _ _ _ HL. cbn [ebody app].
  eapply Parses_of_prefix; [apply prefix_range|exact HL].
Qed.

Theorem render_parse : forall t, P t.
Proof.
  induction t using etree_ind'; apply wrap.
  - apply Q_atom.
  - apply Q_bin; assumption.
  - apply Q_neg; assumption.
  - apply Q_btw; assumption.
  - apply Q_inst; assumption.
  - apply Q_path; assumption.
  - apply Q_filt; assumption.
  - apply Q_call; assumption.
  - apply Q_calln; assumption.
  - apply Q_if; assumption.
  - apply Q_for; assumption.
  - apply Q_quant; assumption.
  - apply Q_fun; assumption.
  - apply Q_list; assumption.
  - apply Q_ctx; assumption.
  - apply Q_range.
Qed.

(* ------------------------------------------------------------------ round trip of the minimal rendering *)

Theorem eroundtrip_min : forall t, exists f0, forall f, f0 <= f -> eparse_fuel f (erender_min t) = Some t.
Proof.
  intro t. destruct (render_parse t 0 0 false [] (t, [])) as [f0 H].
  - destruct (paren 0 false t) eqn:Ep; [left; reflexivity|right]. unfold paren in Ep.
    destruct (low t) eqn:El; [right; destruct t; try discriminate El; reflexivity|left; lia].
  - right. apply edge_stops_closing. exact I.
  - intros _. exact I.
  - exact I.
  - apply Loops_stop. exact I.
  - rewrite app_nil_r in H. exists f0. intros f Hf. unfold eparse_fuel, erender_min.
    rewrite (eparse_expr_mono f0 f _ _ _ Hf H). reflexivity.
Qed.

