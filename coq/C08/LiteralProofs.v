(* C08 — split / replace / matches on literal patterns (C08/Model2.v): the pieces of split(s, d) joined with d give s, no piece
   contains d, replace = split then join with the replacement, a pattern that does not occur changes nothing. *)
From Coq Require Import List NArith ZArith Bool Arith Lia.
From DV Require Import C09.Values C09.Model C09.Proofs C08.Model C08.Model2 C08.Proofs.
Import ListNotations.

Lemma split_fuel_nonempty : forall f d s, split_fuel f d s <> [].
Proof. intros [|f] d s; cbn [split_fuel]; [discriminate|]. destruct (find d s); discriminate. Qed.

Lemma join_cons : forall d p ps, ps <> [] -> join d (p :: ps) = p ++ d ++ join d ps.
Proof. intros d p [|q ps] H; [contradiction|reflexivity]. Qed.

(* ---- the pieces joined with the delimiter give the string back (any fuel) ---- *)
Lemma split_fuel_join : forall f d s, join d (split_fuel f d s) = s.
Proof.
  induction f as [|f IH]; intros d s; cbn [split_fuel]; [reflexivity|].
  destruct (find d s) as [i|] eqn:F; [|reflexivity].
  rewrite join_cons by apply split_fuel_nonempty. rewrite IH.
  destruct (find_some d s i F) as (_ & E & _). symmetry. exact E.
Qed.
(* the empty delimiter: "", every character, "" *)
Lemma join_empty_singles : forall s, join [] (map (fun c : N => [c]) s ++ [[]]) = s.
Proof.
  induction s as [|c s IH]; [reflexivity|]. cbn [map app].
  rewrite join_cons by (destruct s; discriminate). rewrite IH. reflexivity.
Qed.
Theorem split_empty_delimiter : forall s r,
  split_lit s [] = [] :: map (fun c => [c]) s ++ [[]] /\
  replace_lit s [] r = r ++ flat_map (fun c => c :: r) s /\
  b_matches (VStr s) (VStr []) = VBool true.
Proof.
  intros s r. split; [reflexivity|]. split; [|destruct s; reflexivity].
  unfold replace_lit, split_lit. rewrite join_cons by (destruct s; discriminate). cbn [app]. f_equal.
  induction s as [|c s IH]; [reflexivity|]. cbn [map app flat_map].
  rewrite join_cons by (destruct s; discriminate). rewrite IH. reflexivity.
Qed.
Lemma split_lit_nonempty : forall s d, split_lit s d <> [].
Proof. intros s [|c d]; [discriminate|apply split_fuel_nonempty]. Qed.
Theorem split_join : forall s d, join d (split_lit s d) = s.
Proof.
  intros s [|c d]; [|apply split_fuel_join]. unfold split_lit.
  rewrite join_cons by (destruct s; discriminate). cbn [app]. apply join_empty_singles.
Qed.

(* ---- replace = split, then join with the replacement ---- *)
Lemma replace_fuel_join : forall f p r s, replace_fuel f p r s = join r (split_fuel f p s).
Proof.
  induction f as [|f IH]; intros p r s; cbn [split_fuel replace_fuel]; [reflexivity|].
  destruct (find p s) as [i|] eqn:F; [|reflexivity].
  rewrite join_cons by apply split_fuel_nonempty. rewrite IH. reflexivity.
Qed.
Theorem replace_is_split_join : forall s p r, replace_lit s p r = join r (split_lit s p).
Proof. intros s [|c p] r; [reflexivity|apply replace_fuel_join]. Qed.
Theorem replace_by_itself : forall s p, replace_lit s p p = s.
Proof. intros s p. rewrite replace_is_split_join. apply split_join. Qed.

(* ---- a pattern that does not occur ---- *)
Theorem no_occurrence : forall s p r, containsb s p = false ->
  split_lit s p = [s] /\ replace_lit s p r = s /\ b_matches (VStr s) (VStr p) = VBool false.
Proof.
  intros s p r H. destruct p as [|c p]; [unfold containsb in H; destruct s; cbn in H; discriminate|].
  unfold containsb in H. unfold split_lit, replace_lit. cbn [split_fuel replace_fuel b_matches str2].
  unfold containsb. destruct (find (c :: p) s); [discriminate|]. auto.
Qed.

(* ---- matches with a literal pattern: the pattern occurs somewhere ---- *)
Theorem matches_spec : forall s p, b_matches (VStr s) (VStr p) = VBool true <-> exists a b, s = a ++ p ++ b.
Proof. exact contains_spec. Qed.
Theorem matches_iff_split_splits : forall s d, containsb s d = true <-> (1 < length (split_lit s d))%nat.
Proof.
  intros s [|c0 d0].
  { unfold containsb, split_lit. cbn [length]. rewrite app_length, map_length. cbn [length]. split; [intros _; lia|intros _; destruct s; reflexivity]. }
  unfold containsb, split_lit. cbn [split_fuel]. set (d := c0 :: d0). destruct (find d s) as [i|].
  - split; auto. intros _. cbn [length].
    destruct (split_fuel (length s) d (skipn (i + length d) s)) eqn:E; [exact (False_ind _ (split_fuel_nonempty _ _ _ E))|cbn [length]; lia].
  - split; [discriminate|cbn [length]; lia].
Qed.

(* ---- the recursive equations (the fuel is enough for a delimiter that is not empty) ---- *)
Lemma find_prefix : forall m s i, find m s = Some i -> prefixb m (skipn i s) = true.
Proof.
  intros m s i F. destruct (find_some m s i F) as (L & E & _). apply prefixb_spec. exists (skipn (i + length m) s).
  rewrite E at 1. rewrite skipn_app. rewrite firstn_length, (Nat.min_l i (length s) L), Nat.sub_diag.
  rewrite skipn_all2 by (rewrite firstn_length; lia). reflexivity.
Qed.
Lemma find_none_iff : forall m s, find m s = None <-> forall j, (j <= length s)%nat -> prefixb m (skipn j s) = false.
Proof.
  intros m s. split; [apply find_none|]. intros H. destruct (find m s) as [i|] eqn:F; auto.
  destruct (find_some m s i F) as (L & _ & _). pose proof (find_prefix m s i F) as P. rewrite (H i L) in P. discriminate.
Qed.

Lemma rest_shorter : forall (d s : list N) i, d <> [] -> find d s = Some i -> (length (skipn (i + length d) s) < length s)%nat.
Proof.
  intros d s i Hd F. destruct (find_some d s i F) as (L & E & _).
  assert (length s = (length (firstn i s) + (length d + length (skipn (i + length d) s)))%nat) by (rewrite E at 1; rewrite !app_length; reflexivity).
  destruct d; [contradiction|]. cbn [length] in *. lia.
Qed.

Lemma split_fuel_enough : forall f f' d s, d <> [] -> (length s < f)%nat -> (length s < f')%nat -> split_fuel f d s = split_fuel f' d s.
Proof.
  induction f as [|f IH]; intros f' d s Hd H H'; [lia|]. destruct f' as [|f']; [lia|]. cbn [split_fuel].
  destruct (find d s) as [i|] eqn:F; [|reflexivity]. f_equal.
  pose proof (rest_shorter d s i Hd F). apply IH; auto; lia.
Qed.
Theorem split_equation : forall s d, d <> [] ->
  split_lit s d = match find d s with Some i => firstn i s :: split_lit (skipn (i + length d) s) d | None => [s] end.
Proof.
  intros s d Hd. destruct d as [|c0 d0]; [contradiction|].
  unfold split_lit at 1. cbn [split_fuel]. destruct (find (c0 :: d0) s) as [i|] eqn:F; [|reflexivity]. f_equal.
  pose proof (rest_shorter (c0 :: d0) s i Hd F). unfold split_lit. apply split_fuel_enough; auto; lia.
Qed.
Theorem replace_equation : forall s p r, p <> [] ->
  replace_lit s p r = match find p s with Some i => firstn i s ++ r ++ replace_lit (skipn (i + length p) s) p r | None => s end.
Proof.
  intros s p r Hp. rewrite replace_is_split_join, (split_equation s p Hp). destruct (find p s) as [i|]; [|reflexivity].
  rewrite join_cons by apply split_lit_nonempty. rewrite <- replace_is_split_join. reflexivity.
Qed.

(* ---- no piece contains the delimiter ---- *)
Lemma firstn_no_match : forall d s i, d <> [] -> (i <= length s)%nat ->
  (forall j, (j < i)%nat -> prefixb d (skipn j s) = false) -> find d (firstn i s) = None.
Proof.
  intros d s i Hd L H. apply find_none_iff. intros j Hj. rewrite firstn_length, (Nat.min_l i (length s) L) in Hj.
  destruct (prefixb d (skipn j (firstn i s))) eqn:P; auto. exfalso.
  apply prefixb_spec in P. destruct P as [t Ht].
  destruct (Nat.eq_dec j i) as [->|Ne].
  - rewrite skipn_all2 in Ht by (rewrite firstn_length; lia). destruct d; [contradiction|discriminate].
  - assert (Hlt : (j < i)%nat) by lia. specialize (H j Hlt).
    assert (prefixb d (skipn j s) = true); [|congruence].
    apply prefixb_spec. exists (t ++ skipn i s).
    rewrite <- (firstn_skipn i s) at 1. rewrite skipn_app, firstn_length, (Nat.min_l i (length s) L).
    replace (j - i)%nat with O by lia. cbn [skipn]. rewrite Ht, <- app_assoc. reflexivity.
Qed.

Lemma split_fuel_pieces : forall f d s, d <> [] -> (length s < f)%nat -> forall p, In p (split_fuel f d s) -> containsb p d = false.
Proof.
  induction f as [|f IH]; intros d s Hd H p Hp; [lia|]. cbn [split_fuel] in Hp.
  destruct (find d s) as [i|] eqn:F.
  - destruct Hp as [<-|Hp].
    + destruct (find_some d s i F) as (L & _ & N). unfold containsb. rewrite (firstn_no_match d s i Hd L N). reflexivity.
    + pose proof (rest_shorter d s i Hd F). apply (IH d (skipn (i + length d) s)); auto. lia.
  - destruct Hp as [<-|[]]. unfold containsb. rewrite F. reflexivity.
Qed.
Theorem split_pieces_free : forall s d, d <> [] -> forall p, In p (split_lit s d) -> containsb p d = false.
Proof. intros s d Hd. destruct d as [|c0 d0]; [contradiction|]. apply split_fuel_pieces; auto. Qed.

(* ---- the built-in forms and their domain ---- *)
Theorem split_replace_matches_domain : forall a b c,
  (match a, b with VStr _, VStr _ => False | _, _ => True end) ->
  b_split a b = VNull /\ b_matches a b = VNull /\ b_replace a b c = VNull.
Proof. intros a b c H. destruct a; destruct b; try contradiction; destruct c; repeat split; reflexivity. Qed.
Theorem split_replace_forms : forall s d r,
  b_split (VStr s) (VStr d) = VList (map VStr (split_lit s d)) /\
  b_replace (VStr s) (VStr d) (VStr r) = VStr (replace_lit s d r) /\
  b_replace_impl (VStr s) (VStr d) (VStr r) = VStr (trim (replace_lit s d r)).
Proof. intros. repeat split; reflexivity. Qed.

(* the known finding replace-trim: the code trims the result *)
Lemma replace_trim_refuted :
  b_replace (VStr [32; 97; 98; 32]%N) (VStr [98]%N) (VStr [120]%N) = VStr [32; 97; 120; 32]%N /\
  b_replace_impl (VStr [32; 97; 98; 32]%N) (VStr [98]%N) (VStr [120]%N) = VStr [97; 120]%N.
Proof. split; vm_compute; reflexivity. Qed.

Lemma literal_nonvacuous :
  split_lit [97; 88; 98; 88; 88; 99; 88]%N [88]%N = [[97]; [98]; []; [99]; []]%N /\
  split_lit [97; 97; 97]%N [97; 97]%N = [[]; [97]]%N /\
  replace_lit [97; 98; 97; 98; 97]%N [97; 98; 97]%N [45]%N = [45; 98; 97]%N /\
  b_matches (VStr [104; 105]%N) (VStr [105]%N) = VBool true.
Proof. repeat split; vm_compute; reflexivity. Qed.
