(* C06 — property theorems (statements only).  Owner: builder-parse. *)
From Coq Require Import List NArith Bool Arith.
From DV Require Import C06.Model C06.Lr C06.Proofs C06.Fuel C06.StrProofs C06.LayoutProofs C06.TablesProofs C06.Needed.
Import ListNotations.

(* the committed LALR tables (regenerated from feel-parser/src/lalr.rs on this run) give, on every ordered pair of
   operators, the tree the Spec's precedence table dictates (or reject exactly when the Spec rejects).
   Bound: chains [-] a op1 [-] b op2 [-] c over the 34 operator items of Lr.all_items, 2 * 34^2 token lists. *)
Theorem C06_tables_pairs : forall (n : bool) (i j : item),
  tables_tree (chain n [i; j]) = parse_tokens (chain n [i; j]).
Proof. exact tables_pairs. Qed.
Print Assumptions C06_tables_pairs.

(* the same for every ordered triple; bound: 2 * 34^3 token lists *)
Theorem C06_tables_triples : forall (n : bool) (i j k : item),
  tables_tree (chain n [i; j; k]) = parse_tokens (chain n [i; j; k]).
Proof. exact tables_triples. Qed.
Print Assumptions C06_tables_triples.

(* Spec, all trees of the operator fragment (or, and, comparisons, between, in, + - * / **, unary minus, instance of, path,
   filter, invocation with one argument; no depth bound): the precedence-climbing parser gives the tree back from the
   minimally parenthesised rendering, for every sufficiently large fuel *)
Theorem C06_roundtrip_min : forall t, exists f0, forall f, f0 <= f -> parse_fuel f (render_min t) = Some t.
Proof. exact roundtrip_min. Qed.
Print Assumptions C06_roundtrip_min.

(* ... and never another tree, whatever the fuel (in particular with the fuel parse_tokens uses) *)
Theorem C06_roundtrip_min_unique : forall t f t', parse_fuel f (render_min t) = Some t' -> t' = t.
Proof. exact roundtrip_min_unique. Qed.
Print Assumptions C06_roundtrip_min_unique.

Theorem C06_roundtrip_full : forall t, exists f0, forall f, f0 <= f -> parse_fuel f (render_full t) = Some t.
Proof. exact roundtrip_full. Qed.
Print Assumptions C06_roundtrip_full.

(* the same with the concrete parser parse_tokens (fuel = number of tokens + 1, proved to be always enough): the headline *)
Theorem C06_roundtrip_min_tokens : forall t, parse_tokens (render_min t) = Some t.
Proof. exact roundtrip_min_tokens. Qed.
Print Assumptions C06_roundtrip_min_tokens.

Theorem C06_roundtrip_full_tokens : forall t, parse_tokens (render_full t) = Some t.
Proof. exact roundtrip_full_tokens. Qed.
Print Assumptions C06_roundtrip_full_tokens.

(* whatever the parser accepts with any fuel, parse_tokens accepts with the same tree *)
Theorem C06_fuel_suffices : forall f ts t, parse_fuel f ts = Some t -> parse_tokens ts = Some t.
Proof. exact parse_tokens_complete. Qed.
Print Assumptions C06_fuel_suffices.

(* needed parentheses, for ALL trees of the fragment (no bound on depth or size), coq/C06/Needed.v.
   Soundness direction of the Spec parser as a counting invariant: whatever token list the parser turns into t (any fuel, any
   parentheses, redundant ones included) has at least as many opening parentheses as the minimal rendering of t *)
Theorem C06_min_rendering_minimal : forall f ts t, parse_fuel f ts = Some t -> count_lp (render_min t) <= count_lp ts.
Proof. exact parse_count. Qed.
Print Assumptions C06_min_rendering_minimal.

(* hence every pair of the minimal rendering is needed: with the k-th opening parenthesis (counted over all of them, grouping
   and invocation parentheses alike) and its partner removed, the parser does not give t back: another tree, or no tree *)
Theorem C06_needed_paren : forall t k, k < count_lp (render_min t) -> parse_tokens (drop_paren k (render_min t)) <> Some t.
Proof. exact needed_paren. Qed.
Print Assumptions C06_needed_paren.

(* ... whatever the fuel *)
Theorem C06_needed_paren_fuel : forall t k f, k < count_lp (render_min t) -> parse_fuel f (drop_paren k (render_min t)) <> Some t.
Proof. exact needed_paren_fuel. Qed.
Print Assumptions C06_needed_paren_fuel.

(* the boolean form evaluated by the check for every generated tree, now a theorem for all trees *)
Theorem C06_all_needed : forall t, all_needed t = true.
Proof. exact all_needed_all. Qed.
Print Assumptions C06_all_needed.

(* without reference to drop_paren: wherever an opening and a closing parenthesis stand in the minimal rendering, the token
   list without the two does not parse back to t *)
Theorem C06_needed_paren_split : forall t pre body post, render_min t = pre ++ TLp :: body ++ TRp :: post ->
  parse_tokens (pre ++ body ++ post) <> Some t.
Proof. exact needed_paren_split. Qed.
Print Assumptions C06_needed_paren_split.

(* the structural form: x occurs in t at any depth (Occ: chain of operand positions, each with the level it allows: lc/rc of a
   binary operator, r_neg, lv_between / 0 / rc_between, c_post, 0 for filter index and argument) and its level is below the level
   of its position (lower than the parent's, or equal on the non-associative side).  Then the minimal rendering has a matched pair
   around the tokens of x, drop_paren with the pair's running number removes exactly that pair, and what remains does not parse
   back to t *)
Theorem C06_needed_paren_at : forall t m x, Occ t m x -> lvl x < m ->
  exists pre post,
    render_min t = pre ++ TLp :: body_of x ++ TRp :: post /\
    drop_paren (count_lp pre) (render_min t) = pre ++ body_of x ++ post /\
    parse_tokens (pre ++ body_of x ++ post) <> Some t.
Proof. exact needed_paren_at. Qed.
Print Assumptions C06_needed_paren_at.

(* not vacuous: a tree with three needed pairs; removing the first or the second gives another tree, removing the third
   (the left operand of a non-associative operator, two levels down) gives no tree *)
Example C06_needed_nonvacuous :
  count_lp (render_min needed_witness) = 3 /\
  parse_tokens (drop_paren 0 (render_min needed_witness))
    = Some (Bin Add (Atom 1) (Bin Mul (Atom 2) (Neg (Bin Lt (Bin Lt (Atom 3) (Atom 4)) (Atom 5))))) /\
  parse_tokens (drop_paren 1 (render_min needed_witness))
    = Some (Bin Lt (Bin Mul (Bin Add (Atom 1) (Atom 2)) (Neg (Bin Lt (Atom 3) (Atom 4)))) (Atom 5)) /\
  parse_tokens (drop_paren 2 (render_min needed_witness)) = None.
Proof. exact needed_witness_outcomes. Qed.
Print Assumptions C06_needed_nonvacuous.

Example C06_needed_nonvacuous_occ :
  Occ needed_witness (lc Lt) (Bin Lt (Atom 3) (Atom 4)) /\ lvl (Bin Lt (Atom 3) (Atom 4)) < lc Lt.
Proof. exact needed_witness_occ. Qed.
Print Assumptions C06_needed_nonvacuous_occ.

Example C06_nonvacuous :
  render_min (Bin Mul (Bin Add (Atom 1) (Neg (Neg (Atom 3)))) (Btw (Atom 5) (Bin And (Atom 7) (Atom 9)) (Atom 11)))
  = [TLp; TAtom 1; TOp Add; TOp Sub; TOp Sub; TAtom 3; TRp; TOp Mul; TLp; TAtom 5; TBetween; TAtom 7; TOp And; TAtom 9; TBand; TAtom 11; TRp].
Proof. vm_compute. reflexivity. Qed.
Print Assumptions C06_nonvacuous.

(* layouts: any sequence of white space characters, block comments whose body does not contain star-slash (whatever else it contains:
   runs of stars before the terminator, slashes, openers of comments, quotes, line breaks) and line comments closed by a line feed is
   skipped entirely by the model of read_input / consume_whitespace / consume_comment: the lexer resumes exactly at the next token *)
Theorem C06_layout_skipped : forall ps f rest, forallb piece_ok ps = true -> token_start rest = true -> comments ps <= f ->
  skip_layout f (render_layout ps ++ rest) = rest.
Proof. exact layout_skipped. Qed.
Print Assumptions C06_layout_skipped.

Theorem C06_layout_orig_refuted : skip_layout 2 two_comments_then_1 = [49%N] /\ skip_layout_orig two_comments_then_1 <> [49%N].
Proof. exact layout_orig_refuted_witness. Qed.
Print Assumptions C06_layout_orig_refuted.

(* string literals: every string of Unicode scalar values, written with any choice of spelling per character (raw, short escape,
   \uXXXX, \UXXXXXX, surrogate pair; upper or lower case hexadecimal digits), is decoded back to itself by the model of
   consume_string / consume_unicode (UTF-8 bytes computed with the code's masks and shifts, then from_utf8) *)
Theorem C06_unescape_escape : forall sps s, Forall (fun c => scalar c = true) s -> unescape (escape sps s) = Some s.
Proof. exact unescape_escape. Qed.
Print Assumptions C06_unescape_escape.

Theorem C06_unescape_surrogate_orig_refuted :
  unescape surrogate_witness = Some [128591%N] /\ unescape_orig surrogate_witness = None.
Proof. exact (conj unescape_surrogate_witness unescape_orig_surrogate_witness). Qed.
Print Assumptions C06_unescape_surrogate_orig_refuted.

(* ================================================================== the full model of the parser (coq/C06/Actions.v, ActionsProofs.v).
   Owner of this part: ext-actions.  parse_full = the loop of Parser::parse over the regenerated tables with all 90 reduce actions of
   parser.rs on the node stack; the check compares it node by node with the real parser on every generated case of every construct. *)
From Coq Require Import ZArith String.
From DV Require Import Gen.LalrTables C06.Actions C06.ActionsKinds C06.ActionsProofs C06.ActionsAutomaton C06.ActionsGlobal.

(* every action name in the reduce arms of lalr.rs (regenerated on this run) is one of the modelled actions *)
Theorem C06_actions_all_known :
  forallb (fun p => match act_of_name (snd p) with Some _ => true | None => false end) rule_actions = true.
Proof. exact all_actions_known. Qed.
Print Assumptions C06_actions_all_known.

(* STACK SAFETY of the semantic actions, rule by rule, for ALL concrete stacks (finite sweep over the 150 rules of feel.y as regenerated
   with the tables + soundness of the actions on node kinds for every stack).  Every grammar symbol has a declared effect on the node
   stack (ActionsProofs.sigs: the kinds (P, Q) it consumes from below and leaves; a kind is what the actions test with `if let`:
   CommaList, Context, ExpressionList, ... or anything else).  For every rule `lhs: rhs`, from every P the left-hand side may consume:
   the effects of the right-hand side symbols compose (stacks_after gives the possible known tops st of the node stack), and on EVERY
   node stack ns whose top has the kinds st (ntyped), with token values of the right-hand side symbols -- and, for a mid-rule action, of
   the symbols in front of it in its rule -- on the value stack (vtyped), the action of the rule returns Ok (no err_pop, no index out of
   bounds, no node dropped by an `if let`), touches nothing below the known part, and leaves kinds q with (P, q) a declared effect of
   the left-hand side (sound_step).  Also: the rule's length in feel.y is the YY_R2 entry the driver pops.
   The invariant of the LR automaton (at a reduction the symbols on the stack are the right-hand side of the rule), by which this
   rule-by-rule statement extends to whole parses, is C06_parse_full_safe below. *)
Theorem C06_actions_stack_safe :
  forall r lhs rhs, In (r, (lhs, rhs)) grammar_rules ->
  Z.of_nat (List.length rhs) = zn t_r2 r /\
  forall p0, In p0 (preconds lhs) ->
  exists sts, stacks_after rhs [p0] = Some sts /\
    forall st, In st sts -> forall vs ns, vtyped (avals lhs rhs) vs -> ntyped st ns ->
      exists q, In (p0, q) (sig_of lhs) /\ sound_step st ns (run_action r (List.length rhs) vs ns) q.
Proof. exact actions_stack_safe. Qed.
Print Assumptions C06_actions_stack_safe.

(* the grammar read from feel.y fits the tables (rule numbers, YY_R2 lengths, YY_R1 left-hand sides), the reduce arms of lalr.rs run the
   action feel.y names in each rule, the declared effects are uniform, and every rule types: the boolean the sweep evaluates *)
Theorem C06_actions_rules_typed : all_rules_ok = true.
Proof. exact all_rules_ok_true. Qed.
Print Assumptions C06_actions_rules_typed.

(* the abstract actions are sound for every concrete stack (the all-stacks half of the statement above) *)
Theorem C06_actions_abstraction_sound : forall a len avs ks ks' vs ns,
  aapply a len avs ks = Some ks' -> vtyped avs vs -> ntyped ks ns -> sound_step ks ns (apply_act a len vs ns) ks'.
Proof. exact aapply_sound. Qed.
Print Assumptions C06_actions_abstraction_sound.

Example C06_actions_nonvacuous :
  (nth_error grammar_rules 92 = Some (93%Z, ("list_tail", ["COMMA"; "expression"; "list_tail"]))%string /\
   stacks_after ["COMMA"; "expression"; "list_tail"]%string [[]] = Some [[KOther]; [KCommaList; KOther]; [KContext]; [KCommaList; KContext]]) /\
  run_action 93 3 [VState 5; VState 4; VTok tok_Comma] [ACommaList [AName 2]; AName 1; ANull] = ROk [ACommaList [AName 1; AName 2]; ANull].
Proof. exact stack_safe_nonvacuous. Qed.
Print Assumptions C06_actions_nonvacuous.

(* ROUND TRIP of lists through the full model, end to end, for EVERY length (induction through the list_tail actions: the parser
   shifts all elements, then folds from the right with items.insert(0, item)).  Given for each element that its tokens are read to its
   tree where a list element stands (elem_ok: as first and as later element, within parse_full's fuel, tree not the internal
   CommaList), parse_full reads START_EXPRESSION `[` e1 `,` ... `,` en `]` to AList [e1; ...; en].  Automaton steps are computed from
   the regenerated tables (re-proved when lalr.rs changes). *)
Theorem C06_list_roundtrip : forall tss es, Forall2 elem_ok tss es ->
  parse_full (kk tok_StartExpression :: list_tokens tss) = Some (AList es).
Proof. exact list_roundtrip. Qed.
Print Assumptions C06_list_roundtrip.

(* a list is again an element; names, numerals, strings, booleans and null are elements: hence, with no hypothesis left, every nested
   list of atoms of any depth and width round-trips *)
Theorem C06_list_is_element : forall tss es, Forall2 elem_ok tss es -> elem_ok (list_tokens tss) (AList es).
Proof. exact list_elem_ok. Qed.
Print Assumptions C06_list_is_element.

Theorem C06_nested_lists_roundtrip : forall l,
  parse_full (kk tok_StartExpression :: nl_tokens (NList l)) = Some (nl_tree (NList l)).
Proof. exact nested_lists_roundtrip. Qed.
Print Assumptions C06_nested_lists_roundtrip.

(* STACK SAFETY FOR WHOLE PARSES, every input (coq/C06/ActionsAutomaton.v, ActionsGlobal.v).  On every list of tokens as the lexer delivers
   them (tok_ok: the token type is a terminal of the grammar, the token value is the one of that terminal: a name for NAME, digits for
   NUMERIC, ...), the model of the parser with all 90 semantic actions never raises a pop error (FErrPop), never indexes the value stack out
   of bounds (FPanic), never meets an action it does not know, never runs out of states, never accepts with a node stack that is not
   exactly one node (FBadResult): the result is a tree, a syntax error, or the model's own fuel running out.
   Proof: an invariant of the run.  The state stack is a path of the automaton READ OFF THE TABLES (ActionsAutomaton.auto: the transitions
   closed under the moves of the driver, computed from the regenerated tables alone); on every such path the right-hand side of every rule
   a state can reduce lies on top of the stack (back_ok: the LR invariant, a finite check), and so do the symbols in front of a mid-rule
   action; the value stack holds the values of the symbols of the path; the kinds of the node stack are a chain of declared effects of
   those symbols, and wherever a symbol that consumes nodes from below is about to be recognised those nodes are there (pre_ok, read off
   the transitions).  With C06_actions_stack_safe for the reduction itself.  Finite part: C06_automaton_checked (VM, re-proved whenever
   lalr.rs or feel.y changes).  Trusted reading: grammar names of the terminals = TokenType names in upper snake case (a wrong name makes
   the finite check fail: a rule would be reduced on top of other symbols). *)
Theorem C06_parse_full_safe : forall toks, Forall ActionsGlobal.tok_ok toks ->
  match parse_res toks with FAccept _ | FSyntax | FFuel => True | _ => False end.
Proof. exact parse_full_safe. Qed.
Print Assumptions C06_parse_full_safe.

(* with the decidable token test that the check evaluates on every token list it feeds to the model *)
Theorem C06_parse_full_safe_checked : forall toks, forallb ActionsAutomaton.tok_okb toks = true ->
  match parse_res toks with FAccept _ | FSyntax | FFuel => True | _ => False end.
Proof. exact parse_full_safe_b. Qed.
Print Assumptions C06_parse_full_safe_checked.

Theorem C06_automaton_checked : automaton_ok = true.
Proof. exact automaton_ok_true. Qed.
Print Assumptions C06_automaton_checked.

Example C06_tokens_nonvacuous :
  Forall ActionsGlobal.tok_ok [(tok_StartExpression, VTok tok_StartExpression); (tok_LeftBracket, VTok tok_LeftBracket); (tok_Name, VName 1%N);
                 (tok_Comma, VTok tok_Comma); (tok_Numeric, VNumeric 2%N 3%N); (tok_String, VString 4%N); (tok_Boolean, VBoolean true);
                 (tok_Null, VTok tok_Null); (tok_BuiltInTypeName, VBuiltInTypeName 5%N); (tok_NameDateTime, VNameDateTime 6%N);
                 (tok_RightBracket, VTok tok_RightBracket)].
Proof. exact tok_ok_sample. Qed.
Print Assumptions C06_tokens_nonvacuous.

(* ------------------------------------------------------------------ TEXT -> TOKENS -> TREE (owner: ext-lexer; coq/C06/Lexer.v, LexerProofs.v, LexerText.v) *)
From DV Require Import C06.Lexer C06.LexerProofs C06.LexerText.

(* the model of Lexer::next_token iterated (keywords with their terminators, symbols, numerals, string literals, names through the
   part collector of C10, the between / type-name flags) reads back every printable token list from the text with one space after
   every token.  keys_ok: the scope keys are single words (name characters; no white space character is one), pairwise different,
   no keyword spelling, no built-in type name.  printable: names are scope keys, not where a type is expected; type names are one of
   number string boolean Any Null time and stand where a type is expected; `and` is the separator exactly while the between flag is
   set; numerals are digits with an optional fraction; strings consist of Unicode scalar values; For / Some / Every / Function /
   Context / Range / List / Not and the date-time names are outside (till_in flag, look-ahead terminators, unary-tests flag) *)
Theorem C06_lex_unlex : forall keys ts, keys_ok keys = true -> printable keys ts = true -> lex keys (unlex ts) = Some ts.
Proof. exact lex_unlex. Qed.
Print Assumptions C06_lex_unlex.

(* the same with any layout of the grammar of C06_layout_skipped before the first token and, behind one space, after every token
   (gap_ok: any pieces of that grammar; the former restriction to pieces without U+1680 is gone with the repair of is_name_start_char) *)
Theorem C06_lex_unlex_layout : forall keys ts lead gaps, keys_ok keys = true -> printable keys ts = true ->
  forallb piece_ok lead = true -> forallb gap_ok gaps = true ->
  lex keys (render_layout lead ++ unlex_lay gaps ts) = Some ts.
Proof. exact lex_unlex_layout. Qed.
Print Assumptions C06_lex_unlex_layout.

(* text level, all trees of the operator fragment: parse_text = lexer model, then the lexer's tokens read as tokens of the Spec (abs),
   then the Spec parser.  enc / dec: any dictionary that writes every atom number as a literal or a scope key and reads it back
   (atoms_ok).  Side conditions on the rendering: type numbers < 6 and member names positions in keys (tok_wf), and flag_ok: no `and`
   token while the lexer's between flag is set, i.e. the tree is outside the known finding between-lower-bound-and *)
Theorem C06_text_roundtrip_min : forall keys enc dec t, keys_ok keys = true -> atoms_ok keys enc dec ->
  flag_ok false (render_min t) = true -> forallb (tok_wf keys) (render_min t) = true ->
  parse_text keys dec (unlex (conc_all keys enc (render_min t))) = Some t.
Proof. intros keys enc dec t Hk Ha. exact (text_roundtrip_min keys enc dec Hk Ha t). Qed.
Print Assumptions C06_text_roundtrip_min.

Theorem C06_text_roundtrip_full : forall keys enc dec t, keys_ok keys = true -> atoms_ok keys enc dec ->
  flag_ok false (render_full t) = true -> forallb (tok_wf keys) (render_full t) = true ->
  parse_text keys dec (unlex (conc_all keys enc (render_full t))) = Some t.
Proof. intros keys enc dec t Hk Ha. exact (text_roundtrip_full keys enc dec Hk Ha t). Qed.
Print Assumptions C06_text_roundtrip_full.

Theorem C06_text_roundtrip_min_layout : forall keys enc dec t lead gaps, keys_ok keys = true -> atoms_ok keys enc dec ->
  flag_ok false (render_min t) = true -> forallb (tok_wf keys) (render_min t) = true ->
  forallb piece_ok lead = true -> forallb gap_ok gaps = true ->
  parse_text keys dec (render_layout lead ++ unlex_lay gaps (conc_all keys enc (render_min t))) = Some t.
Proof. intros keys enc dec t lead gaps Hk Ha. exact (text_roundtrip_min_layout keys enc dec Hk Ha t lead gaps). Qed.
Print Assumptions C06_text_roundtrip_min_layout.

Theorem C06_text_roundtrip_full_layout : forall keys enc dec t lead gaps, keys_ok keys = true -> atoms_ok keys enc dec ->
  flag_ok false (render_full t) = true -> forallb (tok_wf keys) (render_full t) = true ->
  forallb piece_ok lead = true -> forallb gap_ok gaps = true ->
  parse_text keys dec (render_layout lead ++ unlex_lay gaps (conc_all keys enc (render_full t))) = Some t.
Proof. intros keys enc dec t lead gaps Hk Ha. exact (text_roundtrip_full_layout keys enc dec Hk Ha t lead gaps). Qed.
Print Assumptions C06_text_roundtrip_full_layout.

(* whatever the Spec parser makes of a token list (also none, or another tree: the removal theorems above), it makes of its text *)
Theorem C06_parse_text_unlex : forall keys enc dec ts, keys_ok keys = true -> atoms_ok keys enc dec ->
  flag_ok false ts = true -> forallb (tok_wf keys) ts = true ->
  parse_text keys dec (unlex (conc_all keys enc ts)) = parse_tokens ts.
Proof. intros keys enc dec ts Hk Ha. exact (parse_text_unlex keys enc dec Hk Ha ts). Qed.
Print Assumptions C06_parse_text_unlex.

(* not vacuous: a dictionary exists for every key set (atom a = the numeral of a + 1 ones) ... *)
Example C06_text_atoms_nonvacuous : forall keys, atoms_ok keys enc_unary dec_unary.
Proof. exact atoms_unary. Qed.
Print Assumptions C06_text_atoms_nonvacuous.

(* ... and a tree with names, numerals, between, unary minus, instance of and a path meets the side conditions; its text is
   `( a + 11 ) * b between 1 and ( - c ) instance of number . d ` *)
Example C06_text_nonvacuous :
  keys_ok keys_ex = true /\ flag_ok false (render_min tree_ex) = true /\ forallb (tok_wf keys_ex) (render_min tree_ex) = true /\
  unlex (conc_all keys_ex enc_ex (render_min tree_ex)) =
    [40; 32; 97; 32; 43; 32; 49; 49; 32; 41; 32; 42; 32; 98; 32; 98; 101; 116; 119; 101; 101; 110; 32; 49; 32; 97; 110; 100; 32; 40; 32; 45; 32; 99; 32; 41; 32;
     105; 110; 115; 116; 97; 110; 99; 101; 32; 111; 102; 32; 110; 117; 109; 98; 101; 114; 32; 46; 32; 100; 32]%N /\
  parse_text keys_ex dec_ex (unlex (conc_all keys_ex enc_ex (render_min tree_ex))) = Some tree_ex.
Proof. exact text_example. Qed.
Print Assumptions C06_text_nonvacuous.

(* the side condition flag_ok cannot be dropped (known finding between-lower-bound-and, behaviour of the code as it is):
   `a between b and c and d` is the minimal rendering of a between (b and c) and d for the Spec parser, the lexer delivers the first
   `and` as the separator and the text parses to (a between b and c) and d *)
Theorem C06_text_between_lower_and_refuted :
  flag_ok false (render_min tree_band) = false /\ parse_tokens (render_min tree_band) = Some tree_band /\
  parse_text keys_ex dec_ex (unlex (conc_all keys_ex enc_ex (render_min tree_band))) = Some (Bin And (Btw (Atom 1) (Atom 3) (Atom 5)) (Atom 7)).
Proof. exact text_band_witness. Qed.
Print Assumptions C06_text_between_lower_and_refuted.

(* ================================================================== the EXTENDED expression language (owner of this part: prover-C06).
   coq/C06/ModelExt.v: trees of the operator fragment plus if / then / else, for x in e [.. e] [, y in e]* return e,
   some / every x in e [, ..]* satisfies e, function (p [: T], ..) e, lists [e, ..], contexts {k : e, ..}, ranges (nine bracket
   combinations ( [ ] x ) ] [, endpoints atoms: a name or a literal), invocations with any number of positional arguments and with
   named arguments; a precedence-climbing Spec parser for them (eparse_tokens; compared with the real parser on every run by
   props/c06ext.py) and the two renderers.  The open constructs (if, for, some, every, function) end with an expression that extends as
   far to the right as possible: erender_min puts them in parentheses exactly where a continuing token follows (an operator, between,
   instance of, `.`, `[`, `(`), i.e. on the LEFT of an operator but not on the right, and puts every other operand in parentheses
   exactly where its level is below the level of its position.
   Not in these trees: unary tests (`< 5` as an expression, `x in (a, b)`), string keys of contexts, qualified names as range endpoints,
   types other than the built-in ones after `instance of` and in formal parameters, `external` function bodies, date and time literals,
   multi-word names. *)
From DV Require Import C06.ModelExt C06.ExtLex.
From DV Require C06.ExtBase C06.ExtRound C06.ExtFull C06.ExtFuel C06.ExtNeeded C06.ExtNeededAt C06.ExtEmbed C06.ExtText C06.ExtTextFree.

(* ROUND TRIP, all trees of the extended language (no bound on depth, width or the length of the lists) *)
Theorem C06_roundtrip_min_ext : forall t : etree, eparse_tokens (erender_min t) = Some t.
Proof. exact ExtFuel.eroundtrip_min_tokens. Qed.
Print Assumptions C06_roundtrip_min_ext.

Theorem C06_roundtrip_full_ext : forall t : etree, eparse_tokens (erender_full t) = Some t.
Proof. exact ExtFuel.eroundtrip_full_tokens. Qed.
Print Assumptions C06_roundtrip_full_ext.

(* the fuel of eparse_tokens (number of tokens + 1) is always enough: whatever any fuel parses, eparse_tokens parses *)
Theorem C06_fuel_suffices_ext : forall f ts t, eparse_fuel f ts = Some t -> eparse_tokens ts = Some t.
Proof. exact ExtFuel.eparse_tokens_complete. Qed.
Print Assumptions C06_fuel_suffices_ext.

(* NEEDED PARENTHESES, all trees.  Soundness direction of the extended Spec parser as a counting invariant: whatever token list the
   parser turns into t (any fuel, any parentheses) has at least as many opening parentheses as the minimal rendering of t (counted
   over all `(`: grouping, invocation, parameter list, range) *)
Theorem C06_min_rendering_minimal_ext : forall f ts t, eparse_fuel f ts = Some t -> (ecount_lp (erender_min t) <= ecount_lp ts)%nat.
Proof. exact ExtNeeded.eparse_count. Qed.
Print Assumptions C06_min_rendering_minimal_ext.

(* hence: with the k-th opening parenthesis of the minimal rendering and the closing parenthesis that matches it by depth removed,
   the parser does not give t back: another tree, or no tree *)
Theorem C06_needed_paren_ext : forall t k, (k < ecount_lp (erender_min t))%nat -> eparse_tokens (edrop_paren k (erender_min t)) <> Some t.
Proof. exact ExtNeeded.eneeded_paren. Qed.
Print Assumptions C06_needed_paren_ext.

Theorem C06_needed_paren_fuel_ext : forall t k f, (k < ecount_lp (erender_min t))%nat -> eparse_fuel f (edrop_paren k (erender_min t)) <> Some t.
Proof. exact ExtNeeded.eneeded_paren_fuel. Qed.
Print Assumptions C06_needed_paren_fuel_ext.

(* without reference to edrop_paren (a range like `[a..b)` has a closing parenthesis of its own): wherever an opening and a later
   closing parenthesis stand in the minimal rendering, the token list without the two does not parse back to t *)
Theorem C06_needed_paren_split_ext : forall t pre body post, erender_min t = pre ++ XLp :: body ++ XRp :: post ->
  eparse_tokens (pre ++ body ++ post) <> Some t.
Proof. exact ExtNeeded.eneeded_paren_split. Qed.
Print Assumptions C06_needed_paren_split_ext.

(* the structural form: x occurs in t at any depth (ExtNeededAt.Occ: a chain of operand positions, each with the level m it admits and
   the flag f "a continuing token follows": the operands of the operator fragment as in C06_needed_paren_at, with f = true for every
   left operand and the parent's f for the right-most one; 0 / false for conditions, branches, domains, bodies, list items, context
   entries, arguments) and paren m f x = true: x is an operator form below the level of its position, or an open construct followed
   by a continuing token.  Then the minimal rendering has a pair around the tokens of x and what remains without it does not parse
   back to t *)
Theorem C06_needed_paren_at_ext : forall t m f x, ExtNeededAt.Occ t m f x -> paren m f x = true ->
  exists pre post,
    erender_min t = pre ++ XLp :: ExtRound.ebody false x ++ XRp :: post /\
    eparse_tokens (pre ++ ExtRound.ebody false x ++ post) <> Some t.
Proof. exact ExtNeededAt.eneeded_paren_at. Qed.
Print Assumptions C06_needed_paren_at_ext.

(* the two positions named in the task: an open construct on the LEFT of a binary operator is rendered in parentheses and they are
   needed; on the RIGHT it is rendered without *)
Theorem C06_open_left_needed_ext : forall o l r, low l = true ->
  erender_min (EBin o l r) = XLp :: ExtRound.ebody false l ++ XRp :: XOp o :: rat (rc o) false r /\
  eparse_tokens (ExtRound.ebody false l ++ XOp o :: rat (rc o) false r) <> Some (EBin o l r).
Proof. exact ExtNeededAt.open_left_needed. Qed.
Print Assumptions C06_open_left_needed_ext.

Theorem C06_open_right_bare_ext : forall o l r, low r = true ->
  erender_min (EBin o l r) = rat (lc o) true l ++ XOp o :: ExtRound.ebody false r.
Proof. exact ExtNeededAt.open_right_bare. Qed.
Print Assumptions C06_open_right_bare_ext.

(* the extended renderers print a tree of the operator fragment exactly as the renderers of the fragment do, and the extended parser
   reads those renderings back *)
Theorem C06_ext_conservative : forall t : tree,
  erender_min (embed t) = map embed_tok (render_min t) /\ erender_full (embed t) = map embed_tok (render_full t) /\
  eparse_tokens (map embed_tok (render_min t)) = Some (embed t) /\ eparse_tokens (map embed_tok (render_full t)) = Some (embed t).
Proof.
  exact (fun t => conj (ExtEmbed.erender_min_embed t) (conj (ExtEmbed.erender_full_embed t) (conj (ExtEmbed.eparse_embed_min t) (ExtEmbed.eparse_embed_full t)))).
Qed.
Print Assumptions C06_ext_conservative.

(* not vacuous: a for inside an if inside a function definition, on the left of `*`, a quantified expression over a list with a range on
   the right:  ( function ( p : T , q ) if a then for i in b , j in c .. d return i + j else e ) * ( f + some i in [ a , [ 2 .. 4 ] ] satisfies i )
   three pairs; without the first the else branch takes everything that follows (another tree), without the second (the parameter
   list) no tree, without the third another tree *)
Example C06_ext_nonvacuous :
  erender_min ExtNeededAt.ext_witness =
    [XLp; XFun; XLp; XPar 1 (Some 0%N); XComma; XPar 3 None; XRp; XIf; XAtom 1; XThen; XFor; XBind 5; XAtom 7; XComma;
     XBind 9; XAtom 11; XEll; XAtom 13; XReturn; XAtom 5; XOp Add; XAtom 9; XElse; XAtom 15; XRp;
     XOp Mul; XLp; XAtom 17; XOp Add; XSome; XBind 5; XLb; XAtom 1; XComma; XLb; XAtom 2; XEll; XAtom 4; XRb; XRb; XSatisfies; XAtom 5; XRp] /\
  eparse_tokens (erender_min ExtNeededAt.ext_witness) = Some ExtNeededAt.ext_witness /\
  eparse_tokens (erender_full ExtNeededAt.ext_witness) = Some ExtNeededAt.ext_witness /\
  ecount_lp (erender_min ExtNeededAt.ext_witness) = 3%nat /\
  eparse_tokens (edrop_paren 0%nat (erender_min ExtNeededAt.ext_witness)) =
    Some (EFun [(1%N, Some 0%N); (3%N, None)]
            (EIf (EAtom 1)
                 (EFor (5%N, EAtom 7, None) [(9%N, EAtom 11, Some (EAtom 13))] (EBin Add (EAtom 5) (EAtom 9)))
                 (EBin Mul (EAtom 15) (EBin Add (EAtom 17) (EQuant QSome (5%N, EList [EAtom 1; ERange RoB 2 4 RcB]) [] (EAtom 5)))))) /\
  eparse_tokens (edrop_paren 1%nat (erender_min ExtNeededAt.ext_witness)) = None /\
  eparse_tokens (edrop_paren 2%nat (erender_min ExtNeededAt.ext_witness)) =
    Some (EBin Add (EBin Mul ExtNeededAt.ext_witness_fun (EAtom 17)) (EQuant QSome (5%N, EList [EAtom 1; ERange RoB 2 4 RcB]) [] (EAtom 5))).
Proof. exact ExtNeededAt.ext_witness_outcomes. Qed.
Print Assumptions C06_ext_nonvacuous.

(* the function definition of the witness meets the hypotheses of C06_needed_paren_at_ext (left operand of `*`: an open construct
   followed by a continuing token), the for expression three levels down stands between then and else and needs no parentheses *)
Example C06_ext_nonvacuous_occ :
  (ExtNeededAt.Occ ExtNeededAt.ext_witness (lc Mul) true ExtNeededAt.ext_witness_fun /\ paren (lc Mul) true ExtNeededAt.ext_witness_fun = true) /\
  (ExtNeededAt.Occ ExtNeededAt.ext_witness 0%nat false (EFor (5%N, EAtom 7, None) [(9%N, EAtom 11, Some (EAtom 13))] (EBin Add (EAtom 5) (EAtom 9))) /\
   paren 0%nat false (EFor (5%N, EAtom 7, None) [(9%N, EAtom 11, Some (EAtom 13))] (EBin Add (EAtom 5) (EAtom 9))) = false).
Proof. exact (conj ExtNeededAt.ext_witness_occ ExtNeededAt.ext_witness_inner). Qed.
Print Assumptions C06_ext_nonvacuous_occ.

(* TEXT LEVEL (with C06_lex_unlex / C06_lex_unlex_layout): parse_text_ext = lexer model, its tokens read as tokens of the extended Spec
   (a name followed by `:` is a key), extended Spec parser.  Whatever the extended Spec parser makes of a token list it makes of its text,
   for all token lists whose type numbers are < 6, whose member names and keys are positions in keys, that are outside the known finding
   between-lower-bound-and (eflag_ok) and that contain none of XFor XSome XEvery XFun XBind XPar XReturn XSatisfies (etok_wf): the
   keywords for / some / every (till_in flag) and function (look-ahead terminator) are outside the printable token lists of C06_lex_unlex.
   So at the text level the statement covers if, lists, contexts, ranges and both kinds of argument lists; the binders and function
   definitions are covered at the token level above and, from text, by the correspondence (props/c06ext.py renders the Coq token lists to
   text for the real parser) *)
Theorem C06_parse_text_unlex_ext : forall keys enc dec ts, keys_ok keys = true -> atoms_ok keys enc dec ->
  eflag_ok false ts = true -> forallb (etok_wf keys) ts = true ->
  parse_text_ext keys dec (unlex (econc_all keys enc ts)) = eparse_tokens ts.
Proof. intros keys enc dec ts Hk Ha. exact (ExtText.parse_text_unlex_ext keys enc dec Hk Ha ts). Qed.
Print Assumptions C06_parse_text_unlex_ext.

Theorem C06_text_roundtrip_min_ext : forall keys enc dec t, keys_ok keys = true -> atoms_ok keys enc dec ->
  eflag_ok false (erender_min t) = true -> forallb (etok_wf keys) (erender_min t) = true ->
  parse_text_ext keys dec (unlex (econc_all keys enc (erender_min t))) = Some t.
Proof. intros keys enc dec t Hk Ha. exact (ExtText.text_roundtrip_min_ext keys enc dec Hk Ha t). Qed.
Print Assumptions C06_text_roundtrip_min_ext.

Theorem C06_text_roundtrip_full_ext : forall keys enc dec t, keys_ok keys = true -> atoms_ok keys enc dec ->
  eflag_ok false (erender_full t) = true -> forallb (etok_wf keys) (erender_full t) = true ->
  parse_text_ext keys dec (unlex (econc_all keys enc (erender_full t))) = Some t.
Proof. intros keys enc dec t Hk Ha. exact (ExtText.text_roundtrip_full_ext keys enc dec Hk Ha t). Qed.
Print Assumptions C06_text_roundtrip_full_ext.

Theorem C06_text_roundtrip_min_layout_ext : forall keys enc dec t lead gaps, keys_ok keys = true -> atoms_ok keys enc dec ->
  eflag_ok false (erender_min t) = true -> forallb (etok_wf keys) (erender_min t) = true ->
  forallb piece_ok lead = true -> forallb gap_ok gaps = true ->
  parse_text_ext keys dec (render_layout lead ++ unlex_lay gaps (econc_all keys enc (erender_min t))) = Some t.
Proof. intros keys enc dec t lead gaps Hk Ha. exact (ExtText.text_roundtrip_min_layout_ext keys enc dec Hk Ha t lead gaps). Qed.
Print Assumptions C06_text_roundtrip_min_layout_ext.

Theorem C06_text_roundtrip_full_layout_ext : forall keys enc dec t lead gaps, keys_ok keys = true -> atoms_ok keys enc dec ->
  eflag_ok false (erender_full t) = true -> forallb (etok_wf keys) (erender_full t) = true ->
  forallb piece_ok lead = true -> forallb gap_ok gaps = true ->
  parse_text_ext keys dec (render_layout lead ++ unlex_lay gaps (econc_all keys enc (erender_full t))) = Some t.
Proof. intros keys enc dec t lead gaps Hk Ha. exact (ExtText.text_roundtrip_full_layout_ext keys enc dec Hk Ha t lead gaps). Qed.
Print Assumptions C06_text_roundtrip_full_layout_ext.

(* a needed pair removed, at the text level: the text of the minimal rendering without the k-th pair does not parse back to t *)
Theorem C06_text_needed_paren_ext : forall keys enc dec t k, keys_ok keys = true -> atoms_ok keys enc dec ->
  eflag_ok false (edrop_paren k (erender_min t)) = true -> forallb (etok_wf keys) (edrop_paren k (erender_min t)) = true ->
  (k < ecount_lp (erender_min t))%nat ->
  parse_text_ext keys dec (unlex (econc_all keys enc (edrop_paren k (erender_min t)))) <> Some t.
Proof. intros keys enc dec t k Hk Ha. exact (ExtText.text_needed_paren_ext keys enc dec Hk Ha t k). Qed.
Print Assumptions C06_text_needed_paren_ext.

(* not vacuous: a tree with if, a list, a context, a range and named arguments meets the side conditions; its text is
   `if a < 1 then [ b , { c : ( a .. b ] } ] else d ( a : 1 , b : [ ] ) ` *)
Example C06_text_nonvacuous_ext :
  keys_ok keys_ex = true /\ eflag_ok false (erender_min ExtText.etree_ex) = true /\ forallb (etok_wf keys_ex) (erender_min ExtText.etree_ex) = true /\
  unlex (econc_all keys_ex enc_ex (erender_min ExtText.etree_ex)) =
    [105; 102; 32; 97; 32; 60; 32; 49; 32; 116; 104; 101; 110; 32; 91; 32; 98; 32; 44; 32; 123; 32; 99; 32; 58; 32; 40; 32; 97; 32; 46; 46; 32; 98; 32; 93; 32; 125; 32; 93; 32;
     101; 108; 115; 101; 32; 100; 32; 40; 32; 97; 32; 58; 32; 49; 32; 44; 32; 98; 32; 58; 32; 91; 32; 93; 32; 41; 32]%N /\
  parse_text_ext keys_ex dec_ex (unlex (econc_all keys_ex enc_ex (erender_min ExtText.etree_ex))) = Some ExtText.etree_ex.
Proof. exact ExtText.text_example_ext. Qed.
Print Assumptions C06_text_nonvacuous_ext.

(* the proved part of the text-level statement in terms of the TREE: for every tree without for / some / every / function
   (binder_free: any nesting of operators, between, if, lists, contexts, ranges, filters, paths, instance of, invocations with positional or
   named arguments), with member names / keys / type numbers in range (names_ok) and outside the known finding (eflag_ok), the text of both
   renderings parses back to the tree.  Missing: exactly the trees that contain a for, some, every or function node *)
Theorem C06_text_roundtrip_ext_partial : forall keys enc dec t, keys_ok keys = true -> atoms_ok keys enc dec -> binder_free t = true ->
  (eflag_ok false (erender_min t) = true -> forallb (ExtTextFree.names_ok keys) (erender_min t) = true ->
   parse_text_ext keys dec (unlex (econc_all keys enc (erender_min t))) = Some t) /\
  (eflag_ok false (erender_full t) = true -> forallb (ExtTextFree.names_ok keys) (erender_full t) = true ->
   parse_text_ext keys dec (unlex (econc_all keys enc (erender_full t))) = Some t).
Proof. exact ExtTextFree.text_roundtrip_ext_free. Qed.
Print Assumptions C06_text_roundtrip_ext_partial.

(* the full statement at the text level, for ALL trees of the extended language, was first written down as the proposition below (kept as
   it was).  It is PROVED further down as C06_text_roundtrip_min_all / C06_text_roundtrip_full_all, with two changes that the
   remark of the time already named: the lexer carries the flag policy for the binders (lex_b: till_in also behind the comma between two
   iteration contexts, type_name behind the colon of a formal parameter) and `name in` where a binding is expected is read as a binding
   (parse_text_all = lex_b, eabs_b, eparse_tokens; parse_text_ext below reads it as an atom and the operator in, so the proposition in
   this literal form fails on every tree with a binder).  (The third change of the time, "the variable of a binding must not be the name
   `item`", is gone: consume_name is repaired, see C06_text_item_variable_orig_refuted) *)
Definition C06_text_roundtrip_ext_statement : Prop :=
  forall keys enc dec (t : etree), keys_ok keys = true -> atoms_ok keys enc dec ->
  eflag_ok false (erender_min t) = true ->
  forallb (fun tk => match tk with XInst ty => (ty <? 6)%N | XDot n | XKey n | XBind n => (n <? N.of_nat (List.length keys))%N
                                 | XPar n None => (n <? N.of_nat (List.length keys))%N
                                 | XPar n (Some ty) => (n <? N.of_nat (List.length keys))%N && (ty <? 6)%N | _ => true end) (erender_min t) = true ->
  parse_text_ext keys dec (unlex (econc_all keys enc (erender_min t))) = Some t.

(* ================================================================== TEXT LEVEL FOR ALL TREES: binders and function definitions (prover-C06-binders) *)
From DV Require Import C06.LexBind C06.ExtLexAll.
From DV Require C06.LexBindProofs C06.ExtTextAll C06.ExtTrack C06.ExtTextTrees.

(* the lexer model with the binder policy (C06.LexBind.lex_b: next_token iterated; the flags set between two tokens by policy_b from a
   pushdown over the tokens delivered so far: open brackets, open headers for / some / every .. return / satisfies, the parameter list
   of a function definition; a comma sets till_in when the innermost open thing is a header, a colon sets type_name when it is a
   parameter list; between after BETWEEN and type_name after OF as before) reads back every token list that is printable in the
   extended sense (printable_b = printable of C06_lex_unlex, plus: for / some / every; `function` directly followed by `(`; while
   till_in is set, a single word that is no keyword, followed by `in` -- it need not be a scope key; `item` included) *)
Theorem C06_lex_b_unlex : forall keys ts, keys_ok keys = true -> printable_b keys tstate0 flags0 ts = true -> lex_b keys (unlex ts) = Some ts.
Proof. exact LexBindProofs.lex_b_unlex. Qed.
Print Assumptions C06_lex_b_unlex.

(* ... with any layout of the modelled grammar before the first token and, behind one space, after every token, except (gaps_ok_b) behind
   `function` and behind the variable of a binding: there only white space characters that are no name characters (a comment between
   `function` and `(` makes the keyword a name, a comment between the variable and `in` becomes part of the variable: its `/` and `*` are
   additional name symbols) *)
Theorem C06_lex_b_unlex_layout : forall keys ts lead gaps, keys_ok keys = true ->
  printable_b keys tstate0 flags0 ts = true -> gaps_ok_b tstate0 flags0 ts gaps = true ->
  forallb piece_ok lead = true -> forallb gap_ok gaps = true ->
  lex_b keys (render_layout lead ++ unlex_lay gaps ts) = Some ts.
Proof. exact LexBindProofs.lex_b_unlex_layout. Qed.
Print Assumptions C06_lex_b_unlex_layout.

(* the pushdown on the renderings: for EVERY tree, in both renderings, it expects a binding exactly in front of every binding (XBind), is
   inside a parameter list exactly at the formal parameters, sets type_name behind the colon of a typed parameter and not behind the colon
   of a key, and `function` is followed by `(` (etrack_ok) *)
Theorem C06_track_renderings : forall t, etrack_ok tstate0 (erender_min t) = true /\ etrack_ok tstate0 (erender_full t) = true.
Proof. exact (fun t => conj (ExtTrack.etrack_min t) (ExtTrack.etrack_full t)). Qed.
Print Assumptions C06_track_renderings.

(* whatever the extended Spec parser makes of a token list it makes of its text, for ALL token lists (binder tokens included) that meet
   etrack_ok, are outside the known finding between-lower-bound-and (eflag_ok) and whose names are in range (names_all: type numbers < 6;
   member names, keys, variables and parameter names positions in keys) *)
Theorem C06_parse_text_unlex_all : forall keys enc dec ts, keys_ok keys = true -> atoms_ok keys enc dec ->
  eflag_ok false ts = true -> forallb (names_all keys) ts = true -> etrack_ok tstate0 ts = true ->
  parse_text_all keys dec (unlex (econc_all keys enc ts)) = eparse_tokens ts.
Proof. intros keys enc dec ts Hk Ha. exact (ExtTextAll.parse_text_unlex_all keys enc dec Hk Ha ts). Qed.
Print Assumptions C06_parse_text_unlex_all.

(* THE ROUND TRIP FROM TEXT FOR ALL TREES of the extended language (for, some, every, function included; no bound): the text of the minimal
   and of the full rendering parses back to the tree.  Side conditions: the scope keys are single words, pairwise different, no keywords, no
   built-in type names (keys_ok); the dictionary writes every atom as a literal or a scope key and reads it back (atoms_ok); the rendering is
   outside the known finding between-lower-bound-and (eflag_ok); names_all (nothing about binders: any scope key may be a variable, `item` too) *)
Theorem C06_text_roundtrip_min_all : forall keys enc dec t, keys_ok keys = true -> atoms_ok keys enc dec ->
  eflag_ok false (erender_min t) = true -> forallb (names_all keys) (erender_min t) = true ->
  parse_text_all keys dec (unlex (econc_all keys enc (erender_min t))) = Some t.
Proof. intros keys enc dec t Hk Ha. exact (ExtTextTrees.text_roundtrip_min_all keys enc dec Hk Ha t). Qed.
Print Assumptions C06_text_roundtrip_min_all.

Theorem C06_text_roundtrip_full_all : forall keys enc dec t, keys_ok keys = true -> atoms_ok keys enc dec ->
  eflag_ok false (erender_full t) = true -> forallb (names_all keys) (erender_full t) = true ->
  parse_text_all keys dec (unlex (econc_all keys enc (erender_full t))) = Some t.
Proof. intros keys enc dec t Hk Ha. exact (ExtTextTrees.text_roundtrip_full_all keys enc dec Hk Ha t). Qed.
Print Assumptions C06_text_roundtrip_full_all.

(* ... under every layout of C06_lex_b_unlex_layout *)
Theorem C06_text_roundtrip_min_layout_all : forall keys enc dec t lead gaps, keys_ok keys = true -> atoms_ok keys enc dec ->
  eflag_ok false (erender_min t) = true -> forallb (names_all keys) (erender_min t) = true ->
  gaps_ok_b tstate0 flags0 (econc_all keys enc (erender_min t)) gaps = true -> forallb piece_ok lead = true -> forallb gap_ok gaps = true ->
  parse_text_all keys dec (render_layout lead ++ unlex_lay gaps (econc_all keys enc (erender_min t))) = Some t.
Proof. intros keys enc dec t lead gaps Hk Ha. exact (ExtTextTrees.text_roundtrip_min_layout_all keys enc dec Hk Ha t lead gaps). Qed.
Print Assumptions C06_text_roundtrip_min_layout_all.

Theorem C06_text_roundtrip_full_layout_all : forall keys enc dec t lead gaps, keys_ok keys = true -> atoms_ok keys enc dec ->
  eflag_ok false (erender_full t) = true -> forallb (names_all keys) (erender_full t) = true ->
  gaps_ok_b tstate0 flags0 (econc_all keys enc (erender_full t)) gaps = true -> forallb piece_ok lead = true -> forallb gap_ok gaps = true ->
  parse_text_all keys dec (render_layout lead ++ unlex_lay gaps (econc_all keys enc (erender_full t))) = Some t.
Proof. intros keys enc dec t lead gaps Hk Ha. exact (ExtTextTrees.text_roundtrip_full_layout_all keys enc dec Hk Ha t lead gaps). Qed.
Print Assumptions C06_text_roundtrip_full_layout_all.

(* a needed pair removed, at the text level, binders included (the token list without the pair is no rendering: etrack_ok is a hypothesis,
   evaluated by the check on every such list it sends to the real parser) *)
Theorem C06_text_needed_paren_all : forall keys enc dec t k, keys_ok keys = true -> atoms_ok keys enc dec ->
  eflag_ok false (edrop_paren k (erender_min t)) = true -> forallb (names_all keys) (edrop_paren k (erender_min t)) = true ->
  etrack_ok tstate0 (edrop_paren k (erender_min t)) = true -> (k < ecount_lp (erender_min t))%nat ->
  parse_text_all keys dec (unlex (econc_all keys enc (edrop_paren k (erender_min t)))) <> Some t.
Proof. intros keys enc dec t k Hk Ha. exact (ExtTextTrees.text_needed_paren_all keys enc dec Hk Ha t k). Qed.
Print Assumptions C06_text_needed_paren_all.

(* not vacuous: a for inside an if inside a function definition meets the side conditions; its text is
   `function ( a : number , b ) if a then for c in b , d in 11 .. a return c + d else b ` and both renderings parse back from text *)
Example C06_text_nonvacuous_all :
  keys_ok keys_ex = true /\ eflag_ok false (erender_min ExtTextTrees.etree_all_ex) = true /\
  forallb (names_all keys_ex) (erender_min ExtTextTrees.etree_all_ex) = true /\
  unlex (econc_all keys_ex enc_ex (erender_min ExtTextTrees.etree_all_ex)) =
    [102; 117; 110; 99; 116; 105; 111; 110; 32; 40; 32; 97; 32; 58; 32; 110; 117; 109; 98; 101; 114; 32; 44; 32; 98; 32; 41; 32; 105; 102; 32; 97; 32;
     116; 104; 101; 110; 32; 102; 111; 114; 32; 99; 32; 105; 110; 32; 98; 32; 44; 32; 100; 32; 105; 110; 32; 49; 49; 32; 46; 46; 32; 97; 32;
     114; 101; 116; 117; 114; 110; 32; 99; 32; 43; 32; 100; 32; 101; 108; 115; 101; 32; 98; 32]%N /\
  parse_text_all keys_ex dec_ex (unlex (econc_all keys_ex enc_ex (erender_min ExtTextTrees.etree_all_ex))) = Some ExtTextTrees.etree_all_ex /\
  parse_text_all keys_ex dec_ex (unlex (econc_all keys_ex enc_ex (erender_full ExtTextTrees.etree_all_ex))) = Some ExtTextTrees.etree_all_ex.
Proof. exact ExtTextTrees.text_example_all. Qed.
Print Assumptions C06_text_nonvacuous_all.

(* `item` as the variable of an iteration context (formerly the known finding item-iteration-variable, repaired in /repo): with `item` among
   the scope keys the tree for item in b return (c in d) meets every side condition of C06_text_roundtrip_min_all.  With consume_name as it
   was (lex_b_orig / parse_text_all_orig: the same model over Lexer.name_token_orig, which returns `item` before it looks at till_in and
   leaves the flag set) its text `for item in b return c in d ` was lexed as for, item, in, the NAME `b return c`, in, d (the next name with
   an `in` among its parts is cut there) and had no tree: the real parser reported a syntax error.  The repaired lexer clears the flag in
   the `item` branch and the text parses back to the tree *)
Theorem C06_text_item_variable_orig_refuted :
  keys_ok ExtTextTrees.keys_item = true /\ eflag_ok false (erender_min ExtTextTrees.etree_item) = true /\
  forallb (names_all ExtTextTrees.keys_item) (erender_min ExtTextTrees.etree_item) = true /\
  eparse_tokens (erender_min ExtTextTrees.etree_item) = Some ExtTextTrees.etree_item /\
  unlex (econc_all ExtTextTrees.keys_item ExtTextTrees.enc_item (erender_min ExtTextTrees.etree_item)) =
    [102; 111; 114; 32; 105; 116; 101; 109; 32; 105; 110; 32; 98; 32; 114; 101; 116; 117; 114; 110; 32; 99; 32; 105; 110; 32; 100; 32]%N /\
  lex_b_orig ExtTextTrees.keys_item (unlex (econc_all ExtTextTrees.keys_item ExtTextTrees.enc_item (erender_min ExtTextTrees.etree_item))) =
    Some [LKw KFor; LName NM.str_item; LKw KIn; LName [98; 32; 114; 101; 116; 117; 114; 110; 32; 99]; LKw KIn; LName [100]]%N /\
  parse_text_all_orig ExtTextTrees.keys_item ExtTextTrees.dec_item (unlex (econc_all ExtTextTrees.keys_item ExtTextTrees.enc_item (erender_min ExtTextTrees.etree_item))) = None /\
  lex_b ExtTextTrees.keys_item (unlex (econc_all ExtTextTrees.keys_item ExtTextTrees.enc_item (erender_min ExtTextTrees.etree_item))) =
    Some [LKw KFor; LName NM.str_item; LKw KIn; LName [98]; LKw KReturn; LName [99]; LKw KIn; LName [100]]%N /\
  parse_text_all ExtTextTrees.keys_item ExtTextTrees.dec_item (unlex (econc_all ExtTextTrees.keys_item ExtTextTrees.enc_item (erender_min ExtTextTrees.etree_item))) = Some ExtTextTrees.etree_item.
Proof. exact ExtTextTrees.text_item_witness. Qed.
Print Assumptions C06_text_item_variable_orig_refuted.
