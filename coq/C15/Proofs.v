(* C15 — proofs.  All statements are for every input (no range or size bound) unless a range is a hypothesis. *)
From Coq Require Import ZArith Bool List Lia.
From DV Require Import Base.Calendar Base.CalendarProofs C15.Model.
Import ListNotations.
Open Scope Z_scope.

(* ---------------- validity ---------------- *)
Lemma chrono_in_feel : forall y, chrono_year y = true -> feel_year y = true.
Proof. intros y. unfold chrono_year, feel_year. rewrite !andb_true_iff, !Z.leb_le. lia. Qed.

Lemma last_day_opt_valid : forall y m d,
  match last_day_opt y m with Some l => (1 <=? d) && (d <=? l) | None => false end = valid y m d.
Proof.
  intros y m d. unfold last_day_opt, valid.
  destruct (1 <=? m); destruct (m <=? 12); reflexivity.
Qed.

Theorem is_valid_date_spec : forall y m d, is_valid_date y m d = feel_date y m d.
Proof.
  intros y m d. unfold is_valid_date, feel_date, chrono_date. rewrite last_day_opt_valid.
  destruct (chrono_year y) eqn:C.
  - rewrite (chrono_in_feel y C). cbn. destruct (valid y m d); reflexivity.
  - reflexivity.
Qed.

Theorem is_valid_date_orig_refuted : is_valid_date_orig 2021 1 0 = true /\ valid 2021 1 0 = false.
Proof. vm_compute. split; reflexivity. Qed.

(* the day-0 hole of the original fallback needs a year outside chrono's range or ... any year: day 0 is never a chrono date *)
Theorem is_valid_date_orig_day0 : forall y m, feel_year y = true -> 1 <= m <= 12 -> is_valid_date_orig y m 0 = true.
Proof.
  intros y m Hy Hm. unfold is_valid_date_orig. rewrite Hy. unfold last_day_opt.
  replace (1 <=? m) with true by (symmetry; apply Z.leb_le; lia).
  replace (m <=? 12) with true by (symmetry; apply Z.leb_le; lia).
  cbn [andb]. pose proof (last_day_range y m Hm).
  replace (0 <=? last_day y m) with true by (symmetry; apply Z.leb_le; lia).
  apply orb_true_r.
Qed.

(* ---------------- date from numbers ---------------- *)
Lemma round_he10_bounds : forall n, n / 10 <= round_he10 n <= n / 10 + 1.
Proof.
  intros n. unfold round_he10.
  destruct (n mod 10 <? 5); [lia|]. destruct (5 <? n mod 10); [lia|]. destruct (Z.even (n / 10)); lia.
Qed.

Lemma round_he10_exact_up : forall n, round_he10 n = n / 10 + 1 -> 5 <= n mod 10.
Proof.
  intros n. unfold round_he10.
  destruct (Z.ltb_spec (n mod 10) 5); [lia|]. lia.
Qed.

Lemma to_i32_id : forall z, -2147483648 <= z <= 2147483647 -> to_i32 z = z.
Proof.
  intros z H. unfold to_i32.
  replace (-2147483648 <=? z) with true by (symmetry; apply Z.leb_le; lia).
  replace (z <=? 2147483647) with true by (symmetry; apply Z.leb_le; lia). reflexivity.
Qed.

Lemma to_u8_id : forall z, 0 <= z <= 255 -> to_u8 z = z.
Proof.
  intros z H. unfold to_u8, to_u32.
  replace (0 <=? z) with true by (symmetry; apply Z.leb_le; lia).
  replace (z <=? 4294967295) with true by (symmetry; apply Z.leb_le; lia).
  cbn [andb]. apply Z.mod_small. lia.
Qed.

Lemma feel_date_false_year : forall y m d, ~ (-999999999 <= y <= 999999999) -> feel_date y m d = false.
Proof.
  intros y m d H. unfold feel_date, feel_year.
  destruct (Z.leb_spec (-999999999) y); destruct (Z.leb_spec y 999999999); cbn; try reflexivity. lia.
Qed.

Lemma feel_date_false_month : forall y m d, 13 <= m -> feel_date y m d = false.
Proof.
  intros y m d H. unfold feel_date, valid.
  replace (m <=? 12) with false by (symmetry; apply Z.leb_gt; lia).
  rewrite !andb_false_r. reflexivity.
Qed.

Lemma feel_date_false_day : forall y m d, 32 <= d -> feel_date y m d = false.
Proof.
  intros y m d H. unfold feel_date.
  destruct (valid y m d) eqn:V; [|apply andb_false_r].
  apply valid_iff in V. destruct V as [Hm Hd]. pose proof (last_day_range y m Hm). lia.
Qed.

Theorem date_from_numbers_correct : forall y m d, date_from_numbers y m d = date_from_numbers_spec y m d.
Proof.
  intros y m d. unfold date_from_numbers, date_from_numbers_spec, from_numbers_body.
  pose proof (round_he10_bounds y) as By. pose proof (round_he10_bounds m) as Bm. pose proof (round_he10_bounds d) as Bd.
  destruct (Z.ltb_spec (-10000000000) y) as [Hy1|Hy1]; cbn [andb].
  2:{ rewrite feel_date_false_year; [rewrite !andb_false_r; reflexivity|].
      intros [A _]. unfold round_he10 in A.
      destruct (Z.ltb_spec (y mod 10) 5); [Z.div_mod_to_equations; lia|].
      destruct (Z.ltb_spec 5 (y mod 10)); [Z.div_mod_to_equations; lia|].
      destruct (Z.even (y / 10)); Z.div_mod_to_equations; lia. }
  destruct (Z.ltb_spec y 10000000000) as [Hy2|Hy2]; cbn [andb].
  2:{ rewrite feel_date_false_year; [rewrite !andb_false_r; reflexivity|].
      intros [_ A]. assert (1000000000 <= y / 10) by (Z.div_mod_to_equations; lia). lia. }
  destruct (Z.ltb_spec m 130) as [Hm|Hm]; cbn [andb].
  2:{ rewrite feel_date_false_month; [rewrite !andb_false_r; reflexivity|]. Z.div_mod_to_equations. lia. }
  destruct (Z.ltb_spec d 320) as [Hd|Hd]; cbn [andb].
  2:{ rewrite feel_date_false_day; [rewrite !andb_false_r; reflexivity|]. Z.div_mod_to_equations. lia. }
  destruct (Z.ltb_spec 0 m) as [Pm|Pm]; cbn [andb]; [|reflexivity].
  destruct (Z.ltb_spec 0 d) as [Pd|Pd]; cbn [andb]; [|reflexivity].
  rewrite to_i32_id by (Z.div_mod_to_equations; lia).
  rewrite (to_u8_id (round_he10 m)) by (Z.div_mod_to_equations; lia).
  rewrite (to_u8_id (round_he10 d)) by (Z.div_mod_to_equations; lia).
  rewrite is_valid_date_spec. reflexivity.
Qed.

Theorem date_from_numbers_rejects : forall y m d yy mm dd,
  date_from_numbers y m d = Some (yy, mm, dd) ->
  yy = round_he10 y /\ mm = round_he10 m /\ dd = round_he10 d /\
  -999999999 <= yy <= 999999999 /\ 1 <= mm <= 12 /\ 1 <= dd <= last_day yy mm.
Proof.
  intros y m d yy mm dd H. rewrite date_from_numbers_correct in H. unfold date_from_numbers_spec in H.
  destruct ((0 <? m) && (0 <? d) && feel_date (round_he10 y) (round_he10 m) (round_he10 d)) eqn:E; [|discriminate].
  injection H as <- <- <-. apply andb_true_iff in E. destruct E as [_ E].
  unfold feel_date in E. apply andb_true_iff in E. destruct E as [Ey Ev].
  apply valid_iff in Ev. unfold feel_year in Ey. apply andb_true_iff in Ey. rewrite !Z.leb_le in Ey. lia.
Qed.

(* date(2021, 257, 1) was 2021-01-01; date(99999999999, 2, 3) was 0000-02-03 *)
Theorem date_from_numbers_orig_refuted :
  date_from_numbers_orig 20210 2570 10 = Some (2021, 1, 1) /\ date_from_numbers_spec 20210 2570 10 = None /\
  date_from_numbers_orig 999999999990 20 30 = Some (0, 2, 3) /\ date_from_numbers_spec 999999999990 20 30 = None.
Proof. vm_compute. repeat split; reflexivity. Qed.

(* ---------------- ordering ---------------- *)
Theorem date_order_is_day_order : forall a b, valid3 a = true -> valid3 b = true ->
  date_partial_cmp a b = Some (days3 a ?= days3 b).
Proof. intros a b Ha Hb. unfold date_partial_cmp. rewrite (days_monotone a b Ha Hb). reflexivity. Qed.

Lemma date_eqb_eq : forall a b, date_eqb a b = true <-> a = b.
Proof.
  intros [[y1 m1] d1] [[y2 m2] d2]. cbn [date_eqb]. rewrite !andb_true_iff, !Z.eqb_eq.
  split; [intros [[-> ->] ->]; reflexivity | intros H; injection H; auto].
Qed.

Lemma cmp3_refl : forall a, cmp3 a a = Eq.
Proof. intros [[y m] d]. cbn [cmp3]. rewrite !Z.compare_refl. reflexivity. Qed.

Lemma cmp3_antisym : forall a b, cmp3 b a = CompOpp (cmp3 a b).
Proof.
  intros [[y1 m1] d1] [[y2 m2] d2]. cbn [cmp3].
  rewrite (Z.compare_antisym y1 y2), (Z.compare_antisym m1 m2), (Z.compare_antisym d1 d2).
  destruct (y1 ?= y2); cbn; try reflexivity. destruct (m1 ?= m2); cbn; reflexivity.
Qed.

(* the original comparison is right inside chrono's year range ... *)
Theorem date_partial_cmp_orig_in_range : forall a b, chrono_date3 a = true -> chrono_date3 b = true ->
  date_partial_cmp_orig a b = Some (cmp3 a b).
Proof.
  intros a b Ca Cb. unfold date_partial_cmp_orig, date_compare_chrono. rewrite Ca, Cb. cbn [andb].
  assert (Va : valid3 a = true) by (destruct a as [[y m] d]; cbn in *; apply andb_true_iff in Ca; tauto).
  assert (Vb : valid3 b = true) by (destruct b as [[y m] d]; cbn in *; apply andb_true_iff in Cb; tauto).
  rewrite <- (days_monotone a b Va Vb).
  destruct (date_eqb a b) eqn:E.
  - apply date_eqb_eq in E. subst b. rewrite cmp3_refl. reflexivity.
  - destruct (cmp3 a b) eqn:C; try reflexivity.
    apply cmp3_eq in C. apply date_eqb_eq in C. congruence.
Qed.

(* ... and wrong outside it: two valid FEEL dates, the first earlier, `<` false both ways *)
Theorem date_partial_cmp_orig_refuted :
  let a := (999999999, 1, 1) in let b := (999999999, 1, 2) in
  feel_date 999999999 1 1 = true /\ feel_date 999999999 1 2 = true /\ cmp3 a b = Lt /\
  lt_of (date_partial_cmp_orig a b) = false /\ gt_of (date_partial_cmp_orig b a) = false.
Proof. vm_compute. repeat split; reflexivity. Qed.

Theorem date_order_total : forall a b,
  lt_of (date_partial_cmp a b) = negb (ge_of (date_partial_cmp a b)) /\
  le_of (date_partial_cmp a b) = negb (gt_of (date_partial_cmp a b)) /\
  lt_of (date_partial_cmp a b) = gt_of (date_partial_cmp b a).
Proof.
  intros a b. unfold date_partial_cmp. rewrite (cmp3_antisym a b). destruct (cmp3 a b); cbn; auto.
Qed.

(* ---------------- weekday ---------------- *)
Theorem weekday_orig_in_range : forall a, chrono_date3 a = true -> weekday_orig a = weekday_spec a.
Proof. intros [[y m] d] C. cbn in *. rewrite C. reflexivity. Qed.

Theorem weekday_orig_refuted : feel_date 999999999 1 1 = true /\ weekday_orig (999999999, 1, 1) = None.
Proof. vm_compute. split; reflexivity. Qed.

(* the fixed weekday: the day number computed by the code is the calendar's, for every year *)
Lemma days_impl_period : forall y m d k, days_impl (y + 400 * k, m, d) = days_impl (y, m, d) + 146097 * k.
Proof.
  intros y m d k. unfold days_impl.
  set (c := if m <=? 2 then 1 else 0).
  replace ((y + 400 * k - c) / 400) with ((y - c) / 400 + k) by (Z.div_mod_to_equations; lia).
  replace (y + 400 * k - c - ((y - c) / 400 + k) * 400) with (y - c - (y - c) / 400 * 400) by lia.
  lia.
Qed.

Definition days_impl_check (y : Z) : bool :=
  forallb (fun m => forallb (fun d => negb (valid y m d) || (days_impl (y, m, d) =? days_from_civil y m d)) (zrange 1 31)) (zrange 1 12).

Lemma days_impl_sweep : forallb days_impl_check (zrange 0 400) = true.
Proof. vm_compute. reflexivity. Qed.

Theorem days_impl_correct : forall y m d, valid y m d = true -> days_impl (y, m, d) = days_from_civil y m d.
Proof.
  intros y m d V. pose proof V as V0. apply valid_iff in V. destruct V as [Hm Hd]. pose proof (last_day_range y m Hm).
  assert (E : y = y mod 400 + 400 * (y / 400)) by (Z.div_mod_to_equations; lia).
  rewrite E. rewrite days_impl_period, days_period.
  assert (V1 : valid (y mod 400) m d = true) by (rewrite E in V0; rewrite valid_period in V0; exact V0).
  pose proof days_impl_sweep as W. rewrite forallb_forall in W.
  specialize (W (y mod 400)). rewrite zrange_In in W.
  assert (R : 0 <= y mod 400 < 0 + Z.of_nat 400) by (Z.div_mod_to_equations; lia). specialize (W R).
  unfold days_impl_check in W. rewrite forallb_forall in W. specialize (W m). rewrite zrange_In in W.
  assert (Rm : 1 <= m < 1 + Z.of_nat 12) by lia. specialize (W Rm).
  rewrite forallb_forall in W. specialize (W d). rewrite zrange_In in W.
  assert (Rd : 1 <= d < 1 + Z.of_nat 31) by lia. specialize (W Rd).
  rewrite V1 in W. cbn [negb orb] in W. apply Z.eqb_eq in W. rewrite W. reflexivity.
Qed.

Theorem weekday_impl_correct : forall a, valid3 a = true -> weekday_impl a = weekday_spec a.
Proof.
  intros [[y m] d] V. cbn [valid3] in V. unfold weekday_impl, weekday_spec, weekday, weekday_of_days.
  rewrite (days_impl_correct y m d V). reflexivity.
Qed.

Theorem weekday_consecutive : forall y m d, weekday_of_days (days_from_civil y m d + 1) = weekday y m d mod 7 + 1.
Proof. intros. unfold weekday. apply weekday_next. Qed.

(* ---------------- whole months ---------------- *)
Theorem ym_duration_correct : forall from to, ym_duration to from = months_between from to.
Proof.
  intros [[fy fm] fd] [[ty tm] td]. unfold ym_duration, months_between.
  rewrite (cmp3_antisym (fy, fm, fd) (ty, tm, td)).
  destruct (cmp3 (fy, fm, fd) (ty, tm, td)); cbn [CompOpp]; unfold whole_months, month_index, day_of;
    destruct (td <? fd); destruct (fd <? td); lia.
Qed.

Lemma cmp3_le_index : forall a b, valid3 a = true -> valid3 b = true -> cmp3 a b <> Gt ->
  md_le (month_index a) (day_of a) (month_index b) (day_of b).
Proof.
  intros [[y1 m1] d1] [[y2 m2] d2] Va Vb C. cbn [valid3] in Va, Vb.
  apply valid_iff in Va. apply valid_iff in Vb. unfold md_le, month_index, day_of. cbn [cmp3] in C.
  destruct (Z.compare_spec y1 y2) as [Hy|Hy|Hy]; [subst y2| lia | congruence].
  destruct (Z.compare_spec m1 m2) as [Hm|Hm|Hm]; [subst m2| lia | congruence].
  destruct (Z.compare_spec d1 d2) as [Hd|Hd|Hd]; [lia | lia | congruence].
Qed.

(* whole_months a b is the unique k >= 0 such that a shifted by k months is not after b and a shifted by k+1 months is *)
Theorem months_between_spec : forall a b, valid3 a = true -> valid3 b = true -> cmp3 a b <> Gt ->
  let k := months_between a b in
  0 <= k /\
  md_le (month_index a + k) (day_of a) (month_index b) (day_of b) /\
  md_lt (month_index b) (day_of b) (month_index a + k + 1) (day_of a) /\
  (forall k', md_le (month_index a + k') (day_of a) (month_index b) (day_of b) ->
              md_lt (month_index b) (day_of b) (month_index a + k' + 1) (day_of a) -> k' = k).
Proof.
  intros a b Va Vb C. pose proof (cmp3_le_index a b Va Vb C) as L.
  unfold months_between. destruct (cmp3 a b) eqn:E; try congruence;
    cbv zeta; unfold whole_months, md_le, md_lt in *;
    destruct (Z.ltb_spec (day_of b) (day_of a)); repeat split; try lia.
Qed.

Theorem months_between_antisym : forall a b, months_between b a = - months_between a b.
Proof.
  intros a b. unfold months_between. rewrite (cmp3_antisym a b).
  destruct (cmp3 a b) eqn:E; cbn [CompOpp]; try lia.
  apply cmp3_eq in E. subst b. unfold whole_months. destruct (day_of a <? day_of a) eqn:F; [apply Z.ltb_lt in F|]; lia.
Qed.

(* years and months duration(date("2020-03-01"), date("2020-01-31")) was -P2M *)
Theorem ym_duration_orig_refuted :
  ym_duration_orig d_2020_01_31 d_2020_03_01 = -2 /\ months_between d_2020_03_01 d_2020_01_31 = -1 /\
  ym_duration_orig (2020, 3, 1) (2020, 3, 15) = -1 /\ months_between (2020, 3, 15) (2020, 3, 1) = 0.
Proof. vm_compute. repeat split; reflexivity. Qed.

(* ---------------- date-times ---------------- *)
Theorem dt_compare_impl_instants : forall a b c, dt_compare_impl a b = Some c -> c = (instant a ?= instant b).
Proof. intros a b c. unfold dt_compare_impl. destruct (chrono_dt a && chrono_dt b); congruence. Qed.

Theorem dt_compare_impl_defined : forall a b, chrono_dt a = true -> chrono_dt b = true ->
  dt_compare_impl a b = Some (instant a ?= instant b).
Proof. intros a b Ha Hb. unfold dt_compare_impl. rewrite Ha, Hb. reflexivity. Qed.

Theorem instant_sub_exact : forall a b,
  dt_subtract_spec a b =
  (days3 (dt_date a) - days3 (dt_date b)) * DAY_NS + (tod_ns a - tod_ns b) - (dt_off a - dt_off b) * NS.
Proof. intros a b. unfold dt_subtract_spec, instant, DAY_NS. ring. Qed.

Theorem dt_subtract_impl_exact : forall a b n, dt_subtract_impl a b = Some n -> n = dt_subtract_spec a b.
Proof.
  intros a b n. unfold dt_subtract_impl, dt_subtract_spec.
  destruct (chrono_dt a && chrono_dt b); [|discriminate].
  destruct (fits_i64 (instant a - instant b)); congruence.
Qed.

Theorem dt_subtract_impl_defined : forall a b, chrono_dt a = true -> chrono_dt b = true ->
  fits_i64 (dt_subtract_spec a b) = true -> dt_subtract_impl a b = Some (dt_subtract_spec a b).
Proof. intros a b Ha Hb F. unfold dt_subtract_impl, dt_subtract_spec in *. rewrite Ha, Hb, F. reflexivity. Qed.

Theorem dt_compare_subtract : forall a b, chrono_dt a = true -> chrono_dt b = true ->
  dt_compare_impl a b = Some (instant a ?= instant b) /\
  (fits_i64 (dt_subtract_spec a b) = true -> dt_subtract_impl a b = Some (dt_subtract_spec a b)) /\
  (forall n, dt_subtract_impl a b = Some n -> n = dt_subtract_spec a b).
Proof.
  intros a b Ha Hb. split; [exact (dt_compare_impl_defined a b Ha Hb)|].
  split; [exact (dt_subtract_impl_defined a b Ha Hb) | exact (dt_subtract_impl_exact a b)].
Qed.

Lemma tod_range : forall x, valid_tod x = true -> 0 <= tod_ns x < DAY_NS.
Proof.
  intros x H. unfold valid_tod in H. rewrite !andb_true_iff, !Z.leb_le, !Z.ltb_lt in H.
  unfold tod_ns, DAY_NS, NS in *. lia.
Qed.

(* with equal offsets the time line orders date-times as (date, time of day) pairs *)
Theorem instant_order_same_offset : forall a b, valid3 (dt_date a) = true -> valid3 (dt_date b) = true ->
  valid_tod a = true -> valid_tod b = true -> dt_off a = dt_off b ->
  (instant a ?= instant b) =
  match cmp3 (dt_date a) (dt_date b) with Eq => tod_ns a ?= tod_ns b | c => c end.
Proof.
  intros a b Va Vb Ta Tb O. rewrite (days_monotone _ _ Va Vb).
  pose proof (tod_range a Ta). pose proof (tod_range b Tb). unfold instant. rewrite O.
  fold DAY_NS.
  destruct (Z.compare_spec (days3 (dt_date a)) (days3 (dt_date b))) as [E|E|E].
  - rewrite E. destruct (Z.compare_spec (tod_ns a) (tod_ns b));
      [apply Z.compare_eq_iff | apply Z.compare_lt_iff | apply Z.compare_gt_iff]; lia.
  - apply Z.compare_lt_iff. unfold DAY_NS, NS in *. nia.
  - apply Z.compare_gt_iff. unfold DAY_NS, NS in *. nia.
Qed.

(* moving the offset east by k seconds moves the instant back by k seconds *)
Theorem instant_offset_shift : forall dte h mi s ns off k,
  instant {| dt_date := dte; dt_h := h; dt_mi := mi; dt_s := s; dt_ns := ns; dt_off := off + k |} =
  instant {| dt_date := dte; dt_h := h; dt_mi := mi; dt_s := s; dt_ns := ns; dt_off := off |} - k * NS.
Proof. intros. unfold instant, tod_ns. cbn. ring. Qed.

(* differences of more than about 292 years do not fit chrono's num_nanoseconds *)
Theorem dt_subtract_impl_refuted :
  let a := {| dt_date := (2400, 1, 1); dt_h := 0; dt_mi := 0; dt_s := 0; dt_ns := 0; dt_off := 0 |} in
  let b := {| dt_date := (2000, 1, 1); dt_h := 0; dt_mi := 0; dt_s := 0; dt_ns := 0; dt_off := 0 |} in
  chrono_dt a = true /\ chrono_dt b = true /\ dt_subtract_impl a b = None /\ dt_subtract_spec a b = 146097 * DAY_NS.
Proof. vm_compute. repeat split; reflexivity. Qed.

(* ---------------- durations ---------------- *)
Theorem dtd_components : forall n,
  dtd_days n * DAY_NS + dtd_hours n * HOUR_NS + dtd_minutes n * MIN_NS + dtd_seconds n * NS + dtd_subsec n = Z.abs n /\
  0 <= dtd_days n /\ 0 <= dtd_hours n < 24 /\ 0 <= dtd_minutes n < 60 /\ 0 <= dtd_seconds n < 60 /\ 0 <= dtd_subsec n < NS.
Proof.
  intros n. unfold dtd_days, dtd_hours, dtd_minutes, dtd_seconds, dtd_subsec, DAY_NS, HOUR_NS, MIN_NS, NS.
  pose proof (Z.abs_nonneg n). generalize dependent (Z.abs n). intros a Ha.
  Z.div_mod_to_equations. lia.
Qed.

Theorem dtd_components_neg : forall n, dtd_days (- n) = dtd_days n /\ dtd_hours (- n) = dtd_hours n /\
  dtd_minutes (- n) = dtd_minutes n /\ dtd_seconds (- n) = dtd_seconds n.
Proof. intros n. unfold dtd_days, dtd_hours, dtd_minutes, dtd_seconds. rewrite Z.abs_opp. auto. Qed.

Theorem ymd_components : forall n,
  12 * ymd_years n + ymd_months n = n /\ -12 < ymd_months n < 12 /\
  (0 <= n -> 0 <= ymd_years n /\ 0 <= ymd_months n) /\ (n <= 0 -> ymd_years n <= 0 /\ ymd_months n <= 0).
Proof.
  intros n. unfold ymd_years, ymd_months. Z.quot_rem_to_equations. lia.
Qed.

(* ---------------- non-vacuity ---------------- *)
Example model_nonvacuous :
  civil_from_days (days_from_civil 2024 2 29) = (2024, 2, 29) /\ weekday 2024 2 29 = 4 /\
  days_from_civil (-1) 12 31 + 1 = days_from_civil 0 1 1 /\
  date_from_numbers 20240 20 290 = Some (2024, 2, 29) /\ date_from_numbers 20230 20 290 = None /\
  months_between (2020, 1, 31) (2020, 3, 1) = 1 /\ ym_duration (2020, 1, 31) (2020, 3, 1) = -1 /\
  dtd_days (-129600000000000) = 1 /\ dtd_hours (-129600000000000) = 12 /\ ymd_years (-14) = -1 /\ ymd_months (-14) = -2.
Proof. vm_compute. repeat split; reflexivity. Qed.
