(* C06 — the pushdown of C06.LexBind on the renderings of the extended Spec: for EVERY tree, in both renderings, it expects a binding
   exactly in front of every binding, is inside a parameter list exactly at the formal parameters, and sets type_name exactly behind
   the colon of a typed formal parameter (etrack_ok).  One lemma per construct on arbitrary operand token lists (OperandOK: a
   token list that leaves the pushdown where it found it), then two structural inductions.  Owner: prover-C06-binders. *)
From Coq Require Import List NArith Bool Arith Lia.
From DV Require Import C06.Model C06.ModelExt C06.Lexer C06.LexBind C06.ExtLex C06.ExtLexAll C06.ExtBase.
From DV Require C06.ExtRound C06.ExtFull.
Import ListNotations.

Notation mk s q := {| t_stk := s; t_q := q; t_pf := false; t_wb := false; t_wt := false |}.
Notation mkb s := {| t_stk := s; t_q := QIdle; t_pf := false; t_wb := true; t_wt := false |}.

(* what follows an operand: no atom, key, binding or parameter (a continuing token, a closing token, a separator, a keyword) *)
Definition tail_ok (rest : list etok) : bool :=
  match rest with XAtom _ :: _ | XKey _ :: _ | XBind _ :: _ | XPar _ _ :: _ => false | _ => true end.
Definition nell (rest : list etok) : bool := match rest with XEll :: _ => false | _ => true end.
(* an operand begins in the idle phase or right behind an opening bracket; there, if it is a single atom, no `..` follows *)
Definition okq (q : rq) (rest : list etok) : bool := match q with QIdle => true | QOp1 => nell rest | _ => false end.

Definition OperandOK (ts : list etok) : Prop := forall s q rest, is_par s = false -> tail_ok rest = true -> okq q rest = true ->
  etrack_ok (mk s q) (ts ++ rest) = etrack_ok (mk s QIdle) rest.

Ltac tstep := cbn [etrack_ok ek_ok estep eclass fold_left cstep settle normal t_stk t_q t_pf t_wb t_wt is_hdr is_par negb andb orb tl app].
Ltac norm_app := cbn [app]; repeat (rewrite <- app_assoc; cbn [app]).

(* ------------------------------------------------------------------ the phases an operand can end in *)

Lemma post_op2 : forall s rest, tail_ok rest = true -> nell rest = true -> etrack_ok (mk s QOp2) rest = etrack_ok (mk s QIdle) rest.
Proof. intros s [|c r] Ht Hn; [reflexivity|]. destruct c; try discriminate Ht; try discriminate Hn; reflexivity. Qed.

Lemma post_rb1 : forall s rest, tail_ok rest = true -> etrack_ok (mk (FBrk :: s) QRb1) rest = etrack_ok (mk s QIdle) rest.
Proof. intros s [|c r] Ht; [reflexivity|]. destruct c; try discriminate Ht; reflexivity. Qed.

Lemma okq_cases : forall q rest, okq q rest = true -> q = QIdle \/ (q = QOp1 /\ nell rest = true).
Proof. intros q rest H. destruct q; try discriminate H; [left; reflexivity|right; split; [reflexivity|exact H]]. Qed.

(* using an operand in front of a concrete token *)
Lemma use_op : forall ts, OperandOK ts -> forall s q c rest, is_par s = false -> tail_ok (c :: rest) = true -> nell (c :: rest) = true ->
  (q = QIdle \/ q = QOp1) -> etrack_ok (mk s q) (ts ++ c :: rest) = etrack_ok (mk s QIdle) (c :: rest).
Proof. intros ts H s q c rest Hp Ht Hn [-> | ->]; apply H; first [assumption|reflexivity]. Qed.

Lemma okq_q : forall q rest, okq q rest = true -> q = QIdle \/ q = QOp1.
Proof. intros q rest H. destruct q; try discriminate H; auto. Qed.

(* ------------------------------------------------------------------ one lemma per construct *)

Lemma op_atom : forall a, OperandOK [XAtom a].
Proof.
  intros a s q rest Hp Ht Hq. cbn [app]. destruct (okq_cases _ _ Hq) as [-> | [-> Hn]]; tstep; rewrite Hp; cbn [negb andb].
  - reflexivity.
  - apply post_op2; assumption.
Qed.

Lemma op_paren : forall X, OperandOK X -> OperandOK (XLp :: X ++ [XRp]).
Proof.
  intros X HX s q rest Hp Ht Hq. norm_app. destruct (okq_q _ _ Hq) as [-> | ->]; tstep;
    rewrite (HX (FBrk :: s) QOp1 (XRp :: rest)) by reflexivity; tstep; reflexivity.
Qed.

Lemma op_bin : forall o L R, OperandOK L -> OperandOK R -> OperandOK (L ++ XOp o :: R).
Proof.
  intros o L R HL HR s q rest Hp Ht Hq. norm_app.
  rewrite (use_op L HL s q (XOp o)) by (assumption || reflexivity || (eapply okq_q; eassumption)).
  tstep. apply HR; [assumption|assumption|reflexivity].
Qed.

Lemma op_neg : forall X, OperandOK X -> OperandOK (XOp Sub :: X).
Proof.
  intros X HX s q rest Hp Ht Hq. cbn [app]. destruct (okq_q _ _ Hq) as [-> | ->]; tstep; apply HX; (assumption || reflexivity).
Qed.

Lemma op_btw : forall X LO HI, OperandOK X -> OperandOK LO -> OperandOK HI -> OperandOK (X ++ XBetween :: LO ++ XBand :: HI).
Proof.
  intros X LO HI HX HLO HHI s q rest Hp Ht Hq. norm_app.
  rewrite (use_op X HX s q XBetween) by (assumption || reflexivity || (eapply okq_q; eassumption)). tstep.
  rewrite (use_op LO HLO s QIdle XBand) by (assumption || reflexivity || (left; reflexivity)). tstep.
  apply HHI; [assumption|assumption|reflexivity].
Qed.

Lemma op_inst : forall X ty, OperandOK X -> OperandOK (X ++ [XInst ty]).
Proof.
  intros X ty HX s q rest Hp Ht Hq. norm_app.
  rewrite (use_op X HX s q (XInst ty)) by (assumption || reflexivity || (eapply okq_q; eassumption)). tstep. reflexivity.
Qed.

Lemma op_path : forall X n, OperandOK X -> OperandOK (X ++ [XDot n]).
Proof.
  intros X n HX s q rest Hp Ht Hq. norm_app.
  rewrite (use_op X HX s q (XDot n)) by (assumption || reflexivity || (eapply okq_q; eassumption)). tstep. reflexivity.
Qed.

Lemma op_filt : forall X I, OperandOK X -> OperandOK I -> OperandOK (X ++ XLb :: I ++ [XRb]).
Proof.
  intros X I HX HI s q rest Hp Ht Hq. norm_app.
  rewrite (use_op X HX s q XLb) by (assumption || reflexivity || (eapply okq_q; eassumption)). tstep.
  rewrite (HI (FBrk :: s) QOp1 (XRb :: rest)) by reflexivity. tstep. apply post_rb1. exact Ht.
Qed.

(* comma-separated operands inside brackets *)
Lemma seq_tail : forall r s rest, Forall OperandOK r -> tail_ok rest = true ->
  etrack_ok (mk (FBrk :: s) QIdle) (flat_map (fun y => XComma :: y) r ++ rest) = etrack_ok (mk (FBrk :: s) QIdle) rest.
Proof.
  induction r as [|y r IH]; intros s rest HF Ht; [reflexivity|]. inversion HF as [|? ? Hy Hr]; subst.
  cbn [flat_map]. norm_app. tstep. rewrite Hy; [apply IH; assumption|reflexivity| |reflexivity].
  destruct r; [exact Ht|reflexivity].
Qed.

Lemma seq_ok : forall x r s q rest, OperandOK x -> Forall OperandOK r -> tail_ok rest = true -> okq q rest = true ->
  etrack_ok (mk (FBrk :: s) q) (sepc (x :: r) ++ rest) = etrack_ok (mk (FBrk :: s) QIdle) rest.
Proof.
  intros x r s q rest Hx Hr Ht Hq. cbn [sepc]. rewrite <- app_assoc. rewrite Hx.
  - apply seq_tail; assumption.
  - reflexivity.
  - destruct r; [exact Ht|reflexivity].
  - destruct r; [exact Hq|]. cbn [flat_map app]. destruct q; try discriminate Hq; reflexivity.
Qed.

Lemma op_call : forall G ARGS, OperandOK G -> Forall OperandOK ARGS -> OperandOK (G ++ XLp :: sepc ARGS ++ [XRp]).
Proof.
  intros G ARGS HG HA s q rest Hp Ht Hq. norm_app.
  rewrite (use_op G HG s q XLp) by (assumption || reflexivity || (eapply okq_q; eassumption)). tstep.
  destruct ARGS as [|x r].
  - cbn [sepc app]. tstep. reflexivity.
  - inversion HA; subst. rewrite seq_ok by (assumption || reflexivity). tstep. reflexivity.
Qed.

Definition kv_toks (q : N * list etok) : list etok := XKey (fst q) :: snd q.

Lemma kv_item : forall k E, OperandOK E -> forall s q rest, tail_ok rest = true -> (q = QIdle \/ q = QOp1) ->
  etrack_ok (mk (FBrk :: s) q) ((XKey k :: E) ++ rest) = etrack_ok (mk (FBrk :: s) QIdle) rest.
Proof.
  intros k E HE s q rest Ht [-> | ->]; cbn [app]; tstep; apply HE; (assumption || reflexivity).
Qed.

Lemma kv_tail : forall r s rest, Forall (fun q => OperandOK (snd q)) r -> tail_ok rest = true ->
  etrack_ok (mk (FBrk :: s) QIdle) (flat_map (fun y => XComma :: y) (map kv_toks r) ++ rest) = etrack_ok (mk (FBrk :: s) QIdle) rest.
Proof.
  induction r as [|[k E] r IH]; intros s rest HF Ht; [reflexivity|]. inversion HF as [|? ? Hy Hr]; subst.
  cbn [map flat_map kv_toks fst snd]. norm_app. tstep. cbn [snd] in Hy.
  change (XKey k :: E ++ flat_map (fun y => XComma :: y) (map kv_toks r) ++ rest) with ((XKey k :: E) ++ flat_map (fun y => XComma :: y) (map kv_toks r) ++ rest).
  rewrite (kv_item k E Hy s QIdle); [apply IH; assumption| |left; reflexivity].
  destruct r; [exact Ht|reflexivity].
Qed.

Lemma kv_seq : forall x r s q rest, OperandOK (snd x) -> Forall (fun q => OperandOK (snd q)) r -> tail_ok rest = true -> (q = QIdle \/ q = QOp1) ->
  etrack_ok (mk (FBrk :: s) q) (sepc (map kv_toks (x :: r)) ++ rest) = etrack_ok (mk (FBrk :: s) QIdle) rest.
Proof.
  intros [k E] r s q rest Hx Hr Ht Hq. cbn [map sepc kv_toks fst snd]. rewrite <- app_assoc. cbn [snd] in Hx.
  rewrite (kv_item k E Hx s q); [apply kv_tail; assumption| |exact Hq].
  destruct r; [exact Ht|reflexivity].
Qed.

Lemma op_calln : forall G a ARGS, OperandOK G -> OperandOK (snd a) -> Forall (fun q => OperandOK (snd q)) ARGS ->
  OperandOK (G ++ XLp :: sepc (map kv_toks (a :: ARGS)) ++ [XRp]).
Proof.
  intros G a ARGS HG Ha HA s q rest Hp Ht Hq. norm_app.
  rewrite (use_op G HG s q XLp) by (assumption || reflexivity || (eapply okq_q; eassumption)). tstep.
  rewrite kv_seq by (assumption || reflexivity || (right; reflexivity)). tstep. reflexivity.
Qed.

Lemma op_if : forall C A B, OperandOK C -> OperandOK A -> OperandOK B -> OperandOK (XIf :: C ++ XThen :: A ++ XElse :: B).
Proof.
  intros C A B HC HA HB s q rest Hp Ht Hq. norm_app. destruct (okq_q _ _ Hq) as [-> | ->]; tstep.
  all: rewrite (use_op C HC s QIdle XThen) by (assumption || reflexivity || (left; reflexivity)); tstep.
  all: rewrite (use_op A HA s QIdle XElse) by (assumption || reflexivity || (left; reflexivity)); tstep.
  all: apply HB; [assumption|assumption|reflexivity].
Qed.

(* iteration contexts / quantified contexts: variable, domain, upper end *)
Definition dom_toks (d : N * list etok * option (list etok)) : list etok :=
  match d with
  | (v, E, Some E2) => XBind v :: E ++ XEll :: E2
  | (v, E, None) => XBind v :: E
  end.
Definition DomOK (d : N * list etok * option (list etok)) : Prop :=
  OperandOK (snd (fst d)) /\ match snd d with Some E2 => OperandOK E2 | None => True end.

Lemma dom_item : forall d, DomOK d -> forall s rest, is_par s = false -> tail_ok rest = true ->
  etrack_ok (mkb (FHdr :: s)) (dom_toks d ++ rest) = etrack_ok (mk (FHdr :: s) QIdle) rest.
Proof.
  intros [[v E] [E2|]] [HE HE2] s rest Hp Ht; cbn [fst snd] in *; cbn [dom_toks]; norm_app; tstep.
  - rewrite (HE (FHdr :: s) QIdle (XEll :: E2 ++ rest)) by reflexivity. tstep. apply HE2; (assumption || reflexivity).
  - apply HE; (assumption || reflexivity).
Qed.

Lemma dom_tail : forall r s rest, Forall DomOK r -> is_par s = false -> tail_ok rest = true ->
  etrack_ok (mk (FHdr :: s) QIdle) (flat_map (fun y => XComma :: y) (map dom_toks r) ++ rest) = etrack_ok (mk (FHdr :: s) QIdle) rest.
Proof.
  induction r as [|d r IH]; intros s rest HF Hp Ht; [reflexivity|]. inversion HF as [|? ? Hd Hr]; subst.
  cbn [map flat_map]. norm_app. tstep.
  rewrite (dom_item d Hd s); [apply IH; assumption|exact Hp|].
  destruct r; [exact Ht|reflexivity].
Qed.

Lemma dom_seq : forall d r s rest, DomOK d -> Forall DomOK r -> is_par s = false -> tail_ok rest = true ->
  etrack_ok (mkb (FHdr :: s)) (sepc (map dom_toks (d :: r)) ++ rest) = etrack_ok (mk (FHdr :: s) QIdle) rest.
Proof.
  intros d r s rest Hd Hr Hp Ht. cbn [map sepc]. rewrite <- app_assoc.
  rewrite (dom_item d Hd s); [apply dom_tail; assumption|exact Hp|].
  destruct r; [exact Ht|reflexivity].
Qed.

Lemma op_binder : forall kw sep d ds B, (kw = XFor \/ kw = XSome \/ kw = XEvery) -> (sep = XReturn \/ sep = XSatisfies) ->
  DomOK d -> Forall DomOK ds -> OperandOK B -> OperandOK (kw :: sepc (map dom_toks (d :: ds)) ++ sep :: B).
Proof.
  intros kw sep d ds B Hkw Hsep Hd Hds HB s q rest Hp Ht Hq. norm_app.
  assert (E1 : etrack_ok (mk s q) (kw :: sepc (map dom_toks (d :: ds)) ++ sep :: B ++ rest)
               = etrack_ok (mkb (FHdr :: s)) (sepc (map dom_toks (d :: ds)) ++ sep :: B ++ rest)).
  { destruct (okq_q _ _ Hq) as [-> | ->]; destruct Hkw as [-> | [-> | ->]]; tstep; reflexivity. }
  rewrite E1. rewrite dom_seq; try assumption; [|destruct Hsep as [-> | ->]; reflexivity].
  destruct Hsep as [-> | ->]; tstep; apply HB; (assumption || reflexivity).
Qed.

(* formal parameters *)
Lemma par_tail : forall ps s q rest, (q = QIdle \/ q = QOp2) ->
  etrack_ok (mk (FPar :: s) q) (flat_map (fun y => XComma :: y) (map par_tok ps) ++ XRp :: rest) = etrack_ok (mk s QIdle) rest.
Proof.
  induction ps as [|[n ty] ps IH]; intros s q rest Hq.
  - cbn [map flat_map app]. destruct Hq as [-> | ->]; tstep; reflexivity.
  - cbn [map flat_map]. unfold par_tok at 1. cbn [fst snd]. norm_app. destruct ty as [ty|]; destruct Hq as [-> | ->]; tstep; apply IH; auto.
Qed.

Lemma op_fun : forall ps B, OperandOK B -> OperandOK (XFun :: XLp :: sepc (map par_tok ps) ++ XRp :: B).
Proof.
  intros ps B HB s q rest Hp Ht Hq. norm_app. destruct ps as [|[n ty] ps].
  - cbn [map sepc app]. destruct (okq_q _ _ Hq) as [-> | ->]; tstep; apply HB; (assumption || reflexivity).
  - cbn [map sepc]. unfold par_tok at 1. cbn [fst snd]. norm_app.
    destruct ty as [ty|]; destruct (okq_q _ _ Hq) as [-> | ->]; tstep; rewrite par_tail by auto; apply HB; (assumption || reflexivity).
Qed.

Lemma op_list : forall ITEMS, Forall OperandOK ITEMS -> OperandOK (XLb :: sepc ITEMS ++ [XRb]).
Proof.
  intros ITEMS HI s q rest Hp Ht Hq. norm_app. destruct ITEMS as [|x r].
  - cbn [sepc app]. destruct (okq_q _ _ Hq) as [-> | ->]; tstep; apply post_rb1; exact Ht.
  - inversion HI; subst.
    assert (E1 : etrack_ok (mk s q) (XLb :: sepc (x :: r) ++ XRb :: rest) = etrack_ok (mk (FBrk :: s) QOp1) (sepc (x :: r) ++ XRb :: rest))
      by (destruct (okq_q _ _ Hq) as [-> | ->]; tstep; reflexivity).
    rewrite E1. rewrite seq_ok by (assumption || reflexivity). tstep. apply post_rb1. exact Ht.
Qed.

Lemma op_ctx : forall ENTRIES, Forall (fun q => OperandOK (snd q)) ENTRIES -> OperandOK (XLc :: sepc (map kv_toks ENTRIES) ++ [XRc]).
Proof.
  intros ENTRIES HE s q rest Hp Ht Hq. norm_app. destruct ENTRIES as [|x r].
  - cbn [map sepc app]. destruct (okq_q _ _ Hq) as [-> | ->]; tstep; reflexivity.
  - inversion HE; subst.
    assert (E1 : etrack_ok (mk s q) (XLc :: sepc (map kv_toks (x :: r)) ++ XRc :: rest) = etrack_ok (mk (FBrk :: s) QIdle) (sepc (map kv_toks (x :: r)) ++ XRc :: rest))
      by (destruct (okq_q _ _ Hq) as [-> | ->]; tstep; reflexivity).
    rewrite E1. rewrite kv_seq by (assumption || reflexivity || (left; reflexivity)). tstep. reflexivity.
Qed.

Lemma op_range : forall o a b c, OperandOK [ropen_tok o; XAtom a; XEll; XAtom b; rclose_tok c].
Proof.
  intros o a b c s q rest Hp Ht Hq. cbn [app].
  destruct (okq_q _ _ Hq) as [-> | ->]; destruct o, c; cbn [ropen_tok rclose_tok]; tstep; rewrite ?Hp; cbn [negb andb]; reflexivity.
Qed.

(* ------------------------------------------------------------------ the minimal rendering *)

Lemma sepc_map_kv : forall l, map ExtRound.kvr l = map kv_toks (map (fun q : N * etree => (fst q, rat 0 false (snd q))) l).
Proof. intros l. rewrite map_map. apply map_ext. intros [k e]. reflexivity. Qed.

Definition fd_of (q : N * etree * option etree) : N * list etok * option (list etok) :=
  match q with (v, e, o) => (v, rat 0 false e, match o with Some e2 => Some (rat 0 false e2) | None => None end) end.
Definition qd_of (q : N * etree) : N * list etok * option (list etok) := match q with (v, e) => (v, rat 0 false e, None) end.

Lemma map_fdr : forall l, map ExtRound.fdr l = map dom_toks (map fd_of l).
Proof. intros l. rewrite map_map. apply map_ext. intros [[v e] [e2|]]; reflexivity. Qed.

Lemma map_qdr : forall l, map ExtRound.qdr l = map dom_toks (map qd_of l).
Proof. intros l. rewrite map_map. apply map_ext. intros [v e]. reflexivity. Qed.

Definition PT (t : etree) : Prop := forall m f, OperandOK (rat m f t).

Lemma PT_of_body : forall t, (forall f, OperandOK (ExtRound.ebody f t)) -> PT t.
Proof. intros t H m f. rewrite ExtRound.rat_eq. destruct (paren m f t); [apply op_paren|]; apply H. Qed.

Lemma Forall_PT : forall l, Forall PT l -> Forall OperandOK (map (rat 0 false) l).
Proof. intros l H. induction H as [|x r Hx _ IH]; constructor; [apply Hx|exact IH]. Qed.

Lemma Forall_kv : forall l, Forall (Pkv PT) l -> Forall (fun q : N * list etok => OperandOK (snd q)) (map (fun q : N * etree => (fst q, rat 0 false (snd q))) l).
Proof. intros l H. induction H as [|[k e] r Hx _ IH]; constructor; [apply Hx|exact IH]. Qed.

Lemma Forall_fd : forall l, Forall (Pfd PT) l -> Forall DomOK (map fd_of l).
Proof.
  intros l H. induction H as [|[[v e] o] r [H1 H2] _ IH]; constructor; [|exact IH].
  cbn [fst snd] in *. split; [apply H1|]. destruct o as [e2|]; [apply H2|exact I].
Qed.

Lemma Forall_qd : forall l, Forall (Pkv PT) l -> Forall DomOK (map qd_of l).
Proof.
  intros l H. induction H as [|[v e] r Hx _ IH]; constructor; [|exact IH]. split; [apply Hx|exact I].
Qed.

Theorem track_rat : forall t, PT t.
Proof.
  induction t using etree_ind'; apply PT_of_body; intros f; cbn [ExtRound.ebody].
  - apply op_atom.
  - apply op_bin; [apply IHt1|apply IHt2].
  - apply op_neg. apply IHt.
  - apply op_btw; [apply IHt1|apply IHt2|apply IHt3].
  - apply op_inst. apply IHt.
  - apply op_path. apply IHt.
  - apply op_filt; [apply IHt1|apply IHt2].
  - apply op_call; [apply IHt|apply Forall_PT; exact H].
  - rewrite sepc_map_kv. cbn [map]. apply op_calln; [apply IHt|apply H|apply Forall_kv; exact H0].
  - apply op_if; [apply IHt1|apply IHt2|apply IHt3].
  - rewrite map_fdr. cbn [map]. apply op_binder; [left; reflexivity|left; reflexivity| | |apply IHt].
    + destruct d as [[v e] o]. destruct H as [H1 H2]. cbn [fst snd] in *. split; [apply H1|]. destruct o; [apply H2|exact I].
    + apply Forall_fd. exact H0.
  - rewrite map_qdr. cbn [map]. apply op_binder; [destruct q; [right; left|right; right]; reflexivity|right; reflexivity| | |apply IHt].
    + destruct d as [v e]. split; [apply H|exact I].
    + apply Forall_qd. exact H0.
  - apply op_fun. apply IHt.
  - apply op_list. apply Forall_PT. exact H.
  - rewrite sepc_map_kv. apply op_ctx. apply Forall_kv. exact H.
  - apply op_range.
Qed.

Theorem etrack_min : forall t, etrack_ok tstate0 (erender_min t) = true.
Proof.
  intros t. unfold erender_min. pose proof (track_rat t 0 false [] QIdle [] eq_refl eq_refl eq_refl) as H. rewrite app_nil_r in H. exact H.
Qed.

(* ------------------------------------------------------------------ the full rendering *)

Definition PF (t : etree) : Prop := OperandOK (rfull t).

Lemma epar_ok : forall x, PF x -> OperandOK (ExtFull.epar x).
Proof. intros x H. unfold ExtFull.epar. destruct (bare x); [exact H|apply op_paren; exact H]. Qed.

Definition ffd_of (q : N * etree * option etree) : N * list etok * option (list etok) :=
  match q with (v, e, o) => (v, ExtFull.epar e, match o with Some e2 => Some (ExtFull.epar e2) | None => None end) end.
Definition fqd_of (q : N * etree) : N * list etok * option (list etok) := match q with (v, e) => (v, ExtFull.epar e, None) end.

Lemma map_kvf : forall l, map ExtFull.kvf l = map kv_toks (map (fun q : N * etree => (fst q, ExtFull.epar (snd q))) l).
Proof. intros l. rewrite map_map. apply map_ext. intros [k e]. reflexivity. Qed.

Lemma map_fdf : forall l, map ExtFull.fdf l = map dom_toks (map ffd_of l).
Proof. intros l. rewrite map_map. apply map_ext. intros [[v e] [e2|]]; reflexivity. Qed.

Lemma map_qdf : forall l, map ExtFull.qdf l = map dom_toks (map fqd_of l).
Proof. intros l. rewrite map_map. apply map_ext. intros [v e]. reflexivity. Qed.

Lemma Forall_PF : forall l, Forall PF l -> Forall OperandOK (map ExtFull.epar l).
Proof. intros l H. induction H as [|x r Hx _ IH]; constructor; [apply epar_ok; exact Hx|exact IH]. Qed.

Lemma Forall_kvF : forall l, Forall (Pkv PF) l -> Forall (fun q : N * list etok => OperandOK (snd q)) (map (fun q : N * etree => (fst q, ExtFull.epar (snd q))) l).
Proof. intros l H. induction H as [|[k e] r Hx _ IH]; constructor; [apply epar_ok; exact Hx|exact IH]. Qed.

Lemma Forall_fdF : forall l, Forall (Pfd PF) l -> Forall DomOK (map ffd_of l).
Proof.
  intros l H. induction H as [|[[v e] o] r [H1 H2] _ IH]; constructor; [|exact IH].
  cbn [fst snd] in *. split; [apply epar_ok; exact H1|]. destruct o as [e2|]; [apply epar_ok; exact H2|exact I].
Qed.

Lemma Forall_qdF : forall l, Forall (Pkv PF) l -> Forall DomOK (map fqd_of l).
Proof.
  intros l H. induction H as [|[v e] r Hx _ IH]; constructor; [|exact IH]. split; [apply epar_ok; exact Hx|exact I].
Qed.

Theorem track_rfull : forall t, PF t.
Proof.
  induction t using etree_ind'; unfold PF; rewrite ExtFull.rfull_eq.
  - apply op_atom.
  - apply op_bin; apply epar_ok; assumption.
  - apply op_neg. apply epar_ok. assumption.
  - apply op_btw; apply epar_ok; assumption.
  - apply op_inst. apply epar_ok. assumption.
  - apply op_path. apply epar_ok. assumption.
  - apply op_filt; apply epar_ok; assumption.
  - apply op_call; [apply epar_ok; assumption|apply Forall_PF; exact H].
  - rewrite map_kvf. cbn [map]. apply op_calln; [apply epar_ok; assumption|apply epar_ok; apply H|apply Forall_kvF; exact H0].
  - apply op_if; apply epar_ok; assumption.
  - rewrite map_fdf. cbn [map]. apply op_binder; [left; reflexivity|left; reflexivity| | |apply epar_ok; assumption].
    + destruct d as [[v e] o]. destruct H as [H1 H2]. cbn [fst snd] in *. split; [apply epar_ok; exact H1|]. destruct o; [apply epar_ok; exact H2|exact I].
    + apply Forall_fdF. exact H0.
  - rewrite map_qdf. cbn [map]. apply op_binder; [destruct q; [right; left|right; right]; reflexivity|right; reflexivity| | |apply epar_ok; assumption].
    + destruct d as [v e]. split; [apply epar_ok; apply H|exact I].
    + apply Forall_qdF. exact H0.
  - apply op_fun. apply epar_ok. assumption.
  - apply op_list. apply Forall_PF. exact H.
  - rewrite map_kvf. apply op_ctx. apply Forall_kvF. exact H.
  - apply op_range.
Qed.

Theorem etrack_full : forall t, etrack_ok tstate0 (erender_full t) = true.
Proof.
  intros t. unfold erender_full. pose proof (track_rfull t [] QIdle [] eq_refl eq_refl eq_refl) as H. rewrite app_nil_r in H. exact H.
Qed.
