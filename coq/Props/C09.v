(* C09 — property theorems only.  Proofs are in C09/Proofs.v.
   v_eq v_ne v_lt v_le v_gt v_ge v_and v_or v_between v_in : the evaluators of builders.rs (C09/Model.v);
   wfv : contexts have strictly ascending keys at every depth (a BTreeMap in the code);
   ordered_pair a b : a and b are both numbers, both strings or both dates. *)
From Coq Require Import List NArith ZArith Bool.
From DV Require Import C09.Values C09.Model C09.Proofs.
Import ListNotations.
Open Scope Z_scope.

(* 'and' / 'or' are the three-valued tables, every non-boolean operand counting as null *)
Theorem C09_and_kleene : forall a b, v_and a b = ob (kand (bclass a) (bclass b)).
Proof. exact and_kleene. Qed.
Theorem C09_or_kleene : forall a b, v_or a b = ob (kor (bclass a) (bclass b)).
Proof. exact or_kleene. Qed.
(* a = b and b = a give the same result, for all values of any nesting depth *)
Theorem C09_eq_symmetric : forall a b, wfv a = true -> wfv b = true -> v_eq a b = v_eq b a.
Proof. exact eq_symmetric. Qed.
Theorem C09_teq_symmetric : forall a b, wfv a = true -> wfv b = true -> teq a b = teq b a.
Proof. exact teq_sym. Qed.
(* a != b is the negation of a = b (null stays null) *)
Theorem C09_ne_is_negation : forall a b, v_ne a b = vnot (v_eq a b).
Proof. exact ne_negation. Qed.
(* mirror images, for all pairs including values of different kinds *)
Theorem C09_lt_gt_mirror : forall a b, v_lt a b = v_gt b a.
Proof. exact lt_gt_mirror. Qed.
Theorem C09_le_ge_mirror : forall a b, v_le a b = v_ge b a.
Proof. exact le_ge_mirror. Qed.
(* one ordered kind *)
Theorem C09_trichotomy : forall a b, ordered_pair a b -> exactly_one (v_lt a b) (v_eq a b) (v_gt a b).
Proof. exact trichotomy. Qed.
Theorem C09_le_iff_lt_or_eq : forall a b, ordered_pair a b -> v_le a b = v_or (v_lt a b) (v_eq a b).
Proof. exact le_iff_lt_or_eq. Qed.
Theorem C09_ge_iff_gt_or_eq : forall a b, ordered_pair a b -> v_ge a b = v_or (v_gt a b) (v_eq a b).
Proof. exact ge_iff_gt_or_eq. Qed.
Theorem C09_between_is_in_closed_range : forall x a b, v_between x a b = v_in x (VRange a true b true).
Proof. exact between_iff_in_range. Qed.
Theorem C09_between_is_conjunction : forall x a b, ordered_triple x a b -> v_between x a b = v_and (v_le a x) (v_le x b).
Proof. exact between_iff_conj. Qed.
(* an open interval end corresponds to the strict comparison *)
Theorem C09_in_range_is_conjunction : forall x a b lc rc, ordered_triple x a b ->
  v_in x (VRange a lc b rc) = v_and ((if lc then v_le else v_lt) a x) ((if rc then v_le else v_lt) x b).
Proof. exact in_range_iff_conj. Qed.
(* the string order is the lexicographic order of code points: a strict total order *)
Theorem C09_string_order : forall a b c,
  lcmp a a = Eq /\ (lcmp a b = Eq -> a = b) /\ lcmp b a = CompOpp (lcmp a b) /\ (lcmp a b = Lt -> lcmp b c = Lt -> lcmp a c = Lt).
Proof. exact string_order. Qed.
(* numbers are compared by value: the scale (trailing zeros) does not matter *)
Theorem C09_number_scale : forall c e c2 e2 k, 0 <= k ->
  ncmp (c * 10 ^ k) (e - k) (c2 * 10 ^ k) (e2 - k) = ncmp c e c2 e2 /\ ncmp (c * 10) (e - 1) c e = Eq.
Proof. exact number_scale. Qed.

(* the defects of the pinned commit, kept as refutations of the original code *)
Theorem C09_eq_orig_null_refuted : teq_orig (VNum 1 0) VNull = Some false /\ teq_orig VNull (VNum 1 0) = None.
Proof. exact teq_orig_null_refuted. Qed.
Theorem C09_eq_orig_context_refuted :
  let a := VCtx [([97%N], VNum 1 0); ([99%N], VStr [115%N])] in
  let b := VCtx [([99%N], VNum 1 0); ([100%N], VNum 1 0)] in
  wfv a = true /\ wfv b = true /\ teq_orig a b = Some false /\ teq_orig b a = None.
Proof. exact teq_orig_ctx_refuted. Qed.
Theorem C09_far_dates_orig_refuted :
  let a := VDate 999999999 1 1 in let b := VDate 999999999 1 2 in
  v_lt_orig a b = VBool false /\ v_eq_orig a b = VBool false /\ v_gt_orig a b = VBool false /\
  v_between_orig a a b = VNull /\ v_and (v_le_orig a a) (v_le_orig a b) = VBool false.
Proof. exact far_dates_orig_refuted. Qed.

Example C09_nonvacuous :
  let a := VCtx [([97%N], VList [VNum 1 0; VNull]); ([98%N], VCtx [([99%N], VStr [233%N])])] in
  let b := VCtx [([97%N], VList [VNum 10 (-1); VNull]); ([98%N], VCtx [([99%N], VStr [233%N])])] in
  wfv a = true /\ wfv b = true /\ teq a b = Some true /\ teq b a = Some true /\
  ordered_triple (VDate 999999999 1 1) (VDate (-999999999) 12 31) (VDate 999999999 1 2) /\
  v_between (VDate 999999999 1 1) (VDate (-999999999) 12 31) (VDate 999999999 1 2) = VBool true.
Proof. exact nonvacuous. Qed.

Print Assumptions C09_and_kleene.
Print Assumptions C09_or_kleene.
Print Assumptions C09_eq_symmetric.
Print Assumptions C09_teq_symmetric.
Print Assumptions C09_ne_is_negation.
Print Assumptions C09_lt_gt_mirror.
Print Assumptions C09_le_ge_mirror.
Print Assumptions C09_trichotomy.
Print Assumptions C09_le_iff_lt_or_eq.
Print Assumptions C09_ge_iff_gt_or_eq.
Print Assumptions C09_between_is_in_closed_range.
Print Assumptions C09_between_is_conjunction.
Print Assumptions C09_in_range_is_conjunction.
Print Assumptions C09_string_order.
Print Assumptions C09_number_scale.
Print Assumptions C09_eq_orig_null_refuted.
Print Assumptions C09_eq_orig_context_refuted.
Print Assumptions C09_far_dates_orig_refuted.
Print Assumptions C09_nonvacuous.
