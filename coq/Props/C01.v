(* C01 — property theorems only (proofs in C01/Proofs.v).
   eval  = environment-passing big-step semantics (coq/C01/Spec.v), eval_spec := eval cart  (the FEEL semantics);
   run   = the evaluator as a scope-stack machine (coq/C01/Impl.v),   run_impl  := run cart_impl (the code as it is). *)
From Coq Require Import List ZArith NArith Bool.
From DV Require Import C01.Syntax C01.Spec C01.Impl C01.Proofs C01.Types.
From DV Require C16.Model C16.Proofs.
Import ListNotations.
Open Scope Z_scope.

(* for every enumeration of iteration tuples, every fuel, every scope stack and every expression of the fragment:
   the machine computes the semantics' value and hands the stack back unchanged *)
Theorem C01_machine_refines_semantics : forall cartf f S e, run cartf f S e = (eval cartf f S e, S).
Proof. exact run_refines. Qed.

(* the code computes the FEEL semantics wherever the code's enumeration and the cartesian product agree … *)
Theorem C01_impl_refines_spec : forall f S e,
  eval cart_impl f S e = eval cart f S e -> run_impl f S e = (eval_spec f S e, S).
Proof. exact impl_refines_spec. Qed.
(* … which is the case whenever no list domain is empty, or all are *)
Theorem C01_enumeration_is_product : forall ds, ds <> [] -> (forall d, In d ds -> snd d <> []) -> cart_impl ds = cart ds.
Proof. exact cart_impl_nonempty. Qed.
Theorem C01_enumeration_all_empty : forall ds, (forall d, In d ds -> snd d = []) -> cart_impl ds = [].
Proof. exact cart_impl_all_empty. Qed.
(* known finding C01 empty-domain: on the remaining class the code deviates *)
Theorem C01_empty_domain_refuted : exists e, fst (run_impl 10 [[]] e) <> eval_spec 10 [[]] e.
Proof. exact empty_domain_refuted. Qed.

(* the semantics ranges over the full cartesian product: its size is the product of the domain sizes, it is empty iff … *)
Theorem C01_product_size : forall ds, length (cart ds) = fold_right (fun d n => (length (snd d) * n)%nat) 1%nat ds.
Proof. exact cart_length. Qed.
Theorem C01_product_empty : forall ds, (exists d, In d ds /\ snd d = []) -> cart ds = [].
Proof. exact cart_empty. Qed.
Theorem C01_for_empty : forall f S ds body x e, In (x, e) ds -> eval_spec f S e = VList [] ->
  eval_spec (Datatypes.S f) S (EFor (map (fun xe => (fst xe, DList (snd xe))) ds) body) = VList [].
Proof. exact spec_for_empty. Qed.
Theorem C01_some_empty : forall f S ds body x e, In (x, e) ds -> eval_spec f S e = VList [] ->
  eval_spec (Datatypes.S f) S (ESome ds body) = VBool false.
Proof. exact spec_some_empty. Qed.
Theorem C01_every_empty : forall f S ds body x e, In (x, e) ds -> eval_spec f S e = VList [] ->
  eval_spec (Datatypes.S f) S (EEvery ds body) = VBool true.
Proof. exact spec_every_empty. Qed.

(* some / every are the three-valued or / and of the satisfies results (non-booleans count as null) *)
Theorem C01_some_is_or_fold : forall rs, existsb poison rs = false -> quant_some rs = fold_left or3 rs (VBool false).
Proof. exact some_is_or_fold. Qed.
Theorem C01_every_is_and_fold : forall rs, existsb poison rs = false -> quant_every rs = fold_left and3 rs (VBool true).
Proof. exact every_is_and_fold. Qed.
Theorem C01_quantifiers_orig_refuted :
  quant_some_orig [VNull] <> fold_left or3 [VNull] (VBool false) /\ quant_every_orig [VNull] <> fold_left and3 [VNull] (VBool true).
Proof. exact quantifiers_orig_refuted. Qed.

(* arguments are coerced to the declared parameter types by the coercion proved in C16: the abstraction `abs` of evaluator
   values onto the values of coq/C16/Model.v commutes with type_of and with coerced, so C16's theorems hold of the evaluator *)
Theorem C01_type_of_is_C16 : forall v, C16.Model.type_of (abs v) = type_of1 v.
Proof. exact type_of_abs. Qed.
Theorem C01_argument_coercion_is_C16 : forall t v, poison v = false -> abs (coerced1 t v) = C16.Model.coerced t (abs v).
Proof. exact coerced_abs. Qed.
Theorem C01_coerced_argument_conforms_or_null : forall t v,
  C16.Proofs.wf t = true -> C16.Proofs.wfv (abs v) = true -> poison v = false ->
  abs (coerced1 t v) = C16.Model.VNull \/ C16.Model.conformant (type_of1 (coerced1 t v)) t = true.
Proof. exact coerced1_conforms_or_null. Qed.

Example C01_nonvacuous :
  run_impl 20 [[(101%N, VNum 2)]] (EFor [(102%N, DList (EList [ENum 1; ENum 2])); (103%N, DRange (ENum 1) (ENum 2))]
         (EBin Add (EBin Mul (EName 102%N) (EName 101%N)) (EFilter (ECtx [(104%N, EName 103%N)]) (EBin Eq (EName 104%N) (ENum 1)))))
  = (VList [VNull; VNull; VNull; VNull], [[(101%N, VNum 2)]]) /\
  fst (run_impl 20 [[(101%N, VNum 2)]] (EFor [(102%N, DList (EList [ENum 1; ENum 2])); (103%N, DRange (ENum 1) (ENum 2))]
         (EBin Add (EBin Mul (EName 102%N) (EName 101%N)) (EName 103%N)))) = VList [VNum 3; VNum 4; VNum 5; VNum 6].
Proof. vm_compute. split; reflexivity. Qed.

Print Assumptions C01_machine_refines_semantics.
Print Assumptions C01_impl_refines_spec.
Print Assumptions C01_enumeration_is_product.
Print Assumptions C01_enumeration_all_empty.
Print Assumptions C01_empty_domain_refuted.
Print Assumptions C01_product_size.
Print Assumptions C01_product_empty.
Print Assumptions C01_for_empty.
Print Assumptions C01_some_empty.
Print Assumptions C01_every_empty.
Print Assumptions C01_some_is_or_fold.
Print Assumptions C01_every_is_and_fold.
Print Assumptions C01_quantifiers_orig_refuted.
Print Assumptions C01_type_of_is_C16.
Print Assumptions C01_argument_coercion_is_C16.
Print Assumptions C01_coerced_argument_conforms_or_null.
Print Assumptions C01_nonvacuous.
