(* Base/DecRound.v — IEEE 754-2008 decimal128 arithmetic as a specification (owner: builder-dec; used by C02, C07).
   Every operation computes the exact result with integers and rounds it once with round34:
   precision 34, round-half-even, emax 6144, emin -6143, gradual underflow to the subnormal grid
   (exponent -6176), clamping of large exponents (exponent <= 6111), overflow -> None.
   None stands for the FEEL value null: the result is undefined or outside the decimal128 range.
   No proofs in this file. *)
From Coq Require Import ZArith NArith Bool List.
From DV Require Import Base.Dec.
Import ListNotations.
Open Scope Z_scope.

(* m / 10^drop rounded half-even *)
Definition round_half_even (m : N) (drop : N) : N :=
  if (drop =? 0)%N then m else
  let p := (10 ^ drop)%N in
  let q := (m / p)%N in
  let r := (m mod p)%N in
  let h := (5 * 10 ^ (drop - 1))%N in
  if (h <? r)%N || ((r =? h)%N && N.odd q) then (q + 1)%N else q.

Definition clamp_exp (e : Z) : Z := Z.max ETINY (Z.min ETOP e).

(* the exponent the rounded result gets: at most 34 digits, not below the subnormal grid *)
Definition target_exp (m : N) (e : Z) : Z := Z.max ETINY (Z.max e (e + Z.of_N (ndigits m) - Z.of_N PREC)).

(* the decimal128 nearest to (-1)^s * m * 10^e *)
Definition round34 (s : bool) (m : N) (e : Z) : option dec :=
  if (m =? 0)%N then Some (mkdec s 0 (clamp_exp e)) else
  let e1 := target_exp m e in
  let c1 := round_half_even m (Z.to_N (e1 - e)) in
  let (c2, e2) := if (c1 =? 10 ^ PREC)%N then ((10 ^ (PREC - 1))%N, e1 + 1) else (c1, e1) in
  if EMAX <? e2 + Z.of_N (ndigits c2) - 1 then None
  else if ETOP <? e2 then Some (mkdec s (c2 * 10 ^ Z.to_N (e2 - ETOP))%N ETOP)
  else Some (mkdec s c2 e2).

Definition round_Z (z : Z) (e : Z) (zero_sign : bool) : option dec :=
  round34 (if z =? 0 then zero_sign else z <? 0) (Z.abs_N z) e.

(* ------------------------------------------------------------------ + - * / *)
Definition exact_add (a b : dec) : Z * Z := (scaled a (emin2 a b) + scaled b (emin2 a b), emin2 a b).

Definition dadd (a b : dec) : option dec :=
  let (z, e) := exact_add a b in round_Z z e (neg a && neg b).

Definition dflip (d : dec) : dec := mkdec (negb (neg d)) (coef d) (expo d).
Definition dsub (a b : dec) : option dec := dadd a (dflip b).

Definition dmul (a b : dec) : option dec :=
  round34 (xorb (neg a) (neg b)) (coef a * coef b)%N (expo a + expo b).

(* quotient digits: enough of them (>= 36) that one sticky digit decides the rounding *)
Definition ddiv (a b : dec) : option dec :=
  if dis_zero b then None
  else if dis_zero a then Some (mkdec (xorb (neg a) (neg b)) 0 (clamp_exp (expo a - expo b)))
  else
    let k := Z.to_N (Z.max 0 (36 + Z.of_N (ndigits (coef b)) - Z.of_N (ndigits (coef a)))) in
    let n := (coef a * 10 ^ k)%N in
    let q := (n / coef b)%N in
    let r := (n mod coef b)%N in
    round34 (xorb (neg a) (neg b)) (10 * q + (if (r =? 0)%N then 0 else 1))%N (expo a - expo b - Z.of_N k - 1).

(* ------------------------------------------------------------------ sign operations (decQuadMinus = 0 - x, decQuadAbs) *)
Definition dminus (d : dec) : dec := if dis_zero d then mkdec false 0 (expo d) else dflip d.
Definition dabsolute (d : dec) : dec := mkdec false (coef d) (expo d).

(* ------------------------------------------------------------------ integral values *)
(* floor / ceiling / truncation of the value as integers *)
Definition zfloor (d : dec) : Z := if 0 <=? expo d then sval d * 10 ^ expo d else sval d / 10 ^ (- expo d).
Definition zceil (d : dec) : Z := if 0 <=? expo d then sval d * 10 ^ expo d else - ((- sval d) / 10 ^ (- expo d)).
Definition ztrunc (d : dec) : Z := if 0 <=? expo d then sval d * 10 ^ expo d else Z.quot (sval d) (10 ^ (- expo d)).
Definition is_integral (d : dec) : bool := (0 <=? expo d) || (Z.rem (sval d) (10 ^ (- expo d)) =? 0).

(* decQuadToIntegralValue keeps a number whose exponent is not negative as it is *)
Definition dfloor (d : dec) : dec := if 0 <=? expo d then d else of_Z (zfloor d) 0.
Definition dceil (d : dec) : dec := if 0 <=? expo d then d else of_Z (zceil d) 0.
Definition dtrunc (d : dec) : dec := if 0 <=? expo d then d else of_Z (ztrunc d) 0.

(* FEEL decimal(n, scale): n rounded half-even to a multiple of 10^-scale.  A number that has no digit
   below 10^-scale is its own rounding (also when it cannot be written with that exponent in 34 digits). *)
Definition drescale (d : dec) (scale : Z) : dec :=
  let t := - scale in
  if t <=? expo d then
    (if (ndigits (coef d * 10 ^ Z.to_N (expo d - t)) <=? PREC)%N then mkdec (neg d) (coef d * 10 ^ Z.to_N (expo d - t))%N t else d)
  else mkdec (neg d) (round_half_even (coef d) (Z.to_N (t - expo d))) t.

(* ------------------------------------------------------------------ modulo *)
(* Spec: a - b * floor(a / b), computed exactly, rounded once; None when b = 0 *)
Definition floor_div (a b : dec) : Z :=
  let e := emin2 a b in (scaled a e) / (scaled b e).
Definition dmod (a b : dec) : option dec :=
  if dis_zero b then None else
  let e := emin2 a b in
  let r := scaled a e - scaled b e * floor_div a b in
  round_Z r e (neg b).

Definition obind {A B} (o : option A) (f : A -> option B) : option B := match o with Some x => f x | None => None end.

(* ImplModel of `dividend - divisor * floor(dividend / divisor)` as the code computes it: every step rounds (and reduces) *)
Definition dmod_steps (a b : dec) : option dec :=
  if dis_zero b then None else
  obind (ddiv a b) (fun q => obind (dmul b (dfloor q)) (fun p => dsub a p)).

(* ------------------------------------------------------------------ parity *)
Definition deven (d : dec) : bool := is_integral d && Z.even (ztrunc d).
Definition dodd (d : dec) : bool := is_integral d && Z.odd (ztrunc d).

(* ------------------------------------------------------------------ square root *)
(* floor square root of c * 10^(2k+par) with a sticky digit, rounded once; None for negative non-zero numbers *)
Definition dsqrt (d : dec) : option dec :=
  if dis_zero d then Some (mkdec (neg d) 0 (clamp_exp (Z.div (expo d) 2)))
  else if neg d then None
  else
    let par := Z.modulo (expo d) 2 in                       (* make the exponent even *)
    let c := (coef d * 10 ^ Z.to_N par)%N in
    let e := expo d - par in
    let k := Z.to_N (Z.max 0 (36 - Z.of_N (ndigits c) / 2)) in
    let n := (c * 10 ^ (2 * k))%N in
    let s := N.sqrt n in
    round34 false (10 * s + (if (s * s =? n)%N then 0 else 1))%N (e / 2 - Z.of_N k - 1).

(* ------------------------------------------------------------------ integer powers (exact when representable) *)
Definition dpow_nat (a : dec) (n : N) : option dec :=
  round34 (neg a && N.odd n) (coef a ^ n)%N (expo a * Z.of_N n).

(* ------------------------------------------------------------------ what FEEL sees: results are reduced *)
Definition reduced (o : option dec) : option dec := option_map dreduce o.
