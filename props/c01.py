"""C01 — FEEL core expressions evaluate to the value the FEEL semantics assigns.
Proof: coq/Props/C01.v (stack machine refines the environment semantics for every expression and every stack; for = cartesian product).
Correspondence: random well-typed (and some ill-typed) expressions of the core fragment, parse_expression + evaluate of the working tree
vs coq/C01/Impl.v `run` and coq/C01/Spec.v `eval` by vm_compute."""
import decimal
import json
from decimal import Decimal

decimal.getcontext().prec = 200          # exact handling of 34-digit coefficients
decimal.getcontext().Emax = 999999
decimal.getcontext().Emin = -999999


def numc(d):
    """canonical form of a number: the text of the normalised exact decimal (value comparison, not representation)"""
    d = Decimal(d)
    if d == 0:
        return {'num': '0'}
    return {'num': str(d.normalize())}

from vlib import core
from vlib.coqterm import App
from props import c01gen as G

HEADER = ('From Coq Require Import List ZArith NArith Bool.\nFrom DV Require Import C01.Syntax C01.Spec C01.Impl C01.Fuel.\nImport ListNotations.\nOpen Scope Z_scope.\n'
          # the last component: no evaluation step ran out of fuel (coq/C01/Fuel.v), for the context, the Spec and the ImplModel; by
          # C01_eval_fuel_monotone the compared values are then the values for EVERY larger fuel
          'Definition case (cx : list (N * expr)) (e : expr) :=\n'
          '  match run_impl 80 [[]] (ECtx cx) with\n'
          '  | (VCtx c, _) => let r := run_impl 80 [c] e in Some (fst r, snd r, eval_spec 80 [c] e, c, eval cart_impl 80 [c] e,\n'
          '                    complete cart_impl 80 [[]] (ECtx cx) && complete cart 80 [c] e && complete cart_impl 80 [c] e)\n'
          '  | _ => None end.\n')


def mval(t):
    """parsed Coq value -> canonical JSON of the harness; raises Poison"""
    if isinstance(t, App):
        n, a = t.name, t.args
        if n == 'VNull':
            return None
        if n == 'VBool':
            return a[0]
        if n == 'VNum':
            d = a[0]
            return numc(Decimal((1 if d['neg'] else 0, tuple(int(c) for c in str(d['coef'])), d['expo'])))
        if n == 'VStr':
            return ''.join(chr(c) for c in a[0])
        if n == 'VList':
            return [mval(x) for x in a[0]]
        if n == 'VCtx':
            return {'c': sorted([[G.NAMES[k], mval(v)] for k, v in a[0]])}
        if n == 'VRange':
            return {'r': [mval(a[0]), a[1], mval(a[2]), a[3]]}
        if n == 'VFun':
            return {'f': len(a[0])}
        if n == 'VPoison':
            raise Poison()
        if n == 'VUnary':
            return {'x': 'unary'}
    raise ValueError('unexpected model value %r' % (t,))


class Poison(Exception):
    pass


def ival(j):
    """harness canonical JSON -> same shape as mval"""
    if isinstance(j, dict):
        if 'n' in j:
            try:
                d = Decimal(j['n'])
            except Exception:
                return {'num': j['n']}
            if not d.is_finite():
                return {'num': j['n']}
            return numc(d)
        if 'c' in j:
            return {'c': sorted([[k, ival(v)] for k, v in j['c']])}
        if 'r' in j:
            return {'r': [ival(j['r'][0]), j['r'][1], ival(j['r'][2]), j['r'][3]]}
        return j
    if isinstance(j, list):
        return [ival(x) for x in j]
    return j


# ---- known finding classes (listed in known_findings.txt) -------------------------------------------------
def probes():
    """fixed probes for the listed known findings: (key, context entries, expression, value the property prescribes)"""
    n = lambda z: ('num', z)
    nm = lambda i: ('name', i)
    out = []
    # dynamic scoping of function bodies: {vb: 1, vf: function(va) va + vb, vg: function(vb) vf(1), vh: vg(10)}.vh  — lexical: 2
    e = ('path', ('ctx', ((102, n(1)), (106, ('fun', (101,), ('bin', 'Add', nm(101), nm(102)))), (107, ('fun', (102,), ('call', nm(106), (n(1),)))),
                          (108, ('call', nm(107), (n(10),))))), 108)
    out.append(('dynamic-scope', (), e, numc(2)))
    return out


def multi_iteration(t):
    """the expression contains a for / some / every with two or more iteration variables (the input class of the finding empty-domain)"""
    if isinstance(t, tuple):
        if len(t) >= 2 and t[0] in ('for', 'some', 'every') and isinstance(t[1], tuple) and len(t[1]) >= 2:
            return True
        return any(multi_iteration(x) for x in t)
    if isinstance(t, list):
        return any(multi_iteration(x) for x in t)
    return False


def run(ctx):
    ctx.proof_gate()
    ctx.build_harness()
    gen = G.Gen(ctx.rng)
    cases = []
    for key, cx, e, want in probes():
        cases.append((cx, e, key, want))
    sysc, sys_missing = G.systematic_cases(gen)
    for cx, e, pname, rt in sysc:
        cases.append((cx, e, None, None))
    shad = G.shadow_cases(gen)
    for cx, e in shad + G.builtin_name_cases() + G.null_provenance_cases() + G.computed_number_cases():
        cases.append((cx, e, None, None))
    depth = ctx.pick(4, 6)
    for i in range(ctx.pick(4000, 60000)):
        cx, e = gen.case(ctx.rng.choice([2, 3, depth, depth]))
        cases.append((cx, e, None, None))
    reqs = [{'ctx': G.feel(('ctx', cx)) if cx else '', 'e': G.feel(e), 'scope': True} for cx, e, _, _ in cases]
    impl = ctx.run_impl('guard 20000 64 feel', reqs, shards=16, timeout=2400, mem_gb=3)
    # "the result depends only on the expression text and on the values bound to its free names": the same expression over a context
    # extended with bindings of names that do not occur in it (law evaluated on the implementation's own answers)
    used_all = set(G.NAMES)
    ext_idx, ext_reqs = [], []
    for i, (cx, e, key, _) in enumerate(cases):
        if key is not None or i % 4:
            continue
        text = reqs[i]['e']
        unused = [n for n in G.VARS if G.NAMES[n] not in text and all(n != k for k, _ in cx)]
        if not unused:
            continue
        extra = tuple((n, gen.leaf(ctx.rng.choice(['num', 'str', 'lnum', 'ctx', 'fun1']), {})) for n in ctx.rng.sample(unused, min(len(unused), ctx.rng.choice([1, 2, 3]))))
        cx2 = tuple(sorted(dict(list(cx) + list(extra)).items()))
        ext_idx.append(i)
        ext_reqs.append({'ctx': G.feel(('ctx', cx2)), 'e': text})
    ext_impl = ctx.run_impl('guard 20000 64 feel', ext_reqs, shards=16, timeout=2400, mem_gb=3)
    for i, rq2, r2 in zip(ext_idx, ext_reqs, ext_impl):
        ctx.evaluations += 1
        if 'v' in impl[i] and r2.get('v', 'missing') != impl[i]['v']:
            ctx.violation('the value changes when names that do not occur in the expression are bound: %s without them, %s with them'
                          % (json.dumps(impl[i]['v'])[:150], json.dumps(r2.get('v', r2))[:150]), {'ctx': rq2['ctx'], 'e': rq2['e'], 'ctx_without': reqs[i]['ctx']}, impl=r2, model=impl[i]['v'])
    ctx.cov['free_name_independence_cases'] = len(ext_idx)
    model = ctx.run_model(HEADER, ['case [%s] %s' % ('; '.join('(%d%%N, %s)' % (n, G.coq(x)) for n, x in cx), G.coq(e)) for cx, e, _, _ in cases], shard_size=300)
    matrix, poisoned, nulls, errs, skipped_resources, fuel_short = {}, 0, 0, 0, 0, 0
    for (cx, e, key, want), ri, rm, rq in zip(cases, impl, model, reqs):
        ctx.evaluations += 1
        case = {'ctx': rq['ctx'], 'e': rq['e']}
        if 'v' not in ri:
            if 'timeout' in ri or ('crash' in ri and 'memory allocation' in str(ri)):
                skipped_resources += 1       # legitimate long-running / huge work is not a wrong value (totality is C05's subject)
                continue
            if 'err' in ri and ri['err'] in ('parse', 'ctx'):
                errs += 1
                ctx.corr_broken('the parser rejects a generated core expression', case, ri, None)
            else:
                ctx.violation('evaluation did not return a value: %s' % json.dumps(ri)[:200], case, impl=ri)
            continue
        if ri.get('s2') != ri.get('s0'):
            ctx.violation('evaluation altered the caller\'s scope: before %s after %s' % (ri.get('s0'), ri.get('s2')), case, impl=ri)
            continue
        if not (isinstance(rm, App) and rm.name == 'Some'):
            ctx.corr_broken('model could not build the input context', case, ri, str(rm))
            continue
        rv, rs, sv, c, ev2, fuel_ok = rm.args[0]
        if not fuel_ok:
            fuel_short += 1          # fuel 80 did not cover this case: the model's value is not the fuel-independent one, nothing is compared
            continue
        try:
            mv, spec, mv2 = mval(rv), mval(sv), mval(ev2)
        except Poison:
            poisoned += 1
            continue
        iv = ival(ri['v'])
        G.constructs(e, matrix)
        if mv is None:
            nulls += 1
        else:
            ctx.nontrivial.add(rq['e'])
        ctx.corr_checked += 1
        if rs != [c] or mv != mv2:
            ctx.broken.append('model self-check: run and eval disagree or the stack is not restored for %s' % rq['e'])
        if key is not None:
            # probe of a known finding: want = the value the property prescribes
            if iv == want:
                continue
            if iv == mv and ctx.known(key, case):
                continue
            ctx.violation('%s: got %s, the FEEL semantics gives %s' % (key, json.dumps(iv), json.dumps(want)), case, impl=iv, model=mv)
            continue
        if iv == mv and mv != spec:
            # the code is the ImplModel, and ImplModel and Spec differ only in the enumeration of iteration tuples (cart_impl vs cart):
            # this case is in the listed class `empty-domain` (a list domain is empty while another domain is not) -- and the class is
            # tested on the INPUT as well: the expression must contain a for / some / every with two or more variables
            if not (multi_iteration(e) and ctx.known('empty-domain', case)):
                ctx.violation('evaluates to %s, the FEEL semantics gives %s (an iteration with an empty domain must be empty)' % (json.dumps(iv)[:200], json.dumps(spec)[:200]), case, impl=iv, model=spec)
            continue
        if iv != mv:
            if iv == spec:
                ctx.corr_broken('evaluator differs from the ImplModel but agrees with the Spec', case, iv, mv)
                continue
            ctx.violation('evaluates to %s, the FEEL semantics (coq/C01/Spec.v) gives %s' % (json.dumps(iv, ensure_ascii=False)[:300], json.dumps(spec, ensure_ascii=False)[:300]),
                          case, impl=iv, model=spec)
            continue
        if len(ctx.samples) < 5 and mv is not None and len(rq['e']) > 40:
            ctx.sample({'ctx': rq['ctx'], 'e': rq['e'], 'value': iv})
    pairs = len(matrix)
    if fuel_short * 100 > len(cases):
        ctx.broken.append('fuel 80 does not cover %d of %d generated cases (complete = false): raise the fuel of the model run' % (fuel_short, len(cases)))
    return ctx.finish(
        rule='first the implicit names item/partial against every way of binding them outside (%d cases) and a systematic matrix: every operand position of every construct filled with every construct that the typed generator can put there; then typed random ASTs of the core fragment (depth up to %d) over literals, arithmetic, comparison, and/or, if, between, in (values, unary tests, ranges, lists), lists, contexts '
             '(later entries using earlier ones), paths, filters (boolean/index/item/context entries), for (lists, ascending/descending ranges, empty and scalar domains, partial), some/every, '
             'function definition and positional/named invocation, with ~4%% ill-typed operands and nulls; free names bound in an input context to numbers, strings, booleans, nulls, lists, contexts, functions; '
             'rendered fully parenthesised; non-trivial = distinct expression text with a non-null result; cases whose value the integer model does not compute (inexact division/power) are skipped' % (len(shad), depth),
        extra_cov={'exhaustive': False, 'nesting_pairs_covered': pairs, 'systematic_parent_position_x_child_construct_cases': len(sysc),
                   'systematic_pairs_not_constructible_by_the_typed_generator': len(sys_missing), 'skipped_not_computed_by_model': poisoned, 'skipped_fuel_80_not_enough': fuel_short, 'skipped_resource_limit': skipped_resources, 'null_results': nulls, 'parse_errors': errs,
                   'constructs': sorted({k[1] for k in matrix})},
        assumptions=['numbers in generated expressions are small integers (decimal arithmetic is C02\'s subject)', 'names are single words (C10 covers multi-word names)',
                     'built-in functions and temporal values are outside this model (C08, C14, C15)'])


def replay(ctx, path):
    obj = json.load(open(path))
    ctx.build_harness()
    c = obj['case']
    r = ctx.run_impl('feel', [{'ctx': c['ctx'], 'e': c['e'], 'scope': True}])[0]
    print('context   :', c['ctx'])
    print('expression:', c['e'])
    print('implementation now:', json.dumps(r, ensure_ascii=False))
    print('recorded impl     :', json.dumps(obj.get('impl'), ensure_ascii=False))
    print('semantics (model) :', json.dumps(obj.get('model'), ensure_ascii=False))
    same = 'v' in r and ival(r['v']) == obj.get('model')
    print('not reproduced' if same else 'REPRODUCED')
    return 0 if same else 1


MANIFEST = dict(
    technique='Coq proof (stack machine refines an environment-passing big-step semantics, by induction on fuel, for every expression and stack) with model/code correspondence',
    text='Theorems (coq/Props/C01.v) hold for every expression of the core fragment, every scope stack and every fuel: the transliterated evaluator (push/pop/set_entry on a scope stack) '
         'computes exactly the environment-passing semantics whose for/some/every range over the cartesian product of the domains (empty when a domain is empty), and leaves the stack as it found it. '
         'Second sentence of the property (coq/C01/FreeNames.v, proved for every expression, fuel and pair of stacks, for the semantics and for the code): the value depends only on the bindings of the names '
         'that occur in the expression (C01_depends_only_on_occurring_names, C01_unrelated_bindings_irrelevant), provided the function values bound to those names mention only such names in their bodies '
         '(bodies run in the caller\'s scope: known finding dynamic-scope; C01_dynamic_scope_witness shows the proviso is needed); stated for occurring rather than free names because the code can look a bound '
         'variable up outside when an empty domain is skipped (C01_bound_name_leak_witness, known finding empty-domain). The same law is also evaluated on the implementation\'s own answers. '
         'Fuel (coq/C01/Fuel.v): the semantics is defined with fuel and answers a marker (VPoison) when it runs out; the marker is shared with numbers the model does not compute and is not always '
         'propagated, so "the value is not the marker" does NOT imply that the fuel was enough (C01_value_monotonicity_refuted: [1] = [1] is false at fuel 2, true from fuel 3 on). Proved instead: the predicate '
         'complete (no evaluation step took the out-of-fuel branch) is monotone in the fuel and from there on the value is the same for every larger fuel, for the semantics and the machine '
         '(C01_eval_fuel_monotone, C01_machine_fuel_monotone); any fuel above the nesting depth is enough for expressions that evaluate no invocation (C01_fuel_sufficient); with invocations no bound in the '
         'expression text exists because a function bound to a name can call itself (C01_recursion_never_completes: VPoison for every fuel; C01_recursion_countdown: the bound depends on the argument). '
         'The check evaluates complete at its fuel (80) for every generated case, so the compared model values are the fuel-independent ones. '
         'The model is tied to feel-evaluator by evaluating thousands of generated expressions with both and comparing values.',
    note='Trusted: Coq kernel + vm_compute, hand-written model of builders.rs/iterations.rs (correspondence-checked), FEEL text rendering of ASTs, the real parser (C06 covers it). '
         'Numbers are integers in the model; decimal arithmetic, built-ins and temporal values are other properties. Interpretive choices listed in coq/C01/Spec.v.')
