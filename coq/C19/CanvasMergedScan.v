(* C19 — merged drawings (coq/C19/CanvasMerged.v): the text splits back into the grid of characters and the passes of `scan`
   succeed with the drawn crossings, the whole drawing as body rectangle, THIN = BODY = the drawing with single lines and blanked
   texts, and GRID = the full grid (every separator drawn in full).  (owner: ext-merged) *)
From Coq Require Import List NArith Bool Arith Lia.
From DV Require Import C19.Model C19.Canvas C19.CanvasDraw C19.CanvasProofs C19.CanvasAssembly C19.CanvasMerged C19.CanvasMergedGeom.
Import ListNotations.

(* ================================================================== text -> lines, for any tabulated picture *)
Section Picture.
Variables (h w : nat) (f : nat -> nat -> N).
Hypothesis Hh : 2 <= h.
Hypothesis Hw : 1 <= w.
Hypothesis Hnl : forall y x, y < h -> x < w -> (f y x =? cNL)%N = false.
Hypothesis Hfirst : forall y, y < h -> is_ws (f y 0) = false.
Hypothesis Hlast : forall y, y < h -> is_ws (f y (w - 1)) = false.
Hypothesis Hcorner : f 0 0 = cTL.
Hypothesis Hmid : forall y, y < h - 1 -> (f y (w - 1) =? cBR)%N = false.
Hypothesis Hend : f (h - 1) (w - 1) = cBR.

Let pline (y : nat) : list N := map (f y) (seq 0 w).

Lemma pline_length y : length (pline y) = w.
Proof. unfold pline. now rewrite map_length, seq_length. Qed.
Lemma pline_hd y : hd 0%N (pline y) = f y 0.
Proof. unfold pline. destruct w as [|n]; [lia|]. reflexivity. Qed.
Lemma pline_last y : last (pline y) 0%N = f y (w - 1).
Proof. unfold pline. destruct w as [|n]; [lia|]. rewrite last_map_seq. f_equal. lia. Qed.
Lemma pline_ne y : pline y <> [].
Proof. unfold pline. destruct w as [|n]; [lia|]. cbn [seq map]. discriminate. Qed.
Lemma pline_solid y : y < h -> solid (pline y).
Proof. intro Hy. unfold solid. rewrite pline_hd, pline_last. repeat split; [apply pline_ne|now apply Hfirst|now apply Hlast]. Qed.

Theorem scan_layers_tab :
  scan_layers (flat_map (fun row => row ++ [cNL]) (tab h w f)) =
  (tab (S h) w (fun y x => if y <? h then f y x else cOuter), tab (S h) w (fun y _ => if y <? h then cWhite else cOuter)).
Proof.
  unfold scan_layers. rewrite split_lines_rows.
  2:{ intros row c Hr Hc. unfold tab in Hr. apply in_map_iff in Hr. destruct Hr as (y & <- & Hy). apply in_seq in Hy.
      apply in_map_iff in Hc. destruct Hc as (x & <- & Hx). apply in_seq in Hx. apply N.eqb_neq. apply Hnl; lia. }
  assert (tab h w f = pline 0 :: map pline (seq 1 (h - 2)) ++ [pline (h - 1)]) as Egrid.
  { unfold tab. fold pline. replace h with (S (S (h - 2))) at 1 by lia. rewrite seq_S. cbn [seq map]. rewrite map_app. cbn [map app].
    do 4 f_equal. lia. }
  rewrite Egrid. rewrite (scan_lines_picture w).
  - set (ls := pline 0 :: map pline (seq 1 (h - 2)) ++ [pline (h - 1)]).
    assert (ls = map pline (seq 0 h)) as Els by (unfold ls; rewrite <- Egrid; reflexivity).
    assert (length ls = h) as Lls by (rewrite Els, map_length, seq_length; reflexivity).
    assert (forall l, In l ls -> length l = w) as Lw.
    { intros l Hl. rewrite Els in Hl. apply in_map_iff in Hl. destruct Hl as (y & <- & _). apply pline_length. }
    rewrite rev_length, Lls, rev_involutive.
    replace (0 <? h) with true by (symmetry; apply Nat.ltb_lt; lia). replace (0 <? w) with true by (symmetry; apply Nat.ltb_lt; lia).
    cbn [andb]. rewrite !map_app. cbn [map length repeat].
    assert (pad w cOuter [] = repeat cOuter w) as Epad by (unfold pad; cbn [length app]; now rewrite Nat.sub_0_r).
    rewrite Epad. f_equal.
    + unfold tab. rewrite seq_S, map_app. cbn [map Nat.add]. rewrite Nat.ltb_irrefl, map_const_seq. f_equal.
      rewrite Els, map_map. apply map_ext_in. intros y Hy. apply in_seq in Hy. rewrite pad_full by apply pline_length.
      unfold pline. apply map_ext. intro x. now replace (y <? h) with true by (symmetry; apply Nat.ltb_lt; lia).
    + unfold tab. rewrite seq_S, map_app. cbn [map Nat.add]. rewrite Nat.ltb_irrefl, map_const_seq. f_equal.
      rewrite Els, map_map. apply map_ext_in. intros y Hy. apply in_seq in Hy. rewrite pline_length.
      replace (y <? h) with true by (symmetry; apply Nat.ltb_lt; lia). rewrite map_const_seq. apply pad_full. apply repeat_length.
  - apply pline_solid. lia.
  - rewrite pline_hd. exact Hcorner.
  - rewrite pline_last. apply Hmid. lia.
  - apply pline_length.
  - intros l Hl. apply in_map_iff in Hl. destruct Hl as (y & <- & Hy). apply in_seq in Hy. split; [|split; [|apply pline_length]].
    + apply pline_solid. lia.
    + rewrite pline_last. apply Hmid. lia.
  - apply pline_solid. lia.
  - rewrite pline_last, Hend. reflexivity.
  - apply pline_length.
Qed.
End Picture.

(* ================================================================== junction characters *)
Lemma prep_jch dv dh u dn l r : prep (jch dv dh u dn l r) = jsingle u dn l r.
Proof. destruct dv, dh, u, dn, l, r; reflexivity. Qed.
Lemma jch_solid dv dh u dn l r : u || dn || l || r = true ->
  is_ws (jch dv dh u dn l r) = false /\ (jch dv dh u dn l r =? cNL)%N = false.
Proof. destruct dv, dh, u, dn, l, r; cbn [orb]; intro E; try discriminate; split; reflexivity. Qed.
Lemma jch_down dv dh u l r : (jch dv dh u true l r =? cBR)%N = false.
Proof. destruct dv, dh, u, l, r; reflexivity. Qed.
Lemma jch_XX dv dh u dn l r : mem (jch dv dh u dn l r) [dXX] = true -> dv = true /\ dh = true.
Proof. destruct dv, dh, u, dn, l, r; cbn; intro E; try discriminate; split; reflexivity. Qed.
Lemma jch_Tv dv dh u dn l r : mem (jch dv dh u dn l r) [dTv] = true -> dv = true.
Proof. destruct dv, dh, u, dn, l, r; cbn; intro E; try discriminate; reflexivity. Qed.

Tactic Notation "tr_ltb" constr(a) constr(b) := replace (a <? b) with true by (symmetry; apply Nat.ltb_lt; lia).
Tactic Notation "fa_ltb" constr(a) constr(b) := replace (a <? b) with false by (symmetry; apply Nat.ltb_ge; lia).
Tactic Notation "tr_eqb" constr(a) constr(b) := replace (a =? b) with true by (symmetry; apply Nat.eqb_eq; lia).
Tactic Notation "fa_eqb" constr(a) constr(b) := replace (a =? b) with false by (symmetry; apply Nat.eqb_neq; lia).

(* ================================================================== a well-formed merged drawing *)
Section Scan.
Variable d : mdraw.
Hypothesis Hwf : wf_mdraw d = true.
Local Notation ws := (md_ws d).
Local Notation hs := (md_hs d).
Local Notation nr := (mrows d).
Local Notation nc := (mcols d).
Local Notation v1 := (md_v1 d).
Local Notation h1 := (md_h1 d).
Local Notation Vd := (vseg d).
Local Notation Hd := (hseg d).
Local Notation AU i j := (aU (vseg d) i j).
Local Notation AD i j := (aD (mrows d) (vseg d) i j).
Local Notation AL i j := (aL (hseg d) i j).
Local Notation AR i j := (aR (mcols d) (hseg d) i j).
Local Notation th := (thl (md_hs d) (md_ws d) (vseg d) (hseg d)).

(* the TEXT layer (the drawing and the extra last line of the Rust canvas), the initial content of the other layers,
   the THIN layer (= BODY) and the GRID layer *)
Definition chM (y x : nat) : N := if y <? MH d then mchar d y x else cOuter.
Definition TM : layer := tab (S (MH d)) (MW d) chM.
Definition BM : layer := tab (S (MH d)) (MW d) (fun y _ => if y <? MH d then cWhite else cOuter).
Definition THM : layer := TL (md_hs d) (md_ws d) (vseg d) (hseg d).
Definition GM : layer := TL (md_hs d) (md_ws d) (fun _ _ => true) (fun _ _ => true).

Ltac facts :=
  pose proof (v1_bounds d Hwf) as [Pv1 Pv2]; pose proof (h1_bounds d Hwf) as [Ph1 Ph2];
  pose proof (eq_refl : nc = length ws) as Pnc; pose proof (eq_refl : nr = length hs) as Pnr;
  pose proof (eq_refl : MW d = S (X ws nc)) as PW; pose proof (eq_refl : MH d = S (X hs nr)) as PH.

Lemma chM_in y x : y < MH d -> chM y x = mchar d y x.
Proof. intro L. unfold chM. now tr_ltb y (MH d). Qed.

Lemma mchar_jj i j : i <= nr -> j <= nc -> mchar d (X hs i) (X ws j) =
  if AU i j || AD i j || AL i j || AR i j then jch (dblv d j) (dblh d i) (AU i j) (AD i j) (AL i j) (AR i j) else txt_at d i j (X hs i) (X ws j).
Proof. intros Hi Hj. unfold mchar. now rewrite !locate_sep by assumption. Qed.
Lemma mchar_jh i j o : i <= nr -> j < nc -> o < nth j ws 0 -> mchar d (X hs i) (X ws j + 1 + o) =
  if hseg d i j then (if dblh d i then dH else cH) else txt_at d i j (X hs i) (X ws j + 1 + o).
Proof. intros Hi Hj Ho. unfold mchar. now rewrite locate_sep, locate_in by assumption. Qed.
Lemma mchar_vj i p j : i < nr -> p < nth i hs 0 -> j <= nc -> mchar d (X hs i + 1 + p) (X ws j) =
  if vseg d j i then (if dblv d j then dV else cV) else txt_at d i j (X hs i + 1 + p) (X ws j).
Proof. intros Hi Hp Hj. unfold mchar. now rewrite locate_sep, locate_in by assumption. Qed.
Lemma mchar_tt i p j o : i < nr -> p < nth i hs 0 -> j < nc -> o < nth j ws 0 ->
  mchar d (X hs i + 1 + p) (X ws j + 1 + o) = txt_at d i j (X hs i + 1 + p) (X ws j + 1 + o).
Proof. intros Hi Hp Hj Ho. unfold mchar. now rewrite !locate_in by assumption. Qed.

(* the arms on the border of the grid *)
Lemma AL_nr j : AL nr j = (0 <? j). Proof. unfold aL. now rewrite hseg_nr, andb_true_r. Qed.
Lemma AR_nr j : AR nr j = (j <? nc). Proof. unfold aR. now rewrite hseg_nr, andb_true_r. Qed.
Lemma AL_0 j : AL 0 j = (0 <? j). Proof. unfold aL. now rewrite hseg_0, andb_true_r. Qed.
Lemma AR_0 j : AR 0 j = (j <? nc). Proof. unfold aR. now rewrite hseg_0, andb_true_r. Qed.
Lemma AU_nc i : AU i nc = (0 <? i). Proof. unfold aU. now rewrite vseg_nc, andb_true_r. Qed.
Lemma AD_nc i : AD i nc = (i <? nr). Proof. unfold aD. now rewrite vseg_nc, andb_true_r. Qed.
Lemma AU_0 i : AU i 0 = (0 <? i). Proof. unfold aU. now rewrite vseg_0, andb_true_r. Qed.
Lemma AD_0 i : AD i 0 = (i <? nr). Proof. unfold aD. now rewrite vseg_0, andb_true_r. Qed.

Lemma no_arms_inside i j : i <= nr -> j <= nc -> AU i j || AD i j || AL i j || AR i j = false -> i < nr /\ j < nc.
Proof.
  intros Hi Hj E. facts. rewrite !orb_false_iff in E. destruct E as (((E1 & E2) & E3) & E4). split.
  - destruct (Nat.eq_dec i nr) as [->|Hne]; [|lia]. rewrite AL_nr in E3. rewrite AR_nr in E4.
    apply Nat.ltb_ge in E3, E4. lia.
  - destruct (Nat.eq_dec j nc) as [->|Hne]; [|lia]. rewrite AU_nc in E1. rewrite AD_nc in E2.
    apply Nat.ltb_ge in E1, E2. lia.
Qed.

(* every character of the drawing: a junction with an arm, a piece of a line, or a character of a text *)
Lemma mchar_cases y x : y < MH d -> x < MW d ->
  (exists i j, i <= nr /\ j <= nc /\ y = X hs i /\ x = X ws j /\ AU i j || AD i j || AL i j || AR i j = true /\
               mchar d y x = jch (dblv d j) (dblh d i) (AU i j) (AD i j) (AL i j) (AR i j)) \/
  (exists i j, i <= nr /\ j < nc /\ hseg d i j = true /\ mchar d y x = (if dblh d i then dH else cH) /\ th y x = cH) \/
  (exists i j, i < nr /\ j <= nc /\ vseg d j i = true /\ mchar d y x = (if dblv d j then dV else cV) /\ th y x = cV) \/
  (mem (mchar d y x) box_chars = false /\ th y x = cWhite).
Proof.
  intros Hy Hx. facts.
  destruct (y_cases' hs y Hy) as [(i & Hi & ->)|(i & p & Hi & Hp & ->)];
  destruct (x_cases ws x Hx) as [(j & Hj & ->)|(j & o & Hj & Ho & ->)].
  - rewrite mchar_jj by assumption. destruct (AU i j || AD i j || AL i j || AR i j) eqn:E.
    + left. exists i, j. repeat split; assumption.
    + right. right. right. destruct (no_arms_inside i j Hi Hj E) as [Li Lj]. split; [now apply txt_at_plain|].
      rewrite thl_jj by assumption. unfold J. change (length hs) with nr. change (length ws) with nc. rewrite !orb_false_iff in E. destruct E as (((E1 & E2) & E3) & E4).
      now rewrite E1, E2, E3, E4.
  - rewrite mchar_jh, thl_jh by assumption. destruct (hseg d i j) eqn:E.
    + right. left. exists i, j. repeat split; try assumption; lia.
    + right. right. right. split; [|reflexivity]. apply txt_at_plain; try assumption.
      destruct (Nat.eq_dec i nr) as [->|Hne]; [now rewrite hseg_nr in E|lia].
  - rewrite mchar_vj, thl_vj by assumption. destruct (vseg d j i) eqn:E.
    + right. right. left. exists i, j. repeat split; try assumption; lia.
    + right. right. right. split; [|reflexivity]. apply txt_at_plain; try assumption.
      destruct (Nat.eq_dec j nc) as [->|Hne]; [now rewrite vseg_nc in E|lia].
  - rewrite mchar_tt, thl_tt by assumption. right. right. right. split; [|reflexivity]. now apply txt_at_plain.
Qed.

Lemma thin_char y x : y < MH d -> x < MW d -> prep (mchar d y x) = th y x.
Proof.
  intros Hy Hx.
  destruct (mchar_cases y x Hy Hx) as [(i & j & Hi & Hj & -> & -> & E & ->)|[(i & j & _ & _ & _ & -> & ->)|[(i & j & _ & _ & _ & -> & ->)|(P & ->)]]].
  - rewrite prep_jch, thl_jj by assumption. reflexivity.
  - now destruct (dblh d i).
  - now destruct (dblv d j).
  - now apply prep_plain.
Qed.

Lemma thin_layer_m : map (map prep) TM = THM.
Proof.
  unfold TM, THM, TL. rewrite map_map_tab. apply tab_ext. intros y x Hy Hx. unfold chM, thc. change (LH hs) with (MH d).
  destruct (y <? MH d) eqn:E; [|reflexivity]. apply Nat.ltb_lt in E. now apply thin_char.
Qed.

(* ------------------------------------------------------------------ the text splits back into the lines of the grid *)
Lemma MH_ge : 2 <= X hs nr.
Proof. facts. pose proof (X_mono hs 0 1 ltac:(lia) ltac:(lia)). pose proof (X_mono hs 1 nr ltac:(lia) ltac:(lia)). lia. Qed.
Lemma MW_ge : 2 <= X ws nc.
Proof. facts. pose proof (X_mono ws 0 1 ltac:(lia) ltac:(lia)). pose proof (X_mono ws 1 nc ltac:(lia) ltac:(lia)). lia. Qed.

Lemma dblv_0 : dblv d 0 = false.
Proof. facts. unfold dblv. fa_eqb 0 v1. destruct (md_v2 d) as [k|] eqn:E; [|reflexivity]. destruct (v2_bounds' d Hwf k E). now fa_eqb 0 k. Qed.
Lemma dblv_nc : dblv d nc = false.
Proof. facts. unfold dblv. fa_eqb nc v1. destruct (md_v2 d) as [k|] eqn:E; [|reflexivity]. destruct (v2_bounds' d Hwf k E). now fa_eqb nc k. Qed.
Lemma dblh_0 : dblh d 0 = false.
Proof. facts. unfold dblh. fa_eqb 0 h1. destruct (md_h2 d) as [k|] eqn:E; [|reflexivity]. destruct (h2_bounds' d Hwf k E). now fa_eqb 0 k. Qed.
Lemma dblh_nr : dblh d nr = false.
Proof. facts. unfold dblh. fa_eqb nr h1. destruct (md_h2 d) as [k|] eqn:E; [|reflexivity]. destruct (h2_bounds' d Hwf k E). now fa_eqb nr k. Qed.

Lemma border_col y j : y < MH d -> j = 0 \/ j = nc ->
  is_ws (mchar d y (X ws j)) = false /\ (j = nc -> y < X hs nr -> (mchar d y (X ws j) =? cBR)%N = false).
Proof.
  intros Hy Hj. facts. assert (j <= nc) as Lj by lia.
  assert (forall i, AU i j = (0 <? i) /\ AD i j = (i <? nr)) as Ha.
  { intro i. destruct Hj as [->| ->]; [now rewrite AU_0, AD_0|now rewrite AU_nc, AD_nc]. }
  assert (forall i, vseg d j i = true) as Hv by (intro i; destruct Hj as [->| ->]; [apply vseg_0|apply vseg_nc]).
  assert (dblv d j = false) as Hd by (destruct Hj as [->| ->]; [apply dblv_0|apply dblv_nc]).
  destruct (y_cases' hs y Hy) as [(i & Hi & ->)|(i & p & Hi & Hp & ->)].
  - rewrite mchar_jj by assumption. destruct (Ha i) as [-> ->].
    destruct (Nat.eq_dec i nr) as [->|Hne].
    + tr_ltb 0 nr. cbn [orb]. split; [apply jch_solid; reflexivity|]. intros _ L. lia.
    + tr_ltb i nr. rewrite orb_true_r. cbn [orb]. split; [apply jch_solid; now rewrite orb_true_r|]. intros _ _. apply jch_down.
  - rewrite mchar_vj by assumption. rewrite Hv, Hd. split; [reflexivity|]. intros _ _. reflexivity.
Qed.

Theorem scan_layers_merged : scan_layers (drawm d) = (TM, BM).
Proof.
  facts. pose proof MH_ge as G1. pose proof MW_ge as G2. unfold drawm, mgrid. rewrite (scan_layers_tab (MH d) (MW d) (mchar d)); try lia.
  - reflexivity.
  - intros y x Hy Hx.
    destruct (mchar_cases y x Hy Hx) as [(i & j & Hi & Hj & _ & _ & E & ->)|[(i & j & _ & _ & _ & -> & _)|[(i & j & _ & _ & _ & -> & _)|(P & _)]]].
    + now apply jch_solid.
    + now destruct (dblh d i).
    + now destruct (dblv d j).
    + apply (mem_neq _ cNL box_chars P). reflexivity.
  - intros y Hy. rewrite <- (X_0 ws). apply border_col; [assumption|now left].
  - intros y Hy. replace (MW d - 1) with (X ws nc) by lia. apply border_col; [assumption|now right].
  - rewrite <- (X_0 ws) at 2. rewrite <- (X_0 hs) at 1. rewrite mchar_jj by lia. rewrite AU_0, AD_0, AL_0, AR_0. rewrite Nat.ltb_irrefl.
    tr_ltb 0 nr. tr_ltb 0 nc. cbn [orb andb]. now rewrite dblv_0, dblh_0.
  - intros y Hy. replace (MW d - 1) with (X ws nc) by lia. apply border_col; lia.
  - replace (MW d - 1) with (X ws nc) by lia. replace (MH d - 1) with (X hs nr) by lia. rewrite mchar_jj by lia.
    rewrite AU_nc, AD_nc, AL_nr, AR_nr. tr_ltb 0 nr. tr_ltb 0 nc. rewrite !Nat.ltb_irrefl. cbn [orb]. now rewrite dblv_nc, dblh_nr.
Qed.


(* ------------------------------------------------------------------ the double lines run through the drawing *)
Lemma dblv_cases k : dblv d k = true -> k = v1 \/ md_v2 d = Some k.
Proof.
  unfold dblv. intro E. apply orb_true_iff in E. destruct E as [E|E]; [left; now apply Nat.eqb_eq|right].
  destruct (md_v2 d) as [k'|]; [|discriminate]. apply Nat.eqb_eq in E. now subst.
Qed.
Lemma dblh_cases k : dblh d k = true -> k = h1 \/ md_h2 d = Some k.
Proof.
  unfold dblh. intro E. apply orb_true_iff in E. destruct E as [E|E]; [left; now apply Nat.eqb_eq|right].
  destruct (md_h2 d) as [k'|]; [|discriminate]. apply Nat.eqb_eq in E. now subst.
Qed.
Lemma dblv_bounds k : dblv d k = true -> v1 <= k /\ k < nc.
Proof. intro E. facts. destruct (dblv_cases k E) as [->|E2]; [lia|]. destruct (v2_bounds' d Hwf k E2). lia. Qed.
Lemma dblh_bounds k : dblh d k = true -> h1 <= k /\ k < nr.
Proof. intro E. facts. destruct (dblh_cases k E) as [->|E2]; [lia|]. destruct (h2_bounds' d Hwf k E2). lia. Qed.
Lemma dblv_v1 : dblv d v1 = true. Proof. unfold dblv. now rewrite Nat.eqb_refl. Qed.
Lemma dblh_h1 : dblh d h1 = true. Proof. unfold dblh. now rewrite Nat.eqb_refl. Qed.
Lemma dblv_lt j : j < v1 -> dblv d j = false.
Proof. intro L. destruct (dblv d j) eqn:E; [|reflexivity]. apply dblv_bounds in E. lia. Qed.
Lemma dblh_lt i : i < h1 -> dblh d i = false.
Proof. intro L. destruct (dblh d i) eqn:E; [|reflexivity]. apply dblh_bounds in E. lia. Qed.

Lemma v_full k i : dblv d k = true -> i < nr -> vseg d k i = true.
Proof.
  intros E Hi. pose proof (wf_split d Hwf) as (_ & _ & _ & _ & _ & _ & _ & _ & F & _). destruct (F i Hi) as [F1 F2].
  destruct (dblv_cases k E) as [->|E2]; [assumption|now apply F2].
Qed.
Lemma h_full k j : dblh d k = true -> j < nc -> hseg d k j = true.
Proof.
  intros E Hj. pose proof (wf_split d Hwf) as (_ & _ & _ & _ & _ & _ & _ & _ & _ & F & _). destruct (F j Hj) as [F1 F2].
  destruct (dblh_cases k E) as [->|E2]; [assumption|now apply F2].
Qed.
Lemma AL_full i j : dblh d i = true -> j <= nc -> AL i j = (0 <? j).
Proof. intros E Hj. unfold aL. destruct (0 <? j) eqn:L; [|reflexivity]. apply Nat.ltb_lt in L. now rewrite h_full by (try assumption; lia). Qed.
Lemma AR_full i j : dblh d i = true -> AR i j = (j <? nc).
Proof. intros E. unfold aR. destruct (j <? nc) eqn:L; [|reflexivity]. apply Nat.ltb_lt in L. now rewrite h_full by (try assumption; lia). Qed.
Lemma AU_full i j : dblv d j = true -> i <= nr -> AU i j = (0 <? i).
Proof. intros E Hi. unfold aU. destruct (0 <? i) eqn:L; [|reflexivity]. apply Nat.ltb_lt in L. now rewrite v_full by (try assumption; lia). Qed.
Lemma AD_full i j : dblv d j = true -> AD i j = (i <? nr).
Proof. intros E. unfold aD. destruct (i <? nr) eqn:L; [|reflexivity]. apply Nat.ltb_lt in L. now rewrite v_full by (try assumption; lia). Qed.

(* the characters of a double horizontal line and of a double vertical line *)
Lemma row_dbl i x : dblh d i = true -> x < MW d ->
  (exists j, j <= nc /\ x = X ws j /\ mchar d (X hs i) x = jch (dblv d j) true (AU i j) (AD i j) (0 <? j) (j <? nc)) \/ mchar d (X hs i) x = dH.
Proof.
  intros E Hx. facts. destruct (dblh_bounds i E) as [B1 B2].
  destruct (x_cases ws x Hx) as [(j & Hj & ->)|(j & o & Hj & Ho & ->)].
  - left. exists j. repeat split; try assumption. rewrite mchar_jj by (try assumption; lia). rewrite AL_full, AR_full, E by assumption.
    assert ((0 <? j) || (j <? nc) = true) as Hor.
    { destruct (Nat.eq_dec j 0) as [->|Hne]; [tr_ltb 0 nc; apply orb_true_r|tr_ltb 0 j; reflexivity]. }
    replace (AU i j || AD i j || (0 <? j) || (j <? nc)) with true; [reflexivity|].
    rewrite <- orb_assoc, Hor. now rewrite orb_true_r.
  - right. rewrite mchar_jh by (try assumption; lia). now rewrite h_full, E by assumption.
Qed.
Lemma col_dbl j y : dblv d j = true -> y < MH d ->
  (exists i, i <= nr /\ y = X hs i /\ mchar d y (X ws j) = jch true (dblh d i) (0 <? i) (i <? nr) (AL i j) (AR i j)) \/ mchar d y (X ws j) = dV.
Proof.
  intros E Hy. facts. destruct (dblv_bounds j E) as [B1 B2].
  destruct (y_cases' hs y Hy) as [(i & Hi & ->)|(i & p & Hi & Hp & ->)].
  - left. exists i. repeat split; try assumption. rewrite mchar_jj by (try assumption; lia). rewrite AU_full, AD_full, E by assumption.
    assert ((0 <? i) || (i <? nr) = true) as Hor.
    { destruct (Nat.eq_dec i 0) as [->|Hne]; [tr_ltb 0 nr; apply orb_true_r|tr_ltb 0 i; reflexivity]. }
    now rewrite Hor.
  - right. rewrite mchar_vj by (try assumption; lia). now rewrite v_full, E by assumption.
Qed.

Lemma cross_char i j : dblh d i = true -> dblv d j = true -> mchar d (X hs i) (X ws j) = dXX.
Proof.
  intros Ei Ej. destruct (dblh_bounds i Ei) as [B1 B2]. destruct (dblv_bounds j Ej) as [B3 B4]. facts.
  rewrite mchar_jj by lia. rewrite AU_full, AD_full, AL_full, AR_full by (try assumption; lia).
  tr_ltb 0 i. tr_ltb i nr. tr_ltb 0 j. tr_ltb j nc. now rewrite Ei, Ej.
Qed.

Lemma no_XX y x : y < MH d -> x < MW d ->
  (forall i j, dblh d i = true -> dblv d j = true -> y = X hs i -> x = X ws j -> False) -> mem (mchar d y x) [dXX] = false.
Proof.
  intros Hy Hx Hn. destruct (mem (mchar d y x) [dXX]) eqn:M; [exfalso|reflexivity].
  destruct (mchar_cases y x Hy Hx) as [(i & j & Hi & Hj & Ey & Ex & E & Ec)|[(i & j & _ & _ & _ & Ec & _)|[(i & j & _ & _ & _ & Ec & _)|(P & _)]]].
  - rewrite Ec in M. apply jch_XX in M. destruct M as [M1 M2]. now apply (Hn i j).
  - rewrite Ec in M. now destruct (dblh d i).
  - rewrite Ec in M. now destruct (dblv d j).
  - rewrite (not_in_sub _ [dXX] P) in M by reflexivity. discriminate.
Qed.

Lemma getM y x : y < S (MH d) -> x < MW d -> get TM y x = Some (chM y x).
Proof. intros Hy Hx. unfold TM. now apply get_tab. Qed.
Lemma search_right_TM x y s a : y < S (MH d) -> search_right TM (x, y) s a = scan_right TM s a y (X ws nc - x) x.
Proof. intro Hy. unfold TM. now rewrite search_right_tab by assumption. Qed.
Lemma search_down_TM x y s a : search_down TM (x, y) s a = scan_down TM s a x (MH d - y) y.
Proof. unfold TM. now rewrite search_down_tab. Qed.
Lemma move_TM p : fst p < MW d -> snd p < S (MH d) -> move_to TM p = Ok p.
Proof. apply move_to_tab. Qed.

Lemma Xv_lt j : j <= nc -> X ws j < MW d.
Proof. intro Hj. facts. pose proof (X_le ws j nc Hj ltac:(lia)). lia. Qed.
Lemma Xh_lt' i : i <= nr -> X hs i < MH d.
Proof. intro Hi. facts. pose proof (X_le hs i nr Hi ltac:(lia)). lia. Qed.

Lemma search_cross_m : search TM (0, 0) [dXX] = Ok (dXX, (X ws v1, X hs h1)).
Proof.
  facts. pose proof (X_pos hs h1 ltac:(lia) ltac:(lia)) as Py. pose proof (Xh_lt' h1 ltac:(lia)) as Ly. pose proof (Xv_lt v1 ltac:(lia)) as Lx.
  assert (chM (X hs h1) (X ws v1) = dXX) as Ec by (rewrite chM_in by lia; apply cross_char; [apply dblh_h1|apply dblv_v1]).
  unfold TM. rewrite (search_tab_later (S (MH d)) (MW d) chM [dXX] 0 0 (X hs h1) (X ws v1)); try lia.
  - now rewrite Ec.
  - intros x _ Hx. rewrite chM_in by lia. apply no_XX; try lia. intros i j Ei _ Ey _. destruct (dblh_bounds i Ei).
    pose proof (X_pos hs i ltac:(lia) ltac:(lia)). lia.
  - intros y x H1 H2 Hx. rewrite chM_in by lia. apply no_XX; try lia. intros i j Ei _ Ey _. destruct (dblh_bounds i Ei).
    subst y. apply (X_lt_inv' hs) in H2; lia.
  - intros x Hx. rewrite chM_in by lia. apply no_XX; try lia. intros i j _ Ej _ Ex. destruct (dblv_bounds j Ej).
    subst x. apply (X_lt_inv' ws) in Hx; lia.
  - now rewrite Ec.
Qed.


(* ------------------------------------------------------------------ no information item name *)
Lemma corner_char : chM 0 0 = cTL.
Proof.
  facts. rewrite chM_in by lia. rewrite <- (X_0 ws) at 2. rewrite <- (X_0 hs) at 1. rewrite mchar_jj by lia.
  rewrite AU_0, AD_0, AL_0, AR_0. rewrite Nat.ltb_irrefl. tr_ltb 0 nr. tr_ltb 0 nc. cbn [orb andb]. now rewrite dblv_0, dblh_0.
Qed.
Lemma top_v1_char : chM 0 (X ws v1) = dTv.
Proof.
  facts. rewrite chM_in by lia. rewrite <- (X_0 hs) at 1. rewrite mchar_jj by lia.
  rewrite AU_full, AD_full, AL_0, AR_0 by (try apply dblv_v1; lia). rewrite Nat.ltb_irrefl. tr_ltb 0 nr. tr_ltb 0 v1. tr_ltb v1 nc.
  cbn [orb]. now rewrite dblv_v1, dblh_0.
Qed.

Lemma info_name_m : recognize_information_item_name TM = Ok None.
Proof.
  facts. pose proof (Xv_lt v1 ltac:(lia)) as Lx.
  unfold recognize_information_item_name. rewrite move_TM by (cbn [fst snd]; lia). cbn [bind].
  unfold TM. rewrite (search_tab_same (S (MH d)) (MW d) chM [cTL] 0 0 0); try lia.
  2:{ now rewrite corner_char. }
  cbn [bind]. rewrite (search_tab_same (S (MH d)) (MW d) chM [dTv] 0 0 (X ws v1)); try lia.
  - cbn [bind snd]. reflexivity.
  - intros x _ Hx. rewrite chM_in by lia. destruct (mem (mchar d 0 x) [dTv]) eqn:M; [exfalso|reflexivity].
    destruct (mchar_cases 0 x ltac:(lia) ltac:(lia)) as [(i & j & Hi & Hj & Ey & Ex & E & Ec)|[(i & j & _ & _ & _ & Ec & _)|[(i & j & _ & _ & _ & Ec & _)|(P & _)]]].
    + rewrite Ec in M. apply jch_Tv in M. destruct (dblv_bounds j M). subst x. apply (X_lt_inv' ws) in Hx; lia.
    + rewrite Ec in M. now destruct (dblh d i).
    + rewrite Ec in M. now destruct (dblv d j).
    + rewrite (not_in_sub _ [dTv] P) in M by reflexivity. discriminate.
  - now rewrite top_v1_char.
Qed.

(* ------------------------------------------------------------------ the crossings *)
Lemma jch_hline u dn : okp [dXX] [dH; dXh] (jch false true true true true true) /\
  okp [dLh] [dH; dXh; dBh; dTh] (jch false true u dn true true) /\ okp [dRh] [dH; dXh; dBh; dTh; dXX] (jch false true u dn true true).
Proof. unfold okp. destruct u, dn; repeat split; reflexivity. Qed.
Lemma jch_vline l r : okp [dXX] [dV; dXv] (jch true false true true true true) /\
  okp [dTv] [dV; dXv; dLv; dRv] (jch true false true true l r) /\ okp [dBv] [dV; dXv; dLv; dRv; dXX] (jch true false true true l r).
Proof. unfold okp. destruct l, r; repeat split; reflexivity. Qed.

Lemma crossings_m :
  recognize_crossings TM = Ok ((X ws v1, X hs h1), option_map (fun k => (X ws k, X hs h1)) (md_v2 d), option_map (fun k => (X ws v1, X hs k)) (md_h2 d)).
Proof.
  facts. pose proof (Xh_lt' h1 ltac:(lia)) as Ly. pose proof (Xv_lt v1 ltac:(lia)) as Lx.
  pose proof (wf_split d Hwf) as (_ & _ & _ & _ & _ & _ & _ & _ & _ & _ & FV & FH & _).
  unfold recognize_crossings. rewrite move_TM by (cbn [fst snd]; lia). cbn [bind].
  rewrite search_cross_m. cbn [bind]. rewrite move_TM by (cbn [fst snd]; lia). cbn [bind].
  rewrite search_right_TM by lia. rewrite search_down_TM.
  assert (scan_right TM [dXX] [dH; dXh] (X hs h1) (X ws nc - X ws v1) (X ws v1) =
          match md_v2 d with Some k => Ok (dXX, (X ws k, X hs h1)) | None => Err end) as ->.
  { destruct (md_v2 d) as [k|] eqn:E2.
    - destruct (v2_bounds' d Hwf k E2) as [K1 K2]. pose proof (X_mono ws v1 k K1 ltac:(lia)) as Lk. pose proof (X_le ws k nc ltac:(lia) ltac:(lia)) as Lk2.
      rewrite (scan_right_found TM [dXX] [dH; dXh] (X hs h1) dXX (X ws nc - X ws v1) (X ws k - X ws v1) (X ws v1)); try lia.
      + replace (X ws v1 + (X ws k - X ws v1)) with (X ws k) by lia. reflexivity.
      + intros e He1 He2. rewrite getM by lia. rewrite chM_in by lia.
        destruct (row_dbl h1 (X ws v1 + e) dblh_h1 ltac:(lia)) as [(j & Hj & Ex & Ec)|Ec]; rewrite Ec; [|now apply pass].
        assert (v1 < j) by (apply (X_lt_inv' ws); lia). assert (j < k) by (apply (X_lt_inv' ws); lia).
        destruct (FV k j eq_refl ltac:(lia) ltac:(lia)) as [F1 F2].
        assert (dblv d j = false) as ->.
        { destruct (dblv d j) eqn:Ed; [|reflexivity]. destruct (dblv_cases j Ed) as [->|E3]; [lia|]. rewrite E2 in E3. injection E3 as <-. lia. }
        unfold aU, aD. rewrite F1, F2. tr_ltb 0 h1. tr_ltb h1 nr. tr_ltb 0 j. tr_ltb j nc. cbn [andb].
        destruct (jch_hline true true) as ((P1 & P2) & _). now apply pass.
      + replace (X ws v1 + (X ws k - X ws v1)) with (X ws k) by lia. rewrite getM by lia. rewrite chM_in by lia.
        rewrite cross_char; [reflexivity|apply dblh_h1|]. unfold dblv. rewrite E2, Nat.eqb_refl. apply orb_true_r.
      + reflexivity.
    - rewrite scan_right_none; [reflexivity|]. intros e He1 He2. pose proof (X_le ws v1 nc ltac:(lia) ltac:(lia)).
      exists (chM (X hs h1) (X ws v1 + e)). split; [apply getM; lia|]. rewrite chM_in by lia. apply no_XX; try lia.
      intros i j _ Ej _ Ex. destruct (dblv_cases j Ej) as [->|E3]; [lia|]. rewrite E2 in E3. discriminate. }
  assert (scan_down TM [dXX] [dV; dXv] (X ws v1) (MH d - X hs h1) (X hs h1) =
          match md_h2 d with Some k => Ok (dXX, (X ws v1, X hs k)) | None => Err end) as ->.
  { destruct (md_h2 d) as [k|] eqn:E2.
    - destruct (h2_bounds' d Hwf k E2) as [K1 K2]. pose proof (X_mono hs h1 k K1 ltac:(lia)) as Lk. pose proof (X_le hs k nr ltac:(lia) ltac:(lia)) as Lk2.
      rewrite (scan_down_found TM [dXX] [dV; dXv] (X ws v1) dXX (MH d - X hs h1) (X hs k - X hs h1) (X hs h1)); try lia.
      + replace (X hs h1 + (X hs k - X hs h1)) with (X hs k) by lia. reflexivity.
      + intros e He1 He2. rewrite getM by lia. rewrite chM_in by lia.
        destruct (col_dbl v1 (X hs h1 + e) dblv_v1 ltac:(lia)) as [(i & Hi & Ey & Ec)|Ec]; rewrite Ec; [|now apply pass].
        assert (h1 < i) by (apply (X_lt_inv' hs); lia). assert (i < k) by (apply (X_lt_inv' hs); lia).
        destruct (FH k i eq_refl ltac:(lia) ltac:(lia)) as [F1 F2].
        assert (dblh d i = false) as ->.
        { destruct (dblh d i) eqn:Ed; [|reflexivity]. destruct (dblh_cases i Ed) as [->|E3]; [lia|]. rewrite E2 in E3. injection E3 as <-. lia. }
        unfold aL, aR. rewrite F1, F2. tr_ltb 0 v1. tr_ltb v1 nc. tr_ltb 0 i. tr_ltb i nr. cbn [andb].
        destruct (jch_vline true true) as ((P1 & P2) & _). now apply pass.
      + replace (X hs h1 + (X hs k - X hs h1)) with (X hs k) by lia. rewrite getM by lia. rewrite chM_in by lia.
        rewrite cross_char; [reflexivity| |apply dblv_v1]. unfold dblh. rewrite E2, Nat.eqb_refl. apply orb_true_r.
      + reflexivity.
    - rewrite scan_down_none; [reflexivity|]. intros e He1 He2. pose proof (X_le hs h1 nr ltac:(lia) ltac:(lia)).
      exists (chM (X hs h1 + e) (X ws v1)). split; [apply getM; lia|].
      destruct (Nat.eq_dec (X hs h1 + e) (MH d)) as [->|Hne]; [unfold chM; now rewrite Nat.ltb_irrefl|].
      rewrite chM_in by lia. apply no_XX; try lia.
      intros i j Ei _ Ey _. destruct (dblh_cases i Ei) as [->|E3]; [lia|]. rewrite E2 in E3. discriminate. }
  unfold opt_of.
  destruct (md_v2 d), (md_h2 d); reflexivity.
Qed.


(* ------------------------------------------------------------------ the body rectangle is the whole drawing *)
Lemma mchar_x0 y : mchar d y 0 = mchar d y (X ws 0).
Proof. now rewrite X_0. Qed.
Lemma body_rect_m : recognize_body_rect TM = Ok (0, 0, MW d, MH d).
Proof.
  facts. pose proof (Xh_lt' h1 ltac:(lia)) as Ly. pose proof (Xv_lt v1 ltac:(lia)) as Lx.
  pose proof (X_pos hs h1 ltac:(lia) ltac:(lia)) as Py. pose proof (X_pos ws v1 ltac:(lia) ltac:(lia)) as Px.
  pose proof (X_le hs h1 nr ltac:(lia) ltac:(lia)) as Ly2. pose proof (X_le ws v1 nc ltac:(lia) ltac:(lia)) as Lx2.
  unfold recognize_body_rect. rewrite move_TM by (cbn [fst snd]; lia). cbn [bind].
  rewrite search_cross_m. cbn [bind]. unfold search_up. cbn [fst snd].
  (* up to the top line *)
  rewrite (scan_up_found TM [dTv] [dV; dXv; dLv; dRv] (X ws v1) dTv (X hs h1) (X hs h1)); try lia.
  2:{ intros e He1 He2. rewrite getM by lia. rewrite chM_in by lia.
      destruct (col_dbl v1 (X hs h1 - e) dblv_v1 ltac:(lia)) as [(i & Hi & Ey & Ec)|Ec]; rewrite Ec; [|now apply pass].
      assert (i < h1) by (apply (X_lt_inv' hs); lia).
      assert (0 < i) by (destruct i; [rewrite X_0 in Ey; lia|lia]).
      rewrite (dblh_lt i) by assumption. tr_ltb 0 i. tr_ltb i nr.
      destruct (jch_vline (AL i v1) (AR i v1)) as (_ & (P1 & P2) & _). now apply pass. }
  2:{ rewrite Nat.sub_diag. rewrite getM by lia. now rewrite top_v1_char. }
  2:{ reflexivity. }
  cbn [bind]. rewrite Nat.sub_diag. rewrite search_down_TM.
  (* down to the bottom line *)
  rewrite (scan_down_found TM [dBv] [dV; dXv; dLv; dRv; dXX] (X ws v1) dBv (MH d - 0) (X hs nr) 0); try lia.
  2:{ intros e He1 He2. cbn [Nat.add]. rewrite getM by lia. rewrite chM_in by lia.
      destruct (col_dbl v1 e dblv_v1 ltac:(lia)) as [(i & Hi & Ey & Ec)|Ec]; rewrite Ec; [|now apply pass].
      assert (i < nr) by (apply (X_lt_inv' hs); lia).
      assert (0 < i) by (destruct i; [rewrite X_0 in Ey; lia|lia]).
      tr_ltb 0 i. tr_ltb i nr. destruct (dblh d i) eqn:Ed.
      - rewrite AL_full, AR_full by (try assumption; lia). tr_ltb 0 v1. tr_ltb v1 nc. now apply pass.
      - destruct (jch_vline (AL i v1) (AR i v1)) as (_ & _ & (P1 & P2)). now apply pass. }
  2:{ cbn [Nat.add]. rewrite getM by lia. rewrite chM_in by lia. rewrite mchar_jj by lia.
      rewrite AU_nc || idtac. rewrite AU_full, AD_full, AL_nr, AR_nr by (try apply dblv_v1; lia).
      tr_ltb 0 nr. rewrite Nat.ltb_irrefl. tr_ltb 0 v1. tr_ltb v1 nc. cbn [orb]. now rewrite dblv_v1, dblh_nr. }
  2:{ reflexivity. }
  cbn [bind]. rewrite move_TM by (cbn [fst snd]; lia). cbn [bind]. unfold search_left. cbn [fst snd].
  (* left to the border *)
  rewrite (scan_left_found TM [dLh] [dH; dXh; dBh; dTh] (X hs h1) dLh (X ws v1) (X ws v1)); try lia.
  2:{ intros e He1 He2. rewrite getM by lia. rewrite chM_in by lia.
      destruct (row_dbl h1 (X ws v1 - e) dblh_h1 ltac:(lia)) as [(j & Hj & Ex & Ec)|Ec]; rewrite Ec; [|now apply pass].
      assert (j < v1) by (apply (X_lt_inv' ws); lia).
      assert (0 < j) by (destruct j; [rewrite X_0 in Ex; lia|lia]).
      rewrite (dblv_lt j) by assumption. tr_ltb 0 j. tr_ltb j nc.
      destruct (jch_hline (AU h1 j) (AD h1 j)) as (_ & (P1 & P2) & _). now apply pass. }
  2:{ rewrite Nat.sub_diag. rewrite getM by lia. rewrite chM_in by lia. rewrite mchar_x0. rewrite mchar_jj by lia.
      rewrite AU_0, AD_0, AL_full, AR_full by (try apply dblh_h1; lia). tr_ltb 0 h1. tr_ltb h1 nr. rewrite Nat.ltb_irrefl. tr_ltb 0 nc.
      cbn [orb]. now rewrite dblv_0, dblh_h1. }
  2:{ reflexivity. }
  cbn [bind]. rewrite Nat.sub_diag. rewrite search_right_TM by lia.
  (* right to the border *)
  rewrite (scan_right_found TM [dRh] [dH; dXh; dBh; dTh; dXX] (X hs h1) dRh (X ws nc - 0) (X ws nc) 0); try lia.
  2:{ intros e He1 He2. cbn [Nat.add]. rewrite getM by lia. rewrite chM_in by lia.
      destruct (row_dbl h1 e dblh_h1 ltac:(lia)) as [(j & Hj & Ex & Ec)|Ec]; rewrite Ec; [|now apply pass].
      assert (j < nc) by (apply (X_lt_inv' ws); lia).
      assert (0 < j) by (destruct j; [rewrite X_0 in Ex; lia|lia]).
      tr_ltb 0 j. tr_ltb j nc. destruct (dblv d j) eqn:Ed.
      - rewrite AU_full, AD_full by (try assumption; lia). tr_ltb 0 h1. tr_ltb h1 nr. now apply pass.
      - destruct (jch_hline (AU h1 j) (AD h1 j)) as (_ & _ & (P1 & P2)). now apply pass. }
  2:{ cbn [Nat.add]. rewrite getM by lia. rewrite chM_in by lia. rewrite mchar_jj by lia.
      rewrite AU_nc, AD_nc, AL_full, AR_full by (try apply dblh_h1; lia). tr_ltb 0 h1. tr_ltb h1 nr. rewrite Nat.ltb_irrefl. tr_ltb 0 nc.
      cbn [orb]. now rewrite dblv_nc, dblh_h1. }
  2:{ reflexivity. }
  cbn [bind fst snd Nat.add]. now rewrite PW, PH.
Qed.


(* ------------------------------------------------------------------ BODY = THIN *)
Lemma top_conv_top dn l r : top_conv (jsingle false dn l r) = jsingle false dn l r.
Proof. destruct dn, l, r; reflexivity. Qed.

Lemma getd_THM y x : y < S (MH d) -> x < MW d -> getd THM y x = thc hs ws Vd Hd y x.
Proof. intros Hy Hx. unfold THM, TL. now apply getd_tab. Qed.

Lemma body_layer_m : remove_information_item_region BM THM (0, 0, MW d, MH d) = Ok THM.
Proof.
  facts. pose proof MH_ge as G1. unfold remove_information_item_region.
  unfold BM at 1. rewrite fits_tab by lia. f_equal.
  unfold BM. rewrite remap_tab. unfold THM at 3. unfold TL. change (LH hs) with (MH d). change (LW ws) with (MW d).
  apply tab_ext. intros y x Hy Hx.
  unfold in_range. change (0 <=? x) with true. cbn [andb]. tr_ltb x (MW d). change (S y <? 0) with false. cbv iota.
  rewrite getd_THM by assumption.
  destruct (Nat.eqb_spec y 0) as [->|Hne].
  - rewrite thc_in by (change (LH hs) with (MH d); lia).
    assert (forall x', th 0 x' = th (X hs 0) x') as E0 by (intro; now rewrite X_0). rewrite E0.
    destruct (x_cases ws x Hx) as [(j & Hj & ->)|(j & o & Hj & Ho & ->)].
    + rewrite thl_jj by lia. unfold J, aU. rewrite Nat.ltb_irrefl. cbn [andb]. apply top_conv_top.
    + rewrite thl_jh by lia. now rewrite hseg_0.
  - destruct (y <? MH d) eqn:E.
    + replace (1 <=? y) with true by (symmetry; apply Nat.leb_le; lia). reflexivity.
    + rewrite andb_false_r. unfold thc. change (LH hs) with (MH d). now rewrite E.
Qed.

(* ------------------------------------------------------------------ GRID: every separator drawn in full *)
Definition grc (b0 bn : bool) (c : N) : N :=
  if (c =? cV)%N then (if b0 then cL else if bn then cR else cX)
  else if (c =? cR)%N then (if negb bn then cX else c)
  else if (c =? cL)%N then (if negb b0 then cX else c)
  else if (c =? cWhite)%N then cH else c.
Definition gcc (b0 bn : bool) (c : N) : N :=
  if (c =? cH)%N then (if b0 then cT else if bn then cB else cX)
  else if (c =? cB)%N then (if negb bn then cX else c)
  else if (c =? cT)%N then (if negb b0 then cX else c)
  else if (c =? cWhite)%N then cV else c.

Lemma Xeq0 l j : j <= length l -> (X l j =? 0) = (j =? 0).
Proof.
  intro Hj. destruct (Nat.eqb_spec j 0) as [->|Hne]; [now rewrite X_0|]. apply Nat.eqb_neq. pose proof (X_pos l j ltac:(lia) Hj). lia.
Qed.
Lemma Xlt_last l j : j <= length l -> (X l j <? X l (length l)) = negb (j =? length l).
Proof.
  intro Hj. destruct (Nat.eqb_spec j (length l)) as [->|Hne]; [apply Nat.ltb_irrefl|]. apply Nat.ltb_lt. apply X_mono; lia.
Qed.
Lemma Xpos_b l j : j <= length l -> (0 <? X l j) = negb (j =? 0).
Proof.
  intro Hj. destruct (Nat.eqb_spec j 0) as [->|Hne]; [now rewrite X_0|]. apply Nat.ltb_lt. apply X_pos; lia.
Qed.

Lemma grid_row_char_X j c : j <= nc -> grid_row_char 0 (MW d) (X ws j) c = grc (j =? 0) (j =? nc) c.
Proof.
  intro Hj. unfold grid_row_char, grc. replace (MW d - 1) with (X ws nc) by (unfold MW; lia). unfold mcols in *.
  now rewrite Xeq0, Xpos_b, (X_eqb' ws j (length ws)), Xlt_last by (try assumption; lia).
Qed.
Lemma grid_col_char_X i c : i <= nr -> grid_col_char 0 (MH d) (X hs i) c = gcc (i =? 0) (i =? nr) c.
Proof.
  intro Hi. unfold grid_col_char, gcc. replace (MH d - 1) with (X hs nr) by (unfold MH; lia). unfold mrows in *.
  now rewrite Xeq0, Xpos_b, (X_eqb' hs i (length hs)), Xlt_last by (try assumption; lia).
Qed.

Definition jok (bi0 bin bj0 bjn u dn l r : bool) : bool :=
  implb u (negb bi0) && implb dn (negb bin) && implb l (negb bj0) && implb r (negb bjn) &&
  implb (bj0 || bjn) (eqb u (negb bi0) && eqb dn (negb bin)) && implb (bi0 || bin) (eqb l (negb bj0) && eqb r (negb bjn)) &&
  negb (bi0 && bin) && negb (bj0 && bjn) &&
  implb (negb (bi0 || bin || bj0 || bjn)) ((eqb u dn || (l && r)) && (eqb l r || (u && dn))).

Lemma junction_full bi0 bin bj0 bjn u dn l r : jok bi0 bin bj0 bjn u dn l r = true ->
  gcc bi0 bin (grc bj0 bjn (jsingle u dn l r)) = jsingle (negb bi0) (negb bin) (negb bj0) (negb bjn).
Proof. destruct bi0, bin, bj0, bjn, u, dn, l, r; intro E; vm_compute in E; try discriminate E; reflexivity. Qed.

Lemma jok_holds i j : i <= nr -> j <= nc -> jok (i =? 0) (i =? nr) (j =? 0) (j =? nc) (AU i j) (AD i j) (AL i j) (AR i j) = true.
Proof.
  intros Hi Hj. facts.
  destruct (Nat.eqb_spec i 0) as [Ei0|Ei0]; destruct (Nat.eqb_spec i nr) as [Ein|Ein]; try lia;
  destruct (Nat.eqb_spec j 0) as [Ej0|Ej0]; destruct (Nat.eqb_spec j nc) as [Ejn|Ejn]; try lia; subst;
  repeat first [ rewrite AU_0 | rewrite AD_0 | rewrite AU_nc | rewrite AD_nc | rewrite AL_0 | rewrite AR_0 | rewrite AL_nr | rewrite AR_nr ];
  rewrite ?Nat.ltb_irrefl; try tr_ltb 0 nr; try tr_ltb 0 nc; try tr_ltb 0 i; try tr_ltb i nr; try tr_ltb 0 j; try tr_ltb j nc;
  try reflexivity.
  - unfold aU. rewrite Nat.ltb_irrefl. cbn [andb]. now destruct (AD 0 j).
  - unfold aD. rewrite Nat.ltb_irrefl, andb_false_l. now destruct (AU nr j).
  - unfold aL. rewrite Nat.ltb_irrefl. cbn [andb]. now destruct (AR i 0).
  - unfold aR. rewrite Nat.ltb_irrefl, andb_false_l. now destruct (AL i nc).
  - pose proof (arms_ok d Hwf i j ltac:(lia) ltac:(lia) ltac:(lia) ltac:(lia)) as A. cbv zeta in A.
    unfold aU, aD, aL, aR. tr_ltb 0 i. tr_ltb i nr. tr_ltb 0 j. tr_ltb j nc. cbn [andb].
    destruct (Vd j (i - 1)), (Vd j i), (Hd i (j - 1)), (Hd i j); try reflexivity;
    destruct A as [[A1|[A1 A2]] [A3|[A3 A4]]]; discriminate.
Qed.

Lemma J_full i j : i <= nr -> j <= nc ->
  J hs ws (fun _ _ => true) (fun _ _ => true) i j = jsingle (negb (i =? 0)) (negb (i =? nr)) (negb (j =? 0)) (negb (j =? nc)).
Proof.
  intros Hi Hj. unfold J, aU, aD, aL, aR. rewrite !andb_true_r. change (length hs) with nr. change (length ws) with nc. f_equal.
  - destruct (Nat.eqb_spec i 0); [subst; reflexivity|]. apply Nat.ltb_lt. lia.
  - destruct (Nat.eqb_spec i nr); [subst; apply Nat.ltb_irrefl|]. apply Nat.ltb_lt. lia.
  - destruct (Nat.eqb_spec j 0); [subst; reflexivity|]. apply Nat.ltb_lt. lia.
  - destruct (Nat.eqb_spec j nc); [subst; apply Nat.ltb_irrefl|]. apply Nat.ltb_lt. lia.
Qed.

Lemma junction_grid i j : i <= nr -> j <= nc ->
  grid_col_char 0 (MH d) (X hs i) (grid_row_char 0 (MW d) (X ws j) (J hs ws Vd Hd i j)) = J hs ws (fun _ _ => true) (fun _ _ => true) i j.
Proof.
  intros Hi Hj. rewrite grid_row_char_X, grid_col_char_X, J_full by assumption. apply junction_full. now apply jok_holds.
Qed.


Lemma mapi_tab_rows h w (f : nat -> nat -> N) (c : nat -> list N -> bool) (G : nat -> N -> N) :
  mapi (fun y row => if c y row then mapi G row else row) (tab h w f) =
  tab h w (fun y x => if c y (map (f y) (seq 0 w)) then G x (f y x) else f y x).
Proof.
  unfold mapi, tab. rewrite mapi_from_map_seq. apply map_ext. intro y.
  destruct (c y (map (f y) (seq 0 w))); [now rewrite mapi_from_map_seq|reflexivity].
Qed.

(* a line of the THIN layer has a piece of a horizontal line exactly when it is a line of separators *)
Definition has_h (y : nat) : bool := existsb (N.eqb cH) (map (thc hs ws Vd Hd y) (seq 0 (MW d))).

Lemma has_h_sep i : i <= nr -> has_h (X hs i) = true.
Proof.
  intro Hi. facts. pose proof (Xh_lt' i Hi) as Ly.
  assert (exists j, j < nc /\ hseg d i j = true) as (j & Hj & E).
  { destruct (Nat.eq_dec i nr) as [->|Hne]; [exists 0; split; [lia|apply hseg_nr]|].
    pose proof (wf_split d Hwf) as (_ & _ & _ & _ & _ & _ & _ & _ & _ & _ & _ & _ & F & _). apply F. lia. }
  pose proof (ws_pos d Hwf j Hj) as Pw. pose proof (X_in_lt ws j 0 ltac:(lia) ltac:(lia)) as Lx. pose proof (Xv_lt (S j) ltac:(lia)) as Lx2.
  unfold has_h. apply existsb_exists. exists cH. split; [|reflexivity]. apply in_map_iff. exists (X ws j + 1 + 0). split.
  - rewrite thc_in by assumption. rewrite thl_jh by lia. now rewrite E.
  - apply in_seq. lia.
Qed.
Lemma has_h_in i p : i < nr -> p < nth i hs 0 -> has_h (X hs i + 1 + p) = false.
Proof.
  intros Hi Hp. facts. pose proof (X_in_lt hs i p ltac:(lia) Hp) as Ly. pose proof (Xh_lt' (S i) ltac:(lia)) as Ly2.
  unfold has_h. apply existsb_false. intros c Hc. apply in_map_iff in Hc. destruct Hc as (x & <- & Hx). apply in_seq in Hx.
  rewrite thc_in by (change (LH hs) with (MH d); lia).
  destruct (x_cases ws x ltac:(change (LW ws) with (MW d); lia)) as [(j & Hj & ->)|(j & o & Hj & Ho & ->)].
  - rewrite thl_vj by lia. now destruct (Vd j i).
  - now rewrite thl_tt by lia.
Qed.

(* after the phase of the lines *)
Definition g1f (y x : nat) : N :=
  if (y <? MH d) && has_h y then grid_row_char 0 (MW d) x (thc hs ws Vd Hd y x) else thc hs ws Vd Hd y x.

Lemma g1f_jj i j : i <= nr -> j <= nc -> g1f (X hs i) (X ws j) = grid_row_char 0 (MW d) (X ws j) (J hs ws Vd Hd i j).
Proof.
  intros Hi Hj. pose proof (Xh_lt' i Hi) as Ly. unfold g1f. tr_ltb (X hs i) (MH d). rewrite has_h_sep by assumption. cbn [andb].
  now rewrite thc_in, thl_jj by assumption.
Qed.
Lemma g1f_jh i j o : i <= nr -> j < nc -> o < nth j ws 0 -> g1f (X hs i) (X ws j + 1 + o) = cH.
Proof.
  intros Hi Hj Ho. pose proof (Xh_lt' i Hi) as Ly. unfold g1f. tr_ltb (X hs i) (MH d). rewrite has_h_sep by assumption. cbn [andb].
  rewrite thc_in, thl_jh by assumption. now destruct (Hd i j).
Qed.
Lemma g1f_vj i p j : i < nr -> p < nth i hs 0 -> j <= nc -> g1f (X hs i + 1 + p) (X ws j) = if Vd j i then cV else cWhite.
Proof.
  intros Hi Hp Hj. facts. pose proof (X_in_lt hs i p ltac:(lia) Hp) as Ly. pose proof (Xh_lt' (S i) ltac:(lia)) as Ly2.
  unfold g1f. rewrite has_h_in, andb_false_r by assumption. now rewrite thc_in, thl_vj by (try assumption; change (LH hs) with (MH d); lia).
Qed.
Lemma g1f_tt i p j o : i < nr -> p < nth i hs 0 -> j < nc -> o < nth j ws 0 -> g1f (X hs i + 1 + p) (X ws j + 1 + o) = cWhite.
Proof.
  intros Hi Hp Hj Ho. facts. pose proof (X_in_lt hs i p ltac:(lia) Hp) as Ly. pose proof (Xh_lt' (S i) ltac:(lia)) as Ly2.
  unfold g1f. rewrite has_h_in, andb_false_r by assumption. now rewrite thc_in, thl_tt by (try assumption; change (LH hs) with (MH d); lia).
Qed.

(* a column has a piece of a vertical line exactly when it is a column of separators *)
Definition has_v (x : nat) : bool := existsb (fun y => (getd (tab (S (MH d)) (MW d) g1f) y x =? cV)%N) (seq 0 (MH d - 0)).

Lemma has_v_sep j : j <= nc -> has_v (X ws j) = true.
Proof.
  intro Hj. facts. pose proof (Xv_lt j Hj) as Lx.
  assert (exists i, i < nr /\ vseg d j i = true) as (i & Hi & E).
  { destruct (Nat.eq_dec j nc) as [->|Hne]; [exists 0; split; [lia|apply vseg_nc]|].
    pose proof (wf_split d Hwf) as (_ & _ & _ & _ & _ & _ & _ & _ & _ & _ & _ & _ & _ & F). apply F. lia. }
  pose proof (hs_pos d Hwf i Hi) as Ph. pose proof (X_in_lt hs i 0 ltac:(lia) ltac:(lia)) as Ly. pose proof (Xh_lt' (S i) ltac:(lia)) as Ly2.
  unfold has_v. apply existsb_exists. exists (X hs i + 1 + 0). split; [apply in_seq; lia|].
  rewrite getd_tab by lia. rewrite g1f_vj by lia. now rewrite E.
Qed.
Lemma has_v_in j o : j < nc -> o < nth j ws 0 -> has_v (X ws j + 1 + o) = false.
Proof.
  intros Hj Ho. facts. pose proof (X_in_lt ws j o ltac:(lia) Ho) as Lx. pose proof (Xv_lt (S j) ltac:(lia)) as Lx2.
  unfold has_v. apply existsb_false. intros y Hy. apply in_seq in Hy. rewrite getd_tab by lia.
  destruct (y_cases' hs y ltac:(change (LH hs) with (MH d); lia)) as [(i & Hi & ->)|(i & p & Hi & Hp & ->)].
  - now rewrite g1f_jh by lia.
  - now rewrite g1f_tt by lia.
Qed.

Lemma grid_layer_m : make_grid THM (0, 0, MW d, MH d) = Ok GM.
Proof.
  facts. pose proof MH_ge as G1. pose proof MW_ge as G2. unfold make_grid. unfold THM at 1. unfold TL at 1.
  change (LH hs) with (MH d). change (LW ws) with (MW d). rewrite fits_tab by lia. f_equal.
  unfold THM, TL. change (LH hs) with (MH d). change (LW ws) with (MW d).
  rewrite (mapi_tab_rows (S (MH d)) (MW d) (thc hs ws Vd Hd)
             (fun y row => in_range 0 (MH d) y && existsb (N.eqb cH) (firstn (MW d - 0) (skipn 0 row)))
             (fun x c => if in_range 0 (MW d) x then grid_row_char 0 (MW d) x c else c)).
  assert (tab (S (MH d)) (MW d)
            (fun y x => if in_range 0 (MH d) y && existsb (N.eqb cH) (firstn (MW d - 0) (skipn 0 (map (thc hs ws Vd Hd y) (seq 0 (MW d)))))
                        then (if in_range 0 (MW d) x then grid_row_char 0 (MW d) x (thc hs ws Vd Hd y x) else thc hs ws Vd Hd y x)
                        else thc hs ws Vd Hd y x) = tab (S (MH d)) (MW d) g1f) as ->.
  { apply tab_ext. intros y x Hy Hx. unfold g1f, has_h, in_range. cbn [Nat.leb andb skipn]. rewrite Nat.sub_0_r.
    rewrite firstn_all2 by (rewrite map_length, seq_length; lia). now tr_ltb x (MW d). }
  rewrite tab_row_nth by lia. rewrite map_length, seq_length.
  rewrite remap_tab. unfold GM, TL. change (LH hs) with (MH d). change (LW ws) with (MW d).
  apply tab_ext. intros y x Hy Hx. rewrite nth_map_seq by assumption. fold (has_v x).
  unfold in_range. cbn [Nat.leb andb]. tr_ltb x (MW d). cbn [andb].
  destruct (y <? MH d) eqn:Ey.
  2:{ cbn [andb]. apply Nat.ltb_ge in Ey. assert (y = MH d) as -> by lia. unfold g1f. rewrite Nat.ltb_irrefl. cbn [andb].
      change (MH d) with (LH hs). now rewrite !thc_last. }
  apply Nat.ltb_lt in Ey. cbn [andb]. rewrite (thc_in hs ws (fun _ _ => true) (fun _ _ => true)) by assumption.
  destruct (y_cases' hs y Ey) as [(i & Hi & ->)|(i & p & Hi & Hp & ->)];
  destruct (x_cases ws x Hx) as [(j & Hj & ->)|(j & o & Hj & Ho & ->)].
  - rewrite has_v_sep, g1f_jj, thl_jj by assumption. now apply junction_grid.
  - rewrite has_v_in, g1f_jh, thl_jh by assumption. reflexivity.
  - rewrite has_v_sep, g1f_vj, thl_vj by assumption. now destruct (Vd j i).
  - rewrite has_v_in, g1f_tt, thl_tt by assumption. reflexivity.
Qed.

(* ------------------------------------------------------------------ the canvas of a merged drawing *)
Definition merged_canvas : canvas :=
  {| cv_text := TM; cv_thin := THM; cv_body := THM; cv_grid := GM;
     cv_cross := (X ws v1, X hs h1);
     cv_horz := option_map (fun k => (X ws k, X hs h1)) (md_v2 d);
     cv_vert := option_map (fun k => (X ws v1, X hs k)) (md_h2 d);
     cv_name := None; cv_rect := (0, 0, MW d, MH d) |}.

Theorem scan_merged : scan_from TM BM = Ok merged_canvas.
Proof.
  unfold scan_from. rewrite info_name_m. cbn [bind]. rewrite crossings_m. cbn [bind]. rewrite body_rect_m. cbn [bind].
  rewrite thin_layer_m, body_layer_m. cbn [bind]. rewrite grid_layer_m. reflexivity.
Qed.

End Scan.
