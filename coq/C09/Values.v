(* C09/C08 — the FEEL value type used by the models of builders.rs (comparison, equality, logic)
   and bifs/core.rs.  Owner: builder-laws.  No proofs in this file.

   numbers    (c, e) stands for c * 10^e, exact; compared by cross-scaling (decNumber compares exactly)
   strings    lists of Unicode scalar values (Rust compares UTF-8 bytes: same order)
   dates      (year, month, day)
   times      nanosecond of the day + offset in seconds (explicit offsets only; Z = offset 0)
   date-times date + nanosecond of the day + offset
   durations  days-and-time: nanoseconds; years-and-months: months
   contexts   entry lists sorted by key (BTreeMap<Name, Value>), keys are strings
   functions  opaque (only the arity is kept) *)
From Coq Require Import List NArith ZArith Bool Arith.
Import ListNotations.
Open Scope Z_scope.

Inductive value :=
| VNull
| VBool (b : bool)
| VNum (c e : Z)
| VStr (s : list N)
| VDate (y m d : Z)
| VTime (ns off : Z)
| VDateTime (y m d ns off : Z)
| VDtd (ns : Z)
| VYmd (months : Z)
| VList (vs : list value)
| VCtx (es : list (list N * value))
| VRange (lo : value) (lc : bool) (hi : value) (hc : bool)
| VFun (arity : N).

(* ---------------- orders on the atoms ---------------- *)

(* lexicographic order of code-point lists (String::cmp, Name::cmp) *)
Fixpoint lcmp (a b : list N) : comparison :=
  match a, b with
  | [], [] => Eq
  | [], _ :: _ => Lt
  | _ :: _, [] => Gt
  | x :: a', y :: b' => match N.compare x y with Eq => lcmp a' b' | c => c end
  end.
Definition leqb (a b : list N) : bool := match lcmp a b with Eq => true | _ => false end.

(* exact comparison of c1 * 10^e1 with c2 * 10^e2 *)
Definition ncmp (c1 e1 c2 e2 : Z) : comparison :=
  let e := Z.min e1 e2 in Z.compare (c1 * 10 ^ (e1 - e)) (c2 * 10 ^ (e2 - e)).

(* comparison of (year, month, day) triples *)
Definition dcmp (y1 m1 d1 y2 m2 d2 : Z) : comparison :=
  match Z.compare y1 y2 with
  | Eq => match Z.compare m1 m2 with Eq => Z.compare d1 d2 | c => c end
  | c => c end.

(* days since 1970-01-01 of a proleptic Gregorian date *)
Definition days_from_civil (y m d : Z) : Z :=
  let y' := if m <=? 2 then y - 1 else y in
  let era := y' / 400 in
  let yoe := y' - era * 400 in
  let doy := (153 * (m + (if 2 <? m then -3 else 9)) + 2) / 5 + d - 1 in
  let doe := yoe * 365 + yoe / 4 - yoe / 100 + doy in
  era * 146097 + doe - 719468.

Definition NS_SEC : Z := 1000000000.
Definition NS_DAY : Z := 86400 * NS_SEC.

(* chrono 0.4 NaiveDate covers the years -262143 ..= 262142 *)
Definition chrono_year (y : Z) : bool := (-262143 <=? y) && (y <=? 262142).

(* UTC instant of a time of day (the code attaches today's date to both operands: it cancels) *)
Definition tinst (ns off : Z) : Z := ns - off * NS_SEC.
(* UTC instant of a date-time; None where chrono cannot represent the date *)
Definition dtinst (y m d ns off : Z) : option Z :=
  if chrono_year y then Some (days_from_civil y m d * NS_DAY + ns - off * NS_SEC) else None.

Definition is_lt (c : comparison) : bool := match c with Lt => true | _ => false end.
Definition is_gt (c : comparison) : bool := match c with Gt => true | _ => false end.
Definition is_le (c : comparison) : bool := match c with Gt => false | _ => true end.
Definition is_ge (c : comparison) : bool := match c with Lt => false | _ => true end.
Definition is_eq (c : comparison) : bool := match c with Eq => true | _ => false end.

(* ---------------- contexts ---------------- *)
Fixpoint lookup (k : list N) (es : list (list N * value)) : option value :=
  match es with [] => None | (k', v) :: r => if leqb k k' then Some v else lookup k r end.
Definition has_key (k : list N) (es : list (list N * value)) : bool :=
  match lookup k es with Some _ => true | None => false end.

(* keys strictly ascending *)
Fixpoint keys_sorted (ks : list (list N)) : bool :=
  match ks with
  | [] => true
  | k :: r => match r with [] => true | k' :: _ => is_lt (lcmp k k') && keys_sorted r end
  end.

(* well-formed: every context (at any depth) has strictly ascending keys *)
Fixpoint wfv (v : value) : bool :=
  match v with
  | VList vs => forallb wfv vs
  | VCtx es => keys_sorted (map fst es) && forallb (fun e => wfv (snd e)) es
  | VRange lo _ hi _ => wfv lo && wfv hi
  | _ => true
  end.

Fixpoint vsize (v : value) : nat :=
  match v with
  | VList vs => S (fold_right (fun x n => (vsize x + n)%nat) O vs)
  | VCtx es => S (fold_right (fun e n => (vsize (snd e) + n)%nat) O es)
  | VRange lo _ hi _ => S (vsize lo + vsize hi)
  | _ => 1%nat
  end.
