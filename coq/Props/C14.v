(* C14 — property theorems only.  Proofs are in C14/Proofs.v. *)
From Coq Require Import ZArith Bool List String Ascii.
From DV Require Import Base.Calendar C15.Model C14.Model C14.Proofs.
Import ListNotations.
Open Scope string_scope.
Open Scope Z_scope.

Theorem C14_orig_refuted :
  parse_date_orig "2021-01-00" = Some (2021, 1, 0) /\ parse_date "2021-01-00" = None /\
  parse_date_orig "0999-01-01" = None /\ parse_date "0999-01-01" = Some (999, 1, 1) /\
  print_date_orig (-5, 1, 1) = "-005-01-01" /\ parse_date (print_date_orig (-5, 1, 1)) = None /\
  parse_date (print_date (-5, 1, 1)) = Some (-5, 1, 1) /\
  option_map print_time_orig (parse_time_orig db0 "10:00:00-00:30") = Some "10:00:00+00:30" /\
  option_map print_time (parse_time db0 "10:00:00-00:30") = Some "10:00:00-00:30" /\
  option_map print_time_orig (parse_time_orig db0 "10:00:00+01:75") = Some "10:00:00+02:15" /\ parse_time db0 "10:00:00+01:75" = None /\
  parse_time_orig db0 "10:00:00@Etc/GMT+1" = None /\ option_map print_time (parse_time db0 "10:00:00@Etc/GMT+1") = Some "10:00:00@Etc/GMT+1" /\
  parse_dtd_orig "P1DT" = Some DAY_NS /\ parse_dtd "P1DT" = None.
Proof. exact orig_refuted. Qed.

(* --- dates: every FEEL date (years -999999999..999999999, negative, below 1000) prints to a text that reads back as itself --- *)
Theorem C14_print_parse_date : forall y m d, feel_date y m d = true -> parse_date (print_date (y, m, d)) = Some (y, m, d).
Proof. exact print_parse_date. Qed.

(* impossible calendar dates never parse *)
Theorem C14_parse_date_valid : forall s y m d, parse_date s = Some (y, m, d) -> feel_date y m d = true.
Proof. exact parse_date_valid. Qed.

(* --- years-and-months durations of any magnitude (years component up to 2^64-1) --- *)
Theorem C14_print_parse_ymd : forall n, Z.abs n / 12 <= u64_max -> parse_ymd (print_ymd n) = Some n.
Proof. exact print_parse_ymd. Qed.

Theorem C14_ymd_normal_form : forall n, 0 <= Z.abs n mod 12 < 12 /\ print_ymd 14 = "P1Y2M" /\ print_ymd (-14) = "-P1Y2M" /\
  option_map print_ymd (parse_ymd "P14M") = Some "P1Y2M".
Proof. exact ymd_normal_form. Qed.

Theorem C14_dtd_normal_form : forall n,
  0 <= dtd_hours n < 24 /\ 0 <= dtd_minutes n < 60 /\ 0 <= dtd_seconds n < 60 /\ 0 <= dtd_subsec n < NS /\
  option_map print_dtd (parse_dtd "PT36H") = Some "P1DT12H" /\ option_map print_dtd (parse_dtd "-PT90M") = Some "-PT1H30M" /\
  option_map print_dtd (parse_dtd "PT86400S") = Some "P1D".
Proof. exact dtd_normal_form. Qed.

(* --- zones: every offset -14:59:59..+14:59:59 with its sign (finite sweep of 107998 offsets), Z, no zone, named zones --- *)
Theorem C14_print_parse_zone_offset : forall db o, -53999 <= o <= 53999 -> o <> 0 ->
  parse_zone db (print_zone (ZOffset o)) = Some (ZOffset o).
Proof. exact print_parse_zone_offset. Qed.

Theorem C14_print_parse_zone : forall db z, zone_ok db z -> parse_zone db (print_zone z) = Some z.
Proof. exact print_parse_zone. Qed.

(* offset hours above 14, offset minutes or seconds above 59 never parse; a parsed offset is not 0 (that is UTC) *)
Theorem C14_parse_zone_range : forall db s o, parse_zone db s = Some (ZOffset o) -> o <> 0 /\ -53999 <= o <= 53999.
Proof. exact parse_zone_range. Qed.

(* --- times.  Proved for whole seconds with every zone; the fractional part (nanoseconds_to_string / fraction_to_nanos
   round trip) is proved only on the witness grid below and otherwise rests on the correspondence check --- *)
Theorem C14_print_parse_time_partial : forall db t, t_ns t = 0 -> 0 <= t_h t < 24 -> 0 <= t_mi t < 60 -> 0 <= t_s t < 60 ->
  zone_ok db (t_zone t) -> parse_time db (print_time t) = Some t.
Proof. exact print_parse_time_whole. Qed.

(* hour 24, minute or second 60 and above never parse *)
Theorem C14_parse_time_valid : forall db s t, parse_time db s = Some t ->
  t_h t < 24 /\ t_mi t < 60 /\ t_s t < 60 /\ (forall o, t_zone t = ZOffset o -> o <> 0 /\ -53999 <= o <= 53999).
Proof. exact parse_time_valid. Qed.

(* finite witness grids (bound = the listed grids): 12 nanosecond values x 9 zones x 3 times of day; x 7 dates; 864 durations *)
Theorem C14_print_parse_time_grid_partial : forall t, In t time_grid -> parse_time db0 (print_time t) = Some t.
Proof. exact print_parse_time_grid. Qed.

Theorem C14_print_parse_datetime_grid_partial : forall d t, In d date_grid -> In t time_grid ->
  parse_datetime db0 (print_datetime (d, t)) = Some (d, t).
Proof. exact print_parse_datetime_grid. Qed.

Theorem C14_print_parse_dtd_grid_partial : forall n, In n dtd_grid -> parse_dtd (print_dtd n) = Some n.
Proof. exact print_parse_dtd_grid. Qed.

Example C14_nonvacuous :
  parse_date "2024-02-29" = Some (2024, 2, 29) /\ parse_date "2023-02-29" = None /\
  option_map print_time (parse_time db0 "10:00:00.509083-00:30") = Some "10:00:00.509083-00:30" /\
  parse_time db0 "24:00:00" = None /\ parse_time db0 "10:00:60" = None /\ parse_time db0 "10:00:00+15:00" = None /\
  parse_duration "P14M" = Some (DYm 14) /\ parse_duration "PT36H" = Some (DDt 129600000000000) /\ parse_duration "P1Y2D" = None /\
  option_map print_datetime (bif_date_and_time db0 "-0005-01-01T00:00:00.000000001@Europe/Warsaw") = Some "-0005-01-01T00:00:00.000000001@Europe/Warsaw".
Proof. exact c14_nonvacuous. Qed.

Print Assumptions C14_orig_refuted.
Print Assumptions C14_print_parse_date.
Print Assumptions C14_parse_date_valid.
Print Assumptions C14_print_parse_ymd.
Print Assumptions C14_ymd_normal_form.
Print Assumptions C14_dtd_normal_form.
Print Assumptions C14_print_parse_zone_offset.
Print Assumptions C14_print_parse_zone.
Print Assumptions C14_parse_zone_range.
Print Assumptions C14_print_parse_time_partial.
Print Assumptions C14_parse_time_valid.
Print Assumptions C14_print_parse_time_grid_partial.
Print Assumptions C14_print_parse_datetime_grid_partial.
Print Assumptions C14_print_parse_dtd_grid_partial.
Print Assumptions C14_nonvacuous.
