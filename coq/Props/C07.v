(* C07 — property theorems only.  Proofs are in C07/Proofs.v (and C07/Digits.v). *)
From Coq Require Import String ZArith NArith Bool List Ascii.
From DV Require Import Base.Dec Base.DecRound C07.Model C07.Proofs C07.Reader C07.ReadBack.
Import ListNotations.
Open Scope Z_scope.

(* Every finite number — every sign, every coefficient, every exponent — is printed (the usize arithmetic of
   scientific_to_plain never traps), the text is `-?digits(.digits)?` without exponent, it is a JSON number,
   and it denotes exactly the number's value (equal as values: same sign, coefficients equal after cross-scaling). *)
Theorem C07_plain_exact : forall d : dec, exists s p,
  print d = Some s /\ is_plain s = true /\ is_json s = true /\
  denotes s = Some p /\ neg p = neg d /\ veq p d.
Proof. exact plain_exact. Qed.

Theorem C07_no_underflow : forall d : dec, print d <> None.
Proof. exact print_total. Qed.

(* the printed text is the positional rendering of the digits: no detour through scientific notation is visible *)
Theorem C07_print_render : forall d : dec, print d = Some (sign_of d ++ render_unsigned (coef d) (expo d)).
Proof. exact print_render. Qed.

(* the datum built from the token Numeric(ip, fp) / an xsd:decimal text is exactly the number the literal denotes
   (the subsequent rounding to 34 digits is the identity for up to 34 significant digits: C02_round_exact) *)
Theorem C07_literal_exact : forall ip fp, all_digits ip = true -> all_digits fp = true -> ip <> [] -> fp <> [] ->
  denotes (ip ++ "."%char :: fp) = Some (numeric_literal ip fp).
Proof. exact literal_exact. Qed.

Theorem C07_integer_literal_exact : forall ip, all_digits ip = true -> ip <> [] ->
  denotes ip = Some (mkdec false (digits_val ip) 0).
Proof. exact integer_literal_exact. Qed.

(* READ-BACK.  from_plain (C07/Reader.v) models FeelNumber::from_str = decQuadFromString on plain numerals: the datum the
   text denotes (all digits as coefficient, minus the number of fraction digits as exponent), rounded once to decimal128
   (round34: 34 digits, half-even; None = not finite -> Err). *)
Theorem C07_reader_is_denotes_then_round : forall s,
  from_plain s = match denotes s with Some p => round34 (neg p) (coef p) (expo p) | None => None end.
Proof. exact from_plain_denotes. Qed.

(* For EVERY decimal128 datum d (in_format: coefficient < 10^34, -6176 <= exponent <= 6111 — all signs, zeros included):
   the printed text is read back without error, as a decimal128 datum with the same sign and exactly the same value
   (veq: coefficients equal after cross-scaling).  However long the text is (up to 34 + 6111 digits). *)
Theorem C07_read_back : forall d, in_format d = true ->
  exists s d', print d = Some s /\ from_plain s = Some d' /\ veq d' d /\ neg d' = neg d /\ in_format d' = true.
Proof. exact read_back_equal. Qed.

(* ... and which datum it is: d itself when the exponent is not positive; otherwise reread d (C07/Reader.v) *)
Theorem C07_read_back_datum : forall d, in_format d = true ->
  read_back d = Some (reread d) /\ veq (reread d) d /\ neg (reread d) = neg d /\ in_format (reread d) = true.
Proof. exact read_back_exact. Qed.

(* at most 34 digits from the first non-zero digit on: the reader rounds nothing, it returns the number the text denotes *)
Theorem C07_read_back_short : forall d, in_format d = true -> printed_digits d <= 34 ->
  exists s p, print d = Some s /\ denotes s = Some p /\ from_plain s = Some p /\ veq p d.
Proof. exact read_back_short. Qed.

(* more than 34 digits (a positive exponent, e.g. 1E+40 prints 41 digits): the reader keeps 34 digits and drops exactly the
   last k = digits - 34 ones; they are among the expo d zeros the printer appended (k <= expo d), so nothing is lost:
   the result is coef * 10^(expo - k) (34 digits) with exponent k, equal in value *)
Theorem C07_read_back_long : forall d, in_format d = true -> 34 < printed_digits d ->
  let k := printed_digits d - 34 in
  0 < k <= expo d /\
  read_back d = Some (mkdec (neg d) (coef d * 10 ^ Z.to_N (expo d - k)) k) /\
  ndigits (coef d * 10 ^ Z.to_N (expo d - k)) = 34%N /\
  veq (mkdec (neg d) (coef d * 10 ^ Z.to_N (expo d - k)) k) d.
Proof. exact read_back_long. Qed.

Example C07_read_back_examples :
  read_back (mkdec false 1 40) = Some (mkdec false (10 ^ 33) 7) /\ printed_digits (mkdec false 1 40) = 41 /\
  read_back (mkdec true 1230 (-2)) = Some (mkdec true 1230 (-2)) /\
  read_back (mkdec true 0 3) = Some (mkdec true 0 0) /\
  read_back (mkdec false 15 (-8)) = Some (mkdec false 15 (-8)) /\
  read_back (mkdec false 12 32) = Some (mkdec false (12 * 10 ^ 32) 0) /\
  read_back (mkdec false 12 33) = Some (mkdec false (12 * 10 ^ 32) 1).
Proof. exact read_back_examples. Qed.

(* the hypothesis in_format is needed: a 35-digit coefficient (not a decimal128 datum) is rounded by the reader *)
Example C07_read_back_needs_format :
  read_back (mkdec false (10 ^ 34 + 1) 0) = Some (mkdec false (10 ^ 33) 1) /\
  veqb (mkdec false (10 ^ 33) 1) (mkdec false (10 ^ 34 + 1) 0) = false /\
  in_format (mkdec false (10 ^ 34 + 1) 0) = false.
Proof. exact read_back_needs_format. Qed.

(* the function at the pinned commit violated the property on two classes *)
Theorem C07_print_orig_refuted :
  (exists d s, print_orig d = Some s /\ is_plain s = false) /\
  (exists d s, print_orig d = Some s /\ is_plain s = true /\ is_json s = false).
Proof. exact print_orig_refuted. Qed.

Example C07_nonvacuous :
  print (mkdec true 15 (-8)) = Some (rd "-0.00000015"%string) /\
  print (mkdec false 1230 2) = Some (rd "123000"%string) /\
  print (mkdec true 12345 (-2)) = Some (rd "-123.45"%string) /\
  print (mkdec false 0 3) = Some (rd "0"%string).
Proof. exact print_nontrivial. Qed.

Print Assumptions C07_plain_exact.
Print Assumptions C07_no_underflow.
Print Assumptions C07_print_render.
Print Assumptions C07_literal_exact.
Print Assumptions C07_integer_literal_exact.
Print Assumptions C07_reader_is_denotes_then_round.
Print Assumptions C07_read_back.
Print Assumptions C07_read_back_datum.
Print Assumptions C07_read_back_short.
Print Assumptions C07_read_back_long.
Print Assumptions C07_read_back_examples.
Print Assumptions C07_read_back_needs_format.
Print Assumptions C07_print_orig_refuted.
Print Assumptions C07_nonvacuous.
