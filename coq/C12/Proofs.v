(* C12 — proofs over coq/C12/Model.v.  (owner: builder-total) *)
From Coq Require Import List Arith Bool PeanoNat Lia.
From DV Require Import C12.Model.
Import ListNotations.

(* ------------------------------------------------------------------ tables *)
Lemma table_build_rules_total : forall ic oc rs, table_build_rules ic oc rs = Ok \/ table_build_rules ic oc rs = Err.
Proof.
  induction rs as [|r rest IH]; cbn [table_build_rules]; [left; reflexivity|].
  destruct (in_entries r =? ic); cbn [negb]; [|right; reflexivity].
  destruct (out_entries r =? oc); cbn [negb]; [exact IH | right; reflexivity].
Qed.

Lemma table_build_total : forall t, table_build t = Ok \/ table_build t = Err.
Proof. intros t. apply table_build_rules_total. Qed.

Lemma table_build_ok_iff : forall t, table_build t = Ok <-> Forall (fun r => in_entries r = in_clauses t /\ out_entries r = out_clauses t) (rules t).
Proof.
  intros [ic oc rs]. unfold table_build. cbn [in_clauses out_clauses rules].
  induction rs as [|r rest IH]; cbn [table_build_rules]; [split; [constructor | reflexivity]|].
  destruct (in_entries r =? ic) eqn:E1; cbn [negb].
  - destruct (out_entries r =? oc) eqn:E2; cbn [negb].
    + apply Nat.eqb_eq in E1, E2. rewrite IH. split; [intros H; constructor; auto | intros H; inversion H; assumption].
    + apply Nat.eqb_neq in E2. split; [discriminate | intros H; inversion H as [|? ? [_ Ho] _]; contradiction].
  - apply Nat.eqb_neq in E1. split; [discriminate | intros H; inversion H as [|? ? [Hi _] _]; contradiction].
Qed.

Lemma table_eval_total : forall t, table_eval t = Ok.
Proof. reflexivity. Qed.

(* the pinned builder crashes exactly when some rule is shorter than the clauses *)
Lemma table_build_orig_crash_iff : forall t,
  (exists s, table_build_orig t = Crash s) <-> Exists (fun r => in_entries r < in_clauses t \/ out_entries r < out_clauses t) (rules t).
Proof.
  intros [ic oc rs]. unfold table_build_orig. cbn [in_clauses out_clauses rules].
  induction rs as [|r rest IH]; cbn [table_build_rules_orig].
  - split; [intros [s H]; discriminate | intros H; inversion H].
  - destruct (in_entries r <? ic) eqn:E1.
    + apply Nat.ltb_lt in E1. split; [intros _; left; left; exact E1 | intros _; eexists; reflexivity].
    + apply Nat.ltb_ge in E1. destruct (out_entries r <? oc) eqn:E2.
      * apply Nat.ltb_lt in E2. split; [intros _; left; right; exact E2 | intros _; eexists; reflexivity].
      * apply Nat.ltb_ge in E2. rewrite IH. split; [intros H; right; exact H | intros H; inversion H as [? ? [Hx|Hx]|]; [lia | lia | assumption]].
Qed.

(* ------------------------------------------------------------------ recursion over requirements *)
Definition stepf (f : nat) (g : graph) : outcome -> nat -> outcome :=
  fun acc m => match acc with
               | Ok => match targets g m with Some _ => follow f g m | None => Ok end
               | other => other
               end.

Lemma follow_S : forall f g n, follow (S f) g n = match targets g n with None => Ok | Some ts => fold_left (stepf f g) ts Ok end.
Proof. reflexivity. Qed.

Lemma fold_stuck : forall f g ts, fold_left (stepf f g) ts Diverge = Diverge.
Proof. induction ts as [|t ts IH]; cbn [fold_left]; [reflexivity | exact IH]. Qed.

Lemma follow_ok_or_diverge : forall f g n, follow f g n = Ok \/ follow f g n = Diverge.
Proof.
  induction f as [|f IH]; intros g n; [right; reflexivity|]. rewrite follow_S.
  destruct (targets g n) as [ts|]; [|left; reflexivity].
  assert (H : forall acc, acc = Ok \/ acc = Diverge -> fold_left (stepf f g) ts acc = Ok \/ fold_left (stepf f g) ts acc = Diverge).
  { induction ts as [|t ts IHt]; intros acc Hacc; cbn [fold_left]; [exact Hacc|].
    apply IHt. destruct Hacc as [-> | ->]; cbn [stepf]; [|right; reflexivity].
    destruct (targets g t); [apply IH | left; reflexivity]. }
  apply H. left. reflexivity.
Qed.

Lemma fold_diverge_in : forall f g ts m, In m ts -> targets g m <> None -> follow f g m = Diverge -> fold_left (stepf f g) ts Ok = Diverge.
Proof.
  induction ts as [|t ts IH]; intros m Hin Hnode Hd; [inversion Hin|].
  cbn [fold_left]. destruct Hin as [-> | Hin].
  - cbn [stepf]. destruct (targets g m); [|congruence]. rewrite Hd. apply fold_stuck.
  - cbn [stepf]. destruct (targets g t).
    + destruct (follow_ok_or_diverge f g t) as [-> | ->]; [eapply IH; eauto | apply fold_stuck].
    + eapply IH; eauto.
Qed.

Lemma path_source_node : forall g a b, path g a b -> targets g a <> None.
Proof. intros g a b H. inversion H; subst; congruence. Qed.

(* on a cyclic graph the recursion of the pinned code never ends, whatever the stack: a node on a cycle diverges for every fuel *)
Lemma cycle_diverges : forall g n, on_cycle g n -> forall fuel, follow fuel g n = Diverge.
Proof.
  intros g n Hc fuel.
  assert (H : forall fuel a k, path g a k -> on_cycle g k -> follow fuel g a = Diverge).
  { induction fuel0 as [|f IH]; intros a k Hp Hk; [reflexivity|].
    rewrite follow_S. inversion Hp as [? ? ts Ht Hin | ? m ? ts Ht Hin Hmk]; subst; rewrite Ht.
    - eapply fold_diverge_in; [exact Hin | exact (path_source_node g k k Hk) | exact (IH k k Hk Hk)].
    - eapply fold_diverge_in; [exact Hin | exact (path_source_node g m k Hmk) | exact (IH m k Hmk Hk)]. }
  exact (H fuel n n Hc Hc).
Qed.

(* with a rank that strictly decreases along every requirement between nodes the recursion ends within rank+1 frames *)
Lemma ranked_follow_ok : forall g (rank : nat -> nat),
  (forall n ts m, targets g n = Some ts -> In m ts -> targets g m <> None -> rank m < rank n) ->
  forall fuel n, rank n < fuel -> follow fuel g n = Ok.
Proof.
  intros g rank Hr. induction fuel as [|f IH]; intros n Hn; [lia|].
  rewrite follow_S. destruct (targets g n) as [ts|] eqn:Ht; [|reflexivity].
  assert (H : forall l, (forall m, In m l -> In m ts) -> fold_left (stepf f g) l Ok = Ok).
  { induction l as [|m l IHl]; intros Hl; cbn [fold_left]; [reflexivity|].
    assert (Hm : stepf f g Ok m = Ok).
    { cbn [stepf]. destruct (targets g m) as [tm|] eqn:Hm; [|reflexivity].
      apply IH. assert (rank m < rank n) by (eapply Hr; [exact Ht | apply Hl; left; reflexivity | rewrite Hm; discriminate]). lia. }
    rewrite Hm. apply IHl. intros x Hx. apply Hl. right. exact Hx. }
  apply H. auto.
Qed.

(* a graph with such a rank has no cycle *)
Lemma ranked_no_cycle : forall g (rank : nat -> nat),
  (forall n ts m, targets g n = Some ts -> In m ts -> targets g m <> None -> rank m < rank n) -> forall n, ~ on_cycle g n.
Proof.
  intros g rank Hr n Hc. pose proof (cycle_diverges g n Hc (S (rank n))) as Hd.
  rewrite (ranked_follow_ok g rank Hr (S (rank n)) n ltac:(lia)) in Hd. discriminate.
Qed.

(* ------------------------------------------------------------------ the whole build / evaluation *)
Lemma first_not_ok_tables : forall ts, first_not_ok (map table_build ts) = Ok \/ first_not_ok (map table_build ts) = Err.
Proof.
  induction ts as [|t ts IH]; cbn [map first_not_ok]; [left; reflexivity|].
  destruct (table_build_total t) as [-> | ->]; [exact IH | right; reflexivity].
Qed.

Lemma first_not_ok_app_ok : forall a b, first_not_ok a = Ok -> first_not_ok (a ++ b) = first_not_ok b.
Proof.
  induction a as [|o a IH]; intros b H; cbn [app first_not_ok] in *; [reflexivity|].
  destruct o; try discriminate. apply IH. exact H.
Qed.

Lemma first_not_ok_app_err : forall a b, first_not_ok a = Err -> first_not_ok (a ++ b) = Err.
Proof.
  induction a as [|o a IH]; intros b H; cbn [app first_not_ok] in *; [discriminate|].
  destruct o; try discriminate; [apply IH; exact H | reflexivity].
Qed.

Lemma first_not_ok_all_ok : forall l, Forall (fun o => o = Ok) l -> first_not_ok l = Ok.
Proof. induction l as [|o l IH]; intros H; cbn [first_not_ok]; [reflexivity|]. inversion H; subst. apply IH. assumption. Qed.

(* build never crashes; it does not diverge when the search stays within its fuel and the graph admits a rank below the stack fuel *)
Lemma build_total : forall fuel d (rank : nat -> nat),
  has_cycle (deps d) <> DfsFuel ->
  (forall n ts m, targets (deps d) n = Some ts -> In m ts -> targets (deps d) m <> None -> rank m < rank n) ->
  (forall n, rank n < fuel) ->
  build fuel d = Ok \/ build fuel d = Err.
Proof.
  intros fuel d rank Hf Hr Hb. unfold build. destruct (has_cycle (deps d)) eqn:E; [right; reflexivity | | congruence].
  destruct (first_not_ok_tables (tables d)) as [H | H].
  - rewrite (first_not_ok_app_ok _ _ H). left. apply first_not_ok_all_ok.
    apply Forall_forall. intros o Ho. apply in_map_iff in Ho. destruct Ho as (n & <- & _).
    apply (ranked_follow_ok _ rank Hr). apply Hb.
  - right. apply first_not_ok_app_err. exact H.
Qed.

Lemma evaluate_total : forall fuel d (rank : nat -> nat) n,
  (forall n ts m, targets (deps d) n = Some ts -> In m ts -> targets (deps d) m <> None -> rank m < rank n) ->
  rank n < fuel -> evaluate fuel d n = Ok.
Proof.
  intros fuel d rank n Hr Hn. unfold evaluate. cbn [first_not_ok]. rewrite (ranked_follow_ok _ rank Hr fuel n Hn).
  induction (tables d) as [|t ts IH]; cbn [map first_not_ok]; [reflexivity | exact IH].
Qed.

(* the pinned code on a cyclic model: building diverges (stack overflow) for every stack size *)
Lemma build_orig_cycle_diverges : forall fuel d n, on_cycle (deps d) n -> Forall (fun t => table_build_orig t = Ok) (tables d) ->
  build_orig fuel d = Diverge.
Proof.
  intros fuel d n Hc Ht. unfold build_orig.
  rewrite first_not_ok_app_ok.
  2:{ apply first_not_ok_all_ok. apply Forall_forall. intros o Ho. apply in_map_iff in Ho. destruct Ho as (t & <- & Hin).
      rewrite Forall_forall in Ht. apply Ht. exact Hin. }
  assert (Hin : In n (map fst (deps d))).
  { pose proof (path_source_node _ _ _ Hc) as Hn. clear Hc. induction (deps d) as [|[m ts] g IH]; cbn [targets] in Hn; [congruence|].
    cbn [map fst]. destruct (m =? n) eqn:E; [left; apply Nat.eqb_eq; exact E | right; apply IH; exact Hn]. }
  induction (map fst (deps d)) as [|x l IH]; [inversion Hin|].
  cbn [map first_not_ok]. destruct (follow_ok_or_diverge fuel (deps d) x) as [E | E]; rewrite E; [|reflexivity].
  destruct Hin as [-> | Hin]; [rewrite (cycle_diverges _ _ Hc fuel) in E; discriminate | apply IH; exact Hin].
Qed.

(* ------------------------------------------------------------------ the cycle search: exhaustive over all graphs with at most 3 defined nodes
   and targets among 0..3 (3 dangling): it answers within its fuel and finds a cycle exactly when one exists *)
Definition dfs_agrees (g : graph) : bool := dfs_in_fuel g && Bool.eqb (dfs_says_cycle g) (cyclic_ref g).

Lemma dfs_sweep : forallb dfs_agrees (graphs_upto 1 ++ graphs_upto 2 ++ graphs_upto 3) = true.
Proof. vm_compute. reflexivity. Qed.

Lemma dfs_correct_upto_3 : forall g, In g (graphs_upto 1 ++ graphs_upto 2 ++ graphs_upto 3) ->
  has_cycle g <> DfsFuel /\ (has_cycle g = Cycle <-> cyclic_ref g = true).
Proof.
  intros g Hg. pose proof (proj1 (forallb_forall dfs_agrees _) dfs_sweep g Hg) as H.
  unfold dfs_agrees, dfs_in_fuel, dfs_says_cycle in H. apply andb_true_iff in H. destruct H as [H1 H2].
  destruct (has_cycle g) eqn:E; try discriminate.
  - split; [discriminate|]. apply Bool.eqb_prop in H2. split; [intros _; symmetry; exact H2 | reflexivity].
  - split; [discriminate|]. apply Bool.eqb_prop in H2. split; [discriminate | intros Hc; rewrite Hc in H2; discriminate].
Qed.

(* ------------------------------------------------------------------ the four confirmed defects of the pinned commit *)
Definition t_short_rule := mk_table 2 1 [mk_rule 1 1].
Definition t_no_output := mk_table 1 0 [mk_rule 1 0].
Definition g_two_cycle : graph := [(0, [1]); (1, [0])].

Lemma orig_refuted_short_rule : build_orig 100 (mk_defs [t_short_rule] []) = Crash site_input_entry /\ build 100 (mk_defs [t_short_rule] []) = Err.
Proof. split; vm_compute; reflexivity. Qed.
Lemma orig_refuted_no_output : build_orig 100 (mk_defs [t_no_output] [(0, [])]) = Ok /\ evaluate_orig 100 (mk_defs [t_no_output] [(0, [])]) 0 = Crash site_output_value0
  /\ evaluate 100 (mk_defs [t_no_output] [(0, [])]) 0 = Ok.
Proof. repeat split; vm_compute; reflexivity. Qed.
Lemma orig_refuted_cycle : on_cycle g_two_cycle 0 /\ (forall fuel, build_orig fuel (mk_defs [] g_two_cycle) = Diverge) /\ (forall fuel, evaluate_orig fuel (mk_defs [] g_two_cycle) 0 = Diverge)
  /\ (forall fuel, build fuel (mk_defs [] g_two_cycle) = Err).
Proof.
  assert (Hc : on_cycle g_two_cycle 0).
  { eapply path_step with (m := 1) (ts := [1]); [reflexivity | left; reflexivity |]. eapply path_one with (ts := [0]); [reflexivity | left; reflexivity]. }
  split; [exact Hc|]. split; [|split].
  - intros fuel. apply (build_orig_cycle_diverges fuel (mk_defs [] g_two_cycle) 0 Hc). constructor.
  - intros fuel. unfold evaluate_orig. cbn [deps tables map first_not_ok]. rewrite (cycle_diverges _ _ Hc fuel). reflexivity.
  - intros fuel. reflexivity.
Qed.

(* ------------------------------------------------------------------ item definition trees of any depth *)
Section itemdef_induction.
  Variable P : itemdef -> Prop.
  Hypothesis step : forall n r cs, Forall P cs -> P (ItemDef n r cs).
  Fixpoint itemdef_nested_ind (t : itemdef) : P t :=
    match t with
    | ItemDef n r cs =>
      step n r cs ((fix go (l : list itemdef) : Forall P l :=
                      match l with [] => Forall_nil P | x :: xs => Forall_cons x (itemdef_nested_ind x) (go xs) end) cs)
    end.
End itemdef_induction.

(* the recursive collection reaches every type reference of the tree, at any nesting depth, and nothing else *)
Lemma collect_refs_complete : forall t x, occurs x t <-> In x (collect_refs t).
Proof.
  intros t x. induction t as [n r cs IH] using itemdef_nested_ind. cbn [collect_refs]. split.
  - intros H. inversion H as [? ? | ? ? ? c Hin Hc]; subst.
    + left. reflexivity.
    + apply in_or_app. right. apply in_flat_map. exists c. split; [exact Hin|].
      rewrite Forall_forall in IH. apply (IH c Hin). exact Hc.
  - intros H. apply in_app_or in H. destruct H as [H | H].
    + destruct r as [y|]; [|inversion H]. destruct H as [-> | []]. constructor.
    + apply in_flat_map in H. destruct H as (c & Hin & Hc). rewrite Forall_forall in IH.
      eapply occ_deep; [exact Hin | apply (IH c Hin); exact Hc].
Qed.

(* so a reference at any depth is an edge of the dependency graph the cycle search runs on *)
Lemma nested_reference_is_edge : forall t rest x, occurs x t ->
  exists ts, targets (item_graph (t :: rest)) (item_name t) = Some ts /\ In x ts.
Proof.
  intros t rest x H. exists (collect_refs t). split; [|apply collect_refs_complete; exact H].
  unfold item_graph. cbn [map targets fst snd]. rewrite Nat.eqb_refl. reflexivity.
Qed.

Lemma nested_occurs : forall d x, occurs x (nested d x).
Proof. induction d as [|d IH]; intros x; cbn [nested]; [constructor|]. eapply occ_deep; [left; reflexivity | apply IH]. Qed.

(* a definition that refers to itself through a chain of components of ANY depth is on a cycle of the graph the search runs on *)
Lemma nested_self_reference_cycle : forall d n cs rest,
  on_cycle (item_graph (ItemDef n None (nested d n :: cs) :: rest)) n.
Proof.
  intros d n cs rest. set (t := ItemDef n None (nested d n :: cs)).
  destruct (nested_reference_is_edge t rest n) as (ts & Ht & Hin).
  { eapply occ_deep; [left; reflexivity | apply nested_occurs]. }
  eapply path_one; [exact Ht | exact Hin].
Qed.

(* a flat collection (definition + direct components only) misses a reference two levels down *)
Lemma flat_refs_refuted : exists t x, occurs x t /\ ~ In x (flat_refs t) /\ In x (collect_refs t).
Proof.
  exists (ItemDef 7 None [nested 1 7]), 7. split; [|split].
  - eapply occ_deep; [left; reflexivity | apply nested_occurs].
  - vm_compute. intuition discriminate.
  - vm_compute. tauto.
Qed.

(* and the search finds the cycle for every nesting depth up to 6 (finite; the general statement needs the general correctness of the search) *)
Lemma nested_cycle_found_upto_6 : forallb (fun d => match has_cycle (item_graph [ItemDef 5 None [nested d 5]]) with Cycle => true | _ => false end) (seq 0 7) = true.
Proof. vm_compute. reflexivity. Qed.
