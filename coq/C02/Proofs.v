(* C02 — proofs about the specification model Base/DecRound.v and coq/C02/Model.v. *)
From Coq Require Import ZArith NArith Bool List Lia.
From DV Require Import Base.Dec Base.DecRound C02.Model.
Import ListNotations.
Open Scope Z_scope.

Lemma model_nontrivial :
  f_add (mkdec false 15 (-1)) (mkdec false 25 (-1)) = Some (mkdec false 4 0) /\
  f_div (mkdec false 2 0) (mkdec true 3 0) = Some (mkdec true 6666666666666666666666666666666667 (-34)) /\
  f_mul (mkdec false 1 6144) (mkdec false 10 0) = None /\
  f_mul (mkdec false 1 (-3100)) (mkdec false 15 (-3077)) = Some (mkdec false 2 (-6176)) /\
  f_cmp (mkdec false 10 (-1)) (mkdec false 100 (-2)) = Eq.
Proof. vm_compute. repeat split. Qed.

(* modulo as the code computes it (every step rounded) is not a - b*floor(a/b): modulo(1E+40, 3) *)
Lemma mod_steps_refuted : exists a b, mod_known a b = true /\ f_mod a b = Some (mkdec false 1 0) /\ f_mod_steps a b = Some (mkdec false 1 6).
Proof. exists (mkdec false 1 40), (mkdec false 3 0). vm_compute. repeat split. Qed.

From DV Require Import Base.DecFacts.

(* ---------------------------------------------------------------- one correct rounding: nearest, ties to even *)
(* q' = round_half_even m drop is a nearest multiple: |q' * 10^drop - m| <= 10^drop / 2, and on an exact tie q' is even *)
Lemma round_half_even_spec : forall m drop, (0 < drop)%N ->
  let p := (10 ^ drop)%N in let q := round_half_even m drop in
  2 * Z.abs (Z.of_N q * Z.of_N p - Z.of_N m) <= Z.of_N p /\
  (2 * Z.abs (Z.of_N q * Z.of_N p - Z.of_N m) = Z.of_N p -> N.even q = true).
Proof.
  intros m drop Hd. cbv zeta. unfold round_half_even.
  destruct (drop =? 0)%N eqn:E0; [apply N.eqb_eq in E0; lia|].
  assert (Hp : (10 ^ drop = 2 * (5 * 10 ^ (drop - 1)))%N).
  { replace drop with (N.succ (drop - 1)) at 1 by lia. rewrite N.pow_succ_r'. lia. }
  assert (Hpos : (0 < 5 * 10 ^ (drop - 1))%N).
  { assert (10 ^ (drop - 1) <> 0)%N by (apply N.pow_nonzero; lia). lia. }
  set (h := (5 * 10 ^ (drop - 1))%N) in *. rewrite Hp. clearbody h.
  pose proof (N.div_mod m (2 * h) ltac:(lia)) as DM. pose proof (N.mod_lt m (2 * h) ltac:(lia)) as ML.
  set (q := (m / (2 * h))%N) in *. set (r := (m mod (2 * h))%N) in *. clearbody q r.
  destruct ((h <? r)%N || (r =? h)%N && N.odd q) eqn:C.
  - apply orb_true_iff in C. destruct C as [C|C].
    + apply N.ltb_lt in C. split; [lia|]. intros T. exfalso. lia.
    + apply andb_true_iff in C. destruct C as [C1 C2]. apply N.eqb_eq in C1. split; [lia|]. intros _.
      rewrite N.add_1_r, N.even_succ. exact C2.
  - apply orb_false_iff in C. destruct C as [C1 C2]. apply N.ltb_ge in C1. split; [lia|]. intros T.
    assert (r = h) by lia. apply N.eqb_eq in H. rewrite H in C2. cbn in C2. rewrite <- N.negb_odd, C2. reflexivity.
Qed.

Lemma round_half_even_zero_drop : forall m, round_half_even m 0 = m.
Proof. reflexivity. Qed.

(* a value that is representable is returned unchanged: rounding is the identity on decimal128 data
   (in particular on numeric literals of up to 34 significant digits, C07) *)
Theorem round34_exact : forall s m e, (m < 10 ^ PREC)%N -> ETINY <= e <= ETOP ->
  round34 s m e = Some (mkdec s m e).
Proof.
  intros s m e Hm He. unfold round34. destruct (m =? 0)%N eqn:E0.
  - apply N.eqb_eq in E0. subst m. unfold clamp_exp. rewrite Z.min_r, Z.max_r by lia. reflexivity.
  - apply N.eqb_neq in E0. assert (Hp : (0 < m)%N) by lia.
    pose proof (ndigits_le m PREC Hp Hm) as Hnd. destruct (ndigits_spec m Hp) as [_ Hnd1].
    assert (Ht : target_exp m e = e).
    { unfold target_exp. unfold PREC in *. lia. }
    rewrite Ht, Z.sub_diag. cbn [Z.to_N]. rewrite round_half_even_zero_drop.
    destruct (m =? 10 ^ PREC)%N eqn:E1; [apply N.eqb_eq in E1; lia|].
    assert (EMAX <? e + Z.of_N (ndigits m) - 1 = false) as -> by (apply Z.ltb_ge; unfold EMAX, ETOP, PREC in *; lia).
    assert (ETOP <? e = false) as -> by (apply Z.ltb_ge; lia). reflexivity.
Qed.

(* the shape of the model: exact integer result first, one rounding afterwards *)
Lemma dadd_exact_then_round : forall a b,
  dadd a b = round_Z (scaled a (emin2 a b) + scaled b (emin2 a b)) (emin2 a b) (neg a && neg b).
Proof. reflexivity. Qed.
Lemma dmul_exact_then_round : forall a b,
  dmul a b = round34 (xorb (neg a) (neg b)) (coef a * coef b) (expo a + expo b).
Proof. reflexivity. Qed.

(* exact sums and products of representable data that are themselves representable are returned exactly *)
Theorem dmul_exact : forall a b, (coef a * coef b < 10 ^ PREC)%N -> ETINY <= expo a + expo b <= ETOP ->
  dmul a b = Some (mkdec (xorb (neg a) (neg b)) (coef a * coef b) (expo a + expo b)).
Proof. intros a b H1 H2. unfold dmul. apply round34_exact; assumption. Qed.

Theorem dadd_exact : forall a b, Z.abs (scaled a (emin2 a b) + scaled b (emin2 a b)) < 10 ^ 34 -> ETINY <= emin2 a b <= ETOP ->
  exists r, dadd a b = Some r /\ expo r = emin2 a b /\ sval r = scaled a (emin2 a b) + scaled b (emin2 a b).
Proof.
  intros a b H1 H2. unfold dadd, exact_add, round_Z.
  set (z := scaled a (emin2 a b) + scaled b (emin2 a b)) in *.
  rewrite round34_exact; [| | exact H2].
  - eexists. split; [reflexivity|]. split; [reflexivity|]. unfold sval. cbn [neg coef].
    destruct (z =? 0) eqn:Ez.
    + apply Z.eqb_eq in Ez. rewrite Ez. cbn. destruct (neg a && neg b); reflexivity.
    + destruct (z <? 0) eqn:Ez2; [apply Z.ltb_lt in Ez2 | apply Z.ltb_ge in Ez2]; rewrite N2Z.inj_abs_N; lia.
  - change (10 ^ PREC)%N with (Z.to_N (10 ^ 34)). apply N2Z.inj_lt. rewrite N2Z.inj_abs_N, Z2N.id by lia. exact H1.
Qed.

(* ---------------------------------------------------------------- integral values *)
Lemma zfloor_spec : forall d, expo d < 0 ->
  zfloor d * 10 ^ (- expo d) <= sval d < (zfloor d + 1) * 10 ^ (- expo d).
Proof.
  intros d He. unfold zfloor. assert (0 <=? expo d = false) as -> by (apply Z.leb_gt; exact He).
  assert (Hp : 0 < 10 ^ (- expo d)) by (apply Z.pow_pos_nonneg; lia).
  pose proof (Z.div_mod (sval d) (10 ^ (- expo d)) ltac:(lia)). pose proof (Z.mod_pos_bound (sval d) (10 ^ (- expo d)) Hp). nia.
Qed.

Lemma zceil_spec : forall d, expo d < 0 ->
  (zceil d - 1) * 10 ^ (- expo d) < sval d <= zceil d * 10 ^ (- expo d).
Proof.
  intros d He. unfold zceil. assert (0 <=? expo d = false) as -> by (apply Z.leb_gt; exact He).
  assert (Hp : 0 < 10 ^ (- expo d)) by (apply Z.pow_pos_nonneg; lia).
  pose proof (Z.div_mod (- sval d) (10 ^ (- expo d)) ltac:(lia)). pose proof (Z.mod_pos_bound (- sval d) (10 ^ (- expo d)) Hp). nia.
Qed.

Lemma zfloor_integer : forall d, 0 <= expo d -> zfloor d = sval d * 10 ^ expo d /\ zceil d = sval d * 10 ^ expo d.
Proof. intros d He. unfold zfloor, zceil. assert (0 <=? expo d = true) as -> by (apply Z.leb_le; exact He). split; reflexivity. Qed.

(* ---------------------------------------------------------------- modulo: the exact remainder has the sign of the divisor *)
Lemma dmod_exact_remainder : forall a b, coef b <> 0%N ->
  let e := emin2 a b in let r := scaled a e - scaled b e * floor_div a b in
  r = (scaled a e) mod (scaled b e) /\ ((0 <= r < scaled b e) \/ (scaled b e < r <= 0)).
Proof.
  intros a b Hb. cbv zeta. unfold floor_div.
  assert (Hs : scaled b (emin2 a b) <> 0).
  { unfold scaled, sval. assert (0 < 10 ^ (expo b - emin2 a b)) by (apply Z.pow_pos_nonneg; unfold emin2; lia).
    destruct (neg b); nia. }
  rewrite <- Z.mod_eq by exact Hs. split; [reflexivity|].
  destruct (Z.lt_trichotomy (scaled b (emin2 a b)) 0) as [L|[L|L]]; [right | contradiction | left].
  - apply Z.mod_neg_bound. exact L.
  - apply Z.mod_pos_bound. exact L.
Qed.

(* undefined results are null *)
Lemma div_by_zero_null : forall a b, coef b = 0%N -> ddiv a b = None /\ dmod a b = None.
Proof. intros a b H. unfold ddiv, dmod, dis_zero. rewrite H. split; reflexivity. Qed.
Lemma sqrt_negative_null : forall a, coef a <> 0%N -> neg a = true -> dsqrt a = None.
Proof. intros a H1 H2. unfold dsqrt, dis_zero. apply N.eqb_neq in H1. rewrite H1, H2. reflexivity. Qed.

(* ---------------------------------------------------------------- HEADLINE: round34 returns a nearest decimal128, ties to even *)
Lemma target_exp_ge : forall m e, e <= target_exp m e /\ ETINY <= target_exp m e.
Proof. intros. unfold target_exp. lia. Qed.

Lemma pow10_split : forall a b, 0 <= a -> 0 <= b -> 10 ^ (a + b) = 10 ^ a * 10 ^ b.
Proof. intros. apply Z.pow_add_r; assumption. Qed.

(* the value of the result, written at the common base exponent b = min e ETINY, equals the rounded coefficient c1 at the target exponent *)
Lemma some_inj : forall (A : Type) (x y : A), Some x = Some y -> x = y.
Proof. intros A x y H. injection H as H. exact H. Qed.

Lemma round34_value : forall s m e d, (0 < m)%N -> round34 s m e = Some d ->
  let e1 := target_exp m e in let c1 := round_half_even m (Z.to_N (e1 - e)) in let b := Z.min e ETINY in
  neg d = s /\ ETINY <= expo d <= ETOP /\
  Z.of_N (coef d) * 10 ^ (expo d - b) = Z.of_N c1 * 10 ^ (e1 - b).
Proof.
  intros s m e d Hm H. cbv zeta. unfold round34 in H.
  assert (m =? 0 = false)%N as E0 by (apply N.eqb_neq; lia). rewrite E0 in H.
  destruct (target_exp_ge m e) as [T1 T2].
  set (e1 := target_exp m e) in *. set (c1 := round_half_even m (Z.to_N (e1 - e))) in *. set (b := Z.min e ETINY).
  assert (Hb : b <= e /\ b <= ETINY) by (unfold b; lia).
  destruct (c1 =? 10 ^ PREC)%N eqn:Ec.
  - apply N.eqb_eq in Ec.
    destruct (EMAX <? e1 + 1 + Z.of_N (ndigits (10 ^ (PREC - 1))) - 1) eqn:Eo; [discriminate H|]. clear Eo.
    destruct (ETOP <? e1 + 1) eqn:Et.
    + apply Z.ltb_lt in Et. apply some_inj in H. subst d. cbn [neg coef expo]. split; [reflexivity|]. split; [unfold ETINY, ETOP; lia|].
      rewrite Ec, N2Z.inj_mul, !N2Z.inj_pow, Z2N.id by lia. change (Z.of_N 10) with 10. change (Z.of_N (PREC - 1)) with 33. change (Z.of_N PREC) with 34.
      replace (e1 - b) with ((e1 + 1 - ETOP) + (ETOP - b) - 1) by lia.
      rewrite <- Z.mul_assoc, <- pow10_split by (unfold ETINY, ETOP in *; lia).
      rewrite <- !pow10_split by (unfold ETINY, ETOP in *; lia). f_equal. lia.
    + apply Z.ltb_ge in Et. apply some_inj in H. subst d. cbn [neg coef expo]. split; [reflexivity|]. split; [lia|].
      rewrite Ec, !N2Z.inj_pow. change (Z.of_N 10) with 10. change (Z.of_N (PREC - 1)) with 33. change (Z.of_N PREC) with 34.
      rewrite <- !pow10_split by (unfold ETINY in *; lia). f_equal. lia.
  - destruct (EMAX <? e1 + Z.of_N (ndigits c1) - 1) eqn:Eo; [discriminate H|]. clear Eo.
    destruct (ETOP <? e1) eqn:Et.
    + apply Z.ltb_lt in Et. apply some_inj in H. subst d. cbn [neg coef expo]. split; [reflexivity|]. split; [unfold ETINY, ETOP; lia|].
      rewrite N2Z.inj_mul, N2Z.inj_pow, Z2N.id by lia. change (Z.of_N 10) with 10.
      rewrite <- Z.mul_assoc, <- pow10_split by (unfold ETINY, ETOP in *; lia). f_equal. f_equal. lia.
    + apply Z.ltb_ge in Et. apply some_inj in H. subst d. cbn [neg coef expo]. split; [reflexivity|]. split; [lia|]. reflexivity.
Qed.

Theorem round34_nearest_even : forall s m e d, (0 < m)%N -> round34 s m e = Some d ->
  let e1 := target_exp m e in let b := Z.min e ETINY in
  neg d = s /\ ETINY <= expo d <= ETOP /\
  2 * Z.abs (Z.of_N (coef d) * 10 ^ (expo d - b) - Z.of_N m * 10 ^ (e - b)) <= 10 ^ (e1 - b) /\
  (e < e1 -> 2 * Z.abs (Z.of_N (coef d) * 10 ^ (expo d - b) - Z.of_N m * 10 ^ (e - b)) = 10 ^ (e1 - b) ->
   N.even (round_half_even m (Z.to_N (e1 - e))) = true) /\
  (e1 = e -> Z.of_N (coef d) * 10 ^ (expo d - b) = Z.of_N m * 10 ^ (e - b)).
Proof.
  intros s m e d Hm H. destruct (round34_value s m e d Hm H) as (V1 & V2 & V3). cbv zeta in *.
  destruct (target_exp_ge m e) as [T1 T2].
  set (e1 := target_exp m e) in *. set (b := Z.min e ETINY) in *.
  assert (Hb : b <= e /\ b <= ETINY) by (unfold b; lia).
  split; [exact V1|]. split; [exact V2|]. rewrite V3.
  assert (Hsplit : 10 ^ (e1 - b) = 10 ^ (e1 - e) * 10 ^ (e - b)).
  { rewrite <- pow10_split by lia. f_equal. lia. }
  assert (Hq : 0 < 10 ^ (e - b)) by (apply Z.pow_pos_nonneg; lia).
  destruct (Z.eq_dec e1 e) as [Eq|Ne].
  - rewrite Eq, Z.sub_diag. cbn [Z.to_N]. rewrite round_half_even_zero_drop.
    rewrite Z.sub_diag, Z.abs_0. split; [lia|]. split; [lia|]. intros _. reflexivity.
  - assert (Hd : (0 < Z.to_N (e1 - e))%N) by lia.
    destruct (round_half_even_spec m (Z.to_N (e1 - e)) Hd) as [R1 R2]. cbv zeta in R1, R2.
    rewrite N2Z.inj_pow, Z2N.id in R1, R2 by lia. change (Z.of_N 10) with 10 in R1, R2.
    set (c1 := Z.of_N (round_half_even m (Z.to_N (e1 - e)))) in *.
    assert (Hfac : c1 * 10 ^ (e1 - b) - Z.of_N m * 10 ^ (e - b) = (c1 * 10 ^ (e1 - e) - Z.of_N m) * 10 ^ (e - b)) by (rewrite Hsplit; ring).
    rewrite Hfac, Z.abs_mul, (Z.abs_eq (10 ^ (e - b))) by lia. rewrite Hsplit.
    split; [nia|]. split; [|intros; lia].
    intros _ T. apply R2. nia.
Qed.
