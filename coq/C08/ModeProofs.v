(* C08 — mode(list): the result is exactly the list of the most frequent numbers, each once (its first occurrence in the
   list stands for all equal items, e.g. 1 for [1, 1.0]), ascending. *)
From Coq Require Import List NArith ZArith Bool Arith Lia Permutation Sorted.
From DV Require Import C09.Values C09.Model C09.Proofs C08.Model C08.Model2 C08.Proofs C08.SortProofs.
Import ListNotations.

(* ================= the order and the equality of numbers ================= *)
Ltac n3 a b c :=
  let x := fresh "x" in let y := fresh "y" in let z := fresh "z" in
  unfold nlt, neqv; destruct (ncmp3 a b c) as (x & y & z & -> & -> & ->);
  destruct (Z.compare_spec x y); destruct (Z.compare_spec y z); destruct (Z.compare_spec x z);
  cbn; intros; auto; try discriminate; try lia.

Lemma neqv_refl : forall a, neqv a a = true.
Proof. intros [c e]. unfold neqv, ncmp. cbn [fst snd]. rewrite Z.compare_refl. reflexivity. Qed.
Lemma neqv_sym : forall a b, neqv a b = neqv b a.
Proof. intros a b. unfold neqv. rewrite (ncmp_antisym (fst a) (snd a) (fst b) (snd b)). destruct (ncmp (fst a) (snd a) (fst b) (snd b)); reflexivity. Qed.
Lemma neqv_cong : forall a b c, neqv a b = true -> neqv a c = neqv b c.
Proof. intros a b c. n3 a b c. Qed.
Lemma neqv_trans : forall a b c, neqv a b = true -> neqv b c = true -> neqv a c = true.
Proof. intros a b c H1 H2. rewrite (neqv_cong a b c H1). exact H2. Qed.
Lemma nlt_cong_l : forall a b c, neqv a b = true -> nlt a c = nlt b c.
Proof. intros a b c. n3 a b c. Qed.
Lemma nlt_cong_r : forall a b c, neqv a b = true -> nlt c a = nlt c b.
Proof. intros a b c. n3 c a b. Qed.
Lemma nlt_not_neqv : forall a b, nlt a b = true -> neqv a b = false /\ neqv b a = false.
Proof.
  intros a b H. rewrite (neqv_sym b a). unfold nlt, neqv in *.
  destruct (ncmp (fst a) (snd a) (fst b) (snd b)); try discriminate; auto.
Qed.
Lemma nlt_total : forall a b, nlt a b = false -> neqv a b = false -> nlt b a = true.
Proof.
  intros a b. unfold nlt, neqv. rewrite (ncmp_antisym (fst a) (snd a) (fst b) (snd b)).
  destruct (ncmp (fst a) (snd a) (fst b) (snd b)); cbn; auto.
Qed.

(* the multiplicity of x in l: the number of items that are equal to x as numbers (1 and 1.0 are) *)
Definition mult (x : Z * Z) (l : list (Z * Z)) : nat := length (filter (neqv x) l).
Lemma mult_cong : forall x y l, neqv x y = true -> mult x l = mult y l.
Proof. intros x y l H. unfold mult. rewrite (filter_ext _ _ (fun z => neqv_cong x y z H)). reflexivity. Qed.

(* ================= runs, without the accumulator ================= *)
Fixpoint groups (l : list (Z * Z)) : list (nat * (Z * Z)) :=
  match l with
  | [] => []
  | x :: r => match groups r with
              | (n, v) :: g => if neqv x v then (S n, x) :: g else (1%nat, x) :: (n, v) :: g
              | [] => [(1%nat, x)]
              end
  end.
Definition absorb (h : nat * (Z * Z)) (g : list (nat * (Z * Z))) : list (nat * (Z * Z)) :=
  match g with
  | (m, w) :: g' => if neqv w (snd h) then ((fst h + m)%nat, snd h) :: g' else h :: g
  | [] => [h]
  end.

Lemma runs_acc_prefix : forall l n v acc', runs l ((n, v) :: acc') = rev acc' ++ runs l [(n, v)].
Proof.
  induction l as [|x r IH]; intros n v acc'; cbn [runs].
  - reflexivity.
  - destruct (is_eq (ncmp (fst x) (snd x) (fst v) (snd v))).
    + apply IH.
    + rewrite (IH 1%nat x ((n, v) :: acc')), (IH 1%nat x [(n, v)]). cbn [rev app]. rewrite <- app_assoc. reflexivity.
Qed.

Lemma absorb_groups : forall x r, absorb (1%nat, x) (groups r) = groups (x :: r).
Proof.
  intros x r. cbn [groups]. destruct (groups r) as [|[m w] g]; [reflexivity|].
  cbn [absorb fst snd]. rewrite (neqv_sym w x). destruct (neqv x w); reflexivity.
Qed.

Lemma runs_absorb : forall l n v, runs l [(n, v)] = absorb (n, v) (groups l).
Proof.
  induction l as [|x r IH]; intros n v.
  - reflexivity.
  - cbn [runs]. fold (neqv x v). destruct (neqv x v) eqn:E.
    + rewrite IH. cbn [groups]. destruct (groups r) as [|[m w] g].
      * cbn [absorb fst snd]. rewrite E. f_equal. f_equal. lia.
      * cbn [absorb fst snd]. destruct (neqv x w) eqn:W.
        -- cbn [absorb fst snd]. rewrite E.
           assert (neqv w v = true) by (rewrite (neqv_sym w v), <- (neqv_cong x v w E); exact W).
           rewrite H. f_equal. f_equal. lia.
        -- cbn [absorb fst snd]. rewrite E.
           assert (neqv w v = false) by (rewrite (neqv_sym w v), <- (neqv_cong x v w E); exact W).
           rewrite H. f_equal. f_equal. lia.
    + rewrite (runs_acc_prefix r 1%nat x [(n, v)]). cbn [rev app]. rewrite IH, absorb_groups.
      cbn [groups]. destruct (groups r) as [|[m w] g].
      * cbn [absorb fst snd]. rewrite E. reflexivity.
      * destruct (neqv x w); cbn [absorb fst snd]; rewrite E; reflexivity.
Qed.

Theorem runs_is_groups : forall l, runs l [] = groups l.
Proof. intros [|x r]; [reflexivity|]. cbn [runs]. rewrite runs_absorb. apply absorb_groups. Qed.

(* ================= the groups of an ascending list ================= *)
Definition asc (l : list (Z * Z)) : Prop := StronglySorted (fun a b => nlt b a = false) l.
Definition first_of (v : Z * Z) (l : list (Z * Z)) : Prop := hd_error (filter (neqv v) l) = Some v.

Record ginv (l : list (Z * Z)) (g : list (nat * (Z * Z))) : Prop := {
  g_head : forall x r, l = x :: r -> exists c g', g = (c, x) :: g';
  g_asc : StronglySorted (fun a b => nlt (snd a) (snd b) = true) g;
  g_count : forall c v, In (c, v) g -> c = mult v l /\ In v l /\ first_of v l;
  g_all : forall x, In x l -> exists c v, In (c, v) g /\ neqv x v = true }.

(* adding an item in front that is below every representative leaves the counted groups as they are *)
Lemma count_below : forall x r c v, nlt x v = true ->
  (c = mult v r /\ In v r /\ first_of v r) -> c = mult v (x :: r) /\ In v (x :: r) /\ first_of v (x :: r).
Proof.
  intros x r c v L (C & I & F). destruct (nlt_not_neqv x v L) as [_ N].
  unfold mult, first_of in *. cbn [filter]. rewrite N. repeat split; auto. right. exact I.
Qed.

Theorem groups_spec : forall l, asc l -> ginv l (groups l).
Proof.
  induction l as [|x r IH]; intros Hs.
  - split; [intros; discriminate|constructor|intros c v []|intros x []].
  - inversion Hs as [|? ? Sr Fx]; subst. specialize (IH Sr). destruct IH as [Gh Ga Gc Gall].
    cbn [groups]. destruct (groups r) as [|[m w] g] eqn:G.
    + (* r is empty *)
      assert (R : r = []).
      { destruct r as [|y r']; [reflexivity|]. destruct (Gh y r' eq_refl) as (c & g' & Hc). discriminate. }
      subst r.
      split.
      * intros x0 r0 E. injection E as <- <-. eauto.
      * constructor; constructor.
      * intros c v [E|[]]. injection E as <- <-. unfold mult, first_of. cbn [filter]. rewrite neqv_refl. cbn. auto.
      * intros y [<-|[]]. exists 1%nat, x. split; [left; reflexivity|apply neqv_refl].
    + destruct (Gc m w (or_introl eq_refl)) as (Cm & Iw & Fw).
      assert (Wx : nlt w x = false) by (rewrite Forall_forall in Fx; apply Fx; exact Iw).
      pose proof (StronglySorted_inv Ga) as [Ga' Fw']. rewrite Forall_forall in Fw'.
      destruct (neqv x w) eqn:E.
      * (* x joins the first group *)
        assert (Below : forall c v, In (c, v) g -> nlt x v = true).
        { intros c v H. rewrite (nlt_cong_l x w v E). exact (Fw' (c, v) H). }
        split.
        -- intros x0 r0 E0. injection E0 as <- <-. eauto.
        -- constructor; [exact Ga'|]. apply Forall_forall. intros [c v] H. cbn [snd]. exact (Below c v H).
        -- intros c v [H|H].
           ++ injection H as <- <-. unfold first_of. cbn [filter]. rewrite neqv_refl. repeat split; [|left; reflexivity].
              change (S m = mult x (x :: r)). unfold mult at 1. cbn [filter]. rewrite neqv_refl. cbn [length]. f_equal.
              rewrite Cm. symmetry. apply mult_cong. exact E.
           ++ apply count_below; [exact (Below c v H)|]. apply Gc. right. exact H.
        -- intros y [<-|Hy].
           ++ exists (S m), x. split; [left; reflexivity|apply neqv_refl].
           ++ destruct (Gall y Hy) as (c & v & [H|H] & N).
              ** injection H as <- <-. exists (S m), x. split; [left; reflexivity|].
                 rewrite (neqv_sym y x), (neqv_cong x w y E), (neqv_sym w y). exact N.
              ** exists c, v. split; [right; exact H|exact N].
      * (* x starts a group of its own *)
        assert (Xw : nlt x w = true) by (apply nlt_total; [exact Wx|rewrite neqv_sym; exact E]).
        assert (Below : forall c v, In (c, v) ((m, w) :: g) -> nlt x v = true).
        { intros c v [H|H]; [injection H as <- <-; exact Xw|]. apply (nlt_trans x w v Xw). exact (Fw' (c, v) H). }
        split.
        -- intros x0 r0 E0. injection E0 as <- <-. eauto.
        -- constructor; [exact Ga|]. apply Forall_forall. intros [c v] H. cbn [snd]. exact (Below c v H).
        -- intros c v [H|H].
           ++ injection H as <- <-. unfold first_of. cbn [filter]. rewrite neqv_refl. repeat split; [|left; reflexivity].
              unfold mult. cbn [filter]. rewrite neqv_refl. cbn [length]. f_equal.
              assert (Z : filter (neqv x) r = []); [|rewrite Z; reflexivity].
              assert (N : forall y, In y r -> neqv x y = false).
              { intros y Hy. destruct (Gall y Hy) as (c & v & Hv & Nv).
                apply (nlt_not_neqv x y). rewrite (nlt_cong_r y v x Nv). exact (Below c v Hv). }
              clear - N. induction r as [|a q IHq]; auto. cbn [filter]. rewrite (N a (or_introl eq_refl)). apply IHq.
              intros y Hy. apply N. right. exact Hy.
           ++ apply count_below; [exact (Below c v H)|]. apply Gc. exact H.
        -- intros y [<-|Hy].
           ++ exists 1%nat, x. split; [left; reflexivity|apply neqv_refl].
           ++ destruct (Gall y Hy) as (c & v & H & N). exists c, v. split; [right; exact H|exact N].
Qed.

(* ================= the maximum count ================= *)
Lemma fold_max_ge : forall (rs : list (nat * (Z * Z))) m0,
  (m0 <= fold_left (fun m r => Nat.max m (fst r)) rs m0)%nat /\
  (forall r, In r rs -> (fst r <= fold_left (fun m r => Nat.max m (fst r)) rs m0)%nat).
Proof.
  induction rs as [|a rs IH]; intros m0; cbn [fold_left].
  - split; [lia|intros r []].
  - destruct (IH (Nat.max m0 (fst a))) as [H1 H2]. split; [lia|].
    intros r [<-|Hr]; [lia|apply H2; exact Hr].
Qed.
Lemma fold_max_attained : forall (rs : list (nat * (Z * Z))) m0,
  fold_left (fun m r => Nat.max m (fst r)) rs m0 = m0 \/
  exists r, In r rs /\ fst r = fold_left (fun m r => Nat.max m (fst r)) rs m0.
Proof.
  induction rs as [|a rs IH]; intros m0; cbn [fold_left]; [left; reflexivity|].
  destruct (IH (Nat.max m0 (fst a))) as [H|(r & Hr & E)].
  - rewrite H. destruct (Nat.max_spec m0 (fst a)) as [[_ ->]|[_ ->]]; [right; exists a; split; [left|]; reflexivity|left; reflexivity].
  - right. exists r. split; [right; exact Hr|exact E].
Qed.

Lemma StronglySorted_filter : forall A (R : A -> A -> Prop) f l, StronglySorted R l -> StronglySorted R (filter f l).
Proof.
  intros A R f l S. induction S as [|a l S IH F]; cbn [filter]; [constructor|].
  destruct (f a); auto. constructor; auto.
  rewrite Forall_forall in *. intros x Hx. apply filter_In in Hx. apply F. tauto.
Qed.
Lemma StronglySorted_map : forall A B (g : A -> B) (R : B -> B -> Prop) l,
  StronglySorted (fun a b => R (g a) (g b)) l -> StronglySorted R (map g l).
Proof.
  intros A B g R l S. induction S as [|a l S IH F]; cbn [map]; constructor; auto.
  rewrite Forall_forall in *. intros y Hy. apply in_map_iff in Hy. destruct Hy as (x & <- & Hx). apply F. exact Hx.
Qed.

(* ================= mode ================= *)
(* rs is the mode of l: strictly ascending (so every value occurs once); every member is an item of maximal multiplicity and is
   the first item of l with its value; every item of maximal multiplicity is represented *)
Definition is_mode_of (l rs : list (Z * Z)) : Prop :=
  StronglySorted (fun a b => nlt a b = true) rs /\
  (forall r, In r rs -> In r l /\ first_of r l /\ forall x, In x l -> (mult x l <= mult r l)%nat) /\
  (forall x, In x l -> (forall y, In y l -> (mult y l <= mult x l)%nat) -> exists r, In r rs /\ neqv x r = true).

Lemma is_mode_of_reading : forall l rs, is_mode_of l rs <->
  StronglySorted (fun a b => nlt a b = true) rs /\
  (forall r, In r rs -> In r l /\ hd_error (filter (neqv r) l) = Some r /\
             forall x, In x l -> (length (filter (neqv x) l) <= length (filter (neqv r) l))%nat) /\
  (forall x, In x l -> (forall y, In y l -> (length (filter (neqv y) l) <= length (filter (neqv x) l))%nat) ->
             exists r, In r rs /\ neqv x r = true).
Proof. intros l rs. reflexivity. Qed.

Theorem mode_spec : forall n ns, exists rs,
  b_mode (map vnum (n :: ns)) = VList (map vnum rs) /\ is_mode_of (n :: ns) rs.
Proof.
  intros n ns. set (l := n :: ns). unfold b_mode. rewrite numbers_of_map. rewrite runs_is_groups.
  destruct (nsort_spec l) as (Perm & Sorted & Stable).
  pose proof (groups_spec (nsort l) Sorted) as [Gh Ga Gc Gall].
  set (rs := groups (nsort l)) in *.
  set (mx := fold_left (fun m r => Nat.max m (fst r)) rs O).
  assert (Mult : forall x, mult x (nsort l) = mult x l) by (intros x; unfold mult; rewrite Stable; reflexivity).
  assert (InS : forall x, In x (nsort l) <-> In x l).
  { intros x. split; intros H; [eapply Permutation_in; [exact Perm|exact H]|eapply Permutation_in; [apply Permutation_sym; exact Perm|exact H]]. }
  assert (Le : forall c v, In (c, v) rs -> (c <= mx)%nat).
  { intros c v H. exact (proj2 (fold_max_ge rs O) (c, v) H). }
  (* every item's multiplicity is at most mx *)
  assert (Bound : forall x, In x l -> (mult x l <= mx)%nat).
  { intros x Hx. apply InS in Hx. destruct (Gall x Hx) as (c & v & Hv & N).
    destruct (Gc c v Hv) as (C & _ & _). rewrite (mult_cong x v l N), <- Mult, <- C. exact (Le c v Hv). }
  exists (map snd (filter (fun r => Nat.eqb (fst r) mx) rs)). split.
  - unfold l. destruct n. cbn [map]. rewrite map_map. reflexivity.
  - split; [|split].
    + apply StronglySorted_map. apply StronglySorted_filter. exact Ga.
    + intros r Hr. apply in_map_iff in Hr. destruct Hr as ([c v] & <- & Hq). apply filter_In in Hq. destruct Hq as [Hq E].
      cbn [fst snd] in *. apply Nat.eqb_eq in E. destruct (Gc c v Hq) as (C & I & F).
      split; [apply InS; exact I|]. split.
      * unfold first_of in *. rewrite <- Stable. exact F.
      * intros x Hx. rewrite <- (Mult v), <- C, E. apply Bound. exact Hx.
    + intros x Hx Hmax. pose proof Hx as Hx'. apply InS in Hx'. destruct (Gall x Hx') as (c & v & Hv & N).
      exists v. split; [|exact N]. apply in_map_iff. exists (c, v). split; [reflexivity|]. apply filter_In. split; [exact Hv|].
      cbn [fst]. apply Nat.eqb_eq. destruct (Gc c v Hv) as (C & _ & _).
      assert (Cx : c = mult x l) by (rewrite C, Mult; symmetry; apply mult_cong; exact N).
      destruct (fold_max_attained rs O) as [Hz|([c0 v0] & H0 & E0)].
      * fold mx in Hz. pose proof (Le c v Hv). assert (0 < c)%nat; [|lia].
        rewrite Cx. unfold mult. destruct (filter (neqv x) l) eqn:Fl; [|cbn; lia].
        assert (In x (filter (neqv x) l)) by (apply filter_In; split; [exact Hx|apply neqv_refl]). rewrite Fl in H0. destruct H0.
      * fold mx in E0. cbn [fst] in E0. destruct (Gc c0 v0 H0) as (C0 & I0 & _).
        pose proof (Le c v Hv). assert (c0 <= c)%nat; [|lia].
        rewrite C0, Mult, Cx. apply Hmax. apply InS. exact I0.
Qed.

(* the three conditions determine the result *)
Lemma first_of_unique : forall l a b, first_of a l -> first_of b l -> neqv a b = true -> a = b.
Proof.
  intros l a b Fa Fb N. unfold first_of in *.
  rewrite (filter_ext _ _ (fun z => neqv_cong a b z N)) in Fa. rewrite Fa in Fb. injection Fb. auto.
Qed.

Theorem is_mode_of_unique : forall l rs rs', is_mode_of l rs -> is_mode_of l rs' -> rs = rs'.
Proof.
  intros l rs rs' (S & M & C) (S' & M' & C').
  (* each member of one list has an equal-valued member in the other, which is then the same pair *)
  assert (X : forall r, In r rs -> In r rs').
  { intros r Hr. destruct (M r Hr) as (I & F & Mx). destruct (C' r I Mx) as (r' & Hr' & N).
    destruct (M' r' Hr') as (_ & F' & _). rewrite (first_of_unique l r r' F F' N). exact Hr'. }
  assert (X' : forall r, In r rs' -> In r rs).
  { intros r Hr. destruct (M' r Hr) as (I & F & Mx). destruct (C r I Mx) as (r' & Hr' & N).
    destruct (M r' Hr') as (_ & F' & _). rewrite (first_of_unique l r r' F F' N). exact Hr'. }
  clear M M' C C'. revert rs' S' X X'. induction S as [|a rs S IH Fa]; intros rs' S' X X'.
  - destruct rs' as [|b rs']; auto. destruct (X' b (or_introl eq_refl)).
  - destruct S' as [|b rs' S' Fb]; [destruct (X a (or_introl eq_refl))|].
    rewrite Forall_forall in Fa, Fb.
    assert (a = b).
    { destruct (X a (or_introl eq_refl)) as [E|Ha]; auto. destruct (X' b (or_introl eq_refl)) as [E|Hb]; auto.
      pose proof (Fa b Hb) as L1. pose proof (Fb a Ha) as L2.
      pose proof (nlt_trans a b a L1 L2) as L3. rewrite nlt_irrefl in L3. discriminate. }
    subst b. f_equal. apply IH; auto.
    + intros r Hr. destruct (X r (or_intror Hr)) as [E|H]; auto. subst r. pose proof (Fa a Hr) as L. rewrite nlt_irrefl in L. discriminate.
    + intros r Hr. destruct (X' r (or_intror Hr)) as [E|H]; auto. subst r. pose proof (Fb a Hr) as L. rewrite nlt_irrefl in L. discriminate.
Qed.

(* [] for the empty list, null as soon as one item is not a number *)
Theorem mode_outside : b_mode [] = VList [] /\
  forall pre x post, (match x with VNum _ _ => False | _ => True end) -> b_mode (map vnum pre ++ x :: post) = VNull.
Proof.
  split; [reflexivity|]. intros pre x post Hx.
  apply (aggregates_non_number b_mode pre x post); [right; right; right; left; reflexivity|exact Hx].
Qed.

Lemma mode_nonvacuous :
  b_mode (map vnum [(3, 0); (10, -1); (2, 0); (1, 0); (30, -1); (5, 0)]) = VList [VNum 10 (-1); VNum 3 0].
Proof. vm_compute. reflexivity. Qed.
