(* C05 -- the LALR driver loop terminates: on n tokens it makes fewer than fuel_bound n = (K+1)(W+1)(n+1) + K + 1 turns, for the tables
   regenerated from feel-parser/src/lalr.rs.  The argument: every symbol of the grammar has a weight (C05.LrTermModel.weights); a shift puts
   at most W on the stack and uses up a token worth W + 1; a reduction by a rule with a non-empty right-hand side makes the stack at least
   one lighter; a reduction by an empty rule (the mid-rule actions) leaves the weight as it is, and at most K of them follow each other
   under one lookahead.  That the stack really holds the right-hand side when a rule is reduced is the invariant `links` of
   C06.ActionsGlobal (state stack = a path of the automaton read off the tables).  Then: the three driver models of /verif never
   run out of their fuel (and never find the state stack too short).  (owner: builder-total) *)
From Coq Require Import List NArith ZArith Bool Arith String Lia FMapPositive.
From DV Require Import Gen.LalrTables Gen.LalrTokens C06.Lr C06.Actions C06.ActionsKinds C06.ActionsProofs C06.ActionsAutomaton C06.ActionsGlobal.
From DV Require Import C05.LrTermModel.
Import ListNotations.
Local Open Scope Z_scope.

(* ------------------------------------------------------------------ the finite checks on the regenerated tables, each evaluated by the VM *)
Lemma ck_rules_w : forallb rule_w_ok grammar_rules = true.
Proof. vm_cast_no_check (eq_refl true). Qed.
Lemma ck_terminals_w : forallb (fun x => (wget weights x <=? W)%nat) all_syms = true.
Proof. vm_cast_no_check (eq_refl true). Qed.
Lemma ck_eps : forallb (fun s => implb (reachable auto s) (forallb (eps_ok_at s) all_looks)) all_states = true.
Proof. vm_cast_no_check (eq_refl true). Qed.
Lemma ck_end : forallb (fun s => implb (reachable auto s) (match decide_sym s 0 with MShift a => a =? yy_final | _ => true end)) all_states = true.
Proof. vm_cast_no_check (eq_refl true). Qed.

(* ------------------------------------------------------------------ arithmetic, on variables only *)
Lemma lex_lt : forall k X X' rk rk', (X' + 1 <= X)%nat -> (rk' <= k)%nat -> (S k * X' + rk' < S k * X + rk)%nat.
Proof.
  intros k X X' rk rk' H1 H2. assert (H : (S k * (X' + 1) <= S k * X)%nat) by (apply Nat.mul_le_mono_l; exact H1).
  rewrite Nat.mul_add_distr_l, Nat.mul_1_r in H. lia.
Qed.
Lemma lex_lt_eq : forall k X X' rk rk', (X' <= X)%nat -> (rk' < rk)%nat -> (S k * X' + rk' < S k * X + rk)%nat.
Proof. intros k X X' rk rk' H1 H2. assert (H : (S k * X' <= S k * X)%nat) by (apply Nat.mul_le_mono_l; exact H1). lia. Qed.
Lemma shift_arith : forall w a x n p, (x <= w)%nat -> (p <= S w)%nat -> ((x + a) + S w * n + p + 1 <= a + S w * S n + S w)%nat.
Proof. intros w a x n p H1 H2. rewrite (Nat.mul_succ_r (S w) n). lia. Qed.
Lemma endshift_arith : forall w a x, (x <= w)%nat -> ((x + a) + S w * 0 + 0 + 1 <= a + S w * 0 + S w)%nat.
Proof. intros w a x H. lia. Qed.
Lemma red_arith : forall w a a' n p, (a' + 1 <= a)%nat -> (p <= S w)%nat -> (a' + S w * n + p + 1 <= a + S w * n + S w)%nat.
Proof. intros w a a' n p H1 H2. lia. Qed.
Lemma eps_arith : forall w a n p, (p <= S w)%nat -> (0 + a + S w * n + p <= a + S w * n + S w)%nat.
Proof. intros w a n p H. lia. Qed.
Lemma init_arith : forall k w n p rk, (p <= S w)%nat -> (rk <= k)%nat -> (S k * (0 + S w * n + p) + rk < S k * S w * S n + S k)%nat.
Proof.
  intros k w n p rk H1 H2. assert (H : (S k * (0 + S w * n + p) <= S k * (S w * S n))%nat).
  { apply Nat.mul_le_mono_l. rewrite (Nat.mul_succ_r (S w) n). lia. }
  rewrite Nat.mul_assoc in H. lia.
Qed.

(* ------------------------------------------------------------------ weights *)
Lemma wsum_app : forall m a b, wsum m (a ++ b) = (wsum m a + wsum m b)%nat.
Proof. intros m a b. induction a as [|x a IH]; cbn [wsum app]; [reflexivity|]. rewrite IH. apply Nat.add_assoc. Qed.

Lemma wsum_rev : forall m l, wsum m (rev l) = wsum m l.
Proof.
  intros m l. induction l as [|x l IH]; [reflexivity|]. cbn [rev]. rewrite wsum_app, IH. cbn [wsum]. rewrite Nat.add_0_r. apply Nat.add_comm.
Qed.

Lemma erank_le : forall f s l, (erank f s l <= f)%nat.
Proof.
  induction f as [|f IH]; intros s l; cbn [erank]; [apply Nat.le_refl|].
  destruct (decide_l s l) as [|a|r|]; try apply Nat.le_0_l.
  destruct (rlen r =? 0)%nat; [apply le_n_S, IH | apply Nat.le_0_l].
Qed.

Lemma pend_le : forall ss, (pend ss <= S W)%nat.
Proof. intros [|s ss]; cbn [pend]; [apply Nat.le_0_l|]. destruct (s =? yy_final); [apply Nat.le_0_l | apply Nat.le_refl]. Qed.

Lemma top_rank_le : forall ss l, (top_rank ss l <= K)%nat.
Proof. intros [|s ss] l; cbn [top_rank]; [apply Nat.le_0_l | apply erank_le]. Qed.

(* ------------------------------------------------------------------ the decision on a lookahead *)
(* a lookahead the lexer can deliver: its error token, or a terminal of the grammar *)
Definition lok (l : option Z) : Prop := match l with None => True | Some sym => In sym all_syms end.

Lemma zero_sym : In 0 all_syms.
Proof. apply in_all_syms. vm_compute. split; [discriminate | reflexivity]. Qed.

Lemma decide_is_decide_l : forall s tok, decide s tok = decide_l s (look_of tok).
Proof.
  intros s tok. unfold decide, decide_l, look_of. destruct (s =? yy_final); [reflexivity|].
  destruct (zn t_pact s =? yy_pact_n_inf); [reflexivity|]. destruct (tok =? tok_YyError); reflexivity.
Qed.

Lemma decide_sym_default : forall s sym, (zn t_pact s =? yy_pact_n_inf) = true -> decide_sym s sym = decide_sym s 0.
Proof. intros s sym H. unfold decide_sym. rewrite H. reflexivity. Qed.

Lemma decide_sym_is_decide_l : forall s sym, decide_sym s sym = decide_l s (Some sym).
Proof.
  intros s sym. unfold decide_l. destruct (s =? yy_final) eqn:Ef; [unfold decide_sym; rewrite Ef; reflexivity|].
  destruct (zn t_pact s =? yy_pact_n_inf) eqn:Ep; [apply decide_sym_default; exact Ep | reflexivity].
Qed.

Lemma decide_l_not_final : forall s l m, decide_l s l = m -> m <> MAccept -> (s =? yy_final) = false.
Proof. intros s l m H Hm. unfold decide_l in H. destruct (s =? yy_final); [exfalso; apply Hm; symmetry; exact H | reflexivity]. Qed.

Lemma decide_l_shift : forall s l a, decide_l s l = MShift a -> exists sym, l = Some sym /\ decide_sym s sym = MShift a.
Proof.
  intros s l a H. unfold decide_l in H. destruct (s =? yy_final) eqn:Ef; [discriminate H|].
  destruct (zn t_pact s =? yy_pact_n_inf) eqn:Ep.
  - unfold decide_sym in H. rewrite Ef, Ep in H. destruct (zn t_def_act s =? 0); discriminate H.
  - destruct l as [sym|]; [|discriminate H]. exists sym. split; [reflexivity | exact H].
Qed.

Lemma decide_l_reduce : forall s l r, lok l -> decide_l s l = MReduce r -> exists sym, In sym all_syms /\ decide_sym s sym = MReduce r.
Proof.
  intros s l r Hl H. unfold decide_l in H. destruct (s =? yy_final); [discriminate H|].
  destruct (zn t_pact s =? yy_pact_n_inf).
  - exists 0. split; [exact zero_sym | exact H].
  - destruct l as [sym|]; [|discriminate H]. exists sym. split; [exact Hl | exact H].
Qed.

Lemma lok_all_looks : forall l, lok l -> In l all_looks.
Proof. intros [sym|] H; [right; apply in_map; exact H | left; reflexivity]. Qed.

(* ------------------------------------------------------------------ the state stack stays a path of the automaton *)
Lemma links_shift : forall s ss xs sym a, links (s :: ss) xs -> In sym all_syms -> decide_sym s sym = MShift a ->
  links (a :: s :: ss) (sym :: xs).
Proof.
  intros s ss xs sym a Hl Hsym Hd. destruct (closed_at _ _ _ Hl) as [Hcs _].
  unfold closed_state in Hcs. apply andb_true_iff in Hcs. destruct Hcs as [Hsh _].
  rewrite forallb_forall in Hsh. specialize (Hsh _ Hsym). cbv beta in Hsh. rewrite Hd in Hsh. constructor; assumption.
Qed.

(* a reduction finds the right-hand side of its rule on the stack; the weights of the rule *)
Lemma links_reduce : forall s ss xs sym r, links (s :: ss) xs -> In sym all_syms -> decide_sym s sym = MReduce r ->
  exists l s' ss' xs',
    skipn (rlen r) (s :: ss) = s' :: ss' /\ xs = rev l ++ xs' /\ links (goto_of r s' :: s' :: ss') (lhs_num r :: xs') /\
    match l with [] => wget weights (lhs_num r) = O | _ => (wget weights (lhs_num r) + 1 <= wsum weights l)%nat end /\
    rlen r = List.length l.
Proof.
  intros s ss xs sym r Hl Hsym Hd.
  pose proof (reductions_in s sym r Hsym Hd) as Hr.
  destruct (closed_at _ _ _ Hl) as [Hcs _]. unfold closed_state in Hcs. apply andb_true_iff in Hcs. destruct Hcs as [_ Hrd].
  rewrite forallb_forall in Hrd. specialize (Hrd r Hr). cbv beta in Hrd.
  unfold rhs_nums_rev in Hrd. destruct (rule_at r) as [[lhs rhs]|] eqn:Era; [|discriminate Hrd].
  destruct (nums rhs) as [l|] eqn:El; [|discriminate Hrd].
  destruct (back_ok auto (rev l) [s]) as [fr|] eqn:Eb; [|discriminate Hrd]. rewrite forallb_forall in Hrd.
  pose proof (rule_at_in _ _ _ Era) as Hin.
  pose proof ck_rules_w as Hw. rewrite forallb_forall in Hw. specialize (Hw _ Hin). unfold rule_w_ok in Hw. cbn [fst snd] in Hw. rewrite El in Hw.
  apply andb_true_iff in Hw. destruct Hw as [Hlen Hwt]. apply Nat.eqb_eq in Hlen.
  destruct (back_ok_sound (rev l) ss xs [s] fr s Hl (or_introl eq_refl) Eb) as (top & s' & ss' & xs' & Hss & Hlt & Hxs & Hl' & Hfr).
  exists l, s', ss', xs'. split; [|split; [exact Hxs | split; [|split; [|exact Hlen]]]].
  - rewrite Hlen, Hss. rewrite rev_length in Hlt. rewrite <- Hlt. apply skipn_length_app.
  - constructor; [exact (Hrd s' Hfr) | exact Hl'].
  - destruct l; [apply Nat.eqb_eq; exact Hwt | apply Nat.leb_le; exact Hwt].
Qed.

Lemma terminal_weight : forall sym, In sym all_syms -> (wget weights sym <= W)%nat.
Proof. intros sym H. pose proof ck_terminals_w as Hc. rewrite forallb_forall in Hc. apply Nat.leb_le. exact (Hc sym H). Qed.

Lemma end_shift_final : forall s ss xs a, links (s :: ss) xs -> decide_sym s 0 = MShift a -> a = yy_final.
Proof.
  intros s ss xs a Hl Hd. pose proof (links_top_reachable _ _ _ Hl) as Hr. pose proof (reachable_in_states _ Hr) as Hs.
  pose proof ck_end as Hc. rewrite forallb_forall in Hc. specialize (Hc s Hs). cbv beta in Hc. rewrite Hr, Hd in Hc.
  apply Z.eqb_eq. exact Hc.
Qed.

Lemma eps_rank_drops : forall s ss xs l r, links (s :: ss) xs -> lok l -> decide_l s l = MReduce r -> rlen r = O ->
  (erank K (goto_of r s) l < erank K s l)%nat.
Proof.
  intros s ss xs l r Hl Hlk Hd Hlen. pose proof (links_top_reachable _ _ _ Hl) as Hr. pose proof (reachable_in_states _ Hr) as Hs.
  pose proof ck_eps as Hc. rewrite forallb_forall in Hc. specialize (Hc s Hs). cbv beta in Hc. rewrite Hr in Hc. cbn [implb] in Hc.
  rewrite forallb_forall in Hc. specialize (Hc l (lok_all_looks l Hlk)). unfold eps_ok_at in Hc. rewrite Hd, Hlen in Hc. cbn [Nat.eqb] in Hc.
  apply Nat.ltb_lt. exact Hc.
Qed.

(* ------------------------------------------------------------------ one turn of the loop: the measure drops, the stack is never too short *)
Lemma kstep_progress : forall s ss xs ls, links (s :: ss) xs -> Forall lok ls ->
  match kstep (s :: ss) (head_look ls) with
  | KCont ss' c => exists xs', links ss' xs' /\ (measure xs' ss' (if c then tl ls else ls) < measure xs (s :: ss) ls)%nat
  | KStuck => False
  | _ => True
  end.
Proof.
  intros s ss xs ls Hl Hls.
  assert (Hlk : lok (head_look ls)) by (destruct ls as [|l0 ls']; [exact zero_sym | inversion Hls; assumption]).
  cbn [kstep]. destruct (decide_l s (head_look ls)) as [|a|r|] eqn:Ed; try exact I.
  - (* shift *)
    destruct (decide_l_shift _ _ _ Ed) as (sym & El & Hd).
    assert (Hsym : In sym all_syms) by (rewrite El in Hlk; exact Hlk).
    assert (Hnf : (s =? yy_final) = false) by (apply (decide_l_not_final _ _ _ Ed); discriminate).
    exists (sym :: xs). split; [exact (links_shift _ _ _ _ _ Hl Hsym Hd)|].
    unfold measure. apply lex_lt; [|apply top_rank_le]. cbn [wsum pend]. rewrite Hnf.
    destruct ls as [|l0 ls'].
    + cbn [head_look] in El. injection El as <-. rewrite (end_shift_final _ _ _ _ Hl Hd). rewrite Z.eqb_refl. cbn [tl List.length].
      apply endshift_arith. exact (terminal_weight 0 Hsym).
    + cbn [tl List.length]. apply shift_arith; [exact (terminal_weight sym Hsym) | apply (pend_le (a :: s :: ss))].
  - (* reduce *)
    destruct (decide_l_reduce _ _ _ Hlk Ed) as (sym & Hsym & Hd).
    assert (Hnf : (s =? yy_final) = false) by (apply (decide_l_not_final _ _ _ Ed); discriminate).
    destruct (links_reduce _ _ _ _ _ Hl Hsym Hd) as (l & s' & ss' & xs' & Hsk & Hxs & Hl' & Hwt & Hlen).
    rewrite Hsk. exists (lhs_num r :: xs'). split; [exact Hl'|].
    unfold measure. cbn [wsum]. change (pend (s :: ss)) with (if s =? yy_final then O else S W). rewrite Hnf.
    destruct l as [|x l].
    + (* an empty rule *)
      rewrite Hlen in Hsk. cbn [List.length skipn] in Hsk. injection Hsk as <- <-. cbn [rev app] in Hxs. subst xs'.
      apply lex_lt_eq.
      * rewrite Hwt. apply eps_arith. apply (pend_le (goto_of r s :: s :: ss)).
      * cbn [top_rank]. exact (eps_rank_drops _ _ _ _ _ Hl Hlk Ed Hlen).
    + apply lex_lt; [|apply top_rank_le].
      apply red_arith; [|apply (pend_le (goto_of r s' :: s' :: ss'))].
      rewrite Hxs, wsum_app, wsum_rev.
      apply (Nat.le_trans _ (wsum weights (x :: l) + wsum weights xs')%nat); [|apply Nat.le_refl].
      rewrite <- Nat.add_assoc, (Nat.add_comm (wsum weights xs') 1), Nat.add_assoc. apply Nat.add_le_mono_r. exact Hwt.
Qed.

(* ------------------------------------------------------------------ the loop on the state stack ends before the measure is used up *)
Theorem krun_terminates : forall fuel ss xs ls, links ss xs -> Forall lok ls -> (measure xs ss ls < fuel)%nat ->
  krun fuel ss ls <> KRFuel /\ krun fuel ss ls <> KRStuck.
Proof.
  induction fuel as [|f IH]; intros ss xs ls Hl Hls Hm; [exfalso; exact (Nat.nlt_0_r _ Hm)|].
  destruct (links_nonempty _ _ Hl) as (s & ss0 & ->).
  pose proof (kstep_progress s ss0 xs ls Hl Hls) as Hp. cbn [krun].
  destruct (kstep (s :: ss0) (head_look ls)) as [ss' c| | |].
  - destruct Hp as (xs' & Hl' & Hlt). apply (IH ss' xs').
    + exact Hl'.
    + destruct c; [|exact Hls]. destruct ls as [|l0 ls']; [constructor | inversion Hls; assumption].
    + apply (Nat.lt_le_trans _ _ _ Hlt). apply Nat.lt_succ_r. exact Hm.
  - split; discriminate.
  - split; discriminate.
  - destruct Hp.
Qed.

Lemma measure_init : forall ls, (measure [] [0%Z] ls < fuel_bound (List.length ls))%nat.
Proof. intro ls. unfold measure, fuel_bound. cbn [wsum]. apply init_arith; [apply pend_le | apply top_rank_le]. Qed.

(* from the start state, with fuel_bound (number of tokens) turns or more: accepted or a syntax error *)
Theorem krun_parse_terminates : forall ls fuel, Forall lok ls -> (fuel_bound (List.length ls) <= fuel)%nat ->
  krun fuel [0] ls <> KRFuel /\ krun fuel [0] ls <> KRStuck.
Proof.
  intros ls fuel Hls Hf. apply (krun_terminates fuel [0] [] ls links_0 Hls).
  apply (Nat.lt_le_trans _ _ _ (measure_init ls) Hf).
Qed.

(* ------------------------------------------------------------------ C06.Actions.frun (the parser with its semantic actions) follows the loop *)
Definition looks (toks : list ftok) : list (option Z) := map (fun t => look_of (fst t)) toks.

Lemma head_looks : forall toks, head_look (looks toks) = look_of (fst (look toks)).
Proof. intros [|t toks]; [vm_compute; reflexivity | reflexivity]. Qed.

Lemma looks_tl : forall toks, looks (tl toks) = tl (looks toks).
Proof. intros [|t toks]; reflexivity. Qed.

Lemma faccept_not_fuel : forall ns, faccept ns <> FFuel.
Proof. intros [|n [|m ns]]; discriminate. Qed.

Lemma freduce_kstep : forall r st toks,
  match freduce r st toks with
  | Next st' toks' _ => toks' = toks /\ exists top rest, skipn (rlen r) (p_ss st) = top :: rest /\ p_ss st' = goto_of r top :: top :: rest
  | Done e => e <> FFuel
  end.
Proof.
  intros r st toks. unfold freduce. change (Z.to_nat (zn t_r2 r)) with (rlen r).
  destruct (ract_at r) as [|a|].
  - destruct (skipn (rlen r) (p_ss st)) as [|top rest]; [discriminate|]. split; [reflexivity|]. exists top, rest. split; reflexivity.
  - destruct (apply_act a (rlen r) (p_vs st) (p_ns st)) as [ns'| |]; try discriminate.
    destruct (skipn (rlen r) (p_ss st)) as [|top rest]; [discriminate|]. split; [reflexivity|]. exists top, rest. split; reflexivity.
  - discriminate.
Qed.

Lemma fstep_kstep : forall st toks,
  match fstep st toks with
  | Next st' toks' _ => exists c, kstep (p_ss st) (head_look (looks toks)) = KCont (p_ss st') c /\ looks toks' = (if c then tl (looks toks) else looks toks)
  | Done e => e <> FFuel
  end.
Proof.
  intros st toks. rewrite fstep_decide, head_looks. destruct (p_ss st) as [|s ss] eqn:Ess; [discriminate|].
  cbn [kstep]. rewrite <- decide_is_decide_l. destruct (decide s (fst (look toks))) as [|a|r|].
  - apply faccept_not_fuel.
  - exists true. split; [reflexivity | apply looks_tl].
  - pose proof (freduce_kstep r st toks) as H. destruct (freduce r st toks) as [st' toks' rr|e]; [|exact H].
    destruct H as [-> (top & rest & Hsk & Hss)]. exists false. rewrite Ess in Hsk. rewrite Hsk, Hss. split; reflexivity.
  - discriminate.
Qed.

Lemma frun_krun : forall fuel st toks, frun fuel st toks = FFuel -> krun fuel (p_ss st) (looks toks) = KRFuel.
Proof.
  induction fuel as [|f IH]; intros st toks H; [reflexivity|]. cbn [frun] in H. cbn [krun].
  pose proof (fstep_kstep st toks) as Hs. destruct (fstep st toks) as [st' toks' rr|e].
  - destruct Hs as (c & Hk & Hl). rewrite Hk, <- Hl. exact (IH _ _ H).
  - exfalso. exact (Hs H).
Qed.

Lemma looks_ok : forall toks, Forall tok_ok toks -> Forall lok (looks toks).
Proof.
  intros toks H. induction H as [|t toks Ht _ IH]; [constructor|]. cbn [looks map]. constructor; [|exact IH].
  unfold look_of. destruct (fst t =? tok_YyError); [exact I | exact (proj1 Ht)].
Qed.

(* TERMINATION OF THE PARSER MODEL.  On every list of lexer-shaped tokens the loop with all semantic actions stops within
   fuel_bound (number of tokens) turns. *)
Theorem frun_terminates : forall toks fuel, Forall tok_ok toks -> (fuel_bound (List.length toks) <= fuel)%nat -> frun fuel pstate0 toks <> FFuel.
Proof.
  intros toks fuel Ht Hf H. apply frun_krun in H. cbn [p_ss pstate0] in H.
  assert (Hf' : (fuel_bound (List.length (looks toks)) <= fuel)%nat) by (unfold looks; rewrite map_length; exact Hf).
  exact (proj1 (krun_parse_terminates (looks toks) fuel (looks_ok toks Ht) Hf') H).
Qed.

Lemma fuel_bound_40 : forall n, (fuel_bound n <= 40 * S n)%nat.
Proof. intro n. unfold fuel_bound, K, W. lia. Qed.

Lemma fuel_of_enough : forall toks : list ftok, (fuel_bound (List.length toks) <= fuel_of toks)%nat.
Proof. intro toks. unfold fuel_of. apply fuel_bound_40. Qed.

(* the fuel the model gives itself (40 turns per token) is never used up *)
Theorem parse_res_terminates : forall toks, Forall tok_ok toks -> parse_res toks <> FFuel.
Proof. intros toks H. unfold parse_res. exact (frun_terminates toks (fuel_of toks) H (fuel_of_enough toks)). Qed.

(* with C06.ActionsGlobal.parse_full_safe: a tree or a syntax error, nothing else *)
Theorem parse_res_total : forall toks, Forall tok_ok toks -> (exists t, parse_res toks = FAccept t) \/ parse_res toks = FSyntax.
Proof.
  intros toks H. pose proof (parse_full_safe toks H) as Hg. pose proof (parse_res_terminates toks H) as Hn.
  destruct (parse_res toks) as [t| | | | | | |]; try (exfalso; exact Hg).
  - left. exists t. reflexivity.
  - right. reflexivity.
  - exfalso. apply Hn. reflexivity.
Qed.

Lemma frun_trace_fst : forall fuel st toks tr, fst (frun_trace fuel st toks tr) = frun fuel st toks.
Proof.
  induction fuel as [|f IH]; intros st toks tr; [reflexivity|]. cbn [frun_trace frun].
  destruct (fstep st toks) as [st' toks' r|r]; [apply IH | reflexivity].
Qed.

Theorem parse_trace_terminates : forall toks, Forall tok_ok toks -> fst (parse_trace toks) <> FFuel.
Proof. intros toks H. unfold parse_trace. rewrite frun_trace_fst. exact (parse_res_terminates toks H). Qed.

(* ------------------------------------------------------------------ C06.Lr.run (the driver that builds syntax trees) follows the loop *)
Definition lrlooks (toks : list ltok) : list (option Z) := map (fun t => Some (sym_of (fst t))) toks.

Lemma snd_popn : forall A n (l : list A), snd (popn n l) = skipn n l.
Proof.
  induction n as [|n IH]; intros l; [reflexivity|]. destruct l as [|x l]; [reflexivity|]. cbn [popn skipn].
  specialize (IH l). destruct (popn n l) as [a b]. exact IH.
Qed.

Lemma do_reduce_kstep : forall r ss ts,
  match do_reduce r ss ts with
  | Some (ss', _) => exists top rest, skipn (rlen r) ss = top :: rest /\ ss' = goto_of r top :: top :: rest
  | None => skipn (rlen r) ss = []
  end.
Proof.
  intros r ss ts. unfold do_reduce. change (Z.to_nat (zn t_r2 r)) with (rlen r).
  pose proof (snd_popn _ (rlen r) ss) as Hs. destruct (popn (rlen r) ss) as [a ss']. cbn [snd] in Hs. subst ss'.
  destruct (popn (rlen r) ts) as [kids ts'].
  destruct (skipn (rlen r) ss) as [|top rest]; [reflexivity|]. exists top, rest. split; reflexivity.
Qed.

Definition lrlook (toks : list ltok) : ltok := match toks with [] => (0, 0%N) | t :: _ => t end.

Lemma lr_run_unfold : forall f s ss ts toks, Lr.run (S f) (s :: ss) ts toks =
  match decide_sym s (sym_of (fst (lrlook toks))) with
  | MAccept => Accept ts
  | MError => SyntaxError
  | MShift a => Lr.run f (a :: s :: ss) (Leaf (fst (lrlook toks)) (snd (lrlook toks)) :: ts) (tl toks)
  | MReduce r => match do_reduce r (s :: ss) ts with Some (ss', ts') => Lr.run f ss' ts' toks | None => Stuck end
  end.
Proof.
  intros f s ss ts toks. cbn [Lr.run]. unfold decide_sym, sym_of, lrlook. cbv beta zeta.
  destruct (s =? yy_final); [reflexivity|].
  destruct (zn t_pact s =? yy_pact_n_inf).
  - destruct (zn t_def_act s =? 0); reflexivity.
  - assert (H : forall tok pay rest,
      (let '(tok, pay) := (tok, pay) in
       if (zn t_pact s + (if tok <=? 0 then 0 else zn t_translate tok) <? 0) || (yy_last <? zn t_pact s + (if tok <=? 0 then 0 else zn t_translate tok))
          || negb (zn t_check (zn t_pact s + (if tok <=? 0 then 0 else zn t_translate tok)) =? (if tok <=? 0 then 0 else zn t_translate tok))
       then if zn t_def_act s =? 0 then SyntaxError
            else match do_reduce (zn t_def_act s) (s :: ss) ts with Some (ss', ts') => Lr.run f ss' ts' toks | None => Stuck end
       else if zn t_table (zn t_pact s + (if tok <=? 0 then 0 else zn t_translate tok)) <=? 0
            then if zn t_table (zn t_pact s + (if tok <=? 0 then 0 else zn t_translate tok)) =? yy_table_n_inf then SyntaxError
                 else match do_reduce (- zn t_table (zn t_pact s + (if tok <=? 0 then 0 else zn t_translate tok))) (s :: ss) ts with
                      | Some (ss', ts') => Lr.run f ss' ts' toks | None => Stuck end
            else Lr.run f (zn t_table (zn t_pact s + (if tok <=? 0 then 0 else zn t_translate tok)) :: s :: ss) (Leaf tok pay :: ts) rest) =
      match
        (if (zn t_pact s + (if tok <=? 0 then 0 else zn t_translate tok) <? 0) || (yy_last <? zn t_pact s + (if tok <=? 0 then 0 else zn t_translate tok))
            || negb (zn t_check (zn t_pact s + (if tok <=? 0 then 0 else zn t_translate tok)) =? (if tok <=? 0 then 0 else zn t_translate tok))
         then if zn t_def_act s =? 0 then MError else MReduce (zn t_def_act s)
         else if zn t_table (zn t_pact s + (if tok <=? 0 then 0 else zn t_translate tok)) <=? 0
              then if zn t_table (zn t_pact s + (if tok <=? 0 then 0 else zn t_translate tok)) =? yy_table_n_inf then MError
                   else MReduce (- zn t_table (zn t_pact s + (if tok <=? 0 then 0 else zn t_translate tok)))
              else MShift (zn t_table (zn t_pact s + (if tok <=? 0 then 0 else zn t_translate tok))))
      with
      | MAccept => Accept ts
      | MError => SyntaxError
      | MShift a => Lr.run f (a :: s :: ss) (Leaf tok pay :: ts) rest
      | MReduce r => match do_reduce r (s :: ss) ts with Some (ss', ts') => Lr.run f ss' ts' toks | None => Stuck end
      end).
    { intros tok pay rest. cbv beta iota. set (sym := if tok <=? 0 then 0 else zn t_translate tok).
      destruct ((zn t_pact s + sym <? 0) || (yy_last <? zn t_pact s + sym) || negb (zn t_check (zn t_pact s + sym) =? sym)).
      - destruct (zn t_def_act s =? 0); reflexivity.
      - destruct (zn t_table (zn t_pact s + sym) <=? 0); [destruct (zn t_table (zn t_pact s + sym) =? yy_table_n_inf)|]; reflexivity. }
    destruct toks as [|[tok pay] toks']; cbn [fst snd tl]; apply H.
Qed.

Lemma head_lrlooks : forall toks, head_look (lrlooks toks) = Some (sym_of (fst (lrlook toks))).
Proof. intros [|t toks]; reflexivity. Qed.

Lemma lrlooks_tl : forall toks, lrlooks (tl toks) = tl (lrlooks toks).
Proof. intros [|t toks]; reflexivity. Qed.

Lemma lr_run_krun : forall fuel ss ts toks,
  match Lr.run fuel ss ts toks with
  | OutOfFuel => krun fuel ss (lrlooks toks) = KRFuel
  | Stuck => krun fuel ss (lrlooks toks) = KRStuck
  | _ => True
  end.
Proof.
  induction fuel as [|f IH]; intros ss ts toks; [reflexivity|].
  destruct ss as [|s ss]; [reflexivity|].
  rewrite lr_run_unfold. cbn [krun kstep]. rewrite head_lrlooks, <- decide_sym_is_decide_l.
  destruct (decide_sym s (sym_of (fst (lrlook toks)))) as [|a|r|]; try exact I.
  - rewrite <- lrlooks_tl. apply IH.
  - pose proof (do_reduce_kstep r (s :: ss) ts) as H. destruct (do_reduce r (s :: ss) ts) as [[ss' ts']|].
    + destruct H as (top & rest & Hsk & ->). rewrite Hsk. apply IH.
    + rewrite H. reflexivity.
Qed.

Lemma lrlooks_ok : forall toks, Forall (fun t : ltok => In (sym_of (fst t)) all_syms) toks -> Forall lok (lrlooks toks).
Proof. intros toks H. induction H as [|t toks Ht _ IH]; [constructor|]. cbn [lrlooks map]. constructor; [exact Ht | exact IH]. Qed.

(* the syntax-tree driver of C06 (lr_parse, 40 turns per token): accepted or a syntax error *)
Theorem lr_parse_terminates : forall toks, Forall (fun t : ltok => In (sym_of (fst t)) all_syms) toks ->
  lr_parse toks <> OutOfFuel /\ lr_parse toks <> Stuck.
Proof.
  intros toks H. unfold lr_parse.
  assert (Hf : (fuel_bound (List.length (lrlooks toks)) <= 40 * S (List.length toks))%nat).
  { unfold lrlooks. rewrite map_length. apply fuel_bound_40. }
  destruct (krun_parse_terminates (lrlooks toks) _ (lrlooks_ok toks H) Hf) as [H1 H2].
  pose proof (lr_run_krun (40 * S (List.length toks)) [0] [] toks) as Hs.
  destruct (Lr.run (40 * S (List.length toks)) [0] [] toks); split; try discriminate; intros _; [exact (H1 Hs) | exact (H2 Hs)].
Qed.

(* ------------------------------------------------------------------ non-vacuity: the bound in numbers, and a run that needs many turns *)
Lemma fuel_bound_value : forall n, fuel_bound n = (27 * (n + 1) + 3)%nat.
Proof. intro n. unfold fuel_bound, K, W. lia. Qed.

Lemma parse_sample_facts :
  Forall tok_ok parse_sample /\ (exists t, parse_res parse_sample = FAccept t) /\
  frun 20 pstate0 parse_sample = FFuel /\ (fuel_bound (List.length parse_sample) = 192)%nat.
Proof.
  split; [|split; [|split]].
  - apply Forall_forall. intros t Ht. apply tok_okb_ok. revert t Ht. apply Forall_forall.
    repeat (apply Forall_cons; [vm_compute; reflexivity|]). apply Forall_nil.
  - eexists. vm_compute. reflexivity.
  - vm_compute. reflexivity.
  - vm_compute. reflexivity.
Qed.
