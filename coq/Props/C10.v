(* C10 — property theorems (statements only).  Owner: builder-parse. *)
From Coq Require Import List NArith Bool Arith.
From DV Require Import C10.Model C10.Proofs C10.Backtrack C10.NormalForm C10.Layout C10.NoLoss C10.Shape C10.Complete C10.Trim C10.Reading.
Import ListNotations.

(* longest match: for every key set and every input, outside the `item` and `for .. in` tweaks, the name token is the
   longest prefix of the collected parts whose flattened text is a scope key, and the lexer resumes just after the last
   character of that prefix; when no prefix is bound the token is the whole candidate *)
Theorem C10_longest : forall keys inp pos parts cps endpos,
  collect inp pos = (parts, cps, endpos) ->
  (match parts with p :: _ => str_eqb p str_item | [] => false end) = false ->
  (forall pc, 1 <= pc <= length parts -> bound keys parts pc ->
     (forall j, pc < j <= length parts -> ~ bound keys parts j) ->
     lex_name keys false inp pos = LName (name_new (firstn pc parts)) (S (nth (pc - 1) cps 0))) /\
  ((forall j, 1 <= j <= length parts -> ~ bound keys parts j) ->
     lex_name keys false inp pos = LName (name_new parts) endpos).
Proof. exact lex_name_longest. Qed.
Print Assumptions C10_longest.

(* back-tracking is exact: every collected part is literally the input text whose last character is at its recorded position
   (ends_at: nth j part = input (S e - length part + j)), so the position the lexer returns to, S (nth (pc - 1) cps 0), is the index
   right after the last character of the chosen part: no character of the name is lost, none is read twice *)
Theorem C10_backtrack_exact : forall inp pos parts cps endpos,
  collect inp pos = (parts, cps, endpos) -> Forall2 (ends_at inp) parts cps.
Proof. exact backtrack_exact. Qed.
Print Assumptions C10_backtrack_exact.

Theorem C10_operator_when_unbound : forall keys inp pos parts cps endpos,
  collect inp pos = (parts, cps, endpos) ->
  (match parts with p :: _ => str_eqb p str_item | [] => false end) = false ->
  1 <= length parts -> bound keys parts 1 -> (forall j, 1 < j <= length parts -> ~ bound keys parts j) ->
  lex_name keys false inp pos = LName (name_new (firstn 1 parts)) (S (nth 0 cps 0)).
Proof. exact operator_when_unbound. Qed.
Print Assumptions C10_operator_when_unbound.

(* the text under which the lexer looks a prefix up is the text under which names are stored (one normal form) *)
Theorem C10_normal_form : forall ps, flatten_parts ps = name_new ps.
Proof. exact normal_form. Qed.
Print Assumptions C10_normal_form.

(* the original flatten_name_parts agreed with Name::new when every additional symbol stands between two words (the property's
   quantifier: words joined by one symbol).  In part: proved for all part lists of at most 5 parts over two words and the six
   symbols (37449 lists).  Missing: all part lists (a proof over the six successive str::replace passes); the class is not an
   exact characterisation (`. . a` also agrees).  After the repair C10_normal_form holds for every part list. *)
Theorem C10_normal_form_orig_partial : forall ps, List.In ps (lists_upto 5) -> isolated ps = true ->
  flatten_parts_orig ps = name_new ps.
Proof. exact normal_form_orig_isolated. Qed.
Print Assumptions C10_normal_form_orig_partial.

(* the original flatten_name_parts did not agree with Name::new *)
Theorem C10_normal_form_orig_refuted :
  flatten_parts_orig parts_a_plus_minus_b <> name_new parts_a_plus_minus_b /\ flatten_parts_orig parts_a_plus <> name_new parts_a_plus.
Proof. exact normal_form_refuted_witness. Qed.
Print Assumptions C10_normal_form_orig_refuted.

Example C10_operator_when_unbound_nonvacuous :
  lex_all [key_a; key_b] inp_a_minus_b = Some [KName key_a; KSym 45; KName key_b] /\
  lex_all [key_a; key_b; key_a_minus_b] inp_a_minus_b = Some [KName key_a_minus_b].
Proof. exact operator_when_unbound_witness. Qed.
Print Assumptions C10_operator_when_unbound_nonvacuous.

(* the for / some / every tweak: with `in` as the first part the original code indexed consumed_positions[-1] (a panic);
   the repaired code (/repo 83bd59b) lexes the candidate as an ordinary name *)
Theorem C10_till_in_first_part_orig_refuted :
  lex_name_orig [] true inp_in_plus_x 0 = LCrash /\ lex_name [] true inp_in_plus_x 0 = LName inp_in_plus_x 4.
Proof. exact till_in_first_part_witness. Qed.
Print Assumptions C10_till_in_first_part_orig_refuted.

(* ------------------------------------------------------------------ round 4 (prover-C10): the layout of the parts in the input, all inputs *)

(* the parts do not overlap: the first part begins at the start position, every later part is non-empty and begins after the
   recorded end of its predecessor, so consumed_positions strictly increases *)
Theorem C10_parts_disjoint : forall inp pos parts cps endpos,
  pos < length inp -> collect inp pos = (parts, cps, endpos) ->
  S (nth 0 cps 0) = pos + length (nth 0 parts []) /\
  forall i, S i < length parts ->
    1 <= length (nth (S i) parts []) /\
    nth i cps 0 + length (nth (S i) parts []) <= nth (S i) cps 0 /\
    nth i cps 0 < nth (S i) cps 0.
Proof. exact parts_disjoint. Qed.
Print Assumptions C10_parts_disjoint.

(* the gaps are white space: every input position strictly between the recorded end of part i and the first character of part i+1
   (which by C10_backtrack_exact sits at S (nth (S i) cps 0) - length of that part) holds a white-space character *)
Theorem C10_gaps_whitespace : forall inp pos parts cps endpos,
  pos < length inp -> collect inp pos = (parts, cps, endpos) ->
  forall i, S i < length parts ->
  forall j, nth i cps 0 < j -> j + length (nth (S i) parts []) <= nth (S i) cps 0 ->
    j < length inp /\ is_ws (ch inp j) = true.
Proof. exact gaps_whitespace. Qed.
Print Assumptions C10_gaps_whitespace.

(* no character lost, none duplicated: for every prefix of k collected parts, consumed ++ rest = input, where consumed -- the input
   up to the recorded end of part k -- is the text before the name followed by exactly the k parts in order (weave: gap 1, part 1,
   gap 2, part 2, ...; gap 1 is empty, every gap is white space) and rest starts at the position the lexer goes back to *)
Theorem C10_backtrack_no_loss : forall inp pos parts cps endpos,
  pos < length inp -> collect inp pos = (parts, cps, endpos) ->
  forall k, 1 <= k <= length parts ->
  exists gaps, length gaps = k /\ hd [] gaps = [] /\ Forall all_ws gaps /\
    firstn (S (nth (k - 1) cps 0)) inp = firstn pos inp ++ weave gaps (firstn k parts) /\
    (firstn pos inp ++ weave gaps (firstn k parts)) ++ skipn (S (nth (k - 1) cps 0)) inp = inp.
Proof. exact backtrack_no_loss. Qed.
Print Assumptions C10_backtrack_no_loss.

(* read on the characters: the non-space characters of the consumed text are the non-space characters of the k chosen parts, in order *)
Theorem C10_nonspace_preserved : forall inp pos parts cps endpos,
  pos < length inp -> collect inp pos = (parts, cps, endpos) ->
  forall k, 1 <= k <= length parts ->
    filter non_ws (skipn pos (firstn (S (nth (k - 1) cps 0)) inp)) = filter non_ws (concat (firstn k parts)).
Proof. exact nonspace_preserved. Qed.
Print Assumptions C10_nonspace_preserved.

(* the design's statement: when a prefix is bound (outside the `item` and `for .. in` tweaks) the token is the longest bound prefix
   and the rest is the input right after it *)
Theorem C10_longest_and_rest : forall keys inp pos parts cps endpos,
  pos < length inp -> collect inp pos = (parts, cps, endpos) ->
  (match parts with p :: _ => str_eqb p str_item | [] => false end) = false ->
  forall k, 1 <= k <= length parts -> bound keys parts k -> (forall j, k < j <= length parts -> ~ bound keys parts j) ->
  exists gaps, length gaps = k /\ hd [] gaps = [] /\ Forall all_ws gaps /\
    lex_name keys false inp pos = LName (name_new (firstn k parts)) (S (nth (k - 1) cps 0)) /\
    (firstn pos inp ++ weave gaps (firstn k parts)) ++ skipn (S (nth (k - 1) cps 0)) inp = inp.
Proof. exact longest_and_rest. Qed.
Print Assumptions C10_longest_and_rest.

(* every token of the repaired lexer, every scope, with and without the for / some / every flag, `item` included: the token is the
   normal form of a prefix of k >= 1 collected parts, and the input from the start position to the position where the lexer resumes
   is those k parts in order, separated by white space only, followed by white space only (tail; non-empty only when no prefix is
   bound and the whole candidate is the token) *)
Theorem C10_lex_name_no_loss : forall keys till_in inp pos parts cps endpos n newpos,
  pos < length inp -> collect inp pos = (parts, cps, endpos) ->
  lex_name keys till_in inp pos = LName n newpos ->
  exists k gaps tail, 1 <= k <= length parts /\ n = name_new (firstn k parts) /\
    length gaps = k /\ hd [] gaps = [] /\ Forall all_ws gaps /\ all_ws tail /\
    (tail <> [] -> forall j, 1 <= j <= length parts -> ~ bound keys parts j) /\
    firstn newpos inp = firstn pos inp ++ weave gaps (firstn k parts) ++ tail /\
    (firstn pos inp ++ weave gaps (firstn k parts) ++ tail) ++ skipn newpos inp = inp.
Proof. exact lex_name_no_loss. Qed.
Print Assumptions C10_lex_name_no_loss.

(* the repaired lexer has no crash outcome, whatever the flag *)
Theorem C10_lex_name_total : forall keys till_in inp pos, pos < length inp -> lex_name keys till_in inp pos <> LCrash.
Proof. exact lex_name_total. Qed.
Print Assumptions C10_lex_name_total.

(* `ab  cd - ef + 1` (three words, one symbol, irregular blanks) with `ab` and `ab cd-ef` bound: six parts are collected, the prefixes
   of 1 and of 4 parts are bound, the token is `ab cd-ef`, the lexer resumes at index 11 and consumed ++ rest = input *)
Example C10_no_loss_nonvacuous :
  collect inp_three_words 0 = (parts_three_words, [1; 5; 7; 10; 12; 14], 15) /\
  length inp_three_words = 15 /\
  mem (flatten_parts (firstn 1 parts_three_words)) [key_ab; key_ab_cd_ef] = true /\
  mem (flatten_parts (firstn 4 parts_three_words)) [key_ab; key_ab_cd_ef] = true /\
  forallb (fun j => negb (mem (flatten_parts (firstn j parts_three_words)) [key_ab; key_ab_cd_ef])) [2; 3; 5; 6] = true /\
  lex_name [key_ab; key_ab_cd_ef] false inp_three_words 0 = LName key_ab_cd_ef 11 /\
  (firstn 0 inp_three_words ++ weave gaps_three_words (firstn 4 parts_three_words)) ++ skipn 11 inp_three_words = inp_three_words /\
  forallb (forallb is_ws) gaps_three_words = true /\
  lex_all [key_ab; key_ab_cd_ef] inp_three_words = Some [KName key_ab_cd_ef; KSym 43; KNum [49%N]] /\
  lex_all [key_ab; [99; 100]%N; [101; 102]%N] inp_three_words = Some [KName key_ab; KName [99; 100]%N; KSym 45; KName [101; 102]%N; KSym 43; KNum [49%N]].
Proof. exact three_words_witness. Qed.
Print Assumptions C10_no_loss_nonvacuous.

(* ------------------------------------------------------------------ round 4: "longest" without reference to how the collector cuts the input *)

(* the character classes of the lexer are disjoint: no name character is white space (since the repair of is_name_start_char: the name
   characters are the ranges of the grammar LESS the white space, which takes U+1680, U+180E, U+FEFF out), the additional symbols are
   neither; with the original ranges exactly those three code points were both *)
Theorem C10_char_classes : forall c,
  (is_name_part c = true -> is_ws c = false) /\
  (is_add_sym c = true -> is_ws c = false /\ is_name_part c = false) /\
  is_name_part c = is_name_part_orig c && negb (is_ws c) /\
  (is_name_part_orig c = true -> is_ws c = true -> c = 5760%N \/ c = 6158%N \/ c = 65279%N).
Proof. exact char_classes. Qed.
Print Assumptions C10_char_classes.

Theorem C10_char_classes_orig_refuted : forallb (fun c => is_name_part_orig c && is_ws c) [5760; 6158; 65279]%N = true.
Proof. exact overlap_witness_orig. Qed.
Print Assumptions C10_char_classes_orig_refuted.

(* every collected part is a word (a non-empty run of name characters that the next input character does not extend) or one additional
   symbol; where the collector stops the next character is neither a name character, nor an additional symbol, nor white space *)
Theorem C10_collect_shape : forall inp pos parts cps endpos,
  pos < length inp -> is_name_start (ch inp pos) = true -> collect inp pos = (parts, cps, endpos) ->
  Forall2 (part_ok inp) parts cps /\
  next_is is_name_part inp (endpos - 1) = false /\ next_is is_add_sym inp (endpos - 1) = false /\ next_is is_ws inp (endpos - 1) = false.
Proof. exact collect_shape. Qed.
Print Assumptions C10_collect_shape.

(* for EVERY input the collected parts with the white space between them are a `reading` of the input from pos on: every gap is white
   space, every part is a word (a run of name characters: no white space in it, C10_char_classes) or one additional symbol, two words
   are separated by a non-empty gap, a word is not followed by a name character; where the collector stops there is white space and
   then a character that cannot belong to a name *)
Theorem C10_collect_reading : forall inp pos parts cps endpos,
  pos < length inp -> is_name_start (ch inp pos) = true -> collect inp pos = (parts, cps, endpos) ->
  exists gaps tail, layout inp pos parts gaps cps /\
    skipn pos inp = weave gaps parts ++ tail ++ skipn endpos inp /\
    reading (tail ++ skipn endpos inp) false gaps parts /\ stop_ok' (tail ++ skipn endpos inp).
Proof. exact collect_reading. Qed.
Print Assumptions C10_collect_reading.

(* longest match, stated on the input text, all inputs: let a name qs (words and additional symbols) be written at pos with any white
   space gs in its gaps (`reading`: gaps are white space, words are runs of name characters, a non-empty gap between two words) and be
   followed by R.  Then qs is the prefix of the collected parts of that length, and if its normal form (Name::new) is a scope key the token
   is the longest bound prefix, has at least as many parts, and the lexer resumes at or after the end of the written name.  So no bound name
   written at pos is longer than the token, whatever way it is cut.  No hypothesis on the characters of the input and no caveat about how
   U+1680, U+180E, U+FEFF are read (they are white space; before the repair of is_name_start_char the statement needed a rule with two
   extra conditions, see the _orig_refuted witnesses below) *)
Theorem C10_longest_written : forall keys inp pos parts cps endpos,
  pos < length inp -> is_name_start (ch inp pos) = true -> collect inp pos = (parts, cps, endpos) ->
  (match parts with p :: _ => str_eqb p str_item | [] => false end) = false ->
  forall gs qs R, qs <> [] -> skipn pos inp = weave gs qs ++ R -> reading R false gs qs ->
    firstn (length qs) parts = qs /\
    (mem (flatten_parts qs) keys = true ->
     exists k, length qs <= k <= length parts /\ bound keys parts k /\
       (forall j, k < j <= length parts -> ~ bound keys parts j) /\
       lex_name keys false inp pos = LName (name_new (firstn k parts)) (S (nth (k - 1) cps 0)) /\
       pos + length (weave gs qs) <= S (nth (k - 1) cps 0)).
Proof. exact longest_written_any. Qed.
Print Assumptions C10_longest_written.

(* the rule of the previous rounds (canon: no name character in a gap, no white space character in a word, said explicitly) is the same rule *)
Theorem C10_canon_reading : forall R qs gs b, canon R b gs qs <-> reading R b gs qs.
Proof. exact canon_reading. Qed.
Print Assumptions C10_canon_reading.

(* `ab cd-ef` is written as `ab  cd - ef` at index 0 of the input of C10_no_loss_nonvacuous and followed by ` + 1`: the hypotheses of
   C10_longest_written hold for it *)
Example C10_longest_written_nonvacuous :
  skipn 0 inp_three_words = weave gaps_three_words (firstn 4 parts_three_words) ++ rest_three_words /\
  reading rest_three_words false gaps_three_words (firstn 4 parts_three_words) /\
  is_name_start (ch inp_three_words 0) = true /\
  mem (flatten_parts (firstn 4 parts_three_words)) [key_ab; key_ab_cd_ef] = true.
Proof. exact three_words_reading. Qed.
Print Assumptions C10_longest_written_nonvacuous.

(* the three code points are white space like any other: `a<U+1680> b` and `a<U+180E>b` are the name `a b`, `a+<U+FEFF>b` is the name `a+b` *)
Example C10_reading_nonvacuous :
  reading [] false [[]; [5760; 32]%N] [k_a; k_b] /\
  lex_all [k_a; k_b; k_a_b] [97; 5760; 32; 98]%N = Some [KName k_a_b] /\
  lex_all [k_a; k_b; k_a_b] [97; 6158; 98]%N = Some [KName k_a_b] /\
  reading [] false [[]; []; [65279%N]] [k_a; [43%N]; k_b] /\
  lex_all [k_a; k_b; k_a_plus_b] [97; 43; 65279; 98]%N = Some [KName k_a_plus_b].
Proof. exact reading_witness. Qed.
Print Assumptions C10_reading_nonvacuous.

(* with the ORIGINAL character classes (collect_orig / lex_all_chars_orig: the same machine over is_name_part_orig) "longest" failed on
   written names with one of the three code points in a gap.  `a<U+1680>b` is the bound name `a b` with the white-space character U+1680
   between its words: the token was the unbound word `a<U+1680>b`, now it is `a b`.  `a+<U+1680> b` is the bound name `a+b` with white space
   behind the symbol: the collector returned a, +, <U+1680>, b, the look-up text was `a+ b` (the trimmed part still separates) and the lexer
   read a, +, b -- while `a+ <U+1680>b` was the name `a+b`; now both are `a+b`.
   (Both run against the real parser in props/c10.py: the text must give the answer of the same text with blanks.) *)
Theorem C10_longest_written_gap_rule_orig_refuted :
  [97; 5760; 98]%N = weave [[]; [5760%N]] [k_a; k_b] /\ reading [] false [[]; [5760%N]] [k_a; k_b] /\
  mem (flatten_parts [k_a; k_b]) [k_a; k_b; k_a_b] = true /\
  lex_name_chars_orig [k_a; k_b; k_a_b] false [97; 5760; 98]%N 0 = LName [97; 5760; 98]%N 3 /\
  lex_all_chars_orig [k_a; k_b; k_a_b] [97; 5760; 98]%N = Some [KName [97; 5760; 98]%N] /\
  lex_all [k_a; k_b; k_a_b] [97; 5760; 98]%N = Some [KName k_a_b] /\
  [97; 43; 5760; 32; 98]%N = weave [[]; []; [5760; 32]%N] [k_a; [43%N]; k_b] /\ reading [] false [[]; []; [5760; 32]%N] [k_a; [43%N]; k_b] /\
  mem (flatten_parts [k_a; [43%N]; k_b]) [k_a; k_b; k_a_plus_b] = true /\
  collect_orig [97; 43; 5760; 32; 98]%N 0 = ([k_a; [43%N]; [5760%N]; k_b], [0; 1; 2; 4], 5) /\
  flatten_parts [k_a; [43%N]; [5760%N]; k_b] = [97; 43; 32; 98]%N /\
  lex_all_chars_orig [k_a; k_b; k_a_plus_b] [97; 43; 5760; 32; 98]%N = Some [KName k_a; KSym 43; KName k_b] /\
  lex_all_chars_orig [k_a; k_b; k_a_plus_b] [97; 43; 32; 5760; 98]%N = Some [KName k_a_plus_b] /\
  collect [97; 43; 5760; 32; 98]%N 0 = ([k_a; [43%N]; k_b], [0; 1; 4], 5) /\
  lex_all [k_a; k_b; k_a_plus_b] [97; 43; 5760; 32; 98]%N = Some [KName k_a_plus_b].
Proof. exact gap_rule_witness. Qed.
Print Assumptions C10_longest_written_gap_rule_orig_refuted.

(* a word that begins with U+180E behind a blank: with the original classes `<U+180E>b` was a word, the name with the words `a`, `<U+180E>b`
   was bound (scope key `a <U+180E>b`) and written with one blank between its words; the lexer read the words a, b: such a name could not
   be written in a text.  Now `<U+180E>b` is not a word *)
Theorem C10_longest_written_word_rule_orig_refuted :
  name_new [k_a; [6158; 98]%N] = k_a_mvs_b /\
  [97; 32; 6158; 98]%N = weave [[]; [32%N]] [k_a; [6158; 98]%N] /\ forallb is_name_part_orig [6158; 98]%N = true /\
  mem (flatten_parts [k_a; [6158; 98]%N]) [k_a; k_a_mvs_b] = true /\
  collect_orig [97; 32; 6158; 98]%N 0 = ([k_a; k_b], [0; 3], 4) /\
  lex_all_chars_orig [k_a; k_a_mvs_b] [97; 32; 6158; 98]%N = Some [KName k_a; KName k_b] /\
  forallb is_name_part [6158; 98]%N = false.
Proof. exact word_rule_witness. Qed.
Print Assumptions C10_longest_written_word_rule_orig_refuted.

(* ------------------------------------------------------------------ Name::new trims its parts (str::trim, Unicode White_Space) *)

(* trimming is idempotent, so Name::new of trimmed parts is Name::new; without White_Space characters in the parts it is the joining loop *)
Theorem C10_name_new_trim : forall ps,
  name_new (map trim ps) = name_new ps /\ (Forall (Forall (fun c => is_white_space c = false)) ps -> name_new ps = name_join ps).
Proof. exact name_new_trim_facts. Qed.
Print Assumptions C10_name_new_trim.

(* White_Space is part of the white space of the lexer; the lexer has three more (U+180E, U+200B, U+FEFF); no name character has the
   property (of the original ranges only U+1680 had it); an additional symbol has not *)
Theorem C10_white_space_classes : forall c,
  (is_white_space c = true -> is_ws c = true) /\
  (is_ws c = true -> is_white_space c = false -> c = 6158%N \/ c = 8203%N \/ c = 65279%N) /\
  (is_name_part c = true -> is_white_space c = false) /\
  (is_name_part_orig c = true -> is_white_space c = true -> c = 5760%N) /\
  (is_add_sym c = true -> is_white_space c = false).
Proof. exact white_space_classes. Qed.
Print Assumptions C10_white_space_classes.

(* what the trim does to the parts the collector returns, every input: nothing (a word has no White_Space character): the name of every
   prefix is the joining loop over the parts as collected *)
Theorem C10_trim_collected : forall inp pos parts cps endpos,
  pos < length inp -> is_name_start (ch inp pos) = true -> collect inp pos = (parts, cps, endpos) ->
  map trim parts = parts /\ forall k, name_new (firstn k parts) = name_join (firstn k parts).
Proof. exact trim_collected. Qed.
Print Assumptions C10_trim_collected.

(* the unit test of feel/src/names.rs on the model ("   x   ", " y      \t", "  \n  z  \t  " is `x y z`; "x", "    +    ", "y" is `x+y`;
   three empty parts are the empty name; From<&str> trims the text), and the trim on parts that hold U+1680 / U+180E / U+FEFF (names built
   outside the lexer; the original collector also returned such parts): <U+1680> alone is trimmed to an empty part that still separates
   (`a+ b`), `a<U+1680>` is `a`, U+180E and U+FEFF stay *)
Example C10_name_new_nonvacuous :
  (name_new [[32; 32; 32; 120; 32; 32; 32]; [32; 121; 32; 32; 32; 32; 32; 32; 9]; [32; 32; 10; 32; 32; 122; 32; 32; 9; 32; 32]]%N = [120; 32; 121; 32; 122]%N /\
   name_new [[120]; [32; 32; 32; 32; 43; 32; 32; 32; 32]; [121]]%N = [120; 43; 121]%N /\
   name_new [[]; []; []] = [] /\
   name_of_text [32; 97; 32; 98; 9]%N = [97; 32; 98]%N) /\
  (name_new [[97]; [43]; [5760]; [98]]%N = [97; 43; 32; 98]%N /\
   name_new [[97]; [43]; [98]]%N = [97; 43; 98]%N /\
   name_new [[97; 5760]]%N = [97]%N /\ name_new [[5760; 97; 5760; 98; 5760]]%N = [97; 5760; 98]%N /\
   name_new [[97; 6158]]%N = [97; 6158]%N /\ name_new [[97; 65279]]%N = [97; 65279]%N).
Proof. exact name_new_witnesses. Qed.
Print Assumptions C10_name_new_nonvacuous.

(* what the overlap meant: with the original classes such a code point continued the word directly after a name character and was white
   space after a blank; now it is white space in both places *)
Theorem C10_overlap_reading_orig_refuted :
  collect_orig [97; 5760; 98]%N 0 = ([[97; 5760; 98]%N], [2], 3) /\
  collect_orig [97; 32; 5760; 98]%N 0 = ([[97%N]; [98%N]], [0; 3], 4) /\
  collect [97; 5760; 98]%N 0 = ([[97%N]; [98%N]], [0; 2], 3) /\
  collect [97; 32; 5760; 98]%N 0 = ([[97%N]; [98%N]], [0; 3], 4).
Proof. exact overlap_reading_witness. Qed.
Print Assumptions C10_overlap_reading_orig_refuted.

(* C10_longest for both values of the for / some / every flag, and the two tweaks exactly: a candidate whose first part is `item` gives
   `item`; with the flag set and the keyword `in` as a part after the first one the token is the parts before `in`; in every other case
   (flag clear, or no `in` part, or `in` as the first part) the token is the longest bound prefix, else the whole candidate *)
Theorem C10_lex_name_cases : forall keys till_in inp pos parts cps endpos,
  collect inp pos = (parts, cps, endpos) ->
  ((match parts with p :: _ => str_eqb p str_item | [] => false end) = true ->
     lex_name keys till_in inp pos = LName str_item (S (nth 0 cps 0))) /\
  ((match parts with p :: _ => str_eqb p str_item | [] => false end) = false ->
     forall i, till_in = true -> index_of str_in parts 0 = Some (S i) ->
     lex_name keys till_in inp pos = LName (name_new (firstn (S i) parts)) (S (nth i cps 0))) /\
  ((match parts with p :: _ => str_eqb p str_item | [] => false end) = false ->
     (till_in = false \/ index_of str_in parts 0 = None \/ index_of str_in parts 0 = Some 0) ->
     (forall pc, 1 <= pc <= length parts -> bound keys parts pc ->
        (forall j, pc < j <= length parts -> ~ bound keys parts j) ->
        lex_name keys till_in inp pos = LName (name_new (firstn pc parts)) (S (nth (pc - 1) cps 0))) /\
     ((forall j, 1 <= j <= length parts -> ~ bound keys parts j) ->
        lex_name keys till_in inp pos = LName (name_new parts) endpos)).
Proof. exact lex_name_cases. Qed.
Print Assumptions C10_lex_name_cases.
