(* C19 — characters -> plane.  Executable transliteration of recognizer/src/canvas.rs (scan and Canvas::plane) with the
   final check of plane.rs Plane::finalize.  (owner: ext-canvas; the plane-level model is coq/C19/Model.v, owner builder-dt)

   The text is a list of code points.  The canvas is four layers (TEXT, THIN, BODY, GRID), each a list of rows of code points
   (the Rust code keeps one matrix of 4-character cells; a layer here is the projection of that matrix).
   Results are three-valued: Ok, Err (the Rust function returns Err) and Panic (the Rust code would index out of bounds,
   take an ill-formed slice or underflow a usize: theorem C19_canvas_total shows Panic is never produced).
   The passes run in the order of `scan`:
     lines/trim/start-stop of adding lines, filling to a rectangle (note the extra last line the Rust code always has),
     recognize_information_item_name, recognize_crossings, recognize_body_rect, prepare_regions,
     remove_information_item_region, make_grid; then Canvas::plane: recognize_regions on THIN, the walk over GRID.
   The `while` loops of the four directed searches are structural recursions on the number of remaining steps (no fuel needed).
   No proofs in this file. *)
From Coq Require Import List NArith Bool Arith.
From DV Require Import C19.Model.
Import ListNotations.

Inductive res (A : Type) : Type := Ok (a : A) | Err | Panic.
Arguments Ok {A} a.
Arguments Err {A}.
Arguments Panic {A}.
Definition bind {A B} (r : res A) (f : A -> res B) : res B :=
  match r with Ok a => f a | Err => Err | Panic => Panic end.
Notation "x <- r ;; k" := (bind r (fun x => k)) (at level 61, r at next level, right associativity).
Notation "' p <- r ;; k" := (bind r (fun x => match x with p => k end)) (at level 61, p pattern, r at next level, right associativity).

(* ---------------- characters ---------------- *)
Definition cH : N := 9472.   (* ─ *)
Definition cV : N := 9474.   (* │ *)
Definition cTL : N := 9484.  (* ┌ *)
Definition cTR : N := 9488.  (* ┐ *)
Definition cBL : N := 9492.  (* └ *)
Definition cBR : N := 9496.  (* ┘ *)
Definition cL : N := 9500.   (* ├ *)
Definition cR : N := 9508.   (* ┤ *)
Definition cT : N := 9516.   (* ┬ *)
Definition cB : N := 9524.   (* ┴ *)
Definition cX : N := 9532.   (* ┼ *)
Definition dH : N := 9552.   (* ═ *)
Definition dV : N := 9553.   (* ║ *)
Definition dLh : N := 9566.  (* ╞ *)
Definition dLv : N := 9567.  (* ╟ *)
Definition dRh : N := 9569.  (* ╡ *)
Definition dRv : N := 9570.  (* ╢ *)
Definition dTh : N := 9572.  (* ╤ *)
Definition dTv : N := 9573.  (* ╥ *)
Definition dBh : N := 9575.  (* ╧ *)
Definition dBv : N := 9576.  (* ╨ *)
Definition dXh : N := 9578.  (* ╪ *)
Definition dXv : N := 9579.  (* ╫ *)
Definition dXX : N := 9580.  (* ╬ *)
Definition cWhite : N := 32.
Definition cOuter : N := 9617. (* ░ *)
Definition cNL : N := 10.

Definition corners_tl := [cTL; cL; cT; cX].
Definition corners_tr := [cTR; cR; cT; cX].
Definition corners_br := [cBR; cR; cB; cX].
Definition corners_bl := [cBL; cL; cB; cX].

Definition mem (c : N) (s : list N) : bool := existsb (N.eqb c) s.

(* ---------------- layers, points, rectangles ---------------- *)
Definition layer := list (list N).
Definition point := (nat * nat)%type.              (* (x, y) *)
Definition rect := (nat * nat * nat * nat)%type.   (* (left, top, right, bottom), right and bottom exclusive *)

Definition get (g : layer) (y x : nat) : option N :=
  match nth_error g y with Some r => nth_error r x | None => None end.
Definition getd (g : layer) (y x : nat) : N := nth x (nth y g []) 0%N.

Fixpoint mapi_from {A B} (f : nat -> A -> B) (i : nat) (l : list A) : list B :=
  match l with [] => [] | a :: r => f i a :: mapi_from f (S i) r end.
Definition mapi {A B} (f : nat -> A -> B) (l : list A) : list B := mapi_from f 0 l.
(* a layer of the shape of g whose character at (y, x) is f y x (old character) *)
Definition remap (g : layer) (f : nat -> nat -> N -> N) : layer := mapi (fun y row => mapi (fun x c => f y x c) row) g.

(* Rect::contains *)
Definition contains (a r : rect) : bool :=
  let '(al, at_, ar, ab) := a in let '(l, t, rr, b) := r in
  (al <=? l) && (at_ <=? t) && (rr <=? ar) && (b <=? ab).

(* ---------------- cursor movement and the five searches ---------------- *)
Definition move_to (g : layer) (p : point) : res point :=
  let rc := length g in
  let y := if snd p <? rc then snd p else if 0 <? rc then rc - 1 else 0 in
  match nth_error g y with
  | None => Panic
  | Some r =>
      let cc := length r in
      let x := if fst p <? cc then fst p else if 0 <? cc then cc - 1 else 0 in
      Ok (x, y)
  end.

Fixpoint find_row (s : list N) (row : list N) (x : nat) : option (N * nat) :=
  match row with [] => None | c :: r => if mem c s then Some (c, x) else find_row s r (S x) end.
Fixpoint find_rows (s : list N) (rows : layer) (y : nat) : option (N * point) :=
  match rows with
  | [] => None
  | r :: rs => match find_row s r 0 with Some (c, x) => Some (c, (x, y)) | None => find_rows s rs (S y) end
  end.
(* Canvas::search: from the cursor to the end of its line, then the following lines *)
Definition search (g : layer) (cur : point) (s : list N) : res (N * point) :=
  let (x, y) := cur in
  match nth_error g y with
  | None => Panic
  | Some row =>
      match find_row s (skipn x row) x with
      | Some (c, x') => Ok (c, (x', y))
      | None => match find_rows s (skipn (S y) g) (S y) with Some r => Ok r | None => Err end
      end
  end.

Definition step (s a : list N) (ch : option N) (p : point) (continue : res (N * point)) : res (N * point) :=
  match ch with
  | None => Panic
  | Some c => if mem c s then Ok (c, p) else if mem c a then continue else Err
  end.

Fixpoint scan_up (g : layer) (s a : list N) (x y : nat) : res (N * point) :=
  match y with O => Err | S y' => step s a (get g y' x) (x, y') (scan_up g s a x y') end.
Fixpoint scan_left (g : layer) (s a : list N) (y x : nat) : res (N * point) :=
  match x with O => Err | S x' => step s a (get g y x') (x', y) (scan_left g s a y x') end.
(* k = number of steps left before the last column / line *)
Fixpoint scan_right (g : layer) (s a : list N) (y k x : nat) : res (N * point) :=
  match k with O => Err | S k' => step s a (get g y (S x)) (S x, y) (scan_right g s a y k' (S x)) end.
Fixpoint scan_down (g : layer) (s a : list N) (x k y : nat) : res (N * point) :=
  match k with O => Err | S k' => step s a (get g (S y) x) (x, S y) (scan_down g s a x k' (S y)) end.

Definition search_up (g : layer) (cur : point) (s a : list N) := scan_up g s a (fst cur) (snd cur).
Definition search_left (g : layer) (cur : point) (s a : list N) := scan_left g s a (snd cur) (fst cur).
Definition search_right (g : layer) (cur : point) (s a : list N) : res (N * point) :=
  match nth_error g (snd cur) with
  | None => Panic
  | Some row => match length row with O => Panic (* len - 1 *) | S n => scan_right g s a (snd cur) (n - fst cur) (fst cur) end
  end.
Definition search_down (g : layer) (cur : point) (s a : list N) : res (N * point) :=
  match length g with O => Panic | S n => scan_down g s a (fst cur) (n - snd cur) (snd cur) end.

Definition point_eqb (p q : point) : bool := Nat.eqb (fst p) (fst q) && Nat.eqb (snd p) (snd q).
Definition close_rectangle (closing top_left bottom_right : point) : res rect :=
  if point_eqb closing top_left then Ok (fst top_left, snd top_left, S (fst bottom_right), S (snd bottom_right)) else Err.

(* ---------------- text_from_rect ---------------- *)
Definition slice {A} (l : list A) (a b : nat) : option (list A) :=
  if (a <=? b) && (b <=? length l) then Some (firstn (b - a) (skipn a l)) else None.
Fixpoint map_opt {A B} (f : A -> option B) (l : list A) : option (list B) :=
  match l with
  | [] => Some []
  | a :: r => match f a, map_opt f r with Some b, Some bs => Some (b :: bs) | _, _ => None end
  end.
(* the new_line flag of the Rust loop *)
Fixpoint text_rows (rows : list (list N)) (nl : bool) : list N :=
  match rows with
  | [] => []
  | [] :: rs => text_rows rs true
  | (c :: r) :: rs => (if nl then [cNL] else []) ++ c :: r ++ text_rows rs true
  end.
Definition text_from_rect (g : layer) (r : rect) : res (list N) :=
  let '(l, t, rr, b) := r in
  match b with
  | O => Panic
  | S b' =>
      match slice g (S t) b' with
      | None => Panic
      | Some rows =>
          match map_opt (fun row => slice row (S l) (rr - 1)) rows with
          | None => Panic
          | Some rs => Ok (text_rows rs false)
          end
      end
  end.

(* ---------------- recognize_region / recognize_rectangle ---------------- *)
Definition walk (g : layer) (top_left : point) (r1 a1 r2 a2 r3 a3 r4 a4 : list N) : res rect :=
  c0 <- move_to g top_left ;;
  ' (_, c1) <- search_right g c0 r1 a1 ;;
  ' (_, bottom_right) <- search_down g c1 r2 a2 ;;
  ' (_, c3) <- search_left g bottom_right r3 a3 ;;
  ' (_, closing) <- search_up g c3 r4 a4 ;;
  close_rectangle closing top_left bottom_right.

Definition recognize_region (g : layer) (top_left : point) : res rect :=
  walk g top_left corners_tr [cH; cB] corners_br [cV; cL] corners_bl [cH; cT] corners_tl [cV; cR].
Definition recognize_rectangle (g : layer) (top_left : point) : res rect :=
  walk g top_left [cX; cT; cR; cTR] [cH] [cX; cB; cR; cBR] [cV] [cX; cBL; cL; cB] [cH] [cX; cT; cL; cTL] [cV].

Definition is_tl_corner (g : layer) (y x : nat) : bool :=
  match get g y x with Some c => mem c corners_tl | None => false end.
Definition find_top_left_corners (g : layer) : list point :=
  flat_map (fun y => map (fun x => (x, y)) (filter (is_tl_corner g y) (seq 0 (length (nth y g []))))) (seq 0 (length g)).

Fixpoint map_res {A B} (f : A -> res B) (l : list A) : res (list B) :=
  match l with
  | [] => Ok []
  | a :: r => b <- f a ;; bs <- map_res f r ;; Ok (b :: bs)
  end.
Definition recognize_regions (thin : layer) : res (list rect) :=
  map_res (recognize_region thin) (find_top_left_corners thin).

(* ---------------- scan: text -> lines -> rectangle of characters ---------------- *)
Definition is_ws (c : N) : bool :=      (* char::is_whitespace (White_Space) *)
  ((9 <=? c) && (c <=? 13) || (c =? 32) || (c =? 133) || (c =? 160) || (c =? 5760) || (8192 <=? c) && (c <=? 8202)
   || (c =? 8232) || (c =? 8233) || (c =? 8239) || (c =? 8287) || (c =? 12288))%N.
Fixpoint trim_start (l : list N) : list N :=
  match l with [] => [] | c :: r => if is_ws c then trim_start r else l end.
Definition trim (l : list N) : list N := rev (trim_start (rev (trim_start l))).
(* str::lines followed by the test for an empty trimmed line: splitting at LF is enough (CR is white space) *)
Fixpoint split_lines (l cur : list N) : list (list N) :=
  match l with
  | [] => [rev cur]
  | c :: r => if (c =? cNL)%N then rev cur :: split_lines r [] else split_lines r (c :: cur)
  end.

(* state of the loop over the lines: start_adding, end_adding, lines added (last first), width *)
Definition scan_line (st : bool * bool * list (list N) * nat) (line0 : list N) : bool * bool * list (list N) * nat :=
  let '(start, endd, rows, width) := st in
  let line := trim line0 in
  match line with
  | [] => st
  | c0 :: _ =>
      let start := if (c0 =? cTL)%N && negb start && negb endd then true else start in
      let add := start && negb endd in
      let rows := if add then line :: rows else rows in
      let width := if add then Nat.max width (length line) else width in
      let endd := if (last line 0 =? cBR)%N && start && negb endd then true else endd in
      (start, endd, rows, width)
  end.

Definition pad (w : nat) (c : N) (row : list N) : list N := row ++ repeat c (w - length row).

(* the TEXT layer and the initial content of the three other layers *)
Definition scan_layers (text : list N) : layer * layer :=
  let '(_, _, rows, width) := fold_left scan_line (split_lines text []) (false, false, [], O) in
  let content := rev rows ++ [[]] in          (* content starts as vec![vec![]] and every added line pushes one more *)
  if (0 <? length rows) && (0 <? width)
  then (map (pad width cOuter) content, map (fun row => pad width cOuter (repeat cWhite (length row))) content)
  else (content, content).

Record canvas := {
  cv_text : layer; cv_thin : layer; cv_body : layer; cv_grid : layer;
  cv_cross : point; cv_horz : option point; cv_vert : option point;
  cv_name : option (list N); cv_rect : rect }.

Definition recognize_information_item_name (g : layer) : res (option (list N)) :=
  c0 <- move_to g (0, 0) ;;
  ' (_, top_left) <- search g c0 [cTL] ;;
  ' (_, top_edge) <- search g top_left [dTv] ;;
  if snd top_left <? snd top_edge then
    c1 <- move_to g top_left ;;
    ' (_, c2) <- search_right g c1 [cTR] [cH] ;;
    ' (_, bottom_right) <- search_down g c2 [cB; cR; cX] [cV] ;;
    ' (_, c3) <- search_left g bottom_right [cL] [cH; cT; dTv] ;;
    ' (_, closing) <- search_up g c3 [cTL] [cV] ;;
    r <- close_rectangle closing top_left bottom_right ;;
    t <- text_from_rect g r ;;
    Ok (Some t)
  else Ok None.

Definition opt_of {A} (r : res A) (k : option A -> res (point * option point * option point)) :=
  match r with Ok a => k (Some a) | Err => k None | Panic => Panic end.

Definition recognize_crossings (g : layer) : res (point * option point * option point) :=
  c0 <- move_to g (0, 0) ;;
  ' (_, p) <- search g c0 [dXX] ;;
  c1 <- move_to g p ;;
  opt_of (search_right g c1 [dXX] [dH; dXh]) (fun h =>
  c2 <- move_to g p ;;
  opt_of (search_down g c2 [dXX] [dV; dXv]) (fun v =>
  Ok (p, option_map snd h, option_map snd v))).

Definition recognize_body_rect (g : layer) : res rect :=
  c0 <- move_to g (0, 0) ;;
  ' (_, cross_point) <- search g c0 [dXX] ;;
  ' (_, top_point) <- search_up g cross_point [dTv] [dV; dXv; dLv; dRv] ;;
  ' (_, bottom_point) <- search_down g top_point [dBv] [dV; dXv; dLv; dRv; dXX] ;;
  c1 <- move_to g cross_point ;;
  ' (_, left_point) <- search_left g c1 [dLh] [dH; dXh; dBh; dTh] ;;
  ' (_, right_point) <- search_right g left_point [dRh] [dH; dXh; dBh; dTh; dXX] ;;
  Ok (fst left_point, snd top_point, S (fst right_point), S (snd bottom_point)).

(* prepare_regions: one character *)
Definition prep (c : N) : N :=
  if mem c [cTL; cTR; cBL; cBR; cT; cB; cH; cV; cL; cX; cR; cWhite; cOuter] then c
  else if mem c [dTv; dTh] then cT
  else if (c =? dV)%N then cV
  else if mem c [dBv; dBh] then cB
  else if (c =? dH)%N then cH
  else if mem c [dLh; dLv] then cL
  else if mem c [dRh; dRv] then cR
  else if mem c [dXv; dXh; dXX] then cX
  else cWhite.

(* remove_information_item_region: the top line of the body *)
Definition top_conv (c : N) : N :=
  if (c =? cL)%N then cTL else if (c =? cB)%N then cH else if (c =? cR)%N then cTR else if (c =? cX)%N then cT else c.

Definition in_range (a b x : nat) : bool := (a <=? x) && (x <? b).

(* every line of a layer is at least w wide and the layer at least h high: the index loops over a rectangle stay inside *)
Definition fits (g : layer) (right bottom : nat) : bool :=
  (bottom <=? length g) && forallb (fun row => right <=? length row) (firstn bottom g).

Definition remove_information_item_region (blank thin : layer) (r : rect) : res layer :=
  let '(lf, tp, rg, bt) := r in
  if fits blank rg (Nat.max bt (S tp)) then
    Ok (remap blank (fun y x c =>
          if in_range lf rg x then
            if S y <? tp then cOuter
            else if y =? tp then top_conv (getd thin y x)
            else if in_range (S tp) bt y then getd thin y x
            else c
          else c))
  else Panic.

Definition grid_row_char (lf rg x : nat) (c : N) : N :=
  if (c =? cV)%N then (if x =? lf then cL else if x =? rg - 1 then cR else cX)
  else if (c =? cR)%N then (if x <? rg - 1 then cX else c)
  else if (c =? cL)%N then (if 0 <? x then cX else c)
  else if (c =? cWhite)%N then cH
  else c.
Definition grid_col_char (tp bt y : nat) (c : N) : N :=
  if (c =? cH)%N then (if y =? tp then cT else if y =? bt - 1 then cB else cX)
  else if (c =? cB)%N then (if y <? bt - 1 then cX else c)
  else if (c =? cT)%N then (if tp <? y then cX else c)
  else if (c =? cWhite)%N then cV
  else c.

Definition make_grid (body : layer) (r : rect) : res layer :=
  let '(lf, tp, rg, bt) := r in
  if fits body rg bt then
    let g1 := mapi (fun y row =>
                if in_range tp bt y && existsb (N.eqb cH) (firstn (rg - lf) (skipn lf row))
                then mapi (fun x c => if in_range lf rg x then grid_row_char lf rg x c else c) row
                else row) body in
    let width := length (nth 0 g1 []) in
    let vcols := map (fun x => existsb (fun y => (getd g1 y x =? cV)%N) (seq tp (bt - tp))) (seq 0 width) in
    Ok (remap g1 (fun y x c =>
          if in_range lf rg x && in_range tp bt y && nth x vcols false then grid_col_char tp bt y c else c))
  else Panic.

Definition scan_from (txt blank : layer) : res canvas :=
  name <- recognize_information_item_name txt ;;
  ' (cross, horz, vert) <- recognize_crossings txt ;;
  r <- recognize_body_rect txt ;;
  let thin := map (map prep) txt in
  body <- remove_information_item_region blank thin r ;;
  grid <- make_grid body r ;;
  Ok {| cv_text := txt; cv_thin := thin; cv_body := body; cv_grid := grid;
        cv_cross := cross; cv_horz := horz; cv_vert := vert; cv_name := name; cv_rect := r |}.
Definition scan (text : list N) : res canvas :=
  let (txt, blank) := scan_layers text in scan_from txt blank.

(* ---------------- Canvas::plane ---------------- *)
Inductive ccell :=
| CRegion (n : nat) (r : rect) (text : list N)
| CVOut | CVAnn | CHOut | CHAnn | CMain | CHCross | CVCross.

Definition opt_is (o : option nat) (i : nat) : bool := match o with Some k => k =? i | None => false end.

Fixpoint find_region (regions : list rect) (r : rect) (i : nat) : option (nat * rect) :=
  match regions with
  | [] => None
  | a :: rest => if contains a r then Some (i, a) else find_region rest r (S i)
  end.

(* state along one line of the canvas: cells of the plane row (last first), col, cross_col, cross_horz_col *)
Definition row_state := (list ccell * nat * option nat * option nat)%type.

Definition plane_cell (cv : canvas) (regions : list rect) (y : nat) (st : row_state) (x : nat) : res row_state :=
  if is_tl_corner (cv_grid cv) y x then
    let '(cells, col, cc, ch) := st in
    let '(cells, col, cc) := if x =? fst (cv_cross cv) then (CVOut :: cells, S col, Some col) else (cells, col, cc) in
    let '(cells, col, ch) :=
      match cv_horz cv with
      | Some p => if x =? fst p then (CVAnn :: cells, S col, Some col) else (cells, col, ch)
      | None => (cells, col, ch)
      end in
    rect <- recognize_rectangle (cv_grid cv) (x, y) ;;
    match find_region regions rect 0 with
    | None => Err
    | Some (i, region) => t <- text_from_rect (cv_text cv) region ;; Ok (CRegion i region t :: cells, S col, cc, ch)
    end
  else Ok st.

Fixpoint fold_res {A B} (f : A -> B -> res A) (l : list B) (a : A) : res A :=
  match l with [] => Ok a | b :: r => a' <- f a b ;; fold_res f r a' end.

(* state of the walk over the lines: finished rows of the plane (last first), width, cross_col, cross_horz_col *)
Definition plane_state := (list (list ccell) * nat * option nat * option nat)%type.

Definition plane_line (cv : canvas) (regions : list rect) (st : plane_state) (y : nat) : res plane_state :=
  let '(rows, width, cc, ch) := st in
  let rows :=
    if y =? snd (cv_cross cv)
    then map (fun i => if opt_is cc i then CMain else if opt_is ch i then CHCross else CHOut) (seq 0 width) :: rows
    else rows in
  let rows :=
    match cv_vert cv with
    | Some p => if y =? snd p then map (fun i => if opt_is cc i then CVCross else CHAnn) (seq 0 width) :: rows else rows
    | None => rows
    end in
  ' (cells, _, cc, ch) <- fold_res (plane_cell cv regions y) (seq 0 (length (nth y (cv_grid cv) []))) ([], O, cc, ch) ;;
  match cells with
  | [] => Ok (rows, width, cc, ch)                                   (* no corner on this line *)
  | _ => Ok (rev cells :: rows, length cells, cc, ch)
  end.

(* Plane::finalize: the rows must have the same non-zero length *)
Definition finalize (rows : list (list ccell)) : res (list (list ccell)) :=
  let w := match rows with [] => O | r :: _ => length r end in
  if (w =? 0) || existsb (fun r => negb (length r =? w)) rows then Err else Ok rows.

Definition plane_of (cv : canvas) : res (list (list ccell)) :=
  regions <- recognize_regions (cv_thin cv) ;;
  ' (rows, _, _, _) <- fold_res (plane_line cv regions) (seq 0 (length (cv_grid cv))) ([], O, None, None) ;;
  finalize (rev rows).

(* information item name and plane, as the Rust code builds them *)
Definition canvas_cplane (text : list N) : res (option (list N) * list (list ccell)) :=
  cv <- scan text ;; p <- plane_of cv ;; Ok (cv_name cv, p).

(* ---------------- the plane of Model.v: region numbers as ids, texts through a coding of strings ---------------- *)
Section Abstract.
Variable code : list N -> N.
Definition abs_cell (c : ccell) : cell :=
  match c with
  | CRegion n _ t => Region (N.of_nat n, 0%N) (code t)
  | CVOut => VOut | CVAnn => VAnn | CHOut => HOut | CHAnn => HAnn
  | CMain => Main | CHCross => HCross | CVCross => VCross
  end.
Definition canvas_to_plane (text : list N) : option plane :=
  match canvas_cplane text with Ok (_, p) => Some (map (map abs_cell) p) | _ => None end.
End Abstract.

(* ---------------- comparison of outcomes (used by the check: the Rust outcome is given as a term) ---------------- *)
Definition rect_eqb (a b : rect) : bool :=
  let '(a1, a2, a3, a4) := a in let '(b1, b2, b3, b4) := b in (a1 =? b1) && (a2 =? b2) && (a3 =? b3) && (a4 =? b4).
Definition ccell_eqb (a b : ccell) : bool :=
  match a, b with
  | CRegion n r t, CRegion n' r' t' => (n =? n') && rect_eqb r r' && all2 N.eqb t t'
  | CVOut, CVOut | CVAnn, CVAnn | CHOut, CHOut | CHAnn, CHAnn | CMain, CMain | CHCross, CHCross | CVCross, CVCross => true
  | _, _ => false
  end.
Definition outcome := res (option (list N) * list (list ccell)).
Definition outcome_eqb (a b : outcome) : bool :=
  match a, b with
  | Ok (n, p), Ok (n', p') =>
      match n, n' with Some x, Some y => all2 N.eqb x y | None, None => true | _, _ => false end && all2 (all2 ccell_eqb) p p'
  | Err, Err | Panic, Panic => true
  | _, _ => false
  end.
