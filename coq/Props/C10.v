(* C10 — property theorems (statements only).  Owner: builder-parse. *)
From Coq Require Import List NArith Bool Arith.
From DV Require Import C10.Model C10.Proofs C10.Backtrack C10.NormalForm C10.Layout C10.NoLoss C10.Shape C10.Complete.
Import ListNotations.

(* longest match: for every key set and every input, outside the `item` and `for .. in` tweaks, the name token is the
   longest prefix of the collected parts whose flattened text is a scope key, and the lexer resumes just after the last
   character of that prefix; when no prefix is bound the token is the whole candidate *)
Theorem C10_longest : forall keys inp pos parts cps endpos,
  collect inp pos = (parts, cps, endpos) ->
  (match parts with p :: _ => str_eqb p str_item | [] => false end) = false ->
  (forall pc, 1 <= pc <= length parts -> bound keys parts pc ->
     (forall j, pc < j <= length parts -> ~ bound keys parts j) ->
     lex_name keys false inp pos = LName (name_new (firstn pc parts)) (S (nth (pc - 1) cps 0))) /\
  ((forall j, 1 <= j <= length parts -> ~ bound keys parts j) ->
     lex_name keys false inp pos = LName (name_new parts) endpos).
Proof. exact lex_name_longest. Qed.
Print Assumptions C10_longest.

(* back-tracking is exact: every collected part is literally the input text whose last character is at its recorded position
   (ends_at: nth j part = input (S e - length part + j)), so the position the lexer returns to, S (nth (pc - 1) cps 0), is the index
   right after the last character of the chosen part: no character of the name is lost, none is read twice *)
Theorem C10_backtrack_exact : forall inp pos parts cps endpos,
  collect inp pos = (parts, cps, endpos) -> Forall2 (ends_at inp) parts cps.
Proof. exact backtrack_exact. Qed.
Print Assumptions C10_backtrack_exact.

Theorem C10_operator_when_unbound : forall keys inp pos parts cps endpos,
  collect inp pos = (parts, cps, endpos) ->
  (match parts with p :: _ => str_eqb p str_item | [] => false end) = false ->
  1 <= length parts -> bound keys parts 1 -> (forall j, 1 < j <= length parts -> ~ bound keys parts j) ->
  lex_name keys false inp pos = LName (name_new (firstn 1 parts)) (S (nth 0 cps 0)).
Proof. exact operator_when_unbound. Qed.
Print Assumptions C10_operator_when_unbound.

(* the text under which the lexer looks a prefix up is the text under which names are stored (one normal form) *)
Theorem C10_normal_form : forall ps, flatten_parts ps = name_new ps.
Proof. exact normal_form. Qed.
Print Assumptions C10_normal_form.

(* the original flatten_name_parts agreed with Name::new when every additional symbol stands between two words (the property's
   quantifier: words joined by one symbol).  In part: proved for all part lists of at most 5 parts over two words and the six
   symbols (37449 lists).  Missing: all part lists (a proof over the six successive str::replace passes); the class is not an
   exact characterisation (`. . a` also agrees).  After the repair C10_normal_form holds for every part list. *)
Theorem C10_normal_form_orig_partial : forall ps, List.In ps (lists_upto 5) -> isolated ps = true ->
  flatten_parts_orig ps = name_new ps.
Proof. exact normal_form_orig_isolated. Qed.
Print Assumptions C10_normal_form_orig_partial.

(* the original flatten_name_parts did not agree with Name::new *)
Theorem C10_normal_form_orig_refuted :
  flatten_parts_orig parts_a_plus_minus_b <> name_new parts_a_plus_minus_b /\ flatten_parts_orig parts_a_plus <> name_new parts_a_plus.
Proof. exact normal_form_refuted_witness. Qed.
Print Assumptions C10_normal_form_orig_refuted.

Example C10_operator_when_unbound_nonvacuous :
  lex_all [key_a; key_b] inp_a_minus_b = Some [KName key_a; KSym 45; KName key_b] /\
  lex_all [key_a; key_b; key_a_minus_b] inp_a_minus_b = Some [KName key_a_minus_b].
Proof. exact operator_when_unbound_witness. Qed.
Print Assumptions C10_operator_when_unbound_nonvacuous.

(* the for / some / every tweak: with `in` as the first part the original code indexed consumed_positions[-1] (a panic);
   the repaired code (/repo 83bd59b) lexes the candidate as an ordinary name *)
Theorem C10_till_in_first_part_orig_refuted :
  lex_name_orig [] true inp_in_plus_x 0 = LCrash /\ lex_name [] true inp_in_plus_x 0 = LName inp_in_plus_x 4.
Proof. exact till_in_first_part_witness. Qed.
Print Assumptions C10_till_in_first_part_orig_refuted.

(* ------------------------------------------------------------------ round 4 (prover-C10): the layout of the parts in the input, all inputs *)

(* the parts do not overlap: the first part begins at the start position, every later part is non-empty and begins after the
   recorded end of its predecessor, so consumed_positions strictly increases *)
Theorem C10_parts_disjoint : forall inp pos parts cps endpos,
  pos < length inp -> collect inp pos = (parts, cps, endpos) ->
  S (nth 0 cps 0) = pos + length (nth 0 parts []) /\
  forall i, S i < length parts ->
    1 <= length (nth (S i) parts []) /\
    nth i cps 0 + length (nth (S i) parts []) <= nth (S i) cps 0 /\
    nth i cps 0 < nth (S i) cps 0.
Proof. exact parts_disjoint. Qed.
Print Assumptions C10_parts_disjoint.

(* the gaps are white space: every input position strictly between the recorded end of part i and the first character of part i+1
   (which by C10_backtrack_exact sits at S (nth (S i) cps 0) - length of that part) holds a white-space character *)
Theorem C10_gaps_whitespace : forall inp pos parts cps endpos,
  pos < length inp -> collect inp pos = (parts, cps, endpos) ->
  forall i, S i < length parts ->
  forall j, nth i cps 0 < j -> j + length (nth (S i) parts []) <= nth (S i) cps 0 ->
    j < length inp /\ is_ws (ch inp j) = true.
Proof. exact gaps_whitespace. Qed.
Print Assumptions C10_gaps_whitespace.

(* no character lost, none duplicated: for every prefix of k collected parts, consumed ++ rest = input, where consumed -- the input
   up to the recorded end of part k -- is the text before the name followed by exactly the k parts in order (weave: gap 1, part 1,
   gap 2, part 2, ...; gap 1 is empty, every gap is white space) and rest starts at the position the lexer goes back to *)
Theorem C10_backtrack_no_loss : forall inp pos parts cps endpos,
  pos < length inp -> collect inp pos = (parts, cps, endpos) ->
  forall k, 1 <= k <= length parts ->
  exists gaps, length gaps = k /\ hd [] gaps = [] /\ Forall all_ws gaps /\
    firstn (S (nth (k - 1) cps 0)) inp = firstn pos inp ++ weave gaps (firstn k parts) /\
    (firstn pos inp ++ weave gaps (firstn k parts)) ++ skipn (S (nth (k - 1) cps 0)) inp = inp.
Proof. exact backtrack_no_loss. Qed.
Print Assumptions C10_backtrack_no_loss.

(* read on the characters: the non-space characters of the consumed text are the non-space characters of the k chosen parts, in order *)
Theorem C10_nonspace_preserved : forall inp pos parts cps endpos,
  pos < length inp -> collect inp pos = (parts, cps, endpos) ->
  forall k, 1 <= k <= length parts ->
    filter non_ws (skipn pos (firstn (S (nth (k - 1) cps 0)) inp)) = filter non_ws (concat (firstn k parts)).
Proof. exact nonspace_preserved. Qed.
Print Assumptions C10_nonspace_preserved.

(* the design's statement: when a prefix is bound (outside the `item` and `for .. in` tweaks) the token is the longest bound prefix
   and the rest is the input right after it *)
Theorem C10_longest_and_rest : forall keys inp pos parts cps endpos,
  pos < length inp -> collect inp pos = (parts, cps, endpos) ->
  (match parts with p :: _ => str_eqb p str_item | [] => false end) = false ->
  forall k, 1 <= k <= length parts -> bound keys parts k -> (forall j, k < j <= length parts -> ~ bound keys parts j) ->
  exists gaps, length gaps = k /\ hd [] gaps = [] /\ Forall all_ws gaps /\
    lex_name keys false inp pos = LName (name_new (firstn k parts)) (S (nth (k - 1) cps 0)) /\
    (firstn pos inp ++ weave gaps (firstn k parts)) ++ skipn (S (nth (k - 1) cps 0)) inp = inp.
Proof. exact longest_and_rest. Qed.
Print Assumptions C10_longest_and_rest.

(* every token of the repaired lexer, every scope, with and without the for / some / every flag, `item` included: the token is the
   normal form of a prefix of k >= 1 collected parts, and the input from the start position to the position where the lexer resumes
   is those k parts in order, separated by white space only, followed by white space only (tail; non-empty only when no prefix is
   bound and the whole candidate is the token) *)
Theorem C10_lex_name_no_loss : forall keys till_in inp pos parts cps endpos n newpos,
  pos < length inp -> collect inp pos = (parts, cps, endpos) ->
  lex_name keys till_in inp pos = LName n newpos ->
  exists k gaps tail, 1 <= k <= length parts /\ n = name_new (firstn k parts) /\
    length gaps = k /\ hd [] gaps = [] /\ Forall all_ws gaps /\ all_ws tail /\
    (tail <> [] -> forall j, 1 <= j <= length parts -> ~ bound keys parts j) /\
    firstn newpos inp = firstn pos inp ++ weave gaps (firstn k parts) ++ tail /\
    (firstn pos inp ++ weave gaps (firstn k parts) ++ tail) ++ skipn newpos inp = inp.
Proof. exact lex_name_no_loss. Qed.
Print Assumptions C10_lex_name_no_loss.

(* the repaired lexer has no crash outcome, whatever the flag *)
Theorem C10_lex_name_total : forall keys till_in inp pos, pos < length inp -> lex_name keys till_in inp pos <> LCrash.
Proof. exact lex_name_total. Qed.
Print Assumptions C10_lex_name_total.

(* `ab  cd - ef + 1` (three words, one symbol, irregular blanks) with `ab` and `ab cd-ef` bound: six parts are collected, the prefixes
   of 1 and of 4 parts are bound, the token is `ab cd-ef`, the lexer resumes at index 11 and consumed ++ rest = input *)
Example C10_no_loss_nonvacuous :
  collect inp_three_words 0 = (parts_three_words, [1; 5; 7; 10; 12; 14], 15) /\
  length inp_three_words = 15 /\
  mem (flatten_parts (firstn 1 parts_three_words)) [key_ab; key_ab_cd_ef] = true /\
  mem (flatten_parts (firstn 4 parts_three_words)) [key_ab; key_ab_cd_ef] = true /\
  forallb (fun j => negb (mem (flatten_parts (firstn j parts_three_words)) [key_ab; key_ab_cd_ef])) [2; 3; 5; 6] = true /\
  lex_name [key_ab; key_ab_cd_ef] false inp_three_words 0 = LName key_ab_cd_ef 11 /\
  (firstn 0 inp_three_words ++ weave gaps_three_words (firstn 4 parts_three_words)) ++ skipn 11 inp_three_words = inp_three_words /\
  forallb (forallb is_ws) gaps_three_words = true /\
  lex_all [key_ab; key_ab_cd_ef] inp_three_words = Some [KName key_ab_cd_ef; KSym 43; KNum [49%N]] /\
  lex_all [key_ab; [99; 100]%N; [101; 102]%N] inp_three_words = Some [KName key_ab; KName [99; 100]%N; KSym 45; KName [101; 102]%N; KSym 43; KNum [49%N]].
Proof. exact three_words_witness. Qed.
Print Assumptions C10_no_loss_nonvacuous.

(* ------------------------------------------------------------------ round 4: "longest" without reference to how the collector cuts the input *)

(* the character classes of the lexer overlap in exactly three code points (U+1680, U+180E, U+FEFF are white space and name characters);
   the additional symbols are neither *)
Theorem C10_char_classes : forall c,
  (is_name_part c = true -> is_ws c = true -> c = 5760%N \/ c = 6158%N \/ c = 65279%N) /\
  (is_add_sym c = true -> is_ws c = false /\ is_name_part c = false).
Proof. exact char_classes. Qed.
Print Assumptions C10_char_classes.

(* every collected part is a word (a non-empty run of name characters that the next input character does not extend) or one additional
   symbol; where the collector stops the next character is neither a name character, nor an additional symbol, nor white space *)
Theorem C10_collect_shape : forall inp pos parts cps endpos,
  pos < length inp -> is_name_start (ch inp pos) = true -> collect inp pos = (parts, cps, endpos) ->
  Forall2 (part_ok inp) parts cps /\
  next_is is_name_part inp (endpos - 1) = false /\ next_is is_add_sym inp (endpos - 1) = false /\ next_is is_ws inp (endpos - 1) = false.
Proof. exact collect_shape. Qed.
Print Assumptions C10_collect_shape.

(* longest match, stated on the input text: let a name qs (words and additional symbols) be written at pos with any spacing gs
   (canon: white-space gaps, a non-empty gap between two words, a final word not followed by a name character) and be followed by R.
   Then qs is the prefix of the collected parts of that length, and if its normal form is a scope key the token is the longest bound
   prefix, has at least as many parts, and the lexer resumes at or after the end of the written name.  So no bound name written at pos
   is longer than the token, whatever way it is cut.  Hypothesis: the input contains none of the three code points of C10_char_classes *)
Theorem C10_longest_written : forall keys inp pos parts cps endpos,
  pos < length inp -> is_name_start (ch inp pos) = true -> unambiguous inp -> collect inp pos = (parts, cps, endpos) ->
  (match parts with p :: _ => str_eqb p str_item | [] => false end) = false ->
  forall gs qs R, qs <> [] -> skipn pos inp = weave gs qs ++ R -> canon R false gs qs ->
    firstn (length qs) parts = qs /\
    (mem (flatten_parts qs) keys = true ->
     exists k, length qs <= k <= length parts /\ bound keys parts k /\
       (forall j, k < j <= length parts -> ~ bound keys parts j) /\
       lex_name keys false inp pos = LName (name_new (firstn k parts)) (S (nth (k - 1) cps 0)) /\
       pos + length (weave gs qs) <= S (nth (k - 1) cps 0)).
Proof. exact longest_written. Qed.
Print Assumptions C10_longest_written.

(* `ab cd-ef` is written as `ab  cd - ef` at index 0 of the input of C10_no_loss_nonvacuous and followed by ` + 1`: the hypotheses of
   C10_longest_written hold for it *)
Example C10_longest_written_nonvacuous :
  skipn 0 inp_three_words = weave gaps_three_words (firstn 4 parts_three_words) ++ rest_three_words /\
  canon rest_three_words false gaps_three_words (firstn 4 parts_three_words) /\
  unambiguous inp_three_words /\ is_name_start (ch inp_three_words 0) = true /\
  mem (flatten_parts (firstn 4 parts_three_words)) [key_ab; key_ab_cd_ef] = true.
Proof. exact three_words_written. Qed.
Print Assumptions C10_longest_written_nonvacuous.

(* what the overlap means: directly after a name character such a code point continues the word, after a blank it is white space *)
Example C10_overlap_reading :
  collect [97; 5760; 98]%N 0 = ([[97; 5760; 98]%N], [2], 3) /\
  collect [97; 32; 5760; 98]%N 0 = ([[97%N]; [98%N]], [0; 3], 4).
Proof. exact overlap_reading_witness. Qed.
Print Assumptions C10_overlap_reading.

(* C10_longest for both values of the for / some / every flag, and the two tweaks exactly: a candidate whose first part is `item` gives
   `item`; with the flag set and the keyword `in` as a part after the first one the token is the parts before `in`; in every other case
   (flag clear, or no `in` part, or `in` as the first part) the token is the longest bound prefix, else the whole candidate *)
Theorem C10_lex_name_cases : forall keys till_in inp pos parts cps endpos,
  collect inp pos = (parts, cps, endpos) ->
  ((match parts with p :: _ => str_eqb p str_item | [] => false end) = true ->
     lex_name keys till_in inp pos = LName str_item (S (nth 0 cps 0))) /\
  ((match parts with p :: _ => str_eqb p str_item | [] => false end) = false ->
     forall i, till_in = true -> index_of str_in parts 0 = Some (S i) ->
     lex_name keys till_in inp pos = LName (name_new (firstn (S i) parts)) (S (nth i cps 0))) /\
  ((match parts with p :: _ => str_eqb p str_item | [] => false end) = false ->
     (till_in = false \/ index_of str_in parts 0 = None \/ index_of str_in parts 0 = Some 0) ->
     (forall pc, 1 <= pc <= length parts -> bound keys parts pc ->
        (forall j, pc < j <= length parts -> ~ bound keys parts j) ->
        lex_name keys till_in inp pos = LName (name_new (firstn pc parts)) (S (nth (pc - 1) cps 0))) /\
     ((forall j, 1 <= j <= length parts -> ~ bound keys parts j) ->
        lex_name keys till_in inp pos = LName (name_new parts) endpos)).
Proof. exact lex_name_cases. Qed.
Print Assumptions C10_lex_name_cases.
