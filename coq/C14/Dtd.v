(* C14 — days-and-time durations: parsing the printed text gives the total back, for every total of either sign
   whose days component fits u64 (the conversion's own limit).  The recogniser is cut into three stages
   (dtd_body / dtd_tail / dtd_fin), shown equal to parse_dtd_gen by computation; the 32 printer cases are
   handled component by component.  Uses C14/Proofs.v and C14/Frac.v. *)
From Coq Require Import ZArith Bool List String Ascii Lia.
From DV Require Import Base.Calendar C15.Model C15.Proofs C14.Model C14.Proofs C14.Frac.
Import ListNotations.
Open Scope string_scope.
Open Scope Z_scope.

(* ---------------- the recogniser in stages ---------------- *)
Definition dtd_fin (ro neg : bool) (cd ch cmi : option (option Z)) (sec : option (Z * Z)) : option Z :=
  let ok c := comp_present c && comp_fits c in
  let sec_ok := match sec with Some (v, _) => v <=? u64_max | None => false end in
  let sec_fits := match sec with Some (v, _) => v <=? u64_max | None => true end in
  if ro && negb (comp_fits cd && comp_fits ch && comp_fits cmi && sec_fits) then None else
  if ok cd || ok ch || ok cmi || sec_ok then
    let v c := if comp_fits c then comp_val c else 0 in
    let total := v cd * DAY_NS + v ch * HOUR_NS + v cmi * MIN_NS +
                 match sec with Some (sv, f) => (if sv <=? u64_max then sv * NS else 0) + f | None => 0 end in
    Some (if neg then - total else total)
  else None.

Definition dtd_tail (trailing_t_ok ro neg : bool) (cd : option (option Z)) (s4 : string) : option Z :=
  let (ch, s5) := p_comp "H" s4 in
  let (cmi, s6) := p_comp "M" s5 in
  let (ds, s7) := span_digits s6 in
  match ds, s7 with
  | [], "" => if String.eqb s4 "" && negb trailing_t_ok then None else dtd_fin ro neg cd ch cmi None
  | _ :: _, String "S"%char "" => dtd_fin ro neg cd ch cmi (Some (num ds, 0))
  | _ :: _, String "."%char s8 =>
    let (fs, s9) := span_digits s8 in
    match s9 with
    | String "S"%char "" => dtd_fin ro neg cd ch cmi (Some (num ds, frac_nanos fs 100000000))
    | _ => None
    end
  | _, _ => None
  end.

Definition dtd_body (trailing_t_ok ro neg : bool) (s2 : string) : option Z :=
  let (cd, s3) := p_comp "D" s2 in
  match s3 with
  | "" => dtd_fin ro neg cd None None None
  | String "T"%char s4 => dtd_tail trailing_t_ok ro neg cd s4
  | _ => None
  end.

Lemma parse_dtd_gen_pos : forall tt ro s2, parse_dtd_gen tt ro (String "P"%char s2) = dtd_body tt ro false s2.
Proof. reflexivity. Qed.

Lemma parse_dtd_gen_neg : forall tt ro s2, parse_dtd_gen tt ro (String "-"%char (String "P"%char s2)) = dtd_body tt ro true s2.
Proof. reflexivity. Qed.

(* ---------------- the printer in components ---------------- *)
Definition comp_of (x : Z) : option (option Z) := if 0 <? x then Some (Some x) else None.
Definition comp_text (u : ascii) (x : Z) : string := if 0 <? x then dec x ++ String u "" else "".
Definition sec_of (s f : Z) : option (Z * Z) := if (0 <? s) || (0 <? f) then Some (s, f) else None.
Definition sec_text (s f : Z) : string :=
  if (0 <? s) || (0 <? f) then dec s ++ (if 0 <? f then "." ++ nanos_str f else "") ++ "S" else "".

Definition no_comp (u : ascii) (s : string) : Prop := p_comp u s = (None, s).

Lemma no_comp_nodigit : forall u s, nodigit_head s -> no_comp u s.
Proof.
  intros u s H. apply p_comp_absent. intros c r E. subst s. exact H.
Qed.

Lemma no_comp_dec : forall u n c r, 0 <= n -> digit_val c = None -> c <> u -> no_comp u (dec n ++ String c r).
Proof.
  intros u n c r Hn Hc Ne. unfold no_comp, p_comp. rewrite span_digits_dec by (try exact Hn; exact Hc).
  destruct (digits_nonempty n Hn) as [d [t Ed]]. rewrite Ed.
  destruct (Ascii.eqb_spec c u) as [E|_]; [contradiction|reflexivity].
Qed.

Lemma p_comp_text : forall u x rest, 0 <= x -> digit_val u = None -> no_comp u rest ->
  p_comp u (comp_text u x ++ rest) = (comp_of x, rest).
Proof.
  intros u x rest Hx Hu N. unfold comp_text, comp_of. destruct (0 <? x).
  - rewrite append_assoc. cbn [append]. apply p_comp_dec; assumption.
  - cbn [append]. exact N.
Qed.

Lemma dec_head : forall n r, 0 <= n -> exists c t, dec n ++ r = String c t.
Proof.
  intros n r Hn. destruct (digits_spec n Hn) as [F _]. destruct (digits_nonempty n Hn) as [d [t Ed]].
  destruct (str_of_digits_head (digits n) r F) as [c [t' [E _]]]; [rewrite Ed; discriminate|].
  exists c, t'. exact E.
Qed.

Lemma sec_text_shape : forall s f, 0 <= s -> 0 <= f ->
  sec_text s f = "" \/
  exists c r, sec_text s f = dec s ++ String c r /\ digit_val c = None /\ c <> "H"%char /\ c <> "M"%char.
Proof.
  intros s f Hs Hf. unfold sec_text. destruct ((0 <? s) || (0 <? f)); [right|left; reflexivity].
  destruct (0 <? f); cbn [append].
  - exists "."%char, (nanos_str f ++ "S"). repeat split; (reflexivity || discriminate).
  - exists "S"%char, "". repeat split; (reflexivity || discriminate).
Qed.

Lemma no_comp_sec : forall u s f, 0 <= s -> 0 <= f -> u = "H"%char \/ u = "M"%char -> no_comp u (sec_text s f).
Proof.
  intros u s f Hs Hf Hu. destruct (sec_text_shape s f Hs Hf) as [E|[c [r [E [Dc [NH NM]]]]]]; rewrite E.
  - apply no_comp_nodigit. exact I.
  - apply no_comp_dec; [exact Hs|exact Dc|]. destruct Hu as [->| ->]; assumption.
Qed.

Lemma no_comp_H_min_sec : forall mi s f, 0 <= mi -> 0 <= s -> 0 <= f -> no_comp "H" (comp_text "M" mi ++ sec_text s f).
Proof.
  intros mi s f Hm Hs Hf. unfold comp_text. destruct (0 <? mi).
  - rewrite append_assoc. cbn [append]. apply no_comp_dec; [exact Hm|reflexivity|discriminate].
  - cbn [append]. apply no_comp_sec; auto.
Qed.

(* the seconds group, three shapes *)
Lemma dtd_tail_print : forall ro neg cd h mi s f, 0 <= h -> 0 <= mi -> 0 <= s -> 0 <= f < 1000000000 ->
  (0 < h \/ 0 < mi \/ 0 < s \/ 0 < f) ->
  dtd_tail false ro neg cd (comp_text "H" h ++ comp_text "M" mi ++ sec_text s f) =
  dtd_fin ro neg cd (comp_of h) (comp_of mi) (sec_of s f).
Proof.
  intros ro neg cd h mi s f Hh Hm Hs Hf Pos. unfold dtd_tail.
  rewrite (p_comp_text "H" h _ Hh eq_refl (no_comp_H_min_sec mi s f Hm Hs ltac:(lia))).
  rewrite (p_comp_text "M" mi _ Hm eq_refl (no_comp_sec "M" s f Hs ltac:(lia) (or_intror eq_refl))).
  unfold sec_text, sec_of.
  destruct (Z.ltb_spec 0 s) as [Ps|Zs]; destruct (Z.ltb_spec 0 f) as [Pf|Zf]; cbn [orb].
  - (* seconds and a fraction *)
    cbn [append]. rewrite span_digits_dec by (try exact Hs; reflexivity).
    destruct (digits_nonempty s Hs) as [d0 [t0 Ed]]. rewrite Ed. cbv beta iota.
    destruct (frac_digits_spec f ltac:(lia)) as [F [E _]].
    rewrite nanos_str_digits by lia. rewrite (span_digits_str (frac_digits f) "S" F eq_refl).
    cbv beta iota. rewrite E, <- Ed. destruct (digits_spec s Hs) as [_ [N _]]. rewrite N. reflexivity.
  - (* whole seconds *)
    assert (f = 0) by lia. subst f.
    cbn [append]. rewrite span_digits_dec by (try exact Hs; reflexivity).
    destruct (digits_nonempty s Hs) as [d0 [t0 Ed]]. rewrite Ed. cbv beta iota.
    rewrite <- Ed. destruct (digits_spec s Hs) as [_ [N _]]. rewrite N. reflexivity.
  - (* 0 seconds and a fraction: the 0 is written *)
    cbn [append]. rewrite span_digits_dec by (try exact Hs; reflexivity).
    destruct (digits_nonempty s Hs) as [d0 [t0 Ed]]. rewrite Ed. cbv beta iota.
    destruct (frac_digits_spec f ltac:(lia)) as [F [E _]].
    rewrite nanos_str_digits by lia. rewrite (span_digits_str (frac_digits f) "S" F eq_refl).
    cbv beta iota. rewrite E, <- Ed. destruct (digits_spec s Hs) as [_ [N _]]. rewrite N. reflexivity.
  - (* no seconds group: hours or minutes are written, the text after T is not empty *)
    cbn [span_digits]. cbv beta iota.
    assert (NE : String.eqb (comp_text "H" h ++ comp_text "M" mi ++ "") "" = false).
    { unfold comp_text. destruct (Z.ltb_spec 0 h) as [Ph|Zh].
      - rewrite append_assoc. destruct (dec_head h (String "H" "" ++ (if 0 <? mi then dec mi ++ String "M" "" else "") ++ "") Hh) as [c [t E]].
        rewrite E. reflexivity.
      - destruct (Z.ltb_spec 0 mi) as [Pm|Zm]; [|lia]. cbn [append]. rewrite append_assoc.
        destruct (dec_head mi (String "M" "" ++ "") Hm) as [c [t E]]. rewrite E. reflexivity. }
    rewrite NE. reflexivity.
Qed.

(* the components recombine to the total *)
Lemma dtd_fin_total : forall ro neg d h mi s f,
  0 <= d <= u64_max -> 0 <= h < 24 -> 0 <= mi < 60 -> 0 <= s < 60 -> 0 <= f < NS ->
  0 < d * DAY_NS + h * HOUR_NS + mi * MIN_NS + s * NS + f ->
  dtd_fin ro neg (comp_of d) (comp_of h) (comp_of mi) (sec_of s f) =
  Some (if neg then - (d * DAY_NS + h * HOUR_NS + mi * MIN_NS + s * NS + f) else d * DAY_NS + h * HOUR_NS + mi * MIN_NS + s * NS + f).
Proof.
  intros ro neg d h mi s f Hd Hh Hm Hs Hf Pos.
  assert (Hd64 : (d <=? u64_max) = true) by (apply Z.leb_le; lia).
  assert (Hh64 : (h <=? u64_max) = true) by (apply Z.leb_le; unfold u64_max; lia).
  assert (Hm64 : (mi <=? u64_max) = true) by (apply Z.leb_le; unfold u64_max; lia).
  assert (Hs64 : (s <=? u64_max) = true) by (apply Z.leb_le; unfold u64_max; lia).
  unfold dtd_fin, comp_of, sec_of. cbv beta zeta.
  unfold DAY_NS, HOUR_NS, MIN_NS, NS in *.
  destruct (Z.ltb_spec 0 d); destruct (Z.ltb_spec 0 h); destruct (Z.ltb_spec 0 mi);
    destruct (Z.ltb_spec 0 s); destruct (Z.ltb_spec 0 f);
    cbn [comp_present comp_fits comp_val andb orb]; rewrite ?Hd64, ?Hh64, ?Hm64, ?Hs64; cbn [andb orb negb]; rewrite ?andb_false_r;
    try (f_equal; destruct neg; lia); exfalso; lia.
Qed.

Lemma parse_print_components : forall (neg : bool) d h mi s f,
  0 <= d <= u64_max -> 0 <= h < 24 -> 0 <= mi < 60 -> 0 <= s < 60 -> 0 <= f < NS ->
  0 < d * DAY_NS + h * HOUR_NS + mi * MIN_NS + s * NS + f ->
  parse_dtd ((if neg then "-" else "") ++ "P" ++ comp_text "D" d ++
             (if (0 <? h) || (0 <? mi) || (0 <? s) || (0 <? f) then "T" ++ comp_text "H" h ++ comp_text "M" mi ++ sec_text s f else "")) =
  Some (if neg then - (d * DAY_NS + h * HOUR_NS + mi * MIN_NS + s * NS + f) else d * DAY_NS + h * HOUR_NS + mi * MIN_NS + s * NS + f).
Proof.
  intros neg d h mi s f Hd Hh Hm Hs Hf Pos.
  assert (Hf' : 0 <= f < 1000000000) by exact Hf.
  set (rest := if (0 <? h) || (0 <? mi) || (0 <? s) || (0 <? f) then "T" ++ comp_text "H" h ++ comp_text "M" mi ++ sec_text s f else "").
  assert (B : parse_dtd ((if neg then "-" else "") ++ "P" ++ comp_text "D" d ++ rest) = dtd_body false true neg (comp_text "D" d ++ rest)).
  { unfold parse_dtd. destruct neg; cbn [append]; [apply parse_dtd_gen_neg|apply parse_dtd_gen_pos]. }
  rewrite B. unfold dtd_body.
  assert (ND : no_comp "D" rest).
  { apply no_comp_nodigit. unfold rest. destruct ((0 <? h) || (0 <? mi) || (0 <? s) || (0 <? f)); [reflexivity|exact I]. }
  rewrite (p_comp_text "D" d rest ltac:(lia) eq_refl ND). unfold rest.
  destruct ((0 <? h) || (0 <? mi) || (0 <? s) || (0 <? f)) eqn:C.
  - cbn [append]. cbv beta iota.
    assert (P1 : 0 < h \/ 0 < mi \/ 0 < s \/ 0 < f) by (rewrite !orb_true_iff, !Z.ltb_lt in C; tauto).
    rewrite (dtd_tail_print true neg (comp_of d) h mi s f ltac:(lia) ltac:(lia) ltac:(lia) Hf' P1).
    apply dtd_fin_total; assumption.
  - rewrite !orb_false_iff, !Z.ltb_ge in C.
    assert (h = 0) by lia. assert (mi = 0) by lia. assert (s = 0) by lia. assert (f = 0) by lia. subst h mi s f.
    cbv beta iota. exact (dtd_fin_total true neg d 0 0 0 0 Hd Hh Hm Hs Hf Pos).
Qed.

Theorem print_parse_dtd : forall n, dtd_days n <= u64_max -> parse_dtd (print_dtd n) = Some n.
Proof.
  intros n B. destruct (dtd_components n) as [Sum [Hd [Hh [Hm [Hs Hf]]]]].
  destruct (Z.eq_dec n 0) as [->|N]; [reflexivity|].
  unfold print_dtd. replace (Z.abs n =? 0) with false by (symmetry; apply Z.eqb_neq; lia).
  transitivity (Some (if n <? 0
                      then - (dtd_days n * DAY_NS + dtd_hours n * HOUR_NS + dtd_minutes n * MIN_NS + dtd_seconds n * NS + dtd_subsec n)
                      else dtd_days n * DAY_NS + dtd_hours n * HOUR_NS + dtd_minutes n * MIN_NS + dtd_seconds n * NS + dtd_subsec n)).
  - exact (parse_print_components (n <? 0) (dtd_days n) (dtd_hours n) (dtd_minutes n) (dtd_seconds n) (dtd_subsec n)
             (conj Hd B) Hh Hm Hs Hf ltac:(lia)).
  - rewrite Sum. f_equal. destruct (Z.ltb_spec n 0); lia.
Qed.

(* the bound on the days component is needed: one day more and the text does not convert *)
Theorem print_parse_dtd_bound_tight :
  parse_dtd (print_dtd (u64_max * DAY_NS + DAY_NS - 1)) = Some (u64_max * DAY_NS + DAY_NS - 1) /\
  parse_dtd (print_dtd ((u64_max + 1) * DAY_NS)) = None.
Proof. vm_compute. split; reflexivity. Qed.

(* duration(text) tries years-and-months first: a printed days-and-time duration is never taken for one *)
Lemma parse_ymd_none : forall (neg : bool) body, no_comp "Y" body -> no_comp "M" body -> body <> "" ->
  parse_ymd ((if neg then "-" else "") ++ "P" ++ body) = None.
Proof.
  intros neg body NY NM NE. unfold parse_ymd. rewrite parse_ymd_gen_body.
  unfold no_comp in NY, NM. rewrite NY, NM.
  destruct body as [|c t]; [congruence|reflexivity].
Qed.

Definition time_rest (h mi s f : Z) : string :=
  if (0 <? h) || (0 <? mi) || (0 <? s) || (0 <? f) then "T" ++ comp_text "H" h ++ comp_text "M" mi ++ sec_text s f else "".

Lemma print_dtd_text : forall n, n <> 0 ->
  print_dtd n = (if n <? 0 then "-" else "") ++ "P" ++
                (comp_text "D" (dtd_days n) ++ time_rest (dtd_hours n) (dtd_minutes n) (dtd_seconds n) (dtd_subsec n)).
Proof.
  intros n N. unfold print_dtd. replace (Z.abs n =? 0) with false by (symmetry; apply Z.eqb_neq; lia). reflexivity.
Qed.

Theorem print_parse_duration_dtd : forall n, dtd_days n <= u64_max -> parse_duration (print_dtd n) = Some (DDt n).
Proof.
  intros n B. unfold parse_duration, parse_duration_gen. rewrite (print_parse_dtd n B).
  destruct (Z.eq_dec n 0) as [->|N]; [reflexivity|].
  destruct (dtd_components n) as [Sum [Hd [Hh [Hm [Hs Hf]]]]].
  rewrite (print_dtd_text n N).
  set (d := dtd_days n) in *. set (h := dtd_hours n) in *. set (mi := dtd_minutes n) in *.
  set (s := dtd_seconds n) in *. set (f := dtd_subsec n) in *.
  assert (NR : nodigit_head (time_rest h mi s f)).
  { unfold time_rest. destruct ((0 <? h) || (0 <? mi) || (0 <? s) || (0 <? f)); [reflexivity|exact I]. }
  assert (NC : forall u, u <> "D"%char -> no_comp u (comp_text "D" d ++ time_rest h mi s f)).
  { intros u Hu. unfold comp_text. destruct (0 <? d).
    - rewrite append_assoc. cbn [append]. apply no_comp_dec; [exact Hd|reflexivity|congruence].
    - cbn [append]. apply no_comp_nodigit. exact NR. }
  rewrite parse_ymd_none; [reflexivity|apply NC; discriminate|apply NC; discriminate|].
  unfold comp_text. destruct (Z.ltb_spec 0 d) as [Pd|Zd].
  - rewrite append_assoc. destruct (dec_head d (String "D" "" ++ time_rest h mi s f) Hd) as [c [t E]]. rewrite E. discriminate.
  - cbn [append]. unfold time_rest. destruct ((0 <? h) || (0 <? mi) || (0 <? s) || (0 <? f)) eqn:C; [discriminate|].
    exfalso. rewrite !orb_false_iff, !Z.ltb_ge in C. unfold DAY_NS, HOUR_NS, MIN_NS, NS in *. lia.
Qed.

Theorem print_parse_duration_ymd : forall n, Z.abs n <= i64_max -> parse_duration (print_ymd n) = Some (DYm n).
Proof. intros n B. unfold parse_duration, parse_duration_gen. rewrite (print_parse_ymd n B). reflexivity. Qed.
