(* C19 — a decision table with rules as COLUMNS drawn as box text with merged cells: the transposed drawing of
   coq/C19/CanvasHeadersDraw.v.  (owner: ext-merged)
   Grid columns: the header columns ([output label column - several outputs] / expressions and component names / [allowed values
   column]), then one column per rule.  Grid lines: one per input, output and annotation, and a last line with the hit-policy cell
   (under all header columns) and the rule numbers.  Double vertical line after the header columns, double horizontal lines above
   the outputs and above the annotations.  The same record `htable` gives the texts (ht_ws = the widths of the header and rule
   columns, ht_hs = the heights of the input / output / annotation lines and of the marker line).  No proofs in this file. *)
From Coq Require Import List NArith Bool Arith.
From DV Require Import C19.Model C19.Canvas C19.CanvasDraw C19.CanvasMerged C19.CanvasHeadersDraw.
Import ListNotations.

Section ColumnDrawing.
Variable s : htable.

Definition c_nl : nat := h_ni s + h_no s + h_na s.       (* the marker line *)
Definition rule_at (r : nat) : block * list block * list block * list block := nth r (ht_rules s) ([], [], [], []).

(* the merged cell of grid cell (line i, column c): the transposed header cells *)
Definition creg_col (i c : nat) : creg :=
  if c_nl <=? i then (if c <? h_hdr s then (c_nl, 0, S c_nl, h_hdr s) else (i, c, S i, S c))
  else if h_hdr s <=? c then (i, c, S i, S c)
  else if i <? h_ni s then (if c <? h_top s then (i, 0, S i, h_top s) else (i, h_top s, S i, h_hdr s))
  else if i <? h_ni s + h_no s then
    (if h_multi s then (if h_lrow s && (c =? 0) then (h_ni s, 0, h_ni s + h_no s, 1) else (i, c, S i, S c))
     else (if c <? h_top s then (i, 0, S i, h_top s) else (i, h_top s, S i, h_hdr s)))
  else (i, 0, S i, h_hdr s).

(* line i holds what column 1 + i of the rules-as-rows drawing holds *)
Definition ctxt (i c : nat) : block :=
  if c_nl <=? i then (if c <? h_hdr s then ht_hp s else nth 0 (rule_blocks (rule_at (c - h_hdr s))) [])
  else if c <? h_hdr s then nth (S i) (hrow_blocks s c) []
  else nth (S i) (rule_blocks (rule_at (c - h_hdr s))) [].

Definition column_drawing : mdraw :=
  {| md_ws := ht_ws s; md_hs := ht_hs s; md_reg := creg_col; md_txt := ctxt;
     md_v1 := h_hdr s; md_v2 := None;
     md_h1 := h_ni s; md_h2 := match ht_anns s with [] => None | _ => Some (h_ni s + h_no s) end |}.

Definition wf_ctable : bool :=
  wf_mdraw column_drawing && (1 <=? h_ni s) && (1 <=? h_no s) && (1 <=? h_nr s) && hrule_lengths_ok s &&
  (length (ht_ws s) =? h_hdr s + h_nr s) && (length (ht_hs s) =? c_nl + 1).
End ColumnDrawing.
