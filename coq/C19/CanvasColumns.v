(* C19 — text -> table for every table drawn with rules as COLUMNS (coq/C19/CanvasColumnsDraw.v): composition of the characters ->
   plane theorem for merged drawings (coq/C19/CanvasMergedPlane.v) with the plane-level round trip for rules as columns
   (coq/C19/Columns.v) through the "same partition" invariance (coq/C19/CanvasPartition.v).  The hypotheses of the plane-level
   theorem stay: the first input expression is not read as a hit-policy marker, the top-left text of the output block is not read as
   a number (known finding columns-first-text-is-marker).  (owner: ext-merged) *)
From Coq Require Import List NArith Bool Arith Lia.
From DV Require Import C19.Model C19.Canvas C19.CanvasDraw C19.Proofs C19.Columns C19.CanvasTable C19.CanvasPartition.
From DV Require Import C19.CanvasMerged C19.CanvasMergedGeom C19.CanvasMergedPlane C19.CanvasHeadersDraw C19.CanvasHeaders C19.CanvasColumnsDraw.
From DV Require C19.CanvasProofs.
Import ListNotations.

Tactic Notation "tr_ltb" constr(a) constr(b) := replace (a <? b) with true by (symmetry; apply Nat.ltb_lt; lia).
Tactic Notation "fa_ltb" constr(a) constr(b) := replace (a <? b) with false by (symmetry; apply Nat.ltb_ge; lia).
Tactic Notation "tr_eqb" constr(a) constr(b) := replace (a =? b) with true by (symmetry; apply Nat.eqb_eq; lia).
Tactic Notation "fa_eqb" constr(a) constr(b) := replace (a =? b) with false by (symmetry; apply Nat.eqb_neq; lia).
Tactic Notation "tr_leb" constr(a) constr(b) := replace (a <=? b) with true by (symmetry; apply Nat.leb_le; lia).
Tactic Notation "fa_leb" constr(a) constr(b) := replace (a <=? b) with false by (symmetry; apply Nat.leb_gt; lia).

(* ================================================================== the lines of a transposed plane *)
Lemma heads_nth (p : plane) dflt : (forall r, In r p -> r <> []) -> heads p = map (fun r => nth 0 r dflt) p.
Proof.
  induction p as [|r p IH]; intro Hne; [reflexivity|]. destruct r as [|c r]; [exfalso; now apply (Hne [] (or_introl eq_refl))|].
  cbn [heads map nth]. f_equal. apply IH. intros r' Hr'. apply Hne. now right.
Qed.
Lemma nth_tl {A} (r : list A) c dflt : nth c (tl r) dflt = nth (S c) r dflt.
Proof. destruct r as [|x r]; [now destruct c|reflexivity]. Qed.

Lemma transpose_rows w : forall (p : plane) dflt, (forall r, In r p -> length r = w) ->
  transpose w p = map (fun c => map (fun r => nth c r dflt) p) (seq 0 w).
Proof.
  induction w as [|w IH]; intros p dflt Hl; [reflexivity|]. cbn [transpose seq map]. f_equal.
  - apply heads_nth. intros r Hr E'. specialize (Hl r Hr). subst r. discriminate.
  - rewrite (IH (tails p) dflt).
    + rewrite <- seq_shift, map_map. apply map_ext. intro c. unfold tails. rewrite map_map. apply map_ext. intro r. apply nth_tl.
    + intros r Hr. unfold tails in Hr. apply in_map_iff in Hr. destruct Hr as (r' & <- & Hr'). specialize (Hl r' Hr').
      destruct r'; cbn [tl length] in *; lia.
Qed.

Lemma erase_pivot_cell c : erase (pivot_cell c) = pivot_cell (erase c).
Proof. now destruct c. Qed.
Lemma E_pivot p : E (pivot p) = pivot (E p).
Proof.
  unfold pivot. rewrite width_erase. unfold E at 2. rewrite transpose_map. unfold E. rewrite !map_map. apply map_ext. intro r.
  rewrite !map_map. apply map_ext. intro c. apply erase_pivot_cell.
Qed.
Lemma E_removelast p : E (removelast p) = removelast (E p).
Proof. induction p as [|r p IH]; [reflexivity|]. destruct p as [|r' p]; [reflexivity|]. cbn [removelast E map] in *. now rewrite IH. Qed.
Lemma same_id_pivot a b : same_id (pivot_cell a) (pivot_cell b) = same_id a b.
Proof. destruct a, b; reflexivity. Qed.

(* rules as columns: the header lines the recogniser compares are those of the pivoted plane *)
Theorem recognize_plane_partition_columns parse_hp parse_num p q hp n px h :
  E p = E q -> (forall k, S k < h -> below_pattern (pivot (removelast p)) k = below_pattern (pivot (removelast q)) k) ->
  orientation parse_hp parse_num p = Some (AsColumn, hp, n) -> find_plane is_main (pivot (removelast p)) = Some (px, h) ->
  recognize_plane parse_hp parse_num q = recognize_plane parse_hp parse_num p.
Proof.
  intros He Hp Ho Hm. unfold recognize_plane.
  rewrite <- (orientation_erase parse_hp parse_num q), <- He, orientation_erase, Ho.
  rewrite (recognize_horizontal_partition (pivot (removelast p)) (pivot (removelast q))) with (px := px) (py := h); [reflexivity| | |assumption].
  - now rewrite !E_pivot, !E_removelast, He.
  - assumption.
Qed.

(* ================================================================== the plane-level round trip, rule numbers read back IN RANGE only *)
Section ColumnsInRange.
Variable parse_hp : N -> option N.
Variable parse_num : N -> option nat.
Variables (hp_text hp : N) (num_text : nat -> N).
Hypothesis Hhp : parse_hp hp_text = Some hp.
Variable t : table.
Hypothesis Hwf : wf t = true.
Hypothesis Hrules : t_rules t <> [].
Hypothesis Hnum : forall k, 1 <= k <= length (t_rules t) -> parse_num (num_text k) = Some k.
Hypothesis Hin : first_input_not_marker parse_hp t = true.
Hypothesis Hout : first_output_not_number parse_num t = true.
Local Notation P := (layout_columns hp_text num_text t).

Lemma rn_columns_in_range : rn_placement parse_num P = Some (RightAfter (length (t_rules t))).
Proof.
  unfold rn_placement. destruct (heads_P_columns hp_text num_text t Hwf) as [i [l [rest ->]]].
  rewrite after_block.
  2:{ intros c Hc. apply in_map_iff in Hc. destruct Hc as [c' [<- Hc']]. unfold h_ins in Hc'. apply in_map_iff in Hc'. destruct Hc' as [ie [<- _]].
      destruct (Nat.ltb 0 (top_rows t)); reflexivity. }
  2:{ reflexivity. }
  cbn [app numbers]. pose proof Hout as Ho. unfold first_output_not_number in Ho.
  destruct (parse_num (first_out_text t)); [discriminate|].
  rewrite last_P, after_repeat by reflexivity. unfold numbers_cells.
  rewrite (numbers_in_range parse_num num_text t Hnum _ 0) by lia. cbn [Nat.add].
  destruct (t_rules t) as [|r rs]; [congruence|]. reflexivity.
Qed.

Theorem orientation_columns_in_range : orientation parse_hp parse_num P = Some (AsColumn, hp, length (t_rules t)).
Proof.
  unfold orientation. rewrite (hp_columns parse_hp hp_text hp num_text Hhp t Hin), rn_columns_in_range, no_hcross_columns.
  destruct (present is_vcross P); reflexivity.
Qed.

Theorem roundtrip_columns_in_range : recognize_plane parse_hp parse_num P = Some (AsColumn, hp, length (t_rules t), fields_of t).
Proof. unfold recognize_plane. rewrite orientation_columns_in_range, (columns_normalise hp_text num_text t Hwf), (roundtrip_h t Hwf). reflexivity. Qed.
End ColumnsInRange.

(* ================================================================== the laid-out plane of the table (hypotheses: one output at least) *)
Section TableSide.
Variable code : list N -> N.
Variable s : htable.
Hypothesis Hi1 : 1 <= h_ni s.
Hypothesis Ho1 : 1 <= h_no s.
Hypothesis Hr1 : 1 <= h_nr s.
Hypothesis Hl : forall n i o a, In (n, i, o, a) (ht_rules s) -> length i = h_ni s /\ length o = h_no s /\ length a = h_na s.
Local Notation t := (abs_htable s code).
Local Notation hdr := (h_hdr s).
Local Notation top := (h_top s).
Local Notation A := (map btext (ht_anns s)).

Lemma t_wf_t : wf t = true.
Proof.
  unfold wf, abs_htable. cbn [t_inputs t_outputs t_annotations t_rules]. rewrite !map_length.
  rewrite !andb_true_iff. repeat split; try (apply Nat.ltb_lt; assumption).
  apply forallb_forall. intros r Hr. apply in_map_iff in Hr. destruct Hr as ((((n & i) & o) & a) & <- & Hin).
  cbn [r_in r_out r_ann]. rewrite !map_length. destruct (Hl n i o a Hin) as (L1 & L2 & L3). fold (h_ni s) (h_no s) (h_na s). now rewrite L1, L2, L3, !Nat.eqb_refl.
Qed.
Lemma t_rules_ne_t : t_rules t <> [].
Proof. cbn [abs_htable t_rules]. unfold h_nr in Hr1. destruct (ht_rules s); [cbn in Hr1; lia|discriminate]. Qed.

Lemma single_output_t : h_multi s = false -> exists nv, ht_outs s = [nv].
Proof.
  intro Em. unfold h_multi in Em. apply Nat.ltb_ge in Em. unfold h_no in *.
  destruct (ht_outs s) as [|nv [|nv' r]]; cbn [length] in *; try lia. now exists nv.
Qed.

(* header line k of the laid-out plane, names erased *)
Lemma header_erased_t k : map erase (header_row t k) = crow code A (tl (a_k s k)) (b_k s k) A.
Proof.
  destruct (hdr_facts s) as (F1 & F2 & F3 & F4 & F5 & F6 & F7).
  assert (map erase (h_ins t k) = map (R code) (map (fun ev => btext (sel s k ev)) (ht_ins s))) as E1.
  { unfold h_ins. rewrite t_top_rows. unfold sel. destruct (k <? top).
    - rewrite map_map. cbn [erase]. rewrite (map_indexed (fun x : N * N => Region (0%N, 0%N) (fst x))). cbn [abs_htable t_inputs]. now rewrite !map_map.
    - rewrite map_map. cbn [erase]. rewrite (map_indexed (fun x : N * N => Region (0%N, 0%N) (snd x))). cbn [abs_htable t_inputs]. now rewrite !map_map. }
  assert (map erase (h_outs t k) = map (R code) (b_k s k)) as E2.
  { unfold h_outs, b_k. rewrite t_multi, t_label_row, t_top_rows. destruct (h_multi s) eqn:Em.
    - destruct (h_lrow s && (k =? 0)) eqn:El.
      + apply andb_true_iff in El. destruct El as [El _]. unfold h_lrow in El. rewrite Em in El. cbn [andb] in El.
        unfold lbl_text, label_block. cbn [abs_htable t_label t_outputs]. rewrite Em. destruct (ht_label s) as [l|]; [|discriminate].
        cbn [option_map]. now rewrite !map_map.
      + unfold sel. destruct (k <? top).
        * rewrite map_map. cbn [erase]. rewrite (map_indexed (fun x : N * N => Region (0%N, 0%N) (fst x))). cbn [abs_htable t_outputs]. now rewrite !map_map.
        * rewrite map_map. cbn [erase]. rewrite (map_indexed (fun x : N * N => Region (0%N, 0%N) (snd x))). cbn [abs_htable t_outputs]. now rewrite !map_map.
    - assert (h_lrow s = false) as -> by (unfold h_lrow; now rewrite Em). cbn [andb].
      destruct (single_output_t Em) as (nv & Env). unfold lbl_text, indexed, sel. cbn [abs_htable t_outputs t_label]. rewrite Em, Env.
      cbn [map length seq combine fst snd]. now destruct (k <? top). }
  assert (map erase (h_anns t) = map (R code) A) as E3.
  { unfold h_anns. rewrite map_map. cbn [erase]. rewrite (map_indexed (fun x : N => Region (0%N, 0%N) x)). cbn [abs_htable t_annotations]. now rewrite !map_map. }
  unfold crow, header_row, a_k. cbn [tl]. rewrite map_app. cbn [map erase]. rewrite map_app.
  rewrite E1, E2, (sep_ann_erased_h code s VAnn _ _ eq_refl E3). reflexivity.
Qed.

Lemma cross_erased_t : map erase (cross_row t) = ccross A (h_ni s) (h_no s) (h_na s).
Proof. pose proof (cross_erased_h code s) as Q. unfold ccross in *. cbn [repeat app] in Q. now injection Q. Qed.

Lemma rule_erased_t k n i o a : nth_error (ht_rules s) k = Some (n, i, o, a) ->
  map erase (rule_row t (N.of_nat k, {| r_in := map (bc code) i; r_out := map (bc code) o; r_ann := map (bc code) a |}))
  = crow code A (map btext i) (map btext o) (map btext a).
Proof. intro Hk. pose proof (rule_erased_h code s k n i o a Hk) as Q. unfold crow in *. cbn [map app] in Q. now injection Q. Qed.

(* the partition of the header lines of the laid-out plane *)
Lemma pattern_layout_h k : S k < hdr -> below_pattern (layout_h t) k = tl (pat s k).
Proof.
  intro Hk. destruct (hdr_facts s) as (F1 & F2 & F3 & F4 & F5 & F6 & F7).
  unfold below_pattern. rewrite !row_at_header by (rewrite t_hdr; lia). unfold header_row, pat. cbn [tl].
  rewrite zipw_app by now rewrite !(h_ins_length t).
  assert (zipw same_id (h_ins t k) (h_ins t (S k)) = repeat (S k <? top) (h_ni s)) as ->.
  { unfold h_ins. rewrite zipw_map, t_top_rows.
    rewrite (map_ext _ (fun _ => S k <? top)).
    - rewrite map_const_list, indexed_length. cbn [abs_htable t_inputs]. now rewrite map_length.
    - intros ie. destruct (Nat.ltb_spec k top), (Nat.ltb_spec (S k) top); try lia; cbn [same_id]; [apply rid_eqb_refl|reflexivity]. }
  f_equal. cbn [zipw same_id]. f_equal. rewrite zipw_app by now rewrite !(h_outs_length t).
  assert (zipw same_id (h_outs t k) (h_outs t (S k)) = repeat false (h_no s)) as ->.
  { assert (length (h_outs t k) = h_no s) as L by (rewrite (h_outs_length t); cbn [abs_htable t_outputs]; now rewrite map_length).
    rewrite <- L. apply zipw_const; [|now rewrite !(h_outs_length t)].
    intros x y Hx Hy. unfold h_outs in Hx, Hy. rewrite t_multi, t_label_row, t_top_rows in Hx, Hy.
    replace (S k =? 0) with false in Hy by reflexivity. rewrite andb_false_r in Hy. revert Hx Hy.
    destruct (h_multi s) eqn:Em.
    - destruct (h_lrow s) eqn:El; cbn [andb].
      + destruct (Nat.eqb_spec k 0) as [->|Hk0].
        * intros Hx Hy. apply in_map_iff in Hx. destruct Hx as (x0 & <- & _). destruct (1 <? top); apply in_map_iff in Hy; destruct Hy as (y0 & <- & _); reflexivity.
        * assert (k = 1) as -> by lia. tr_ltb 1 top. fa_ltb 2 top. intros Hx Hy. apply in_map_iff in Hx. destruct Hx as (x0 & <- & _).
          apply in_map_iff in Hy. destruct Hy as (y0 & <- & _). reflexivity.
      + assert (k = 0) as -> by lia. tr_ltb 0 top. fa_ltb 1 top. intros Hx Hy. apply in_map_iff in Hx. destruct Hx as (x0 & <- & _).
        apply in_map_iff in Hy. destruct Hy as (y0 & <- & _). reflexivity.
    - assert (h_lrow s = false) as El by (destruct (h_lrow s) eqn:E'; [discriminate (F7 eq_refl)|reflexivity]). rewrite El in F5.
      assert (k = 0) as -> by lia. tr_ltb 0 top. fa_ltb 1 top. intros Hx Hy. apply in_map_iff in Hx. destruct Hx as (x0 & <- & _).
      apply in_map_iff in Hy. destruct Hy as (y0 & <- & _). reflexivity. }
  f_equal. unfold sep_ann. cbn [abs_htable t_annotations]. destruct (ht_anns s) as [|a0 A0] eqn:Ea; [reflexivity|].
  cbn [map zipw same_id]. f_equal. unfold h_anns. rewrite zipw_map. rewrite (map_ext _ (fun _ => true)) by (intro; apply rid_eqb_refl).
  rewrite map_const_list, indexed_length. cbn [abs_htable t_annotations]. rewrite Ea. cbn [map length]. unfold h_na. now rewrite Ea, map_length.
Qed.
End TableSide.

Lemma nth_repeat' {B} (c : B) n k dflt : k < n -> nth k (repeat c n) dflt = c.
Proof. revert k. induction n as [|n IH]; intros k Hk; [lia|]. destruct k as [|k]; [reflexivity|]. cbn [repeat nth]. apply IH. lia. Qed.
Lemma removelast_snoc {B} (l : list B) x : removelast (l ++ [x]) = l.
Proof. apply removelast_last. Qed.
Lemma rect_eqb_diff2 (a b : creg) : snd (fst (fst a)) <> snd (fst (fst b)) -> rect_eqb a b = false.
Proof. intro H. apply rect_eqb_neq. intro E'. subst. contradiction. Qed.

(* ================================================================== a drawn table with rules as columns *)
Section ColumnTable.
Variable code : list N -> N.
Variable s : htable.
Hypothesis Hs : wf_ctable s = true.

Local Notation d := (column_drawing s).
Local Notation t := (abs_htable s code).
Local Notation ni := (h_ni s).
Local Notation no := (h_no s).
Local Notation na := (h_na s).
Local Notation nr := (h_nr s).
Local Notation hdr := (h_hdr s).
Local Notation top := (h_top s).
Local Notation nl := (c_nl s).
Local Notation cout := (c_out s).
Local Notation cann := (c_ann s).
Local Notation bcd := (bc code).
Local Notation hp_text := (bc code (ht_hp s)).
Local Notation numb := (fun r : block * list block * list block * list block => let '(n, _, _, _) := r in n).
Local Notation num_text := (fun k : nat => bc code (nth (k - 1) (map numb (ht_rules s)) [])).
Local Notation A := (map btext (ht_anns s)).
Local Notation AB := (map (abs_cell code)).
Local Notation ABP := (map (map (abs_cell code))).

Lemma cfacts :
  wf_mdraw d = true /\ 1 <= ni /\ 1 <= no /\ 1 <= nr /\
  (forall n i o a, In (n, i, o, a) (ht_rules s) -> length i = ni /\ length o = no /\ length a = na) /\
  mcols d = hdr + nr /\ mrows d = nl + 1.
Proof.
  unfold wf_ctable in Hs. rewrite !andb_true_iff in Hs. destruct Hs as ((((((H1 & H2) & H3) & H4) & H5) & H6) & H7).
  apply Nat.leb_le in H2, H3, H4. apply Nat.eqb_eq in H6, H7. repeat split; try assumption.
  - unfold hrule_lengths_ok in H5. rewrite forallb_forall in H5. specialize (H5 _ H). cbn in H5. rewrite !andb_true_iff in H5.
    destruct H5 as ((D1 & D2) & D3). now apply Nat.eqb_eq in D1.
  - unfold hrule_lengths_ok in H5. rewrite forallb_forall in H5. specialize (H5 _ H). cbn in H5. rewrite !andb_true_iff in H5.
    destruct H5 as ((D1 & D2) & D3). now apply Nat.eqb_eq in D2.
  - unfold hrule_lengths_ok in H5. rewrite forallb_forall in H5. specialize (H5 _ H). cbn in H5. rewrite !andb_true_iff in H5.
    destruct H5 as ((D1 & D2) & D3). now apply Nat.eqb_eq in D3.
Qed.

Lemma cd_ncols : mcols d = hdr + nr. Proof. apply cfacts. Qed.
Lemma cd_nrows : mrows d = nl + 1. Proof. apply cfacts. Qed.

(* ------------------------------------------------------------------ the merged cells *)
Lemma creg_marker c : c < hdr -> creg_col s nl c = (nl, 0, S nl, hdr).
Proof. intro Hc. unfold creg_col. rewrite Nat.leb_refl. now tr_ltb c hdr. Qed.
Lemma creg_number c : hdr <= c -> creg_col s nl c = (nl, c, S nl, S c).
Proof. intro Hc. unfold creg_col. rewrite Nat.leb_refl. now fa_ltb c hdr. Qed.
Lemma creg_rule i c : i < nl -> hdr <= c -> creg_col s i c = (i, c, S i, S c).
Proof. intros Hi Hc. unfold creg_col. fa_leb nl i. now tr_leb hdr c. Qed.
Lemma creg_in i c : i < ni -> c < hdr -> creg_col s i c = if c <? top then (i, 0, S i, top) else (i, top, S i, hdr).
Proof. intros Hi Hc. unfold creg_col, c_nl. fa_leb (ni + no + na) i. fa_leb hdr c. now tr_ltb i ni. Qed.
Lemma creg_out i c : ni <= i -> i < ni + no -> c < hdr -> creg_col s i c =
  if h_multi s then (if h_lrow s && (c =? 0) then (ni, 0, ni + no, 1) else (i, c, S i, S c))
  else (if c <? top then (i, 0, S i, top) else (i, top, S i, hdr)).
Proof. intros Hi1 Hi2 Hc. unfold creg_col, c_nl. fa_leb (ni + no + na) i. fa_leb hdr c. fa_ltb i ni. now tr_ltb i (ni + no). Qed.
Lemma creg_ann i c : ni + no <= i -> i < nl -> c < hdr -> creg_col s i c = (i, 0, S i, hdr).
Proof. intros Hi1 Hi2 Hc. unfold creg_col. fa_leb nl i. fa_leb hdr c. fa_ltb i ni. now fa_ltb i (ni + no). Qed.

(* ------------------------------------------------------------------ the text of every grid cell *)
Lemma ctxt_hdr i c : i < nl -> c < hdr -> ctxt s i c = nth (S i) (hrow_blocks s c) [].
Proof. intros Hi Hc. unfold ctxt. fa_leb nl i. now tr_ltb c hdr. Qed.

Lemma mtext_ccell i c : i <= nl -> c < hdr + nr -> mtext d i c = btext (ctxt s i c).
Proof.
  intros Hi Hc. destruct (hdr_facts s) as (F1 & F2 & F3 & F4 & F5 & F6 & F7). destruct cfacts as (_ & Hi1 & Ho1 & _).
  unfold mtext. cbn [column_drawing md_reg md_txt].
  destruct (Nat.eq_dec i nl) as [->|Hne].
  { destruct (Nat.lt_ge_cases c hdr) as [Lc|Lc]; [|now rewrite creg_number by assumption].
    rewrite creg_marker by assumption. unfold btext, ctxt. rewrite Nat.leb_refl. tr_ltb 0 hdr. now tr_ltb c hdr. }
  destruct (Nat.le_gt_cases hdr c) as [Lc|Lc]; [now rewrite creg_rule by lia|].
  destruct (Nat.lt_ge_cases i ni) as [I1|I1].
  { rewrite creg_in by assumption. destruct (c <? top) eqn:Et.
    - apply Nat.ltb_lt in Et. unfold btext. rewrite !ctxt_hdr by (unfold c_nl; lia). rewrite !hb_in by (unfold c_out; lia). unfold sel. tr_ltb 0 top. now tr_ltb c top.
    - apply Nat.ltb_ge in Et. unfold btext. rewrite !ctxt_hdr by (unfold c_nl; lia). rewrite !hb_in by (unfold c_out; lia). unfold sel. rewrite Nat.ltb_irrefl. now fa_ltb c top. }
  destruct (Nat.lt_ge_cases i (ni + no)) as [I2|I2].
  { rewrite creg_out by assumption. destruct (h_multi s) eqn:Em.
    - destruct (h_lrow s && (c =? 0)) eqn:El; [|reflexivity].
      apply andb_true_iff in El. destruct El as [El Ec]. apply Nat.eqb_eq in Ec. subst c.
      unfold btext. rewrite !ctxt_hdr by (unfold c_nl; lia). rewrite !hb_out by (unfold c_ann, c_out; lia). now rewrite El.
    - assert (h_lrow s = false) as El by (destruct (h_lrow s) eqn:E'; [discriminate (F7 eq_refl)|reflexivity]).
      destruct (c <? top) eqn:Et.
      + apply Nat.ltb_lt in Et. unfold btext. rewrite !ctxt_hdr by (unfold c_nl; lia). rewrite !hb_out by (unfold c_ann, c_out; lia).
        rewrite El. cbn [andb]. unfold sel. tr_ltb 0 top. now tr_ltb c top.
      + apply Nat.ltb_ge in Et. unfold btext. rewrite !ctxt_hdr by (unfold c_nl; lia). rewrite !hb_out by (unfold c_ann, c_out; lia).
        rewrite El. cbn [andb]. unfold sel. rewrite Nat.ltb_irrefl. now fa_ltb c top. }
  rewrite creg_ann by (try assumption; lia). unfold btext. rewrite !ctxt_hdr by lia. now rewrite !hb_ann by (unfold c_ann; lia).
Qed.

(* the texts of header column c, line by line: inputs, outputs, annotations *)
Definition Lc (c : nat) : list (list N) := tl (a_k s c) ++ b_k s c ++ A.
Lemma Lc_nth i c : i < nl -> c < hdr -> mtext d i c = nth i (Lc c) [].
Proof.
  intros Hi Hc. rewrite mtext_ccell by lia. rewrite ctxt_hdr by assumption. unfold Lc.
  change (nth i (tl (a_k s c) ++ b_k s c ++ A) []) with (nth (S i) (a_k s c ++ b_k s c ++ A) []).
  rewrite <- row_texts. change (@nil N) with (btext []). symmetry. apply map_nth.
Qed.

(* the texts of the column of rule r *)
Lemma rule_nth i r n ii o a : i < nl -> nth_error (ht_rules s) r = Some (n, ii, o, a) ->
  mtext d i (hdr + r) = nth i (map btext ii ++ map btext o ++ map btext a) [].
Proof.
  intros Hi Hr. assert (r < nr) as Lr by (apply nth_error_Some; unfold h_nr; congruence).
  rewrite mtext_ccell by lia. unfold ctxt. fa_leb nl i. fa_ltb (hdr + r) hdr. replace (hdr + r - hdr) with r by lia.
  unfold rule_at. rewrite (nth_error_nth _ _ _ Hr). unfold rule_blocks. cbn [nth].
  rewrite <- !map_app. change (@nil N) with (btext []). symmetry. apply map_nth.
Qed.


(* ------------------------------------------------------------------ the lines of the plane *)
Lemma cd_mlead j : mlead d j = if j =? hdr then [CVOut] else [].
Proof. unfold mlead. cbn [column_drawing md_v1 md_v2]. now rewrite app_nil_r. Qed.

Lemma mrow_split_c i : mrow d i = map (mcell d i) (seq 0 hdr) ++ CVOut :: map (mcell d i) (seq hdr nr).
Proof.
  destruct cfacts as (_ & _ & _ & Hr1 & _). unfold mrow. rewrite cd_ncols, seq_app, flat_map_app. cbn [Nat.add]. f_equal.
  - apply flat_map_single. intros j Hj. apply in_seq in Hj. rewrite cd_mlead. now fa_eqb j hdr.
  - destruct nr as [|n] eqn:En; [lia|]. cbn [seq flat_map map]. rewrite cd_mlead, Nat.eqb_refl. cbn [app]. do 2 f_equal.
    apply flat_map_single. intros j Hj. apply in_seq in Hj. rewrite cd_mlead. now fa_eqb j hdr.
Qed.
Lemma cd_mwidth : mwidth d = hdr + (1 + nr).
Proof. unfold mwidth. rewrite cd_ncols. cbn [column_drawing md_v2]. lia. Qed.
Lemma mcross_c : mcross d = repeat CHOut hdr ++ CMain :: repeat CHOut nr.
Proof.
  unfold mcross. rewrite cd_mwidth. cbn [column_drawing md_v1 md_v2]. rewrite seq_app, map_app. cbn [Nat.add seq map]. rewrite Nat.eqb_refl. f_equal; [|f_equal].
  - apply map_const_segment. intros j Hj. now fa_eqb j hdr.
  - apply map_const_segment. intros j Hj. now fa_eqb j hdr.
Qed.
Lemma mvcross_c : mvcross d = repeat CHAnn hdr ++ CVCross :: repeat CHAnn nr.
Proof.
  unfold mvcross. rewrite cd_mwidth. cbn [column_drawing md_v1]. rewrite seq_app, map_app. cbn [Nat.add seq map]. rewrite Nat.eqb_refl. f_equal; [|f_equal].
  - apply map_const_segment. intros j Hj. now fa_eqb j hdr.
  - apply map_const_segment. intros j Hj. now fa_eqb j hdr.
Qed.

(* the lines above the marker line *)
Definition ann_rows : list (list ccell) := match ht_anns s with [] => [] | _ => mvcross d :: map (mrow d) (seq (ni + no) na) end.
Definition body_rows : list (list ccell) := map (mrow d) (seq 0 ni) ++ mcross d :: map (mrow d) (seq ni no) ++ ann_rows.

Lemma mplane_split_c : mplane d = body_rows ++ [mrow d nl].
Proof.
  destruct cfacts as (_ & Hi1 & Ho1 & _). unfold mplane, body_rows. rewrite cd_nrows. cbn [column_drawing md_h1 md_h2].
  unfold c_nl. replace (ni + no + na + 1) with (ni + (no + (na + 1))) by lia. rewrite !seq_app, !flat_map_app. cbn [Nat.add].
  rewrite <- !app_assoc. f_equal.
  { apply flat_map_single. intros i Hi. apply in_seq in Hi. fa_eqb i ni. destruct (ht_anns s); [reflexivity|]. now fa_eqb i (ni + no). }
  destruct no as [|n] eqn:En; [lia|]. cbn [seq flat_map map]. rewrite Nat.eqb_refl.
  assert ((match ht_anns s with [] => None | _ :: _ => Some (ni + S n) end) = match ht_anns s with [] => None | _ :: _ => Some (ni + S n) end) as _ by reflexivity.
  assert (forall X : list (list ccell), (match match ht_anns s with [] => None | _ :: _ => Some (ni + S n) end with Some k => if ni =? k then [mvcross d] else [] | None => [] end) ++ X = X) as E0.
  { intro X. destruct (ht_anns s); [reflexivity|]. now fa_eqb ni (ni + S n). }
  cbn [app]. rewrite E0. cbn [app]. do 2 f_equal. rewrite app_nil_r. rewrite <- (app_assoc (map (mrow d) (seq (S ni) n))). f_equal.
  { apply flat_map_single. intros i Hi. apply in_seq in Hi. fa_eqb i ni. destruct (ht_anns s); [reflexivity|]. now fa_eqb i (ni + S n). }
  unfold ann_rows. rewrite ?En. destruct (ht_anns s) as [|a0 A0] eqn:Ea.
  - unfold h_na. rewrite Ea. cbn [length seq flat_map Nat.add app]. rewrite Nat.add_0_r. now fa_eqb (ni + S n) ni.
  - assert (na = S (length A0)) as Ena by (unfold h_na; now rewrite Ea). rewrite Ena. cbn [seq flat_map map Nat.add].
    fa_eqb (ni + S n) ni. rewrite Nat.eqb_refl. cbn [app]. do 2 f_equal. f_equal.
    + apply flat_map_single. intros i Hi. apply in_seq in Hi. fa_eqb i ni. now fa_eqb i (ni + S n).
    + fa_eqb (ni + S n + S (length A0)) ni. now fa_eqb (ni + S n + S (length A0)) (ni + S n).
Qed.


(* ------------------------------------------------------------------ the cells of a line of the plane, by column *)
Lemma nth_mrow_lt i c dflt : c < hdr -> nth c (AB (mrow d i)) dflt = abs_cell code (mcell d i c).
Proof.
  intro Hc. rewrite mrow_split_c, map_app, app_nth1 by now rewrite !map_length, seq_length.
  rewrite map_map. now rewrite (nth_map_seq _ dflt hdr 0 c Hc).
Qed.
Lemma nth_mrow_eq i dflt : nth hdr (AB (mrow d i)) dflt = VOut.
Proof.
  rewrite mrow_split_c, map_app, app_nth2 by (rewrite !map_length, seq_length; lia). rewrite !map_length, seq_length, Nat.sub_diag. reflexivity.
Qed.
Lemma nth_mrow_gt i r dflt : r < nr -> nth (S (hdr + r)) (AB (mrow d i)) dflt = abs_cell code (mcell d i (hdr + r)).
Proof.
  intro Hr. rewrite mrow_split_c, map_app, app_nth2 by (rewrite !map_length, seq_length; lia). rewrite !map_length, seq_length.
  replace (S (hdr + r) - hdr) with (S r) by lia. cbn [map nth]. rewrite map_map. now rewrite (nth_map_seq _ dflt nr hdr r Hr).
Qed.
Lemma nth_mcross c dflt : c <= hdr + nr -> nth c (AB (mcross d)) dflt = if c =? hdr then Main else HOut.
Proof.
  intro Hc. rewrite mcross_c, map_app. destruct (Nat.lt_ge_cases c hdr) as [L|G].
  - rewrite app_nth1 by now rewrite map_length, repeat_length. fa_eqb c hdr. rewrite (nth_indep _ dflt (abs_cell code CHOut)) by now rewrite map_length, repeat_length.
    rewrite map_nth, nth_repeat' by assumption. reflexivity.
  - rewrite app_nth2 by (rewrite map_length, repeat_length; lia). rewrite map_length, repeat_length.
    destruct (Nat.eqb_spec c hdr) as [->|Hne]; [now rewrite Nat.sub_diag|].
    replace (c - hdr) with (S (c - hdr - 1)) by lia. cbn [map nth]. rewrite (nth_indep _ dflt (abs_cell code CHOut)) by (rewrite map_length, repeat_length; lia).
    rewrite map_nth, nth_repeat' by lia. reflexivity.
Qed.
Lemma nth_mvcross c dflt : c <= hdr + nr -> nth c (AB (mvcross d)) dflt = if c =? hdr then VCross else HAnn.
Proof.
  intro Hc. rewrite mvcross_c, map_app. destruct (Nat.lt_ge_cases c hdr) as [L|G].
  - rewrite app_nth1 by now rewrite map_length, repeat_length. fa_eqb c hdr. rewrite (nth_indep _ dflt (abs_cell code CHAnn)) by now rewrite map_length, repeat_length.
    rewrite map_nth, nth_repeat' by assumption. reflexivity.
  - rewrite app_nth2 by (rewrite map_length, repeat_length; lia). rewrite map_length, repeat_length.
    destruct (Nat.eqb_spec c hdr) as [->|Hne]; [now rewrite Nat.sub_diag|].
    replace (c - hdr) with (S (c - hdr - 1)) by lia. cbn [map nth]. rewrite (nth_indep _ dflt (abs_cell code CHAnn)) by (rewrite map_length, repeat_length; lia).
    rewrite map_nth, nth_repeat' by lia. reflexivity.
Qed.

(* a column of the lines above the marker line, through any function of the cells *)
Lemma column_of_body {B} (g : list cell -> B) :
  map g (ABP body_rows) =
  map (fun i => g (AB (mrow d i))) (seq 0 ni) ++ g (AB (mcross d)) :: map (fun i => g (AB (mrow d i))) (seq ni no) ++
  match ht_anns s with [] => [] | _ => g (AB (mvcross d)) :: map (fun i => g (AB (mrow d i))) (seq (ni + no) na) end.
Proof.
  unfold body_rows, ann_rows. rewrite !map_app. cbn [map]. rewrite !map_app, !map_map. do 3 f_equal.
  destruct (ht_anns s); [reflexivity|]. cbn [map]. now rewrite !map_map.
Qed.

Definition colE (c : nat) : list cell := map (fun r => erase (pivot_cell (nth c r HOut))) (ABP body_rows).

Lemma col_crow c (La Lb Lc' : list (list N)) : length La = ni -> length Lb = no -> length Lc' = na ->
  (forall i, i < nl -> erase (pivot_cell (nth c (AB (mrow d i)) HOut)) = R code (nth i (La ++ Lb ++ Lc') [])) ->
  nth c (AB (mcross d)) HOut = HOut -> nth c (AB (mvcross d)) HOut = HAnn ->
  colE c = crow code A La Lb Lc'.
Proof.
  intros L1 L2 L3 Hcell Hx Hv. unfold colE. rewrite column_of_body, Hx, Hv. unfold crow. cbn [pivot_cell erase].
  f_equal; [|f_equal; f_equal].
  - rewrite <- (map_nth_segment (R code) [] La (Lb ++ Lc') []). cbn [length app]. rewrite L1. apply map_ext_in. intros i Hi. apply in_seq in Hi.
    apply Hcell. unfold c_nl. lia.
  - rewrite <- (map_nth_segment (R code) La Lb Lc' []). rewrite L1, L2. apply map_ext_in. intros i Hi. apply in_seq in Hi.
    apply Hcell. unfold c_nl. lia.
  - destruct (ht_anns s) as [|a0 A0] eqn:Ea; [reflexivity|]. cbn [map]. f_equal.
    rewrite <- (map_nth_segment (R code) (La ++ Lb) Lc' [] []). rewrite app_length, L1, L2, L3. rewrite app_nil_r, <- app_assoc.
    apply map_ext_in. intros i Hi. apply in_seq in Hi. apply Hcell. unfold c_nl. lia.
Qed.

Lemma Lc_lengths c : length (tl (a_k s c)) = ni /\ length (b_k s c) = no /\ length A = na.
Proof.
  repeat split.
  - pose proof (a_k_length s c) as L. unfold a_k in *. cbn [tl length] in *. lia.
  - apply b_k_length.
  - apply map_length.
Qed.

Lemma col_header c : c < hdr -> colE c = map erase (header_row t c).
Proof.
  intro Hc. destruct cfacts as (Hd & Hi1 & Ho1 & Hr1 & Hl & _). destruct (Lc_lengths c) as (L1 & L2 & L3).
  rewrite (header_erased_t code s Hi1 Ho1 Hr1 Hl c). apply col_crow; try assumption.
  - intros i Hi. rewrite nth_mrow_lt by assumption. cbn [abs_cell mcell pivot_cell erase]. unfold R. now rewrite (Lc_nth i c Hi Hc).
  - rewrite nth_mcross by lia. now fa_eqb c hdr.
  - rewrite nth_mvcross by lia. now fa_eqb c hdr.
Qed.

Lemma col_rule r n ii o a : nth_error (ht_rules s) r = Some (n, ii, o, a) ->
  colE (S (hdr + r)) = map erase (rule_row t (N.of_nat r, {| r_in := map bcd ii; r_out := map bcd o; r_ann := map bcd a |})).
Proof.
  intro Hr. destruct cfacts as (Hd & Hi1 & Ho1 & Hr1 & Hl & _). destruct (Hl n ii o a (nth_error_In _ _ Hr)) as (L1 & L2 & L3).
  assert (r < nr) as Lr by (apply nth_error_Some; unfold h_nr; congruence).
  rewrite (rule_erased_t code s r n ii o a Hr). apply col_crow; try (now rewrite map_length).
  - intros i Hi. rewrite nth_mrow_gt by assumption. cbn [abs_cell mcell pivot_cell erase]. unfold R. now rewrite (rule_nth i r n ii o a Hi Hr).
  - rewrite nth_mcross by lia. now fa_eqb (S (hdr + r)) hdr.
  - rewrite nth_mvcross by lia. now fa_eqb (S (hdr + r)) hdr.
Qed.

Lemma col_cross : colE hdr = map erase (cross_row t).
Proof.
  rewrite (cross_erased_t code s). unfold colE. rewrite column_of_body. rewrite nth_mcross, nth_mvcross by lia. rewrite Nat.eqb_refl.
  unfold ccross. cbn [pivot_cell erase]. f_equal; [|f_equal; f_equal].
  - apply map_const_segment. intros i Hi. now rewrite nth_mrow_eq.
  - apply map_const_segment. intros i Hi. now rewrite nth_mrow_eq.
  - destruct (ht_anns s) as [|a0 A0] eqn:Ea; [reflexivity|]. cbn [map]. f_equal. apply map_const_segment. intros i Hi. now rewrite nth_mrow_eq.
Qed.


(* ------------------------------------------------------------------ the pivoted plane *)
Lemma body_rows_in r : In r body_rows -> length r = mwidth d.
Proof.
  intro Hin. destruct cfacts as (Hd & _). apply (in_plane_rows d Hd r (mrows d)). rewrite <- mplane_rows, mplane_split_c.
  apply in_or_app. now left.
Qed.
Lemma ABP_rows_length r : In r (ABP body_rows) -> length r = hdr + (1 + nr).
Proof. intro Hin. apply in_map_iff in Hin. destruct Hin as (r' & <- & Hr'). rewrite map_length, <- cd_mwidth. now apply body_rows_in. Qed.
Lemma ABP_width : width (ABP body_rows) = hdr + (1 + nr).
Proof.
  destruct cfacts as (Hd & Hi1 & _). unfold body_rows. destruct ni as [|n] eqn:En; [lia|]. cbn [seq map app width].
  rewrite map_length, (mrow_length d Hd), cd_mwidth. reflexivity.
Qed.

Lemma pivot_body : pivot (ABP body_rows) = map (fun c => map (fun r => pivot_cell (nth c r HOut)) (ABP body_rows)) (seq 0 (hdr + (1 + nr))).
Proof.
  unfold pivot. rewrite ABP_width. rewrite (transpose_rows _ _ HOut) by apply ABP_rows_length. rewrite map_map. apply map_ext. intro c. now rewrite map_map.
Qed.

Lemma indexed_seq_from {B C} (g : N * B -> C) (L : list B) dflt : forall a,
  map g (combine (map N.of_nat (seq a (length L))) L) = map (fun k => g (N.of_nat k, nth (k - a) L dflt)) (seq a (length L)).
Proof.
  induction L as [|x L IH]; intro a; [reflexivity|]. cbn [length seq map combine]. f_equal.
  - now rewrite Nat.sub_diag.
  - rewrite IH. apply map_ext_in. intros k Hk. apply in_seq in Hk. replace (k - a) with (S (k - S a)) by lia. reflexivity.
Qed.
Lemma indexed_seq {B C} (g : N * B -> C) (L : list B) dflt :
  map g (indexed L) = map (fun k => g (N.of_nat k, nth k L dflt)) (seq 0 (length L)).
Proof. unfold indexed. rewrite (indexed_seq_from g L dflt 0). apply map_ext. intro k. now rewrite Nat.sub_0_r. Qed.

Theorem pivot_agrees : E (pivot (ABP body_rows)) = E (layout_h t).
Proof.
  destruct cfacts as (Hd & Hi1 & Ho1 & Hr1 & Hl & _).
  rewrite pivot_body. unfold E at 1. rewrite map_map.
  assert (forall c, map erase (map (fun r => pivot_cell (nth c r HOut)) (ABP body_rows)) = colE c) as Ec by (intro c; unfold colE; now rewrite map_map).
  rewrite (map_ext _ colE Ec). rewrite seq_app, map_app. cbn [Nat.add seq map].
  unfold layout_h, E. rewrite t_hdr, map_app. cbn [map]. rewrite !map_map. f_equal; [|f_equal].
  - apply map_ext_in. intros c Hc. apply in_seq in Hc. apply col_header. lia.
  - apply col_cross.
  - rewrite (indexed_seq (fun x => map erase (rule_row t x)) (t_rules t) {| r_in := []; r_out := []; r_ann := [] |}).
    rewrite (t_rules_length code s). rewrite (seq_add (S hdr) nr), map_map. apply map_ext_in. intros r Hr. apply in_seq in Hr.
    destruct (nth_error (ht_rules s) r) as [(((n & ii) & o) & a)|] eqn:Er; [|apply nth_error_None in Er; unfold h_nr in Hr; lia].
    replace (S hdr + r) with (S (hdr + r)) by lia. rewrite (col_rule r n ii o a Er). do 3 f_equal.
    cbn [abs_htable t_rules]. symmetry. apply nth_error_nth. now rewrite nth_error_map, Er.
Qed.

(* ------------------------------------------------------------------ the whole plane: same cells up to names *)
Lemma marker_row_erased : EA code (mrow d nl) = map erase (repeat (marker hp_text) (Model.hdr t) ++ VOut :: numbers_cells num_text t).
Proof.
  destruct cfacts as (Hd & Hi1 & Ho1 & Hr1 & Hl & _). unfold EA. rewrite mrow_split_c, !map_app. cbn [map abs_cell erase]. rewrite !map_map. f_equal; [|f_equal].
  - rewrite t_hdr. assert (forall n, map erase (repeat (marker hp_text) n) = repeat (Region (0%N, 0%N) hp_text) n) as ->
      by (induction n as [|n IH]; [reflexivity|]; cbn [repeat map]; now rewrite IH).
    apply map_const_segment. intros c Hc. cbn [mcell abs_cell erase]. rewrite mtext_ccell by lia. unfold ctxt. rewrite Nat.leb_refl. now tr_ltb c hdr.
  - unfold numbers_cells. rewrite (t_rules_length code s), (seq_add hdr nr), !map_map. apply map_ext_in. intros r Hr. apply in_seq in Hr.
    cbn [mcell abs_cell erase]. rewrite mtext_ccell by lia. unfold ctxt. rewrite Nat.leb_refl. fa_ltb (hdr + r) hdr.
    replace (hdr + r - hdr) with r by lia. replace (S r - 1) with r by lia. unfold rule_at, bc. do 2 f_equal.
    destruct (nth_error (ht_rules s) r) as [(((n & ii) & o) & a)|] eqn:Er; [|apply nth_error_None in Er; unfold h_nr in Hr; lia].
    rewrite (nth_error_nth _ _ _ Er). rewrite (nth_error_map_nth numb _ r _ [] Er). reflexivity.
Qed.

Lemma body_rectangular : rectangular (ABP body_rows) = true.
Proof.
  unfold rectangular. rewrite ABP_width. apply andb_true_iff. split; [apply Nat.ltb_lt; lia|].
  apply forallb_forall. intros r Hr. apply Nat.eqb_eq. now apply ABP_rows_length.
Qed.

Theorem planes_agree_c : E (layout_columns hp_text num_text t) = E (ABP (mplane d)).
Proof.
  rewrite mplane_split_c. unfold layout_columns. unfold E at 1 2. rewrite !map_app. cbn [map]. f_equal.
  - fold (E (pivot (layout_h t))). fold (E (ABP body_rows)). rewrite <- (pivot_involutive (ABP body_rows) body_rectangular).
    rewrite (E_pivot (pivot (ABP body_rows))), pivot_agrees, <- E_pivot. reflexivity.
  - f_equal. symmetry. apply marker_row_erased.
Qed.


(* ------------------------------------------------------------------ the pivoted plane: same partition of the header lines *)
Lemma removelast_plane : removelast (ABP (mplane d)) = ABP body_rows.
Proof. rewrite mplane_split_c, map_app. cbn [map]. apply removelast_snoc. Qed.

Lemma pattern_pivot k : S k < hdr -> below_pattern (pivot (ABP body_rows)) k = tl (pat s k).
Proof.
  intro Hk. destruct (hdr_facts s) as (F1 & F2 & F3 & F4 & F5 & F6 & F7). destruct cfacts as (Hd & Hi1 & Ho1 & Hr1 & _).
  unfold below_pattern. rewrite pivot_body.
  rewrite <- (app_nil_r (map _ (seq 0 (hdr + (1 + nr))))). rewrite !row_at_split by lia.
  rewrite zipw_map. rewrite (map_ext _ (fun r => same_id (nth k r HOut) (nth (S k) r HOut))) by (intro; apply same_id_pivot).
  rewrite column_of_body. rewrite !nth_mcross, !nth_mvcross by lia. fa_eqb k hdr. fa_eqb (S k) hdr. cbn [same_id].
  assert (forall i, i < nl -> same_id (nth k (AB (mrow d i)) HOut) (nth (S k) (AB (mrow d i)) HOut) = rect_eqb (creg_col s i k) (creg_col s i (S k))) as Hc.
  { intros i Hi. rewrite !nth_mrow_lt by lia. cbn [abs_cell mcell same_id]. unfold rid_eqb. cbn [fst snd]. rewrite N_of_nat_eqb, N.eqb_refl, andb_true_r.
    rewrite (rnum_eqb d Hd) by (rewrite ?cd_nrows, ?cd_ncols; lia). reflexivity. }
  unfold pat. cbn [tl]. f_equal; [|f_equal; f_equal].
  - apply map_const_segment. intros i Hi. rewrite Hc by (unfold c_nl; lia). rewrite !creg_in by lia.
    destruct (Nat.ltb_spec k top), (Nat.ltb_spec (S k) top); try lia; [apply rect_eqb_refl|]. apply rect_eqb_diff2. cbn [fst snd]. lia.
  - apply map_const_segment. intros i Hi. rewrite Hc by (unfold c_nl; lia). rewrite !creg_out by lia.
    replace (S k =? 0) with false by reflexivity. rewrite andb_false_r.
    destruct (h_multi s) eqn:Em.
    + destruct (h_lrow s && (k =? 0)); apply rect_eqb_diff2; cbn [fst snd]; lia.
    + assert (h_lrow s = false) as El by (destruct (h_lrow s) eqn:E'; [discriminate (F7 eq_refl)|reflexivity]). rewrite El in F5.
      destruct (Nat.ltb_spec k top), (Nat.ltb_spec (S k) top); try lia. apply rect_eqb_diff2. cbn [fst snd]. lia.
  - destruct (ht_anns s) as [|a0 A0] eqn:Ea; [reflexivity|]. f_equal. apply map_const_segment. intros i Hi.
    assert (na = S (length A0)) as Ena by (unfold h_na; now rewrite Ea).
    rewrite Hc by (unfold c_nl; lia). rewrite !creg_ann by (unfold c_nl; lia). apply rect_eqb_refl.
Qed.

(* ------------------------------------------------------------------ text -> table *)
Theorem text_to_table_columns parse_hp parse_num hp :
  parse_hp hp_text = Some hp ->
  (forall k n i o a, nth_error (ht_rules s) k = Some (n, i, o, a) -> parse_num (bcd n) = Some (S k)) ->
  first_input_not_marker parse_hp t = true -> first_output_not_number parse_num t = true ->
  exists p, canvas_to_plane code (drawm d) = Some p /\
            recognize_plane parse_hp parse_num p = Some (AsColumn, hp, nr, fields_of t).
Proof.
  intros Hhp Hnum Hin Hout. destruct cfacts as (Hd & Hi1 & Ho1 & Hr1 & Hl & _).
  pose proof (t_wf_t code s Hi1 Ho1 Hl) as Twf. pose proof (t_rules_ne_t code s Hi1 Ho1 Hr1 Hl) as Tne.
  exists (ABP (mplane d)). split; [apply (draw_roundtrip_merged code d Hd)|].
  assert (forall k, 1 <= k <= length (t_rules t) -> parse_num (num_text k) = Some k) as Hn.
  { intros k Hk. rewrite (t_rules_length code s) in Hk. destruct k as [|k]; [lia|]. replace (S k - 1) with k by lia.
    destruct (nth_error (ht_rules s) k) as [(((n & i) & o) & a)|] eqn:Ek.
    - rewrite (nth_error_map_nth numb _ k _ [] Ek). apply (Hnum k n i o a Ek).
    - apply nth_error_None in Ek. unfold h_nr in Hk. lia. }
  rewrite (recognize_plane_partition_columns parse_hp parse_num (layout_columns hp_text num_text t) _ hp (length (t_rules t)) (length (t_inputs t)) hdr).
  - rewrite (roundtrip_columns_in_range parse_hp parse_num hp_text hp num_text Hhp t Twf Tne Hn Hin Hout). now rewrite (t_rules_length code s).
  - apply planes_agree_c.
  - intros k Hk. rewrite (columns_normalise hp_text num_text t Twf), removelast_plane.
    now rewrite (pattern_layout_h code s Hi1 Ho1 Hr1 k Hk), pattern_pivot.
  - apply (orientation_columns_in_range parse_hp parse_num hp_text hp num_text Hhp t Twf Tne Hn Hin Hout).
  - rewrite (columns_normalise hp_text num_text t Twf), main_position, t_hdr. reflexivity.
Qed.

End ColumnTable.
