(* C19 — merged drawings (coq/C19/CanvasMerged.v): the ASSEMBLY of the plane.  (owner: ext-merged)
   For every well-formed merged drawing: the region walk on THIN from the first grid cell of a merged cell closes on its frame, the
   rectangle walk on GRID from a grid cell closes on the frame of the grid cell, the text read from the frame of a merged cell is its
   block of text, the regions are the merged cells in the order of their first grid cells, the number of the region of a grid cell
   is `rnum`, and the walk of Canvas::plane gives `mplane`:  canvas_cplane (drawm d) = Ok (None, mplane d). *)
From Coq Require Import List NArith Bool Arith Lia.
From DV Require Import C19.Model C19.Canvas C19.CanvasDraw C19.CanvasProofs C19.CanvasAssembly C19.CanvasMerged C19.CanvasMergedGeom C19.CanvasMergedScan.
Import ListNotations.

Tactic Notation "tr_ltb" constr(a) constr(b) := replace (a <? b) with true by (symmetry; apply Nat.ltb_lt; lia).
Tactic Notation "fa_ltb" constr(a) constr(b) := replace (a <? b) with false by (symmetry; apply Nat.ltb_ge; lia).
Tactic Notation "tr_eqb" constr(a) constr(b) := replace (a =? b) with true by (symmetry; apply Nat.eqb_eq; lia).
Tactic Notation "fa_eqb" constr(a) constr(b) := replace (a =? b) with false by (symmetry; apply Nat.eqb_neq; lia).

(* ================================================================== junctions as corners *)
Lemma corner_tl u dn l r : mem (jsingle u dn l r) corners_tl = dn && r.
Proof. destruct u, dn, l, r; reflexivity. Qed.
Lemma region_chars u dn l r :
  okp corners_tr [cH; cB] (jsingle u false true true) /\ okp corners_bl [cH; cT] (jsingle false dn true true) /\
  okp corners_br [cV; cL] (jsingle true true false r) /\ okp corners_tl [cV; cR] (jsingle true true l false) /\
  mem (jsingle u true true r) corners_tr = true /\ mem (jsingle true dn true r) corners_br = true /\
  mem (jsingle true dn l true) corners_bl = true /\ mem (jsingle u true l true) corners_tl = true.
Proof. unfold okp. destruct u, dn, l, r; repeat split; reflexivity. Qed.
Lemma rectangle_chars u dn l r :
  mem (jsingle u true true r) [cX; cT; cR; cTR] = true /\ mem (jsingle true dn true r) [cX; cB; cR; cBR] = true /\
  mem (jsingle true dn l true) [cX; cBL; cL; cB] = true /\ mem (jsingle u true l true) [cX; cT; cL; cTL] = true.
Proof. destruct u, dn, l, r; repeat split; reflexivity. Qed.

Lemma filter_flat_map {A B} (p : B -> bool) (f : A -> list B) l : filter p (flat_map f l) = flat_map (fun a => filter p (f a)) l.
Proof. induction l as [|a l IH]; [reflexivity|]. cbn [flat_map]. now rewrite filter_app, IH. Qed.
Lemma filter_map {A B} (p : B -> bool) (g : A -> B) l : filter p (map g l) = map g (filter (fun a => p (g a)) l).
Proof. induction l as [|a l IH]; [reflexivity|]. cbn [map filter]. destruct (p (g a)); cbn [map]; now rewrite IH. Qed.
Lemma map_flat_map {A B C} (g : B -> C) (f : A -> list B) l : map g (flat_map f l) = flat_map (fun a => map g (f a)) l.
Proof. induction l as [|a l IH]; [reflexivity|]. cbn [flat_map]. now rewrite map_app, IH. Qed.

Lemma filter_seq_X' (p : nat -> bool) l : forall n, n <= length l ->
  (forall j o, j < n -> o < nth j l 0 -> p (X l j + 1 + o) = false) ->
  filter p (seq 0 (X l n)) = map (X l) (filter (fun j => p (X l j)) (seq 0 n)).
Proof.
  induction n as [|n IH]; intros Hn Hf; [now rewrite X_0|].
  rewrite X_succ by lia. replace (X l n + nth n l 0 + 1) with (X l n + S (nth n l 0)) by lia.
  rewrite seq_app, filter_app. rewrite IH; [|lia|intros; apply Hf; lia].
  rewrite (seq_S n 0), filter_app, map_app. f_equal. cbn [Nat.add seq filter].
  assert (filter p (seq (S (X l n)) (nth n l 0)) = []) as ->.
  { apply filter_none. intros a Ha. apply in_seq in Ha. replace a with (X l n + 1 + (a - X l n - 1)) by lia. apply Hf; lia. }
  now destruct (p (X l n)).
Qed.

Lemma X_in_neq l j o k : j < length l -> o < nth j l 0 -> k <= length l -> X l j + 1 + o <> X l k.
Proof.
  intros Hj Ho Hk E. pose proof (X_in_lt l j o Hj Ho) as L. destruct (Nat.lt_ge_cases k (S j)) as [L'|G].
  - pose proof (X_le l k j ltac:(lia) ltac:(lia)). lia.
  - pose proof (X_le l (S j) k ltac:(lia) ltac:(lia)). lia.
Qed.

Lemma index_of_first {A} (p : A -> bool) l : (exists a, In a l /\ p a = true) ->
  exists a, nth_error l (index_of p l) = Some a /\ p a = true.
Proof.
  induction l as [|b l IH]; intros (a & Hin & Hp); [destruct Hin|]. cbn [index_of]. destruct (p b) eqn:E.
  - exists b. split; [reflexivity|assumption].
  - destruct Hin as [->|Hin]; [congruence|]. destruct (IH (ex_intro _ a (conj Hin Hp))) as (a' & H1 & H2). exists a'. split; assumption.
Qed.

Lemma find_region_index {A} (F : A -> rect) (P : A -> bool) r (L : list A) : forall s,
  (forall a, In a L -> contains (F a) r = P a) -> (exists a, In a L /\ P a = true) ->
  exists a, nth_error L (index_of P L) = Some a /\ P a = true /\ find_region (map F L) r s = Some (s + index_of P L, F a).
Proof.
  induction L as [|b L IH]; intros s Hc (a & Hin & Hp); [destruct Hin|]. cbn [map find_region index_of].
  rewrite (Hc b (or_introl eq_refl)). destruct (P b) eqn:E.
  - exists b. repeat split; try assumption. now rewrite Nat.add_0_r.
  - destruct Hin as [->|Hin]; [congruence|].
    destruct (IH (S s) (fun a' Ha' => Hc a' (or_intror Ha')) (ex_intro _ a (conj Hin Hp))) as (a' & H1 & H2 & H3).
    exists a'. repeat split; try assumption. rewrite H3. f_equal. f_equal. lia.
Qed.

(* ================================================================== a well-formed merged drawing *)
Section Plane.
Variable d : mdraw.
Hypothesis Hwf : wf_mdraw d = true.
Local Notation ws := (md_ws d).
Local Notation hs := (md_hs d).
Local Notation nr := (mrows d).
Local Notation nc := (mcols d).
Local Notation v1 := (md_v1 d).
Local Notation h1 := (md_h1 d).
Local Notation reg := (md_reg d).
Local Notation Vd := (vseg d).
Local Notation Hd := (hseg d).
Local Notation TT := (fun _ _ : nat => true).

Ltac facts :=
  pose proof (v1_bounds d Hwf) as [Pv1 Pv2]; pose proof (h1_bounds d Hwf) as [Ph1 Ph2];
  pose proof (eq_refl : nc = length ws) as Pnc; pose proof (eq_refl : nr = length hs) as Pnr;
  pose proof (eq_refl : MW d = S (X ws nc)) as PW; pose proof (eq_refl : MH d = S (X hs nr)) as PH.

(* ------------------------------------------------------------------ the frame of a merged cell in THIN *)
Lemma region_walk i j r0 c0 r1 c1 : i < nr -> j < nc -> reg i j = (r0, c0, r1, c1) ->
  recognize_region (THM d) (X ws c0, X hs r0) = Ok (mrect d (r0, c0, r1, c1)).
Proof.
  intros Hi Hj E. facts. pose proof (tile d Hwf i j r0 c0 r1 c1 Hi Hj E) as (T1 & T2 & T3 & T4 & T5 & T6 & T7).
  unfold recognize_region, THM, mrect.
  assert (forall j', c0 <= j' -> j' < c1 -> Hd r0 j' = true /\ Hd r1 j' = true) as HH.
  { intros j' J1 J2. split; [apply (side_top d Hwf i j r0 c0 r1 c1)|apply (side_bottom d Hwf i j r0 c0 r1 c1)]; assumption. }
  assert (forall i', r0 <= i' -> i' < r1 -> Vd c0 i' = true /\ Vd c1 i' = true) as HV.
  { intros i' I1 I2. split; [apply (side_left d Hwf i j r0 c0 r1 c1)|apply (side_right d Hwf i j r0 c0 r1 c1)]; assumption. }
  apply walk_thl; try lia; try assumption; try (split; reflexivity).
  - intros j' J1 J2. unfold J, aU, aD, aL, aR. change (length hs) with nr. change (length ws) with nc.
    rewrite (inside_v d Hwf i j r0 c0 r1 c1 r0 j') by (try assumption; lia).
    rewrite (inside_v d Hwf i j r0 c0 r1 c1 (r1 - 1) j') by (try assumption; lia).
    rewrite (proj1 (HH (j' - 1) ltac:(lia) ltac:(lia))), (proj2 (HH (j' - 1) ltac:(lia) ltac:(lia))).
    rewrite (proj1 (HH j' ltac:(lia) ltac:(lia))), (proj2 (HH j' ltac:(lia) ltac:(lia))).
    tr_ltb 0 j'. tr_ltb j' nc. rewrite !andb_false_r. cbn [andb].
    split; [apply (region_chars ((0 <? r0) && Vd j' (r0 - 1)) false false false)|apply (region_chars false ((r1 <? nr) && Vd j' r1) false false)].
  - intros i' I1 I2. unfold J, aU, aD, aL, aR. change (length hs) with nr. change (length ws) with nc.
    rewrite (inside_h d Hwf i j r0 c0 r1 c1 i' (c1 - 1)) by (try assumption; lia).
    rewrite (inside_h d Hwf i j r0 c0 r1 c1 i' c0) by (try assumption; lia).
    rewrite (proj1 (HV (i' - 1) ltac:(lia) ltac:(lia))), (proj2 (HV (i' - 1) ltac:(lia) ltac:(lia))).
    rewrite (proj1 (HV i' ltac:(lia) ltac:(lia))), (proj2 (HV i' ltac:(lia) ltac:(lia))).
    tr_ltb 0 i'. tr_ltb i' nr. rewrite !andb_false_r. cbn [andb].
    split; [apply (region_chars false false false ((c1 <? nc) && Hd i' c1))|apply (region_chars false false ((0 <? c0) && Hd i' (c0 - 1)) false)].
  - unfold J, aU, aD, aL, aR. change (length hs) with nr. change (length ws) with nc.
    rewrite (proj1 (HH (c1 - 1) ltac:(lia) ltac:(lia))), (proj2 (HV r0 ltac:(lia) ltac:(lia))). tr_ltb 0 c1. tr_ltb r0 nr. cbn [andb].
    apply (region_chars ((0 <? r0) && Vd c1 (r0 - 1)) false false ((c1 <? nc) && Hd r0 c1)).
  - unfold J, aU, aD, aL, aR. change (length hs) with nr. change (length ws) with nc.
    rewrite (proj2 (HH (c1 - 1) ltac:(lia) ltac:(lia))), (proj2 (HV (r1 - 1) ltac:(lia) ltac:(lia))). tr_ltb 0 c1. tr_ltb 0 r1. cbn [andb].
    apply (region_chars false ((r1 <? nr) && Vd c1 r1) false ((c1 <? nc) && Hd r1 c1)).
  - unfold J, aU, aD, aL, aR. change (length hs) with nr. change (length ws) with nc.
    rewrite (proj2 (HH c0 ltac:(lia) ltac:(lia))), (proj1 (HV (r1 - 1) ltac:(lia) ltac:(lia))). tr_ltb c0 nc. tr_ltb 0 r1. cbn [andb].
    apply (region_chars false ((r1 <? nr) && Vd c0 r1) ((0 <? c0) && Hd r1 (c0 - 1)) false).
  - unfold J, aU, aD, aL, aR. change (length hs) with nr. change (length ws) with nc.
    rewrite (proj1 (HH c0 ltac:(lia) ltac:(lia))), (proj1 (HV r0 ltac:(lia) ltac:(lia))). tr_ltb c0 nc. tr_ltb r0 nr. cbn [andb].
    apply (region_chars ((0 <? r0) && Vd c0 (r0 - 1)) false ((0 <? c0) && Hd r0 (c0 - 1)) false).
Qed.

(* ------------------------------------------------------------------ the frame of a grid cell in GRID *)
Lemma rectangle_walk i j : i < nr -> j < nc ->
  recognize_rectangle (GM d) (X ws j, X hs i) = Ok (mrect d (i, j, S i, S j)).
Proof.
  intros Hi Hj. facts. unfold recognize_rectangle, GM, mrect.
  apply walk_thl; try lia; try (split; reflexivity); try (intros; split; reflexivity); try (intros; lia).
  - unfold J, aU, aD, aL, aR. change (length hs) with nr. change (length ws) with nc. rewrite !andb_true_r. tr_ltb i nr. cbn [Nat.ltb Nat.leb].
    apply (rectangle_chars (0 <? i) false false (S j <? nc)).
  - unfold J, aU, aD, aL, aR. change (length hs) with nr. change (length ws) with nc. rewrite !andb_true_r. cbn [Nat.ltb Nat.leb].
    apply (rectangle_chars false (S i <? nr) false (S j <? nc)).
  - unfold J, aU, aD, aL, aR. change (length hs) with nr. change (length ws) with nc. rewrite !andb_true_r. tr_ltb j nc. cbn [Nat.ltb Nat.leb].
    apply (rectangle_chars false (S i <? nr) (0 <? j) false).
  - unfold J, aU, aD, aL, aR. change (length hs) with nr. change (length ws) with nc. rewrite !andb_true_r. tr_ltb j nc. tr_ltb i nr.
    apply (rectangle_chars (0 <? i) false (0 <? j) false).
Qed.


(* ------------------------------------------------------------------ the text of a merged cell *)
Lemma inside_char i j r0 c0 r1 c1 y x : i < nr -> j < nc -> reg i j = (r0, c0, r1, c1) ->
  X hs r0 < y -> y < X hs r1 -> X ws c0 < x -> x < X ws c1 ->
  mchar d y x = nth (x - X ws c0 - 1) (nth (y - X hs r0 - 1) (md_txt d r0 c0) []) cWhite.
Proof.
  intros Hi Hj E Y1 Y2 X1 X2. facts. pose proof (tile d Hwf i j r0 c0 r1 c1 Hi Hj E) as (T1 & T2 & T3 & T4 & T5 & T6 & T7).
  assert (forall i' j', r0 <= i' -> i' < r1 -> c0 <= j' -> j' < c1 -> forall y' x', txt_at d i' j' y' x' =
            nth (x' - X ws c0 - 1) (nth (y' - X hs r0 - 1) (md_txt d r0 c0) []) cWhite) as Ht.
  { intros i' j' I1 I2 J1 J2 y' x'. unfold txt_at. now rewrite (T7 i' j' I1 I2 J1 J2). }
  destruct (between_cases hs r0 r1 y ltac:(lia) ltac:(lia) Y1 Y2) as [(i' & I1 & I2 & ->)|(i' & p & I1 & I2 & I3 & ->)];
  destruct (between_cases ws c0 c1 x ltac:(lia) ltac:(lia) X1 X2) as [(j' & J1 & J2 & ->)|(j' & o & J1 & J2 & J3 & ->)].
  - rewrite mchar_jj by lia. unfold aU, aD, aL, aR.
    rewrite (inside_v d Hwf i j r0 c0 r1 c1 (i' - 1) j'), (inside_v d Hwf i j r0 c0 r1 c1 i' j') by (try assumption; lia).
    rewrite (inside_h d Hwf i j r0 c0 r1 c1 i' (j' - 1)), (inside_h d Hwf i j r0 c0 r1 c1 i' j') by (try assumption; lia).
    rewrite !andb_false_r. cbn [orb]. apply Ht; lia.
  - rewrite mchar_jh by lia. rewrite (inside_h d Hwf i j r0 c0 r1 c1 i' j') by (try assumption; lia). apply Ht; lia.
  - rewrite mchar_vj by lia. rewrite (inside_v d Hwf i j r0 c0 r1 c1 i' j') by (try assumption; lia). apply Ht; lia.
  - rewrite mchar_tt by lia. apply Ht; lia.
Qed.

Lemma text_walk i j r0 c0 r1 c1 : i < nr -> j < nc -> reg i j = (r0, c0, r1, c1) ->
  text_from_rect (TM d) (mrect d (r0, c0, r1, c1)) = Ok (text_rows (md_txt d r0 c0) false).
Proof.
  intros Hi Hj E. facts. pose proof (tile d Hwf i j r0 c0 r1 c1 Hi Hj E) as (T1 & T2 & T3 & T4 & T5 & T6 & T7).
  pose proof (txt_fit d Hwf i j r0 c0 r1 c1 Hi Hj E) as [L1 L2].
  pose proof (X_mono hs r0 r1 ltac:(lia) ltac:(lia)) as My. pose proof (X_mono ws c0 c1 ltac:(lia) ltac:(lia)) as Mx.
  pose proof (X_le hs r1 nr ltac:(lia) ltac:(lia)) as Ly. pose proof (X_le ws c1 nc ltac:(lia) ltac:(lia)) as Lx.
  unfold text_from_rect, mrect. unfold slice at 1. unfold TM at 1 2. rewrite tab_length.
  replace ((S (X hs r0) <=? X hs r1) && (X hs r1 <=? S (MH d))) with true by (symmetry; apply andb_true_iff; split; apply Nat.leb_le; lia).
  unfold tab. rewrite slice_map_seq by lia.
  assert (map_opt (fun row : list N => slice row (S (X ws c0)) (S (X ws c1) - 1))
            (map (fun y => map (chM d y) (seq 0 (MW d))) (seq (S (X hs r0)) (X hs r1 - S (X hs r0)))) = Some (md_txt d r0 c0)) as ->; [|reflexivity].
  replace (X hs r1 - S (X hs r0)) with (length (md_txt d r0 c0)) by lia.
  assert (forall k (L : list (list N)) a, (forall q, q < length L -> nth q L [] = nth (k + q) (md_txt d r0 c0) []) ->
            k + length L = length (md_txt d r0 c0) -> a = S (X hs r0) + k ->
            map_opt (fun row : list N => slice row (S (X ws c0)) (S (X ws c1) - 1)) (map (fun y => map (chM d y) (seq 0 (MW d))) (seq a (length L))) = Some L) as Hgen.
  { intros k L. revert k. induction L as [|line L IH]; intros k a Hq Hlen Ha; [reflexivity|].
    cbn [length seq map map_opt]. rewrite (IH (S k) (S a)); [| |cbn [length] in Hlen; lia|lia].
    2:{ intros q Hq'. specialize (Hq (S q) ltac:(cbn [length]; lia)). cbn [nth] in Hq. rewrite Hq. f_equal. lia. }
    unfold slice. rewrite map_length, seq_length.
    replace ((S (X ws c0) <=? S (X ws c1) - 1) && (S (X ws c1) - 1 <=? MW d)) with true by (symmetry; apply andb_true_iff; split; apply Nat.leb_le; lia).
    rewrite slice_map_seq by lia.
    assert (In line (md_txt d r0 c0)) as Hin.
    { specialize (Hq 0 ltac:(cbn [length]; lia)). cbn [nth] in Hq. rewrite Hq. apply nth_In. cbn [length] in Hlen. lia. }
    destruct (L2 line Hin) as [Ll _].
    replace (S (X ws c1) - 1 - S (X ws c0)) with (length line) by lia.
    rewrite (map_seq_eq _ cWhite); [reflexivity|].
    intros o Ho. cbn [length] in Hlen. rewrite chM_in by lia.
    rewrite (inside_char i j r0 c0 r1 c1) by (try assumption; lia).
    specialize (Hq 0 ltac:(cbn [length]; lia)). cbn [nth] in Hq. rewrite Nat.add_0_r in Hq.
    replace (a - X hs r0 - 1) with k by lia. rewrite <- Hq. f_equal. lia. }
  apply (Hgen 0); [reflexivity|reflexivity|lia].
Qed.


(* ------------------------------------------------------------------ the top-left corners of THIN: the first grid cells of the merged cells *)
Lemma THM_length : length (THM d) = S (MH d).
Proof. unfold THM, TL. now rewrite tab_length. Qed.
Lemma THM_row_length y : y < S (MH d) -> length (nth y (THM d) []) = MW d.
Proof. intro Hy. unfold THM, TL. change (LH hs) with (MH d) in *. rewrite tab_row_nth by assumption. now rewrite map_length, seq_length. Qed.
Lemma corner_THM y x : y < S (MH d) -> x < MW d -> is_tl_corner (THM d) y x = mem (thc hs ws Vd Hd y x) corners_tl.
Proof. intros Hy Hx. unfold is_tl_corner, THM, TL. change (LH hs) with (MH d) in *. now rewrite get_tab by assumption. Qed.

Lemma first_iff i j : i < nr -> j < nc -> is_first d (i, j) = Vd j i && Hd i j.
Proof.
  intros Hi Hj. unfold is_first. cbn [fst snd]. destruct (reg i j) as [[[r0 c0] r1] c1] eqn:E.
  rewrite (vseg_first d Hwf i j r0 c0 r1 c1), (hseg_first d Hwf i j r0 c0 r1 c1) by assumption. apply andb_comm.
Qed.

Lemma corner_thin_at i j : i < nr -> j <= nc -> is_tl_corner (THM d) (X hs i) (X ws j) = (j <? nc) && is_first d (i, j).
Proof.
  intros Hi Hj. facts. pose proof (Xh_lt' d Hwf i ltac:(lia)) as Ly. pose proof (Xv_lt d Hwf j Hj) as Lx.
  rewrite corner_THM by lia. rewrite thc_in by assumption. rewrite thl_jj by lia. unfold J. rewrite corner_tl.
  unfold aD, aR. change (length hs) with nr. change (length ws) with nc. tr_ltb i nr. cbn [andb].
  destruct (j <? nc) eqn:E; [|now rewrite andb_false_r]. apply Nat.ltb_lt in E. cbn [andb]. now rewrite first_iff.
Qed.

Lemma corner_thin_in_col y j o : y < S (MH d) -> j < nc -> o < nth j ws 0 -> is_tl_corner (THM d) y (X ws j + 1 + o) = false.
Proof.
  intros Hy Hj Ho. facts. pose proof (X_in_lt ws j o ltac:(lia) Ho) as Lx. pose proof (Xv_lt d Hwf (S j) ltac:(lia)) as Lx2.
  rewrite corner_THM by lia. destruct (Nat.eq_dec y (MH d)) as [->|Hne]; [change (MH d) with (LH hs); now rewrite thc_last|].
  rewrite thc_in by (change (LH hs) with (MH d); lia).
  destruct (y_cases' hs y ltac:(change (LH hs) with (MH d); lia)) as [(i & Hi & ->)|(i & p & Hi & Hp & ->)].
  - rewrite thl_jh by lia. now destruct (Hd i j).
  - now rewrite thl_tt by lia.
Qed.
Lemma corner_thin_in_row i p x : i < nr -> p < nth i hs 0 -> x < MW d -> is_tl_corner (THM d) (X hs i + 1 + p) x = false.
Proof.
  intros Hi Hp Hx. facts. pose proof (X_in_lt hs i p ltac:(lia) Hp) as Ly. pose proof (Xh_lt' d Hwf (S i) ltac:(lia)) as Ly2.
  rewrite corner_THM by lia. rewrite thc_in by (change (LH hs) with (MH d); lia).
  destruct (x_cases ws x Hx) as [(j & Hj & ->)|(j & o & Hj & Ho & ->)].
  - rewrite thl_vj by lia. now destruct (Vd j i).
  - now rewrite thl_tt by lia.
Qed.
Lemma corner_thin_bottom x : x < MW d -> is_tl_corner (THM d) (X hs nr) x = false /\ is_tl_corner (THM d) (MH d) x = false.
Proof.
  intro Hx. facts. split.
  - rewrite corner_THM by lia. rewrite thc_in by (change (LH hs) with (MH d); lia).
    destruct (x_cases ws x Hx) as [(j & Hj & ->)|(j & o & Hj & Ho & ->)].
    + rewrite thl_jj by lia. unfold J. rewrite corner_tl. unfold aD. change (length hs) with nr. now rewrite Nat.ltb_irrefl.
    + rewrite thl_jh by lia. now destruct (Hd nr j).
  - rewrite corner_THM by lia. change (MH d) with (LH hs). now rewrite thc_last.
Qed.

Definition corner_of (ij : nat * nat) : point := (X ws (snd ij), X hs (fst ij)).

Lemma corners_row i : i < nr ->
  filter (is_tl_corner (THM d) (X hs i)) (seq 0 (MW d)) = map (X ws) (filter (fun j => is_first d (i, j)) (seq 0 nc)).
Proof.
  intro Hi. facts. pose proof (Xh_lt' d Hwf i ltac:(lia)) as Ly. rewrite PW, seq_S, filter_app. cbn [Nat.add filter].
  rewrite (corner_thin_at i nc Hi (le_n _)), Nat.ltb_irrefl. cbn [andb]. rewrite app_nil_r.
  rewrite filter_seq_X' by (try lia; intros; apply corner_thin_in_col; lia). f_equal.
  apply filter_ext_in. intros j Hj. apply in_seq in Hj. rewrite corner_thin_at by lia. now tr_ltb j nc.
Qed.

Lemma corners_THM : find_top_left_corners (THM d) = map corner_of (firsts d).
Proof.
  facts. unfold find_top_left_corners. rewrite THM_length.
  replace (S (MH d)) with (X hs nr + 2) by lia. rewrite seq_app, flat_map_app. cbn [Nat.add seq flat_map].
  rewrite !THM_row_length by lia. replace (S (X hs nr)) with (MH d) by lia.
  rewrite (filter_none (is_tl_corner (THM d) (X hs nr))) by (intros x Hx; apply in_seq in Hx; apply corner_thin_bottom; lia).
  rewrite (filter_none (is_tl_corner (THM d) (MH d))) by (intros x Hx; apply in_seq in Hx; apply corner_thin_bottom; lia).
  cbn [map app]. rewrite app_nil_r.
  rewrite (flat_map_seq_X (fun y => map (fun x => (x, y)) (filter (is_tl_corner (THM d) y) (seq 0 (length (nth y (THM d) [])))))).
  2:{ lia. }
  2:{ intros i p Hi Hp. pose proof (X_in_lt hs i p ltac:(lia) Hp). pose proof (Xh_lt' d Hwf (S i) ltac:(lia)).
      rewrite THM_row_length by lia. rewrite filter_none; [reflexivity|]. intros x Hx. apply in_seq in Hx. apply corner_thin_in_row; lia. }
  unfold firsts, cells_rm. rewrite filter_flat_map, map_flat_map. apply flat_map_ext_in'. intros i Hi. apply in_seq in Hi.
  pose proof (Xh_lt' d Hwf i ltac:(lia)). rewrite THM_row_length by lia. rewrite corners_row by lia.
  rewrite filter_map, !map_map. reflexivity.
Qed.

Lemma firsts_in ij : In ij (firsts d) -> fst ij < nr /\ snd ij < nc /\ is_first d ij = true.
Proof.
  intro Hin. unfold firsts in Hin. apply filter_In in Hin. destruct Hin as [Hin Hf]. unfold cells_rm in Hin.
  apply in_flat_map in Hin. destruct Hin as (i & Hi & Hin). apply in_map_iff in Hin. destruct Hin as (j & <- & Hj).
  apply in_seq in Hi, Hj. cbn [fst snd]. repeat split; try lia. assumption.
Qed.

Definition regions_m : list rect := map (fun ij => mrect d (reg (fst ij) (snd ij))) (firsts d).

Theorem regions_merged : recognize_regions (THM d) = Ok regions_m.
Proof.
  unfold recognize_regions. rewrite corners_THM. unfold regions_m. apply map_res_map. intros [i j] Hin.
  destruct (firsts_in (i, j) Hin) as (Hi & Hj & Hf). cbn [fst snd] in *. unfold corner_of. cbn [fst snd].
  unfold is_first in Hf. cbn [fst snd] in Hf. destruct (reg i j) as [[[r0 c0] r1] c1] eqn:E.
  apply andb_true_iff in Hf. destruct Hf as [F1 F2]. apply Nat.eqb_eq in F1, F2. subst r0 c0.
  now apply (region_walk i j i j r1 c1).
Qed.

(* ------------------------------------------------------------------ the number of the region of a grid cell *)
Lemma contains_cell_m a b i j : a < nr -> b < nc -> i < nr -> j < nc ->
  contains (mrect d (reg a b)) (mrect d (i, j, S i, S j)) = rect_eqb (reg a b) (reg i j).
Proof.
  intros Ha Hb Hi Hj. facts. destruct (reg a b) as [[[r0 c0] r1] c1] eqn:E.
  pose proof (tile d Hwf a b r0 c0 r1 c1 Ha Hb E) as (T1 & T2 & T3 & T4 & T5 & T6 & T7).
  unfold contains, mrect.
  destruct (rect_eqb_spec (r0, c0, r1, c1) (reg i j)) as [Q|Q].
  - symmetry in Q. pose proof (member d Hwf a b i j r0 c0 r1 c1 Ha Hb Hi Hj E Q) as (M1 & M2 & M3 & M4).
    pose proof (X_le ws c0 j ltac:(lia) ltac:(lia)). pose proof (X_le hs r0 i ltac:(lia) ltac:(lia)).
    pose proof (X_le ws (S j) c1 ltac:(lia) ltac:(lia)). pose proof (X_le hs (S i) r1 ltac:(lia) ltac:(lia)).
    apply andb_true_iff; split; [apply andb_true_iff; split; [apply andb_true_iff; split|]|]; apply Nat.leb_le; lia.
  - destruct (_ && _ && _ && _) eqn:C; [exfalso|reflexivity].
    rewrite !andb_true_iff, !Nat.leb_le in C. destruct C as (((C1 & C2) & C3) & C4). apply Q. symmetry. apply T7.
    + apply (X_le_inv' hs); lia.
    + assert (S i <= r1) by (apply (X_le_inv' hs); lia). lia.
    + apply (X_le_inv' ws); lia.
    + assert (S j <= c1) by (apply (X_le_inv' ws); lia). lia.
Qed.

Lemma first_cell_listed i j r0 c0 r1 c1 : i < nr -> j < nc -> reg i j = (r0, c0, r1, c1) -> In (r0, c0) (firsts d).
Proof.
  intros Hi Hj E. pose proof (tile d Hwf i j r0 c0 r1 c1 Hi Hj E) as (T1 & T2 & T3 & T4 & T5 & T6 & T7).
  unfold firsts. apply filter_In. split.
  - unfold cells_rm. apply in_flat_map. exists r0. split; [apply in_seq; lia|]. apply in_map. apply in_seq. lia.
  - unfold is_first. cbn [fst snd]. rewrite (T7 r0 c0) by lia. now rewrite !Nat.eqb_refl.
Qed.

Lemma region_number_m i j : i < nr -> j < nc ->
  find_region regions_m (mrect d (i, j, S i, S j)) 0 = Some (rnum d i j, mrect d (reg i j)).
Proof.
  intros Hi Hj. destruct (reg i j) as [[[r0 c0] r1] c1] eqn:E.
  destruct (find_region_index (fun ij => mrect d (reg (fst ij) (snd ij))) (fun ab => rect_eqb (reg (fst ab) (snd ab)) (reg i j))
              (mrect d (i, j, S i, S j)) (firsts d) 0) as (a & H1 & H2 & H3).
  - intros [a b] Hin. destruct (firsts_in (a, b) Hin) as (Ha & Hb & _). cbn [fst snd] in *. now apply contains_cell_m.
  - exists (r0, c0). split; [now apply (first_cell_listed i j r0 c0 r1 c1)|]. cbn [fst snd].
    pose proof (tile d Hwf i j r0 c0 r1 c1 Hi Hj E) as (T1 & T2 & T3 & T4 & T5 & T6 & T7). rewrite (T7 r0 c0) by lia. rewrite E. apply rect_eqb_refl.
  - unfold regions_m. rewrite E in *. rewrite H3. cbn [Nat.add]. unfold rnum. rewrite E. apply rect_eqb_eq in H2. now rewrite H2.
Qed.


(* ------------------------------------------------------------------ the top-left corners of GRID: every grid cell *)
Lemma GM_length : length (GM d) = S (MH d).
Proof. unfold GM, TL. now rewrite tab_length. Qed.
Lemma GM_row_length y : y < S (MH d) -> length (nth y (GM d) []) = MW d.
Proof. intro Hy. unfold GM, TL. change (LH hs) with (MH d) in *. rewrite tab_row_nth by assumption. now rewrite map_length, seq_length. Qed.
Lemma corner_GM y x : y < S (MH d) -> x < MW d -> is_tl_corner (GM d) y x = mem (thc hs ws TT TT y x) corners_tl.
Proof. intros Hy Hx. unfold is_tl_corner, GM, TL. change (LH hs) with (MH d) in *. now rewrite get_tab by assumption. Qed.

Lemma corner_grid_at i j : i < nr -> j <= nc -> is_tl_corner (GM d) (X hs i) (X ws j) = (j <? nc).
Proof.
  intros Hi Hj. facts. pose proof (Xh_lt' d Hwf i ltac:(lia)) as Ly. pose proof (Xv_lt d Hwf j Hj) as Lx.
  rewrite corner_GM by lia. rewrite thc_in by assumption. rewrite thl_jj by lia. unfold J. rewrite corner_tl.
  unfold aD, aR. change (length hs) with nr. change (length ws) with nc. tr_ltb i nr. now rewrite !andb_true_r.
Qed.
Lemma grid_no_corner y x : y < S (MH d) -> x < MW d -> (forall i, i < nr -> y <> X hs i) -> is_tl_corner (GM d) y x = false.
Proof.
  intros Hy Hx Hne. facts. rewrite corner_GM by lia.
  destruct (Nat.eq_dec y (MH d)) as [->|Hm]; [change (MH d) with (LH hs); now rewrite thc_last|].
  rewrite thc_in by (change (LH hs) with (MH d); lia).
  destruct (y_cases' hs y ltac:(change (LH hs) with (MH d); lia)) as [(i & Hi & ->)|(i & p & Hi & Hp & ->)].
  - assert (i = nr) as -> by (destruct (Nat.eq_dec i nr); [assumption|exfalso; apply (Hne i); [lia|reflexivity]]).
    destruct (x_cases ws x Hx) as [(j & Hj & ->)|(j & o & Hj & Ho & ->)].
    + rewrite thl_jj by lia. unfold J. rewrite corner_tl. unfold aD. change (length hs) with nr. now rewrite Nat.ltb_irrefl.
    + now rewrite thl_jh by lia.
  - destruct (x_cases ws x Hx) as [(j & Hj & ->)|(j & o & Hj & Ho & ->)].
    + now rewrite thl_vj by lia.
    + now rewrite thl_tt by lia.
Qed.
Lemma grid_corner_in_col i j o : i < nr -> j < nc -> o < nth j ws 0 -> is_tl_corner (GM d) (X hs i) (X ws j + 1 + o) = false.
Proof.
  intros Hi Hj Ho. facts. pose proof (Xh_lt' d Hwf i ltac:(lia)) as Ly.
  pose proof (X_in_lt ws j o ltac:(lia) Ho) as Lx. pose proof (Xv_lt d Hwf (S j) ltac:(lia)) as Lx2.
  rewrite corner_GM by lia. rewrite thc_in by assumption. now rewrite thl_jh by lia.
Qed.

Lemma grid_corners_row i : i < nr -> filter (is_tl_corner (GM d) (X hs i)) (seq 0 (MW d)) = map (X ws) (seq 0 nc).
Proof.
  intro Hi. facts. rewrite PW, seq_S, filter_app. cbn [Nat.add filter].
  rewrite (corner_grid_at i nc Hi (le_n _)), Nat.ltb_irrefl. rewrite app_nil_r.
  apply filter_seq_X; [lia| |].
  - intros j Hj. rewrite corner_grid_at by lia. now tr_ltb j nc.
  - intros j o Hj Ho. apply grid_corner_in_col; lia.
Qed.

(* ------------------------------------------------------------------ the walk of Canvas::plane along one line of grid cells *)
Local Notation cv := (merged_canvas d).

Definition cell_step_m (i : nat) (st : row_state) (j : nat) : row_state :=
  let '(cells, col, cc, ch) := st in
  (rev (mlead d j ++ [mcell d i j]) ++ cells,
   col + length (mlead d j) + 1,
   (if j =? v1 then Some col else cc),
   match md_v2 d with Some k => if j =? k then Some col else ch | None => ch end).

Lemma plane_cell_m i j st : i < nr -> j < nc ->
  plane_cell cv regions_m (X hs i) st (X ws j) = Ok (cell_step_m i st j).
Proof.
  intros Hi Hj. facts. destruct st as (((cells & col) & cc) & ch).
  unfold plane_cell. cbn [merged_canvas cv_grid cv_cross cv_horz cv_text fst snd].
  rewrite corner_grid_at by lia. tr_ltb j nc.
  rewrite (X_eqb' ws j v1) by lia.
  assert (forall (cells1 : list ccell) (col1 : nat) (cc1 ch1 : option nat),
            (rect <- recognize_rectangle (GM d) (X ws j, X hs i) ;;
             match find_region regions_m rect 0 with
             | Some (i0, region) => t <- text_from_rect (TM d) region ;; Ok (CRegion i0 region t :: cells1, S col1, cc1, ch1)
             | None => Err
             end) = Ok (mcell d i j :: cells1, S col1, cc1, ch1)) as Fin.
  { intros. rewrite (rectangle_walk i j Hi Hj). cbn [bind]. rewrite (region_number_m i j Hi Hj).
    unfold mcell, mtext. destruct (reg i j) as [[[r0 c0] r1] c1] eqn:E. rewrite (text_walk i j r0 c0 r1 c1 Hi Hj E). reflexivity. }
  unfold cell_step_m, mlead.
  destruct (j =? v1) eqn:E1.
  - apply Nat.eqb_eq in E1. destruct (md_v2 d) as [k|] eqn:E2; cbn [option_map].
    + destruct (v2_bounds' d Hwf k E2) as [K1 K2]. cbn [fst]. rewrite (X_eqb' ws j k) by lia. fa_eqb j k.
      rewrite Fin. cbn [app rev length]. repeat (f_equal; try lia).
    + rewrite Fin. cbn [app rev length]. repeat (f_equal; try lia).
  - destruct (md_v2 d) as [k|] eqn:E2; cbn [option_map].
    + destruct (v2_bounds' d Hwf k E2) as [K1 K2]. cbn [fst]. rewrite (X_eqb' ws j k) by lia. destruct (j =? k) eqn:E3.
      * rewrite Fin. cbn [app rev length]. repeat (f_equal; try lia).
      * rewrite Fin. cbn [app rev length]. repeat (f_equal; try lia).
    + rewrite Fin. cbn [app rev length]. repeat (f_equal; try lia).
Qed.

Definition mprow (i n : nat) : list ccell := flat_map (fun j => mlead d j ++ [mcell d i j]) (seq 0 n).
Definition mcnt (n : nat) : nat :=
  n + (if v1 <? n then 1 else 0) + match md_v2 d with Some k => if k <? n then 1 else 0 | None => 0 end.

Lemma mprow_S i n : mprow i (S n) = mprow i n ++ mlead d n ++ [mcell d i n].
Proof. unfold mprow. rewrite seq_S, flat_map_app. cbn [Nat.add flat_map]. now rewrite app_nil_r. Qed.

Lemma mprow_length i n : length (mprow i n) = mcnt n.
Proof.
  induction n as [|n IH]; [unfold mcnt; cbn; now destruct (md_v2 d)|].
  rewrite mprow_S, !app_length, IH. unfold mlead, mcnt. cbn [length].
  destruct (Nat.ltb_spec v1 n), (Nat.ltb_spec v1 (S n)), (Nat.eqb_spec n v1); try lia;
    (destruct (md_v2 d) as [k|]; [destruct (Nat.ltb_spec k n), (Nat.ltb_spec k (S n)), (Nat.eqb_spec n k); try lia|]); cbn [length app]; lia.
Qed.

Definition chv_m (ch0 : option nat) : option nat := match md_v2 d with Some k => Some (S k) | None => ch0 end.

Lemma cells_fold_m i cc0 ch0 n : n <= nc ->
  fold_left (cell_step_m i) (seq 0 n) ([], 0, cc0, ch0) =
  (rev (mprow i n), mcnt n, (if v1 <? n then Some v1 else cc0),
   match md_v2 d with Some k => if k <? n then Some (S k) else ch0 | None => ch0 end).
Proof.
  intro Hn. facts. induction n as [|n IH].
  - cbn [seq fold_left mprow flat_map rev]. unfold mcnt. cbn [Nat.ltb Nat.leb Nat.add]. destruct (md_v2 d); reflexivity.
  - rewrite seq_S, fold_left_app, IH by lia. cbn [Nat.add fold_left cell_step_m].
    f_equal; [f_equal; [f_equal|]|].
    + rewrite mprow_S. now rewrite (rev_app_distr (mprow i n)).
    + rewrite <- !(mprow_length i), mprow_S, !app_length. cbn [length]. lia.
    + destruct (Nat.eqb_spec n v1) as [->|Hne].
      * tr_ltb v1 (S v1). unfold mcnt.
        rewrite Nat.ltb_irrefl. destruct (md_v2 d) as [k|] eqn:E2; [|f_equal; lia].
        destruct (v2_bounds' d Hwf k E2) as [K1 K2]. fa_ltb k v1. f_equal. lia.
      * destruct (Nat.ltb_spec v1 n), (Nat.ltb_spec v1 (S n)); try lia; reflexivity.
    + destruct (md_v2 d) as [k|] eqn:E2; [|reflexivity]. destruct (v2_bounds' d Hwf k E2) as [K1 K2].
      destruct (Nat.eqb_spec n k) as [->|Hne].
      * tr_ltb k (S k). unfold mcnt. rewrite E2, Nat.ltb_irrefl. tr_ltb v1 k. f_equal. lia.
      * destruct (Nat.ltb_spec k n), (Nat.ltb_spec k (S n)); try lia; reflexivity.
Qed.

Lemma mcnt_nc : mcnt nc = mwidth d.
Proof.
  facts. unfold mcnt, mwidth. tr_ltb v1 nc.
  destruct (md_v2 d) as [k|] eqn:E2; [|lia]. destruct (v2_bounds' d Hwf k E2) as [K1 K2]. tr_ltb k nc. lia.
Qed.
Lemma mrow_length i : length (mrow d i) = mwidth d.
Proof. change (mrow d i) with (mprow i nc). rewrite mprow_length. apply mcnt_nc. Qed.

Lemma line_fold_m i cc0 ch0 : i < nr ->
  fold_res (plane_cell cv regions_m (X hs i)) (seq 0 (length (nth (X hs i) (cv_grid cv) []))) ([], 0, cc0, ch0)
  = Ok (rev (mrow d i), mwidth d, Some v1, chv_m ch0).
Proof.
  intro Hi. facts. pose proof (Xh_lt' d Hwf i ltac:(lia)) as Ly. cbn [merged_canvas cv_grid]. rewrite GM_row_length by lia.
  rewrite (fold_res_filter _ (is_tl_corner (GM d) (X hs i))).
  2:{ intros a x _ E. unfold plane_cell. cbn [merged_canvas cv_grid]. now rewrite E. }
  rewrite grid_corners_row by assumption. rewrite fold_res_map.
  rewrite (fold_res_ok _ (cell_step_m i)).
  2:{ intros a j Hj. apply in_seq in Hj. apply plane_cell_m; lia. }
  rewrite cells_fold_m by lia. rewrite mcnt_nc. change (mprow i nc) with (mrow d i). unfold chv_m.
  tr_ltb v1 nc. destruct (md_v2 d) as [k|] eqn:E2; [|reflexivity]. destruct (v2_bounds' d Hwf k E2) as [K1 K2]. now tr_ltb k nc.
Qed.

Lemma line_fold_none_m y st : y < S (MH d) -> (forall i, i < nr -> y <> X hs i) ->
  fold_res (plane_cell cv regions_m y) (seq 0 (length (nth y (cv_grid cv) []))) st = Ok st.
Proof.
  intros Hy Hne. cbn [merged_canvas cv_grid]. rewrite GM_row_length by lia.
  apply fold_res_id. intros a x Hx. apply in_seq in Hx. unfold plane_cell. cbn [merged_canvas cv_grid].
  now rewrite grid_no_corner by (try assumption; lia).
Qed.


(* ------------------------------------------------------------------ the walk over the lines *)
Definition cross_of_m (width : nat) (cc ch : option nat) : list ccell :=
  map (fun i => if opt_is cc i then CMain else if opt_is ch i then CHCross else CHOut) (seq 0 width).
Definition vcross_of_m (width : nat) (cc : option nat) : list ccell :=
  map (fun i => if opt_is cc i then CVCross else CHAnn) (seq 0 width).

Definition pre_rows (i width : nat) (cc ch : option nat) : list (list ccell) :=
  (match md_h2 d with Some k => if i =? k then [vcross_of_m width cc] else [] | None => [] end) ++
  (if i =? h1 then [cross_of_m width cc ch] else []).

Lemma plane_line_cells_m i rows width cc ch : i < nr ->
  plane_line cv regions_m (rows, width, cc, ch) (X hs i) =
  Ok (mrow d i :: pre_rows i width cc ch ++ rows, mwidth d, Some v1, chv_m ch).
Proof.
  intro Hi. facts. unfold plane_line. rewrite line_fold_m by assumption. cbn [bind].
  cbn [merged_canvas cv_cross cv_vert snd]. rewrite (X_eqb' hs i h1) by lia.
  pose proof (mrow_length i) as L. rewrite <- rev_length in L.
  destruct (rev (mrow d i)) as [|c cs] eqn:E.
  - exfalso. cbn [length] in L. unfold mwidth in L. lia.
  - rewrite L. rewrite <- E, rev_involutive. unfold pre_rows, cross_of_m, vcross_of_m.
    destruct (md_h2 d) as [k|] eqn:E2; cbn [option_map].
    + destruct (h2_bounds' d Hwf k E2) as [K1 K2]. cbn [snd]. rewrite (X_eqb' hs i k) by lia.
      destruct (i =? k), (i =? h1); reflexivity.
    + destruct (i =? h1); reflexivity.
Qed.

Lemma plane_line_other_m y st : y < S (MH d) -> (forall i, i < nr -> y <> X hs i) ->
  plane_line cv regions_m st y = Ok st.
Proof.
  intros Hy Hne. facts. destruct st as (((rows & width) & cc) & ch). unfold plane_line.
  rewrite line_fold_none_m by assumption. cbn [bind]. cbn [merged_canvas cv_cross cv_vert snd].
  assert (y <> X hs h1) by (apply Hne; lia). fa_eqb y (X hs h1).
  destruct (md_h2 d) as [k|] eqn:E2; cbn [option_map]; [|reflexivity].
  destruct (h2_bounds' d Hwf k E2) as [K1 K2]. cbn [snd]. assert (y <> X hs k) by (apply Hne; lia). now fa_eqb y (X hs k).
Qed.

Definition plane_rows (n : nat) : list (list ccell) :=
  flat_map (fun i => (if i =? h1 then [mcross d] else []) ++
                     (match md_h2 d with Some k => if i =? k then [mvcross d] else [] | None => [] end) ++ [mrow d i]) (seq 0 n).

Lemma chv_m_idem c : chv_m (chv_m c) = chv_m c.
Proof. unfold chv_m. now destruct (md_v2 d). Qed.

Lemma cross_of_mcross : cross_of_m (mwidth d) (Some v1) (chv_m None) = mcross d.
Proof.
  unfold cross_of_m, mcross, chv_m. apply map_ext. intro c. unfold opt_is. rewrite (Nat.eqb_sym v1 c).
  destruct (c =? v1); [reflexivity|]. destruct (md_v2 d) as [k|]; [|reflexivity]. now rewrite (Nat.eqb_sym (S k) c).
Qed.
Lemma vcross_of_mvcross : vcross_of_m (mwidth d) (Some v1) = mvcross d.
Proof. unfold vcross_of_m, mvcross. apply map_ext. intro c. unfold opt_is. now rewrite (Nat.eqb_sym v1 c). Qed.

Lemma lines_m n : n < nr ->
  fold_res (fun st i => plane_line cv regions_m st (X hs i)) (seq 0 (S n)) ([], 0, None, None) =
  Ok (rev (plane_rows (S n)), mwidth d, Some v1, chv_m None).
Proof.
  facts. induction n as [|n IH]; intro Hn.
  - cbn [seq fold_res]. rewrite plane_line_cells_m by lia. cbn [bind]. unfold pre_rows, plane_rows. cbn [seq flat_map].
    fa_eqb 0 h1. destruct (md_h2 d) as [k|] eqn:E2; [destruct (h2_bounds' d Hwf k E2); fa_eqb 0 k|]; reflexivity.
  - rewrite seq_S, fold_res_app, IH by lia. cbn [bind Nat.add fold_res]. rewrite plane_line_cells_m by lia. cbn [bind].
    rewrite chv_m_idem. f_equal. f_equal. f_equal. f_equal.
    unfold plane_rows at 2. rewrite (seq_S (S n)), flat_map_app. fold (plane_rows (S n)). cbn [Nat.add flat_map]. rewrite app_nil_r.
    rewrite rev_app_distr. f_equal. unfold pre_rows. rewrite cross_of_mcross, vcross_of_mvcross.
    destruct (md_h2 d) as [k|]; destruct (S n =? h1); try destruct (S n =? k); reflexivity.
Qed.

Lemma mplane_rows : mplane d = plane_rows nr.
Proof. reflexivity. Qed.

Lemma in_plane_rows r n : In r (plane_rows n) -> length r = mwidth d.
Proof.
  intro Hin. unfold plane_rows in Hin. apply in_flat_map in Hin. destruct Hin as (i & _ & Hin).
  apply in_app_or in Hin. destruct Hin as [Hin|Hin].
  - destruct (i =? h1); [|destruct Hin]. destruct Hin as [<-|[]]. unfold mcross. now rewrite map_length, seq_length.
  - apply in_app_or in Hin. destruct Hin as [Hin|[<-|[]]]; [|apply mrow_length].
    destruct (md_h2 d) as [k|]; [|destruct Hin]. destruct (i =? k); [|destruct Hin]. destruct Hin as [<-|[]].
    unfold mvcross. now rewrite map_length, seq_length.
Qed.

Lemma finalize_mplane : finalize (mplane d) = Ok (mplane d).
Proof.
  facts. rewrite mplane_rows. unfold finalize.
  assert (In (mrow d 0) (plane_rows nr)) as H0.
  { unfold plane_rows. apply in_flat_map. exists 0. split; [apply in_seq; lia|]. apply in_or_app. right. apply in_or_app. right. now left. }
  destruct (plane_rows nr) as [|r rest] eqn:E; [destruct H0|].
  rewrite (in_plane_rows r nr) by (rewrite E; now left).
  assert (mwidth d =? 0 = false) as -> by (apply Nat.eqb_neq; unfold mwidth; lia). cbn [orb].
  rewrite existsb_false; [reflexivity|]. intros r' Hr'. rewrite (in_plane_rows r' nr) by (rewrite E; assumption). now rewrite Nat.eqb_refl.
Qed.

Theorem plane_merged : plane_of cv = Ok (mplane d).
Proof.
  facts. unfold plane_of. cbn [merged_canvas cv_thin]. rewrite regions_merged. cbn [bind].
  change (cv_grid cv) with (GM d). rewrite GM_length.
  replace (S (MH d)) with (X hs nr + 2) by lia. rewrite seq_app, fold_res_app. cbn [Nat.add seq].
  rewrite (fold_res_seq_X (plane_line cv regions_m)).
  2:{ lia. }
  2:{ intros a i p Hi Hp. pose proof (X_in_lt hs i p ltac:(lia) Hp). pose proof (Xh_lt' d Hwf (S i) ltac:(lia)).
      apply plane_line_other_m; [lia|]. intros i' Hi'. apply X_in_neq; lia. }
  replace nr with (S (nr - 1)) at 1 by lia. rewrite lines_m by lia. cbn [bind fold_res].
  replace (S (nr - 1)) with nr by lia.
  rewrite plane_line_other_m.
  2:{ lia. }
  2:{ intros i Hi E. apply X_inj in E; lia. }
  cbn [bind]. rewrite plane_line_other_m.
  2:{ lia. }
  2:{ intros i Hi E. pose proof (X_le hs i nr ltac:(lia) ltac:(lia)). lia. }
  cbn [bind]. rewrite rev_involutive. rewrite <- mplane_rows. apply finalize_mplane.
Qed.

(* ------------------------------------------------------------------ the headline: text -> plane *)
Theorem cplane_merged : canvas_cplane (drawm d) = Ok (None, mplane d).
Proof.
  unfold canvas_cplane, scan. rewrite (scan_layers_merged d Hwf). rewrite (scan_merged d Hwf). cbn [bind].
  rewrite plane_merged. reflexivity.
Qed.

End Plane.

Theorem draw_roundtrip_merged code d : wf_mdraw d = true ->
  canvas_cplane (drawm d) = Ok (None, mplane d) /\
  canvas_to_plane code (drawm d) = Some (map (map (abs_cell code)) (mplane d)).
Proof. intro Hwf. split; [now apply cplane_merged|]. unfold canvas_to_plane. now rewrite cplane_merged. Qed.
