(* C17 — proofs about C17/Model.v *)
From Coq Require Import List NArith Bool Lia Permutation.
From DV Require Import C17.Model.
Import ListNotations.
Open Scope N_scope.

Definition same_set (a b : list N) : Prop := forall x, In x a <-> In x b.

(* the three lookups describe the stored list; namespaces and names are pairwise distinct *)
Definition Inv (s : ws) : Prop :=
  same_set (by_ns s) (map ns (defs s)) /\ same_set (by_nm s) (map nm (defs s)) /\
  NoDup (map ns (defs s)) /\ NoDup (map nm (defs s)) /\
  (forall k d, lookup k (evs s) = Some d -> exists x, In x (defs s) /\ builds x = true /\ nm x = k /\ doc x = d).

Lemma mem_In x l : mem x l = true <-> In x l.
Proof. unfold mem. rewrite existsb_exists. split.
  - intros [y [Hy He]]. apply N.eqb_eq in He. subst. exact Hy.
  - intros H. exists x. split; [exact H | apply N.eqb_refl]. Qed.

Lemma mem_false x l : mem x l = false <-> ~ In x l.
Proof. rewrite <- mem_In. destruct (mem x l); split; intros H.
  - discriminate. - exfalso; apply H; reflexivity. - intro; discriminate. - reflexivity. Qed.

Lemma In_del x y l : In x (del y l) <-> In x l /\ x <> y.
Proof. unfold del. rewrite filter_In. rewrite negb_true_iff, N.eqb_neq. intuition congruence. Qed.

Lemma Inv_init : Inv init.
Proof. unfold Inv, init, same_set; cbn. repeat split; try tauto; try constructor. intros k d H. discriminate. Qed.

Lemma Inv_add s m : Inv s -> Inv (fst (add s m)).
Proof.
  intros (H1 & H2 & H3 & H4 & H5). unfold add.
  destruct (mem (ns m) (by_ns s)) eqn:E1; [cbn [fst]; repeat split; try apply H1; try apply H2; assumption|].
  destruct (mem (nm m) (by_nm s)) eqn:E2; [cbn [fst]; repeat split; try apply H1; try apply H2; assumption|].
  apply mem_false in E1. apply mem_false in E2.
  assert (N1 : ~ In (ns m) (map ns (defs s))) by (intro H; apply E1, H1, H).
  assert (N2 : ~ In (nm m) (map nm (defs s))) by (intro H; apply E2, H2, H).
  cbn [fst]. unfold Inv. cbn [defs by_ns by_nm evs]. rewrite !map_app. cbn [map].
  split; [|split; [|split; [|split]]].
  - intros x. cbn [In]. rewrite in_app_iff. cbn [In]. specialize (H1 x). tauto.
  - intros x. cbn [In]. rewrite in_app_iff. cbn [In]. specialize (H2 x). tauto.
  - apply Permutation_NoDup with (l := ns m :: map ns (defs s)); [apply Permutation_cons_append | constructor; assumption].
  - apply Permutation_NoDup with (l := nm m :: map nm (defs s)); [apply Permutation_cons_append | constructor; assumption].
  - intros k d Hk. discriminate.
Qed.

Lemma NoDup_map_filter {A} (f : A -> N) p l : NoDup (map f l) -> NoDup (map f (filter p l)).
Proof. induction l as [|a l IH]; cbn [map filter]; intros H; [constructor|].
  inversion H as [|x xs Hn Hd]; subst. destruct (p a); cbn [map].
  - constructor; [|apply IH; exact Hd]. intro Hin. apply Hn.
    apply in_map_iff in Hin. destruct Hin as [y [Hy Hf]]. apply filter_In in Hf. apply in_map_iff. exists y. tauto.
  - apply IH; exact Hd. Qed.

Lemma In_fold_del {A} (f : A -> N) (dropped : list A) : forall l x,
  In x (fold_left (fun l d => del (f d) l) dropped l) <-> In x l /\ ~ In x (map f dropped).
Proof. induction dropped as [|d ds IH]; intros l x; cbn [fold_left map In]; [tauto|].
  rewrite IH, In_del. intuition congruence. Qed.

(* a key of a kept definition is never the key of a dropped one when keys are unique *)
Lemma kept_not_dropped {A} (f : A -> N) (p : A -> bool) l x :
  NoDup (map f l) -> In x (map f (filter p l)) -> ~ In x (map f (filter (fun d => negb (p d)) l)).
Proof. induction l as [|a l IH]; cbn [map filter]; intros Hnd Hk Hd; [exact Hk|].
  inversion Hnd as [|y ys Hn Hnd']; subst.
  destruct (p a) eqn:E; cbn [negb map In] in *.
  - destruct Hk as [Hk|Hk]; [|exact (IH Hnd' Hk Hd)].
    subst x. apply Hn. apply in_map_iff in Hd. destruct Hd as [z [Hz Hf]]. apply filter_In in Hf.
    apply in_map_iff. exists z. tauto.
  - destruct Hd as [Hd|Hd]; [|exact (IH Hnd' Hk Hd)].
    subst x. apply Hn. apply in_map_iff in Hk. destruct Hk as [z [Hz Hf]]. apply filter_In in Hf.
    apply in_map_iff. exists z. tauto.
Qed.

Lemma map_filter_split {A} (f : A -> N) (p : A -> bool) l x :
  In x (map f l) <-> In x (map f (filter p l)) \/ In x (map f (filter (fun d => negb (p d)) l)).
Proof. rewrite !in_map_iff. split.
  - intros [d [Hf Hd]]. destruct (p d) eqn:E; [left|right]; exists d; rewrite filter_In, ?E; auto.
  - intros [[d [Hf Hd]]|[d [Hf Hd]]]; apply filter_In in Hd; exists d; tauto. Qed.

Lemma Inv_remove s n k : Inv s -> Inv (remove s n k).
Proof. intros (H1 & H2 & H3 & H4 & H5). unfold remove, Inv; cbn [defs by_ns by_nm evs].
  split; [|split; [|split; [|split]]].
  - intros x. rewrite In_fold_del. split.
    + intros [Hx Hnd]. apply H1 in Hx. apply (map_filter_split ns (retained n k)) in Hx. tauto.
    + intros Hx. split; [apply H1; apply (map_filter_split ns (retained n k)); left; exact Hx|].
      apply kept_not_dropped; assumption.
  - intros x. rewrite In_fold_del. split.
    + intros [Hx Hnd]. apply H2 in Hx. apply (map_filter_split nm (retained n k)) in Hx. tauto.
    + intros Hx. split; [apply H2; apply (map_filter_split nm (retained n k)); left; exact Hx|].
      apply kept_not_dropped; assumption.
  - apply NoDup_map_filter; assumption.
  - apply NoDup_map_filter; assumption.
  - intros x d Hx. discriminate.
Qed.

(* ---------- the evaluator map: HashMap insert replaces the entry of the same name ---------- *)
Lemma lookup_deld k j l : lookup k (deld j l) = if N.eqb k j then None else lookup k l.
Proof. induction l as [|[k' d] l IH]; cbn [deld filter fst lookup].
  - destruct (k =? j); reflexivity.
  - fold (deld j l). destruct (j =? k') eqn:E1; cbn [negb].
    + rewrite IH. destruct (k =? j) eqn:E2; [reflexivity|].
      apply N.eqb_eq in E1. subst k'. rewrite E2. reflexivity.
    + cbn [lookup]. rewrite IH. destruct (k =? k') eqn:E3; destruct (k =? j) eqn:E2; try reflexivity.
      apply N.eqb_eq in E3. apply N.eqb_eq in E2. apply N.eqb_neq in E1. congruence. Qed.

Lemma find_app {A} (p : A -> bool) l1 l2 :
  find p (l1 ++ l2) = match find p l1 with Some x => Some x | None => find p l2 end.
Proof. induction l1 as [|a l1 IH]; cbn [app find]; [reflexivity|]. destruct (p a); [reflexivity|exact IH]. Qed.

(* the document that deploy leaves under the name k: the last stored one of that name that builds *)
Definition servedp (k : N) (x : mdl) : bool := builds x && N.eqb (nm x) k.

Lemma lookup_deploy_fold (l : list mdl) : forall acc k,
  lookup k (fold_left (fun l d => if builds d then (nm d, doc d) :: deld (nm d) l else l) l acc)
  = match find (servedp k) (rev l) with Some x => Some (doc x) | None => lookup k acc end.
Proof. induction l as [|a l IH]; intros acc k; cbn [fold_left rev find]; [reflexivity|].
  rewrite IH, find_app. destruct (find (servedp k) (rev l)); [reflexivity|].
  cbn [find]. unfold servedp. destruct (builds a); cbn [andb]; [|reflexivity].
  cbn [lookup]. rewrite lookup_deld, (N.eqb_sym (nm a) k). destruct (k =? nm a); reflexivity. Qed.

Lemma nm_inj l x y : NoDup (map nm l) -> In x l -> In y l -> nm x = nm y -> x = y.
Proof. induction l as [|a l IH]; cbn [map In]; intros Hnd Hx Hy E; [contradiction|].
  inversion Hnd as [|z zs Hn Hnd']; subst.
  destruct Hx as [Hx|Hx]; destruct Hy as [Hy|Hy]; subst.
  - reflexivity.
  - exfalso. apply Hn. rewrite E. apply in_map. exact Hy.
  - exfalso. apply Hn. rewrite <- E. apply in_map. exact Hx.
  - apply IH; assumption. Qed.

Lemma ns_inj l x y : NoDup (map ns l) -> In x l -> In y l -> ns x = ns y -> x = y.
Proof. induction l as [|a l IH]; cbn [map In]; intros Hnd Hx Hy E; [contradiction|].
  inversion Hnd as [|z zs Hn Hnd']; subst.
  destruct Hx as [Hx|Hx]; destruct Hy as [Hy|Hy]; subst.
  - reflexivity.
  - exfalso. apply Hn. rewrite E. apply in_map. exact Hy.
  - exfalso. apply Hn. rewrite <- E. apply in_map. exact Hx.
  - apply IH; assumption. Qed.

Lemma find_served_iff l k d : NoDup (map nm l) ->
  match find (servedp k) (rev l) with Some x => Some (doc x) | None => None end = Some d
  <-> exists x, In x l /\ builds x = true /\ nm x = k /\ doc x = d.
Proof. intros Hnd. split.
  - destruct (find (servedp k) (rev l)) as [x|] eqn:E; [|discriminate]. intros Hd. injection Hd as Hd.
    apply find_some in E. destruct E as [Hi Hp]. apply in_rev in Hi. unfold servedp in Hp.
    apply andb_true_iff in Hp. destruct Hp as [Hb Hk]. apply N.eqb_eq in Hk. exists x. tauto.
  - intros [x (Hi & Hb & Hk & Hd)]. destruct (find (servedp k) (rev l)) as [y|] eqn:E.
    + apply find_some in E. destruct E as [Hy Hp]. apply in_rev in Hy. unfold servedp in Hp.
      apply andb_true_iff in Hp. destruct Hp as [_ Hk']. apply N.eqb_eq in Hk'.
      assert (y = x) by (apply (nm_inj l); congruence). subst y. congruence.
    + exfalso. apply in_rev in Hi. pose proof (find_none _ _ E x Hi) as Hf.
      unfold servedp in Hf. rewrite Hb in Hf. apply N.eqb_eq in Hk. rewrite Hk in Hf. discriminate. Qed.

(* after deploy the name k is served by the document d iff a stored model of that name and document builds *)
Lemma deploy_serves s k d : NoDup (map nm (defs s)) ->
  lookup k (evs (deploy s)) = Some d <-> exists x, In x (defs s) /\ builds x = true /\ nm x = k /\ doc x = d.
Proof. intros Hnd. cbn [deploy evs]. rewrite lookup_deploy_fold. cbn [lookup].
  apply find_served_iff. exact Hnd. Qed.

Lemma Inv_deploy s : Inv s -> Inv (deploy s).
Proof. intros (H1 & H2 & H3 & H4 & H5). unfold Inv. change (defs (deploy s)) with (defs s).
  change (by_ns (deploy s)) with (by_ns s). change (by_nm (deploy s)) with (by_nm s).
  repeat split; try apply H1; try apply H2; try assumption.
  intros k d Hx. apply (deploy_serves s k d H4). exact Hx. Qed.

Lemma Inv_step s o : Inv s -> Inv (fst (step remove s o)).
Proof. intros Hs. destruct o as [m|n k|m| | |k]; cbn [step].
  - pose proof (Inv_add s m Hs) as H. destruct (add s m); exact H.
  - apply Inv_remove; exact Hs.
  - pose proof (Inv_add _ m (Inv_remove s (ns m) (nm m) Hs)) as H. destruct (add _ m); exact H.
  - apply Inv_init.
  - apply Inv_deploy; exact Hs.
  - exact Hs. Qed.

Lemma Inv_run ops : forall s, Inv s -> Inv (fst (run remove s ops)).
Proof. induction ops as [|o ops IH]; intros s Hs; cbn [run fst]; [exact Hs|].
  pose proof (Inv_step s o Hs) as H1. destruct (step remove s o) as [s1 x]. cbn [fst] in H1.
  specialize (IH s1 H1). destruct (run remove s1 ops) as [s2 xs]. exact IH. Qed.

Theorem reachable_inv ops : Inv (fst (run remove init ops)).
Proof. apply Inv_run, Inv_init. Qed.

(* ---------- refinement of the abstract workspace ---------- *)
Definition R (s : ws) (a : aws) : Prop :=
  defs s = adefs a /\ (forall k, lookup k (evs s) = lookup k (aevs a)) /\ Inv s.

Lemma existsb_clash l m :
  existsb (clash m) l = mem (ns m) (map ns l) || mem (nm m) (map nm l).
Proof. induction l as [|d l IH]; cbn [existsb map mem]; [reflexivity|].
  unfold mem in IH. rewrite IH. unfold clash.
  rewrite (N.eqb_sym (ns m) (ns d)), (N.eqb_sym (nm m) (nm d)).
  destruct (ns d =? ns m), (nm d =? nm m), (existsb (N.eqb (ns m)) (map ns l)), (existsb (N.eqb (nm m)) (map nm l)); reflexivity. Qed.

Lemma mem_same_set x a b : same_set a b -> mem x a = mem x b.
Proof. intros H. destruct (mem x b) eqn:E.
  - apply mem_In. apply H. apply mem_In. exact E.
  - apply mem_false. intro Hx. apply mem_false in E. apply E, H, Hx. Qed.

Lemma R_add s a m : R s a ->
  R (fst (add s m)) (fst (a_add a m)) /\ snd (add s m) = snd (a_add a m).
Proof. intros (Hd & He & Hi). pose proof (Inv_add s m Hi) as Hi'.
  pose proof Hi as (H1 & H2 & _). unfold add, a_add, can_add in *. rewrite existsb_clash, <- Hd.
  rewrite <- (mem_same_set (ns m) _ _ H1), <- (mem_same_set (nm m) _ _ H2).
  destruct (mem (ns m) (by_ns s)); cbn [orb negb fst snd] in *; [split; [exact (conj Hd (conj He Hi)) | reflexivity]|].
  destruct (mem (nm m) (by_nm s)); cbn [orb negb fst snd] in *; [split; [exact (conj Hd (conj He Hi)) | reflexivity]|].
  split; [|reflexivity]. split; [|split]; cbn [defs adefs evs aevs]; [congruence | reflexivity | exact Hi']. Qed.

Lemma option_ext (a b : option N) : (forall d, a = Some d <-> b = Some d) -> a = b.
Proof. intros H. destruct a as [x|], b as [y|]; try reflexivity.
  - destruct (H x) as [H1 _]. specialize (H1 eq_refl). congruence.
  - destruct (H x) as [H1 _]. specialize (H1 eq_refl). discriminate.
  - destruct (H y) as [_ H2]. specialize (H2 eq_refl). discriminate. Qed.

(* the evaluator list of the list-shaped abstract workspace *)
Lemma lookup_map_iff l k d : NoDup (map nm l) ->
  lookup k (map (fun x => (nm x, doc x)) (filter builds l)) = Some d
  <-> exists x, In x l /\ builds x = true /\ nm x = k /\ doc x = d.
Proof. induction l as [|a l IH]; cbn [map filter]; intros Hnd.
  - cbn [lookup]. split; [discriminate|]. intros [x [[] _]].
  - inversion Hnd as [|z zs Hn Hnd']; subst. specialize (IH Hnd'). destruct (builds a) eqn:B.
    + cbn [map lookup]. destruct (k =? nm a) eqn:E.
      * apply N.eqb_eq in E. split.
        -- intros Hd. injection Hd as Hd. exists a. cbn [In]. auto.
        -- intros [x ([Hx|Hx] & Hb & Hk & Hd)]; [subst x; congruence|].
           exfalso. apply Hn. rewrite <- E, <- Hk. apply in_map. exact Hx.
      * apply N.eqb_neq in E. rewrite IH. split.
        -- intros [x (Hx & Hr)]. exists x. cbn [In]. tauto.
        -- intros [x ([Hx|Hx] & Hb & Hk & Hd)]; [subst x; congruence|]. exists x. tauto.
    + rewrite IH. split.
      * intros [x (Hx & Hr)]. exists x. cbn [In]. tauto.
      * intros [x ([Hx|Hx] & Hb & Hk & Hd)]; [subst x; congruence|]. exists x. tauto. Qed.

Lemma R_remove s a n k : R s a -> R (remove s n k) (a_remove a n k).
Proof. intros (Hd & He & Hi). split; [|split]; [|reflexivity|apply (Inv_remove s n k Hi)].
  cbn [remove defs a_remove adefs]. congruence. Qed.

Lemma R_step s a o : R s a ->
  R (fst (step remove s o)) (fst (astep a o)) /\ snd (step remove s o) = snd (astep a o).
Proof. intros HR. destruct o as [m|n k|m| | |k]; cbn [step astep].
  - destruct (R_add s a m HR) as [H1 H2]. destruct (add s m), (a_add a m). cbn [fst snd] in *. split; congruence.
  - split; [apply R_remove; exact HR | reflexivity].
  - destruct (R_add _ _ m (R_remove s a (ns m) (nm m) HR)) as [H1 H2].
    destruct (add _ m), (a_add _ m). cbn [fst snd] in *. split; congruence.
  - split; [|reflexivity]. cbn [fst]. split; [|split]; [reflexivity|reflexivity|apply Inv_init].
  - split; [|reflexivity]. cbn [fst]. destruct HR as (Hd & He & Hi). split; [|split]; [| |apply (Inv_deploy s Hi)].
    + exact Hd.
    + intros k. cbn [aevs]. rewrite <- Hd. apply option_ext. intros d. destruct Hi as (_ & _ & _ & H4 & _).
      rewrite (deploy_serves s k d H4). symmetry. apply lookup_map_iff. exact H4.
  - cbn [fst snd]. split; [exact HR|]. destruct HR as (_ & He & _). rewrite He. reflexivity. Qed.

Lemma R_run ops : forall s a, R s a ->
  R (fst (run remove s ops)) (fst (arun a ops)) /\ snd (run remove s ops) = snd (arun a ops).
Proof. induction ops as [|o ops IH]; intros s a HR; cbn [run arun fst snd]; [split; [exact HR|reflexivity]|].
  destruct (R_step s a o HR) as [H1 H2].
  destruct (step remove s o) as [s1 x], (astep a o) as [a1 y]. cbn [fst snd] in *. subst y.
  destruct (IH s1 a1 H1) as [H3 H4].
  destruct (run remove s1 ops) as [s2 xs], (arun a1 ops) as [a2 ys]. cbn [fst snd] in *. split; congruence. Qed.

Theorem refines_abstract ops :
  defs (fst (run remove init ops)) = adefs (fst (arun ainit ops)) /\
  (forall k, lookup k (evs (fst (run remove init ops))) = lookup k (aevs (fst (arun ainit ops)))) /\
  snd (run remove init ops) = snd (arun ainit ops).
Proof. assert (H0 : R init ainit) by (split; [|split]; [reflexivity|reflexivity|apply Inv_init]).
  destruct (R_run ops init ainit H0) as [(H1 & H2 & _) H3]. repeat split; assumption. Qed.

(* add succeeds iff no stored model has its namespace or its name — on every reachable state *)
Theorem add_iff_free ops m : let s := fst (run remove init ops) in
  snd (add s m) = true <-> (forall d, In d (defs s) -> ns d <> ns m /\ nm d <> nm m).
Proof. cbn zeta. pose proof (reachable_inv ops) as (H1 & H2 & _).
  set (s := fst (run remove init ops)) in *. unfold add.
  destruct (mem (ns m) (by_ns s)) eqn:E1; cbn [snd].
  - split; [discriminate|]. intros H. apply mem_In, H1, in_map_iff in E1. destruct E1 as [d [He Hd]].
    destruct (H d Hd); congruence.
  - destruct (mem (nm m) (by_nm s)) eqn:E2; cbn [snd].
    + split; [discriminate|]. intros H. apply mem_In, H2, in_map_iff in E2. destruct E2 as [d [He Hd]].
      destruct (H d Hd); congruence.
    + split; [|reflexivity]. intros _ d Hd. apply mem_false in E1. apply mem_false in E2. split; intro He.
      * apply E1, H1, in_map_iff. exists d; tauto.
      * apply E2, H2, in_map_iff. exists d; tauto. Qed.

(* evaluation is possible exactly for the building models present at the last deploy, provided
   only evaluations happened since; any mutation un-deploys everything *)
Definition is_eval (o : op) : bool := match o with Eval _ => true | _ => false end.

Lemma arun_app ops1 : forall a ops2, fst (arun a (ops1 ++ ops2)) = fst (arun (fst (arun a ops1)) ops2).
Proof. induction ops1 as [|o r IH]; intros a ops2; cbn [app arun fst]; [reflexivity|].
  destruct (astep a o) as [a1 x]. specialize (IH a1 ops2).
  destruct (arun a1 (r ++ ops2)), (arun a1 r). cbn [fst] in *. exact IH. Qed.

Lemma arun_evals post : forallb is_eval post = true -> forall a, fst (arun a post) = a.
Proof. induction post as [|o r IH]; cbn [forallb arun fst]; intros H a; [reflexivity|].
  apply andb_true_iff in H. destruct H as [Ho Hr]. destruct o; try discriminate. cbn [astep].
  specialize (IH Hr a). destruct (arun a r). exact IH. Qed.

Theorem deployed_exactly pre post k d : forallb is_eval post = true ->
  lookup k (evs (fst (run remove init (pre ++ Deploy :: post)))) = Some d <->
  exists x, In x (defs (fst (run remove init pre))) /\ builds x = true /\ nm x = k /\ doc x = d.
Proof. intros Hp. destruct (refines_abstract (pre ++ Deploy :: post)) as (_ & He & _). rewrite He.
  destruct (refines_abstract pre) as (Hd & _ & _). rewrite Hd.
  pose proof (reachable_inv pre) as (_ & _ & _ & H4 & _). rewrite Hd in H4.
  rewrite arun_app. cbn [arun astep]. 
  set (a1 := {| adefs := _; aevs := _ |}). pose proof (arun_evals post Hp a1) as H. destruct (arun a1 post). cbn [fst] in *. subst a.
  unfold a1. cbn [aevs]. apply lookup_map_iff. exact H4. Qed.

Definition mutates (a : aws) (o : op) : bool :=
  match o with
  | Add m => can_add (adefs a) m
  | Remove _ _ | Replace _ | Clear => true
  | Deploy | Eval _ => false end.

Theorem mutation_undeploys pre o post k : forallb is_eval post = true ->
  mutates (fst (arun ainit pre)) o = true ->
  lookup k (evs (fst (run remove init (pre ++ o :: post)))) = None.
Proof. intros Hp Hm. destruct (refines_abstract (pre ++ o :: post)) as (_ & He & _). rewrite He.
  rewrite arun_app. cbn [arun]. set (a0 := fst (arun ainit pre)) in *.
  assert (Ha : aevs (fst (astep a0 o)) = []).
  { destruct o as [m|n j|m| | |j]; cbn [mutates astep] in *; try discriminate; try reflexivity.
    - unfold a_add. rewrite Hm. reflexivity.
    - unfold a_add. destruct (can_add _ m); reflexivity. }
  destruct (astep a0 o) as [a1 x]. cbn [fst] in Ha.
  pose proof (arun_evals post Hp a1) as H. destruct (arun a1 post). cbn [fst] in *. subst a. rewrite Ha. reflexivity. Qed.

(* a model that fails to build does not prevent the others from being deployed *)
Theorem failed_build_isolated ops d : let s := fst (run remove init ops) in
  In d (defs s) -> builds d = true -> lookup (nm d) (evs (deploy s)) = Some (doc d).
Proof. cbn zeta. intros Hd Hb. pose proof (reachable_inv ops) as (_ & _ & _ & H4 & _).
  apply (deploy_serves _ (nm d) (doc d) H4). exists d. tauto. Qed.

(* ---------- the code as it was before the fix: commit violates the invariant ---------- *)
Definition mA := {| ns := 1; nm := 11; builds := true; doc := 101 |}.
Definition mB := {| ns := 2; nm := 12; builds := true; doc := 102 |}.

Theorem orig_remove_refuted : exists ops,
  ~ Inv (fst (run remove_orig init ops)) /\
  snd (run remove_orig init (ops ++ [Add mB])) <> snd (arun ainit (ops ++ [Add mB])).
Proof. exists [Add mA; Add mB; Remove 1 12]. split.
  - vm_compute. intros (H1 & _). specialize (H1 2). cbn in H1. tauto.
  - vm_compute. discriminate. Qed.

(* non-vacuity: a reachable state with two stored models, one deployed, one failing to build *)
Definition mE := {| ns := 4; nm := 14; builds := false; doc := 106 |}.
Example reachable_nontrivial :
  let s := fst (run remove init [Add mA; Add mE; Add mB; Remove 2 12; Deploy]) in
  defs s = [mA; mE] /\ lookup 11 (evs s) = Some 101 /\ lookup 14 (evs s) = None.
Proof. vm_compute. auto. Qed.
