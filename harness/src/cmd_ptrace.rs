//! `dv ptrace`: parses with the parser's own trace switched on; the trace goes to stdout between the markers.
//! request {"ctx": text, "e": text} → lines:  @@BEGIN / …trace lines of the parser… / @@END {"ok": bool, "s0": scope text, "s1": scope text}
use dmntk_feel::Scope;
use serde_json::{json, Value as J};
use std::io::{BufRead, Write};

pub fn main() {
  let stdin = std::io::stdin();
  for line in stdin.lock().lines() {
    let line = line.unwrap();
    if line.trim().is_empty() {
      continue;
    }
    let req: J = serde_json::from_str(&line).unwrap_or(J::Null);
    let ctx_text = req["ctx"].as_str().unwrap_or("");
    let e = req["e"].as_str().unwrap_or("").to_string();
    println!("@@BEGIN");
    let r = std::panic::catch_unwind(|| {
      let scope: Scope = if ctx_text.is_empty() {
        Scope::default()
      } else {
        match dmntk_feel_evaluator::evaluate_context(&Scope::default(), ctx_text) {
          Ok(c) => c.into(),
          Err(_) => return json!({"err": "ctx"}),
        }
      };
      let s0 = scope.to_string();
      let ok = dmntk_feel_parser::parse_expression(&scope, &e, true).is_ok();
      json!({"ok": ok, "s0": s0, "s1": scope.to_string()})
    })
    .unwrap_or_else(|_| json!({"panic": true}));
    println!("\n@@END {}", r);
    std::io::stdout().flush().unwrap();
  }
}
