(* C01 — fuel monotonicity and fuel sufficiency of the semantics [eval] (Spec.v) — proofs about C01/Fuel.v.
   Owner: ext-fuel. *)
From Coq Require Import List ZArith NArith Bool Lia.
From DV Require Import C01.Syntax C01.Spec C01.Impl C01.Proofs C01.Fuel.
Import ListNotations.

(* [eval_step] is the body of [eval] *)
Lemma eval_S cartf f S e : eval cartf (Datatypes.S f) S e = eval_step cartf (eval cartf f) S e.
Proof. reflexivity. Qed.

Lemma complete_S cartf f S e : complete cartf (Datatypes.S f) S e = complete_step cartf (eval cartf f) (complete cartf f) S e.
Proof. reflexivity. Qed.

(* ---------- list helpers ---------- *)
Lemma forallb_imp {A} (p q : A -> bool) l : (forall x, In x l -> p x = true -> q x = true) -> forallb p l = true -> forallb q l = true.
Proof. intros H Hp. apply forallb_forall. intros x Hx. apply (H x Hx). exact (proj1 (forallb_forall p l) Hp x Hx). Qed.

Lemma existsb_ext_in {A} (p q : A -> bool) l : (forall x, In x l -> p x = q x) -> existsb p l = existsb q l.
Proof. induction l as [|x l IH]; intros H; [reflexivity|]. cbn [existsb]. rewrite (H x (or_introl eq_refl)), IH; [reflexivity|].
  intros y Hy. apply H. right. exact Hy. Qed.

Lemma flat_map_ext_in {A B} (g h : A -> list B) l : (forall x, In x l -> g x = h x) -> flat_map g l = flat_map h l.
Proof. induction l as [|x l IH]; intros H; [reflexivity|]. cbn [flat_map]. rewrite (H x (or_introl eq_refl)), IH; [reflexivity|].
  intros y Hy. apply H. right. exact Hy. Qed.

Section Mono.
Variable cartf : list (N * list value) -> list ctx.
Variables (rec1 rec2 : stack -> expr -> value) (c1 c2 : stack -> expr -> bool).
(* wherever the sub-evaluation at the smaller fuel was complete, the larger fuel gives the same value and is complete *)
Hypothesis H : forall S e, c1 S e = true -> rec2 S e = rec1 S e /\ c2 S e = true.

Lemma Hv S e : c1 S e = true -> rec2 S e = rec1 S e.
Proof. intros E. exact (proj1 (H S e E)). Qed.
Lemma Hc S e : c1 S e = true -> c2 S e = true.
Proof. intros E. exact (proj2 (H S e E)). Qed.

(* the fold of a context literal *)
Definition cstep (rec : stack -> expr -> value) (ok : stack -> expr -> bool) (S : stack) (st : ctx * bool) (ke : N * expr) : ctx * bool :=
  (ctx_set (fst ke) (rec (fst st :: S) (snd ke)) (fst st), snd st && ok (fst st :: S) (snd ke)).

Lemma cfold_true rec ok S es : forall st, snd (fold_left (cstep rec ok S) es st) = true -> snd st = true.
Proof. induction es as [|ke es IH]; intros st E; [exact E|]. cbn [fold_left] in E. apply IH in E. unfold cstep in E. cbn [snd] in E.
  apply andb_true_iff in E. exact (proj1 E). Qed.

Lemma cfold_fst rec ok S es : forall st,
  fst (fold_left (cstep rec ok S) es st) = fold_left (fun acc ke => ctx_set (fst ke) (rec (acc :: S) (snd ke)) acc) es (fst st).
Proof. induction es as [|ke es IH]; intros st; [reflexivity|]. cbn [fold_left]. rewrite IH. reflexivity. Qed.

Lemma cfold_mono S es : forall st, snd (fold_left (cstep rec1 c1 S) es st) = true ->
  fold_left (cstep rec2 c2 S) es st = fold_left (cstep rec1 c1 S) es st.
Proof. induction es as [|ke es IH]; intros st E; [reflexivity|]. cbn [fold_left] in *.
  pose proof (cfold_true _ _ _ _ _ E) as E1. unfold cstep at 1 in E1. cbn [snd] in E1. apply andb_true_iff in E1 as [Eb Ek].
  assert (Es : cstep rec2 c2 S st ke = cstep rec1 c1 S st ke).
  { unfold cstep. rewrite (Hv _ _ Ek), (Hc _ _ Ek), Ek. reflexivity. }
  rewrite Es. apply IH. exact E. Qed.

(* the fold of a `for` *)
Definition fstep (rec : stack -> expr -> value) (ok : stack -> expr -> bool) (S : stack) (body : expr) (st : list value * bool) (t : ctx) : list value * bool :=
  (fst st ++ [rec (ctx_set n_partial (VList (fst st)) t :: S) body], snd st && ok (ctx_set n_partial (VList (fst st)) t :: S) body).

Lemma ffold_true rec ok S body ts : forall st, snd (fold_left (fstep rec ok S body) ts st) = true -> snd st = true.
Proof. induction ts as [|t ts IH]; intros st E; [exact E|]. cbn [fold_left] in E. apply IH in E. unfold fstep in E. cbn [snd] in E.
  apply andb_true_iff in E. exact (proj1 E). Qed.

Lemma ffold_fst rec ok S body ts : forall st,
  fst (fold_left (fstep rec ok S body) ts st) =
  fold_left (fun acc t => acc ++ [rec (ctx_set n_partial (VList acc) t :: S) body]) ts (fst st).
Proof. induction ts as [|t ts IH]; intros st; [reflexivity|]. cbn [fold_left]. rewrite IH. reflexivity. Qed.

Lemma ffold_mono S body ts : forall st, snd (fold_left (fstep rec1 c1 S body) ts st) = true ->
  fold_left (fstep rec2 c2 S body) ts st = fold_left (fstep rec1 c1 S body) ts st.
Proof. induction ts as [|t ts IH]; intros st E; [reflexivity|]. cbn [fold_left] in *.
  pose proof (ffold_true _ _ _ _ _ _ E) as E1. unfold fstep at 1 in E1. cbn [snd] in E1. apply andb_true_iff in E1 as [Eb Ek].
  assert (Es : fstep rec2 c2 S body st t = fstep rec1 c1 S body st t).
  { unfold fstep. rewrite (Hv _ _ Ek), (Hc _ _ Ek), Ek. reflexivity. }
  rewrite Es. apply IH. exact E. Qed.

Lemma test_mono S t : forallb (c1 S) (test_exprs t) = true ->
  test_eval (rec2 S) t = test_eval (rec1 S) t /\ forallb (c2 S) (test_exprs t) = true.
Proof. destruct t as [e|o e|lo lc hi hc]; cbn [test_exprs forallb test_eval]; rewrite ?andb_true_r; intros E.
  - rewrite (Hv _ _ E), (Hc _ _ E). split; reflexivity.
  - rewrite (Hv _ _ E), (Hc _ _ E). split; reflexivity.
  - apply andb_true_iff in E as [E1 E2]. rewrite (Hv _ _ E1), (Hv _ _ E2), (Hc _ _ E1), (Hc _ _ E2). split; reflexivity. Qed.

Lemma dom_mono S d : forallb (c1 S) (dom_exprs d) = true ->
  dom_eval (rec2 S) d = dom_eval (rec1 S) d /\ dom_poison (rec2 S) d = dom_poison (rec1 S) d /\ forallb (c2 S) (dom_exprs d) = true.
Proof. destruct d as [e|lo hi]; cbn [dom_exprs forallb dom_eval dom_poison]; rewrite ?andb_true_r; intros E.
  - rewrite (Hv _ _ E), (Hc _ _ E). repeat split; reflexivity.
  - apply andb_true_iff in E as [E1 E2]. rewrite (Hv _ _ E1), (Hv _ _ E2), (Hc _ _ E1), (Hc _ _ E2). repeat split; reflexivity. Qed.

Theorem step_mono S e : complete_step cartf rec1 c1 S e = true ->
  eval_step cartf rec2 S e = eval_step cartf rec1 S e /\ complete_step cartf rec2 c2 S e = true.
Proof.
  destruct e; cbn [complete_step eval_step]; intros E; try (split; reflexivity).
  - (* EBin *) apply andb_true_iff in E as [E1 E2]. rewrite (Hv _ _ E1), (Hv _ _ E2), (Hc _ _ E1), (Hc _ _ E2). split; reflexivity.
  - (* ENeg *) rewrite (Hv _ _ E), (Hc _ _ E). split; reflexivity.
  - (* EIf *) apply andb_true_iff in E as [E1 E2]. rewrite (Hv _ _ E1), (Hc _ _ E1). cbn [andb].
    destruct (rec1 S e1) as [|[|]| | | | | | | |]; try (split; reflexivity); rewrite (Hv _ _ E2), (Hc _ _ E2); split; reflexivity.
  - (* EBetween *) apply andb_true_iff in E as [E E3]. apply andb_true_iff in E as [E1 E2].
    rewrite (Hv _ _ E1), (Hv _ _ E2), (Hv _ _ E3), (Hc _ _ E1), (Hc _ _ E2), (Hc _ _ E3). split; reflexivity.
  - (* EIn *) apply andb_true_iff in E as [E1 E2]. rewrite (Hv _ _ E1), (Hc _ _ E1). cbn [andb].
    assert (Ht : forall t, In t ts -> test_eval (rec2 S) t = test_eval (rec1 S) t /\ forallb (c2 S) (test_exprs t) = true).
    { intros t Hin. apply test_mono. exact (proj1 (forallb_forall _ ts) E2 t Hin). }
    split.
    + destruct ts as [|t [|t' ts]]; [reflexivity | rewrite (proj1 (Ht t (or_introl eq_refl))); reflexivity|].
      rewrite (map_ext_in _ (test_eval (rec1 S)) (t :: t' :: ts)); [reflexivity|]. intros t0 Hin. exact (proj1 (Ht t0 Hin)).
    + apply forallb_forall. intros t Hin. exact (proj2 (Ht t Hin)).
  - (* EInList *) apply andb_true_iff in E as [E1 E2]. rewrite (Hv _ _ E1), (Hv _ _ E2), (Hc _ _ E1), (Hc _ _ E2). split; reflexivity.
  - (* EList *) split.
    + f_equal. apply map_ext_in. intros a Ha. apply Hv. exact (proj1 (forallb_forall _ es) E a Ha).
    + apply (forallb_imp (c1 S)); [|exact E]. intros x _. apply Hc.
  - (* ECtx *) fold (cstep rec1 c1 S) in E. fold (cstep rec2 c2 S).
    pose proof (cfold_mono S es ([], true) E) as Em. split.
    + f_equal. pose proof (cfold_fst rec2 c2 S es ([], true)) as F2. pose proof (cfold_fst rec1 c1 S es ([], true)) as F1.
      cbn [fst] in F1, F2. rewrite <- F1, <- F2, Em. reflexivity.
    + rewrite Em. exact E.
  - (* EPath *) rewrite (Hv _ _ E), (Hc _ _ E). split; reflexivity.
  - (* EFilter *) apply andb_true_iff in E as [E1 E2]. rewrite (Hv _ _ E1), (Hc _ _ E1). cbn [andb].
    destruct (rec1 S e1) as [| | | |items| | | | |]; try (split; reflexivity);
      try (rewrite (Hv _ _ E2), (Hc _ _ E2); split; reflexivity).
    apply andb_true_iff in E2 as [E2 E3]. rewrite (Hv _ _ E3), (Hc _ _ E3).
    rewrite (map_ext_in (fun v => rec2 (filter_env v ++ S) e2) (fun v => rec1 (filter_env v ++ S) e2) items)
      by (intros v Hin; apply Hv; exact (proj1 (forallb_forall _ items) E2 v Hin)).
    split; [reflexivity|]. rewrite andb_true_r. apply (forallb_imp (fun v => c1 (filter_env v ++ S) e2)); [|exact E2]. intros v _. apply Hc.
  - (* EFor *) apply andb_true_iff in E as [E1 E2].
    assert (Hd : forall nd, In nd ds -> dom_eval (rec2 S) (snd nd) = dom_eval (rec1 S) (snd nd) /\
                   dom_poison (rec2 S) (snd nd) = dom_poison (rec1 S) (snd nd) /\ forallb (c2 S) (dom_exprs (snd nd)) = true).
    { intros nd Hin. apply dom_mono. exact (proj1 (forallb_forall _ ds) E1 nd Hin). }
    assert (Hp : existsb (fun nd => dom_poison (rec2 S) (snd nd)) ds = existsb (fun nd => dom_poison (rec1 S) (snd nd)) ds).
    { apply existsb_ext_in. intros nd Hin. exact (proj1 (proj2 (Hd nd Hin))). }
    assert (Hde : doms_eval (rec2 S) ds = doms_eval (rec1 S) ds).
    { unfold doms_eval. apply flat_map_ext_in. intros nd Hin. rewrite (proj1 (Hd nd Hin)). reflexivity. }
    assert (Hok : forallb (fun nd => forallb (c2 S) (dom_exprs (snd nd))) ds = true).
    { apply forallb_forall. intros nd Hin. exact (proj2 (proj2 (Hd nd Hin))). }
    rewrite Hp, Hok. cbn [andb]. destruct (existsb _ ds); [split; reflexivity|].
    unfold for_tuples in *. rewrite Hde. fold (fstep rec1 c1 S e) in E2. fold (fstep rec2 c2 S e).
    destruct (doms_eval (rec1 S) ds) as [|d0 doms]; [split; reflexivity|].
    pose proof (ffold_mono S e (cartf (d0 :: doms)) ([], true) E2) as Em. split.
    + f_equal. pose proof (ffold_fst rec2 c2 S e (cartf (d0 :: doms)) ([], true)) as F2.
      pose proof (ffold_fst rec1 c1 S e (cartf (d0 :: doms)) ([], true)) as F1.
      cbn [fst] in F1, F2. rewrite <- F1, <- F2, Em. reflexivity.
    + rewrite Em. exact E2.
  - (* ESome *) apply andb_true_iff in E as [E1 E2].
    rewrite (map_ext_in (fun nd => (fst nd, dom_values (rec2 S (snd nd)))) (fun nd => (fst nd, dom_values (rec1 S (snd nd)))) ds)
      by (intros nd Hin; rewrite (Hv _ _ (proj1 (forallb_forall _ ds) E1 nd Hin)); reflexivity).
    split.
    + f_equal. apply map_ext_in. intros t Hin. apply Hv. exact (proj1 (forallb_forall _ _) E2 t Hin).
    + apply andb_true_iff. split.
      * apply (forallb_imp (fun nd => c1 S (snd nd))); [|exact E1]. intros nd _. apply Hc.
      * apply (forallb_imp (fun t => c1 (t :: S) e)); [|exact E2]. intros t _. apply Hc.
  - (* EEvery *) apply andb_true_iff in E as [E1 E2].
    rewrite (map_ext_in (fun nd => (fst nd, dom_values (rec2 S (snd nd)))) (fun nd => (fst nd, dom_values (rec1 S (snd nd)))) ds)
      by (intros nd Hin; rewrite (Hv _ _ (proj1 (forallb_forall _ ds) E1 nd Hin)); reflexivity).
    split.
    + f_equal. apply map_ext_in. intros t Hin. apply Hv. exact (proj1 (forallb_forall _ _) E2 t Hin).
    + apply andb_true_iff. split.
      * apply (forallb_imp (fun nd => c1 S (snd nd))); [|exact E1]. intros nd _. apply Hc.
      * apply (forallb_imp (fun t => c1 (t :: S) e)); [|exact E2]. intros t _. apply Hc.
  - (* ECall *) apply andb_true_iff in E as [E E3]. apply andb_true_iff in E as [E1 E2].
    rewrite (Hv _ _ E1), (Hc _ _ E1). cbn [andb].
    rewrite (map_ext_in (rec2 S) (rec1 S) args) by (intros a Ha; apply Hv; exact (proj1 (forallb_forall _ args) E2 a Ha)).
    assert (Ha : forallb (c2 S) args = true) by (apply (forallb_imp (c1 S)); [intros x _; apply Hc | exact E2]).
    rewrite Ha. cbn [andb].
    destruct (rec1 S e) as [| | | | | | | |ps body|]; try (split; reflexivity).
    destruct (mk_args ps _) as [c|]; [|split; reflexivity]. rewrite (Hv _ _ E3), (Hc _ _ E3). split; reflexivity.
  - (* ECallN *) apply andb_true_iff in E as [E E3]. apply andb_true_iff in E as [E1 E2].
    rewrite (Hv _ _ E1), (Hc _ _ E1). cbn [andb].
    rewrite (map_ext_in (fun ne => (fst ne, rec2 S (snd ne))) (fun ne => (fst ne, rec1 S (snd ne))) args)
      by (intros a Ha; rewrite (Hv _ _ (proj1 (forallb_forall _ args) E2 a Ha)); reflexivity).
    assert (Ha : forallb (fun ne => c2 S (snd ne)) args = true)
      by (apply (forallb_imp (fun ne => c1 S (snd ne))); [intros x _; apply Hc | exact E2]).
    rewrite Ha. cbn [andb].
    destruct (rec1 S e) as [| | | | | | | |ps body|]; try (split; reflexivity).
    destruct (mk_named ps _ _) as [c|]; [|split; reflexivity]. rewrite (Hv _ _ E3), (Hc _ _ E3). split; reflexivity.
Qed.
End Mono.

(* ---------- fuel monotonicity ---------- *)
Section Results.
Variable cartf : list (N * list value) -> list ctx.

Theorem complete_succ : forall f S e, complete cartf f S e = true ->
  eval cartf (Datatypes.S f) S e = eval cartf f S e /\ complete cartf (Datatypes.S f) S e = true.
Proof. induction f as [|f IH]; intros S e E; [discriminate|].
  change (eval_step cartf (eval cartf (Datatypes.S f)) S e = eval_step cartf (eval cartf f) S e /\
          complete_step cartf (eval cartf (Datatypes.S f)) (complete cartf (Datatypes.S f)) S e = true).
  rewrite complete_S in E.
  exact (step_mono cartf (eval cartf f) (eval cartf (Datatypes.S f)) (complete cartf f) (complete cartf (Datatypes.S f)) IH S e E). Qed.

(* once every evaluation step had fuel, more fuel changes nothing (and every step still has fuel) *)
Theorem eval_fuel_monotone f g S e : (f <= g)%nat -> complete cartf f S e = true ->
  eval cartf g S e = eval cartf f S e /\ complete cartf g S e = true.
Proof. intros Hle E. induction Hle as [|g Hle IH]; [split; [reflexivity | exact E]|].
  destruct IH as [IH1 IH2]. destruct (complete_succ g S e IH2) as [H1 H2]. split; [rewrite H1; exact IH1 | exact H2]. Qed.

(* the same for the scope-stack machine *)
Theorem run_fuel_monotone f g S e : (f <= g)%nat -> complete cartf f S e = true -> run cartf g S e = run cartf f S e.
Proof. intros Hle E. rewrite !run_refines. rewrite (proj1 (eval_fuel_monotone f g S e Hle E)). reflexivity. Qed.

(* ---------- fuel sufficiency for expressions that evaluate no invocation ---------- *)
Lemma list_max_in {A} (g : A -> nat) l x : In x l -> (g x <= list_max (map g l))%nat.
Proof. unfold list_max. induction l as [|y l IH]; intros Hin; [destruct Hin|]. cbn [map fold_right].
  destruct Hin as [->|Hin]; [lia|]. specialize (IH Hin). lia. Qed.

Lemma cfold_all rec ok S es : (forall S' ke, In ke es -> ok S' (snd ke) = true) ->
  forall st, snd st = true -> snd (fold_left (cstep rec ok S) es st) = true.
Proof. induction es as [|ke es IH]; intros Hall st E; [exact E|]. cbn [fold_left]. apply IH.
  - intros S' ke' Hin. apply Hall. right. exact Hin.
  - unfold cstep. cbn [snd]. rewrite E, (Hall _ ke (or_introl eq_refl)). reflexivity. Qed.

Lemma ffold_all rec ok S body ts : (forall S', ok S' body = true) ->
  forall st, snd st = true -> snd (fold_left (fstep rec ok S body) ts st) = true.
Proof. intros Hall. induction ts as [|t ts IH]; intros st E; [exact E|]. cbn [fold_left]. apply IH.
  unfold fstep. cbn [snd]. rewrite E, Hall. reflexivity. Qed.

Theorem nocall_complete : forall f S e, nocall e = true -> (depth e < f)%nat -> complete cartf f S e = true.
Proof. induction f as [|f IH]; intros S e Hn Hd; [lia|]. rewrite complete_S.
  destruct e; cbn [complete_step]; cbn [nocall depth] in Hn, Hd; try reflexivity; try discriminate.
  - (* EBin *) apply andb_true_iff in Hn as [N1 N2]. rewrite !IH by (assumption || lia). reflexivity.
  - (* ENeg *) apply IH; [exact Hn | lia].
  - (* EIf *) apply andb_true_iff in Hn as [Hn N3]. apply andb_true_iff in Hn as [N1 N2].
    rewrite (IH S e1 N1) by lia. cbn [andb].
    destruct (eval cartf f S e1) as [|[|]| | | | | | | |]; try reflexivity; apply IH; (assumption || lia).
  - (* EBetween *) apply andb_true_iff in Hn as [Hn N3]. apply andb_true_iff in Hn as [N1 N2].
    rewrite !IH by (assumption || lia). reflexivity.
  - (* EIn *) apply andb_true_iff in Hn as [N1 N2]. rewrite (IH S e N1) by lia. cbn [andb].
    apply forallb_forall. intros t Hin. pose proof (proj1 (forallb_forall _ ts) N2 t Hin) as Nt.
    pose proof (list_max_in tdepth ts t Hin) as Dt.
    destruct t as [e0|o e0|lo lc hi hc]; cbn [test_exprs forallb tnocall tdepth] in *.
    + rewrite IH by (assumption || lia). reflexivity.
    + rewrite IH by (assumption || lia). reflexivity.
    + apply andb_true_iff in Nt as [Na Nb]. rewrite !IH by (assumption || lia). reflexivity.
  - (* EInList *) apply andb_true_iff in Hn as [N1 N2]. rewrite !IH by (assumption || lia). reflexivity.
  - (* EList *) apply forallb_forall. intros a Ha. pose proof (list_max_in depth es a Ha).
    apply IH; [exact (proj1 (forallb_forall _ es) Hn a Ha) | lia].
  - (* ECtx *) fold (cstep (eval cartf f) (complete cartf f) S). apply cfold_all; [|reflexivity].
    intros S' ke Hin. pose proof (list_max_in (fun ke => depth (snd ke)) es ke Hin).
    apply IH; [exact (proj1 (forallb_forall _ es) Hn ke Hin) | lia].
  - (* EPath *) apply IH; [exact Hn | lia].
  - (* EFilter *) apply andb_true_iff in Hn as [N1 N2]. rewrite (IH S e1 N1) by lia. cbn [andb].
    destruct (eval cartf f S e1) as [| | | |items| | | | |]; try reflexivity; try (apply IH; (assumption || lia)).
    rewrite (IH S e2 N2) by lia. rewrite andb_true_r. apply forallb_forall. intros v _. apply IH; (assumption || lia).
  - (* EFor *) apply andb_true_iff in Hn as [N1 N2]. apply andb_true_iff. split.
    + apply forallb_forall. intros nd Hin. pose proof (proj1 (forallb_forall _ ds) N1 nd Hin) as Nd.
      pose proof (list_max_in (fun nd => ddepth (snd nd)) ds nd Hin) as Dd. cbn beta in Nd, Dd.
      destruct (snd nd) as [e0|lo hi]; cbn [dom_exprs forallb dnocall ddepth] in *.
      * rewrite IH by (assumption || lia). reflexivity.
      * apply andb_true_iff in Nd as [Na Nb]. rewrite !IH by (assumption || lia). reflexivity.
    + destruct (existsb _ ds); [reflexivity|]. fold (fstep (eval cartf f) (complete cartf f) S e).
      apply ffold_all; [|reflexivity]. intros S'. apply IH; (assumption || lia).
  - (* ESome *) apply andb_true_iff in Hn as [N1 N2]. apply andb_true_iff. split.
    + apply forallb_forall. intros nd Hin. pose proof (list_max_in (fun nd => depth (snd nd)) ds nd Hin). cbn beta in *.
      apply IH; [exact (proj1 (forallb_forall _ ds) N1 nd Hin) | lia].
    + apply forallb_forall. intros t _. apply IH; (assumption || lia).
  - (* EEvery *) apply andb_true_iff in Hn as [N1 N2]. apply andb_true_iff. split.
    + apply forallb_forall. intros nd Hin. pose proof (list_max_in (fun nd => depth (snd nd)) ds nd Hin). cbn beta in *.
      apply IH; [exact (proj1 (forallb_forall _ ds) N1 nd Hin) | lia].
    + apply forallb_forall. intros t _. apply IH; (assumption || lia).
Qed.

(* for such an expression the value is the same for every fuel above its depth *)
Theorem fuel_sufficient f S e : nocall e = true -> (depth e < f)%nat ->
  eval cartf f S e = eval cartf (Datatypes.S (depth e)) S e /\ complete cartf f S e = true.
Proof. intros Hn Hd. apply eval_fuel_monotone; [lia|]. apply nocall_complete; [exact Hn | lia]. Qed.
End Results.

(* ---------- "the value is not VPoison" does not imply that the fuel was enough ----------
   [1] = [1] at fuel 2: both lists are [VPoison] (their items ran out of fuel), the comparison looks through the lists and
   answers false; at fuel 3 the answer is true.  The result at fuel 2 contains no VPoison. *)
Theorem value_monotonicity_refuted :
  let e := EBin Eq (EList [enum 1]) (EList [enum 1]) in
  eval cart 2 [] e = VBool false /\ poison (eval cart 2 [] e) = false /\ eval cart 3 [] e = VBool true /\
  complete cart 2 [] e = false /\ complete cart 3 [] e = true.
Proof. vm_compute. repeat split; reflexivity. Qed.

(* ---------- recursion through function values ----------
   Function bodies run in the caller's stack, so a function bound to a name can invoke itself.
   r_loop:  vf = function(vn) vf(vn);  vf(1)  never completes: for EVERY fuel the value is VPoison and [complete] is false
   (in FEEL the expression does not terminate either; the real evaluator exhausts its stack: that is C05's subject). *)
Definition r_f : N := 101%N.
Definition r_n : N := 102%N.
Definition r_ps : list (N * C16.Model.ftype) := [(r_n, T.TS T.SAny)].
Definition r_body : expr := ECall (EName r_f) [EName r_n].
Definition r_S : stack := [[(r_f, VFun r_ps r_body)]].
Definition r_loop : expr := ECall (EName r_f) [enum 1].

Section Loop.
Variable cartf : list (N * list value) -> list ctx.

Lemma lookup_arg S v : lookup r_f S = Some (VFun r_ps r_body) -> lookup r_f (([(r_n, v)] : ctx) :: S) = Some (VFun r_ps r_body).
Proof. intros H. cbn [lookup ctx_get]. exact H. Qed.

Lemma body_diverges : forall f S, lookup r_f S = Some (VFun r_ps r_body) ->
  eval cartf f S r_body = VPoison /\ complete cartf f S r_body = false.
Proof. induction f as [|f IH]; intros S Hl; [split; reflexivity|].
  rewrite eval_S, complete_S. unfold r_body at 1 2. cbn [eval_step complete_step map forallb].
  destruct f as [|f]; [split; reflexivity|].
  rewrite (eval_S cartf f S (EName r_f)). cbn [eval_step]. rewrite Hl.
  unfold mk_args, r_ps. cbn [length Nat.ltb Nat.leb combine fold_left fst snd ctx_set].
  destruct (IH _ (lookup_arg S (coerced1 (T.TS T.SAny) (eval cartf (Datatypes.S f) S (EName r_n))) Hl)) as [E1 E2].
  unfold r_ps in E1, E2. rewrite E1, E2. split; [reflexivity|]. rewrite !andb_false_r. reflexivity. Qed.

Theorem loop_diverges : forall f, eval cartf f r_S r_loop = VPoison /\ complete cartf f r_S r_loop = false.
Proof. intros [|f]; [split; reflexivity|].
  rewrite eval_S, complete_S. unfold r_loop. cbn [eval_step complete_step map forallb].
  destruct f as [|f]; [split; reflexivity|].
  rewrite (eval_S cartf f r_S (EName r_f)). cbn [eval_step]. change (lookup r_f r_S) with (Some (VFun r_ps r_body)). cbv iota beta.
  unfold mk_args, r_ps. cbn [length Nat.ltb Nat.leb combine fold_left fst snd ctx_set].
  assert (Hl : lookup r_f r_S = Some (VFun r_ps r_body)) by reflexivity.
  destruct (body_diverges (Datatypes.S f) _ (lookup_arg r_S (coerced1 (T.TS T.SAny) (eval cartf (Datatypes.S f) r_S (enum 1))) Hl)) as [E1 E2].
  unfold r_ps in E1, E2. rewrite E1, E2. split; [reflexivity|]. rewrite !andb_false_r. reflexivity. Qed.
End Loop.

(* a recursion that ends: vf = function(vn) if vn = 0 then 0 else vf(vn - 1);  vf(k) needs fuel 2k + 4 (vf(3): 10), and from there on the
   value is 0 for every fuel (eval_fuel_monotone); the bound depends on the ARGUMENT, not on the text of the expression *)
Definition r_down : expr := EIf (EBin Eq (EName r_n) (enum 0)) (enum 0) (ECall (EName r_f) [EBin Sub (EName r_n) (enum 1)]).
Definition r_S2 : stack := [[(r_f, VFun r_ps r_down)]].
Theorem countdown_completes :
  complete cart 9 r_S2 (ECall (EName r_f) [enum 3]) = false /\ complete cart 10 r_S2 (ECall (EName r_f) [enum 3]) = true /\
  eval cart 10 r_S2 (ECall (EName r_f) [enum 3]) = vnum 0 /\
  complete cart 10 r_S2 (ECall (EName r_f) [enum 4]) = false /\ complete cart 12 r_S2 (ECall (EName r_f) [enum 4]) = true.
Proof. vm_compute. repeat split; reflexivity. Qed.

(* non-vacuity of fuel_sufficient: every construct except invocation, nested; depth 5 *)
Definition s_e : expr :=
  EFor [(103%N, DList (EFilter (EList [enum 1; enum 2; enum 3]) (EBin Gt (EName n_item) (EName 101%N)))); (104%N, DRange (enum 1) (enum 2))]
       (EIf (ESome [(105%N, EList [EName 103%N; EName 104%N])] (EIn (EName 105%N) [TCmp CGt (enum 2); TRange (enum 0) true (enum 1) false]))
            (EPath (ECtx [(106%N, EBin Mul (EName 103%N) (EName 104%N)); (107%N, EBin Add (EName 106%N) (enum 1))]) 107%N)
            (ENeg (EName 104%N))).
Example sufficient_nonvacuous :
  nocall s_e = true /\ depth s_e = 5%nat /\ complete cart 6 [[(101%N, vnum 1)]] s_e = true /\ complete cart 5 [[(101%N, vnum 1)]] s_e = false /\
  eval cart 6 [[(101%N, vnum 1)]] s_e = VList [vnum (-1); vnum (-2); vnum 4; vnum 7] /\
  eval cart 40 [[(101%N, vnum 1)]] s_e = VList [vnum (-1); vnum (-2); vnum 4; vnum 7].
Proof. vm_compute. repeat split; reflexivity. Qed.
