#!/bin/bash
# MANIFEST.setup_cmd: build the framework from files on disk only (offline).
cd "$(dirname "$0")"
export CARGO_NET_OFFLINE=true
export CARGO_TARGET_DIR="$PWD/build/target"      # the same directory vlib/core.py uses (harness/.cargo/config.toml names it for hand-run cargo only)
mkdir -p build evidence replays
[ -f harness/Cargo.lock ] || cp /repo/Cargo.lock harness/Cargo.lock
( cd harness && RUSTFLAGS="--cfg dmntk_verif" cargo build --offline 2>&1 | tail -3 )
( cd harness && RUSTFLAGS="--cfg dmntk_verif" cargo build --offline --release 2>&1 | tail -3 )
python3 translators/run_all.py
python3 -c "
import sys; sys.path.insert(0, '.')
from vlib import core
print(core.refresh_coq_project())"
( cd coq && timeout 3000 make -k -j16 2>&1 | tail -5; exit ${PIPESTATUS[0]} ); coq_rc=$?
[ -x build/target/debug/dv ] && [ -x build/target/release/dv ] || echo "setup: the harness did not build (every check will report it: it rebuilds the harness itself)"
[ $coq_rc -eq 0 ] || echo "setup: the Coq development did not build completely (make -k exit $coq_rc); the proof gate of each check rebuilds its own files and reports what fails"
echo "setup done"
# This is a warm-up only: every check rebuilds what it needs from the current /repo and reports a build or proof failure itself as a
# VIOLATION ... no-failing-input-found, so a failure here must not stop the checks from running and saying so.
exit 0
