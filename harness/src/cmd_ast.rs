//! `dv ast`: one JSON request per line:
//!   {"bind": [[name, value], ...], "e": text, "mode": "expr"|"unary"|"textual"|"textuals"|"boxed"|"context", "eval": bool}
//! The scope is built programmatically (the bound names do not pass through the lexer): `name` is either a string
//! (taken verbatim as the name text) or a list of parts (normalised by Name::new, like the names the parser builds);
//! `value` is null | bool | integer | string | {"ctx": [[name, value], ...]} | {"list": [value, ...]}.
//! Answer: {"ast": tree, "keys": [sorted flattened scope keys]} (+ "v": canonical value when "eval") | {"err": "parse"|"build"} | {"panic": text};
//! `tree` is ["Variant", child, ...] with names, strings, numerals and type texts as JSON strings and flags as JSON booleans.
use crate::canon::{canon, panic_text};
use dmntk_feel::context::FeelContext;
use dmntk_feel::values::{Value, Values};
use dmntk_feel::{AstNode, Name, Scope};
use dmntk_feel_number::FeelNumber;
use serde_json::{json, Value as J};
use std::io::{BufRead, Write};

fn tree(n: &AstNode) -> J {
  macro_rules! b {
    ($tag:expr, $($x:expr),*) => { J::Array(vec![J::String($tag.to_string()), $(tree($x)),*]) };
  }
  macro_rules! v {
    ($tag:expr, $xs:expr) => {{
      let mut a = vec![J::String($tag.to_string())];
      a.extend($xs.iter().map(tree));
      J::Array(a)
    }};
  }
  macro_rules! nm {
    ($tag:expr, $x:expr) => { json!([$tag, $x.to_string()]) };
  }
  #[allow(unreachable_patterns)]
  match n {
    AstNode::Add(a, c) => b!("Add", a, c),
    AstNode::And(a, c) => b!("And", a, c),
    AstNode::ContextEntry(a, c) => b!("ContextEntry", a, c),
    AstNode::ContextTypeEntry(a, c) => b!("ContextTypeEntry", a, c),
    AstNode::Div(a, c) => b!("Div", a, c),
    AstNode::Eq(a, c) => b!("Eq", a, c),
    AstNode::Every(a, c) => b!("Every", a, c),
    AstNode::Exp(a, c) => b!("Exp", a, c),
    AstNode::Filter(a, c) => b!("Filter", a, c),
    AstNode::For(a, c) => b!("For", a, c),
    AstNode::FormalParameter(a, c) => b!("FormalParameter", a, c),
    AstNode::FunctionDefinition(a, c) => b!("FunctionDefinition", a, c),
    AstNode::FunctionInvocation(a, c) => b!("FunctionInvocation", a, c),
    AstNode::FunctionType(a, c) => b!("FunctionType", a, c),
    AstNode::Ge(a, c) => b!("Ge", a, c),
    AstNode::Gt(a, c) => b!("Gt", a, c),
    AstNode::In(a, c) => b!("In", a, c),
    AstNode::InstanceOf(a, c) => b!("InstanceOf", a, c),
    AstNode::IterationContextSingle(a, c) => b!("IterationContextSingle", a, c),
    AstNode::Le(a, c) => b!("Le", a, c),
    AstNode::Lt(a, c) => b!("Lt", a, c),
    AstNode::Mul(a, c) => b!("Mul", a, c),
    AstNode::NamedParameter(a, c) => b!("NamedParameter", a, c),
    AstNode::Nq(a, c) => b!("Nq", a, c),
    AstNode::Or(a, c) => b!("Or", a, c),
    AstNode::Out(a, c) => b!("Out", a, c),
    AstNode::Path(a, c) => b!("Path", a, c),
    AstNode::QuantifiedContext(a, c) => b!("QuantifiedContext", a, c),
    AstNode::Range(a, c) => b!("Range", a, c),
    AstNode::Some(a, c) => b!("Some", a, c),
    AstNode::Sub(a, c) => b!("Sub", a, c),
    AstNode::Between(a, c, d) => b!("Between", a, c, d),
    AstNode::If(a, c, d) => b!("If", a, c, d),
    AstNode::IterationContextRange(a, c, d) => b!("IterationContextRange", a, c, d),
    AstNode::EvaluatedExpression(a) => b!("EvaluatedExpression", a),
    AstNode::ListType(a) => b!("ListType", a),
    AstNode::Neg(a) => b!("Neg", a),
    AstNode::RangeType(a) => b!("RangeType", a),
    AstNode::Satisfies(a) => b!("Satisfies", a),
    AstNode::UnaryGe(a) => b!("UnaryGe", a),
    AstNode::UnaryGt(a) => b!("UnaryGt", a),
    AstNode::UnaryLe(a) => b!("UnaryLe", a),
    AstNode::UnaryLt(a) => b!("UnaryLt", a),
    AstNode::CommaList(xs) => v!("CommaList", xs),
    AstNode::Context(xs) => v!("Context", xs),
    AstNode::ContextType(xs) => v!("ContextType", xs),
    AstNode::ExpressionList(xs) => v!("ExpressionList", xs),
    AstNode::FormalParameters(xs) => v!("FormalParameters", xs),
    AstNode::IterationContexts(xs) => v!("IterationContexts", xs),
    AstNode::List(xs) => v!("List", xs),
    AstNode::NamedParameters(xs) => v!("NamedParameters", xs),
    AstNode::NegatedList(xs) => v!("NegatedList", xs),
    AstNode::ParameterTypes(xs) => v!("ParameterTypes", xs),
    AstNode::PositionalParameters(xs) => v!("PositionalParameters", xs),
    AstNode::QualifiedName(xs) => v!("QualifiedName", xs),
    AstNode::QuantifiedContexts(xs) => v!("QuantifiedContexts", xs),
    AstNode::ContextEntryKey(x) => nm!("ContextEntryKey", x),
    AstNode::ContextTypeEntryKey(x) => nm!("ContextTypeEntryKey", x),
    AstNode::Name(x) => nm!("Name", x),
    AstNode::ParameterName(x) => nm!("ParameterName", x),
    AstNode::QualifiedNameSegment(x) => nm!("QualifiedNameSegment", x),
    AstNode::FunctionBody(a, f) => json!(["FunctionBody", tree(a), f]),
    AstNode::IntervalEnd(a, f) => json!(["IntervalEnd", tree(a), f]),
    AstNode::IntervalStart(a, f) => json!(["IntervalStart", tree(a), f]),
    AstNode::At(s) => json!(["At", s]),
    AstNode::String(s) => json!(["String", s]),
    AstNode::Boolean(x) => json!(["Boolean", x]),
    AstNode::Numeric(a, c) => json!(["Numeric", a, c]),
    AstNode::FeelType(t) => json!(["FeelType", t.to_string()]),
    AstNode::Irrelevant => json!(["Irrelevant"]),
    AstNode::Null => json!(["Null"]),
    other => json!(["?", format!("{:?}", other)]),
  }
}

fn name_of(j: &J) -> Name {
  match j {
    J::Array(parts) => {
      let ps: Vec<String> = parts.iter().map(|p| p.as_str().unwrap_or("").to_string()).collect();
      ps.into()
    }
    other => Name::from(other.as_str().unwrap_or("")),
  }
}

fn value_of(j: &J) -> Value {
  match j {
    J::Null => Value::Null(None),
    J::Bool(x) => Value::Boolean(*x),
    J::Number(x) => Value::Number(FeelNumber::from_i128(x.as_i64().unwrap_or(0) as i128)),
    J::String(s) => Value::String(s.clone()),
    J::Object(o) => {
      if let Some(J::Array(es)) = o.get("ctx") {
        Value::Context(context_of(es))
      } else if let Some(J::Array(xs)) = o.get("list") {
        Value::List(Values::new(xs.iter().map(value_of).collect()))
      } else {
        Value::Null(None)
      }
    }
    _ => Value::Null(None),
  }
}

fn context_of(entries: &[J]) -> FeelContext {
  let mut ctx = FeelContext::default();
  for e in entries {
    ctx.set_entry(&name_of(&e[0]), value_of(&e[1]));
  }
  ctx
}

fn one(req: &J) -> J {
  let e = req["e"].as_str().unwrap_or("");
  let mode = req["mode"].as_str().unwrap_or("expr");
  let empty = vec![];
  let scope: Scope = context_of(req["bind"].as_array().unwrap_or(&empty)).into();
  let mut keys: Vec<String> = scope.flatten_keys().into_iter().collect();
  keys.sort();
  let node = match mode {
    "expr" => dmntk_feel_parser::parse_expression(&scope, e, false),
    "unary" => dmntk_feel_parser::parse_unary_tests(&scope, e, false),
    "textual" => dmntk_feel_parser::parse_textual_expression(&scope, e, false),
    "textuals" => dmntk_feel_parser::parse_textual_expressions(&scope, e, false),
    "boxed" => dmntk_feel_parser::parse_boxed_expression(&scope, e, false),
    "context" => dmntk_feel_parser::parse_context(&scope, e, false),
    _ => return json!({"err": "mode"}),
  };
  let node = match node {
    Ok(n) => n,
    Err(_) => return json!({"err": "parse", "keys": keys}),
  };
  if !req["eval"].as_bool().unwrap_or(false) {
    return json!({"ast": tree(&node), "keys": keys});
  }
  match dmntk_feel_evaluator::evaluate(&scope, &node) {
    Ok(v) => json!({"ast": tree(&node), "keys": keys, "v": canon(&v)}),
    Err(_) => json!({"ast": tree(&node), "keys": keys, "err": "build"}),
  }
}

pub fn main() {
  let stdin = std::io::stdin();
  let stdout = std::io::stdout();
  let mut out = std::io::BufWriter::new(stdout.lock());
  for line in stdin.lock().lines() {
    let line = line.unwrap();
    if line.trim().is_empty() {
      continue;
    }
    let req: J = serde_json::from_str(&line).unwrap_or(J::Null);
    let r = std::panic::catch_unwind(|| one(&req)).unwrap_or_else(|e| json!({"panic": panic_text(e)}));
    writeln!(out, "{}", r).unwrap();
  }
  out.flush().unwrap();
}
