(* C06 — extended expression language: the needed-parentheses theorem in structural form.  For every occurrence x in t, at any
   depth, in a position (m, f) — m the level the position admits, f whether a continuing token follows — with paren m f x = true
   (x an operator form below the level of its position, or an open construct if / for / some / every / function in a position
   that is followed by a continuing token: the left operand of a binary operator, of between, of instance of, of a path, a filter,
   an invocation), the minimal rendering has a pair of parentheses around the tokens of x and the token list without that pair
   does not parse back to t.  Owner: prover-C06. *)
From Coq Require Import List NArith Bool Arith Lia.
From DV Require Import C06.Model C06.ModelExt C06.ExtBase C06.ExtRound C06.ExtNeeded.
Import ListNotations.

(* x is an operand of p; fp: the flag under which the tokens of p are rendered (false when p is in parentheses);
   the position of x admits level m and has the flag f *)
Inductive Child : etree -> bool -> nat -> bool -> etree -> Prop :=
| Ch_bin_l : forall o l r fp, Child (EBin o l r) fp (lc o) true l
| Ch_bin_r : forall o l r fp, Child (EBin o l r) fp (rc o) fp r
| Ch_neg : forall x fp, Child (ENeg x) fp r_neg fp x
| Ch_btw_x : forall x lo hi fp, Child (EBtw x lo hi) fp lv_between true x
| Ch_btw_lo : forall x lo hi fp, Child (EBtw x lo hi) fp 0 false lo
| Ch_btw_hi : forall x lo hi fp, Child (EBtw x lo hi) fp rc_between fp hi
| Ch_inst : forall x ty fp, Child (EInst x ty) fp c_post true x
| Ch_path : forall x n fp, Child (EPath x n) fp c_post true x
| Ch_filt_x : forall x i fp, Child (EFilt x i) fp c_post true x
| Ch_filt_i : forall x i fp, Child (EFilt x i) fp 0 false i
| Ch_call_g : forall g args fp, Child (ECall g args) fp c_post true g
| Ch_call_a : forall g args a fp, In a args -> Child (ECall g args) fp 0 false a
| Ch_calln_g : forall g a args fp, Child (ECallN g a args) fp c_post true g
| Ch_calln_a : forall g a args k e fp, In (k, e) (a :: args) -> Child (ECallN g a args) fp 0 false e
| Ch_if_c : forall c a b fp, Child (EIf c a b) fp 0 false c
| Ch_if_a : forall c a b fp, Child (EIf c a b) fp 0 false a
| Ch_if_b : forall c a b fp, Child (EIf c a b) fp 0 false b
| Ch_for_lo : forall d ds b v e o fp, In (v, e, o) (d :: ds) -> Child (EFor d ds b) fp 0 false e
| Ch_for_hi : forall d ds b v e e2 fp, In (v, e, Some e2) (d :: ds) -> Child (EFor d ds b) fp 0 false e2
| Ch_for_b : forall d ds b fp, Child (EFor d ds b) fp 0 false b
| Ch_quant_d : forall q d ds b v e fp, In (v, e) (d :: ds) -> Child (EQuant q d ds b) fp 0 false e
| Ch_quant_b : forall q d ds b fp, Child (EQuant q d ds b) fp 0 false b
| Ch_fun_b : forall ps b fp, Child (EFun ps b) fp 0 false b
| Ch_list : forall l a fp, In a l -> Child (EList l) fp 0 false a
| Ch_ctx : forall l k e fp, In (k, e) l -> Child (ECtx l) fp 0 false e.

(* x occurs in t (at any depth) in a position (m, f) *)
Inductive Occ (t : etree) : nat -> bool -> etree -> Prop :=
| Occ_root : Occ t 0 false t
| Occ_step : forall m f p m' f' x, Occ t m f p -> Child p (if paren m f p then false else f) m' f' x -> Occ t m' f' x.

Lemma sepc_in : forall (A : Type) (rd : A -> list etok) y l, In y l -> exists pre post, sepc (map rd l) = pre ++ rd y ++ post.
Proof.
  intros A rd y l. induction l as [|x r IH]; intro H; [destruct H|].
  destruct H as [H|H].
  - subst x. exists [], (match r with [] => [] | z :: zs => XComma :: sepc (map rd (z :: zs)) end).
    pose proof (sepc_head _ rd y r []) as E. rewrite app_nil_r in E. rewrite E. cbn [app]. destruct r; rewrite ?app_nil_r; reflexivity.
  - destruct (IH H) as [pre [post E]]. destruct r as [|z zs]; [destruct H|].
    exists (rd x ++ XComma :: pre), post. cbn [map] in *. rewrite sepc_cons2, E. repeat (rewrite <- app_assoc; cbn [app]). reflexivity.
Qed.

Ltac split_here pre post := exists pre, post; cbn [app]; repeat (rewrite <- app_assoc; cbn [app]); rewrite ?app_nil_r; reflexivity.

Lemma child_render : forall p fp m f x, Child p fp m f x -> exists pre post, ebody fp p = pre ++ rat m f x ++ post.
Proof.
  intros p fp m f x H. destruct H; cbn [ebody].
  - split_here (@nil etok) (XOp o :: rat (rc o) fp r).
  - split_here (rat (lc o) true l ++ [XOp o]) (@nil etok).
  - split_here [XOp Sub] (@nil etok).
  - split_here (@nil etok) (XBetween :: rat 0 false lo ++ XBand :: rat rc_between fp hi).
  - split_here (rat lv_between true x ++ [XBetween]) (XBand :: rat rc_between fp hi).
  - split_here (rat lv_between true x ++ XBetween :: rat 0 false lo ++ [XBand]) (@nil etok).
  - split_here (@nil etok) [XInst ty].
  - split_here (@nil etok) [XDot n].
  - split_here (@nil etok) (XLb :: rat 0 false i ++ [XRb]).
  - split_here (rat c_post true x ++ [XLb]) [XRb].
  - split_here (@nil etok) (XLp :: sepc (map (rat 0 false) args) ++ [XRp]).
  - destruct (sepc_in _ (rat 0 false) _ _ H) as [pre [post E]]. rewrite E.
    split_here (rat c_post true g ++ XLp :: pre) (post ++ [XRp]).
  - split_here (@nil etok) (XLp :: sepc (map kvr (a :: args)) ++ [XRp]).
  - destruct (sepc_in _ kvr _ _ H) as [pre [post E]]. rewrite E. cbn [kvr].
    split_here (rat c_post true g ++ XLp :: pre ++ [XKey k]) (post ++ [XRp]).
  - split_here [XIf] (XThen :: rat 0 false a ++ XElse :: rat 0 false b).
  - split_here (XIf :: rat 0 false c ++ [XThen]) (XElse :: rat 0 false b).
  - split_here (XIf :: rat 0 false c ++ XThen :: rat 0 false a ++ [XElse]) (@nil etok).
  - destruct (sepc_in _ fdr _ _ H) as [pre [post E]]. rewrite E. destruct o as [e2|]; cbn [fdr].
    + split_here (XFor :: pre ++ [XBind v]) (XEll :: rat 0 false e2 ++ post ++ XReturn :: rat 0 false b).
    + split_here (XFor :: pre ++ [XBind v]) (post ++ XReturn :: rat 0 false b).
  - destruct (sepc_in _ fdr _ _ H) as [pre [post E]]. rewrite E. cbn [fdr].
    split_here (XFor :: pre ++ XBind v :: rat 0 false e ++ [XEll]) (post ++ XReturn :: rat 0 false b).
  - split_here (XFor :: sepc (map fdr (d :: ds)) ++ [XReturn]) (@nil etok).
  - destruct (sepc_in _ qdr _ _ H) as [pre [post E]]. rewrite E. cbn [qdr].
    split_here (quant_tok q :: pre ++ [XBind v]) (post ++ XSatisfies :: rat 0 false b).
  - split_here (quant_tok q :: sepc (map qdr (d :: ds)) ++ [XSatisfies]) (@nil etok).
  - split_here (XFun :: XLp :: sepc (map par_tok ps) ++ [XRp]) (@nil etok).
  - destruct (sepc_in _ (rat 0 false) _ _ H) as [pre [post E]]. rewrite E.
    split_here (XLb :: pre) (post ++ [XRb]).
  - destruct (sepc_in _ kvr _ _ H) as [pre [post E]]. rewrite E. cbn [kvr].
    split_here (XLc :: pre ++ [XKey k]) (post ++ [XRc]).
Qed.

Lemma occ_render : forall t m f x, Occ t m f x -> exists pre post, erender_min t = pre ++ rat m f x ++ post.
Proof.
  intros t m f x H. induction H as [|m f p m' f' x _ [pre [post IH]] Hc].
  - exists [], []. rewrite app_nil_r. reflexivity.
  - destruct (child_render _ _ _ _ _ Hc) as [pre' [post' Hb]]. rewrite IH, rat_eq.
    destruct (paren m f p); rewrite Hb.
    + exists (pre ++ XLp :: pre'), (post' ++ XRp :: post). repeat (rewrite <- app_assoc; cbn [app]). reflexivity.
    + exists (pre ++ pre'), (post' ++ post). repeat (rewrite <- app_assoc; cbn [app]). reflexivity.
Qed.

(* every pair of parentheses that the minimal rendering puts around an operand is needed *)
Theorem eneeded_paren_at : forall t m f x, Occ t m f x -> paren m f x = true ->
  exists pre post,
    erender_min t = pre ++ XLp :: ebody false x ++ XRp :: post /\
    eparse_tokens (pre ++ ebody false x ++ post) <> Some t.
Proof.
  intros t m f x Ho Hp. destruct (occ_render _ _ _ _ Ho) as [pre [post E]].
  rewrite rat_eq, Hp in E. cbn [app] in E. rewrite <- app_assoc in E. cbn [app] in E.
  exists pre, post. split; [exact E|]. eapply eneeded_paren_split. exact E.
Qed.

(* the positions of the task: an open construct as the LEFT operand of a binary operator is in parentheses, and they are needed ... *)
Corollary open_left_needed : forall o l r, low l = true ->
  erender_min (EBin o l r) = XLp :: ebody false l ++ XRp :: XOp o :: rat (rc o) false r /\
  eparse_tokens (ebody false l ++ XOp o :: rat (rc o) false r) <> Some (EBin o l r).
Proof.
  intros o l r Hl.
  assert (E : erender_min (EBin o l r) = XLp :: ebody false l ++ XRp :: XOp o :: rat (rc o) false r).
  { unfold erender_min. rewrite rat_eq. unfold paren at 1. cbn [low elvl]. cbn [ebody].
    rewrite (rat_eq (lc o) true l). unfold paren. rewrite Hl. repeat (rewrite <- app_assoc; cbn [app]). reflexivity. }
  split; [exact E|].
  apply (eneeded_paren_split (EBin o l r) [] (ebody false l) (XOp o :: rat (rc o) false r)). exact E.
Qed.

(* ... as the RIGHT operand (of an expression that nothing follows) it stands without parentheses *)
Corollary open_right_bare : forall o l r, low r = true ->
  erender_min (EBin o l r) = rat (lc o) true l ++ XOp o :: ebody false r.
Proof.
  intros o l r Hr. unfold erender_min. rewrite rat_eq. unfold paren at 1. cbn [low elvl ebody].
  rewrite (rat_eq (rc o) false r). unfold paren. rewrite Hr. reflexivity.
Qed.

(* ------------------------------------------------------------------ not vacuous *)

(* ( function ( p : T , q ) if a then for i in b , j in c .. d return i + j else e ) * ( f + some i in [ a , [ 2 .. 4 ] ] satisfies i )
   three pairs: around the function definition on the left of `*` (without it the else branch takes everything that follows: another
   tree), the parameter list (no tree), the sum on the right of `*` (another tree) *)
Definition ext_witness : etree :=
  EBin Mul (EFun [(1%N, Some 0%N); (3%N, None)]
              (EIf (EAtom 1)
                   (EFor (5%N, EAtom 7, None) [(9%N, EAtom 11, Some (EAtom 13))] (EBin Add (EAtom 5) (EAtom 9)))
                   (EAtom 15)))
           (EBin Add (EAtom 17) (EQuant QSome (5%N, EList [EAtom 1; ERange RoB 2 4 RcB]) [] (EAtom 5))).

Definition ext_witness_fun : etree :=
  EFun [(1%N, Some 0%N); (3%N, None)]
    (EIf (EAtom 1)
         (EFor (5%N, EAtom 7, None) [(9%N, EAtom 11, Some (EAtom 13))] (EBin Add (EAtom 5) (EAtom 9)))
         (EAtom 15)).

Lemma ext_witness_outcomes :
  erender_min ext_witness =
    [XLp; XFun; XLp; XPar 1 (Some 0%N); XComma; XPar 3 None; XRp; XIf; XAtom 1; XThen; XFor; XBind 5; XAtom 7; XComma;
     XBind 9; XAtom 11; XEll; XAtom 13; XReturn; XAtom 5; XOp Add; XAtom 9; XElse; XAtom 15; XRp;
     XOp Mul; XLp; XAtom 17; XOp Add; XSome; XBind 5; XLb; XAtom 1; XComma; XLb; XAtom 2; XEll; XAtom 4; XRb; XRb; XSatisfies; XAtom 5; XRp] /\
  eparse_tokens (erender_min ext_witness) = Some ext_witness /\
  eparse_tokens (erender_full ext_witness) = Some ext_witness /\
  ecount_lp (erender_min ext_witness) = 3 /\
  eparse_tokens (edrop_paren 0 (erender_min ext_witness)) =
    Some (EFun [(1%N, Some 0%N); (3%N, None)]
            (EIf (EAtom 1)
                 (EFor (5%N, EAtom 7, None) [(9%N, EAtom 11, Some (EAtom 13))] (EBin Add (EAtom 5) (EAtom 9)))
                 (EBin Mul (EAtom 15) (EBin Add (EAtom 17) (EQuant QSome (5%N, EList [EAtom 1; ERange RoB 2 4 RcB]) [] (EAtom 5)))))) /\
  eparse_tokens (edrop_paren 1 (erender_min ext_witness)) = None /\
  eparse_tokens (edrop_paren 2 (erender_min ext_witness)) =
    Some (EBin Add (EBin Mul ext_witness_fun (EAtom 17)) (EQuant QSome (5%N, EList [EAtom 1; ERange RoB 2 4 RcB]) [] (EAtom 5))).
Proof. vm_compute. repeat split; reflexivity. Qed.

(* the function definition of the witness in the structural form: the left operand of `*`, an open construct followed by a continuing token *)
Lemma ext_witness_occ : Occ ext_witness (lc Mul) true ext_witness_fun /\ paren (lc Mul) true ext_witness_fun = true.
Proof.
  split; [|reflexivity].
  eapply (Occ_step ext_witness 0 false ext_witness); [apply Occ_root|]. apply Ch_bin_l.
Qed.

(* deeper: the for expression inside the if inside the function stands in a delimited position (then .. else) and needs no parentheses *)
Lemma ext_witness_inner :
  Occ ext_witness 0 false (EFor (5%N, EAtom 7, None) [(9%N, EAtom 11, Some (EAtom 13))] (EBin Add (EAtom 5) (EAtom 9))) /\
  paren 0 false (EFor (5%N, EAtom 7, None) [(9%N, EAtom 11, Some (EAtom 13))] (EBin Add (EAtom 5) (EAtom 9))) = false.
Proof.
  split; [|reflexivity].
  eapply Occ_step; [|apply Ch_if_a]. eapply Occ_step; [|apply Ch_fun_b].
  eapply (Occ_step ext_witness 0 false ext_witness); [apply Occ_root|]. apply Ch_bin_l.
Qed.
