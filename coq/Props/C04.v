(* C04 — property theorems only.  Proofs are in C04/Proofs.v; models in C04/Model.v.
   run       = ImplModel: the recursive closure wiring of decision.rs / business_knowledge_model.rs / decision_service.rs
   spec_step = Spec: the node semantics tabulated once per node along a topological order of the requirement graph
   eval      = ANY expression evaluator that uses its service call-back extensionally (teval, the evaluator of the
               correspondence check, is one: C04_teval_ext); fixed = true is the code after the fix: commits.
   topo_ok G order: `order` lists node ids, each after all its requirements (acyclicity); fuel >= |order| suffices.
   agree l a b: the input contexts a and b bind the names in l alike. *)
From Coq Require Import List NArith ZArith Bool Arith.
From DV Require Import C04.Model C04.Proofs.
From DV Require C01.Syntax C01.Spec C01.Impl.
From DV Require Import C04.LinkC01.
Import ListNotations.

Definition extensional (eval : (N -> env -> value) -> env -> expr -> value) : Prop :=
  forall s1 s2 sc e, (forall i x, s1 i x = s2 i x) -> eval s1 sc e = eval s2 sc e.

(* recursive evaluation = topological evaluation on acyclic graphs, for every node kind, input context and sufficient fuel *)
Theorem C04_refines : forall eval, extensional eval -> forall fixed G order id f k inp out,
  topo_ok G order = true -> In id order -> length order <= f ->
  run eval fixed G f k id inp out = spec_step eval fixed G order k id inp out.
Proof. exact refines. Qed.
Theorem C04_invoke_refines : forall eval, extensional eval -> forall fixed G order id f inp,
  topo_ok G order = true -> In id order -> length order <= f ->
  impl_invoke eval fixed G f id inp = spec_invoke eval fixed G order id inp.
Proof. exact invoke_refines. Qed.
Theorem C04_fuel_sufficient : forall eval, extensional eval -> forall fixed G order id f1 f2 k inp out,
  topo_ok G order = true -> In id order -> length order <= f1 -> length order <= f2 ->
  run eval fixed G f1 k id inp out = run eval fixed G f2 k id inp out.
Proof. exact fuel_sufficient. Qed.
(* diamonds: a shared required decision has one value, whoever requires it *)
Theorem C04_diamond_agree : forall eval, extensional eval -> forall fixed G order shared f1 f2 inp out1 out2 name logic rk rd ri callable,
  topo_ok G order = true -> In shared order -> length order <= f1 -> length order <= f2 ->
  find shared G = Some (NDec name logic rk rd ri callable) ->
  lookup name (run eval fixed G f1 KDec shared inp out1) = lookup name (run eval fixed G f2 KDec shared inp out2).
Proof. exact diamond_agree. Qed.
(* input entries whose names do not occur in the requirement closure of the invoked element have no influence *)
Theorem C04_irrelevant_inputs : forall eval, extensional eval -> forall fixed G order id f inp1 inp2,
  topo_ok G order = true -> In id order -> length order <= f ->
  agree (closure_names G order id) inp1 inp2 ->
  impl_invoke eval fixed G f id inp1 = impl_invoke eval fixed G f id inp2.
Proof. exact irrelevant_inputs. Qed.
(* the Spec is a fixed point of the closure body: every node's entry is its closure run over the entries of its requirements *)
Theorem C04_spec_fixpoint : forall eval, extensional eval -> forall fixed G order id k inp out,
  topo_ok G order = true -> In id order ->
  spec_step eval fixed G order k id inp out = body eval fixed G (spec_step eval fixed G order) k id inp out.
Proof. exact table_fixpoint. Qed.
(* the first sentence of the property: the value of a decision is its logic evaluated in the scope that overlays its required
   inputs with the knowledge context (function values) and with each required decision's variable bound to that decision's own
   value (dec_binds); an input entry named like a knowledge / decision binding replaces it (interpretive choice, see props/c04.py) *)
Theorem C04_decision_scope : forall eval, extensional eval -> forall fixed G order id name logic rk rd ri callable inp out,
  topo_ok G order = true -> In id order -> find id G = Some (NDec name logic rk rd ri callable) ->
  let step := spec_step eval fixed G order in
  step KDec id inp out =
  set name (eval (svc_call G step callable)
                 (zip (inputs_into G ri inp []) (overwrite (zip (knowledge_ctx G step rk inp) (dec_binds G step rd inp)) inp)) logic) out.
Proof. exact decision_scope. Qed.
Theorem C04_decision_sees : forall eval, extensional eval -> forall fixed G order rk rd ri inp n, topo_ok G order = true ->
  let step := spec_step eval fixed G order in
  let kd := zip (knowledge_ctx G step rk inp) (dec_binds G step rd inp) in
  lookup n (zip (inputs_into G ri inp []) (overwrite kd inp)) =
  match (match lookup n (rev (dec_binds G step rd inp)) with Some v => Some v | None => lookup n (knowledge_ctx G step rk inp) end) with
  | Some v => Some (match lookup n inp with Some v' => v' | None => v end)
  | None => if mem n (input_names G ri) then Some (input_value n inp) else None
  end.
Proof. intros eval _. exact (decision_sees eval). Qed.
(* a decision service returns its output decisions' values (one output: the value; several: a context of them), the
   encapsulated and output decisions being evaluated on the input context the service builds *)
Theorem C04_service_outputs : forall eval, extensional eval -> forall fixed G order id name ins indecs encs outs inp out,
  topo_ok G order = true -> In id order -> find id G = Some (NSvc name ins indecs encs outs) ->
  let step := spec_step eval fixed G order in
  let e3 := service_input G step ins indecs inp in
  let results := zip (zip [] (dec_binds G step encs e3)) (dec_binds G step outs e3) in
  step KSvc id inp out =
  match dec_names G outs with
  | [n] => match lookup n results with Some v => set name v out | None => out end
  | ons => set name (VCtx (fold_left (fun acc n => match lookup n results with Some v => set n v acc | None => acc end) ons [])) out
  end.
Proof. exact service_outputs. Qed.
(* the evaluator used by the correspondence check meets the assumption, so the theorems apply to what is compared with the code *)
Theorem C04_teval_ext : extensional teval.
Proof. exact teval_ext_svc. Qed.
Theorem C04_refines_teval : forall G order id f inp, topo_ok G order = true -> In id order -> length order <= f ->
  impl_invoke teval true G f id inp = spec_invoke teval true G order id inp.
Proof. exact (invoke_refines teval teval_ext_svc true). Qed.
Theorem C04_irrelevant_inputs_teval : forall G order id f inp1 inp2, topo_ok G order = true -> In id order -> length order <= f ->
  agree (closure_names G order id) inp1 inp2 -> impl_invoke teval true G f id inp1 = impl_invoke teval true G f id inp2.
Proof. exact (irrelevant_inputs teval teval_ext_svc true). Qed.

(* the pinned commit: boxed context entries leaked into the enclosing context *)
Theorem C04_context_leak_orig_refuted :
  teval_orig (fun _ _ => VNull) [] leak_logic = VCtx [(2001%N, VCtx [(2002%N, vnum 42)]); (2003%N, vnum 42)] /\
  teval (fun _ _ => VNull) [] leak_logic = VCtx [(2001%N, VCtx [(2002%N, vnum 42)]); (2003%N, VNull)].
Proof. exact context_leak_orig_refuted. Qed.
(* the pinned commit: a knowledge model requiring a decision service received the service's value, not a function *)
Theorem C04_knowledge_service_orig_refuted :
  topo_ok G_ks O_ks = true /\ callable_ok G_ks = true /\
  impl_invoke teval true G_ks 6 5%N [(1%N, vnum 1)] = vnum 20 /\
  impl_invoke teval false G_ks 6 5%N [(1%N, vnum 1)] = VNull.
Proof. exact knowledge_service_orig_refuted. Qed.

Example C04_nonvacuous :
  topo_ok G_ex O_ex = true /\ callable_ok G_ex = true /\
  impl_invoke teval true G_ex 11 6%N [(1%N, vnum 2); (2%N, vnum 3)] = vnum 18 /\
  impl_invoke teval true G_ex 11 10%N [(1%N, vnum 2); (2%N, vnum 3); (3001%N, vnum 9)] =
    VCtx [(2001%N, vnum 54); (2002%N, VCtx [(6%N, VNull); (4%N, vnum 36)])] /\
  closure_names G_ex O_ex 6%N = [6; 4; 1; 3; 1; 2; 5; 2; 3; 1; 2]%N.
Proof. exact nonvacuous. Qed.

(* teval IS the FEEL evaluator model of C01 (C01/Spec.v eval_spec = the scope-stack machine C01/Impl.v run_impl that
   transliterates feel-evaluator/src/builders.rs) on the fragment both express: null, numbers (decimal128 data with the
   rounded + * of Base/DecRound.v on both sides), strings (+ concatenates), names, literal invocation f(a, b) of a
   knowledge-model function value (formal parameters set one after the other: of two equal names the last argument wins),
   boxed context with or without result entry (tr_e, tr_v, tr_env in C04/LinkC01.v; boxed invocation, relation and
   decision-service function values have no C01 counterpart).
   shared f sc e = true: the evaluation of e in sc stays inside that fragment within f levels — no other hypothesis:
   numbers of any size, string operands and repeated formal parameter names are covered.  The values are EQUAL
   (the sign of a zero included). *)
Theorem C04_teval_is_feel_eval : forall svc sc e fuel, shared TFUEL sc e = true -> 2 * TFUEL <= fuel ->
  C01.Spec.eval_spec fuel (tr_env sc) (tr_e e) = tr_v (teval svc sc e) /\
  fst (C01.Impl.run_impl fuel (tr_env sc) (tr_e e)) = tr_v (teval svc sc e) /\
  snd (C01.Impl.run_impl fuel (tr_env sc) (tr_e e)) = tr_env sc.
Proof. exact teval_is_feel_eval. Qed.

(* the same for every fuel f of the tiny evaluator, every enumeration function of C01's eval and every C01 stack that binds
   the names as the C04 scope does *)
Theorem C04_tev_is_feel_eval : forall cartf svc f sc S e g, shared f sc e = true -> 2 * f <= g -> srel sc S ->
  C01.Spec.eval cartf g S (tr_e e) = tr_v (fst (tev false f svc sc e)).
Proof. exact tev_is_feel_eval. Qed.

Example C04_teval_is_feel_eval_nonvacuous :
  shared TFUEL link_env link_e = true /\
  teval no_svc link_env link_e = vnum (-24) /\
  C01.Spec.eval_spec 120 (tr_env link_env) (tr_e link_e) = C01.Syntax.VNum (Base.Dec.of_Z (-24) 0) /\
  fst (C01.Impl.run_impl 120 (tr_env link_env) (tr_e link_e)) = C01.Syntax.VNum (Base.Dec.of_Z (-24) 0) /\
  shared TFUEL link_env (ECall 1%N [enum 5]) = true /\ teval no_svc link_env (ECall 1%N [enum 5]) = VNull /\
  shared TFUEL link_env (EAdd (EVar 2%N) ENull) = true /\ teval no_svc link_env (EAdd (EVar 2%N) ENull) = VNull.
Proof. exact link_nonvacuous. Qed.

(* the former corners, now agreement examples: the three places where an earlier tiny evaluator (integers in Z, no string
   case in +, the first of two equal formal parameter names bound) differed from C01 and from the real code are inside the
   hypotheses, and teval, C01 and the real code (dv model: "ab", 2, 1E+34, -0) answer alike:
   "a" + "b" (and string + number, string * string = null); f(1, 2) for formal parameters (x, x) and body x;
   a * a + 1 at a = 10^17 (35 digits, rounded to 1E+34) and a 35-digit literal (rounded half-even when read); -3 * 0 = -0 *)
Theorem C04_teval_feel_corners :
  (let e := EAdd (EStr [97%N]) (EStr [98%N]) in
   shared TFUEL [] e = true /\ teval no_svc [] e = VStr [97%N; 98%N] /\
   C01.Spec.eval_spec 5 (tr_env []) (tr_e e) = C01.Syntax.VStr [97%N; 98%N] /\
   teval no_svc [] (EAdd (EStr [97%N]) (enum 1)) = VNull /\ teval no_svc [] (EMul (EStr [97%N]) (EStr [98%N])) = VNull) /\
  (let sc := [(1%N, VBkm [10%N; 10%N] (EVar 10%N))] in let e := ECall 1%N [enum 1; enum 2] in
   shared TFUEL sc e = true /\ teval no_svc sc e = vnum 2 /\
   C01.Spec.eval_spec 5 (tr_env sc) (tr_e e) = C01.Syntax.VNum (Base.Dec.of_Z 2 0)) /\
  (let e := EAdd (EMul (enum (10 ^ 17)) (enum (10 ^ 17))) (enum 1) in
   shared TFUEL [] e = true /\ teval no_svc [] e = VNum (Base.Dec.mkdec false (10 ^ 33) 1) /\
   C01.Spec.eval_spec 5 (tr_env []) (tr_e e) = C01.Syntax.VNum (Base.Dec.mkdec false (10 ^ 33) 1) /\
   num_lit 99999999999999999999999999999999995 = Base.Dec.mkdec false (10 ^ 33) 2) /\
  (let e := EMul (enum (-3)) (enum 0) in
   shared TFUEL [] e = true /\ teval no_svc [] e = VNum (Base.Dec.mkdec true 0 0) /\
   C01.Spec.eval_spec 5 (tr_env []) (tr_e e) = C01.Syntax.VNum (Base.Dec.mkdec true 0 0)).
Proof. exact (conj str_concat_agrees (conj dup_params_agree (conj rounding_agrees negative_zero_agrees))). Qed.


Print Assumptions C04_refines.
Print Assumptions C04_invoke_refines.
Print Assumptions C04_fuel_sufficient.
Print Assumptions C04_diamond_agree.
Print Assumptions C04_irrelevant_inputs.
Print Assumptions C04_spec_fixpoint.
Print Assumptions C04_decision_scope.
Print Assumptions C04_decision_sees.
Print Assumptions C04_service_outputs.
Print Assumptions C04_teval_ext.
Print Assumptions C04_refines_teval.
Print Assumptions C04_irrelevant_inputs_teval.
Print Assumptions C04_context_leak_orig_refuted.
Print Assumptions C04_knowledge_service_orig_refuted.
Print Assumptions C04_nonvacuous.
Print Assumptions C04_teval_is_feel_eval.
Print Assumptions C04_tev_is_feel_eval.
Print Assumptions C04_teval_is_feel_eval_nonvacuous.
Print Assumptions C04_teval_feel_corners.
