(* C15/ChronoProofs.v — proofs about C15/Chrono.v.  Every statement is for all inputs; the two finite facts are
   chrono's YEAR_DELTAS table against the calendar (400 entries, vm_compute) and closed examples. *)
From Coq Require Import ZArith NArith Bool List Lia.
From DV Require Import Base.Calendar Base.CalendarProofs C15.Model C15.Proofs C15.Chrono.
Import ListNotations.
Open Scope Z_scope.

(* ================= the calendar as a relation ================= *)
Lemma Leap_leap : forall y, Leap y <-> leap y = true.
Proof. intros y. symmetry. apply leap_iff. Qed.

Lemma MonthLength_last_day : forall y m n, MonthLength y m n <-> (1 <= m <= 12 /\ n = last_day y m).
Proof.
  intros y m n. unfold MonthLength. split.
  - intros [[H ->]|[[H ->]|[[-> [L ->]]|[-> [L ->]]]]].
    + split; [lia|]. destruct H as [->|[->|[->|[->|[->|[->| ->]]]]]]; reflexivity.
    + split; [lia|]. destruct H as [->|[->|[->| ->]]]; reflexivity.
    + split; [lia|]. cbn. apply Leap_leap in L. rewrite L. reflexivity.
    + split; [lia|]. cbn. destruct (leap y) eqn:E; [|reflexivity]. exfalso. apply L. apply Leap_leap. exact E.
  - intros [Hm ->]. month_split m Hm; cbn; try tauto.
    destruct (leap y) eqn:E.
    + right; right; left. split; [reflexivity|]. split; [apply Leap_leap; exact E | reflexivity].
    + right; right; right. split; [reflexivity|]. split; [|reflexivity]. intro L. apply Leap_leap in L. congruence.
Qed.

Theorem valid_ValidDate : forall y m d, valid y m d = true <-> ValidDate y m d.
Proof.
  intros y m d. rewrite valid_iff. unfold ValidDate. split.
  - intros [Hm Hd]. split; [exact Hm|]. exists (last_day y m). split; [|exact Hd]. apply MonthLength_last_day. tauto.
  - intros [Hm [n [L Hd]]]. apply MonthLength_last_day in L. destruct L as [_ ->]. tauto.
Qed.

(* the code's leap rule: Rust % truncates *)
Lemma rem_zero_iff : forall y k, 0 < k -> (Z.rem y k = 0 <-> y mod k = 0).
Proof. intros y k Hk. rewrite Z.rem_divide, Z.mod_divide by lia. tauto. Qed.

Lemma rem_eqb_mod : forall y k, 0 < k -> (Z.rem y k =? 0) = (y mod k =? 0).
Proof.
  intros y k Hk. pose proof (rem_zero_iff y k Hk) as H.
  destruct (Z.eqb_spec (Z.rem y k) 0); destruct (Z.eqb_spec (y mod k) 0); tauto.
Qed.

Theorem is_leap_year_code_leap : forall y, is_leap_year_code y = leap y.
Proof. intros y. unfold is_leap_year_code, leap. rewrite !rem_eqb_mod by lia. reflexivity. Qed.

Theorem is_leap_year_code_Leap : forall y, is_leap_year_code y = true <-> Leap y.
Proof. intros y. rewrite is_leap_year_code_leap. symmetry. apply Leap_leap. Qed.

Lemma last_day_of_month_code_eq : forall y m,
  last_day_of_month_code y m = if (1 <=? m) && (m <=? 12) then Some (last_day y m) else None.
Proof.
  intros y m. unfold last_day_of_month_code, last_day. rewrite is_leap_year_code_leap.
  destruct m as [|p|p]; try reflexivity.
  do 4 (destruct p as [p|p|]; try reflexivity).
Qed.

Theorem last_day_of_month_code_MonthLength : forall y m n, last_day_of_month_code y m = Some n <-> MonthLength y m n.
Proof.
  intros y m n. rewrite last_day_of_month_code_eq, MonthLength_last_day.
  destruct (Z.leb_spec 1 m) as [A|A]; destruct (Z.leb_spec m 12) as [B|B]; cbn [andb]; split; intros H;
    try discriminate; try lia; try (injection H as <-; lia); try (destruct H as [_ ->]; reflexivity).
Qed.
Lemma civil_roundtrip_3 : forall a, valid3 a = true -> civil_from_days (days3 a) = a.
Proof. intros [[y m] d] V. apply civil_roundtrip. exact V. Qed.
(* ================= the successor of a date pins the day number and the weekday ================= *)
Theorem next_date_valid : forall a, valid3 a = true -> valid3 (next_date a) = true.
Proof.
  intros [[y m] d] V. cbn [valid3] in V. apply valid_iff in V. destruct V as [Hm Hd]. unfold next_date.
  destruct (Z.ltb_spec d (last_day y m)) as [L|L]; cbn [valid3].
  - apply valid_iff. lia.
  - destruct (Z.ltb_spec m 12) as [M|M]; cbn [valid3]; apply valid_iff.
    + pose proof (last_day_range y (m + 1)). lia.
    + cbn. lia.
Qed.

Theorem next_date_days : forall a, valid3 a = true -> days3 (next_date a) = days3 a + 1.
Proof.
  intros [[y m] d] V. cbn [valid3] in V. apply valid_iff in V. destruct V as [Hm Hd]. unfold next_date.
  destruct (Z.ltb_spec d (last_day y m)) as [L|L]; cbn [days3].
  - unfold days_from_civil. lia.
  - assert (d = last_day y m) by lia. subst d.
    destruct (Z.ltb_spec m 12) as [M|M]; cbn [days3].
    + apply next_day_next_month. lia.
    + assert (m = 12) by lia. subst m. cbn [last_day]. apply next_day_next_year.
Qed.

Lemma civil_next : forall z, civil_from_days (z + 1) = next_date (civil_from_days z).
Proof.
  intros z. destruct (civil_from_days_correct z) as [V D]. destruct (civil_from_days_correct (z + 1)) as [V1 D1].
  apply days_injective; [exact V1 | apply next_date_valid; exact V |].
  rewrite D1, next_date_days, D by exact V. reflexivity.
Qed.

Lemma civil_epoch : civil_from_days 0 = epoch.
Proof. vm_compute. reflexivity. Qed.

(* any function that is 0 on 1970-01-01 and grows by one from each date to the next IS the day number *)
Theorem day_number_unique : forall f : date -> Z,
  f epoch = 0 -> (forall a, valid3 a = true -> f (next_date a) = f a + 1) ->
  forall a, valid3 a = true -> f a = days3 a.
Proof.
  intros f H0 Hs.
  assert (U : forall n : nat, f (civil_from_days (Z.of_nat n)) = Z.of_nat n /\ f (civil_from_days (- Z.of_nat n)) = - Z.of_nat n).
  { induction n as [|n [IH1 IH2]].
    - change (Z.of_nat 0) with 0. change (- 0) with 0. rewrite civil_epoch. split; exact H0.
    - rewrite Nat2Z.inj_succ. split.
      + replace (Z.succ (Z.of_nat n)) with (Z.of_nat n + 1) by lia. rewrite civil_next, Hs, IH1; [reflexivity|].
        apply civil_from_days_correct.
      + assert (E : civil_from_days (- Z.of_nat n) = next_date (civil_from_days (- Z.succ (Z.of_nat n)))).
        { rewrite <- civil_next. f_equal. lia. }
        rewrite E, Hs in IH2 by apply civil_from_days_correct. lia. }
  intros a V. rewrite <- (civil_roundtrip_3 a V) at 1.
  destruct (Z_le_gt_dec 0 (days3 a)) as [P|P].
  - destruct (U (Z.to_nat (days3 a))) as [U1 _]. rewrite Z2Nat.id in U1 by lia. exact U1.
  - destruct (U (Z.to_nat (- days3 a))) as [_ U2]. rewrite Z2Nat.id in U2 by lia.
    replace (- - days3 a) with (days3 a) in U2 by lia. exact U2.
Qed.

Theorem days_from_next : days3 epoch = 0 /\ forall a, valid3 a = true -> valid3 (next_date a) = true /\ days3 (next_date a) = days3 a + 1.
Proof. split; [vm_compute; reflexivity|]. intros a V. split; [apply next_date_valid | apply next_date_days]; exact V. Qed.

(* weekday: Thursday on 1970-01-01, and from each date to the next Monday..Sunday in turn *)
Lemma weekday3_days : forall a, weekday3 a = weekday_of_days (days3 a).
Proof. intros [[y m] d]. reflexivity. Qed.

Theorem weekday_next_date : forall a, valid3 a = true ->
  1 <= weekday3 a <= 7 /\ weekday3 (next_date a) = weekday3 a mod 7 + 1.
Proof.
  intros a V. rewrite !weekday3_days, (next_date_days a V). split; [apply weekday_range | apply weekday_next].
Qed.

Theorem weekday_unique : forall w : date -> Z,
  w epoch = 4 -> (forall a, valid3 a = true -> 1 <= w a <= 7) ->
  (forall a, valid3 a = true -> w (next_date a) = w a mod 7 + 1) ->
  forall a, valid3 a = true -> w a = weekday3 a.
Proof.
  intros w H0 Hr Hs.
  assert (E0 : weekday3 epoch = 4) by (vm_compute; reflexivity).
  assert (U : forall n : nat, w (civil_from_days (Z.of_nat n)) = weekday3 (civil_from_days (Z.of_nat n)) /\
                              w (civil_from_days (- Z.of_nat n)) = weekday3 (civil_from_days (- Z.of_nat n))).
  { induction n as [|n [IH1 IH2]].
    - change (Z.of_nat 0) with 0. change (- 0) with 0. rewrite civil_epoch, H0, E0. split; reflexivity.
    - rewrite Nat2Z.inj_succ. split.
      + replace (Z.succ (Z.of_nat n)) with (Z.of_nat n + 1) by lia. rewrite civil_next.
        pose proof (proj1 (civil_from_days_correct (Z.of_nat n))) as V.
        rewrite (Hs _ V), (proj2 (weekday_next_date _ V)), IH1. reflexivity.
      + assert (E : civil_from_days (- Z.of_nat n) = next_date (civil_from_days (- Z.succ (Z.of_nat n)))).
        { rewrite <- civil_next. f_equal. lia. }
        pose proof (proj1 (civil_from_days_correct (- Z.succ (Z.of_nat n)))) as V.
        rewrite E, (Hs _ V), (proj2 (weekday_next_date _ V)) in IH2.
        pose proof (Hr _ V). pose proof (proj1 (weekday_next_date _ V)).
        Z.div_mod_to_equations. lia. }
  intros a V. rewrite <- (civil_roundtrip_3 a V).
  destruct (Z_le_gt_dec 0 (days3 a)) as [P|P].
  - destruct (U (Z.to_nat (days3 a))) as [U1 _]. rewrite Z2Nat.id in U1 by lia. exact U1.
  - destruct (U (Z.to_nat (- days3 a))) as [_ U2]. rewrite Z2Nat.id in U2 by lia.
    replace (- - days3 a) with (days3 a) in U2 by lia. exact U2.
Qed.

(* the code's weekday (FeelDate::weekday: its own March-based era arithmetic on i64) is that function *)
Theorem weekday_impl_is_calendar : forall a, valid3 a = true -> weekday_impl a = Some (weekday3 a).
Proof. intros [[y m] d] V. rewrite (weekday_impl_correct _ V). reflexivity. Qed.
(* ================= chrono: NaiveDate as (year, ordinal) ================= *)
Definition daynum (a : ndate) : Z := days_from_civil (fst a) 1 1 + (snd a - 1).
Definition nd_ok (a : ndate) : Prop := chrono_year (fst a) = true /\ 1 <= snd a <= year_len (fst a).
Definition MIN_DAY : Z := days_from_civil (-262143) 1 1.
Definition MAX_DAY : Z := days_from_civil 262142 12 31.

Lemma jan1 : forall y, days_from_civil y 1 1 = before_year y - 719528.
Proof. intros y. unfold days_from_civil, before_month. cbn. lia. Qed.

Lemma days_doy : forall y m d, days_from_civil y m d = days_from_civil y 1 1 + (before_month y m + d - 1).
Proof. intros y m d. rewrite jan1. unfold days_from_civil. lia. Qed.

Lemma chrono_year_iff : forall y, chrono_year y = true <-> -262143 <= y <= 262142.
Proof. intros y. unfold chrono_year. rewrite andb_true_iff, !Z.leb_le. tauto. Qed.

Lemma nd_from_ymd_spec : forall y m d nd, nd_from_ymd y m d = Some nd ->
  chrono_date y m d = true /\ nd_ok nd /\ daynum nd = days_from_civil y m d.
Proof.
  intros y m d nd H. unfold nd_from_ymd in H. fold (chrono_date y m d) in H.
  destruct (chrono_date y m d) eqn:C; [|discriminate]. injection H as <-.
  unfold chrono_date in C. apply andb_true_iff in C. destruct C as [Cy V].
  split; [reflexivity|]. pose proof (doy_range y m d V). split.
  - split; [exact Cy|]. cbn [fst snd]. lia.
  - unfold daynum. cbn [fst snd]. rewrite (days_doy y m d). lia.
Qed.

Lemma nd_from_ymd_none : forall y m d, nd_from_ymd y m d = None -> chrono_date y m d = false.
Proof. intros y m d H. unfold nd_from_ymd in H. fold (chrono_date y m d) in H. destruct (chrono_date y m d); [discriminate | reflexivity]. Qed.

Lemma year_start_mono : forall y1 y2, y1 < y2 -> days_from_civil y1 1 1 + year_len y1 <= days_from_civil y2 1 1.
Proof. intros y1 y2 H. rewrite !jan1. pose proof (before_year_mono y1 y2 H). lia. Qed.

Lemma max_day_eq : MAX_DAY = days_from_civil 262142 1 1 + year_len 262142 - 1.
Proof. vm_compute. reflexivity. Qed.

Lemma daynum_range : forall a, nd_ok a -> MIN_DAY <= daynum a <= MAX_DAY.
Proof.
  intros [y o] [Cy Ho]. cbn [fst snd] in *. apply chrono_year_iff in Cy. unfold daynum. cbn [fst snd]. split.
  - unfold MIN_DAY. destruct (Z.eq_dec y (-262143)) as [->|Hne]; [lia|].
    pose proof (year_start_mono (-262143) y). pose proof (year_len_pos (-262143)). lia.
  - rewrite max_day_eq. destruct (Z.eq_dec y 262142) as [->|Hne]; [lia|].
    pose proof (year_start_mono y 262142). pose proof (year_len_pos 262142). lia.
Qed.

Lemma nd_succ_spec : forall a, nd_ok a ->
  match nd_succ a with
  | Some b => nd_ok b /\ daynum b = daynum a + 1
  | None => daynum a = MAX_DAY
  end.
Proof.
  intros [y o] [Cy Ho]. cbn [fst snd] in *. unfold nd_succ.
  destruct (Z.leb_spec (o + 1) (year_len y)) as [L|L].
  - split; [split; cbn [fst snd]; [exact Cy | lia] | unfold daynum; cbn [fst snd]; lia].
  - assert (o = year_len y) by lia. subst o. destruct (chrono_year (y + 1)) eqn:C1.
    + split; [split; cbn [fst snd]; [exact C1 | pose proof (year_len_pos (y + 1)); lia]|].
      unfold daynum. cbn [fst snd]. destruct (year_length y) as [E _]. rewrite E. unfold year_len. lia.
    + apply chrono_year_iff in Cy. assert (y = 262142).
      { destruct (Z_lt_le_dec y 262142) as [Hl|Hl]; [|lia]. exfalso.
        assert (chrono_year (y + 1) = true) by (apply chrono_year_iff; lia). congruence. }
      subst y. rewrite max_day_eq. unfold daynum. cbn [fst snd]. lia.
Qed.

Lemma nd_pred_spec : forall a, nd_ok a ->
  match nd_pred a with
  | Some b => nd_ok b /\ daynum b = daynum a - 1
  | None => daynum a = MIN_DAY
  end.
Proof.
  intros [y o] [Cy Ho]. cbn [fst snd] in *. unfold nd_pred.
  destruct (Z.ltb_spec 0 (o - 1)) as [L|L].
  - split; [split; cbn [fst snd]; [exact Cy | lia] | unfold daynum; cbn [fst snd]; lia].
  - assert (o = 1) by lia. subst o. destruct (nd_from_ymd (y - 1) 12 31) as [b|] eqn:E.
    + destruct (nd_from_ymd_spec _ _ _ _ E) as [_ [Ok D]]. split; [exact Ok|]. rewrite D.
      unfold daynum. cbn [fst snd]. pose proof (next_day_next_year (y - 1)) as N.
      replace (y - 1 + 1) with y in N by lia. lia.
    + apply nd_from_ymd_none in E. unfold chrono_date in E.
      assert (V : valid (y - 1) 12 31 = true) by (apply valid_iff; cbn; lia). rewrite V, andb_true_r in E.
      apply chrono_year_iff in Cy. assert (y = -262143).
      { destruct (Z_lt_le_dec (-262143) y) as [Hl|Hl]; [|lia]. exfalso.
        assert (chrono_year (y - 1) = true) by (apply chrono_year_iff; lia). congruence. }
      subst y. reflexivity.
Qed.

Lemma nd_cmp_daynum : forall a b, nd_ok a -> nd_ok b -> nd_cmp a b = (daynum a ?= daynum b).
Proof.
  intros [y1 o1] [y2 o2] [_ H1] [_ H2]. cbn [fst snd] in *. unfold nd_cmp, daynum. cbn [fst snd].
  destruct (Z.compare_spec y1 y2) as [E|L|G].
  - subst y2. destruct (Z.compare_spec o1 o2); symmetry;
      [apply Z.compare_eq_iff | apply Z.compare_lt_iff | apply Z.compare_gt_iff]; lia.
  - pose proof (year_start_mono y1 y2 L). symmetry. apply Z.compare_lt_iff. lia.
  - pose proof (year_start_mono y2 y1 G). symmetry. apply Z.compare_gt_iff. lia.
Qed.

(* the table of chrono against the calendar: one cycle, swept *)
Definition yd_check (i : Z) : bool := days_from_civil i 1 1 =? i * 365 + nth (Z.to_nat i) YEAR_DELTAS 0 + days_from_civil 0 1 1.
Lemma yd_sweep : forallb yd_check (zrange 0 400) = true /\ length YEAR_DELTAS = 401%nat.
Proof. vm_compute. split; reflexivity. Qed.

Lemma year_start_cycle : forall y,
  days_from_civil y 1 1 = (y / 400) * 146097 + yo_to_cycle (y mod 400) 1 + days_from_civil 0 1 1.
Proof.
  intros y. assert (E : y = y mod 400 + 400 * (y / 400)) by (Z.div_mod_to_equations; lia).
  rewrite E at 1. rewrite days_period.
  destruct yd_sweep as [W _]. rewrite forallb_forall in W. specialize (W (y mod 400)). rewrite zrange_In in W.
  assert (R : 0 <= y mod 400 < 0 + Z.of_nat 400) by (Z.div_mod_to_equations; lia). specialize (W R).
  unfold yd_check in W. apply Z.eqb_eq in W. rewrite W. unfold yo_to_cycle. lia.
Qed.

Lemma nd_days_since_spec : forall a b, nd_days_since a b = daynum a - daynum b.
Proof.
  intros [y1 o1] [y2 o2]. unfold nd_days_since, daynum. cbn [fst snd].
  rewrite (year_start_cycle y1), (year_start_cycle y2). unfold yo_to_cycle. lia.
Qed.
(* ================= the UTC date-time chrono computes ================= *)
Definition ndt_val (u : ndt) : Z := let '(nd, s, f) := u in daynum nd * DAY_NS + s * NS + f.
Definition ndt_ok (u : ndt) : Prop := let '(nd, s, f) := u in nd_ok nd /\ 0 <= s < 86400 /\ 0 <= f < NS.

Lemma valid_tod_iff : forall x, valid_tod x = true <->
  (0 <= dt_h x < 24 /\ 0 <= dt_mi x < 60 /\ 0 <= dt_s x < 60 /\ 0 <= dt_ns x < NS).
Proof. intros x. unfold valid_tod. rewrite !andb_true_iff, !Z.leb_le, !Z.ltb_lt. tauto. Qed.

Lemma instant_split : forall x, instant x =
  days3 (dt_date x) * DAY_NS + (dt_h x * 3600 + dt_mi x * 60 + dt_s x - dt_off x) * NS + dt_ns x.
Proof. intros x. unfold instant, tod_ns, DAY_NS. ring. Qed.

Lemma min_instant_eq : chrono_min_instant = MIN_DAY * DAY_NS.
Proof. reflexivity. Qed.
Lemma max_instant_eq : chrono_max_instant = MAX_DAY * DAY_NS + (DAY_NS - 1).
Proof. reflexivity. Qed.

Lemma ndt_val_range : forall u, ndt_ok u -> chrono_min_instant <= ndt_val u <= chrono_max_instant.
Proof.
  intros [[nd s] f] [Ok [Hs Hf]]. pose proof (daynum_range nd Ok) as R. rewrite min_instant_eq, max_instant_eq.
  unfold ndt_val, DAY_NS, NS in *. nia.
Qed.

(* what chrono_utc returns, and exactly when it returns nothing *)
Theorem chrono_utc_spec : forall x,
  match chrono_utc x with
  | Some u => ndt_ok u /\ ndt_val u = instant x /\ chrono_dt x = true
  | None => chrono_dt x = false
  end.
Proof.
  intros x. unfold chrono_utc, chrono_dt. destruct (dt_date x) as [[y m] d] eqn:Ed. cbn [chrono_date3].
  destruct (nd_from_ymd y m d) as [nd|] eqn:En.
  2:{ rewrite (nd_from_ymd_none _ _ _ En). reflexivity. }
  destruct (nd_from_ymd_spec _ _ _ _ En) as [Cd [Ok Dn]]. rewrite Cd. cbn [andb].
  destruct (valid_tod x) eqn:Vt; cbn [andb]; [|reflexivity].
  destruct (Z.ltb_spec (-86400) (dt_off x)) as [O1|O1]; cbn [andb]; [|reflexivity].
  destruct (Z.ltb_spec (dt_off x) 86400) as [O2|O2]; cbn [andb]; [|reflexivity].
  apply valid_tod_iff in Vt. destruct Vt as [Hh [Hmi [Hs Hns]]].
  set (secs := dt_h x * 3600 + dt_mi x * 60 + dt_s x - dt_off x).
  assert (Hsecs : -86400 < secs < 172800) by (unfold secs; lia).
  assert (Hr : 0 <= secs mod 86400 < 86400) by (apply Z.mod_pos_bound; lia).
  assert (Hd : secs = 86400 * (secs / 86400) + secs mod 86400) by (apply Z.div_mod; lia).
  assert (Inst : instant x = (daynum nd + secs / 86400) * DAY_NS + (secs mod 86400) * NS + dt_ns x).
  { rewrite instant_split, Ed. cbn [days3]. rewrite <- Dn. fold secs. rewrite Hd at 1. unfold DAY_NS. ring. }
  assert (Cases : secs / 86400 = -1 \/ secs / 86400 = 0 \/ secs / 86400 = 1) by lia.
  pose proof (daynum_range nd Ok) as Rn.
  destruct Cases as [C|[C|C]]; rewrite C in *.
  - pose proof (nd_pred_spec nd Ok) as P. destruct (nd_pred nd) as [nd'|].
    + destruct P as [Ok' D']. assert (U : ndt_ok (nd', secs mod 86400, dt_ns x)) by (cbn; tauto).
      assert (E : ndt_val (nd', secs mod 86400, dt_ns x) = instant x) by (cbn [ndt_val]; rewrite Inst, D'; ring).
      split; [exact U|]. split; [exact E|]. pose proof (ndt_val_range _ U) as R. rewrite E in R.
      apply andb_true_iff. rewrite !Z.leb_le. exact R.
    + apply andb_false_iff. left. apply Z.leb_gt. rewrite Inst, P, min_instant_eq. unfold DAY_NS, NS in *. nia.
  - assert (U : ndt_ok (nd, secs mod 86400, dt_ns x)) by (cbn; tauto).
    assert (E : ndt_val (nd, secs mod 86400, dt_ns x) = instant x) by (cbn [ndt_val]; rewrite Inst; ring).
    split; [exact U|]. split; [exact E|]. pose proof (ndt_val_range _ U) as R. rewrite E in R.
    apply andb_true_iff. rewrite !Z.leb_le. exact R.
  - pose proof (nd_succ_spec nd Ok) as P. destruct (nd_succ nd) as [nd'|].
    + destruct P as [Ok' D']. assert (U : ndt_ok (nd', secs mod 86400, dt_ns x)) by (cbn; tauto).
      assert (E : ndt_val (nd', secs mod 86400, dt_ns x) = instant x) by (cbn [ndt_val]; rewrite Inst, D'; ring).
      split; [exact U|]. split; [exact E|]. pose proof (ndt_val_range _ U) as R. rewrite E in R.
      apply andb_true_iff. rewrite !Z.leb_le. exact R.
    + apply andb_false_iff. right. apply Z.leb_gt. rewrite Inst, P, max_instant_eq. unfold DAY_NS, NS in *. nia.
Qed.

Lemma ndt_cmp_val : forall u v, ndt_ok u -> ndt_ok v -> ndt_cmp u v = (ndt_val u ?= ndt_val v).
Proof.
  intros [[d1 s1] f1] [[d2 s2] f2] [O1 [S1 F1]] [O2 [S2 F2]]. unfold ndt_cmp, ndt_val.
  rewrite (nd_cmp_daynum d1 d2 O1 O2).
  destruct (Z.compare_spec (daynum d1) (daynum d2)) as [E|L|G].
  - rewrite E. destruct (Z.compare_spec s1 s2) as [E2|L2|G2].
    + subst s2. destruct (Z.compare_spec f1 f2); symmetry;
        [apply Z.compare_eq_iff | apply Z.compare_lt_iff | apply Z.compare_gt_iff]; lia.
    + symmetry. apply Z.compare_lt_iff. unfold NS in *. nia.
    + symmetry. apply Z.compare_gt_iff. unfold NS in *. nia.
  - symmetry. apply Z.compare_lt_iff. unfold DAY_NS, NS in *. nia.
  - symmetry. apply Z.compare_gt_iff. unfold DAY_NS, NS in *. nia.
Qed.

(* the chrono path is the old model of C15/Model.v: "instants under the guard chrono_dt" is now a theorem about the code's formulation *)
Theorem dt_compare_code_eq : forall a b, dt_compare_code a b = dt_compare_impl a b.
Proof.
  intros a b. unfold dt_compare_code, dt_compare_impl.
  pose proof (chrono_utc_spec a) as Ha. pose proof (chrono_utc_spec b) as Hb.
  destruct (chrono_utc a) as [u|]; [|rewrite Ha; reflexivity]. destruct Ha as [Ou [Eu Ca]]. rewrite Ca. cbn [andb].
  destruct (chrono_utc b) as [v|]; [|rewrite Hb; reflexivity]. destruct Hb as [Ov [Ev Cb]]. rewrite Cb.
  rewrite (ndt_cmp_val u v Ou Ov), Eu, Ev. reflexivity.
Qed.

Lemma ndt_since_total : forall u v, let '(secs, nanos) := ndt_since u v in
  0 <= nanos < NS /\ secs * NS + nanos = ndt_val u - ndt_val v.
Proof.
  intros [[d1 s1] f1] [[d2 s2] f2]. unfold ndt_since, ndt_val. rewrite nd_days_since_spec.
  assert (Hn : 0 < NS) by (unfold NS; lia).
  pose proof (Z.mod_pos_bound (f1 - f2) NS Hn). pose proof (Z.div_mod (f1 - f2) NS ltac:(lia)).
  split; [lia|]. unfold DAY_NS. nia.
Qed.

Lemma fits_i64_iff : forall n, fits_i64 n = true <-> -9223372036854775808 <= n <= 9223372036854775807.
Proof. intros n. unfold fits_i64. rewrite andb_true_iff, !Z.leb_le. tauto. Qed.

Lemma num_nanoseconds_spec : forall secs nanos, 0 <= nanos < NS ->
  num_nanoseconds (secs, nanos) = if fits_i64 (secs * NS + nanos) then Some (secs * NS + nanos) else None.
Proof.
  intros secs nanos Hn. unfold num_nanoseconds.
  destruct (Z.ltb_spec secs 0) as [S|S]; destruct (Z.ltb_spec 0 nanos) as [P|P]; cbn [andb].
  - replace ((secs + 1) * NS + (nanos - NS)) with (secs * NS + nanos) by ring.
    destruct (fits_i64 (secs * NS + nanos)) eqn:F.
    + apply fits_i64_iff in F. replace (fits_i64 ((secs + 1) * NS)) with true; [reflexivity|].
      symmetry. apply fits_i64_iff. unfold NS in *. nia.
    + destruct (fits_i64 ((secs + 1) * NS)); reflexivity.
  - assert (nanos = 0) by lia. subst nanos. rewrite !Z.add_0_r. destruct (fits_i64 (secs * NS)); reflexivity.
  - destruct (fits_i64 (secs * NS + nanos)) eqn:F.
    + apply fits_i64_iff in F. replace (fits_i64 (secs * NS)) with true; [reflexivity|].
      symmetry. apply fits_i64_iff. unfold NS in *. nia.
    + destruct (fits_i64 (secs * NS)); reflexivity.
  - assert (nanos = 0) by lia. subst nanos. rewrite !Z.add_0_r. destruct (fits_i64 (secs * NS)); reflexivity.
Qed.

Theorem dt_subtract_code_eq : forall a b, dt_subtract_code a b = dt_subtract_impl a b.
Proof.
  intros a b. unfold dt_subtract_code, dt_subtract_impl.
  pose proof (chrono_utc_spec a) as Ha. pose proof (chrono_utc_spec b) as Hb.
  destruct (chrono_utc a) as [u|]; [|rewrite Ha; reflexivity]. destruct Ha as [Ou [Eu Ca]]. rewrite Ca. cbn [andb].
  destruct (chrono_utc b) as [v|]; [|rewrite Hb; reflexivity]. destruct Hb as [Ov [Ev Cb]]. rewrite Cb.
  pose proof (ndt_since_total u v) as T. destruct (ndt_since u v) as [secs nanos]. destruct T as [Hn Ht].
  rewrite (num_nanoseconds_spec secs nanos Hn), Ht, Eu, Ev. reflexivity.
Qed.
(* ================= the set on which the code answers, as a theorem ================= *)
Theorem chrono_dt_representable : forall x, chrono_dt x = true <-> chrono_representable x.
Proof.
  intros x. unfold chrono_dt, chrono_representable, utc_ns. destruct (dt_date x) as [[y m] d]. cbn [chrono_date3].
  unfold chrono_date. rewrite !andb_true_iff, chrono_year_iff, valid_ValidDate, valid_tod_iff, !Z.ltb_lt, !Z.leb_le.
  rewrite min_instant_eq, max_instant_eq. fold MIN_DAY MAX_DAY. unfold DAY_NS, NS.
  generalize (ValidDate y m d). intros P. split; intros H; repeat split; try tauto; lia.
Qed.

Theorem chrono_utc_defined_iff : forall x, chrono_utc x <> None <-> chrono_representable x.
Proof.
  intros x. rewrite <- chrono_dt_representable. pose proof (chrono_utc_spec x) as H.
  destruct (chrono_utc x) as [u|]; split; intros A; try congruence; tauto.
Qed.

(* comparison: the code answers exactly on pairs of representable values, and then with the order of the instants *)
Theorem dt_compare_defined_iff : forall a b,
  dt_compare_code a b <> None <-> (chrono_representable a /\ chrono_representable b).
Proof.
  intros a b. rewrite <- !chrono_utc_defined_iff. unfold dt_compare_code.
  destruct (chrono_utc a); destruct (chrono_utc b); split; intros H; try congruence; try tauto; split; congruence.
Qed.

Theorem dt_compare_exact : forall a b c, dt_compare_code a b = Some c -> c = dt_compare_spec a b.
Proof. intros a b c H. rewrite dt_compare_code_eq in H. apply dt_compare_impl_instants. exact H. Qed.

Theorem dt_compare_total_on_representable : forall a b, chrono_representable a -> chrono_representable b ->
  dt_compare_code a b = Some (dt_compare_spec a b).
Proof.
  intros a b Ha Hb. rewrite dt_compare_code_eq. apply dt_compare_impl_defined; apply chrono_dt_representable; assumption.
Qed.

(* subtraction: the i64 nanosecond limit of TimeDelta::num_nanoseconds is the further definedness condition *)
Theorem dt_subtract_defined_iff : forall a b,
  dt_subtract_code a b <> None <->
  (chrono_representable a /\ chrono_representable b /\ - 2 ^ 63 <= utc_ns a - utc_ns b <= 2 ^ 63 - 1).
Proof.
  intros a b. rewrite dt_subtract_code_eq, <- !chrono_dt_representable. unfold dt_subtract_impl, utc_ns.
  change (- 2 ^ 63) with (-9223372036854775808). change (2 ^ 63 - 1) with 9223372036854775807.
  destruct (chrono_dt a); destruct (chrono_dt b); cbn [andb];
    try (split; [congruence | intros [A [B _]]; discriminate]).
  destruct (fits_i64 (instant a - instant b)) eqn:F.
  - apply fits_i64_iff in F. split; [tauto | congruence].
  - split; [congruence|]. intros [_ [_ R]]. apply fits_i64_iff in R. congruence.
Qed.

Theorem dt_subtract_exact : forall a b n, dt_subtract_code a b = Some n -> n = utc_ns a - utc_ns b.
Proof. intros a b n H. rewrite dt_subtract_code_eq in H. apply dt_subtract_impl_exact in H. exact H. Qed.

(* ================= validity as the code computes it ================= *)
Lemma midnight_chrono : forall y m d, is_some (chrono_utc (midnight_utc (y, m, d))) = chrono_date y m d.
Proof.
  intros y m d. pose proof (chrono_utc_spec (midnight_utc (y, m, d))) as H.
  assert (E : chrono_dt (midnight_utc (y, m, d)) = chrono_date y m d).
  { unfold chrono_dt. cbn [dt_date midnight_utc chrono_date3 dt_off]. unfold valid_tod. cbn [dt_h dt_mi dt_s dt_ns midnight_utc].
    cbn [Z.leb Z.ltb Z.compare andb]. rewrite andb_true_r.
    destruct (chrono_date y m d) eqn:C; [|reflexivity]. cbn [andb].
    unfold chrono_date in C. apply andb_true_iff in C. destruct C as [Cy V].
    assert (Ok : nd_ok (y, before_month y m + d)) by (pose proof (doy_range y m d V); split; cbn [fst snd]; [exact Cy | lia]).
    pose proof (daynum_range _ Ok) as R. unfold daynum in R. cbn [fst snd] in R.
    assert (I : instant (midnight_utc (y, m, d)) = days_from_civil y m d * DAY_NS) by (unfold instant, tod_ns, DAY_NS; cbn; ring).
    rewrite I, min_instant_eq, max_instant_eq, (days_doy y m d). apply andb_true_iff. rewrite !Z.leb_le. unfold DAY_NS, NS. nia. }
  destruct (chrono_utc (midnight_utc (y, m, d))) as [u|]; cbn [is_some]; [destruct H as [_ [_ H]] |]; congruence.
Qed.

Theorem is_valid_date_code_eq : forall y m d, is_valid_date_code y m d = is_valid_date y m d.
Proof.
  intros y m d. unfold is_valid_date_code, is_valid_date. rewrite midnight_chrono, last_day_of_month_code_eq.
  unfold feel_year, last_day_opt. reflexivity.
Qed.

Theorem is_valid_date_code_spec : forall y m d,
  is_valid_date_code y m d = true <-> (-999999999 <= y <= 999999999 /\ ValidDate y m d).
Proof.
  intros y m d. rewrite is_valid_date_code_eq, is_valid_date_spec. unfold feel_date, feel_year.
  rewrite !andb_true_iff, !Z.leb_le, valid_ValidDate. tauto.
Qed.

(* ================= zones ================= *)
Section ZoneProofs.
Variable zone_rule : N -> date -> Z -> option Z.

Lemma zone_offset_code_spec : forall x o, zone_offset_code zone_rule x = Some o -> zone_offset_spec zone_rule x = Some o.
Proof. intros x o. unfold zone_offset_code, zone_offset_spec. destruct (z_zone x); try tauto. destruct (is_some _); [tauto | discriminate]. Qed.

Theorem z_compare_exact : forall a b c, z_compare_code zone_rule a b = Some c ->
  exists ia ib, utc_ns_z zone_rule a = Some ia /\ utc_ns_z zone_rule b = Some ib /\ c = (ia ?= ib).
Proof.
  intros a b c H. unfold z_compare_code in H.
  destruct (zone_offset_code zone_rule a) as [oa|] eqn:Ea; [|discriminate].
  destruct (zone_offset_code zone_rule b) as [ob|] eqn:Eb; [|discriminate].
  exists (utc_ns (with_offset a oa)), (utc_ns (with_offset b ob)). unfold utc_ns_z.
  rewrite (zone_offset_code_spec _ _ Ea), (zone_offset_code_spec _ _ Eb). cbn [option_map].
  split; [reflexivity|]. split; [reflexivity|]. apply dt_compare_exact. exact H.
Qed.

Theorem z_subtract_exact : forall a b n, z_subtract_code zone_rule a b = Some n ->
  exists ia ib, utc_ns_z zone_rule a = Some ia /\ utc_ns_z zone_rule b = Some ib /\ n = ia - ib.
Proof.
  intros a b n H. unfold z_subtract_code in H.
  destruct (zone_offset_code zone_rule a) as [oa|] eqn:Ea; [|discriminate].
  destruct (zone_offset_code zone_rule b) as [ob|] eqn:Eb; [|discriminate].
  exists (utc_ns (with_offset a oa)), (utc_ns (with_offset b ob)). unfold utc_ns_z.
  rewrite (zone_offset_code_spec _ _ Ea), (zone_offset_code_spec _ _ Eb). cbn [option_map].
  split; [reflexivity|]. split; [reflexivity|]. apply dt_subtract_exact. exact H.
Qed.

(* when the code answers for zoned values: the zone rule gives an offset for both and the resolved values are representable
   (for a named zone the local date-time must also be representable when read at UTC: get_zone_offset) *)
Definition z_resolved (x : zdtime) (o : Z) : Prop :=
  zone_offset_spec zone_rule x = Some o /\ chrono_representable (with_offset x o) /\
  (forall id, z_zone x = ZNamed id -> chrono_representable (with_offset x 0)).

Lemma zone_offset_code_iff : forall x o, zone_offset_code zone_rule x = Some o <->
  (zone_offset_spec zone_rule x = Some o /\ (forall id, z_zone x = ZNamed id -> chrono_representable (with_offset x 0))).
Proof.
  intros x o. unfold zone_offset_code, zone_offset_spec. destruct (z_zone x) as [|o'|id].
  - split; [intros H; split; [exact H | intros id E; discriminate] | tauto].
  - split; [intros H; split; [exact H | intros id E; discriminate] | tauto].
  - pose proof (chrono_utc_defined_iff (with_offset x 0)) as D.
    destruct (chrono_utc (with_offset x 0)) as [u|]; cbn [is_some].
    + split; [intros H; split; [exact H | intros id' _; apply D; congruence] | tauto].
    + split; [discriminate|]. intros [_ R]. exfalso. apply (proj2 D (R id eq_refl)). reflexivity.
Qed.

Theorem z_compare_defined_iff : forall a b,
  z_compare_code zone_rule a b <> None <-> exists oa ob, z_resolved a oa /\ z_resolved b ob.
Proof.
  intros a b. unfold z_compare_code, z_resolved. split.
  - intros H. destruct (zone_offset_code zone_rule a) as [oa|] eqn:Ea; [|congruence].
    destruct (zone_offset_code zone_rule b) as [ob|] eqn:Eb; [|congruence].
    apply dt_compare_defined_iff in H. apply zone_offset_code_iff in Ea. apply zone_offset_code_iff in Eb.
    exists oa, ob. tauto.
  - intros [oa [ob [[Sa [Ra Na]] [Sb [Rb Nb]]]]].
    rewrite (proj2 (zone_offset_code_iff a oa) (conj Sa Na)), (proj2 (zone_offset_code_iff b ob) (conj Sb Nb)).
    apply dt_compare_defined_iff. tauto.
Qed.
End ZoneProofs.

(* ================= non-vacuity ================= *)
Definition mkdt (y m d h mi s ns off : Z) : dtime := {| dt_date := (y, m, d); dt_h := h; dt_mi := mi; dt_s := s; dt_ns := ns; dt_off := off |}.
Example chrono_nonvacuous :
  (* the offset carries the date across a year end in both directions *)
  chrono_utc (mkdt 2021 1 1 0 30 0 5 3600) = Some ((2020, 366), 84600, 5) /\
  chrono_utc (mkdt 2020 12 31 23 30 0 5 (-3600)) = Some ((2021, 1), 1800, 5) /\
  dt_compare_code (mkdt 2021 1 1 0 30 0 5 3600) (mkdt 2020 12 31 23 30 0 5 (-3600)) = Some Lt /\
  dt_subtract_code (mkdt 2021 1 1 0 30 0 5 3600) (mkdt 2020 12 31 23 30 0 6 (-3600)) = Some (-3600000000001) /\
  (* the ends of chrono's range: the first local instant of the first year, moved before it by an offset *)
  chrono_utc (mkdt (-262143) 1 1 0 0 0 0 0) = Some ((-262143, 1), 0, 0) /\
  chrono_utc (mkdt (-262143) 1 1 0 0 0 0 1) = None /\
  chrono_utc (mkdt 262142 12 31 23 59 59 0 (-1)) = None /\
  (* about 292 years *)
  dt_subtract_code (mkdt 2262 4 11 23 47 16 854775807 0) (mkdt 1970 1 1 0 0 0 0 0) = Some 9223372036854775807 /\
  dt_subtract_code (mkdt 2262 4 11 23 47 16 854775808 0) (mkdt 1970 1 1 0 0 0 0 0) = None /\
  dt_subtract_code (mkdt 1970 1 1 0 0 0 0 0) (mkdt 2262 4 11 23 47 16 854775808 0) = Some (-9223372036854775808) /\
  is_leap_year_code (-4) = true /\ is_leap_year_code (-100) = false /\ is_leap_year_code (-400) = true /\
  is_valid_date_code 999999999 2 29 = false /\ is_valid_date_code (-999999996) 2 29 = true /\
  next_date (2023, 2, 28) = (2023, 3, 1) /\ next_date (2024, 2, 28) = (2024, 2, 29) /\ next_date (1999, 12, 31) = (2000, 1, 1).
Proof. vm_compute. repeat split; reflexivity. Qed.

(* ================= day numbers and civil dates: one statement ================= *)
Theorem civil_bijection :
  (forall a, valid3 a = true -> civil_from_days (days3 a) = a) /\
  (forall z, valid3 (civil_from_days z) = true /\ days3 (civil_from_days z) = z) /\
  (forall a b, valid3 a = true -> valid3 b = true ->
     (cmp3 a b = Lt <-> days3 a < days3 b) /\ (cmp3 a b = Gt <-> days3 a > days3 b) /\ (a = b <-> days3 a = days3 b)) /\
  (forall z, civil_from_days (z + 1) = next_date (civil_from_days z)).
Proof.
  split; [exact civil_roundtrip_3|]. split; [exact civil_from_days_correct|]. split; [|exact civil_next].
  intros a b Va Vb. rewrite (days_monotone a b Va Vb). split; [|split].
  - apply Z.compare_lt_iff.
  - rewrite Z.compare_gt_iff. lia.
  - split; [intros ->; reflexivity | apply days_injective; assumption].
Qed.
