(* C13 — the parsing scope: what "leaves the parsing scope as it found it" needs beyond the final state.
   `walk d acts` follows a list of scope actions and keeps the number d of contexts that this parse itself has pushed and not yet
   popped; it fails (None) as soon as an action would pop or write a context the parse did not push (d = 0): a context of the caller.
   `pacts_v per_variable` is the action list of the parser with ONE placement made variable: where a quantified expression pushes
   its temporary context - once in action_some_begin / action_every_begin (false: feel-parser/src/parser.rs as it is; pacts_v false
   = pacts of C13/ParseScope.v) or once PER VARIABLE in action_quantified_expression_variable_name_begin while the single pop at
   action_some / action_every stays (true: the seeded change C13_c).  Definitions only; no proofs in this file. *)
From Coq Require Import List ZArith NArith Bool.
From DV Require Import C01.Syntax C13.ParseScope.
Import ListNotations.

Fixpoint walk (d : nat) (acts : list pact) : option nat :=
  match acts with
  | [] => Some d
  | PPush :: r => walk (S d) r
  | PPop :: r => match d with O => None | S d' => walk d' r end
  | PAdd _ :: r => match d with O => None | S _ => walk d r end
  end.

Definition count_push (acts : list pact) : nat := List.length (filter (fun a => match a with PPush => true | _ => false end) acts).
Definition count_pop (acts : list pact) : nat := List.length (filter (fun a => match a with PPop => true | _ => false end) acts).

Fixpoint pacts_v (per_variable : bool) (fuel : nat) (e : expr) : list pact :=
  match fuel with O => [] | S f =>
  let pa := pacts_v per_variable f in
  let tacts := fun t => match t with
                        | TVal x | TCmp _ x => pa x
                        | TRange lo _ hi _ => pa lo ++ pa hi end in
  let dacts := fun d => match d with DList x => pa x | DRange lo hi => pa lo ++ pa hi end in
  let quant := fun (ds : list (N * expr)) (body : expr) =>
    if per_variable
    then flat_map (fun nd => PPush :: PAdd (fst nd) :: pa (snd nd)) ds ++ pa body ++ [PPop]
    else PPush :: flat_map (fun nd => PAdd (fst nd) :: pa (snd nd)) ds ++ pa body ++ [PPop] in
  match e with
  | ENull | EBool _ | ENum _ | EStr _ | EName _ => []
  | EBin _ a b => pa a ++ pa b
  | ENeg a => pa a
  | EIf c t e' => pa c ++ pa t ++ pa e'
  | EBetween x lo hi => pa x ++ pa lo ++ pa hi
  | EIn x ts => pa x ++ flat_map tacts ts
  | EInList x l => pa x ++ pa l
  | EList es => flat_map pa es
  | ECtx es => PPush :: flat_map (fun ke => pa (snd ke) ++ [PAdd (fst ke)]) es ++ [PPop]
  | EPath e' _ => pa e'
  | EFilter e' g => pa e' ++ pa g
  | EFor ds body => PPush :: PAdd n_partial :: flat_map (fun nd => PAdd (fst nd) :: dacts (snd nd)) ds ++ pa body ++ [PPop]
  | ESome ds body | EEvery ds body => quant ds body
  | EFun ps body => PPush :: map PAdd (map fst ps) ++ pa body ++ [PPop]
  | ECall fe args => pa fe ++ flat_map pa args
  | ECallN fe nargs => pa fe ++ flat_map (fun ne => pa (snd ne)) nargs
  end end.

(* some x in [1], y in [2] satisfies x = y   and   some x in [1] satisfies x = 1 *)
Definition w_two_variables : expr := ESome [(101%N, EList [enum 1]); (102%N, EList [enum 2])] (EBin Eq (EName 101%N) (EName 102%N)).
Definition w_one_variable : expr := ESome [(101%N, EList [enum 1])] (EBin Eq (EName 101%N) (enum 1)).
