(* C18 — proofs about the JSON rendering model: every rendered value parses strictly and decodes to the value. *)
From Coq Require Import List NArith Bool Lia Arith.
From DV Require Import C18.Model.
Import ListNotations.
Open Scope N_scope.

(* ---------------- induction over nested values ---------------- *)
Section ValueInd.
Variable P : value -> Prop.
Hypothesis HNull : P VNull.
Hypothesis HBool : forall b, P (VBool b).
Hypothesis HNum : forall n, P (VNum n).
Hypothesis HStr : forall s, P (VStr s).
Hypothesis HList : forall l, Forall P l -> P (VList l).
Hypothesis HCtx : forall es, Forall (fun kv => P (snd kv)) es -> P (VCtx es).
Hypothesis HOther : forall k d, P (VOther k d).
Fixpoint value_ind' (v : value) : P v :=
  match v with
  | VNull => HNull
  | VBool b => HBool b
  | VNum n => HNum n
  | VStr s => HStr s
  | VList l => HList l ((fix go (l : list value) : Forall P l :=
                           match l with [] => Forall_nil _ | x :: r => Forall_cons x (value_ind' x) (go r) end) l)
  | VCtx es => HCtx es ((fix go (l : list (text * value)) : Forall (fun kv => P (snd kv)) l :=
                           match l with [] => Forall_nil _ | x :: r => Forall_cons x (value_ind' (snd x)) (go r) end) es)
  | VOther k d => HOther k d
  end.
End ValueInd.

Ltac neqs :=
  repeat match goal with
         | |- context [N.eqb ?a ?b] => rewrite (proj2 (N.eqb_neq a b)) by lia
         end.

(* ---------------- white space ---------------- *)
Definition ws (sp : text) : Prop := forallb is_ws sp = true.

Lemma skip_ws_app : forall sp s, ws sp -> skip_ws (sp ++ s) = skip_ws s.
Proof.
  induction sp as [|c sp IH]; intros s H; [reflexivity|].
  unfold ws in H. cbn [forallb] in H. apply andb_true_iff in H. destruct H as [Hc Hs].
  cbn [app skip_ws]. rewrite Hc. apply IH. exact Hs.
Qed.

Lemma skip_ws_head : forall c r, is_ws c = false -> skip_ws (c :: r) = c :: r.
Proof. intros c r H. cbn [skip_ws]. rewrite H. reflexivity. Qed.

(* what may follow a rendered value *)
Definition dstart (rest : text) : bool :=
  match rest with [] => true | c :: _ => (c =? 44) || (c =? 93) || (c =? 125) || is_ws c end.

Lemma dstart_nodigit : forall c r, dstart (c :: r) = true ->
  is_digit c = false /\ c <> 46 /\ c <> 101 /\ c <> 69.
Proof.
  intros c r H. cbn [dstart] in H. unfold is_ws in H.
  repeat (apply orb_true_iff in H; destruct H as [H|H]); apply N.eqb_eq in H; subst c; repeat split; try reflexivity; discriminate.
Qed.

(* ---------------- numbers ---------------- *)
Lemma is_digit_dchar : forall d, d < 10 -> is_digit (dchar d) = true.
Proof. intros d H. unfold is_digit, dchar. apply andb_true_iff. split; apply N.leb_le; lia. Qed.

Lemma take_digits_app : forall ds rest, forallb (fun d => d <? 10) ds = true ->
  match rest with [] => True | c :: _ => is_digit c = false end ->
  take_digits (map dchar ds ++ rest) = (ds, rest).
Proof.
  induction ds as [|d ds IH]; intros rest Hd Hr.
  - cbn [map app]. destruct rest as [|c r]; [reflexivity|]. cbn [take_digits]. rewrite Hr. reflexivity.
  - cbn [forallb] in Hd. apply andb_true_iff in Hd. destruct Hd as [Hd Hds]. apply N.ltb_lt in Hd.
    cbn [map app take_digits]. rewrite (is_digit_dchar d Hd). rewrite (IH rest Hds Hr).
    unfold dchar. replace (48 + d - 48) with d by lia. reflexivity.
Qed.

Lemma dstart_digit_side : forall rest, dstart rest = true -> match rest with [] => True | c :: _ => is_digit c = false end.
Proof. intros [|c r] H; [exact I|]. apply (dstart_nodigit c r H). Qed.

Lemma parse_exp_none : forall rest, dstart rest = true -> parse_exp rest = Some (None, rest).
Proof.
  intros [|c r] Hr; [reflexivity|]. destruct (dstart_nodigit c r Hr) as [_ [H46 [H101 H69]]].
  unfold parse_exp. neqs. reflexivity.
Qed.

Lemma parse_frac_render : forall fp rest, forallb (fun d => d <? 10) fp = true -> dstart rest = true ->
  parse_frac (render_frac fp ++ rest) = (match fp with [] => None | f => Some f end, rest).
Proof.
  intros [|f0 fs] rest Hfp Hr.
  - cbn [app render_frac]. destruct rest as [|c r]; [reflexivity|]. destruct (dstart_nodigit c r Hr) as [_ [H46 _]].
    unfold parse_frac. neqs. reflexivity.
  - cbn [app parse_frac render_frac]. rewrite N.eqb_refl. rewrite (take_digits_app (f0 :: fs) rest Hfp (dstart_digit_side rest Hr)). reflexivity.
Qed.

Lemma parse_number_render : forall n rest, wf_num n = true -> dstart rest = true ->
  parse_number (render_num n ++ rest) = Some (JNum (nneg n) (nint n) (nfrac n) None, rest).
Proof.
  intros [neg ip fp] rest Hwf Hr. unfold wf_num in Hwf. cbn [nneg nint nfrac] in *.
  apply andb_true_iff in Hwf. destruct Hwf as [Hwf Hlead]. apply andb_true_iff in Hwf. destruct Hwf as [Hip Hfp].
  destruct ip as [|d ds]; [discriminate|].
  assert (Hd : d < 10). { cbn [forallb] in Hip. apply andb_true_iff in Hip. destruct Hip as [Hd _]. apply N.ltb_lt. exact Hd. }
  assert (Hsign : parse_sign (render_num {| nneg := neg; nint := d :: ds; nfrac := fp |} ++ rest) =
                  (neg, map dchar (d :: ds) ++ (render_frac fp ++ rest))).
  { unfold render_num. cbn [nneg nint nfrac]. destruct neg.
    - cbn [app parse_sign]. rewrite N.eqb_refl. rewrite <- app_assoc. reflexivity.
    - cbn [app map parse_sign].
      replace (dchar d =? 45) with false by (symmetry; apply N.eqb_neq; unfold dchar; lia).
      rewrite <- app_assoc. reflexivity. }
  unfold parse_number. rewrite Hsign.
  rewrite (take_digits_app (d :: ds) _ Hip).
  2:{ destruct fp as [|f0 fs]; [cbn [app render_frac]; exact (dstart_digit_side rest Hr)|reflexivity]. }
  unfold bad_int. rewrite (negb_true_iff _) in Hlead. rewrite Hlead.
  rewrite (parse_frac_render fp rest Hfp Hr).
  rewrite (parse_exp_none rest Hr).
  destruct fp; reflexivity.
Qed.

(* ---------------- strings ---------------- *)
Definition uesc_ok (c : N) : bool :=
  match hex4 48 48 (hexd (c / 16)) (hexd (c mod 16)) with
  | Some u => (u =? c) && negb (is_high u) && negb (is_low u)
  | None => false
  end.

Lemma uesc_ok_all : forall c, c < 32 -> uesc_ok c = true.
Proof.
  intros c H.
  assert (Hall : forallb uesc_ok (map N.of_nat (seq 0 32)) = true) by (vm_compute; reflexivity).
  rewrite forallb_forall in Hall. apply Hall. apply in_map_iff. exists (N.to_nat c). split; [lia|].
  apply in_seq. lia.
Qed.

Lemma scalar_props : forall c, scalar c = true -> is_high c = false /\ is_low c = false.
Proof.
  intros c H. unfold scalar in H. apply andb_true_iff in H. destruct H as [_ H]. apply negb_true_iff in H.
  apply andb_false_iff in H. unfold is_high, is_low. split; apply andb_false_iff.
  - destruct H as [H|H]; [left; exact H|]. right. apply N.leb_gt. apply N.leb_gt in H. lia.
  - destruct H as [H|H]; [|right; exact H]. left. apply N.leb_gt. apply N.leb_gt in H. lia.
Qed.

Lemma parse_str_char : forall c r, scalar c = true ->
  parse_str (esc_char c ++ r) = consc c (parse_str r).
Proof.
  intros c r Hsc. unfold esc_char.
  destruct (c =? 34) eqn:E34; [apply N.eqb_eq in E34; subst c; reflexivity|].
  destruct (c =? 92) eqn:E92; [apply N.eqb_eq in E92; subst c; reflexivity|].
  destruct (c =? 10) eqn:E10; [apply N.eqb_eq in E10; subst c; reflexivity|].
  destruct (c =? 13) eqn:E13; [apply N.eqb_eq in E13; subst c; reflexivity|].
  destruct (c =? 9) eqn:E9; [apply N.eqb_eq in E9; subst c; reflexivity|].
  destruct (c =? 8) eqn:E8; [apply N.eqb_eq in E8; subst c; reflexivity|].
  destruct (c =? 12) eqn:E12; [apply N.eqb_eq in E12; subst c; reflexivity|].
  destruct (c <? 32) eqn:E32.
  - apply N.ltb_lt in E32. pose proof (uesc_ok_all c E32) as Hok. unfold uesc_ok in Hok.
    cbn [app parse_str]. change (92 =? 34) with false. change (92 =? 92) with true. change (117 =? 117) with true. cbv iota.
    destruct (hex4 48 48 (hexd (c / 16)) (hexd (c mod 16))) as [u|]; [|discriminate].
    apply andb_true_iff in Hok. destruct Hok as [Hok Hlow]. apply andb_true_iff in Hok. destruct Hok as [Hu Hhigh].
    apply N.eqb_eq in Hu. subst u. apply negb_true_iff in Hlow. apply negb_true_iff in Hhigh.
    rewrite Hhigh, Hlow. reflexivity.
  - cbn [app parse_str]. rewrite E34, E92, E32, Hsc. reflexivity.
Qed.

Lemma parse_str_escape : forall s rest, wf_text s = true ->
  parse_str (escape s ++ 34 :: rest) = Some (s, rest).
Proof.
  induction s as [|c s IH]; intros rest H.
  - reflexivity.
  - unfold wf_text in H. cbn [forallb] in H. apply andb_true_iff in H. destruct H as [Hc Hs].
    unfold escape. cbn [flat_map]. rewrite <- app_assoc. rewrite (parse_str_char c _ Hc).
    fold (escape s). rewrite (IH rest Hs). reflexivity.
Qed.

(* ---------------- dispatch of parse_value on the first character ---------------- *)
Lemma pv_str : forall f r, parse_value (S f) (34 :: r) =
  match parse_str r with Some (str, r') => Some (JStr str, r') | None => None end.
Proof. reflexivity. Qed.

Lemma pv_arr : forall f r, parse_value (S f) (91 :: r) =
  match skip_ws r with
  | [] => None
  | c1 :: r1 => if c1 =? 93 then Some (JArr [], r1) else
                match parse_elems (parse_value f) (length r) (c1 :: r1) with Some (l, r') => Some (JArr l, r') | None => None end
  end.
Proof. reflexivity. Qed.

Lemma pv_obj : forall f r, parse_value (S f) (123 :: r) =
  match skip_ws r with
  | [] => None
  | c1 :: r1 => if c1 =? 125 then Some (JObj [], r1) else
                match parse_members (parse_value f) (length r) (c1 :: r1) with Some (l, r') => Some (JObj l, r') | None => None end
  end.
Proof. reflexivity. Qed.

Lemma pv_num : forall f c r, c = 45 \/ is_digit c = true -> parse_value (S f) (c :: r) = parse_number (c :: r).
Proof.
  intros f c r H.
  assert (Hr : 45 <= c <= 57 /\ c <> 46 /\ c <> 47).
  { destruct H as [H|H]; [subst c; lia|]. unfold is_digit in H. apply andb_true_iff in H. destruct H as [H1 H2].
    apply N.leb_le in H1. apply N.leb_le in H2. lia. }
  assert (Hd : (c =? 45) || is_digit c = true).
  { destruct H as [H|H]; [subst c; reflexivity|]. rewrite H. apply orb_true_r. }
  cbn [parse_value skip_ws]. unfold is_ws.
  replace (c =? 32) with false by (symmetry; apply N.eqb_neq; lia).
  replace (c =? 9) with false by (symmetry; apply N.eqb_neq; lia).
  replace (c =? 10) with false by (symmetry; apply N.eqb_neq; lia).
  replace (c =? 13) with false by (symmetry; apply N.eqb_neq; lia).
  cbn [orb].
  replace (c =? 110) with false by (symmetry; apply N.eqb_neq; lia).
  replace (c =? 116) with false by (symmetry; apply N.eqb_neq; lia).
  replace (c =? 102) with false by (symmetry; apply N.eqb_neq; lia).
  replace (c =? 34) with false by (symmetry; apply N.eqb_neq; lia).
  replace (c =? 91) with false by (symmetry; apply N.eqb_neq; lia).
  replace (c =? 123) with false by (symmetry; apply N.eqb_neq; lia).
  rewrite Hd. reflexivity.
Qed.

Lemma parse_value_skip : forall f sp s, ws sp -> parse_value f (sp ++ s) = parse_value f s.
Proof. intros [|f] sp s H; [reflexivity|]. cbn [parse_value]. rewrite (skip_ws_app sp s H). reflexivity. Qed.

(* ---------------- the renderer ---------------- *)
Definition rnd (sp : text) : value -> text := render sp quote quote.

Lemma render_num_head : forall n, wf_num n = true ->
  exists c t, render_num n = c :: t /\ (c = 45 \/ is_digit c = true).
Proof.
  intros [neg ip fp] H. unfold wf_num in H. cbn [nneg nint nfrac] in H.
  apply andb_true_iff in H. destruct H as [H Hlead]. apply andb_true_iff in H. destruct H as [Hip _].
  destruct ip as [|d ds]; [discriminate|]. cbn [forallb] in Hip. apply andb_true_iff in Hip. destruct Hip as [Hd _]. apply N.ltb_lt in Hd.
  unfold render_num. cbn [nneg nint nfrac]. destruct neg.
  - eexists. eexists. split; [reflexivity|]. left. reflexivity.
  - cbn [app map]. eexists. eexists. split; [reflexivity|]. right. apply is_digit_dchar. exact Hd.
Qed.

(* first character of a rendered value: never white space, never a closing bracket *)
Lemma rnd_head : forall sp v, wf v = true ->
  exists c t, rnd sp v = c :: t /\ is_ws c = false /\ c <> 93 /\ c <> 125.
Proof.
  intros sp v H. destruct v as [|b|n|s|l|es|k0 d]; unfold rnd; cbn [render].
  - eexists. eexists. split; [reflexivity|]. repeat split; discriminate.
  - destruct b; eexists; eexists; (split; [reflexivity|]); repeat split; discriminate.
  - cbn [wf] in H. destruct (render_num_head n H) as [c [t [E Hc]]]. exists c, t. split; [exact E|].
    assert (Hr : 45 <= c <= 57).
    { destruct Hc as [Hc|Hc]; [subst c; lia|]. unfold is_digit in Hc. apply andb_true_iff in Hc. destruct Hc as [H1 H2].
      apply N.leb_le in H1. apply N.leb_le in H2. lia. }
    unfold is_ws. repeat split; try lia.
    replace (c =? 32) with false by (symmetry; apply N.eqb_neq; lia).
    replace (c =? 9) with false by (symmetry; apply N.eqb_neq; lia).
    replace (c =? 10) with false by (symmetry; apply N.eqb_neq; lia).
    replace (c =? 13) with false by (symmetry; apply N.eqb_neq; lia). reflexivity.
  - eexists. eexists. split; [reflexivity|]. repeat split; discriminate.
  - eexists. eexists. split; [reflexivity|]. repeat split; discriminate.
  - eexists. eexists. split; [reflexivity|]. repeat split; discriminate.
  - eexists. eexists. split; [reflexivity|]. repeat split; discriminate.
Qed.

Lemma rnd_length : forall sp v, wf v = true -> (1 <= length (rnd sp v))%nat.
Proof. intros sp v H. destruct (rnd_head sp v H) as [c [t [E _]]]. rewrite E. cbn [length]. lia. Qed.

(* ---------------- sequences ---------------- *)
Lemma join_length : forall sep (l : list text), Forall (fun x => (1 <= length x)%nat) l -> (length l <= length (join sep l))%nat.
Proof.
  intros sep l H. induction H as [|x r Hx Hr IH]; [cbn; lia|].
  destruct r as [|y r']; [cbn [join length]; lia|].
  change (join sep (x :: y :: r')) with (x ++ sep ++ join sep (y :: r')). rewrite !app_length. cbn [length] in *. lia.
Qed.

Section Elems.
Variable pv : text -> option (json * text).
Variable sp : text.
Hypothesis Hsp : ws sp.
Hypothesis Hskip : forall s, pv (sp ++ s) = pv s.

Lemma parse_elems_render : forall l rest,
  Forall (fun x => wf x = true /\ forall rest', dstart rest' = true -> pv (rnd sp x ++ rest') = Some (to_json x, rest')) l ->
  l <> [] ->
  forall n, (length l <= n)%nat ->
  parse_elems pv n (join (44 :: sp) (map (rnd sp) l) ++ 93 :: rest) = Some (map to_json l, rest).
Proof.
  intros l rest H. induction H as [|x r [Hwf Hx] Hr IH]; intros Hne n Hn; [congruence|].
  destruct n as [|n]; [cbn [length] in Hn; lia|].
  destruct r as [|y r'].
  - cbn [map join parse_elems]. rewrite (Hx (93 :: rest) eq_refl). cbn [skip_ws]. reflexivity.
  - change (join (44 :: sp) (map (rnd sp) (x :: y :: r'))) with (rnd sp x ++ (44 :: sp) ++ join (44 :: sp) (map (rnd sp) (y :: r'))).
    rewrite <- !app_assoc. cbn [parse_elems]. rewrite Hx by reflexivity.
    cbn [app skip_ws]. change (is_ws 44) with false. cbv iota. change (44 =? 44) with true. cbv iota.
    assert (E : parse_elems pv n (sp ++ join (44 :: sp) (map (rnd sp) (y :: r')) ++ 93 :: rest) = Some (map to_json (y :: r'), rest)).
    { destruct n as [|n']; [cbn [length] in Hn; lia|].
      cbn [parse_elems]. rewrite Hskip.
      assert (IH' := IH ltac:(discriminate) (S n') ltac:(cbn [length] in *; lia)).
      cbn [parse_elems] in IH'. exact IH'. }
    rewrite E. reflexivity.
Qed.

Lemma parse_members_render : forall es rest,
  Forall (fun kv => wf_text (fst kv) = true /\ wf (snd kv) = true /\
                    forall rest', dstart rest' = true -> pv (rnd sp (snd kv) ++ rest') = Some (to_json (snd kv), rest')) es ->
  es <> [] ->
  forall n, (length es <= n)%nat ->
  parse_members pv n (join (44 :: sp) (map (fun kv => quote (fst kv) ++ 58 :: sp ++ rnd sp (snd kv)) es) ++ 125 :: rest)
  = Some (map (fun kv => (fst kv, to_json (snd kv))) es, rest).
Proof.
  intros es rest H. induction H as [|[k x] r [Hk [Hwf Hx]] Hr IH]; intros Hne n Hn; [congruence|].
  cbn [fst snd] in *.
  destruct n as [|n]; [cbn [length] in Hn; lia|].
  (* the key, the colon and the value *)
  assert (Hkv : forall tail, dstart tail = true ->
     skip_ws ((quote k ++ 58 :: sp ++ rnd sp x) ++ tail) = 34 :: escape k ++ 34 :: 58 :: sp ++ rnd sp x ++ tail).
  { intros tail _. unfold quote. cbn [app]. rewrite (skip_ws_head 34) by reflexivity.
    rewrite <- !app_assoc. cbn [app]. rewrite <- !app_assoc. reflexivity. }
  destruct r as [|y r'].
  - cbn [map join parse_members fst snd].
    rewrite (Hkv (125 :: rest) eq_refl). change (34 =? 34) with true. cbv iota.
    rewrite (parse_str_escape k _ Hk). cbn [skip_ws]. change (is_ws 58) with false. cbv iota. change (58 =? 58) with true. cbv iota.
    rewrite Hskip. rewrite (Hx (125 :: rest) eq_refl). cbn [skip_ws]. reflexivity.
  - change (join (44 :: sp) (map (fun kv => quote (fst kv) ++ 58 :: sp ++ rnd sp (snd kv)) ((k, x) :: y :: r')))
      with ((quote k ++ 58 :: sp ++ rnd sp x) ++ (44 :: sp) ++ join (44 :: sp) (map (fun kv => quote (fst kv) ++ 58 :: sp ++ rnd sp (snd kv)) (y :: r'))).
    rewrite <- (app_assoc (quote k ++ 58 :: sp ++ rnd sp x)). cbn [parse_members].
    rewrite Hkv by reflexivity. change (34 =? 34) with true. cbv iota.
    rewrite (parse_str_escape k _ Hk). cbn [skip_ws]. change (is_ws 58) with false. cbv iota. change (58 =? 58) with true. cbv iota.
    rewrite Hskip. rewrite <- !app_assoc. rewrite Hx by reflexivity.
    cbn [app skip_ws]. change (is_ws 44) with false. cbv iota. change (44 =? 44) with true. cbv iota.
    assert (E : parse_members pv n (sp ++ join (44 :: sp) (map (fun kv => quote (fst kv) ++ 58 :: sp ++ rnd sp (snd kv)) (y :: r')) ++ 125 :: rest)
                = Some (map (fun kv => (fst kv, to_json (snd kv))) (y :: r'), rest)).
    { destruct n as [|n']; [cbn [length] in Hn; lia|].
      assert (IH' := IH ltac:(discriminate) (S n') ltac:(cbn [length] in *; lia)).
      cbn [parse_members] in IH' |- *. rewrite (skip_ws_app sp _ Hsp). exact IH'. }
    rewrite E. reflexivity.
Qed.
End Elems.

(* ---------------- every rendered value parses to the document it denotes ---------------- *)
Lemma max_fold_le : forall {A} (f : A -> nat) (l : list A) x, In x l -> (f x <= fold_right (fun y a => Nat.max (f y) a) O l)%nat.
Proof.
  intros A f l x H. induction l as [|y r IH]; [contradiction|]. cbn [fold_right]. destruct H as [H|H]; [subst y; lia|].
  specialize (IH H). lia.
Qed.

Lemma parse_render : forall sp, ws sp -> forall v, wf v = true ->
  forall fuel rest, (depth v < fuel)%nat -> dstart rest = true ->
  parse_value fuel (rnd sp v ++ rest) = Some (to_json v, rest).
Proof.
  intros sp Hsp v. induction v as [|b|n|s|l IHl|es IHes|k0 d] using value_ind'; intros Hwf fuel rest Hfuel Hrest;
    (destruct fuel as [|f]; [lia|]); unfold rnd; cbn [render to_json].
  - reflexivity.
  - destruct b; reflexivity.
  - cbn [wf] in Hwf. destruct (render_num_head n Hwf) as [c [t [E Hc]]].
    rewrite E. cbn [app]. rewrite (pv_num f c _ Hc). change (c :: t ++ rest) with ((c :: t) ++ rest). rewrite <- E.
    apply parse_number_render; assumption.
  - cbn [wf] in Hwf. unfold quote. cbn [app]. rewrite pv_str. rewrite <- app_assoc. cbn [app].
    rewrite (parse_str_escape s rest Hwf). reflexivity.
  - (* list *)
    cbn [wf] in Hwf. cbn [app]. rewrite pv_arr.
    destruct l as [|x r].
    + cbn [map join app skip_ws]. reflexivity.
    + assert (Hall : Forall (fun y => wf y = true /\ forall rest', dstart rest' = true ->
                                  parse_value f (rnd sp y ++ rest') = Some (to_json y, rest')) (x :: r)).
      { rewrite Forall_forall. intros y Hy. rewrite forallb_forall in Hwf. split; [apply Hwf; exact Hy|].
        intros rest' Hr'. rewrite Forall_forall in IHl. apply (IHl y Hy (Hwf y Hy)); [|exact Hr'].
        cbn [depth] in Hfuel. pose proof (max_fold_le depth (x :: r) y Hy). lia. }
      assert (Hlen : (length (x :: r) <= length (join (44%N :: sp) (map (rnd sp) (x :: r))))%nat).
      { rewrite <- (map_length (rnd sp) (x :: r)). apply join_length. rewrite Forall_forall. intros t Ht.
        apply in_map_iff in Ht. destruct Ht as [y [Ey Hy]]. subst t. apply rnd_length. rewrite forallb_forall in Hwf. apply Hwf. exact Hy. }
      fold (rnd sp).
      assert (Hx : wf x = true) by (cbn [forallb] in Hwf; apply andb_true_iff in Hwf; apply Hwf).
      destruct (rnd_head sp x Hx) as [c [t [E [Hws [H93 _]]]]].
      assert (Ehd : exists t', join (44 :: sp) (map (rnd sp) (x :: r)) = c :: t').
      { destruct r as [|y r']; cbn [map join]; rewrite E; eexists; reflexivity. }
      destruct Ehd as [t' Ehd].
      rewrite <- app_assoc. cbn [app].
      pose proof (parse_elems_render (parse_value f) sp (fun s0 => parse_value_skip f sp s0 Hsp) (x :: r) rest Hall
                    ltac:(discriminate) (length (join (44 :: sp) (map (rnd sp) (x :: r)) ++ 93 :: rest))) as Hpe.
      rewrite Ehd in *. cbn [app] in *. rewrite (skip_ws_head c _ Hws).
      replace (c =? 93) with false by (symmetry; apply N.eqb_neq; exact H93).
      rewrite Hpe; [reflexivity|]. cbn [length] in *. rewrite app_length. lia.
  - (* context *)
    cbn [wf] in Hwf. cbn [app]. rewrite pv_obj.
    destruct es as [|[k x] r].
    + cbn [map join app skip_ws]. reflexivity.
    + assert (Hall : Forall (fun kv => wf_text (fst kv) = true /\ wf (snd kv) = true /\ forall rest', dstart rest' = true ->
                                  parse_value f (rnd sp (snd kv) ++ rest') = Some (to_json (snd kv), rest')) ((k, x) :: r)).
      { rewrite Forall_forall. intros y Hy. rewrite forallb_forall in Hwf. pose proof (Hwf y Hy) as Hy'.
        apply andb_true_iff in Hy'. destruct Hy' as [Hk Hv]. split; [exact Hk|]. split; [exact Hv|].
        intros rest' Hr'. rewrite Forall_forall in IHes. apply (IHes y Hy Hv); [|exact Hr'].
        cbn [depth] in Hfuel. pose proof (max_fold_le (fun kv => depth (snd kv)) ((k, x) :: r) y Hy). cbn beta in *. lia. }
      set (rk := fun kv : text * value => quote (fst kv) ++ 58 :: sp ++ rnd sp (snd kv)).
      assert (Hlen : (length ((k, x) :: r) <= length (join (44%N :: sp) (map rk ((k, x) :: r))))%nat).
      { rewrite <- (map_length rk ((k, x) :: r)). apply join_length. rewrite Forall_forall. intros t Ht.
        apply in_map_iff in Ht. destruct Ht as [y [Ey Hy]]. subst t. unfold rk, quote. cbn [app length]. lia. }
      assert (Ehd : exists t', join (44 :: sp) (map rk ((k, x) :: r)) = 34 :: t').
      { destruct r as [|y r']; cbn [map join]; unfold rk at 1, quote; cbn [fst app]; eexists; reflexivity. }
      destruct Ehd as [t' Ehd].
      change (join (44 :: sp) (map (fun kv => quote (fst kv) ++ 58 :: sp ++ render sp quote quote (snd kv)) ((k, x) :: r)))
        with (join (44 :: sp) (map rk ((k, x) :: r))).
      rewrite <- app_assoc. cbn [app].
      pose proof (parse_members_render (parse_value f) sp Hsp (fun s0 => parse_value_skip f sp s0 Hsp) ((k, x) :: r) rest Hall
                    ltac:(discriminate) (length (join (44 :: sp) (map rk ((k, x) :: r)) ++ 125 :: rest))) as Hpe.
      fold rk in Hpe.
      rewrite Ehd in *. cbn [app] in *. rewrite (skip_ws_head 34) by reflexivity.
      change (34 =? 125) with false. cbv iota.
      rewrite Hpe; [reflexivity|]. cbn [length] in *. rewrite app_length. lia.
  - cbn [wf] in Hwf. unfold quote. cbn [app]. rewrite pv_str. rewrite <- app_assoc. cbn [app].
    rewrite (parse_str_escape d rest Hwf). reflexivity.
Qed.

(* ---------------- top level ---------------- *)
Lemma join_member_length : forall sep (l : list text) x, In x l -> (length x <= length (join sep l))%nat.
Proof.
  intros sep l x H. induction l as [|y r IH]; [contradiction|].
  destruct r as [|z r'].
  - destruct H as [H|[]]. subst y. cbn [join]. lia.
  - change (join sep (y :: z :: r')) with (y ++ sep ++ join sep (z :: r')). rewrite !app_length.
    destruct H as [H|H]; [subst y; lia|]. specialize (IH H). lia.
Qed.

Lemma fold_max_bound : forall {A} (f : A -> nat) (l : list A) b, (forall x, In x l -> (f x <= b)%nat) ->
  (fold_right (fun y a => Nat.max (f y) a) O l <= b)%nat.
Proof.
  intros A f l b H. induction l as [|y r IH]; [cbn; lia|]. cbn [fold_right].
  pose proof (H y (or_introl eq_refl)). specialize (IH (fun x Hx => H x (or_intror Hx))). lia.
Qed.

Lemma depth_le_length : forall sp v, (depth v <= length (rnd sp v))%nat.
Proof.
  intros sp v. induction v as [|b|n|s|l IHl|es IHes|k0 d] using value_ind'; try (cbn [depth]; lia).
  - cbn [depth]. unfold rnd. cbn [render]. fold (rnd sp). cbn [length]. rewrite app_length. cbn [length].
    assert ((fold_right (fun x a => Nat.max (depth x) a) O l <= length (join (44%N :: sp) (map (rnd sp) l)))%nat); [|lia].
    apply fold_max_bound. intros x Hx. rewrite Forall_forall in IHl. specialize (IHl x Hx).
    pose proof (join_member_length (44%N :: sp) (map (rnd sp) l) (rnd sp x) (in_map _ _ _ Hx)). lia.
  - cbn [depth]. unfold rnd. cbn [render]. fold (rnd sp). cbn [length]. rewrite app_length. cbn [length].
    set (rk := fun kv : text * value => quote (fst kv) ++ 58%N :: sp ++ rnd sp (snd kv)).
    assert ((fold_right (fun kv a => Nat.max (depth (snd kv)) a) O es <= length (join (44%N :: sp) (map rk es)))%nat); [|lia].
    apply (fold_max_bound (fun kv => depth (snd kv))). intros x Hx. rewrite Forall_forall in IHes. specialize (IHes x Hx).
    pose proof (join_member_length (44%N :: sp) (map rk es) (rk x) (in_map _ _ _ Hx)) as Hj.
    unfold rk at 1 in Hj. rewrite app_length in Hj. cbn [length] in Hj. rewrite app_length in Hj. lia.
Qed.

Theorem json_parse_render : forall sp v, ws sp -> wf v = true -> json_parse (rnd sp v) = Some (to_json v).
Proof.
  intros sp v Hsp Hwf. unfold json_parse.
  pose proof (parse_render sp Hsp v Hwf (S (length (rnd sp v))) [] ltac:(pose proof (depth_le_length sp v); lia) eq_refl) as H.
  rewrite app_nil_r in H. rewrite H. reflexivity.
Qed.

Lemma traverse_map_some : forall {A B C} (f : A -> option B) (h : C -> A) (g : C -> B) (l : list C),
  Forall (fun x => f (h x) = Some (g x)) l -> traverse f (map h l) = Some (map g l).
Proof.
  intros A B C f h g l H. induction H as [|x r Hx Hr IH]; [reflexivity|]. cbn [traverse map]. rewrite Hx.
  change ((fix go (l0 : list A) : option (list B) :=
             match l0 with
             | [] => Some []
             | x0 :: r0 => match f x0, go r0 with Some y, Some ys => Some (y :: ys) | _, _ => None end
             end) (map h r)) with (traverse f (map h r)). rewrite IH. reflexivity.
Qed.

Lemma decode_to_json : forall v, decode (to_json v) = Some (strip v).
Proof.
  induction v as [|b|n|s|l IHl|es IHes|k0 d] using value_ind'; try reflexivity.
  - destruct n; reflexivity.
  - cbn [to_json decode strip]. rewrite (traverse_map_some decode to_json strip l IHl). reflexivity.
  - cbn [to_json decode strip].
    rewrite (traverse_map_some (fun kv => match decode (snd kv) with Some v => Some (fst kv, v) | None => None end)
               (fun kv => (fst kv, to_json (snd kv))) (fun kv => (fst kv, strip (snd kv))) es).
    + reflexivity.
    + rewrite Forall_forall in IHes |- *. intros x Hx. cbn [fst snd]. rewrite (IHes x Hx). reflexivity.
Qed.

Lemma strip_plain : forall v, plain v = true -> strip v = v.
Proof.
  induction v as [|b|n|s|l IHl|es IHes|k0 d] using value_ind'; intros H; try reflexivity; try discriminate.
  - cbn [strip plain] in *. f_equal. rewrite forallb_forall in H. rewrite Forall_forall in IHl.
    rewrite <- (map_id l) at 2. apply map_ext_in. intros x Hx. apply IHl; [exact Hx|apply H; exact Hx].
  - cbn [strip plain] in *. f_equal. rewrite forallb_forall in H. rewrite Forall_forall in IHes.
    rewrite <- (map_id es) at 2. apply map_ext_in. intros [k x] Hx. cbn [fst snd]. f_equal. apply (IHes (k, x) Hx). apply (H (k, x) Hx).
Qed.

Lemma ws_space : ws [32]. Proof. reflexivity. Qed.
Lemma ws_nil : ws []. Proof. reflexivity. Qed.

(* every rendered value, of any kind, is a well-formed JSON text that denotes the value *)
Theorem jsonify_wellformed : forall v, wf v = true -> json_parse (jsonify v) = Some (to_json v).
Proof. intros v H. exact (json_parse_render [32] v ws_space H). Qed.

Theorem compact_wellformed : forall v, wf v = true -> json_parse (compact v) = Some (to_json v).
Proof. intros v H. exact (json_parse_render [] v ws_nil H). Qed.

Theorem jsonify_decodes : forall v, wf v = true -> json_decode (jsonify v) = Some (strip v).
Proof. intros v H. unfold json_decode. rewrite (jsonify_wellformed v H). apply decode_to_json. Qed.

Theorem json_roundtrip : forall v, wf v = true -> plain v = true -> json_decode (jsonify v) = Some v.
Proof. intros v H Hp. rewrite (jsonify_decodes v H). rewrite (strip_plain v Hp). reflexivity. Qed.

Theorem compact_roundtrip : forall v, wf v = true -> plain v = true -> json_decode (compact v) = Some v.
Proof. intros v H Hp. unfold json_decode. rewrite (compact_wellformed v H). rewrite decode_to_json. rewrite (strip_plain v Hp). reflexivity. Qed.

(* rendering is injective on JSON-kind values: two results with the same body are the same value *)
Theorem jsonify_injective : forall v w, wf v = true -> wf w = true -> plain v = true -> plain w = true ->
  jsonify v = jsonify w -> v = w.
Proof.
  intros v w Hv Hw Pv Pw E. pose proof (json_roundtrip v Hv Pv) as H1. pose proof (json_roundtrip w Hw Pw) as H2.
  rewrite E in H1. rewrite H1 in H2. injection H2. auto.
Qed.

(* ---------------- the renderer of the pinned commit ---------------- *)
Definition v_john : value := VStr [72; 101; 108; 108; 111; 32; 74; 111; 34; 104; 110].          (* Hello Jo + quotation mark + hn *)
Definition v_inject : value := VList [VStr [97; 34; 44; 32; 34; 98]].                          (* one string: a QUOTE , SPACE QUOTE b *)
Definition v_key : value := VCtx [([97; 34; 58; 32; 49; 44; 32; 34; 98], VNull)].               (* the key  a QUOTE : 1 , QUOTE b *)
Definition v_date : value := VOther 1 [50; 48; 50; 49; 45; 48; 49; 45; 48; 49].                   (* 2021-01-01 *)

Theorem jsonify_orig_refuted :
  (wf v_john = true /\ plain v_john = true /\ json_parse (jsonify_orig v_john) = None) /\
  (wf v_inject = true /\ plain v_inject = true /\
   json_decode (jsonify_orig v_inject) = Some (VList [VStr [97]; VStr [98]])) /\
  (wf v_key = true /\ plain v_key = true /\
   json_decode (jsonify_orig v_key) = Some (VCtx [([97], VNum {| nneg := false; nint := [1]; nfrac := [] |}); ([98], VNull)])) /\
  (wf v_date = true /\ json_parse (jsonify_orig v_date) = None).
Proof. vm_compute. repeat split; reflexivity. Qed.

Example roundtrip_nonvacuous :
  let v := VCtx [([97; 34; 98], VList [VNum {| nneg := true; nint := [1; 0]; nfrac := [5; 0] |};
                                        VStr [72; 10; 1; 233; 128512; 92; 34]; VNull; VBool false; VList []; VCtx []])] in
  wf v = true /\ plain v = true /\ json_decode (jsonify v) = Some v /\ jsonify v <> jsonify_orig v.
Proof. vm_compute. repeat split; try reflexivity. discriminate. Qed.
