(* C01 — the coercion of arguments in the evaluator model IS the coercion proved in C16: an abstraction maps the values of
   coq/C01/Syntax.v onto the values of coq/C16/Model.v, commuting with type_of and with coerced; the C16 theorems transfer. *)
From Coq Require Import List ZArith NArith Bool Lia.
From DV Require Import C01.Syntax.
From DV Require C16.Model C16.Proofs.
Import ListNotations.
Module T := C16.Model.
Module TP := C16.Proofs.

Fixpoint abs (v : value) : T.value :=
  match v with
  | VNull => T.VNull
  | VBool b => T.VAtom T.SBoolean (if b then 1 else 0)%N
  | VNum d => T.VAtom T.SNumber (Base.Dec.coef d)
  | VStr s => T.VAtom T.SString (N.of_nat (length s))
  | VList l => T.VList (map abs l)
  | VCtx es => T.VCtx (map (fun e => (fst e, abs (snd e))) es)
  | VRange lo _ hi _ => T.VRange (abs lo) (abs hi)
  | VUnary _ _ => T.VAtom T.SBoolean 0%N
  | VFun ps _ => T.VFun (map snd ps) (T.TS T.SAny)
  | VPoison => T.VAtom T.SAny 0%N
  end.

Lemma vsum_in x l : In x l -> (vsize x <= fold_right (fun x n => vsize x + n) 0 l)%nat.
Proof. induction l as [|y l IH]; cbn [In fold_right]; [tauto|]. intros [->|H]; [lia|]. specialize (IH H). lia. Qed.
Lemma vsum_in_es (e : N * value) es : In e es -> (vsize (snd e) <= fold_right (fun e n => vsize (snd e) + n) 0 es)%nat.
Proof. induction es as [|q es IH]; cbn [In fold_right]; [tauto|]. intros [->|H]; [lia|]. specialize (IH H). lia. Qed.

Lemma forallb_map {A B} (g : A -> B) (p : B -> bool) l : forallb p (map g l) = forallb (fun a => p (g a)) l.
Proof. induction l as [|a l IH]; cbn [map forallb]; [reflexivity|]. rewrite IH. reflexivity. Qed.

Lemma type_of_abs_n : forall n v, (vsize v <= n)%nat -> T.type_of (abs v) = type_of1 v.
Proof. induction n as [|n IH]; intros v Hs; [destruct v; cbn [vsize] in Hs; lia|].
  destruct v as [| | | |l|es|lo lc hi hc|o u|ps body|]; cbn [abs T.type_of type_of1]; try reflexivity; cbn [vsize] in Hs.
  - destruct l as [|x l]; [reflexivity|]. cbn [map]. cbn [fold_right] in Hs.
    change (abs x :: map abs l) with (map abs (x :: l)). rewrite forallb_map, (IH x) by lia.
    rewrite (TP.forallb_ext_in (fun a => T.type_eqb (T.type_of (abs a)) (type_of1 x)) (fun y => T.type_eqb (type_of1 y) (type_of1 x))); [reflexivity|].
    intros y Hy. rewrite (IH y); [reflexivity|]. pose proof (vsum_in y (x :: l) Hy) as H. cbn [fold_right] in H. lia.
  - f_equal. rewrite map_map. apply map_ext_in. intros e He. cbn [fst snd]. rewrite (IH (snd e)); [reflexivity|].
    pose proof (vsum_in_es e es He). lia.
  - rewrite (IH lo), (IH hi) by lia. reflexivity.
Qed.

Theorem type_of_abs v : T.type_of (abs v) = type_of1 v.
Proof. apply (type_of_abs_n (vsize v)). lia. Qed.

Theorem coerced_abs t v : poison v = false -> abs (coerced1 t v) = T.coerced t (abs v).
Proof. intros Hp. unfold coerced1, T.coerced. rewrite Hp, type_of_abs.
  destruct (T.conformant (type_of1 v) t) eqn:E; [reflexivity|].
  assert (Hu : abs (match v with VList [x] => if T.conformant (type_of1 x) t then x else VNull | _ => VNull end) =
               match abs v with T.VList [x] => if T.conformant (T.type_of x) t then x else T.VNull | _ => T.VNull end).
  { destruct v as [| [|] | | |[|x [|y l]]|es|lo lc hi hc|o u|ps body|]; try reflexivity.
    cbn [abs map]. rewrite type_of_abs. destruct (T.conformant (type_of1 x) t); reflexivity. }
  destruct t as [s|item|r|es|ps r]; try exact Hu.
  destruct (T.conformant (type_of1 v) item); [reflexivity|exact Hu]. Qed.

(* the C16 theorems, transferred to the evaluator's values *)
Theorem coerced1_conforms_or_null t v : TP.wf t = true -> TP.wfv (abs v) = true -> poison v = false ->
  abs (coerced1 t v) = T.VNull \/ T.conformant (type_of1 (coerced1 t v)) t = true.
Proof. intros Ht Hv Hp. rewrite coerced_abs by exact Hp. rewrite <- type_of_abs, coerced_abs by exact Hp.
  apply TP.coerced_conforms_or_null; assumption. Qed.

Theorem coerced1_identity t v : poison v = false -> T.conformant (type_of1 v) t = true -> coerced1 t v = v.
Proof. intros Hp H. unfold coerced1. rewrite Hp, H. reflexivity. Qed.

Example coerced1_examples :
  coerced1 (T.TList (T.TS T.SNumber)) (vnum 1) = VList [vnum 1] /\
  coerced1 (T.TS T.SNumber) (VList [vnum 1]) = vnum 1 /\
  coerced1 (T.TS T.SNumber) (VStr [97%N]) = VNull /\
  coerced1 (T.TCtx [(101%N, T.TS T.SNumber)]) (VCtx [(101%N, vnum 1); (102%N, vnum 2)]) = VCtx [(101%N, vnum 1); (102%N, vnum 2)].
Proof. vm_compute. auto. Qed.
