"""Parser for terms as printed by Coq 8.16 (`Eval vm_compute in ...`) with notations on:
lists [a; b], tuples (a, b), records {| f := v |}, applications `C a b`, numerals with %scope,
strings.  Returns ints, strs, bools, lists, tuples, dicts and App(name, args)."""
import re
from collections import namedtuple

App = namedtuple('App', 'name args')

_tok = re.compile(r'''\s*(?:
  (?P<rec_o>\{\|) | (?P<rec_c>\|\}) | (?P<assign>:=) |
  (?P<punct>[\[\]();,]) |
  (?P<str>"(?:[^"]|"")*") |
  (?P<num>-?\s?\d+) |
  (?P<scope>%[A-Za-z_][A-Za-z0-9_]*) |
  (?P<id>[A-Za-z_][A-Za-z0-9_'.]*)
)''', re.X)


def tokenize(s):
    pos, out = 0, []
    n = len(s)
    while pos < n:
        m = _tok.match(s, pos)
        if not m:
            if s[pos:].strip() == '':
                break
            raise ValueError('coqterm: cannot tokenize at %r' % s[pos:pos + 40])
        pos = m.end()
        k = m.lastgroup
        if k == 'scope':
            continue
        out.append((k, m.group(k)))
    return out


class _P:
    def __init__(self, toks):
        self.t = toks
        self.i = 0

    def peek(self):
        return self.t[self.i] if self.i < len(self.t) else (None, None)

    def next(self):
        x = self.t[self.i]
        self.i += 1
        return x

    def term(self):
        head = self.atom()
        args = []
        while True:
            k, v = self.peek()
            if k in ('num', 'str', 'id', 'rec_o') or (k == 'punct' and v in '[('):
                args.append(self.atom())
            else:
                break
        if args:
            if isinstance(head, App) and not head.args:
                return App(head.name, args)
            raise ValueError('coqterm: application of non-identifier %r' % (head,))
        return head

    def atom(self):
        k, v = self.next()
        if k == 'num':
            return int(v.replace(' ', ''))
        if k == 'str':
            return v[1:-1].replace('""', '"')
        if k == 'id':
            if v == 'true':
                return True
            if v == 'false':
                return False
            return App(v, [])
        if k == 'rec_o':
            d = {}
            while True:
                k2, v2 = self.peek()
                if k2 == 'rec_c':
                    self.next()
                    return d
                _, name = self.next()
                self.next()  # :=
                d[name.split('.')[-1]] = self.term()      # field names may be printed qualified (Dec.coef)
                k3, v3 = self.peek()
                if k3 == 'punct' and v3 == ';':
                    self.next()
        if k == 'punct' and v == '[':
            xs = []
            while True:
                k2, v2 = self.peek()
                if k2 == 'punct' and v2 == ']':
                    self.next()
                    return xs
                xs.append(self.term())
                k3, v3 = self.peek()
                if k3 == 'punct' and v3 == ';':
                    self.next()
        if k == 'punct' and v == '(':
            xs = [self.term()]
            while True:
                k2, v2 = self.next()
                if v2 == ')':
                    break
                if v2 == ',':
                    xs.append(self.term())
                else:
                    raise ValueError('coqterm: unexpected %r in parens' % (v2,))
            return xs[0] if len(xs) == 1 else tuple(xs)
        raise ValueError('coqterm: unexpected token %r' % ((k, v),))


def parse(s):
    p = _P(tokenize(s))
    t = p.term()
    if p.i != len(p.t):
        raise ValueError('coqterm: trailing tokens %r' % (p.t[p.i:p.i + 5],))
    return t


def parse_evals(out):
    """Split the stdout of coqc containing several `Eval` results; returns the parsed terms."""
    res = []
    for chunk in re.split(r'^\s*= ', out, flags=re.M)[1:]:
        j = chunk.rfind('\n     : ')
        body = chunk[:j] if j >= 0 else chunk
        res.append(parse(body))
    return res
