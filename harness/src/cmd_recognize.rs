//! `dv recognize`: one JSON request per line:
//!   {"text": drawn decision table, "calls": [ctx-text, ...], "plane": bool}
//! answer:
//!   {"ok": {fields of the recognised DecisionTable}, "plane": Display dump of the plane (if asked),
//!    "build": "ok"|"err"|"panic", "results": [{"v": canonical}|{"err":"ctx"}|{"panic": text}]}
//!   | {"err": message}            dmntk_recognizer::build returned Err
//!   | {"panic": text}             it panicked
//! The evaluator is built with build_decision_table_evaluator over the scope made from the first context (the names of
//! the input expressions must be known to the parser) and evaluated over the scope of every context.
//! (owner: builder-dt; C03, C19)
use crate::canon::{canon, panic_text};
use dmntk_feel::Scope;
use dmntk_model::model::{BuiltinAggregator, DecisionTableOrientation, HitPolicy};
use serde_json::{json, Value as J};
use std::io::{BufRead, Write};
use std::panic::{catch_unwind, AssertUnwindSafe};

fn hit_policy_text(hp: &HitPolicy) -> &'static str {
  match hp {
    HitPolicy::Unique => "U",
    HitPolicy::Any => "A",
    HitPolicy::Priority => "P",
    HitPolicy::First => "F",
    HitPolicy::RuleOrder => "R",
    HitPolicy::OutputOrder => "O",
    HitPolicy::Collect(BuiltinAggregator::List) => "C",
    HitPolicy::Collect(BuiltinAggregator::Sum) => "C+",
    HitPolicy::Collect(BuiltinAggregator::Count) => "C#",
    HitPolicy::Collect(BuiltinAggregator::Min) => "C<",
    HitPolicy::Collect(BuiltinAggregator::Max) => "C>",
  }
}

fn aggregation_text(a: &Option<BuiltinAggregator>) -> J {
  match a {
    None => J::Null,
    Some(BuiltinAggregator::List) => json!("LIST"),
    Some(BuiltinAggregator::Sum) => json!("SUM"),
    Some(BuiltinAggregator::Count) => json!("COUNT"),
    Some(BuiltinAggregator::Min) => json!("MIN"),
    Some(BuiltinAggregator::Max) => json!("MAX"),
  }
}

pub fn one(req: &J) -> J {
  let text = req["text"].as_str().unwrap_or("").to_string();
  let calls = req["calls"].as_array().cloned().unwrap_or_default();
  let mut out = serde_json::Map::new();
  if req["plane"].as_bool().unwrap_or(false) {
    let t2 = text.clone();
    let plane = catch_unwind(move || dmntk_recognizer::Recognizer::recognize(&t2).map(|r| r.plane.to_string()));
    out.insert(
      "plane".to_string(),
      match plane {
        Ok(Ok(p)) => json!(p),
        Ok(Err(_)) => json!({"err": true}),
        Err(_) => json!({"panic": true}),
      },
    );
  }
  let t3 = text.clone();
  let dt = match catch_unwind(move || dmntk_recognizer::build(&t3)) {
    Ok(Ok(dt)) => dt,
    Ok(Err(e)) => {
      out.insert("err".to_string(), json!(e.to_string()));
      return J::Object(out);
    }
    Err(e) => {
      out.insert("panic".to_string(), json!(panic_text(e)));
      return J::Object(out);
    }
  };
  out.insert(
    "ok".to_string(),
    json!({
      "information_item_name": dt.information_item_name,
      "hit_policy": hit_policy_text(&dt.hit_policy),
      "aggregation": aggregation_text(&dt.aggregation),
      "orientation": match dt.preferred_orientation {
        DecisionTableOrientation::RuleAsRow => "row",
        DecisionTableOrientation::RuleAsColumn => "column",
        DecisionTableOrientation::CrossTable => "cross",
      },
      "output_label": dt.output_label,
      "inputs": dt.input_clauses.iter().map(|c| json!([c.input_expression, c.input_values])).collect::<Vec<J>>(),
      "outputs": dt.output_clauses.iter().map(|c| json!([c.name, c.output_values, c.default_output_entry])).collect::<Vec<J>>(),
      "annotations": dt.annotations.iter().map(|c| json!(c.name)).collect::<Vec<J>>(),
      "rules": dt.rules.iter().map(|r| json!([
        r.input_entries.iter().map(|e| e.text.clone()).collect::<Vec<String>>(),
        r.output_entries.iter().map(|e| e.text.clone()).collect::<Vec<String>>(),
        r.annotation_entries.iter().map(|e| e.text.clone()).collect::<Vec<String>>()])).collect::<Vec<J>>(),
    }),
  );
  if calls.is_empty() {
    return J::Object(out);
  }
  // evaluator over the scope of the first context
  let first = calls[0].as_str().unwrap_or("{}").to_string();
  let built = catch_unwind(AssertUnwindSafe(|| {
    let ctx = dmntk_feel_evaluator::evaluate_context(&Scope::default(), &first).map_err(|_| "ctx".to_string())?;
    let scope: Scope = ctx.into();
    dmntk_model_evaluator::build_decision_table_evaluator(&scope, &dt).map_err(|e| e.to_string())
  }));
  let evaluator = match built {
    Ok(Ok(ev)) => ev,
    Ok(Err(e)) => {
      out.insert("build".to_string(), json!("err"));
      out.insert("build_msg".to_string(), json!(e));
      return J::Object(out);
    }
    Err(e) => {
      out.insert("build".to_string(), json!("panic"));
      out.insert("build_msg".to_string(), json!(panic_text(e)));
      return J::Object(out);
    }
  };
  out.insert("build".to_string(), json!("ok"));
  let mut results = vec![];
  for call in calls {
    let ctx_text = call.as_str().unwrap_or("{}").to_string();
    let r = catch_unwind(AssertUnwindSafe(|| {
      let ctx = match dmntk_feel_evaluator::evaluate_context(&Scope::default(), &ctx_text) {
        Ok(c) => c,
        Err(_) => return json!({"err": "ctx"}),
      };
      let scope: Scope = ctx.into();
      json!({"v": canon(&evaluator(&scope))})
    }))
    .unwrap_or_else(|e| json!({"panic": panic_text(e)}));
    results.push(r);
  }
  out.insert("results".to_string(), J::Array(results));
  J::Object(out)
}

pub fn main() {
  let stdin = std::io::stdin();
  let stdout = std::io::stdout();
  let mut out = std::io::BufWriter::new(stdout.lock());
  for line in stdin.lock().lines() {
    let line = line.unwrap();
    if line.trim().is_empty() {
      continue;
    }
    let req: J = serde_json::from_str(&line).unwrap_or(J::Null);
    let r = catch_unwind(|| one(&req)).unwrap_or_else(|e| json!({"panic": panic_text(e)}));
    writeln!(out, "{}", r).unwrap();
    out.flush().unwrap();
  }
  out.flush().unwrap();
}
