(* C05, listed finding dtd-sum-beyond-i128: feel/src/temporal/dt_duration.rs holds a days-and-time duration as an i128 of nanoseconds and
   `impl Add` is `Self(self.0 + rhs.0)` - an unchecked machine addition.  The model of that addition in both builds, the exact set on which it
   traps / wraps, and the witness: the largest literal (2^64 - 1 days) doubled 16 times still fits, doubled 17 times it does not. *)
From Coq Require Import ZArith Lia Bool.
From DV Require Import C05.Model.
Open Scope Z_scope.

Definition i128_min : Z := - 2 ^ 127.
Definition i128_max : Z := 2 ^ 127 - 1.
Definition two128 : Z := 2 ^ 128.
Definition in_i128 (z : Z) : bool := (i128_min <=? z) && (z <=? i128_max).
Definition wrap_i128 (z : Z) : Z := (z - i128_min) mod two128 + i128_min.

(* impl Add for FeelDaysAndTimeDuration *)
Definition dtd_add (b : build) (x y : Z) : mres :=
  if in_i128 (x + y) then MOk (x + y) else match b with Debug => MTrap | Release => MOk (wrap_i128 (x + y)) end.

(* the class of the listed finding *)
Definition beyond_i128 (x y : Z) : Prop := x + y < i128_min \/ i128_max < x + y.

Lemma in_i128_spec : forall z, in_i128 z = true <-> i128_min <= z <= i128_max.
Proof. intro z. unfold in_i128. rewrite andb_true_iff, !Z.leb_le. tauto. Qed.

(* outside the class the sum is exact in both builds *)
Lemma dtd_add_exact : forall b x y, ~ beyond_i128 x y -> dtd_add b x y = MOk (x + y).
Proof.
  intros b x y H. unfold dtd_add. destruct (in_i128 (x + y)) eqn:E; [reflexivity|].
  exfalso. apply H. unfold beyond_i128.
  destruct (Z_le_gt_dec i128_min (x + y)) as [L|L]; [|left; lia].
  destruct (Z_le_gt_dec (x + y) i128_max) as [U|U]; [|right; lia].
  assert (in_i128 (x + y) = true) by (apply in_i128_spec; lia). congruence.
Qed.

(* inside the class: a trap in the build that checks overflow, a value that is NOT the sum in the other *)
Lemma dtd_add_beyond : forall x y, beyond_i128 x y ->
  dtd_add Debug x y = MTrap /\ exists z, dtd_add Release x y = MOk z /\ z <> x + y.
Proof.
  intros x y H. unfold dtd_add.
  assert (E : in_i128 (x + y) = false).
  { destruct (in_i128 (x + y)) eqn:E; [|reflexivity]. apply in_i128_spec in E. unfold beyond_i128 in H. lia. }
  rewrite E. split; [reflexivity|]. eexists. split; [reflexivity|].
  unfold wrap_i128. intro C.
  assert (B : 0 <= (x + y - i128_min) mod two128 < two128) by (apply Z.mod_pos_bound; reflexivity).
  unfold beyond_i128 in H. unfold i128_min, i128_max, two128 in *. lia.
Qed.

Lemma dtd_add_traps_iff : forall x y, dtd_add Debug x y = MTrap <-> beyond_i128 x y.
Proof.
  intros x y. split.
  - intro T. destruct (Z_le_gt_dec i128_min (x + y)) as [L|L]; [|left; lia].
    destruct (Z_le_gt_dec (x + y) i128_max) as [U|U]; [|right; lia].
    rewrite (dtd_add_exact Debug x y) in T; [discriminate|]. unfold beyond_i128. lia.
  - intro H. apply dtd_add_beyond. exact H.
Qed.

(* the witness: duration("P18446744073709551615D") in nanoseconds, doubled *)
Definition max_literal_ns : Z := 18446744073709551615 * 86400 * 1000000000.
Fixpoint doubled (n : nat) (x : Z) : mres :=
  match n with O => MOk x | S k => match doubled k x with MOk z => dtd_add Debug z z | MTrap => MTrap end end.

Lemma doubling_witness :
  doubled 16 max_literal_ns = MOk (2 ^ 16 * max_literal_ns) /\ doubled 17 max_literal_ns = MTrap /\
  doubled 16 (- max_literal_ns) = MOk (- (2 ^ 16 * max_literal_ns)) /\ doubled 17 (- max_literal_ns) = MTrap.
Proof. repeat split; vm_compute; reflexivity. Qed.
