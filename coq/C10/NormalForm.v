(* C10 — where the original flatten_name_parts agreed with Name::new (finite).  Owner: builder-parse. *)
From Coq Require Import List NArith Bool Arith Lia.
From DV Require Import C10.Model.
Import ListNotations.

(* the class on which the original flatten_name_parts agrees with Name::new: every additional symbol stands between two words *)
Fixpoint isolated_go (prev_word : bool) (ps : list str) : bool :=
  match ps with
  | [] => prev_word
  | p :: r => if is_sym_part p then prev_word && isolated_go false r else isolated_go true r
  end.
Definition isolated (ps : list str) : bool := match ps with [] | [_] => true | _ => isolated_go false ps end.

Definition alphabet : list str := [[97]; [98; 99]; [46]; [47]; [45]; [39]; [43]; [42]]%N.

Fixpoint lists_upto (n : nat) : list (list str) :=
  match n with
  | O => [[]]
  | S k => [] :: flat_map (fun l => map (fun x => x :: l) alphabet) (lists_upto k)
  end.

Definition isolated_agrees (ps : list str) : bool :=
  implb (isolated ps) (str_eqb (flatten_parts_orig ps) (name_new ps)).

Lemma isolated_agrees_upto5 : forallb isolated_agrees (lists_upto 5) = true.
Proof. vm_compute. reflexivity. Qed.

Lemma str_eqb_eq : forall a b, str_eqb a b = true -> a = b.
Proof.
  induction a as [|x a IH]; destruct b as [|y b]; cbn; intro H; try discriminate H; [reflexivity|].
  apply andb_true_iff in H. destruct H as [H1 H2]. apply N.eqb_eq in H1. subst. f_equal. apply IH. exact H2.
Qed.

(* bound: part lists of at most 5 parts over two words and the six additional symbols (37449 lists) *)
Lemma normal_form_orig_isolated : forall ps, List.In ps (lists_upto 5) -> isolated ps = true ->
  flatten_parts_orig ps = name_new ps.
Proof.
  intros ps Hin Hiso. pose proof isolated_agrees_upto5 as H. rewrite forallb_forall in H.
  specialize (H ps Hin). unfold isolated_agrees in H. rewrite Hiso in H. cbn in H. apply str_eqb_eq. exact H.
Qed.
