(* C19 — proofs about C19/Model.v.
   General (all planes / all tables): pivot of cells is an involution; a rectangle query on a row
   assembled from blocks returns the block; the recogniser reads the texts of a block of regions.
   Bounded (finite sweep by vm_compute, bound in the statement): the round trip
   recognize_horizontal (layout_h t) = fields_of t and pivot (pivot (layout_h t)) = layout_h t for every
   table SHAPE with 1..5 inputs, 1..3 outputs, 0..2 annotations, 1..8 rules, with/without output label,
   with/without allowed values, over pairwise distinct texts. *)
From Coq Require Import List NArith Bool Arith Lia.
From DV Require Import C19.Model.
Import ListNotations.

Lemma pivot_cell_involutive c : pivot_cell (pivot_cell c) = c.
Proof. destruct c; reflexivity. Qed.

Lemma cols_block (a : list cell) x b : cols 0 (length a) (a ++ x :: b) = a.
Proof. unfold cols. rewrite Nat.sub_0_r. cbn [skipn]. rewrite firstn_app, Nat.sub_diag, firstn_all. cbn [firstn]. apply app_nil_r. Qed.

Lemma cols_block2 (a : list cell) x b y c : cols (S (length a)) (S (length a) + length b) (a ++ x :: b ++ y :: c) = b.
Proof. unfold cols. replace (S (length a) + length b - S (length a)) with (length b) by lia.
  replace (a ++ x :: b ++ y :: c) with ((a ++ [x]) ++ b ++ y :: c) by (rewrite <- app_assoc; reflexivity).
  replace (S (length a)) with (length (a ++ [x])) by (rewrite app_length; cbn [length]; lia).
  rewrite skipn_app, Nat.sub_diag, skipn_all. cbn [skipn app]. rewrite firstn_app, Nat.sub_diag, firstn_all. cbn [firstn]. apply app_nil_r. Qed.

Lemma cols_block2_end (a : list cell) x b : cols (S (length a)) (length (a ++ x :: b)) (a ++ x :: b) = b.
Proof. unfold cols. rewrite app_length. cbn [length]. replace (length a + S (length b) - S (length a)) with (length b) by lia.
  replace (a ++ x :: b) with ((a ++ [x]) ++ b) by (rewrite <- app_assoc; reflexivity).
  replace (S (length a)) with (length (a ++ [x])) by (rewrite app_length; cbn [length]; lia).
  rewrite skipn_app, Nat.sub_diag, skipn_all. cbn [skipn app]. apply firstn_all. Qed.

Lemma texts_regions {A} (f : A -> rid) (g : A -> N) l : texts (map (fun x => Region (f x) (g x)) l) = Some (map g l).
Proof. induction l as [|x l IH]; cbn [map texts]; [reflexivity|]. rewrite IH. reflexivity. Qed.

Lemma ids_regions {A} (f : A -> rid) (g : A -> N) l : ids (map (fun x => Region (f x) (g x)) l) = Some (map f l).
Proof. induction l as [|x l IH]; cbn [map ids]; [reflexivity|]. rewrite IH. reflexivity. Qed.

Lemma find_cell_none f row : forallb (fun c => negb (f c)) row = true -> find_cell f row = None.
Proof. induction row as [|c r IH]; cbn [forallb find_cell]; [reflexivity|]. intros H. apply andb_true_iff in H. destruct H as [H1 H2].
  apply negb_true_iff in H1. rewrite H1, (IH H2). reflexivity. Qed.

Lemma find_cell_app f a b : find_cell f a = None -> find_cell f (a ++ b) = option_map (Nat.add (length a)) (find_cell f b).
Proof. induction a as [|c a IH]; cbn [app find_cell length]; intros H.
  - destruct (find_cell f b); reflexivity.
  - destruct (f c); [discriminate|]. destruct (find_cell f a) eqn:E; [discriminate|]. rewrite (IH eq_refl).
    destruct (find_cell f b); reflexivity. Qed.

(* the main crossing of a drawn table sits after the input columns *)
Theorem main_crossing_column t : find_cell is_main (cross_row t) = Some (length (t_inputs t)).
Proof. unfold cross_row. rewrite find_cell_app.
  - cbn [find_cell is_main option_map]. rewrite map_length. f_equal. lia.
  - apply find_cell_none. rewrite forallb_forall. intros c Hc. apply in_map_iff in Hc. destruct Hc as [_ [<- _]]. reflexivity. Qed.

(* ================================================================== the unbounded round trip *)
Lemma forallb_map_true {A} (P : cell -> bool) (f : A -> cell) l : (forall x, P (f x) = true) -> forallb P (map f l) = true.
Proof. intros H. induction l as [|x l IH]; cbn [map forallb]; [reflexivity|]. rewrite H, IH. reflexivity. Qed.

Lemma find_plane_app f a b : (forall r, In r a -> find_cell f r = None) ->
  find_plane f (a ++ b) = option_map (fun xy => (fst xy, length a + snd xy)) (find_plane f b).
Proof. induction a as [|r a IH]; intros H; cbn [app find_plane length].
  - destruct (find_plane f b) as [[x y]|]; reflexivity.
  - rewrite (H r (or_introl eq_refl)), IH by (intros r' Hr'; apply H; right; exact Hr').
    destruct (find_plane f b) as [[x y]|]; reflexivity. Qed.

Lemma find_plane_none f p : (forall r, In r p -> find_cell f r = None) -> find_plane f p = None.
Proof. induction p as [|r p IH]; intros H; cbn [find_plane]; [reflexivity|].
  rewrite (H r (or_introl eq_refl)), IH by (intros r' Hr'; apply H; right; exact Hr'). reflexivity. Qed.

Lemma nth_map_seq {A} (f : nat -> A) d n : forall s k, k < n -> nth k (map f (seq s n)) d = f (s + k).
Proof. induction n as [|n IH]; intros s k Hk; [lia|]. cbn [seq map]. destruct k as [|k]; cbn [nth]; [f_equal; lia|].
  rewrite IH by lia. f_equal. lia. Qed.

Lemma map_snd_combine {A B} : forall (a : list A) (b : list B), length a = length b -> map snd (combine a b) = b.
Proof. induction a as [|x a IH]; intros [|y b] Hl; cbn in *; try discriminate; [reflexivity|]. rewrite IH by lia. reflexivity. Qed.

Lemma map_snd_indexed {A} (l : list A) : map snd (indexed l) = l.
Proof. unfold indexed. apply map_snd_combine. rewrite map_length, seq_length. reflexivity. Qed.

Lemma indexed_length {A} (l : list A) : length (indexed l) = length l.
Proof. unfold indexed. rewrite combine_length, map_length, seq_length. lia. Qed.

Lemma map_indexed {A B} (g : A -> B) (l : list A) : map (fun x => g (snd x)) (indexed l) = map g l.
Proof. rewrite <- (map_map snd g), map_snd_indexed. reflexivity. Qed.

Lemma all_texts_map {A} (g : A -> list cell) (h : A -> list N) l :
  (forall x, In x l -> texts (g x) = Some (h x)) -> all_texts (map g l) = Some (map h l).
Proof. induction l as [|x l IH]; intros H; cbn [map all_texts]; [reflexivity|].
  rewrite (H x (or_introl eq_refl)), IH by (intros y Hy; apply H; right; exact Hy). reflexivity. Qed.

Lemma all2_refl l : all2 rid_eqb l l = true.
Proof. induction l as [|[a b] l IH]; cbn [all2]; [reflexivity|]. unfold rid_eqb at 1. cbn [fst snd]. rewrite !N.eqb_refl, IH. reflexivity. Qed.

Lemma all2_tags_differ {A} (f : A -> N) l : all2 (fun x y => negb (rid_eqb x y)) (map (fun x => (1%N, f x)) l) (map (fun x => (2%N, f x)) l) = true.
Proof. induction l as [|x l IH]; cbn [map all2]; [reflexivity|]. rewrite IH. reflexivity. Qed.

Lemma all2_tags_not_equal {A} (f : A -> N) x l : all2 rid_eqb (map (fun x => (1%N, f x)) (x :: l)) (map (fun x => (2%N, f x)) (x :: l)) = false.
Proof. reflexivity. Qed.

Lemma cols_block3 (a : list cell) x b y c :
  cols (S (length a + 1 + length b)) (length a + 1 + length b + 1 + length c) (a ++ x :: b ++ y :: c) = c.
Proof. replace (a ++ x :: b ++ y :: c) with ((a ++ x :: b) ++ y :: c) by (rewrite <- app_assoc; reflexivity).
  replace (length a + 1 + length b) with (length (a ++ x :: b)) by (rewrite app_length; cbn [length]; lia).
  replace (length (a ++ x :: b) + 1 + length c) with (length ((a ++ x :: b) ++ y :: c)) by (rewrite !app_length; cbn [length]; lia).
  apply cols_block2_end. Qed.

Section Roundtrip.
Variable t : table.
Hypothesis Hwf : wf t = true.
Local Notation n_in := (length (t_inputs t)).
Local Notation n_out := (length (t_outputs t)).
Local Notation n_ann := (length (t_annotations t)).
Local Notation HH := (hdr t).

Lemma wf_parts19 : 0 < n_in /\ 0 < n_out /\
  forall r, In r (t_rules t) -> length (r_in r) = n_in /\ length (r_out r) = n_out /\ length (r_ann r) = n_ann.
Proof. pose proof Hwf as Hw. unfold wf in Hw. apply andb_true_iff in Hw. destruct Hw as [H1 H3]. apply andb_true_iff in H1. destruct H1 as [H1 H2].
  apply Nat.ltb_lt in H1, H2. split; [exact H1|]. split; [exact H2|]. intros r Hr. rewrite forallb_forall in H3. specialize (H3 r Hr).
  apply andb_true_iff in H3; destruct H3 as [H3 H5]; apply andb_true_iff in H3; destruct H3 as [H3 H4];
  apply Nat.eqb_eq in H3, H4, H5. tauto. Qed.

(* total width of a row *)
Definition W : nat := n_in + 1 + n_out + match t_annotations t with [] => 0 | _ => 1 + n_ann end.
Definition oright : nat := match t_annotations t with [] => W | _ => n_in + 1 + n_out end.

(* every row of the layout: three blocks *)
Definition shaped (row a b c : list cell) (s1 s2 : cell) : Prop :=
  row = a ++ s1 :: b ++ sep_ann t s2 c /\ length a = n_in /\ length b = n_out /\ length c = n_ann.

Lemma q_in row a b c s1 s2 : shaped row a b c s1 s2 -> cols 0 n_in row = a.
Proof. intros [-> [<- _]]. apply cols_block. Qed.

Lemma q_out row a b c s1 s2 : shaped row a b c s1 s2 -> cols (S n_in) oright row = b.
Proof. intros [-> [Ha [Hb Hc]]]. unfold oright, W, sep_ann. destruct (t_annotations t) as [|an ans].
  - rewrite app_nil_r. replace (n_in + 1 + n_out + 0) with (length (a ++ s1 :: b)) by (rewrite app_length; cbn [length]; lia).
    rewrite <- Ha. apply cols_block2_end.
  - replace (n_in + 1 + n_out) with (S (length a) + length b) by lia. rewrite <- Ha. apply cols_block2. Qed.

Lemma q_ann row a b c s1 s2 : t_annotations t <> [] -> shaped row a b c s1 s2 -> cols (S (n_in + 1 + n_out)) W row = c.
Proof. intros Hne [-> [Ha [Hb Hc]]]. unfold W, sep_ann. destruct (t_annotations t) as [|an ans]; [congruence|].
  rewrite <- Ha, <- Hb, <- Hc. replace (length a + 1 + length b + (1 + length c)) with (length a + 1 + length b + 1 + length c) by lia.
  apply cols_block3. Qed.

Lemma h_ins_length k : length (h_ins t k) = n_in.
Proof. unfold h_ins. rewrite map_length, indexed_length. reflexivity. Qed.
Lemma h_outs_length k : length (h_outs t k) = n_out.
Proof. unfold h_outs. destruct (multi t); [destruct (label_row t && Nat.eqb k 0); [|destruct (Nat.ltb k (top_rows t))]|];
  rewrite map_length; try rewrite indexed_length; reflexivity. Qed.
Lemma h_anns_length : length (h_anns t) = n_ann.
Proof. unfold h_anns. rewrite map_length, indexed_length. reflexivity. Qed.

Lemma header_shaped k : shaped (header_row t k) (h_ins t k) (h_outs t k) (h_anns t) VOut VAnn.
Proof. split; [reflexivity|]. split; [apply h_ins_length|]. split; [apply h_outs_length|apply h_anns_length]. Qed.

Lemma rule_shaped ir : In (snd ir) (t_rules t) ->
  shaped (rule_row t ir) (map (fun x => Region (7%N, fst ir) x) (r_in (snd ir))) (map (fun x => Region (8%N, fst ir) x) (r_out (snd ir)))
         (map (fun x => Region (9%N, fst ir) x) (r_ann (snd ir))) VOut VAnn.
Proof. intros Hr. destruct wf_parts19 as [_ [_ Hl]]. destruct (Hl _ Hr) as [A [B C]].
  split; [reflexivity|]. rewrite !map_length. tauto. Qed.

Lemma in_indexed {A} (l : list A) x : In x (indexed l) -> In (snd x) l.
Proof. intros Hx. rewrite <- (map_snd_indexed l). apply in_map. exact Hx. Qed.

(* ---- no crossing cells outside the crossing line ---- *)
Definition plain (c : cell) : bool := match c with Main | HCross | VCross => false | _ => true end.

Lemma header_plain k : forallb plain (header_row t k) = true.
Proof. unfold header_row, h_ins, h_outs, h_anns, sep_ann. rewrite forallb_app. cbn [forallb plain]. rewrite forallb_app.
  rewrite forallb_map_true by (intros x; destruct (Nat.ltb k (top_rows t)); reflexivity).
  assert (E : forallb plain (match t_annotations t with [] => [] | _ :: _ => VAnn :: map (fun a => Region (6%N, fst a) (snd a)) (indexed (t_annotations t)) end) = true).
  { destruct (t_annotations t); [reflexivity|]. cbn [forallb plain]. apply forallb_map_true. reflexivity. }
  rewrite E. destruct (multi t); [destruct (label_row t && Nat.eqb k 0); [|destruct (Nat.ltb k (top_rows t))]|];
    rewrite forallb_map_true; try reflexivity. intros x. destruct (Nat.ltb k (top_rows t)); reflexivity. Qed.

Lemma rule_plain ir : forallb plain (rule_row t ir) = true.
Proof. unfold rule_row, sep_ann. rewrite forallb_app. cbn [forallb plain]. rewrite forallb_app.
  rewrite !forallb_map_true by reflexivity. destruct (t_annotations t); [reflexivity|]. cbn [forallb plain]. rewrite forallb_map_true; reflexivity. Qed.

Lemma plain_no f row : (forall c, plain c = true -> f c = false) -> forallb plain row = true -> find_cell f row = None.
Proof. intros Hf Hp. apply find_cell_none. rewrite forallb_forall in *. intros c Hc. rewrite (Hf c (Hp c Hc)). reflexivity. Qed.

Lemma plain_main c : plain c = true -> is_main c = false. Proof. destruct c; cbn; congruence. Qed.
Lemma plain_hcross c : plain c = true -> is_hcross c = false. Proof. destruct c; cbn; congruence. Qed.
Lemma plain_vcross c : plain c = true -> is_vcross c = false. Proof. destruct c; cbn; congruence. Qed.

Lemma headers_length : length (map (header_row t) (seq 0 HH)) = HH.
Proof. rewrite map_length, seq_length. reflexivity. Qed.

Lemma main_position : find_plane is_main (layout_h t) = Some (n_in, HH).
Proof. unfold layout_h. rewrite find_plane_app.
  - cbn [find_plane]. rewrite main_crossing_column. cbn [option_map fst snd]. rewrite headers_length. f_equal. f_equal. lia.
  - intros r Hr. apply in_map_iff in Hr. destruct Hr as [k [<- _]]. apply (plain_no is_main _ plain_main (header_plain k)). Qed.

Lemma hcross_cross_row : find_cell is_hcross (cross_row t) = match t_annotations t with [] => None | _ => Some (n_in + 1 + n_out) end.
Proof. unfold cross_row, sep_ann. rewrite find_cell_app.
  2:{ apply find_cell_none. apply forallb_map_true. reflexivity. }
  cbn [find_cell is_hcross]. rewrite find_cell_app.
  2:{ apply find_cell_none. apply forallb_map_true. reflexivity. }
  rewrite !map_length. destruct (t_annotations t); cbn [find_cell is_hcross option_map]; [reflexivity|]. f_equal. lia. Qed.

Lemma hcross_position : find_plane is_hcross (layout_h t) = match t_annotations t with [] => None | _ => Some (n_in + 1 + n_out, HH) end.
Proof. unfold layout_h. rewrite find_plane_app.
  - cbn [find_plane]. rewrite hcross_cross_row. destruct (t_annotations t) eqn:E.
    + rewrite find_plane_none; [reflexivity|]. intros r Hr. apply in_map_iff in Hr. destruct Hr as [ir [<- _]].
      apply (plain_no is_hcross _ plain_hcross (rule_plain ir)).
    + cbn [option_map fst snd]. rewrite headers_length. f_equal. f_equal. lia.
  - intros r Hr. apply in_map_iff in Hr. destruct Hr as [k [<- _]]. apply (plain_no is_hcross _ plain_hcross (header_plain k)). Qed.

Lemma row_at_header k : k < HH -> row_at (layout_h t) k = header_row t k.
Proof. intros Hk. unfold row_at, layout_h. rewrite app_nth1 by (rewrite headers_length; exact Hk).
  rewrite nth_map_seq by exact Hk. reflexivity. Qed.

Lemma H_pos : 0 < HH. Proof. unfold hdr. lia. Qed.

Lemma width_layout : width (layout_h t) = W.
Proof. unfold layout_h. pose proof H_pos as HP. destruct HH as [|h] eqn:EH; [lia|]. cbn [seq map app width].
  destruct (header_shaped 0) as [-> [A [B C]]]. rewrite app_length. cbn [length]. rewrite app_length. unfold W, sep_ann.
  destruct (t_annotations t); cbn [length] in *; lia. Qed.

Lemma length_layout : length (layout_h t) = S HH + length (t_rules t).
Proof. unfold layout_h. rewrite app_length, headers_length. cbn [length]. rewrite map_length, indexed_length. lia. Qed.

Lemma skipn_app_exact {A} (a b : list A) : skipn (length a) (a ++ b) = b.
Proof. rewrite skipn_app, skipn_all, Nat.sub_diag. reflexivity. Qed.

Lemma body_rows : rows (S HH) (length (layout_h t)) (layout_h t) = map (rule_row t) (indexed (t_rules t)).
Proof. unfold rows. rewrite length_layout. unfold layout_h.
  replace (map (header_row t) (seq 0 HH) ++ cross_row t :: map (rule_row t) (indexed (t_rules t)))
    with ((map (header_row t) (seq 0 HH) ++ [cross_row t]) ++ map (rule_row t) (indexed (t_rules t))) by (rewrite <- app_assoc; reflexivity).
  assert (L : length (map (header_row t) (seq 0 HH) ++ [cross_row t]) = S HH) by (rewrite app_length, headers_length; cbn [length]; lia).
  rewrite <- L at 3. rewrite skipn_app_exact. apply firstn_all2. rewrite map_length, indexed_length. lia. Qed.

Lemma body_block (sel : rule -> list N) (tag : N) (l r : nat) :
  (forall ir, In (snd ir) (t_rules t) -> cols l r (rule_row t ir) = map (fun x => Region (tag, fst ir) x) (sel (snd ir))) ->
  all_texts (map (cols l r) (map (rule_row t) (indexed (t_rules t)))) = Some (map sel (t_rules t)).
Proof. intros Hq. rewrite map_map. rewrite (all_texts_map _ (fun ir => sel (snd ir))).
  - rewrite map_indexed. reflexivity.
  - intros ir Hir. rewrite (Hq ir (in_indexed _ _ Hir)). rewrite (texts_regions (fun _ => (tag, fst ir)) (fun x => x)). rewrite map_id. reflexivity. Qed.
(* ---- the header lines ---- *)
Lemma hdr_cases :
  (label_row t = false /\ t_values t = false /\ hdr t = 1 /\ top_rows t = 1) \/
  (label_row t = false /\ t_values t = true /\ hdr t = 2 /\ top_rows t = 1) \/
  (label_row t = true /\ t_values t = false /\ hdr t = 2 /\ top_rows t = 2) \/
  (label_row t = true /\ t_values t = true /\ hdr t = 3 /\ top_rows t = 2).
Proof. unfold top_rows, hdr. destruct (label_row t), (t_values t); cbn; tauto. Qed.

Lemma h_ins_top k : k < top_rows t -> h_ins t k = map (fun ie => Region (1%N, fst ie) (fst (snd ie))) (indexed (t_inputs t)).
Proof. intros Hk. unfold h_ins. apply map_ext. intros ie. destruct (Nat.ltb_spec k (top_rows t)); [reflexivity|lia]. Qed.
Lemma h_ins_bot k : top_rows t <= k -> h_ins t k = map (fun ie => Region (2%N, fst ie) (snd (snd ie))) (indexed (t_inputs t)).
Proof. intros Hk. unfold h_ins. apply map_ext. intros ie. destruct (Nat.ltb_spec k (top_rows t)); [lia|reflexivity]. Qed.

Lemma irow k : k < HH -> cols 0 n_in (row_at (layout_h t) k) = h_ins t k.
Proof. intros Hk. rewrite (row_at_header k Hk). apply (q_in _ _ _ _ _ _ (header_shaped k)). Qed.
Lemma orow k : k < HH -> cols (S n_in) oright (row_at (layout_h t) k) = h_outs t k.
Proof. intros Hk. rewrite (row_at_header k Hk). apply (q_out _ _ _ _ _ _ (header_shaped k)). Qed.

Lemma inputs_nonempty : exists x l, indexed (t_inputs t) = x :: l.
Proof. destruct wf_parts19 as [Hi _]. pose proof (indexed_length (t_inputs t)) as L.
  destruct (indexed (t_inputs t)) as [|x l]; [cbn in L; lia|]. exists x, l. reflexivity. Qed.

Lemma ivp_eq : input_values_present (layout_h t) n_in HH = Some (t_values t).
Proof. unfold input_values_present. destruct inputs_nonempty as [x [l Ex]].
  destruct hdr_cases as [[Hl [Hv [Hh Ht]]]|[[Hl [Hv [Hh Ht]]]|[[Hl [Hv [Hh Ht]]]|[Hl [Hv [Hh Ht]]]]]]; rewrite Hh, Hv.
  - reflexivity.
  - rewrite !irow by (lia). rewrite (h_ins_top 0), (h_ins_bot 1) by lia.
    rewrite (ids_regions (fun ie => (1%N, fst ie)) (fun ie => fst (snd ie))), (ids_regions (fun ie => (2%N, fst ie)) (fun ie => snd (snd ie))).
    rewrite Ex. reflexivity.
  - rewrite !irow by (lia). rewrite (h_ins_top 0), (h_ins_top 1) by lia.
    rewrite (ids_regions (fun ie => (1%N, fst ie)) (fun ie => fst (snd ie))). rewrite all2_refl. reflexivity.
  - rewrite !irow by (lia). rewrite (h_ins_top 1), (h_ins_bot 2) by lia.
    rewrite (ids_regions (fun ie => (1%N, fst ie)) (fun ie => fst (snd ie))), (ids_regions (fun ie => (2%N, fst ie)) (fun ie => snd (snd ie))).
    rewrite (all2_tags_differ (fun ie : N * (N * N) => fst ie)). reflexivity. Qed.

Lemma top_rows_pos : 0 < top_rows t.
Proof. destruct hdr_cases as [[_ [_ [_ Ht]]]|[[_ [_ [_ Ht]]]|[[_ [_ [_ Ht]]]|[_ [_ [_ Ht]]]]]]; lia. Qed.

Lemma piece_inputs : texts (cols 0 n_in (row_at (layout_h t) 0)) = Some (f_inputs (fields_of t)).
Proof. rewrite irow by apply H_pos. rewrite (h_ins_top 0 top_rows_pos).
  rewrite (texts_regions (fun ie => (1%N, fst ie)) (fun ie : N * (N * N) => fst (snd ie))). rewrite (map_indexed fst). reflexivity. Qed.

Lemma piece_input_values :
  (if t_values t then texts (cols 0 n_in (row_at (layout_h t) (HH - 1))) else Some []) = Some (f_input_values (fields_of t)).
Proof. cbn [fields_of f_input_values].
  destruct hdr_cases as [[Hl [Hv [Hh Ht]]]|[[Hl [Hv [Hh Ht]]]|[[Hl [Hv [Hh Ht]]]|[Hl [Hv [Hh Ht]]]]]]; rewrite Hv; try reflexivity;
  (rewrite irow by (lia); rewrite h_ins_bot by (lia);
   rewrite (texts_regions (fun ie => (2%N, fst ie)) (fun ie : N * (N * N) => snd (snd ie))); rewrite (map_indexed snd); reflexivity). Qed.

Lemma piece_input_entries :
  all_texts (map (cols 0 n_in) (map (rule_row t) (indexed (t_rules t)))) = Some (f_input_entries (fields_of t)).
Proof. apply (body_block r_in 7%N). intros ir Hr. apply (q_in _ _ _ _ _ _ (rule_shaped ir Hr)). Qed.

Lemma piece_output_entries :
  all_texts (map (cols (S n_in) oright) (map (rule_row t) (indexed (t_rules t)))) = Some (f_output_entries (fields_of t)).
Proof. apply (body_block r_out 8%N). intros ir Hr. apply (q_out _ _ _ _ _ _ (rule_shaped ir Hr)). Qed.

Lemma ow_eq : oright - S n_in = n_out.
Proof. unfold oright, W. destruct (t_annotations t); lia. Qed.

Lemma piece_outputs :
  out_clause (t_values t) HH (oright - S n_in) (fun y => cols (S n_in) oright (row_at (layout_h t) y)) =
  Some (f_label (fields_of t), f_components (fields_of t), f_output_values (fields_of t)).
Proof. rewrite ow_eq. cbn [fields_of f_label f_components f_output_values]. unfold out_clause.
  destruct wf_parts19 as [_ [Ho _]]. 
  destruct hdr_cases as [[Hl [Hv [Hh Ht]]]|[[Hl [Hv [Hh Ht]]]|[[Hl [Hv [Hh Ht]]]|[Hl [Hv [Hh Ht]]]]]]; rewrite Hh, Hv;
  rewrite ?orow by (lia); unfold h_outs; rewrite Hl, Ht;
  unfold label_row in Hl; unfold multi in Hl |- *;
  destruct (t_outputs t) as [|o1 [|o2 os]] eqn:Eo; cbn [length] in Ho, Hl |- *; try lia; cbn [Nat.ltb Nat.leb andb Nat.eqb] in Hl |- *.
  all: cbn [andb] in Hl; try discriminate Hl.
  all: rewrite ?(texts_regions (fun _ => (3%N, 0%N)) (fun _ : N * N => lbl_text t)),
               ?(texts_regions (fun on => (4%N, fst on)) (fun on : N * (N * N) => fst (snd on))), ?(map_indexed fst),
               ?(texts_regions (fun on => (5%N, fst on)) (fun on : N * (N * N) => snd (snd on))), ?(map_indexed snd).
  all: unfold lbl_text in *; destruct (t_label t); try discriminate Hl; reflexivity. Qed.

Lemma oright_eq :
  match find_plane is_hcross (layout_h t) with Some (qx, _) => qx | None => width (layout_h t) end = oright.
Proof. rewrite hcross_position, width_layout. unfold oright. destruct (t_annotations t); reflexivity. Qed.

Lemma piece_annotations :
  ann_clause (layout_h t) (find_plane is_hcross (layout_h t)) = Some (f_annotations (fields_of t), f_annotation_entries (fields_of t)).
Proof. rewrite hcross_position. cbn [fields_of f_annotations f_annotation_entries]. unfold ann_clause.
  destruct (t_annotations t) as [|a0 al] eqn:Ea; [reflexivity|].
  assert (Hne : t_annotations t <> []) by (rewrite Ea; discriminate).
  rewrite width_layout, body_rows. rewrite (row_at_header 0 H_pos).
  rewrite (q_ann _ _ _ _ _ _ Hne (header_shaped 0)). unfold h_anns.
  rewrite (texts_regions (fun a => (6%N, fst a)) (fun a : N * N => snd a)), map_snd_indexed.
  rewrite (body_block r_ann 9%N).
  - rewrite Ea. reflexivity.
  - intros ir Hr. apply (q_ann _ _ _ _ _ _ Hne (rule_shaped ir Hr)). Qed.

Theorem roundtrip_h : recognize_horizontal (layout_h t) = Some (fields_of t).
Proof. unfold recognize_horizontal. rewrite main_position, ivp_eq. cbv zeta. rewrite oright_eq, body_rows.
  rewrite piece_inputs, piece_input_values, piece_input_entries, piece_outputs, piece_output_entries, piece_annotations.
  destruct (fields_of t); reflexivity. Qed.
End Roundtrip.

(* ================================================================== pivot is an involution on rectangular planes *)
Lemma transpose_cons w : forall r p, length r = w -> transpose w (r :: p) = zipcons r (transpose w p).
Proof. induction w as [|w IH]; intros r p Hr; destruct r as [|x r]; cbn [length] in Hr; try discriminate; [reflexivity|].
  cbn [transpose heads tails map tl zipcons]. f_equal. apply IH. lia. Qed.

Lemma transpose_length w p : length (transpose w p) = w.
Proof. revert p. induction w as [|w IH]; intros p; cbn [transpose length]; [reflexivity|]. rewrite IH. reflexivity. Qed.

Lemma heads_zipcons r : forall m, length r = length m -> heads (zipcons r m) = r.
Proof. induction r as [|x r IH]; intros [|row m] Hl; cbn [length] in Hl; try discriminate; [reflexivity|].
  cbn [zipcons heads]. rewrite IH by lia. reflexivity. Qed.

Lemma tails_zipcons r : forall m, length r = length m -> tails (zipcons r m) = m.
Proof. induction r as [|x r IH]; intros [|row m] Hl; cbn [length] in Hl; try discriminate; [reflexivity|].
  cbn [zipcons tails map tl]. fold (tails (zipcons r m)). rewrite IH by lia. reflexivity. Qed.

Lemma transpose_involutive w p : (forall r, In r p -> length r = w) -> transpose (length p) (transpose w p) = p.
Proof. induction p as [|r p IH]; intros Hall; [reflexivity|].
  rewrite (transpose_cons w r p (Hall r (or_introl eq_refl))). cbn [length transpose].
  assert (L : length r = length (transpose w p)) by (rewrite transpose_length; apply Hall; left; reflexivity).
  rewrite (heads_zipcons r _ L), (tails_zipcons r _ L), IH; [reflexivity|]. intros r' Hr'. apply Hall. right. exact Hr'. Qed.

Lemma heads_map f p : heads (map (map f) p) = map f (heads p).
Proof. induction p as [|[|c r] p IH]; cbn [map heads]; [reflexivity|exact IH|]. rewrite IH. reflexivity. Qed.

Lemma tails_map f p : tails (map (map f) p) = map (map f) (tails p).
Proof. unfold tails. rewrite !map_map. apply map_ext. intros [|c r]; reflexivity. Qed.

Lemma transpose_map f w : forall p, transpose w (map (map f) p) = map (map f) (transpose w p).
Proof. induction w as [|w IH]; intros p; cbn [transpose map]; [reflexivity|]. rewrite heads_map, tails_map, IH. reflexivity. Qed.

Lemma heads_full p : (forall r, In r p -> r <> []) -> length (heads p) = length p.
Proof. induction p as [|[|c r] p IH]; intros H; cbn [heads length]; [reflexivity| |].
  - exfalso. apply (H [] (or_introl eq_refl)). reflexivity.
  - rewrite IH; [reflexivity|]. intros r' Hr'. apply H. right. exact Hr'. Qed.

Theorem pivot_involutive p : rectangular p = true -> pivot (pivot p) = p.
Proof. unfold rectangular. intros Hr. apply andb_true_iff in Hr. destruct Hr as [Hw Hall]. apply Nat.ltb_lt in Hw.
  rewrite forallb_forall in Hall.
  assert (Hlen : forall r, In r p -> length r = width p) by (intros r Hr; apply Nat.eqb_eq; apply Hall; exact Hr).
  unfold pivot at 2.
  assert (Wd : width (map (map pivot_cell) (transpose (width p) p)) = length p).
  { destruct (width p) as [|w] eqn:E; [lia|]. cbn [transpose map width]. rewrite map_length. apply heads_full.
    intros r Hr He. specialize (Hlen r Hr). rewrite He in Hlen. cbn in Hlen. lia. }
  unfold pivot. rewrite Wd, transpose_map, (transpose_involutive (width p) p Hlen).
  rewrite map_map. rewrite <- (map_id p) at 2. apply map_ext. intros r. rewrite map_map. rewrite <- (map_id r) at 2.
  apply map_ext. apply pivot_cell_involutive. Qed.

(* ================================================================== the whole plane: orientation, marker, rule numbers *)
Lemma after_repeat f c n x r : f c = false -> f x = true -> after f (repeat c n ++ x :: r) = r.
Proof. intros Hc Hx. induction n as [|n IH]; cbn [repeat app after]; [rewrite Hx; reflexivity|]. rewrite Hc. exact IH. Qed.

Lemma in_zipcons a : forall m r, In r (zipcons a m) -> exists c row, r = c :: row /\ In c a /\ In row m.
Proof. induction a as [|x a IH]; intros [|row m] r; cbn [zipcons In]; try tauto.
  intros [<-|Hr]; [exists x, row; cbn [In]; tauto|]. destruct (IH m r Hr) as [c [row' [E [Hc Hm]]]]. exists c, row'. cbn [In]. tauto. Qed.

Lemma rectangular_layout t : wf t = true -> rectangular (layout_h t) = true.
Proof. intros Hwf. unfold rectangular. rewrite (width_layout t). apply andb_true_iff. split.
  - apply Nat.ltb_lt. unfold W. lia.
  - apply forallb_forall. intros r Hr. apply Nat.eqb_eq. unfold layout_h in Hr. apply in_app_or in Hr.
    assert (Hs : forall a b c s1 s2, shaped t r a b c s1 s2 -> length r = W t).
    { intros a b c s1 s2 [-> [A [B C]]]. rewrite app_length. cbn [length]. rewrite app_length. unfold W, sep_ann.
      destruct (t_annotations t); cbn [length] in *; lia. }
    destruct Hr as [Hr|[<-|Hr]].
    + apply in_map_iff in Hr. destruct Hr as [k [<- _]]. apply (Hs _ _ _ _ _ (header_shaped t k)).
    + unfold cross_row, W, sep_ann. rewrite app_length. cbn [length]. rewrite app_length, !map_length.
      destruct (t_annotations t); cbn [length]; rewrite ?map_length; cbn [length]; lia.
    + apply in_map_iff in Hr. destruct Hr as [ir [<- Hir]]. apply (Hs _ _ _ _ _ (rule_shaped t Hwf ir (in_indexed _ _ Hir))). Qed.

Section Whole.
Variable parse_hp : N -> option N.
Variable parse_num : N -> option nat.
Variables (hp_text hp : N) (num_text : nat -> N).
Hypothesis Hhp : parse_hp hp_text = Some hp.
Hypothesis Hnum : forall k, parse_num (num_text k) = Some k.
Variable t : table.
Hypothesis Hwf : wf t = true.
Hypothesis Hrules : t_rules t <> [].

Local Notation first_col := (repeat (marker hp_text) (hdr t) ++ HOut :: numbers_cells num_text t).
Local Notation P := (layout_rows hp_text num_text t).

Lemma first_col_length : length first_col = length (layout_h t).
Proof. rewrite app_length, repeat_length. cbn [length]. unfold numbers_cells. rewrite map_length, seq_length, (length_layout t). lia. Qed.

Lemma heads_P : heads P = first_col.
Proof. apply heads_zipcons. apply first_col_length. Qed.
Lemma tails_P : tails P = layout_h t.
Proof. apply tails_zipcons. apply first_col_length. Qed.

Lemma numbers_seq n : forall s,
  numbers parse_num (S s) (map (fun i => Region (10%N, N.of_nat i) (num_text (S i))) (seq s n)) = Some (Some (s + n)).
Proof. induction n as [|n IH]; intros s; cbn [seq map numbers]; [f_equal; f_equal; lia|].
  rewrite Hnum, Nat.eqb_refl, IH. f_equal. f_equal. lia. Qed.

Lemma rn_P : rn_placement parse_num P = Some (LeftBelow (length (t_rules t))).
Proof. unfold rn_placement. rewrite heads_P, after_repeat by reflexivity. unfold numbers_cells. rewrite (numbers_seq _ 0). cbn [Nat.add].
  destruct (t_rules t) as [|r rs]; [congruence|]. reflexivity. Qed.

Lemma hp_P : hp_placement parse_hp P = Some (TopLeft hp).
Proof. unfold layout_rows, layout_h. pose proof (H_pos t) as HP. destruct (hdr t) as [|h]; [lia|].
  cbn [seq map app repeat zipcons hp_placement cell_hp marker]. rewrite Hhp. reflexivity. Qed.

Lemma no_vcross_P : present is_vcross P = false.
Proof. unfold present. rewrite find_plane_none; [reflexivity|]. intros r Hr.
  destruct (in_zipcons _ _ _ Hr) as [c [row [-> [Hc Hrow]]]]. cbn [find_cell].
  assert (Hcv : is_vcross c = false).
  { apply in_app_or in Hc. destruct Hc as [Hc|[<-|Hc]]; [apply repeat_spec in Hc; subst; reflexivity|reflexivity|].
    unfold numbers_cells in Hc. apply in_map_iff in Hc. destruct Hc as [i [<- _]]. reflexivity. }
  rewrite Hcv. replace (find_cell is_vcross row) with (@None nat); [reflexivity|]. symmetry.
  unfold layout_h in Hrow. apply in_app_or in Hrow. destruct Hrow as [Hh|[<-|Hh]].
  - apply in_map_iff in Hh. destruct Hh as [k [<- _]]. apply (plain_no is_vcross _ plain_vcross (header_plain t k)).
  - apply find_cell_none. unfold cross_row, sep_ann. rewrite forallb_app. cbn [forallb is_vcross negb]. rewrite forallb_app.
    rewrite !forallb_map_true by reflexivity. destruct (t_annotations t); [reflexivity|]. cbn [forallb is_vcross negb]. rewrite forallb_map_true; reflexivity.
  - apply in_map_iff in Hh. destruct Hh as [ir [<- _]]. apply (plain_no is_vcross _ plain_vcross (rule_plain t ir)). Qed.

Theorem orientation_rows : orientation parse_hp parse_num P = Some (AsRow, hp, length (t_rules t)).
Proof. unfold orientation. rewrite hp_P, rn_P, no_vcross_P. destruct (present is_hcross P); reflexivity. Qed.

Theorem roundtrip_rows : recognize_plane parse_hp parse_num P = Some (AsRow, hp, length (t_rules t), fields_of t).
Proof. unfold recognize_plane. rewrite orientation_rows, tails_P, (roundtrip_h t Hwf). reflexivity. Qed.

(* rules as columns: taking the marker line off and pivoting gives back the plane of the table *)
Theorem columns_normalise : pivot (removelast (layout_columns hp_text num_text t)) = layout_h t.
Proof. unfold layout_columns. rewrite removelast_last. apply pivot_involutive. apply rectangular_layout. exact Hwf. Qed.

(* every shape the recogniser reads from a drawn table passes builder.rs validate_size *)
Theorem size_validation_complete :
  validate_size (length (t_inputs t)) (length (t_outputs t)) (length (t_annotations t)) (length (t_rules t)) (fields_of t) = true.
Proof. destruct (wf_parts19 t Hwf) as [Hi [Ho Hl]]. unfold validate_size, fields_of.
  cbn [f_inputs f_input_values f_components f_output_values f_input_entries f_output_entries f_annotation_entries].
  rewrite !map_length. apply Nat.ltb_lt in Hi, Ho. rewrite Hi, Ho, !Nat.eqb_refl. cbn [andb].
  assert (R : Nat.ltb 0 (length (t_rules t)) = true) by (apply Nat.ltb_lt; destruct (t_rules t); [congruence|cbn; lia]).
  rewrite R.
  assert (F : forall (sel : rule -> list N) n, (forall r, In r (t_rules t) -> length (sel r) = n) ->
              forallb (fun r => Nat.eqb (length r) n) (map sel (t_rules t)) = true).
  { intros sel n Hs. apply forallb_forall. intros x Hx. apply in_map_iff in Hx. destruct Hx as [r [<- Hr]]. apply Nat.eqb_eq. apply Hs. exact Hr. }
  rewrite (F r_in _ (fun r Hr => proj1 (Hl r Hr))), (F r_out _ (fun r Hr => proj1 (proj2 (Hl r Hr)))).
  replace ((if t_values t then map snd (t_inputs t) else [])) with (if t_values t then map snd (t_inputs t) else @nil N) by reflexivity.
  assert (V1 : (Nat.eqb (length (if t_values t then map snd (t_inputs t) else [])) 0 || Nat.eqb (length (if t_values t then map snd (t_inputs t) else [])) (length (t_inputs t))) = true)
    by (destruct (t_values t); [rewrite map_length, Nat.eqb_refl; apply orb_true_r|reflexivity]).
  assert (V2 : (Nat.eqb (length (if t_values t then map snd (t_outputs t) else [])) 0 || Nat.eqb (length (if t_values t then map snd (t_outputs t) else [])) (length (t_outputs t))) = true)
    by (destruct (t_values t); [rewrite map_length, Nat.eqb_refl; apply orb_true_r|reflexivity]).
  rewrite V1, V2. cbn [andb].
  assert (C : (if Nat.ltb 1 (length (t_outputs t)) then Nat.eqb (length (if multi t then map fst (t_outputs t) else [])) (length (t_outputs t))
               else Nat.eqb (length (if multi t then map fst (t_outputs t) else [])) 0) = true).
  { unfold multi. destruct (Nat.ltb 1 (length (t_outputs t))); [rewrite map_length; apply Nat.eqb_refl|reflexivity]. }
  rewrite C. cbn [andb].
  destruct (t_annotations t) as [|a l] eqn:Ea; [reflexivity|]. cbn [length Nat.eqb orb]. rewrite map_length, Nat.eqb_refl. cbn [andb].
  apply (F r_ann). intros r Hr. rewrite (proj2 (proj2 (Hl r Hr))). reflexivity. Qed.
End Whole.

(* ---------------- the bounded sweep ---------------- *)
Definition texts_from (base : N) (n : nat) : list N := map (fun k => (base + N.of_nat k)%N) (seq 0 n).

Definition shape_table (n_in n_out n_ann n_rules : nat) (lbl vals : bool) : table :=
  {| t_inputs := combine (texts_from 1000 n_in) (texts_from 2000 n_in);
     t_outputs := combine (texts_from 3000 n_out) (texts_from 4000 n_out);
     t_label := if lbl then Some 5000%N else None;
     t_values := vals;
     t_annotations := texts_from 6000 n_ann;
     t_rules := map (fun r => {| r_in := texts_from (10000 + 100 * N.of_nat r) n_in; r_out := texts_from (20000 + 100 * N.of_nat r) n_out;
                                r_ann := texts_from (30000 + 100 * N.of_nat r) n_ann |}) (seq 0 n_rules) |}.

Definition shapes : list table :=
  flat_map (fun n_in => flat_map (fun n_out => flat_map (fun n_ann => flat_map (fun n_rules => flat_map (fun lbl =>
    map (fun vals => shape_table n_in n_out n_ann n_rules lbl vals) [true; false]) [true; false])
    (seq 1 8)) (seq 0 3)) (seq 1 3)) (seq 1 5).

Fixpoint list_eqb {A} (e : A -> A -> bool) (a b : list A) : bool :=
  match a, b with [] , [] => true | x :: a', y :: b' => e x y && list_eqb e a' b' | _, _ => false end.
Definition oN_eqb (a b : option N) := match a, b with Some x, Some y => N.eqb x y | None, None => true | _, _ => false end.
Definition fields_eqb (a b : fields) : bool :=
  list_eqb N.eqb (f_inputs a) (f_inputs b) && list_eqb N.eqb (f_input_values a) (f_input_values b) &&
  list_eqb (list_eqb N.eqb) (f_input_entries a) (f_input_entries b) && oN_eqb (f_label a) (f_label b) &&
  list_eqb N.eqb (f_components a) (f_components b) && list_eqb N.eqb (f_output_values a) (f_output_values b) &&
  list_eqb (list_eqb N.eqb) (f_output_entries a) (f_output_entries b) && list_eqb N.eqb (f_annotations a) (f_annotations b) &&
  list_eqb (list_eqb N.eqb) (f_annotation_entries a) (f_annotation_entries b).

Definition cell_eqb (a b : cell) : bool :=
  match a, b with
  | Region i x, Region j y => rid_eqb i j && N.eqb x y
  | VOut, VOut | VAnn, VAnn | HOut, HOut | HAnn, HAnn | Main, Main | HCross, HCross | VCross, VCross => true
  | _, _ => false
  end.

(* concrete text conventions for the sweep: 77 is the marker text, 90000 + k the text of rule number k *)
Definition sw_parse_hp (x : N) : option N := if N.eqb x 77 then Some 1%N else None.
Definition sw_parse_num (x : N) : option nat := if N.leb 90000 x then Some (N.to_nat (x - 90000)) else None.
Definition sw_num_text (k : nat) : N := (90000 + N.of_nat k)%N.

Definition whole_ok (t : table) : bool :=
  match recognize_plane sw_parse_hp sw_parse_num (layout_columns 77%N sw_num_text t) with
  | Some (AsColumn, 1%N, n, f) => Nat.eqb n (length (t_rules t)) && fields_eqb f (fields_of t)
  | _ => false
  end &&
  match recognize_plane sw_parse_hp sw_parse_num (layout_rows 77%N sw_num_text t) with
  | Some (AsRow, 1%N, n, f) => Nat.eqb n (length (t_rules t)) && fields_eqb f (fields_of t)
  | _ => false
  end.

Definition roundtrip_ok (t : table) : bool :=
  wf t && rectangular (layout_h t) &&
  match recognize_horizontal (layout_h t) with Some f => fields_eqb f (fields_of t) | None => false end &&
  list_eqb (list_eqb cell_eqb) (pivot (pivot (layout_h t))) (layout_h t) &&
  (* the pivoted plane is what a rules-as-columns drawing shows: the double lines change direction *)
  match find_plane is_main (pivot (layout_h t)) with Some (x, y) => Nat.eqb x (hdr t) && Nat.eqb y (length (t_inputs t)) | None => false end.

Lemma list_eqb_eq {A} (e : A -> A -> bool) : (forall x y, e x y = true -> x = y) -> forall a b, list_eqb e a b = true -> a = b.
Proof. intros He. induction a as [|x a IH]; intros [|y b]; cbn [list_eqb]; try discriminate; [reflexivity|].
  intros H. apply andb_true_iff in H. destruct H as [H1 H2]. rewrite (He _ _ H1), (IH _ H2). reflexivity. Qed.

Lemma N_eqb_eq' x y : N.eqb x y = true -> x = y. Proof. apply N.eqb_eq. Qed.

Lemma fields_eqb_eq a b : fields_eqb a b = true -> a = b.
Proof. unfold fields_eqb. intros H. repeat (apply andb_true_iff in H; destruct H as [H ?]).
  destruct a as [a1 a2 a3 a4 a5 a6 a7 a8 a9], b as [b1 b2 b3 b4 b5 b6 b7 b8 b9]; simpl in *.
  repeat match goal with
  | H : list_eqb N.eqb _ _ = true |- _ => apply (list_eqb_eq N.eqb N_eqb_eq') in H
  | H : list_eqb (list_eqb N.eqb) _ _ = true |- _ => apply (list_eqb_eq _ (list_eqb_eq N.eqb N_eqb_eq')) in H
  end.
  assert (a4 = b4) by (destruct a4, b4; cbn in *; try discriminate; try reflexivity; f_equal; apply N.eqb_eq; assumption).
  subst. reflexivity. Qed.

Lemma cell_eqb_eq a b : cell_eqb a b = true -> a = b.
Proof. destruct a as [[i1 i2] x| | | | | | |], b as [[j1 j2] y| | | | | | |]; cbn [cell_eqb]; try discriminate; try reflexivity.
  unfold rid_eqb. cbn [fst snd]. intros H. apply andb_true_iff in H. destruct H as [H H3]. apply andb_true_iff in H. destruct H as [H1 H2].
  apply N.eqb_eq in H1, H2, H3. subst. reflexivity. Qed.

Lemma sweep : forallb roundtrip_ok shapes = true.
Proof. vm_compute. reflexivity. Qed.

Lemma sweep_whole : forallb whole_ok shapes = true.
Proof. vm_compute. reflexivity. Qed.

Theorem columns_roundtrip_bounded : forall n_in n_out n_ann n_rules lbl vals,
  1 <= n_in <= 5 -> 1 <= n_out <= 3 -> n_ann <= 2 -> 1 <= n_rules <= 8 ->
  let t := shape_table n_in n_out n_ann n_rules lbl vals in
  recognize_plane sw_parse_hp sw_parse_num (layout_columns 77%N sw_num_text t) = Some (AsColumn, 1%N, n_rules, fields_of t).
Proof. intros n_in n_out n_ann n_rules lbl vals Hi Ho Ha Hr t.
  assert (Hin : In t shapes).
  { unfold shapes. apply in_flat_map. exists n_in. split; [apply in_seq; lia|].
    apply in_flat_map. exists n_out. split; [apply in_seq; lia|].
    apply in_flat_map. exists n_ann. split; [apply in_seq; lia|].
    apply in_flat_map. exists n_rules. split; [apply in_seq; lia|].
    apply in_flat_map. exists lbl. split; [destruct lbl; cbn; tauto|].
    apply in_map_iff. exists vals. split; [reflexivity|destruct vals; cbn; tauto]. }
  pose proof sweep_whole as S. rewrite forallb_forall in S. specialize (S t Hin). unfold whole_ok in S.
  apply andb_true_iff in S. destruct S as [S _].
  destruct (recognize_plane sw_parse_hp sw_parse_num (layout_columns 77%N sw_num_text t)) as [[[[o h] n] f]|]; [|discriminate].
  destruct o; [discriminate|]. destruct h as [|[| |]]; try discriminate.
  apply andb_true_iff in S. destruct S as [S1 S2]. apply Nat.eqb_eq in S1. apply fields_eqb_eq in S2. subst f.
  assert (length (t_rules t) = n_rules) by (unfold t, shape_table; cbn [t_rules]; rewrite map_length, seq_length; reflexivity).
  congruence. Qed.

Theorem plane_roundtrip_bounded : forall n_in n_out n_ann n_rules lbl vals,
  1 <= n_in <= 5 -> 1 <= n_out <= 3 -> n_ann <= 2 -> 1 <= n_rules <= 8 ->
  let t := shape_table n_in n_out n_ann n_rules lbl vals in
  recognize_horizontal (layout_h t) = Some (fields_of t) /\ pivot (pivot (layout_h t)) = layout_h t.
Proof. intros n_in n_out n_ann n_rules lbl vals Hi Ho Ha Hr t.
  assert (Hin : In t shapes).
  { unfold shapes. apply in_flat_map. exists n_in. split; [apply in_seq; lia|].
    apply in_flat_map. exists n_out. split; [apply in_seq; lia|].
    apply in_flat_map. exists n_ann. split; [apply in_seq; lia|].
    apply in_flat_map. exists n_rules. split; [apply in_seq; lia|].
    apply in_flat_map. exists lbl. split; [destruct lbl; cbn; tauto|].
    apply in_map_iff. exists vals. split; [reflexivity|destruct vals; cbn; tauto]. }
  pose proof sweep as S. rewrite forallb_forall in S. specialize (S t Hin). unfold roundtrip_ok in S.
  repeat (apply andb_true_iff in S; destruct S as [S ?]).
  split.
  - destruct (recognize_horizontal (layout_h t)) as [f|]; [|discriminate]. f_equal. apply fields_eqb_eq. assumption.
  - apply (list_eqb_eq _ (list_eqb_eq _ cell_eqb_eq)). assumption. Qed.

Example nonvacuous19 :
  let t := shape_table 2 2 1 2 true true in
  f_label (fields_of t) = Some 5000%N /\ f_components (fields_of t) = [3000%N; 3001%N] /\ length (layout_h t) = 6 /\
  recognize_horizontal (layout_h t) = Some (fields_of t).
Proof. vm_compute. repeat split. Qed.
