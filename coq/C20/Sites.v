(* C20 — the inventory of synchronisation-relevant sites of the evaluation path (types and the predicate that
   decides the hypotheses of the locking theorems).  The inventory itself, Gen/SyncSites.v, is regenerated from the
   working tree on every run by translators/syncsites2coq.py.  No proofs in this file. *)
From Coq Require Import List NArith Bool String.
From DV Require Import C20.Conc.
Import ListNotations.

Inductive sitekind :=
| SLock (is_write : bool) (lock : nat)   (* .read() / .write() on an RwLock; lock = index of the receiver *)
| SStatic (interior_mutability : bool)   (* lazy_static entry or plain static; flag: its type mentions Mutex / RwLock / RefCell / Cell / Atomic / Once *)
| SStaticMut
| SThreadLocal
| SUnsafeSendSync
| SCtxUse (cloned : bool)                (* use of the global decimal context: cloned before it is handed to the C library? *)
| SFfiCtx (private_copy : bool)          (* call of a C function that takes a context *)
| SField (shared_mutable : bool)          (* struct field of type Mutex / Atomic* / UnsafeCell / Once* in an evaluation-path crate *)
| SMissingFile.

Record site := { sfile : string; sline : N; skind : sitekind; seval : bool; sfn : string }.

(* what the locking and isolation theorems assume about the code *)
Definition eval_site_ok (s : site) : bool :=
  match skind s with
  | SLock w _ => negb (w && seval s)        (* no write acquisition in the evaluation phase *)
  | SStatic m => negb m                     (* no shared mutable static *)
  | SStaticMut | SThreadLocal | SUnsafeSendSync | SMissingFile => false
  | SCtxUse c => c                          (* every decimal call gets its own context copy *)
  | SFfiCtx p => p
  | SField m => negb m
  end.

(* the lock acquisitions an evaluation may perform, in source order *)
Definition eval_lock_sites (l : list site) : list (bool * lockid) :=
  flat_map (fun s => match skind s with SLock w k => if seval s then [(w, k)] else [] | _ => [] end) l.

Definition count_kind (p : site -> bool) (l : list site) : nat := List.length (filter p l).
Definition is_eval_read (s : site) : bool := match skind s with SLock false _ => seval s | _ => false end.
Definition is_build_write (s : site) : bool := match skind s with SLock true _ => negb (seval s) | _ => false end.
Definition is_ctx_use (s : site) : bool := match skind s with SCtxUse _ => true | _ => false end.
Definition is_static (s : site) : bool := match skind s with SStatic _ => true | _ => false end.

(* one lock operation of a code region, as extracted from the source (Gen/SyncSites.v: invocable_open .. closure_close):
   acquisition / release of a read or write guard on a lock receiver, or the place where the decision logic runs *)
Inductive lockop := LAcq (is_write : bool) (lock : nat) | LRel (is_write : bool) (lock : nat) | LStep.

(* ---------------- search for a stuck schedule of the program a call path describes ---------------- *)
(* one thread running the nested call: acquire along the path, one step, release in reverse order *)
Definition path_thread (path : list (bool * lockid)) : thread unit nat :=
  {| prog := prog_of_sites (fun _ p => S p) path; priv := 0 |}.
(* the two witness shapes of C20_writer_deadlocks: a single thread re-entering a lock it holds for writing (or upgrading),
   and thread 0 stopped after k steps while thread 1 runs into a wait, then thread 0 continuing into the waiting writer *)
Definition pair_sched (n k : nat) : list tid := (repeat 0 k ++ repeat 1 n ++ repeat 0 n ++ repeat 1 n)%list.
Definition find_stuck2 (p0 p1 : list (bool * lockid)) : option (list tid) :=
  let t0 := path_thread p0 in
  let t1 := path_thread p1 in
  let n := (List.length (prog t0) + List.length (prog t1))%nat in
  find (fun sched => stuckb [0; 1] (run sched (init tt [t0; t1]))) (map (pair_sched n) (seq 0 (S n))).
Definition find_stuck (path : list (bool * lockid)) : option (list tid) :=
  let t := path_thread path in
  let n := List.length (prog t) in
  if stuckb [0] (run (repeat 0 n) (init tt [t])) then Some (repeat 0 n) else find_stuck2 path path.
