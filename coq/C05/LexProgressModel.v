(* C05 -- the token stream of C06.Lexer with the end of the fuel as an outcome of its own (C06.Lexer.lex_go answers None both for a lexical
   error and for the end of its fuel).  No proofs here.  (owner: builder-total) *)
From Coq Require Import List NArith Bool Arith.
From DV Require Import C06.Model C06.Lexer.
Import ListNotations.

Inductive lexout := LexOk (ts : list ltoken) | LexFail | LexFuel.

(* lex_go, turn by turn *)
Fixpoint lex_run (fuel : nat) (keys : list str) (fl : flags) (cs : str) : lexout :=
  match fuel with
  | O => LexFuel
  | S f =>
    match next_token keys fl cs with
    | RTok t fl' rest => match lex_run f keys (policy t fl') rest with LexOk ts => LexOk (t :: ts) | o => o end
    | REof => LexOk []
    | RUndef | RErr => LexFail
    end
  end.

Definition lexout_option (o : lexout) : option (list ltoken) := match o with LexOk ts => Some ts | _ => None end.

(* nothing is left for read_input to skip: no white space in front, no comment opening *)
Definition settled (cs : str) : Prop := skip_ws cs = cs /\ comment_start cs = None.

(* the items that end a trace *)
Definition is_end (i : titem) : bool := match i with ITok _ _ _ => false | _ => true end.
