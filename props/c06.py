"""C06 — the parser builds the tree dictated by FEEL precedence and associativity.

Three links (DESIGN.md §6 C06):
 (1) coq/C06/Proofs.v, Fuel.v, Needed.v: Spec theorems for all trees of the operator fragment (round trip of the minimal / full rendering;
     every pair of parentheses of the minimal rendering is needed, by a counting soundness invariant of the parser);
 (2) coq/C06/TablesProofs.v: the LALR tables regenerated from feel-parser/src/lalr.rs on this run give the Spec's tree on every ordered
     pair and triple of operators (finite, vm_compute); when that obligation breaks, the disagreeing token lists are computed by the model
     and replayed on the real parser to obtain a failing input;
 (3) correspondence: generated trees of the whole expression language, rendered minimally / fully parenthesised / with one needed pair
     removed, with token-preserving layouts and literals in every spelling -> dv ast (parse_expression / parse_unary_tests) -> compare trees;
 (4) coq/C06/Actions.v: parse_full = the loop of Parser::parse over the regenerated tables with ALL 90 semantic actions of parser.rs on the node
     stack (a model of the real parser on token lists for the whole language); every generated case (all constructs, all renderings) and a list
     of directed inputs (types, external bodies, date and time literals, the six entry points, rejected inputs) is tokenised and run through it:
     the real parser must build the same tree node by node (or both reject).  coq/C06/ActionsProofs.v: stack safety of every rule, round trip of lists.
"""
import json
import os
import subprocess
import sys

from vlib import core
from vlib.coqterm import App

HEADER = ('From Coq Require Import List NArith Bool.\nFrom DV Require Import C06.Model.\nImport ListNotations.\nOpen Scope N_scope.\n')
HEADER_LR = ('From Coq Require Import List NArith ZArith Bool.\nFrom DV Require Import Gen.LalrTables C06.Model C06.Lr.\nImport ListNotations.\n')

# ------------------------------------------------------------------------------------------------ operator table (mirror of Model.v)
BINOPS = ['Or', 'And', 'Eq', 'Nq', 'Lt', 'Le', 'Gt', 'Ge', 'InOp', 'Sub', 'Add', 'Mul', 'Div', 'Exp']
LV = {'Or': 3, 'And': 4, 'Eq': 5, 'Nq': 5, 'Lt': 5, 'Le': 5, 'Gt': 5, 'Ge': 5, 'InOp': 8, 'Sub': 9, 'Add': 9, 'Mul': 10, 'Div': 10, 'Exp': 11}
ASC = {o: ('N' if LV[o] == 5 else 'R' if o == 'InOp' else 'L') for o in BINOPS}
OPTEXT = {'Or': 'or', 'And': 'and', 'Eq': '=', 'Nq': '!=', 'Lt': '<', 'Le': '<=', 'Gt': '>', 'Ge': '>=', 'InOp': 'in', 'Sub': '-', 'Add': '+',
          'Mul': '*', 'Div': '/', 'Exp': '**'}
ASTOP = {'Or': 'Or', 'And': 'And', 'Eq': 'Eq', 'Nq': 'Nq', 'Lt': 'Lt', 'Le': 'Le', 'Gt': 'Gt', 'Ge': 'Ge', 'InOp': 'In', 'Sub': 'Sub', 'Add': 'Add',
         'Mul': 'Mul', 'Div': 'Div', 'Exp': 'Exp'}
LV_BETWEEN, RC_BETWEEN, LV_NEG, C_NEG, LV_INST, LV_POST, C_POST = 6, 8, 12, 12, 13, 15, 13
KEYWORDS = {'or', 'and', 'in', 'between', 'instance', 'of', 'if', 'then', 'else', 'for', 'return', 'some', 'every', 'satisfies', 'not'}


def lc(o):
    return LV[o] if ASC[o] == 'L' else LV[o] + 1


def rc(o):
    return LV[o] if ASC[o] == 'R' else LV[o] + 1


NAMES = ['a', 'b', 'c', 'x', 'y', 'foo', 'bar_1', 'Zeta', 'äb', 'α', '_k', 'q9']     # bound in the parsing scope (single words)
VARS = ['i', 'j', 'k', 'v1', 'w']                                                                # iteration variables / formal parameters
TYPES = [('number', ['FeelType', 'number']), ('string', ['FeelType', 'string']), ('boolean', ['FeelType', 'boolean']),
         ('date', ['FeelType', 'date']), ('Any', ['FeelType', 'Any'])]

# ------------------------------------------------------------------------------------------------ literals


def spell_char(rng, c):
    """One character of a string literal in a randomly chosen accepted spelling."""
    short = {39: "\\'", 34: '\\"', 92: '\\\\', 10: '\\n', 13: '\\r', 9: '\\t'}
    opts = []
    if c not in (34, 92) and not (10 <= c <= 13):
        opts += ['raw', 'raw', 'raw']
    if c in short:
        opts += ['short', 'short']
    if c < 0x10000:
        opts += ['u4']
    opts += ['U6']
    if c >= 0x10000:
        opts += ['surr', 'surr']
    k = rng.choice(opts)
    up = rng.random() < 0.5
    fmt = (lambda v, n: ('%0*X' if up else '%0*x') % (n, v))
    if k == 'raw':
        return chr(c), k
    if k == 'short':
        return short[c], k
    if k == 'u4':
        return '\\u' + fmt(c, 4), k
    if k == 'U6':
        return '\\U' + fmt(c, 6), k
    d = c - 0x10000
    return '\\u' + fmt(0xD800 + (d >> 10), 4) + '\\u' + fmt(0xDC00 + (d & 0x3FF), 4), k


BOUNDARY_CPS = [0x20, 0x21, 0x22, 0x27, 0x5C, 0x09, 0x0A, 0x0D, 0x7E, 0x7F, 0x80, 0xFF, 0x7FF, 0x800, 0xFFF, 0x1000, 0xD7FF, 0xE000, 0xFFFD, 0xFFFF,
                0x10000, 0x10001, 0x1003F, 0x10040, 0x1007F, 0x10080, 0x100FF, 0x103FF, 0x10400, 0x1F600, 0x1F64F, 0x1FFFF, 0x20000, 0x3FFFF, 0x40000,
                0xEFFFF, 0xFFFFF, 0x100000, 0x10FFFF, 0x61, 0x2F, 0x2A, 0x6E, 0x75, 0x55]


def gen_codepoint(rng):
    r = rng.random()
    if r < 0.45:
        return rng.choice(BOUNDARY_CPS)
    if r < 0.6:
        return rng.randint(0x20, 0x7E)
    if r < 0.7:
        return rng.randint(0x80, 0x7FF)
    if r < 0.8:
        c = rng.randint(0x800, 0xFFFF)
        return c if not (0xD800 <= c <= 0xDFFF) else 0xE000
    return rng.randint(0x10000, 0x10FFFF)


def gen_string(rng):
    n = rng.choice([0, 1, 1, 2, 3, 5])
    cps = [gen_codepoint(rng) for _ in range(n)]
    text, kinds = '"', set()
    for c in cps:
        s, k = spell_char(rng, c)
        text += s
        kinds.add(k)
    text += '"'
    return {'k': 'str', 'text': text, 'ast': ['String', ''.join(chr(c) for c in cps)], 'cps': cps, 'spell': sorted(kinds)}


def gen_number(rng):
    k = rng.random()
    if k < 0.4:
        b = str(rng.choice([0, 1, 2, 7, 10, 42, 100, 123456789]))
        return {'k': 'num', 'text': b, 'ast': ['Numeric', b, '']}
    if k < 0.7:
        b, a = str(rng.choice([0, 1, 12, 999])), rng.choice(['0', '5', '25', '001', '50'])
        return {'k': 'num', 'text': b + '.' + a, 'ast': ['Numeric', b, a]}
    if k < 0.85:
        a = rng.choice(['5', '05', '123'])
        return {'k': 'num', 'text': '.' + a, 'ast': ['Numeric', '0', a]}
    b = rng.choice(['007', '00', '0123456789012345678901234567890123456789'])
    return {'k': 'num', 'text': b, 'ast': ['Numeric', b, '']}


def gen_atom(rng, env):
    k = rng.random()
    if k < 0.45:
        n = rng.choice(env)
        return ('atom', {'k': 'name', 'text': n, 'ast': ['Name', n]})
    if k < 0.75:
        return ('atom', gen_number(rng))
    if k < 0.9:
        return ('atom', gen_string(rng))
    if k < 0.95:
        b = rng.random() < 0.5
        return ('atom', {'k': 'bool', 'text': 'true' if b else 'false', 'ast': ['Boolean', b]})
    if k < 0.98:
        return ('atom', {'k': 'null', 'text': 'null', 'ast': ['Null']})
    s = rng.choice(['2021-02-03', 'P1D', '10:00:00'])
    return ('atom', {'k': 'at', 'text': '@"%s"' % s, 'ast': ['At', s]})


# ------------------------------------------------------------------------------------------------ trees

def gen_tree(rng, depth, env, frag_only=False):
    """A syntax tree of the expression language; env = names usable as atoms at this point."""
    if depth <= 0 or rng.random() < 0.12:
        return gen_atom(rng, env)
    r = rng.random()
    sub = lambda d=1, e=env: gen_tree(rng, depth - d, e, frag_only)
    if r < 0.40:
        return ('bin', rng.choice(BINOPS), sub(), sub())
    if r < 0.47:
        return ('neg', sub())
    if r < 0.55:
        return ('btw', sub(), sub(), sub())
    if r < 0.60:
        return ('inst', sub(), rng.choice(TYPES))
    if r < 0.66:
        return ('path', sub(), rng.choice(NAMES))
    if r < 0.72:
        return ('filt', sub(), sub())
    if r < 0.78 or frag_only:
        return ('call', sub(), [sub()])
    if r < 0.81:
        n = rng.choice([0, 2, 3])
        return ('call', sub(), [sub(2) for _ in range(n)])
    if r < 0.83:
        ps = rng.sample(['p', 'n', 'from', 'grade'], rng.randint(1, 2))
        return ('callnamed', sub(), [(p, sub(2)) for p in ps])
    if r < 0.87:
        return ('if', sub(), sub(), sub())
    if r < 0.90:
        vs = rng.sample(VARS, rng.choice([1, 1, 2]))
        doms, e2 = [], list(env)
        for v in vs:
            if rng.random() < 0.3:
                doms.append((v, gen_tree(rng, depth - 2, e2, frag_only), gen_tree(rng, depth - 2, e2, frag_only)))
            else:
                doms.append((v, gen_tree(rng, depth - 2, e2, frag_only)))
            e2 = e2 + [v]
        return ('for', doms, gen_tree(rng, depth - 1, e2 + ['partial'], frag_only))
    if r < 0.93:
        vs = rng.sample(VARS, rng.choice([1, 1, 2]))
        doms, e2 = [], list(env)
        for v in vs:
            doms.append((v, gen_tree(rng, depth - 2, e2, frag_only)))
            e2 = e2 + [v]
        return (rng.choice(['some', 'every']), doms, gen_tree(rng, depth - 1, e2, frag_only))
    if r < 0.95:
        ps = rng.sample(VARS, rng.choice([0, 1, 2]))
        params = [(p, rng.choice(TYPES) if rng.random() < 0.4 else None) for p in ps]
        return ('fun', params, gen_tree(rng, depth - 1, env + ps, frag_only))
    if r < 0.97:
        return ('list', [sub(2) for _ in range(rng.choice([0, 1, 2, 3]))])
    if r < 0.985:
        ks = rng.sample(['k1', 'k2', 'key', 'a'], rng.choice([0, 1, 2]))
        ents, e2 = [], list(env)
        for k in ks:
            strkey = rng.random() < 0.3
            ents.append((k, strkey, gen_tree(rng, depth - 2, e2, frag_only)))
            e2 = e2 + [k]
        return ('ctx', ents)
    if r < 0.993:
        return ('bin', 'InOp', sub(), gen_test(rng, env))
    return ('inlist', sub(), [gen_test(rng, env) if rng.random() < 0.5 else sub(2) for _ in range(rng.choice([2, 3]))])


def gen_endpoint(rng, env):
    if rng.random() < 0.5:
        n = rng.choice(env)
        return {'text': n, 'ast': ['QualifiedName', ['QualifiedNameSegment', n]], 'k': 'name'}
    if rng.random() < 0.06:
        return {'text': '-1', 'ast': ['Neg', ['Numeric', '1', '']], 'k': 'negnum'}
    a = gen_number(rng) if rng.random() < 0.7 else gen_string(rng)
    return a


def gen_test(rng, env):
    if rng.random() < 0.5:
        return ('ucmp', rng.choice(['Lt', 'Le', 'Gt', 'Ge']), gen_endpoint(rng, env))
    return ('range', rng.choice(['[', '(', ']']), gen_endpoint(rng, env), gen_endpoint(rng, env), rng.choice([']', ')', '[']))


def lvl(t):
    k = t[0]
    if k == 'bin':
        return LV[t[1]]
    if k == 'neg':
        return LV_NEG
    if k == 'btw':
        return LV_BETWEEN
    if k == 'inst':
        return LV_INST
    if k in ('path', 'filt', 'call', 'callnamed'):
        return LV_POST
    if k == 'inlist':
        return LV['InOp']
    if k in ('if', 'for', 'some', 'every', 'fun'):
        return 1          # open to the right with the lowest precedence: parenthesised everywhere but in delimited positions
    return 16


def expected(t):
    k = t[0]
    if k == 'atom':
        return t[1]['ast']
    if k == 'bin':
        return [ASTOP[t[1]], expected(t[2]), expected(t[3])]
    if k == 'neg':
        return ['Neg', expected(t[1])]
    if k == 'btw':
        return ['Between', expected(t[1]), expected(t[2]), expected(t[3])]
    if k == 'inst':
        return ['InstanceOf', expected(t[1]), t[2][1]]
    if k == 'path':
        return ['Path', expected(t[1]), ['Name', t[2]]]
    if k == 'filt':
        return ['Filter', expected(t[1]), expected(t[2])]
    if k == 'call':
        return ['FunctionInvocation', expected(t[1]), ['PositionalParameters'] + [expected(a) for a in t[2]]]
    if k == 'callnamed':
        return ['FunctionInvocation', expected(t[1]), ['NamedParameters'] + [['NamedParameter', ['ParameterName', n], expected(a)] for n, a in t[2]]]
    if k == 'if':
        return ['If', expected(t[1]), expected(t[2]), expected(t[3])]
    if k == 'for':
        ics = []
        for d in t[1]:
            if len(d) == 3:
                ics.append(['IterationContextRange', ['Name', d[0]], expected(d[1]), expected(d[2])])
            else:
                ics.append(['IterationContextSingle', ['Name', d[0]], expected(d[1])])
        return ['For', ['IterationContexts'] + ics, ['EvaluatedExpression', expected(t[2])]]
    if k in ('some', 'every'):
        qs = [['QuantifiedContext', ['Name', v], expected(d)] for v, d in t[1]]
        return ['Some' if k == 'some' else 'Every', ['QuantifiedContexts'] + qs, ['Satisfies', expected(t[2])]]
    if k == 'fun':
        ps = [['FormalParameter', ['ParameterName', p], (ty[1] if ty else ['FeelType', 'Any'])] for p, ty in t[1]]
        return ['FunctionDefinition', ['FormalParameters'] + ps, ['FunctionBody', expected(t[2]), False]]
    if k == 'list':
        return ['List'] + [expected(x) for x in t[1]]
    if k == 'ctx':
        return ['Context'] + [['ContextEntry', ['ContextEntryKey', key], expected(v)] for key, _, v in t[1]]
    if k == 'ucmp':
        return ['Unary' + t[1], t[2]['ast']]
    if k == 'range':
        return ['Range', ['IntervalStart', t[2]['ast'], t[1] == '['], ['IntervalEnd', t[3]['ast'], t[4] == ']']]
    if k == 'inlist':
        return ['In', expected(t[1]), ['ExpressionList'] + [expected(x) for x in t[2]]]
    raise ValueError(k)


KINDS = {'atom', 'bin', 'neg', 'btw', 'inst', 'path', 'filt', 'call', 'callnamed', 'if', 'for', 'some', 'every', 'fun', 'list', 'ctx', 'ucmp', 'range', 'inlist'}


def subtrees(t):
    """All expression subtrees (those that can be parsed on their own with the same global scope: not under binders)."""
    out = [t]
    k = t[0]
    if k in ('bin',):
        out += subtrees(t[2]) + subtrees(t[3])
    elif k in ('neg', 'inst', 'path'):
        out += subtrees(t[1])
    elif k in ('btw', 'if'):
        out += subtrees(t[1]) + subtrees(t[2]) + subtrees(t[3])
    elif k == 'filt':
        out += subtrees(t[1]) + subtrees(t[2])
    elif k == 'call':
        out += subtrees(t[1])
        for a in t[2]:
            out += subtrees(a)
    elif k == 'callnamed':
        out += subtrees(t[1])
        for _, a in t[2]:
            out += subtrees(a)
    elif k == 'list':
        for a in t[1]:
            out += subtrees(a)
    elif k == 'inlist':
        out += subtrees(t[1])
    return out


# ------------------------------------------------------------------------------------------------ rendering to tokens
# a token is (text, flag); flag: 'kw' keyword (needs white space after it), 'nolayout' (only white space may follow, no comment),
# 'P<n>' an opening parenthesis inserted by the minimal rendering that is needed (n = running index), 'p' its partner

class Renderer:
    def __init__(self, mode):
        self.mode = mode      # 'min' | 'full'
        self.needed = 0       # number of needed pairs emitted

    def wrap(self, body, needed):
        if needed:
            i = self.needed
            self.needed += 1
            return [('(', 'P%d' % i)] + body + [(')', 'p%d' % i)]
        return [('(', '')] + body + [(')', '')]

    def at(self, m, t, certain=True):
        """t in a position admitting level >= m."""
        body = self.body(t)
        if self.mode == 'full':
            return body if t[0] in ('atom', 'list', 'ctx', 'range', 'ucmp') else self.wrap(body, False)
        if lvl(t) < m:
            lowopen = t[0] in ('if', 'for', 'some', 'every', 'fun')
            # `x in (a, b)` is closed on the right: as a left operand it would not need its parentheses
            return self.wrap(body, certain and not lowopen and t[0] != 'inlist')
        return body

    def lo_bound(self, t):
        """Lower bound of between: a delimited position, but the word `and` at its top nesting level would end it (lexical rule):
        a conjunction or a between there is put in parentheses."""
        if self.mode == 'full':
            return self.at(0, t)
        body_probe = Renderer('min').body(t) if lvl(t) >= 0 else []
        depth, clash = 0, False
        for tx, _ in body_probe:
            if tx in '([{':
                depth += 1
            elif tx in ')]}':
                depth -= 1
            elif tx == 'and' and depth == 0:
                clash = True
        if clash:
            return self.wrap(self.body(t), False)
        return self.at(0, t)

    def body(self, t):
        k = t[0]
        if k == 'atom':
            a = t[1]
            return [(a['text'], 'atom')]
        if k == 'bin':
            o = t[1]
            return self.at(lc(o), t[2]) + [(OPTEXT[o], 'kw' if OPTEXT[o] in KEYWORDS else '')] + self.at(rc(o), t[3])
        if k == 'neg':
            return [('-', '')] + self.at(C_NEG, t[1])
        if k == 'btw':
            return self.at(LV_BETWEEN, t[1]) + [('between', 'kw')] + self.lo_bound(t[2]) + [('and', 'kwband')] + self.at(RC_BETWEEN, t[3])
        if k == 'inst':
            return self.at(C_POST, t[1]) + [('instance', 'kw'), ('of', 'kw'), (t[2][0], 'atom')]
        if k == 'path':
            x = t[1]
            # lexical rule: `instance of T . n` would read `T . n` as a qualified type name
            inner = self.wrap(self.body(x), False) if (x[0] == 'inst' and self.mode == 'min') else self.at(C_POST, x)
            return inner + [('.', ''), (t[2], 'atom')]
        if k == 'filt':
            return self.at(C_POST, t[1]) + [('[', '')] + self.at(0, t[2]) + [(']', '')]
        if k == 'call':
            out = self.at(C_POST, t[1]) + [('(', '')]
            for i, a in enumerate(t[2]):
                if i:
                    out.append((',', ''))
                out += self.at(0, a)
            return out + [(')', '')]
        if k == 'callnamed':
            out = self.at(C_POST, t[1]) + [('(', '')]
            for i, (n, a) in enumerate(t[2]):
                if i:
                    out.append((',', ''))
                out += [(n, 'bind'), (':', '')] + self.at(0, a)
            return out + [(')', '')]
        if k == 'if':
            return [('if', 'kw')] + self.at(0, t[1]) + [('then', 'kw')] + self.at(0, t[2]) + [('else', 'kw')] + self.at(3, t[3])
        if k == 'for':
            out = [('for', 'kw')]
            for i, d in enumerate(t[1]):
                if i:
                    out.append((',', ''))
                out += [(d[0], 'bind'), ('in', 'kw')] + self.at(0, d[1])
                if len(d) == 3:
                    out += [('..', '')] + self.at(0, d[2])
            return out + [('return', 'kw')] + self.at(2, t[2])
        if k in ('some', 'every'):
            out = [(k, 'kw')]
            for i, (v, d) in enumerate(t[1]):
                if i:
                    out.append((',', ''))
                out += [(v, 'bind'), ('in', 'kw')] + self.at(0, d)
            return out + [('satisfies', 'kw')] + self.at(2, t[2])
        if k == 'fun':
            out = [('function', 'nolayout'), ('(', '')]
            for i, (p, ty) in enumerate(t[1]):
                if i:
                    out.append((',', ''))
                out.append((p, 'bind'))
                if ty:
                    out += [(':', ''), (ty[0], 'atom')]
            return out + [(')', '')] + self.at(2, t[2])
        if k == 'list':
            out = [('[', '')]
            for i, a in enumerate(t[1]):
                if i:
                    out.append((',', ''))
                out += self.at(0, a)
            return out + [(']', '')]
        if k == 'ctx':
            out = [('{', '')]
            for i, (key, strkey, v) in enumerate(t[1]):
                if i:
                    out.append((',', ''))
                out += [('"%s"' % key if strkey else key, 'atom' if strkey else 'bind'), (':', '')] + self.at(0, v)
            return out + [('}', '')]
        if k == 'ucmp':
            return [(OPTEXT[t[1]], ''), (t[2]['text'], 'atom')]
        if k == 'range':
            return [(t[1], ''), (t[2]['text'], 'atom'), ('..', ''), (t[3]['text'], 'atom'), (t[4], '')]
        if k == 'inlist':
            out = self.at(lc('InOp'), t[1]) + [('in', 'kw'), ('(', '')]
            for i, a in enumerate(t[2]):
                if i:
                    out.append((',', ''))
                out += self.at(0, a)
            return out + [(')', '')]
        raise ValueError(k)


def render(t, mode):
    r = Renderer(mode)
    toks = r.body(t) if mode == 'full' else r.at(0, t)      # the fully parenthesised rendering leaves the outermost level bare
    return toks, r.needed


def drop_pair(toks, i):
    return [x for x in toks if x[1] not in ('P%d' % i, 'p%d' % i)]


# ------------------------------------------------------------------------------------------------ layouts
WS = [' ', ' ', ' ', '  ', '\t', '\n', '\r\n', ' \n ', ' ', ' ', '\u000b', '　']
COMMENT_WORDS = ['c', 'note', 'a + b and (c', '"quoted"', 'x * y', 'żółć ν 日本', '1..2]', "it's", 'if then else', '']
BLOCK_BITS = ['*', '**', '***', '/', '//', '/*', '* /', '/ *', '*\n', '\n', '\r\n', ' ', '\t', '"', '/**', '*/*'.replace('*/', '* /'), '\\', '@', '-']
LINE_BITS = ['/*', '*/', '//', '/', '*', '**/', '/**/', '"', ' ', '\t', '\r', '\\', '(', '-']


def gen_block_comment(rng):
    """/* ... */ with an adversarial body: runs of stars of length 0..6 right after the opening and right before the closing,
    slashes, look-alikes of the terminator, openers of both comment kinds, line breaks, non-ASCII text; the body never contains `*/`."""
    for _ in range(20):
        k = rng.random()
        if k < 0.25:
            inner = '*' * rng.randint(0, 6)
        else:
            inner = '*' * rng.choice([0, 0, 1, 2, 3, 4, 5, 6])
            for _ in range(rng.choice([0, 1, 1, 2, 3])):
                inner += rng.choice([rng.choice(COMMENT_WORDS), rng.choice(BLOCK_BITS), ' '])
            inner += '*' * rng.choice([0, 0, 1, 2, 3, 4, 5, 6])
        if '*/' not in inner:
            return '/*' + inner + '*/'
    return '/**/'


def gen_line_comment(rng, at_end):
    body = ''
    for _ in range(rng.choice([0, 1, 1, 2, 3])):
        body += rng.choice([rng.choice(COMMENT_WORDS), rng.choice(LINE_BITS), ' '])
    body = body.replace('\n', ' ')
    if at_end:
        return '//' + body + rng.choice(['', '\n', '\r\n', '\r', '\n\n'])
    return '//' + body + rng.choice(['\n', '\n', '\r\n'])


def gen_comment(rng, at_end=False):
    return gen_block_comment(rng) if rng.random() < 0.6 else gen_line_comment(rng, at_end)


def wordy_end(s):
    c = s[-1]
    return c.isalnum() or c == '_' or ord(c) > 127 or c == '?'


def wordy_start(s):
    c = s[0]
    return c.isalnum() or c == '_' or ord(c) > 127 or c == '?' or c == '.'


def gap(rng, style, must_ws, ws_only, at_end=False):
    """Layout between two tokens. must_ws: has to begin with white space; ws_only: no comments; at_end: nothing follows (a line comment may end
    without a line break)."""
    if style == 'tight':
        return ' ' if must_ws else ''
    if style == 'plain':
        return ' '
    r = rng.random()
    if style == 'ws' or ws_only:
        n = rng.choice([0, 1, 1, 2, 3])
        s = ''.join(rng.choice(WS) for _ in range(n))
        return s if (s or not must_ws) else ' '
    # comments: one, or several in a row
    n = rng.choice([1, 1, 2, 3]) if style == 'comments2' else 1
    if r < 0.35 and style != 'comments2':
        s = ''.join(rng.choice(WS) for _ in range(rng.choice([0, 1, 2])))
        return s if (s or not must_ws) else ' '
    parts = []
    for i in range(n):
        parts.append(rng.choice(WS) if (must_ws or rng.random() < 0.5 or (parts and rng.random() < 0.5)) else '')
        last = at_end and i == n - 1
        parts.append(gen_comment(rng, last and rng.random() < 0.7))
    if not (at_end and parts[-1].startswith('//') and not parts[-1].endswith('\n')):
        parts.append(rng.choice(WS) if rng.random() < 0.5 else '')
    return ''.join(parts)


def layout(toks, rng, style):
    out = []
    for i, (tx, fl) in enumerate(toks):
        if i:
            ptx, pfl = toks[i - 1]
            must = (pfl in ('kw', 'kwband', 'nolayout')) or (ptx in ('true', 'false', 'null') and tx == '(') or (wordy_end(ptx) and wordy_start(tx)) or ptx == '/' or (ptx == '..' and tx[0] == '.') \
                or (ptx in ('<', '>', '!', '*', '-', '.') and tx[0] in '=*>.') or fl in ('kw', 'kwband') and wordy_end(ptx)
            out.append(gap(rng, style, must, pfl in ('nolayout', 'bind')))
        out.append(tx)
    lead = gap(rng, style, False, False) if style not in ('tight', 'plain') else ''
    trail = gap(rng, style, False, False, at_end=True) if style not in ('tight', 'plain') else ''
    return lead + ''.join(out) + trail


# ------------------------------------------------------------------------------------------------ operator fragment <-> Coq

def in_fragment(t):
    k = t[0]
    if k == 'atom':
        return t[1]['k'] in ('name', 'num')
    if k == 'bin':
        return in_fragment(t[2]) and in_fragment(t[3])
    if k == 'neg':
        return in_fragment(t[1])
    if k == 'btw':
        return all(in_fragment(x) for x in t[1:4])
    if k == 'inst':
        return in_fragment(t[1])
    if k == 'path':
        return in_fragment(t[1])
    if k == 'filt':
        return in_fragment(t[1]) and in_fragment(t[2])
    if k == 'call':
        return len(t[2]) == 1 and in_fragment(t[1]) and in_fragment(t[2][0])
    return False


class Ids:
    """Atoms, type names and member names of one tree <-> numbers of the Coq tree."""

    def __init__(self):
        self.atoms, self.types, self.names = [], [], []

    def atom(self, a):
        self.atoms.append(a)
        return 2 * len(self.atoms) + (1 if a['k'] == 'name' else 0)

    def coq(self, t):
        k = t[0]
        if k == 'atom':
            return '(Atom %d)' % self.atom(t[1])
        if k == 'bin':
            return '(Bin %s %s %s)' % (t[1], self.coq(t[2]), self.coq(t[3]))
        if k == 'neg':
            return '(Neg %s)' % self.coq(t[1])
        if k == 'btw':
            return '(Btw %s %s %s)' % tuple(self.coq(x) for x in t[1:4])
        if k == 'inst':
            self.types.append(t[2])
            i = len(self.types) - 1
            return '(Inst %s %d)' % (self.coq(t[1]), i)
        if k == 'path':
            self.names.append(t[2])
            i = len(self.names) - 1
            return '(Path %s %d)' % (self.coq(t[1]), i)
        if k == 'filt':
            return '(Filt %s %s)' % (self.coq(t[1]), self.coq(t[2]))
        if k == 'call':
            return '(Call %s %s)' % (self.coq(t[1]), self.coq(t[2][0]))
        raise ValueError(k)

    def token_text(self, tok):
        """Coq token (parsed term) -> list of (text, flag)."""
        n = tok.name
        if n == 'TAtom':
            return [(self.atoms[tok.args[0] // 2 - 1]['text'], 'atom')]
        if n == 'TOp':
            o = tok.args[0].name
            return [(OPTEXT[o], 'kw' if OPTEXT[o] in KEYWORDS else '')]
        if n == 'TInst':
            return [('instance', 'kw'), ('of', 'kw'), (self.types[tok.args[0]][0], 'atom')]
        if n == 'TDot':
            return [('.', ''), (self.names[tok.args[0]], 'atom')]
        return [({'TLp': '(', 'TRp': ')', 'TLb': '[', 'TRb': ']', 'TBetween': 'between', 'TBand': 'and'}[n], 'kwband' if n == 'TBand' else 'kw' if n == 'TBetween' else '')]

    def tree_ast(self, c):
        """Coq tree (parsed term) -> expected harness AST."""
        n = c.name
        if n == 'Atom':
            return self.atoms[c.args[0] // 2 - 1]['ast']
        if n == 'Bin':
            return [ASTOP[c.args[0].name], self.tree_ast(c.args[1]), self.tree_ast(c.args[2])]
        if n == 'Neg':
            return ['Neg', self.tree_ast(c.args[0])]
        if n == 'Btw':
            return ['Between'] + [self.tree_ast(x) for x in c.args]
        if n == 'Inst':
            return ['InstanceOf', self.tree_ast(c.args[0]), self.types[c.args[1]][1]]
        if n == 'Path':
            return ['Path', self.tree_ast(c.args[0]), ['Name', self.names[c.args[1]]]]
        if n == 'Filt':
            return ['Filter', self.tree_ast(c.args[0]), self.tree_ast(c.args[1])]
        if n == 'Call':
            return ['FunctionInvocation', self.tree_ast(c.args[0]), ['PositionalParameters', self.tree_ast(c.args[1])]]
        raise ValueError(n)


def opt_tree(ids, c):
    if isinstance(c, App) and c.name == 'Some':
        return ids.tree_ast(c.args[0])
    return None


# ------------------------------------------------------------------------------------------------ token types for the tables model
KW_TOK = {'or': 'Or', 'and': 'And', 'in': 'In', 'between': 'Between', 'instance': 'Instance', 'of': 'Of', 'if': 'If', 'then': 'Then', 'else': 'Else',
          'for': 'For', 'return': 'Return', 'some': 'Some', 'every': 'Every', 'satisfies': 'Satisfies', 'function': 'Function', 'not': 'Not'}
SYM_TOK = {'=': 'Eq', '!=': 'Nq', '<': 'Lt', '<=': 'Le', '>': 'Gt', '>=': 'Ge', '+': 'Plus', '-': 'Minus', '*': 'Mul', '/': 'Div', '**': 'Exp',
           '(': 'LeftParen', ')': 'RightParen', '[': 'LeftBracket', ']': 'RightBracket', '{': 'LeftBrace', '}': 'RightBrace', ',': 'Comma', ':': 'Colon',
           '.': 'Dot', '..': 'Ellipsis'}


def lr_tokens(toks, mode):
    """Renderer tokens -> Coq list of (TokenType, 0) for Lr.accepts; None when a token has no type here."""
    out = ['tok_StartUnaryTests' if mode == 'unary' else 'tok_StartExpression']
    for tx, fl in toks:
        if fl == 'kwband':
            out.append('tok_BetweenAnd')
        elif fl in ('kw', 'nolayout') and tx in KW_TOK:
            out.append('tok_' + KW_TOK[tx])
        elif fl in ('atom', 'bind'):
            if tx.startswith('"'):
                out.append('tok_String')
            elif tx.startswith('@'):
                out += ['tok_At', 'tok_String']
            elif tx[0].isdigit() or tx[0] == '.':
                out.append('tok_Numeric')
            elif tx == '-1':
                out += ['tok_Minus', 'tok_Numeric']
            elif tx in ('true', 'false'):
                out.append('tok_Boolean')
            elif tx == 'null':
                out.append('tok_Null')
            elif tx in ('number', 'string', 'boolean', 'date', 'Any'):
                out.append('tok_BuiltInTypeName')
            else:
                out.append('tok_Name')
        elif tx in SYM_TOK:
            out.append('tok_' + SYM_TOK[tx])
        else:
            return None
    return '[' + '; '.join('(%s, 0%%N)' % t for t in out) + ']'


# ------------------------------------------------------------------------------------------------ known classes

def lo_has_and(t):
    """A between whose lower bound contains the word `and` (a conjunction or another between), at any nesting depth."""
    def has_and(x):
        return any(tx == 'and' for tx, _ in Renderer('min').body(x))
    for s in all_nodes(t):
        if s[0] == 'btw' and has_and(s[2]):
            return True
    return False


def all_nodes(t):
    out = [t]
    for x in t[1:]:
        if isinstance(x, tuple) and x and isinstance(x[0], str) and x[0] in KINDS:
            out += all_nodes(x)
        elif isinstance(x, list):
            for y in x:
                if isinstance(y, tuple):
                    if y and isinstance(y[0], str) and y[0] in KINDS:
                        out += all_nodes(y)
                    else:
                        for z in y:
                            if isinstance(z, tuple) and z and isinstance(z[0], str) and z[0] in KINDS:
                                out += all_nodes(z)
    return out


def has_multi_comment(text):
    """Two comments with only white space between them somewhere in the text (outside string literals: the generator never puts comment
    openers into strings except /* "quoted" */ which is itself a comment)."""
    import re
    return re.search(r'(\*/|//[^\n]*\n)\s*(/\*|//)', text) is not None


def surrogate_spelled(t):
    return any(s[0] == 'atom' and 'surr' in s[1].get('spell', []) for s in all_nodes(t))


# ------------------------------------------------------------------------------------------------ full model: tables + ALL semantic actions
# coq/C06/Actions.v: parse_full = the loop of Parser::parse over the regenerated tables with the 90 reduce actions of parser.rs on the node stack.
# Tokens carry the lexer's TokenValue; texts (names, digit strings, string contents, type names) are interned as numbers.
HEADER_ACT = ('From Coq Require Import List NArith ZArith Bool String.\nFrom DV Require Import Gen.LalrTables C06.Actions C06.ActionsKinds C06.ActionsAutomaton.\n'
              'Import ListNotations.\nOpen Scope Z_scope.\nDefinition k (t : Z) : ftok := (t, VTok t).\n'
              'Definition pt (toks : list ftok) := (parse_trace toks, forallb tok_okb toks).\n')
TYPE_NAMES = ('number', 'string', 'boolean', 'date', 'Any')
KW_TOK_MORE = {'list': 'List', 'range': 'Range', 'context': 'Context', 'external': 'External', '->': 'RightArrow'}
START_TOK = {'expr': 'StartExpression', 'unary': 'StartUnaryTests', 'textual': 'StartTextualExpression', 'textuals': 'StartTextualExpressions',
             'boxed': 'StartBoxedExpression', 'context': 'StartContext'}


class Texts:
    """Texts <-> the numbers that stand for them in the model's tokens and trees."""

    def __init__(self):
        self.ids, self.texts = {}, []

    def id(self, s):
        if s not in self.ids:
            self.ids[s] = len(self.texts)
            self.texts.append(s)
        return self.ids[s]


def atoms_of(t):
    """text -> generated AST of every literal / name / endpoint of a generated tree (the token values the lexer must deliver)."""
    out = {}
    roots = t[2] if t and t[0] == 'unary' else [t]
    for r in roots:
        if not (isinstance(r, tuple) and r and r[0] in KINDS):
            continue
        for n in all_nodes(r):
            if n[0] == 'atom':
                out[n[1]['text']] = n[1]['ast']
            elif n[0] == 'ucmp':
                out[n[2]['text']] = n[2]['ast']
            elif n[0] == 'range':
                out[n[2]['text']] = n[2]['ast']
                out[n[3]['text']] = n[3]['ast']
    return out


def full_tokens(toks, mode, atoms, texts):
    """Renderer tokens -> Coq list of (TokenType, TokenValue) for Actions.parse_full; None when a token value is not known here."""
    out = ['k tok_' + START_TOK[mode]]
    for tx, fl in toks:
        if fl == 'kwband':
            out.append('k tok_BetweenAnd')
        elif fl in ('kw', 'nolayout') and tx in KW_TOK:
            out.append('k tok_' + KW_TOK[tx])
        elif fl in ('kw', 'nolayout') and tx in KW_TOK_MORE:
            out.append('k tok_' + KW_TOK_MORE[tx])
        elif fl == 'dt':
            out.append('(tok_NameDateTime, VNameDateTime %d%%N)' % texts.id(tx))
        elif fl in ('atom', 'bind'):
            if tx.startswith('"'):
                a = atoms.get(tx)
                val = a[1] if (a and a[0] == 'String') else (tx[1:-1] if ('\\' not in tx) else None)
                if val is None:
                    return None
                out.append('(tok_String, VString %d%%N)' % texts.id(val))
            elif tx.startswith('@'):
                a = atoms.get(tx)
                if not a or a[0] != 'At':
                    return None
                out += ['k tok_At', '(tok_String, VString %d%%N)' % texts.id(a[1])]
            elif tx == '-1':
                out += ['k tok_Minus', '(tok_Numeric, VNumeric %d%%N %d%%N)' % (texts.id('1'), texts.id(''))]
            elif tx[0].isdigit() or tx[0] == '.':
                a = atoms.get(tx)
                if not a or a[0] != 'Numeric':
                    return None
                out.append('(tok_Numeric, VNumeric %d%%N %d%%N)' % (texts.id(a[1]), texts.id(a[2])))
            elif tx in ('true', 'false'):
                out.append('(tok_Boolean, VBoolean %s)' % tx)
            elif tx == 'null':
                out.append('k tok_Null')
            elif tx in TYPE_NAMES:
                out.append('(tok_BuiltInTypeName, VBuiltInTypeName %d%%N)' % texts.id(tx))
            else:
                out.append('(tok_Name, VName %d%%N)' % texts.id(tx))
        elif tx in SYM_TOK:
            out.append('k tok_' + SYM_TOK[tx])
        elif tx in KW_TOK_MORE:
            out.append('k tok_' + KW_TOK_MORE[tx])
        else:
            return None
    return '[' + '; '.join(out) + ']'


def model_json(texts, t):
    """Tree printed by the model (constructors of Actions.ast) -> the JSON shape of dv ast."""
    if isinstance(t, bool):
        return t
    if isinstance(t, int):
        return texts.texts[t]
    if t.name == 'AFeelTypeAny':
        return ['FeelType', 'Any']
    out = [t.name[1:].replace('Params', 'Parameters').replace('ParamT', 'ParameterT').replace('ParamN', 'ParameterN')]
    if out[0].endswith('Param'):
        out[0] += 'eter'
    for a in t.args:
        if isinstance(a, list):
            out += [model_json(texts, x) for x in a]
        else:
            out.append(model_json(texts, a))
    return out


def spec_tokens(spec):
    """A directed case written as a list of token texts (or (text, flag) pairs) -> renderer tokens."""
    out = []
    for i, x in enumerate(spec):
        if isinstance(x, tuple):
            out.append(x)
        elif x in KW_TOK or x in KW_TOK_MORE:
            out.append((x, 'nolayout' if x in ('function', 'not') else 'kw'))
        elif x in SYM_TOK:
            out.append((x, ''))
        else:
            out.append((x, 'atom'))
    return out


# directed inputs for the actions the tree generator does not reach (types, external bodies, date and time literals, the other
# entry points); the expected tree is the model's: the real parser must accept and give exactly that tree
DIRECTED = [
    ('expr', ['a', 'instance', 'of', 'list', '<', 'number', '>']),
    ('expr', ['a', 'instance', 'of', 'range', '<', 'date', '>']),
    ('expr', ['a', 'instance', 'of', 'list', '<', 'list', '<', 'string', '>', '>', 'or', 'b']),
    ('expr', ['a', 'instance', 'of', 'context', '<', ('x', 'bind'), ':', 'number', '>']),
    ('expr', ['a', 'instance', 'of', 'context', '<', ('x', 'bind'), ':', 'number', ',', ('y', 'bind'), ':', 'list', '<', 'string', '>', ',', ('z', 'bind'), ':', 'Any', '>']),
    ('expr', ['a', 'instance', 'of', 'function', '<', '>', '->', 'number']),
    ('expr', ['a', 'instance', 'of', 'function', '<', 'number', '>', '->', 'string']),
    ('expr', ['a', 'instance', 'of', 'function', '<', 'number', ',', 'string', ',', 'list', '<', 'date', '>', '>', '->', 'range', '<', 'number', '>']),
    ('expr', ['a', 'instance', 'of', 'b']),
    ('expr', ['a', 'instance', 'of', 'b', '.', 'c']),
    ('expr', ['a', 'instance', 'of', 'b', '.', 'c', '.', 'x']),
    ('expr', ['function', '(', ('i', 'bind'), ',', ('j', 'bind'), ':', 'number', ')', 'external', '{', ('java', 'bind'), ':', '{', ('class', 'bind'), ':', '"c"', '}', '}']),
    ('expr', ['function', '(', ')', 'external', 'a']),
    ('expr', ['function', '(', ('i', 'bind'), ':', 'list', '<', 'number', '>', ',', ('j', 'bind'), ':', 'context', '<', ('x', 'bind'), ':', 'string', '>', ',', ('k', 'bind'), ')', 'a']),
    ('expr', [('date', 'dt'), '(', '"2021-02-03"', ')']),
    ('expr', [('time', 'dt'), '(', ')']),
    ('expr', [('date and time', 'dt'), '(', 'a', ',', 'b', ')']),
    ('expr', [('duration', 'dt'), '(', ('from', 'bind'), ':', 'a', ')', '+', 'b']),
    ('expr', ['a', '.', 'b', '.', 'c', '.', 'x']),
    ('expr', ['a', 'in', '(', ']', 'a', '..', 'b', '[', ',', 'b', ',', '<', 'c', '.', 'x', ')']),
    ('expr', ['[', ']']),
    ('expr', ['{', '}']),
    ('expr', ['[', '[', ']', ',', '{', '}', ',', '[', 'a', ']', ']']),
    ('expr', ['a', '(', ')', '(', 'b', ')', '(', ('p', 'bind'), ':', 'c', ')']),
    ('expr', ['(', 'a', '..', 'b', ')']),
    ('expr', ['[', 'a', '.', 'b', '..', '"z"', ']']),
    ('textual', ['a', '+', 'b']),
    ('textual', ['if', 'a', 'then', 'b', 'else', 'c']),
    ('textuals', ['a']),
    ('textuals', ['a', ',', 'b', '+', '1', ',', '(', 'a', ')']),
    ('boxed', ['[', 'a', ',', 'b', ']']),
    ('boxed', ['{', ('k1', 'bind'), ':', 'a', '}']),
    ('boxed', ['function', '(', ('i', 'bind'), ')', 'i']),
    ('context', ['{', ('k1', 'bind'), ':', 'a', ',', '"k2"', ':', 'k1', '}']),
    ('context', ['{', '}']),
    ('unary', ['-']),
    ('unary', ['not', '(', 'a', ',', '<', 'b', ',', '[', '1', '..', '2', ']', ')']),
    ('unary', ['<', 'a', '.', 'b', '.', 'c']),
    ('unary', ['a', ',', 'b']),
    # rejected by the grammar: both sides must reject
    ('expr', ['a', 'instance', 'of', 'list', '<', '>']),
    ('expr', ['[', 'a', ',', ']']),
    ('expr', ['{', ('k1', 'bind'), ':', '}']),
    ('expr', ['function', '(', ('i', 'bind'), ',', ')', 'i']),
    ('expr', ['for', ('i', 'bind'), 'in', 'a', 'return']),
    ('boxed', ['a', '+', 'b']),
    ('textual', ['[', 'a', ']']),
    ('context', ['[', 'a', ']']),
    ('unary', ['not', '(', ')']),
]
# the tree the grammar dictates for each directed input (None: a syntax error), written down by reading feel.y; items in source order
DIRECTED_EXPECTED = [
    ['InstanceOf', ['Name', 'a'], ['ListType', ['FeelType', 'number']]],
    ['InstanceOf', ['Name', 'a'], ['RangeType', ['FeelType', 'date']]],
    ['Or', ['InstanceOf', ['Name', 'a'], ['ListType', ['ListType', ['FeelType', 'string']]]], ['Name', 'b']],
    ['InstanceOf', ['Name', 'a'], ['ContextType', ['ContextTypeEntry', ['ContextTypeEntryKey', 'x'], ['FeelType', 'number']]]],
    ['InstanceOf', ['Name', 'a'], ['ContextType', ['ContextTypeEntry', ['ContextTypeEntryKey', 'x'], ['FeelType', 'number']], ['ContextTypeEntry', ['ContextTypeEntryKey', 'y'], ['ListType', ['FeelType', 'string']]], ['ContextTypeEntry', ['ContextTypeEntryKey', 'z'], ['FeelType', 'Any']]]],
    ['InstanceOf', ['Name', 'a'], ['FunctionType', ['ParameterTypes'], ['FeelType', 'number']]],
    ['InstanceOf', ['Name', 'a'], ['FunctionType', ['ParameterTypes', ['FeelType', 'number']], ['FeelType', 'string']]],
    ['InstanceOf', ['Name', 'a'], ['FunctionType', ['ParameterTypes', ['FeelType', 'number'], ['FeelType', 'string'], ['ListType', ['FeelType', 'date']]], ['RangeType', ['FeelType', 'number']]]],
    ['InstanceOf', ['Name', 'a'], ['QualifiedName', ['QualifiedNameSegment', 'b']]],
    ['InstanceOf', ['Name', 'a'], ['QualifiedName', ['QualifiedNameSegment', 'b'], ['QualifiedNameSegment', 'c']]],
    ['InstanceOf', ['Name', 'a'], ['QualifiedName', ['QualifiedNameSegment', 'b'], ['QualifiedNameSegment', 'c'], ['QualifiedNameSegment', 'x']]],
    ['FunctionDefinition', ['FormalParameters', ['FormalParameter', ['ParameterName', 'i'], ['FeelType', 'Any']], ['FormalParameter', ['ParameterName', 'j'], ['FeelType', 'number']]], ['FunctionBody', ['Context', ['ContextEntry', ['ContextEntryKey', 'java'], ['Context', ['ContextEntry', ['ContextEntryKey', 'class'], ['String', 'c']]]]], True]],
    ['FunctionDefinition', ['FormalParameters'], ['FunctionBody', ['Name', 'a'], True]],
    ['FunctionDefinition', ['FormalParameters', ['FormalParameter', ['ParameterName', 'i'], ['ListType', ['FeelType', 'number']]], ['FormalParameter', ['ParameterName', 'j'], ['ContextType', ['ContextTypeEntry', ['ContextTypeEntryKey', 'x'], ['FeelType', 'string']]]], ['FormalParameter', ['ParameterName', 'k'], ['FeelType', 'Any']]], ['FunctionBody', ['Name', 'a'], False]],
    ['FunctionInvocation', ['Name', 'date'], ['PositionalParameters', ['String', '2021-02-03']]],
    ['FunctionInvocation', ['Name', 'time'], ['PositionalParameters']],
    ['FunctionInvocation', ['Name', 'date and time'], ['PositionalParameters', ['Name', 'a'], ['Name', 'b']]],
    ['Add', ['FunctionInvocation', ['Name', 'duration'], ['NamedParameters', ['NamedParameter', ['ParameterName', 'from'], ['Name', 'a']]]], ['Name', 'b']],
    ['Path', ['Path', ['Path', ['Name', 'a'], ['Name', 'b']], ['Name', 'c']], ['Name', 'x']],
    ['In', ['Name', 'a'], ['ExpressionList', ['Range', ['IntervalStart', ['QualifiedName', ['QualifiedNameSegment', 'a']], False], ['IntervalEnd', ['QualifiedName', ['QualifiedNameSegment', 'b']], False]], ['Name', 'b'], ['UnaryLt', ['QualifiedName', ['QualifiedNameSegment', 'c'], ['QualifiedNameSegment', 'x']]]]],
    ['List'],
    ['Context'],
    ['List', ['List'], ['Context'], ['List', ['Name', 'a']]],
    ['FunctionInvocation', ['FunctionInvocation', ['FunctionInvocation', ['Name', 'a'], ['PositionalParameters']], ['PositionalParameters', ['Name', 'b']]], ['NamedParameters', ['NamedParameter', ['ParameterName', 'p'], ['Name', 'c']]]],
    ['Range', ['IntervalStart', ['QualifiedName', ['QualifiedNameSegment', 'a']], False], ['IntervalEnd', ['QualifiedName', ['QualifiedNameSegment', 'b']], False]],
    ['Range', ['IntervalStart', ['QualifiedName', ['QualifiedNameSegment', 'a'], ['QualifiedNameSegment', 'b']], True], ['IntervalEnd', ['String', 'z'], True]],
    ['Add', ['Name', 'a'], ['Name', 'b']],
    ['If', ['Name', 'a'], ['Name', 'b'], ['Name', 'c']],
    ['ExpressionList', ['Name', 'a']],
    ['ExpressionList', ['Name', 'a'], ['Add', ['Name', 'b'], ['Numeric', '1', '']], ['Name', 'a']],
    ['List', ['Name', 'a'], ['Name', 'b']],
    ['Context', ['ContextEntry', ['ContextEntryKey', 'k1'], ['Name', 'a']]],
    ['FunctionDefinition', ['FormalParameters', ['FormalParameter', ['ParameterName', 'i'], ['FeelType', 'Any']]], ['FunctionBody', ['Name', 'i'], False]],
    ['Context', ['ContextEntry', ['ContextEntryKey', 'k1'], ['Name', 'a']], ['ContextEntry', ['ContextEntryKey', 'k2'], ['Name', 'k1']]],
    ['Context'],
    ['Irrelevant'],
    ['NegatedList', ['Name', 'a'], ['UnaryLt', ['QualifiedName', ['QualifiedNameSegment', 'b']]], ['Range', ['IntervalStart', ['Numeric', '1', ''], True], ['IntervalEnd', ['Numeric', '2', ''], True]]],
    ['ExpressionList', ['UnaryLt', ['QualifiedName', ['QualifiedNameSegment', 'a'], ['QualifiedNameSegment', 'b'], ['QualifiedNameSegment', 'c']]]],
    ['ExpressionList', ['Name', 'a'], ['Name', 'b']],
    None,
    None,
    None,
    None,
    None,
    None,
    None,
    None,
    None,
]
DIRECTED_ATOMS = {'1': ['Numeric', '1', ''], '2': ['Numeric', '2', '']}


def rule_action_names():
    src = open(os.path.join(core.ROOT, 'coq', 'Gen', 'LalrTables.v')).read()
    import re
    m = re.search(r'Definition rule_actions[^\n]*', src)
    return dict((int(n), a) for n, a in re.findall(r'\((\d+), "(\w+)"%string\)', m.group(0))) if m else {}


def actions_section(ctx, cases, impl):
    """Real parser vs parse_full (tables + every semantic action), node by node, on the generated cases of every kind and on the directed
    inputs.  Returns (coverage dict, indices of cases where the two disagree)."""
    texts = Texts()
    idx, terms = [], []
    limit = ctx.pick(8000, 60000)
    order = sorted(range(len(cases)), key=lambda i: (cases[i].get('frag', False), i % 5))
    for i in order:
        c = cases[i]
        if not c.get('toks') or len(terms) >= limit or classify(c) == 'between-lower-bound-and':
            continue
        term = full_tokens(c['toks'], c['mode'], atoms_of(c['tree']), texts)
        if term:
            idx.append(i)
            terms.append('pt %s' % term)
    directed = []
    for mode, spec in DIRECTED:
        toks = spec_tokens(spec)
        term = full_tokens(toks, mode, DIRECTED_ATOMS, texts)
        directed.append({'text': ' '.join(x[0] for x in toks), 'mode': mode, 'term': term})
        terms.append('pt %s' % term)
    res = ctx.run_model(HEADER_ACT, terms, shard_size=120, tag='act')
    dgot = ctx.run_impl('ast', [{'bind': BIND, 'e': d['text'], 'mode': d['mode']} for d in directed])
    names = rule_action_names()
    seen, internal, disagree, checked, kinds = set(), 0, [], 0, {}

    lexer_shaped = [0]

    def outcome(r):
        fres, trace, okb = r          # ((a, b), c) is printed (a, b, c)
        lexer_shaped[0] += 1 if okb else 0
        for x in trace:
            if x in names:
                seen.add(names[x])
        if fres.name == 'FAccept':
            return model_json(texts, fres.args[0]), None
        return None, (None if fres.name == 'FSyntax' else '%s %s' % (fres.name, fres.args))

    for i, r in zip(idx, res):
        mj, odd = outcome(r)
        c, got = cases[i], impl[i]
        checked += 1
        ctx.corr_checked += 1
        kinds[c['tree'][0]] = kinds.get(c['tree'][0], 0) + 1
        if odd:
            internal += 1
            ctx.corr_broken('actions model: internal failure %s' % odd, {'text': c['text']}, got.get('ast', got.get('err')), odd)
        if got.get('ast') != mj:
            disagree.append((i, mj))
    for d, r, got, want in zip(directed, res[len(idx):], dgot, DIRECTED_EXPECTED):
        mj, odd = outcome(r)
        checked += 1
        ctx.corr_checked += 1
        ctx.evaluations += 1
        if odd:
            internal += 1
        if got.get('ast') != want:
            ctx.violation('input `%s` (entry point %s): the parser gives %s, the grammar dictates %s (tables + semantic actions model: %s)'
                          % (d['text'], d['mode'], json.dumps(got.get('ast', got.get('err', got))), json.dumps(want) if want else 'a syntax error',
                             json.dumps(mj) if mj else (odd or 'a syntax error')),
                          {'text': d['text'], 'mode': d['mode'], 'rend': 'directed', 'expected': want, 'names_in_scope': NAMES}, impl=got)
        elif got.get('ast') != mj or odd or 'panic' in got or 'crash' in got:
            ctx.corr_broken('actions (directed input `%s`, entry point %s)' % (d['text'], d['mode']), {'text': d['text'], 'mode': d['mode']},
                            got.get('ast', got.get('err', got)), mj if not odd else odd)
        elif mj is not None:
            ctx.nontrivial.add(d['text'])
    missing = sorted(set(names.values()) - seen)
    cov = {'actions_model_compared': checked, 'actions_model_by_kind': kinds, 'actions_exercised': '%d of %d' % (len(seen), len(set(names.values()))),
           'actions_not_exercised': missing, 'actions_model_internal_failures': internal, 'actions_model_disagreements': len(disagree),
           'token_lists_meeting_the_hypothesis_of_C06_parse_full_safe': '%d of %d' % (lexer_shaped[0], checked)}
    if lexer_shaped[0] != checked:
        ctx.broken.append('the tokeniser of the check produced %d token list(s) that are not lexer-shaped (tok_okb false): the hypothesis of '
                          'C06_parse_full_safe does not cover them' % (checked - lexer_shaped[0]))
    return cov, disagree


# ------------------------------------------------------------------------------------------------ the run

BIND = [[n, None] for n in NAMES]


def regen():
    rc_ = subprocess.call([sys.executable, os.path.join(core.ROOT, 'translators', 'lalr2coq.py'), '-q'])
    if rc_ != 0:
        raise RuntimeError('translators/lalr2coq.py failed: feel-parser/src/lalr.rs no longer has the expected shape')


def coq_tokens_text(ids, toks):
    out = []
    for tk in toks:
        out += ids.token_text(tk)
    return out


def tables_replay(ctx):
    """The finite theorem on the regenerated tables broke: the model computes the disagreeing operator chains, the real parser decides."""
    res = ctx.run_model(HEADER_LR, ['map (fun ts => (ts, parse_tokens ts)) pair_disagreements',
                                   'map (fun ts => (ts, parse_tokens ts)) (firstn 40 triple_disagreements)'], shard_size=1, tag='tab', timeout=600)
    found = 0
    for group in res:
        for ts, want in group:
            ids = Ids()
            # chain atoms: operands 1,3,5,.. are names, 100.. numerals
            names = {}
            def text_of(tok):
                if tok.name == 'TAtom':
                    a = tok.args[0]
                    if a % 2 == 1:
                        nm = NAMES[(a // 2) % len(NAMES)]
                        names[a] = ['Name', nm]
                        return [(nm, 'atom')]
                    names[a] = ['Numeric', str(a), '']
                    return [(str(a), 'atom')]
                if tok.name == 'TInst':
                    return [('instance', 'kw'), ('of', 'kw'), ('number', 'atom')]
                if tok.name == 'TDot':
                    return [('.', ''), ('y', 'atom')]
                return Ids.token_text(ids, tok)
            toks = []
            for tk in ts:
                toks += text_of(tk)
            text = layout(toks, ctx.rng, 'plain')

            def ast_of(c):
                n = c.name
                if n == 'Atom':
                    return names[c.args[0]]
                if n == 'Inst':
                    return ['InstanceOf', ast_of(c.args[0]), ['FeelType', 'number']]
                if n == 'Path':
                    return ['Path', ast_of(c.args[0]), ['Name', 'y']]
                if n == 'Bin':
                    return [ASTOP[c.args[0].name], ast_of(c.args[1]), ast_of(c.args[2])]
                if n == 'Neg':
                    return ['Neg', ast_of(c.args[0])]
                if n == 'Btw':
                    return ['Between'] + [ast_of(x) for x in c.args]
                if n == 'Filt':
                    return ['Filter', ast_of(c.args[0]), ast_of(c.args[1])]
                return ['FunctionInvocation', ast_of(c.args[0]), ['PositionalParameters', ast_of(c.args[1])]]
            exp = ast_of(want.args[0]) if (isinstance(want, App) and want.name == 'Some') else None
            got = ctx.run_impl('ast', [{'bind': BIND, 'e': text, 'mode': 'expr'}])[0]
            ctx.evaluations += 1
            if got.get('ast') != exp:
                found += 1
                ctx.violation('operator chain `%s`: the parser (current LALR tables) gives %s, FEEL precedence and associativity dictate %s'
                              % (text, json.dumps(got.get('ast', got.get('err'))), json.dumps(exp) if exp else 'a syntax error'),
                              {'text': text, 'mode': 'expr', 'expected': exp, 'kind': 'tables'}, impl=got)
    return found


def gen_cases(ctx):
    rng = ctx.rng
    cases = []
    n_trees = ctx.pick(900, 12000)
    trees = []
    # corpus: witnesses of the confirmed defects first
    num = lambda s: ('atom', {'k': 'num', 'text': s, 'ast': ['Numeric', s, '']})
    nm = lambda s: ('atom', {'k': 'name', 'text': s, 'ast': ['Name', s]})
    corpus_text = [
        ('/* a */ /* b */ 1', num('1'), 'comments2'),
        ('1 // x\n // y\n + 2', ('bin', 'Add', num('1'), num('2')), 'comments2'),
        ('"\\uD83D\\uDE4F"', ('atom', {'k': 'str', 'text': '"\\uD83D\\uDE4F"', 'ast': ['String', '\U0001F64F'], 'spell': ['surr']}), 'plain'),
        ('a between (b and c) and x', ('btw', nm('a'), ('bin', 'And', nm('b'), nm('c')), nm('x')), 'plain'),
        ('a between (b between c and x) and y', ('btw', nm('a'), ('btw', nm('b'), nm('c'), nm('x')), nm('y')), 'plain'),
        ('a between foo(b and c) and x', ('btw', nm('a'), ('call', nm('foo'), [('bin', 'And', nm('b'), nm('c'))]), nm('x')), 'plain'),
    ]
    for text, t, style in corpus_text:
        cases.append({'tree': t, 'text': text, 'mode': 'expr', 'rend': 'corpus', 'style': style, 'expected': expected(t)})
    for i in range(n_trees):
        depth = rng.choice([1, 2, 2, 3, 3, 4, 5])
        frag = rng.random() < 0.45
        trees.append(gen_tree(rng, depth, list(NAMES), frag_only=frag))
    # every ordered pair of binary operators, both nestings, with between/neg/postfix neighbours (depth-2 systematic part)
    A = [nm('a'), nm('b'), nm('c'), num('1'), num('2')]
    for o1 in BINOPS:
        for o2 in BINOPS:
            trees.append(('bin', o1, ('bin', o2, A[0], A[3]), A[1]))
            trees.append(('bin', o1, A[0], ('bin', o2, A[3], A[1])))
        trees.append(('neg', ('bin', o1, A[0], A[1])))
        trees.append(('bin', o1, ('neg', A[0]), ('neg', A[1])))
        trees.append(('btw', ('bin', o1, A[0], A[1]), ('bin', o1, A[2], A[3]), ('bin', o1, A[4], A[0])))
        trees.append(('bin', o1, ('btw', A[0], A[1], A[2]), ('btw', A[3], A[4], A[0])))
        for post in (lambda x: ('inst', x, TYPES[0]), lambda x: ('path', x, 'y'), lambda x: ('filt', x, A[3]), lambda x: ('call', x, [A[4]])):
            trees.append(post(('bin', o1, A[0], A[1])))
            trees.append(('bin', o1, A[0], post(A[1])))
            trees.append(post(('neg', A[0])))
            trees.append(('neg', post(A[0])))
    p3 = ('path', ('path', A[0], 'b'), 'c')
    trees += [('bin', 'Mul', ('bin', 'Add', p3, A[3]), A[4]), ('list', [p3]), ('neg', ('bin', 'Add', ('path', p3, 'x'), A[3])), ('call', A[0], [p3]), ('filt', A[0], p3)]
    # names that are bound only by a binder of the expression itself (context key spelled as a name or as a string literal, iteration and
    # quantified variable, formal parameter), used as the LEFT operand of every operator whose symbol could continue a name and as a path head:
    # the parser must have put the name into the parsing scope before it reads the reference (seeded change C06_d: string keys were not)
    for op in ('Sub', 'Add', 'Mul', 'Div', 'Exp', 'path'):
        use = (lambda n: ('path', nm(n), 'y')) if op == 'path' else (lambda n: ('bin', op, nm(n), A[3]))
        for sk1 in (False, True):
            for sk2 in (False, True):
                trees.append(('ctx', [('k1', sk1, A[3]), ('k2', sk2, use('k1'))]))
            trees.append(('ctx', [('k1', sk1, A[3]), ('k2', False, ('ctx', [('key', sk1, use('k1'))]))]))
            trees.append(('ctx', [('k1', sk1, A[3]), ('k2', not sk1, A[4]), ('key', False, ('bin', 'Add', use('k1'), use('k2')))]))
        trees.append(('for', [('i', ('list', [A[3]]))], use('i')))
        trees.append(('for', [('i', ('list', [A[3]])), ('j', ('list', [use('i')]))], use('j')))
        trees.append(('some', [('v1', ('list', [A[3]]))], ('bin', 'Eq', use('v1'), A[4])))
        trees.append(('every', [('v1', ('list', [A[3]])), ('w', ('list', [use('v1')]))], ('bin', 'Eq', use('w'), A[4])))
        trees.append(('fun', [('k', None), ('w', None)], ('bin', 'Add', use('k'), use('w'))))
    styles = ['tight', 'plain', 'ws', 'comments', 'comments2']
    for t in trees:
        exp = expected(t)
        frag = in_fragment(t)
        for rend in ('min', 'full'):
            toks, needed = render(t, rend)
            st = rng.choice(styles)
            cases.append({'tree': t, 'toks': toks, 'text': layout(toks, rng, st), 'mode': 'expr', 'rend': rend, 'style': st, 'expected': exp, 'frag': frag})
            if rend == 'min':
                if st != 'plain' and rng.random() < 0.5:
                    cases.append({'tree': t, 'toks': toks, 'text': layout(toks, rng, 'plain'), 'mode': 'expr', 'rend': rend, 'style': 'plain', 'expected': exp, 'frag': frag})
                for i in range(needed):
                    st2 = rng.choice(['tight', 'plain', 'ws'])
                    cases.append({'tree': t, 'toks': drop_pair(toks, i), 'text': layout(drop_pair(toks, i), rng, st2), 'mode': 'expr', 'rend': 'drop', 'drop': i, 'style': st2,
                                  'expected': exp, 'frag': frag})
    # unary tests entry point
    for _ in range(ctx.pick(150, 2000)):
        k = rng.random()
        if k < 0.1:
            cases.append({'tree': ('irrelevant',), 'text': layout([('-', '')], rng, rng.choice(styles)), 'mode': 'unary', 'rend': 'min', 'style': 'x',
                          'expected': ['Irrelevant']})
            continue
        items = [gen_test(rng, NAMES) if rng.random() < 0.5 else gen_tree(rng, rng.choice([0, 1, 2]), list(NAMES)) for _ in range(rng.choice([1, 1, 2, 3]))]
        toks = []
        for i, it in enumerate(items):
            if i:
                toks.append((',', ''))
            toks += Renderer('min').at(0, it)
        neg = k < 0.3
        if neg:
            toks = [('not', 'nolayout'), ('(', '')] + toks + [(')', '')]
        st = rng.choice(styles)
        cases.append({'tree': ('unary', neg, items), 'toks': toks, 'text': layout(toks, rng, st), 'mode': 'unary', 'rend': 'min', 'style': st,
                      'expected': ['NegatedList' if neg else 'ExpressionList'] + [expected(x) for x in items]})
    return cases


def has_signed_endpoint(t):
    for n in all_nodes(t):
        if n[0] == 'ucmp' and n[2].get('k') == 'negnum':
            return True
        if n[0] == 'range' and (n[2].get('k') == 'negnum' or n[3].get('k') == 'negnum'):
            return True
    return False


def is_name_text(s):
    c = s[0]
    return (c.isalpha() or c == '_' or ord(c) > 127) and s not in ('true', 'false', 'null') and s not in KEYWORDS


def bracket_path3(toks):
    """A grouping `(` or a list `[` (not the bracket of an invocation or a filter) directly followed by NAME . NAME . NAME."""
    tx = [x[0] for x in toks]
    for i, s in enumerate(tx):
        if s in ('(', '[') and i + 5 < len(tx) + 0:
            prev = toks[i - 1] if i else None
            postfix = prev is not None and (prev[0] in (')', ']', '}') or (prev[1] in ('atom',) ))
            if not postfix and is_name_text(tx[i + 1]) and toks[i + 1][1] == 'atom' and tx[i + 2] == '.' and tx[i + 4] == '.':
                return True
    return False


def classify(c):
    """Key of the listed known finding whose input class the case belongs to, or None."""
    t = c['tree']
    if c.get('toks') and bracket_path3(c['toks']):
        return 'bracket-three-segment-path'
    if any(has_signed_endpoint(x) for x in ((t[2] if t[0] == 'unary' else []) if t[0] in ('irrelevant', 'unary') else [t])):
        return 'range-endpoint-not-expression'
    if t[0] in ('irrelevant', 'unary'):
        nodes = [n for it in (t[2] if t[0] == 'unary' else []) for n in all_nodes(it)]
        if any(n[0] == 'btw' and any(tx == 'and' for tx, _ in Renderer('min').body(n[2])) for n in nodes):
            return 'between-lower-bound-and'
        return None
    if lo_has_and(t):
        return 'between-lower-bound-and'
    return None


def check_case(ctx, c, got):
    """Verdict of one case against the real parser's answer. Returns a failure description or None."""
    exp = c['expected']
    if 'panic' in got or 'crash' in got:
        return 'the parser panicked: %s' % json.dumps(got)[:200]
    ast = got.get('ast')
    if c['rend'] == 'drop':
        if 'model' in c:
            if ast != c['model']:
                return ('with one needed pair of parentheses removed the parser gives %s, precedence and associativity dictate %s'
                        % (json.dumps(ast if ast is not None else got.get('err')), json.dumps(c['model']) if c['model'] else 'a syntax error'))
            return None
        if ast == exp:
            return 'a needed pair of parentheses was removed and the parser still builds the same tree'
        return None
    if ast != exp:
        return 'the parser gives %s for the %s rendering of the tree %s' % (json.dumps(ast if ast is not None else got.get('err')), c['rend'], json.dumps(exp))
    return None


def run(ctx):
    ok = ctx.proof_gate(gen_cb=regen)
    ctx.build_harness()
    if not ok:
        # a proof broke and make stopped: the proof-free model files are still needed by the evaluations below
        ctx.coq_make(['-k', 'C06/Model.vo', 'C06/ModelExt.vo', 'C06/Lr.vo', 'C06/Actions.vo', 'C06/ActionsKinds.vo', 'C06/ActionsAutomaton.vo'])
    if not ok and any('TablesProofs' in b or 'proof-gate' in b for b in ctx.broken):
        try:
            tables_replay(ctx)
        except Exception as e:  # the model itself may not build any more
            ctx.notes.append('tables replay not possible: %r' % (e,))
    if not ok:
        # which rules no longer type on the regenerated grammar / tables (coq/C06/ActionsKinds.v has no proofs: it still builds)
        try:
            gf, af, su, bad = ctx.run_model('From Coq Require Import List ZArith String.\nFrom DV Require Import C06.ActionsKinds.\nImport ListNotations.\n',
                                            ['(grammar_fits, arms_fit, sigs_uniform, bad_rules)'], tag='rules')[0]
            if not (gf and af and su) or bad:
                names = rule_action_names()
                ctx.broken.append('stack typing of the rules (coq/C06/ActionsKinds.v) on the regenerated grammar: feel.y fits YY_R1/YY_R2: %s, reduce arms run the '
                                 'actions feel.y names: %s, rules whose action does not find what the right-hand side leaves: %s'
                                 % (gf, af, ['%d (%s)' % (r, names.get(r, 'no action')) for r in bad]))
        except Exception as e:
            ctx.notes.append('rule typing not evaluated: %r' % (e,))
        # ... and which of the finite checks on the automaton read off the tables fails (coq/C06/ActionsAutomaton.v, no proofs)
        try:
            names_ = ['closed under the moves of the driver with every right-hand side found on every path', 'symbols in front of mid-rule actions found',
                      'states in range', 'final state on top of feel $end', 'nodes consumed from below are there', 'terminals have no stack effect',
                      'rules named through the symbol numbers', 'start / end symbols', 'effects uniform']
            vals_ = ctx.run_model('From Coq Require Import List ZArith String.\nFrom DV Require Import C06.ActionsKinds C06.ActionsAutomaton.\nImport ListNotations.\n',
                                  ['[closed auto; ctx_closed auto; in_range_t auto; final_ok auto; pre_ok auto; terminals_plain; rules_named; ends_ok; sigs_uniform]'], tag='auto')[0]
            bad_ = [n for n, v in zip(names_, vals_) if not v]
            if bad_:
                ctx.broken.append('automaton read off the regenerated tables (coq/C06/ActionsAutomaton.v): failing finite checks: %s' % '; '.join(bad_))
        except Exception as e:
            ctx.notes.append('automaton checks not evaluated: %r' % (e,))
    cases = gen_cases(ctx)
    # model side: for the trees of the operator fragment the Coq renderer and parser give the token lists and the tree after a removal
    frag_idx = {}
    terms, owners = [], []
    budget = ctx.pick(500, 6000)
    for ci, c in enumerate(cases):
        if c.get('frag') and c['rend'] == 'min' and id(c['tree']) not in frag_idx and len(terms) < budget:
            ids = Ids()
            term = ids.coq(c['tree'])
            _, needed = render(c['tree'], 'min')
            frag_idx[id(c['tree'])] = len(terms)
            terms.append('let t := %s in (render_min t, render_full t, parse_tokens (render_min t), parse_tokens (render_full t), '
                         'map (fun k => (drop_paren k (render_min t), parse_tokens (drop_paren k (render_min t)))) (seq 0 (count_occ_lp (render_min t))))' % term)
            owners.append((c['tree'], ids))
    hdr = HEADER + ('Definition count_occ_lp (ts : list token) : nat := length (filter (fun x => match x with TLp => true | _ => false end) ts).\n')
    model = ctx.run_model(hdr, terms, shard_size=40, tag='frag') if terms else []
    model_failures = 0
    extra = []
    for (t, ids), m in zip(owners, model):
        rmin, rfull, pmin, pfull, drops = m
        # the Python renderer (which produces the text for the whole language) and the Coq renderer agree on the fragment
        py_min = [x[0] for x in render(t, 'min')[0]]
        coq_min = [x[0] for x in coq_tokens_text(ids, rmin)]
        py_full = [x[0] for x in render(t, 'full')[0]]
        coq_full = [x[0] for x in coq_tokens_text(ids, rfull)]
        lex = lo_has_and(t) or any(n[0] == 'path' and n[1][0] == 'inst' for n in all_nodes(t))
        if (py_min != coq_min and not lex) or py_full != coq_full:
            model_failures += 1
            ctx.corr_broken('renderer', {'tree': expected(t)}, py_min if py_min != coq_min else py_full, coq_min if py_min != coq_min else coq_full)
        if opt_tree(ids, pmin) != expected(t) or opt_tree(ids, pfull) != expected(t):
            model_failures += 1
            ctx.broken.append('Spec parser does not give back the tree %s' % json.dumps(expected(t))[:300])
        # every parenthesis pair of the Coq minimal rendering removed in turn (call parentheses included): the model says what the tree must be
        for k, (dts, dres) in enumerate(drops):
            toks = coq_tokens_text(ids, dts)
            if lex:
                continue
            extra.append({'tree': t, 'toks': toks, 'text': layout(toks, ctx.rng, ctx.rng.choice(['tight', 'plain', 'ws'])), 'mode': 'expr', 'rend': 'drop', 'drop': k, 'style': 'm',
                          'expected': expected(t), 'model': opt_tree(ids, dres), 'frag': True})
    cases += extra
    # string literals: the model of consume_string decodes the literal body to the same characters (three-way with the parser below)
    lits, seen_l = [], set()
    for c in cases:
        if c['tree'][0] in KINDS:
            for n in all_nodes(c['tree']):
                if n[0] == 'atom' and n[1]['k'] == 'str' and 'cps' in n[1] and n[1]['text'] not in seen_l and len(lits) < ctx.pick(400, 5000):
                    seen_l.add(n[1]['text'])
                    lits.append(n[1])
    dec = ctx.run_model(HEADER, ['unescape [%s]' % '; '.join(str(ord(ch)) for ch in a['text'][1:-1]) for a in lits], shard_size=100, tag='str') if lits else []
    for a, d in zip(lits, dec):
        got = d.args[0] if (isinstance(d, App) and d.name == 'Some') else None
        if got != a['cps']:
            model_failures += 1
            ctx.corr_broken('unescape', {'literal': a['text']}, a['cps'], got)
    # layouts: the model of the layout scanner skips every generated gap entirely (the generator stays inside the modelled comment grammar,
    # for which C06_layout_skipped is proved); the real lexer is exercised with the same generator through the parses below
    gaps = []
    for _ in range(ctx.pick(300, 5000)):
        at_end = ctx.rng.random() < 0.3
        g = gap(ctx.rng, ctx.rng.choice(['comments', 'comments2', 'ws']), False, False, at_end=at_end)
        gaps.append((g, at_end))
    lay = ctx.run_model(HEADER, ['skip_layout 12 [%s]' % '; '.join(str(ord(ch)) for ch in (g + ('' if e else '1'))) for g, e in gaps], shard_size=100, tag='lay')
    for (g, e), r in zip(gaps, lay):
        if r != ([] if e else [49]):
            model_failures += 1
            ctx.corr_broken('layout', {'gap': g}, 'generated as layout', r)
    reqs = [{'bind': BIND, 'e': c['text'], 'mode': c['mode']} for c in cases]
    impl = ctx.run_impl('ast', reqs)
    # the committed tables (driver model, no actions) decide acceptance of the token sequence of every kind of tree: binders, collections,
    # ranges and unary tests included; the real parser must accept exactly then (the between-flag class is lexical and skipped)
    acc_cases, acc_terms = [], []
    order = sorted(range(len(cases)), key=lambda i: (cases[i].get('frag', False), i % 7))
    for i in order:
        c = cases[i]
        if c.get('toks') and len(acc_terms) < ctx.pick(1500, 20000) and classify(c) != 'between-lower-bound-and':
            term = lr_tokens(c['toks'], c['mode'])
            if term:
                acc_cases.append(i)
                acc_terms.append('accepts %s' % term)
    acc = ctx.run_model(HEADER_LR, acc_terms, shard_size=100, tag='acc') if acc_terms else []
    acc_bad = 0
    for i, a in zip(acc_cases, acc):
        got_ok = 'ast' in impl[i]
        if bool(a) != got_ok:
            acc_bad += 1
            ctx.corr_broken('acceptance', {'text': cases[i]['text']}, 'accepted' if got_ok else 'rejected', 'accepted' if a else 'rejected')
    # the full model (tables + all 90 semantic actions, coq/C06/Actions.v) builds, node by node, the tree the real parser builds
    act_cov, act_dis = actions_section(ctx, cases, impl)
    # text -> tokens: the real lexer (dv tokens over the verif_tokens hook) against coq/C06/Lexer.v, props/c06lex.py
    from props import c06lex
    lex_cov = c06lex.lexer_section(ctx, sys.modules[__name__])
    lex_cov.update(c06lex.text_section(ctx, sys.modules[__name__]))
    # the extended Spec (coq/C06/ModelExt.v: binders, collections, ranges, argument lists; C06_roundtrip_*_ext, C06_needed_paren_ext) against
    # the real parser: both renderings and every pair of parentheses removed, props/c06ext.py
    from props import c06ext
    lex_cov.update(c06ext.ext_section(ctx, sys.modules[__name__]))
    # the text level for the binders (coq/C06/LexBind.v: lexer model with the flag policy for for / some / every / function; C06_text_roundtrip_*_all):
    # the token stream and the flag-setting actions of the real parser (its own trace) against the model, and the trees, props/c06bind.py
    from props import c06bind
    lex_cov.update(c06bind.bind_section(ctx, sys.modules[__name__]))
    for i, mj in act_dis:
        cases[i]['actions_model'] = mj if mj is not None else 'rejected'
    hist = {}
    fails = []
    for c, got in zip(cases, impl):
        ctx.evaluations += 1
        ctx.corr_checked += 1
        key = (c['rend'], c['style'], c['tree'][0])
        hist[c['rend']] = hist.get(c['rend'], 0) + 1
        if c['tree'][0] not in ('atom', 'irrelevant'):
            ctx.nontrivial.add(c['text'])
        why = check_case(ctx, c, got)
        if why is None:
            if len(ctx.samples) < 5 and c['style'] in ('comments', 'comments2') and len(c['text']) < 120 and c['tree'][0] != 'atom':
                ctx.sample({'text': c['text'], 'rendering': c['rend'], 'tree': got.get('ast')})
            continue
        cls = classify(c)
        if cls and ctx.known(cls, c):
            continue
        fails.append((c, got, why))
    # real parser != full model: when the real tree also differs from the generated tree the case is among `fails` (a VIOLATION naming the
    # text, below); otherwise the property holds at this case and the correspondence parser <-> model is what broke
    failing = set(id(c) for c, _, _ in fails)
    for i, mj in act_dis:
        if id(cases[i]) not in failing:
            ctx.corr_broken('actions (tables + semantic actions model) on `%s`' % cases[i]['text'], {'text': cases[i]['text'], 'mode': cases[i]['mode']},
                            impl[i].get('ast', impl[i].get('err', impl[i])), mj if mj is not None else 'rejected')
    # shrink: the smallest subtree that still fails in the same rendering, plain layout
    reported = 0
    for c, got, why in sorted(fails, key=lambda f: len(f[0]['text']))[:8]:
        best = (c, got, why)
        if c['mode'] == 'expr' and c['rend'] in ('min', 'full') and c['tree'][0] in KINDS:
            subs = sorted(subtrees(c['tree']), key=lambda s: len(json.dumps(expected(s))))
            sc = []
            for s in subs[:40]:
                toks, _ = render(s, c['rend'])
                for st in ('plain', c['style']):
                    sc.append({'tree': s, 'toks': toks, 'text': layout(toks, ctx.rng, st), 'mode': 'expr', 'rend': c['rend'], 'style': st, 'expected': expected(s)})
            sgot = ctx.run_impl('ast', [{'bind': BIND, 'e': x['text'], 'mode': 'expr'} for x in sc])
            for x, g in zip(sc, sgot):
                w = check_case(ctx, x, g)
                if w and not (classify(x) and ctx.known(classify(x), x)) and len(x['text']) < len(best[0]['text']):
                    best = (x, g, w)
        bc, bg, bw = best
        ctx.violation('input `%s`: %s' % (bc['text'], bw), {'text': bc['text'], 'mode': bc['mode'], 'rend': bc['rend'], 'expected': bc['expected'],
                                                          'model': bc.get('model', 'n/a'), 'actions_model': bc.get('actions_model', 'agrees with the parser' if 'toks' in bc else 'n/a'),
                                                          'names_in_scope': NAMES}, impl=bg)
        reported += 1
    return ctx.finish(
        rule='syntax trees of the whole expression language (depth <= 5, all 14x14 ordered operator pairs in both nestings, between / unary minus / '
             'postfix neighbours, binders, collections, ranges, unary tests) rendered minimally, fully parenthesised and with each needed pair removed, '
             'layouts tight / single space / Unicode white space / comments / several comments in a row, comment bodies adversarial (runs of 0..6 stars after the opening and before the closing, slashes, terminator look-alikes, comment openers, quotes, CR/LF/CRLF/no line end at the end of input, non-ASCII); literals in every spelling; '
             'every case with a token list is also parsed by the full model (tables + all semantic actions) and compared node by node, plus %d directed inputs over the six entry points; '
             'trees of the extended Spec (every open construct in every operand position + random ones) rendered by the Coq renderers, minimal / full / each pair of parentheses removed, parsed by the real parser and by the extended Spec parser; '
             'non-trivial = distinct input texts of non-atomic trees' % len(DIRECTED),
        extra_cov={'renderings': hist, 'model_rendered_fragment_trees': len(owners), 'model_decoded_string_literals': len(lits), 'model_skipped_layouts': len(gaps), 'tables_acceptance_checked': len(acc_cases), 'tables_acceptance_disagreements': acc_bad, 'model_failures': model_failures, **act_cov, **lex_cov,
                   'tables': 'Gen/LalrTables.v regenerated from feel-parser/src/lalr.rs on this run (2312 pairs + 78608 triples re-proved when it changes)'},
        assumptions=['names are single words bound in the parsing scope (multi-word names are C10)',
                     'lexical rules of the text level applied by the renderer: a keyword is followed by white space; `and`/`between` at the top level of a '
                     'between lower bound is parenthesised; `x instance of T` is parenthesised before `.`; `function` is followed by `(` with only white space between',
                     'extended Spec section (props/c06ext.py): token lists that the lexer reads differently from the Spec tokens are skipped and counted (ext_spec_skipped_lexical): '
                     '`and` or another between inside a between lower bound (known finding between-lower-bound-and), `instance of T` directly followed by `.`, `function` no longer '
                     'followed by `(` after the parentheses of its parameter list were removed (it then begins a name)',
                     'binder text section (props/c06bind.py): the flags the real parser sets are read off its own trace (the flag-setting actions between two token reads); '
                     'texts with a pair of parentheses removed in which `function` begins an unbound name are compared on token stream and flags only (bind_skipped_unbound_name); '
                     'the iteration / quantified variable `item` is an ordinary case (bind_item_variable_cases; the former known finding item-iteration-variable is repaired in /repo)'],
        trusted=['translators/lalr2coq.py (reads the const arrays, TokenType and the reduce arms of lalr.rs by stable syntax)',
                 'translators/lalr2coq.py reading of feel-grammar/src/feel.y (rules, mid-rule actions numbered as bison does; cross-checked against YY_R2, the reduce arms and their comments in lalr.rs, and again in coq/C06/ActionsProofs.v against YY_R1/YY_R2)',
                 'harness sub-command dv ptrace (the parser run with its own trace switched on: token values in Debug form and action names, read by props/c06bind.py)',
                 'harness sub-command dv ast (AstNode -> JSON tree)', 'harness sub-command dv tokens over the read-only hook dmntk_feel_parser::verif_tokens (commit 81e6a85, behind --cfg dmntk_verif)', 'Python renderer for the constructs outside the extended Spec (unary tests, `x in (a, b)`, string keys; the constructs of the extended Spec are also rendered by the Coq renderers, props/c06ext.py)',
                 'Python tokeniser of the rendered token lists for the full model (token types from the renderer flags, token values from the generated literals); the lexer itself is exercised only through the real parser',
                 'hand-reviewed expected trees of the directed inputs (props/c06.py DIRECTED_EXPECTED)'])


def replay(ctx, path):
    obj = json.load(open(path))
    c = obj.get('case')
    if not c:
        print(json.dumps(obj, indent=1)[:3000])
        return 1
    if c.get('kind') == 'lexer':
        from props import c06lex
        return c06lex.replay_lexer(ctx, c)
    ctx.build_harness()
    got = ctx.run_impl('ast', [{'bind': BIND, 'e': c['text'], 'mode': c.get('mode', 'expr')}])[0]
    print('input    :', json.dumps(c['text']))
    print('parser   :', json.dumps(got.get('ast', got)))
    print('expected :', json.dumps(c.get('expected')), '(rendering: %s)' % c.get('rend', c.get('kind')))
    ast = got.get('ast')
    if c.get('rend') == 'drop':
        fail = (ast != c['model']) if c.get('model', 'n/a') != 'n/a' else (ast == c['expected'])
    else:
        fail = ast != c.get('expected')
    print('REPRODUCED' if fail else 'not reproduced')
    return 1 if fail else 0


MANIFEST = dict(
    technique='Coq proof (round trip of a precedence-climbing Spec parser for all trees; finite theorem on the LALR tables regenerated from lalr.rs every run) with parser/model correspondence',
    text='coq/Props/C06.v: the committed LALR tables, translated from feel-parser/src/lalr.rs on every run, are proved (vm_compute, bound stated) to build on every ordered pair and triple of operators the tree the Spec parser dictates; the Spec theorems hold for all trees of the operator fragment (no bound): both renderings round-trip (C06_roundtrip_*_tokens), and every pair of parentheses of the minimal rendering is needed (C06_needed_paren / C06_needed_paren_at / C06_all_needed, from the counting soundness invariant C06_min_rendering_minimal: any token list that parses to t has at least the parentheses of render_min t); string-literal decoding has its own model. EXTENDED language (coq/C06/ModelExt.v: operator fragment + if, for .. in .. [, ..] return, some / every .. satisfies, function (params) body, lists, contexts, ranges with atom endpoints in all nine bracket combinations, invocations with positional and named argument lists; a precedence-climbing Spec parser compared with the real parser on every run by props/c06ext.py: the Coq renderings, minimal / full / each pair of parentheses removed, of every open construct in every operand position and of random trees): C06_roundtrip_min_ext / C06_roundtrip_full_ext hold for ALL trees (no bound on depth or list length), erender_min parenthesises an open construct (if / for / some / every / function) exactly where a continuing token follows (left of an operator, not right: C06_open_left_needed_ext, C06_open_right_bare_ext) and any other operand exactly where its level is below the level of its position; C06_needed_paren_ext / _split_ext / _at_ext: every pair of the minimal rendering is needed (counting invariant C06_min_rendering_minimal_ext, with the flag `a continuing token follows` in the invariant); C06_fuel_suffices_ext; C06_ext_conservative (on the operator fragment the extended renderers and parser agree with the old ones); text level C06_text_roundtrip_*_ext / C06_parse_text_unlex_ext / C06_text_needed_paren_ext for the token lists without for / some / every / function, C06_text_roundtrip_ext_partial for every tree without such a node (binder_free) (these keywords are outside C06_lex_unlex). TEXT LEVEL FOR ALL TREES, binders and function definitions included (coq/C06/LexBind.v: lex_b = next_token iterated with the flag policy of the binders, a pushdown over the delivered tokens -- open brackets, open for / some / every headers, the parameter list of a function definition, ranges with reversed or mixed brackets recognised as opener atom .. atom closer -- by which a comma sets till_in inside a header and a colon sets type_name inside a parameter list; coq/C06/ExtLexAll.v: parse_text_all reads `name in` where a binding is expected as a binding): C06_lex_b_unlex[_layout] (every token list printable in the extended sense is read back from its text; layouts: white space only behind `function` and behind the variable of a binding), C06_track_renderings (for every tree and both renderings the pushdown expects a binding exactly at the bindings and a type exactly behind the colon of a typed parameter), C06_text_roundtrip_min_all / _full_all / _min_layout_all / _full_layout_all (the text of both renderings of EVERY tree of the extended language parses back to the tree; side conditions: scope keys single words that are no keywords, atoms written as literals or scope keys, names in range, outside between-lower-bound-and; nothing about the variable of a binding: `item` included since the repair of consume_name), C06_text_needed_paren_all, C06_text_item_variable_orig_refuted (`for item in b return c in d`: with consume_name as it was, name_token_orig, the text had no tree -- the former known finding item-iteration-variable; the repaired lexer reads the tree back). That the policy of lex_b is the one the real parser applies is checked on every run by props/c06bind.py: for the Coq-printed texts of trees with binders (minimal, full, each pair of parentheses removed, generated layouts) the token stream the real lexer delivers when driven by the real parser and the flag-setting actions the parser runs between two token reads (both read off the trace the parser itself prints) equal the stream of the model and the flags its policy sets, and parse_text_all = the tree of the real parser. Text level (coq/C06/Lexer.v = model of Lexer::next_token iterated with its four flags; C06_lex_unlex[_layout]: it reads back every printable token list from the printed text, one space or any layout of the modelled grammar between tokens; C06_text_roundtrip_min/full[_layout]: parse_text = lexer model + Spec parser gives the tree back from the TEXT of both renderings, for all trees outside the known finding between-lower-bound-and, C06_text_between_lower_and_refuted for that class); the token stream of the real lexer (hook verif_tokens, dv tokens) is compared with the model token by token (kind, value, position, flags) on printable lists in every layout, every token kind x every white space character / comment, and adversarial glued texts with explicit flag settings. The real lexer, driver and actions are tied to the Spec by parsing generated trees of the whole language in minimal / full / one-pair-removed renderings under token-preserving layouts and comparing AstNode trees. coq/C06/Actions.v models the whole parser on token lists (the loop of Parser::parse over the regenerated tables with all 90 reduce actions of parser.rs, selected by the action names read from lalr.rs): every generated case of every construct and directed inputs for types, external bodies, date and time literals and the six entry points are run through it and compared node by node with the real parser. C06_actions_stack_safe: for every rule of feel.y (read with the tables on every run) the action of the rule, on every concrete node stack whose top has the kinds the right-hand side symbols are declared to leave, returns Ok and leaves what the left-hand side declares (no pop error, no index panic, no dropped node; abstract actions on node kinds proved sound for all stacks + sweep over the 150 rules); C06_parse_full_safe lifts this to whole parses: on every list of lexer-shaped tokens (token value = the one of the terminal; the check evaluates this test on every token list it feeds to the model) the parser model never raises a pop error, never indexes out of bounds, never accepts with other than one node -- by an invariant over the LR automaton read off the regenerated tables (transitions closed under the moves of the driver; the right-hand side of every reducible rule found on every path: the LR invariant as a finite check). C06_list_roundtrip / C06_nested_lists_roundtrip: lists of every length and nesting round-trip through parse_full (induction through the list_tail actions over the regenerated tables).',
    note='Trusted: Coq kernel + vm_compute, lalr2coq.py, the Spec reading of feel.y lines 73-90, harness dv ast, Python renderer for unary tests / `x in (a, b)` / string keys (outside the extended Spec; binders, collections, ranges and argument lists are rendered by the Coq renderers of the extended Spec as well), the reading of feel.y by lalr2coq.py (checked against YY_R1/YY_R2 and the reduce arms in Coq), the declared stack effects of the grammar symbols (checked by the sweep), the Python tokeniser feeding the full model. The grammar names of the terminals are the TokenType names in upper snake case (a wrong name fails the finite automaton check).')
