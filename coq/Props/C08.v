(* C08 — property theorems only.  Proofs are in C08/Proofs.v.
   pos / nam : the positional and the named dispatch of the built-in functions (C08/Model.v) on the current code,
   pos_orig / nam_orig : at the pinned commit; Some v = the value, None = the evaluation traps;
   to_int c e = Some p : the number c * 10^e is the integer p (any scale: 1.0 is 1);
   spec_index n p : the 0-based index that position p denotes in a sequence of length n (1..n from the start, -1..-n from the end);
   fits n : n <= 2^64 - 1 (the length of a list that exists in memory);  teq : C09's equality. *)
From Coq Require Import List NArith ZArith Bool Arith Permutation Sorted.
From DV Require Import Base.Dec Base.DecRound C02.Model.
From DV Require Import C09.Values C09.Model C08.Model C08.Proofs.
From DV Require Import C08.Model2 C08.SortProofs C08.ModeProofs C08.NumProofs C08.StatProofs C08.LiteralProofs C08.DeterminedProofs.
Import ListNotations.
Open Scope Z_scope.

Theorem C08_position_scale :
  forall p j, 0 <= j -> to_int (p * 10 ^ j) (- j) = Some p.
Proof. exact to_int_scale. Qed.
Theorem C08_sublist2 :
  forall xs c e p, fits (zlen xs) -> to_int c e = Some p ->
  pos Sublist [VList xs; VNum c e] =
  Some (match spec_index (zlen xs) p with Some i => VList (skipn (Z.to_nat i) xs) | None => VNull end).
Proof. exact sublist2_spec. Qed.
Theorem C08_sublist2_non_integer :
  forall xs c e, to_int c e = None -> pos Sublist [VList xs; VNum c e] = Some VNull.
Proof. exact sublist2_nonint. Qed.
Theorem C08_sublist3 :
  forall xs c e p lc le k, fits (zlen xs) -> to_int c e = Some p -> to_int lc le = Some k ->
  pos Sublist [VList xs; VNum c e; VNum lc le] =
  Some (match spec_index (zlen xs) p with
        | Some i => if (0 <=? k) && (i + k <=? zlen xs) then VList (firstn (Z.to_nat k) (skipn (Z.to_nat i) xs)) else VNull
        | None => VNull end).
Proof. exact sublist3_spec. Qed.
Theorem C08_remove :
  forall xs c e p, fits (zlen xs) -> to_int c e = Some p ->
  pos Remove [VList xs; VNum c e] =
  Some (match spec_index (zlen xs) p with Some i => VList (remove_at (Z.to_nat i) xs) | None => VNull end).
Proof. exact remove_spec. Qed.
Theorem C08_remove_non_integer :
  forall xs c e, to_int c e = None -> pos Remove [VList xs; VNum c e] = Some VNull.
Proof. exact remove_nonint. Qed.
Theorem C08_remove_at_length :
  forall A (l : list A) i, (i < length l)%nat -> length (remove_at i l) = (length l - 1)%nat.
Proof. exact remove_at_length. Qed.
Theorem C08_remove_at_nth :
  forall A (l : list A) i j d, (i < length l)%nat ->
  nth j (remove_at i l) d = if (j <? i)%nat then nth j l d else nth (S j) l d.
Proof. exact remove_at_nth. Qed.
Theorem C08_insert_before :
  forall xs c e p x, fits (zlen xs) -> to_int c e = Some p ->
  pos InsertBefore [VList xs; VNum c e; x] =
  Some (match spec_index (zlen xs) p with Some i => VList (insert_at (Z.to_nat i) x xs) | None => VNull end).
Proof. exact insert_before_spec. Qed.
Theorem C08_insert_at_length :
  forall A (l : list A) i x, length (insert_at i x l) = S (length l).
Proof. exact insert_at_length. Qed.
Theorem C08_insert_at_nth :
  forall A (l : list A) i j x d, (i <= length l)%nat ->
  nth j (insert_at i x l) d = if (j <? i)%nat then nth j l d else if (j =? i)%nat then x else nth (j - 1) l d.
Proof. exact insert_at_nth. Qed.
(* the position is ANY number that denotes an integer, whatever its exponent (1.0, 20E-1); the length is any number: below 1 the
   result is null, otherwise its integer part (trunc_int: towards zero) counts; a position that is not an integer: null (next theorem) *)
Theorem C08_substring2 :
  forall cs c e p, zlen cs <= I64MAX -> to_int c e = Some p ->
  pos Substring [VStr cs; VNum c e] =
  Some (match spec_index (zlen cs) p with Some i => VStr (skipn (Z.to_nat i) cs) | None => VNull end).
Proof. exact substring2_general. Qed.
Theorem C08_substring3 :
  forall cs c e p lc le, zlen cs <= I64MAX -> to_int c e = Some p ->
  let k := trunc_int lc le in
  pos Substring [VStr cs; VNum c e; VNum lc le] =
  Some (match spec_index (zlen cs) p with
        | Some i => if (1 <=? k) && (i + k <=? zlen cs) then VStr (firstn (Z.to_nat k) (skipn (Z.to_nat i) cs)) else VNull
        | None => VNull end).
Proof. exact substring3_general. Qed.
Example C08_substring_scaled_arguments :
  pos Substring [VStr [97; 98; 99]%N; VNum 10 (-1)] = Some (VStr [97; 98; 99]%N) /\
  pos Substring [VStr [97; 98; 99]%N; VNum 20 (-1); VNum 10 (-1)] = Some (VStr [98]%N) /\
  pos Substring [VStr [97; 98; 99]%N; VNum 1 0; VNum 29 (-1)] = Some (VStr [97; 98]%N) /\
  pos Substring [VStr [97; 98; 99]%N; VNum 1 0; VNum 9 (-1)] = Some VNull /\
  pos Substring [VStr [97; 98; 99]%N; VNum 15 (-1)] = Some VNull /\
  pos Substring [VStr [97; 98; 99]%N; VNum (-10) (-1)] = Some (VStr [99]%N).
Proof. exact substring_general_example. Qed.
Theorem C08_substring_non_integer :
  forall cs c e len, to_int c e = None -> b_substring to_int (VStr cs) (VNum c e) len = VNull.
Proof. exact substring_nonint. Qed.
Theorem C08_named_eq_positional :
  forall b args pn,
  param_names b (length args) = Some pn -> named_domain b args ->
  nam b (combine pn args) = pos b args.
Proof. exact named_eq_positional. Qed.
Theorem C08_named_order_irrelevant :
  forall b ps ps', NoDup (map fst ps) -> Permutation ps ps' -> nam b ps = nam b ps'.
Proof. exact named_order_irrelevant. Qed.
Theorem C08_all_is_kleene_conjunction :
  forall vs, b_all false vs = fold_right v_and (VBool true) vs.
Proof. exact all_is_kleene_conjunction. Qed.
Theorem C08_any_on_booleans :
  forall vs, forallb is_bool vs = true -> b_any vs = fold_right v_or (VBool false) vs.
Proof. exact any_on_booleans. Qed.
Theorem C08_any_with_non_boolean :
  forall vs, forallb is_bool vs = false -> b_any vs = VNull.
Proof. exact any_with_non_boolean. Qed.
Theorem C08_reverse_involutive :
  forall xs, b_reverse (b_reverse (VList xs)) = VList xs.
Proof. exact reverse_involutive. Qed.
Theorem C08_reverse_nth :
  forall xs i, (i < length xs)%nat ->
  b_reverse (VList xs) = VList (rev xs) /\ nth i (rev xs) VNull = nth (length xs - S i) xs VNull.
Proof. exact reverse_nth. Qed.
Theorem C08_count :
  forall xs, b_count (VList xs) = VNum (Z.of_nat (length xs)) 0.
Proof. exact count_is_length. Qed.
Theorem C08_concatenate :
  forall ls, b_concatenate (map VList ls) = VList (concat ls).
Proof. exact concatenate_spec. Qed.
Theorem C08_append :
  forall xs vs, b_append (VList xs) vs = VList (xs ++ vs).
Proof. exact append_spec. Qed.
(* flatten: the leaves from left to right.  flatten_eqs f : f [] = [] and f (x :: r) = (the leaves of x if x is a list, else [x]) ++ f r;
   the function of the model satisfies the two equations and is their ONLY solution on lists (the constant [] is not one) *)
Theorem C08_flatten_equations :
  flatten_value (VList []) = [] /\
  (forall x r, flatten_value (VList (x :: r)) = (if is_list x then flatten_value x else [x]) ++ flatten_value (VList r)) /\
  (forall xs, b_flatten (VList xs) = VList (flatten_value (VList xs))) /\ (forall v, is_list v = false -> b_flatten v = VNull).
Proof. exact (conj (proj1 flatten_equations) (conj (proj2 flatten_equations) flatten_forms)). Qed.
Theorem C08_flatten_is_determined :
  forall f,
  (f (VList []) = [] /\ forall x r, f (VList (x :: r)) = (if is_list x then f x else [x]) ++ f (VList r)) ->
  forall xs, f (VList xs) = flatten_value (VList xs).
Proof. exact flatten_is_determined. Qed.
Example C08_flatten_example :
  b_flatten (VList [VNum 1 0; VList [VNum 2 0; VList [VNum 3 0; VList []]]; VList [VList [VNum 4 0]]; VNull; VList [VNull]])
  = VList [VNum 1 0; VNum 2 0; VNum 3 0; VNum 4 0; VNull; VNull].
Proof. exact flatten_example. Qed.
Theorem C08_flatten_no_lists :
  forall v, Forall (fun x => is_list x = false) (flatten_value v).
Proof. exact flatten_no_lists. Qed.
Theorem C08_flatten_idempotent :
  forall xs, b_flatten (b_flatten (VList xs)) = b_flatten (VList xs).
Proof. exact flatten_idempotent. Qed.
Theorem C08_flatten_order :
  forall xs ys, flatten_value (VList (xs ++ ys)) = flatten_value (VList xs) ++ flatten_value (VList ys).
Proof. exact flatten_app. Qed.
Theorem C08_index_of :
  forall xs x v,
  b_index_of (VList xs) x = VList (index_of_from 1 xs x) /\
  positions_asc 1 (index_of_from 1 xs x) /\
  (In v (index_of_from 1 xs x) <->
   exists i, (i < length xs)%nat /\ v = VNum (1 + Z.of_nat i) 0 /\ teq (nth i xs VNull) x = Some true).
Proof. exact index_of_spec. Qed.
Theorem C08_list_contains :
  forall xs x, b_list_contains (VList xs) x = VBool true <-> exists y, In y xs /\ teq y x = Some true.
Proof. exact list_contains_spec. Qed.
(* distinct values / union: dvals xs = the results.  The first occurrence of every value survives, in the order of the list, equality being
   FEEL `=` (feel_eq a b : teq a b = Some true, so 1 = 1.0 and [1] = [1.0]): an item appended to the list is appended to the result exactly
   when no result so far is equal to it.  These two equations have dvals as their ONLY solution; union = distinct values of the concatenation *)
Theorem C08_distinct_values_equations :
  dvals [] = [] /\
  (forall pre x, dvals (pre ++ [x]) = if existsb (fun v => feel_eq v x) (dvals pre) then dvals pre else dvals pre ++ [x]) /\
  (forall xs, b_distinct_values (VList xs) = VList (dvals xs)) /\
  (forall ls, b_union (map VList ls) = VList (dvals (concat ls))) /\
  (forall v, is_list v = false -> b_distinct_values v = VNull).
Proof. exact (conj (proj1 distinct_values_equations) (conj (proj2 distinct_values_equations) distinct_values_forms)). Qed.
Theorem C08_distinct_values_is_determined :
  forall f,
  (f [] = [] /\ forall pre x, f (pre ++ [x]) = if existsb (fun v => feel_eq v x) (f pre) then f pre else f pre ++ [x]) ->
  forall xs, f xs = dvals xs.
Proof. exact distinct_values_is_determined. Qed.
Theorem C08_distinct_values_order :
  forall pre post, exists tl, dvals (pre ++ post) = dvals pre ++ tl /\ forall t, In t tl -> In t post.
Proof. exact distinct_values_order. Qed.
Example C08_distinct_values_example :
  b_distinct_values (VList [VNum 1 0; VNum 2 0; VNum 10 (-1); VStr [97%N]; VNull; VNum 200 (-2); VNull; VList [VNum 1 0]; VList [VNum 10 (-1)]])
  = VList [VNum 1 0; VNum 2 0; VStr [97%N]; VNull; VList [VNum 1 0]] /\
  b_union [VList [VNum 2 0; VNum 1 0]; VList [VNum 10 (-1); VNum 3 0; VNum 2 0]] = VList [VNum 2 0; VNum 1 0; VNum 3 0].
Proof. exact distinct_values_example. Qed.
Theorem C08_distinct_values :
  forall xs, exists res,
  b_distinct_values (VList xs) = VList res /\ distinct_list res /\
  (forall r, In r res -> In r xs) /\
  (forall x, In x xs -> In x res \/ exists r, In r res /\ teq r x = Some true).
Proof. exact distinct_values_spec. Qed.
Theorem C08_union :
  forall ls, exists res,
  b_union (map VList ls) = VList res /\ distinct_list res /\
  (forall r, In r res -> In r (concat ls)) /\
  (forall x, In x (concat ls) -> In x res \/ exists r, In r res /\ teq r x = Some true).
Proof. exact union_spec. Qed.
Theorem C08_contains :
  forall s m, b_contains (VStr s) (VStr m) = VBool true <-> exists a b, s = a ++ m ++ b.
Proof. exact contains_spec. Qed.
Theorem C08_starts_with :
  forall s m, b_starts_with (VStr s) (VStr m) = VBool true <-> exists t, s = m ++ t.
Proof. exact starts_with_spec. Qed.
Theorem C08_ends_with :
  forall s m, b_ends_with (VStr s) (VStr m) = VBool true <-> exists a, s = a ++ m.
Proof. exact ends_with_spec. Qed.
Theorem C08_substring_before_after :
  forall s m,
  (exists a b, s = a ++ m ++ b) ->
  exists before after,
    b_substring_before (VStr s) (VStr m) = VStr before /\ b_substring_after (VStr s) (VStr m) = VStr after /\
    s = before ++ m ++ after /\
    (forall j, (j < length before)%nat -> prefixb m (skipn j s) = false).
Proof. exact substring_before_after_spec. Qed.
Theorem C08_substring_before_after_no_match :
  forall s m,
  b_contains (VStr s) (VStr m) = VBool false ->
  b_substring_before (VStr s) (VStr m) = VStr [] /\ b_substring_after (VStr s) (VStr m) = VStr [].
Proof. exact substring_before_after_no_match. Qed.
Theorem C08_string_length :
  forall s, b_string_length (VStr s) = VNum (Z.of_nat (length s)) 0.
Proof. exact string_length_spec. Qed.
(* ---------------- numeric aggregates over the shared decimal128 layer (Base/DecRound.v; C08/NumProofs.v) ----------------
   A number is a pair (c, e) = c * 10^e.  nadd / nsub / ndiv / nsqrt (C08/Model.v) ARE Base/DecRound.v dadd / dsub / ddiv / dsqrt
   on the datum of the pair (to_dec), followed by the removal of trailing zeros of number.rs (reduced) - the operators f_add ...
   of C02/Model.v; None = the result is outside the decimal128 range = the FEEL value null.  nadd_opt acc x : one turn of a loop
   `sum += x` (None stays None).  nfmt p : |c| < 10^34 and -6176 <= e <= 6111.  nveq : equality of the values (C09 ncmp = Eq).
   exact_sum a b : the exact sum as an integer at the smaller exponent.  target_exp m e (Base/DecRound.v): the exponent that
   leaves 34 digits of m * 10^e, not below -6176.  There is no assumption on the size of a sum any more. *)
Theorem C08_operators_are_the_shared_layer :
  forall a b,
  nadd a b = option_map of_dec (f_add (to_dec a) (to_dec b)) /\ nsub a b = option_map of_dec (f_sub (to_dec a) (to_dec b)) /\
  ndiv a b = option_map of_dec (f_div (to_dec a) (to_dec b)) /\ nsqrt a = option_map of_dec (f_sqrt (to_dec a)).
Proof. exact ops_are_c02. Qed.
Theorem C08_number_datum_round_trip :
  forall p, of_dec (to_dec p) = p /\ (in_format (to_dec p) = true <-> nfmt p) /\ sval (to_dec p) = fst p /\ expo (to_dec p) = snd p.
Proof. exact (fun p => conj (of_dec_to_dec p) (conj (to_dec_in_format p) (conj (sval_to_dec p) (expo_to_dec p)))). Qed.

(* sum(x1, ..., xn) = (..(x1 + x2) + ..) + xn, left to right as the Rust loop, null once a step overflows *)
Theorem C08_sum_is_rounded_fold :
  forall x xs, b_sum (map vnum (x :: xs)) = vopt (fold_left nadd_opt xs (Some x)).
Proof. exact sum_spec. Qed.
(* every + is the correctly rounded decimal128 addition (transfer of C02_round34_nearest_even / C02_add_null_iff_overflow):
   null EXACTLY when the exact sum reaches (10^34 - 1/2) * 10^6111; otherwise a datum in format within half a unit of the
   34-digit quantum 10^e1 of the exact sum z * 10^e, ties to the even coefficient, exact when the sum fits *)
Theorem C08_add_correctly_rounded :
  forall a b,
  let z := fst (exact_sum a b) in let e := snd (exact_sum a b) in let base := Z.min e ETINY in
  (nadd a b = None <-> (2 * 10 ^ 34 - 1) * 10 ^ (ETOP - base) <= 2 * Z.abs z * 10 ^ (e - base)) /\
  forall r, nadd a b = Some r ->
    nfmt r /\ base <= snd r /\
    (z = 0 -> fst r = 0) /\
    (z <> 0 ->
     let e1 := target_exp (Z.abs_N z) e in
     2 * Z.abs (fst r * 10 ^ (snd r - base) - z * 10 ^ (e - base)) <= 10 ^ (e1 - base) /\
     (e < e1 -> 2 * Z.abs (fst r * 10 ^ (snd r - base) - z * 10 ^ (e - base)) = 10 ^ (e1 - base) ->
      N.even (round_half_even (Z.abs_N z) (Z.to_N (e1 - e))) = true) /\
     (e1 = e -> fst r * 10 ^ (snd r - base) = z * 10 ^ (e - base))).
Proof. exact nadd_correctly_rounded. Qed.
(* what used to be an assumption of the model: a sum of at most 34 digits is the exact sum *)
Theorem C08_add_exact_within_34_digits :
  forall a b,
  let z := fst (exact_sum a b) in let e := snd (exact_sum a b) in
  Z.abs z < 10 ^ 34 -> ETINY <= e <= ETOP -> exists r, nadd a b = Some r /\ nveq r (z, e).
Proof. exact nadd_exact_within_34_digits. Qed.
Theorem C08_sub_is_add_of_the_negation :
  forall a b, nsub a b = nadd a (- fst b, snd b).
Proof. exact nsub_is_nadd. Qed.
Theorem C08_sum_in_format :
  forall xs x r, nfmt x -> fold_left nadd_opt xs (Some x) = Some r -> nfmt r.
Proof. exact sum_in_format. Qed.
(* rounding sums, ties to even, overflow to null, dependence on the order, gradual underflow of a mean, tiny + huge *)
Example C08_sum_order_matters :
  b_sum (map vnum [(1, 34); (5, 0); (5, 0)]) = VNum 1 34 /\
  b_sum (map vnum [(5, 0); (5, 0); (1, 34)]) = VNum 1000000000000000000000000000000001 1 /\
  b_sum (map vnum [(9999999999999999999999999999999999, 0); (5, -1)]) = VNum 1 34 /\
  b_sum (map vnum [(9999999999999999999999999999999998, 0); (5, -1)]) = VNum 9999999999999999999999999999999998 0 /\
  b_sum (map vnum [(9999999999999999999999999999999999, 6111); (4, 6110)]) = VNum 9999999999999999999999999999999999 6111 /\
  b_sum (map vnum [(9999999999999999999999999999999999, 6111); (5, 6110)]) = VNull /\
  b_sum (map vnum [(9999999999999999999999999999999999, 6111); (5, 6110); (-9999999999999999999999999999999998, 6111)]) = VNull /\
  b_sum (map vnum [(9999999999999999999999999999999999, 6111); (-9999999999999999999999999999999998, 6111); (5, 6110)]) = VNum 15 6110 /\
  b_median (map vnum [(9, 6111); (9999999999999999999999999999999999, 6111)]) = VNull /\
  b_mean (map vnum [(1, -6176); (1, -6176); (1, -6176); (2, -6176)]) = VNum 1 (-6176) /\
  b_mean (map vnum [(1, 40); (1, -40)]) = VNum 5 39.
Proof. exact sum_order_matters. Qed.

(* mean(x1, ..., xn) = (((0 + x1) + ..) + xn) / n: the correctly rounded quotient of that rounded sum s by the count
   (transfer of C02_div_correctly_rounded: c * 10^q is a nearest multiple of 10^q to |s| / n, ties to the even c) *)
Theorem C08_mean_correctly_rounded :
  forall x xs,
  let l := x :: xs in let n := Z.of_nat (length l) in
  b_mean (map vnum l) = vopt (obind (fold_left nadd_opt l (Some (0, 0))) (fun s => ndiv s (n, 0))) /\
  forall s, fold_left nadd_opt l (Some (0, 0)) = Some s ->
    (fst s = 0 -> b_mean (map vnum l) = VNum 0 0) /\
    (fst s <> 0 -> forall r, ndiv s (n, 0) = Some r ->
       b_mean (map vnum l) = vnum r /\
       exists (c : N) (q : Z),
         nfmt r /\ nveq r ((if fst s <? 0 then - Z.of_N c else Z.of_N c), q) /\
         (c <= 10 ^ 34)%N /\ ETINY <= q /\ (ETINY < q -> (10 ^ 33 <= c)%N) /\
         forall B, B <= snd s -> B <= q ->
           let X := Z.abs (fst s) * 10 ^ (snd s - B) in
           let Y := n * 10 ^ (q - B) in
           2 * Z.abs (Z.of_N c * Y - X) <= Y /\ (2 * Z.abs (Z.of_N c * Y - X) = Y -> N.even c = true)).
Proof. exact mean_correctly_rounded. Qed.
Theorem C08_div_correctly_rounded :
  forall a b r, fst a <> 0 -> fst b <> 0 -> ndiv a b = Some r ->
  exists (c : N) (q : Z),
    nfmt r /\ nveq r ((if xorb (fst a <? 0) (fst b <? 0) then - Z.of_N c else Z.of_N c), q) /\
    (c <= 10 ^ 34)%N /\ ETINY <= q /\ (ETINY < q -> (10 ^ 33 <= c)%N) /\
    forall B, B <= snd a -> B <= q + snd b ->
      let X := Z.abs (fst a) * 10 ^ (snd a - B) in
      let Y := Z.abs (fst b) * 10 ^ (q + snd b - B) in
      2 * Z.abs (Z.of_N c * Y - X) <= Y /\ (2 * Z.abs (Z.of_N c * Y - X) = Y -> N.even c = true).
Proof. exact ndiv_correctly_rounded. Qed.
Theorem C08_div_zero_cases :
  (forall e b, fst b <> 0 -> ndiv (0, e) b = Some (0, 0)) /\ (forall a e, ndiv a (0, e) = None).
Proof. exact (conj ndiv_zero_dividend ndiv_by_zero). Qed.

(* median: the middle item of the sorted list, or the correctly rounded half of the correctly rounded sum of the two middle items *)
Theorem C08_median_spec :
  forall x xs,
  let s := nsort (x :: xs) in let k := (length s / 2)%nat in
  b_median (map vnum (x :: xs)) =
  if Nat.even (length s)
  then vopt (obind (nadd (nth (k - 1) s (0, 0)) (nth k s (0, 0))) (fun t => ndiv t (2, 0)))
  else vnum (nth k s (0, 0)).
Proof. exact median_spec. Qed.
Theorem C08_sort_permutation :
  forall l, Permutation (nsort l) l.
Proof. exact nsort_perm. Qed.
Theorem C08_sort_ascending :
  forall l, ascending (nsort l).
Proof. exact nsort_ascending. Qed.
Theorem C08_aggregates_empty :
  b_sum [] = VNull /\ b_mean [] = VNull /\ b_median [] = VNull /\ b_min [] = VNull /\ b_max false [] = VNull /\ b_mode [] = VList [].
Proof. exact aggregates_empty. Qed.
Theorem C08_aggregates_non_number :
  forall f pre x post, In f [b_sum; b_mean; b_median; b_mode] ->
  (match x with VNum _ _ => False | _ => True end) -> f (map vnum pre ++ x :: post) = VNull.
Proof. exact aggregates_non_number. Qed.
Theorem C08_max_numbers :
  forall ns m, exists r,
  max_num false m (map vnum ns) = vnum r /\ In r (m :: ns) /\
  (forall x, In x (m :: ns) -> is_le (ncmp (fst x) (snd x) (fst r) (snd r)) = true).
Proof. exact max_numbers_spec. Qed.
Theorem C08_min_numbers :
  forall ns m, exists r,
  min_num m (map vnum ns) = vnum r /\ In r (m :: ns) /\
  (forall x, In x (m :: ns) -> is_le (ncmp (fst r) (snd r) (fst x) (snd x)) = true).
Proof. exact min_numbers_spec. Qed.
Theorem C08_min_max_null_item :
  forall m pre post,
  max_num false m (map vnum pre ++ VNull :: post) = VNull /\ min_num m (map vnum pre ++ VNull :: post) = VNull.
Proof. exact min_max_null_item. Qed.
Theorem C08_get_value :
  forall es k, b_get_value (VCtx es) (VStr k) = match lookup k es with Some v => v | None => VNull end.
Proof. exact get_value_spec. Qed.
Theorem C08_get_entries :
  forall es, b_get_entries (VCtx es) = VList (map (fun e => VCtx [(KEY, VStr (fst e)); (VALUE, snd e)]) es).
Proof. exact get_entries_spec. Qed.
Theorem C08_not :
  forall v, b_not v = match v with VBool b => VBool (negb b) | _ => VNull end.
Proof. exact not_spec. Qed.
Theorem C08_wrong_arity_null :
  forall a1 a2 a3 a4 r,
  pos Contains [a1; a2; a3] = Some VNull /\ pos Count [] = Some VNull /\ pos Count [a1; a2] = Some VNull /\
  pos Sublist [a1] = Some VNull /\ pos Sublist (a1 :: a2 :: a3 :: a4 :: r) = Some VNull /\
  pos Substring [a1] = Some VNull /\ pos Substring (a1 :: a2 :: a3 :: a4 :: r) = Some VNull /\
  pos InsertBefore [a1; a2] = Some VNull /\ pos Remove [a1] = Some VNull /\ pos Not [] = Some VNull /\
  pos All [] = Some VNull /\ pos Max [] = Some VNull /\ pos Append [a1] = Some VNull /\ pos Union [] = Some VNull.
Proof. exact fixed_arity_null. Qed.
Theorem C08_orig_scaled_position_refuted :
  pos_orig Sublist [l123; VNum 10 (-1)] = Some VNull /\ pos Sublist [l123; VNum 10 (-1)] = Some l123 /\
  pos_orig Substring [VStr [97; 98]%N; VNum 10 (-1)] = Some VNull /\ pos Substring [VStr [97; 98]%N; VNum 10 (-1)] = Some (VStr [97; 98]%N).
Proof. exact orig_scaled_position_refuted. Qed.
Theorem C08_orig_sublist_trap_refuted :
  pos_orig Sublist [l123; VNum (-4) 0; VNum 1 0] = None /\ pos Sublist [l123; VNum (-4) 0; VNum 1 0] = Some VNull.
Proof. exact orig_sublist_trap_refuted. Qed.
Theorem C08_orig_max_min_null_refuted :
  pos_orig Max [VList [VNum 1 0; VNull; VNum 3 0]] = Some (VNum 3 0) /\ pos_orig Min [VList [VNum 1 0; VNull; VNum 3 0]] = Some VNull.
Proof. exact orig_max_min_null_refuted. Qed.
Theorem C08_orig_all_order_refuted :
  pos_orig All [VList [VNull; VBool false]] = Some VNull /\ pos_orig All [VList [VBool false; VNull]] = Some (VBool false).
Proof. exact orig_all_order_refuted. Qed.
Theorem C08_orig_named_mean_refuted :
  let l := VList [VNum 0 0; VNum 2 0; VNum 100 0] in
  nam_orig Mean [(PList, l)] = Some (VNum 2 0) /\
  match pos_orig Mean [l] with Some (VNum c e) => ncmp c e 34 0 | _ => Lt end = Eq.
Proof. exact orig_named_mean_refuted. Qed.
Theorem C08_max_strings :
  forall ss m, exists r,
  max_str false m (map VStr ss) = VStr r /\ In r (m :: ss) /\ (forall x, In x (m :: ss) -> is_le (lcmp x r) = true).
Proof. exact max_strings_spec. Qed.
Theorem C08_min_strings :
  forall ss m, exists r,
  min_str m (map VStr ss) = VStr r /\ In r (m :: ss) /\ (forall x, In x (m :: ss) -> is_le (lcmp r x) = true).
Proof. exact min_strings_spec. Qed.
Theorem C08_min_max_dispatch :
  forall c e s r,
  b_max false (VNum c e :: r) = max_num false (c, e) r /\ b_max false (VStr s :: r) = max_str false s r /\
  b_min (VNum c e :: r) = min_num (c, e) r /\ b_min (VStr s :: r) = min_str s r /\
  b_max false (VNull :: r) = VNull /\ b_min (VNull :: r) = VNull /\ b_max false (VBool true :: r) = VNull /\ b_min (VBool true :: r) = VNull.
Proof. exact min_max_dispatch. Qed.
(* ---------------- mode, sort, median, stddev, split / replace / matches (second model file C08/Model2.v) ----------------
   nlt / neqv : the order / the equality of numbers as values (1 = 1.0);  mult x l : the number of items of l equal to x;
   first_of v l : v is the first item of l with its value;
   is_mode_of l rs : rs is strictly ascending, each member is the first item of l with its value and no item of l is more frequent,
                     every item of maximal multiplicity has its value in rs;
   swo_on lt l (boolean) : lt is irreflexive and transitive on the items of l and x < z implies x < y or y < z (a strict weak order;
                     every strict total order is one);  sorted_by lt l : no later item strictly precedes an earlier one;
   eqv lt x y : neither precedes the other;  is_order_stat l i v : v is an item, at most i items are below v, more than i are not above v;
   split_lit / replace_lit : leftmost non-overlapping occurrences of a literal pattern;  join d ps : the pieces with d between them. *)
Theorem C08_mode :
  forall n ns, exists rs, b_mode (map vnum (n :: ns)) = VList (map vnum rs) /\ is_mode_of (n :: ns) rs.
Proof. exact mode_spec. Qed.
Theorem C08_mode_is_determined :
  forall l rs rs', is_mode_of l rs -> is_mode_of l rs' -> rs = rs'.
Proof. exact is_mode_of_unique. Qed.
Theorem C08_mode_reading :
  forall l rs, is_mode_of l rs <->
  StronglySorted (fun a b => nlt a b = true) rs /\
  (forall r, In r rs -> In r l /\ hd_error (filter (neqv r) l) = Some r /\
             forall x, In x l -> (length (filter (neqv x) l) <= length (filter (neqv r) l))%nat) /\
  (forall x, In x l -> (forall y, In y l -> (length (filter (neqv y) l) <= length (filter (neqv x) l))%nat) ->
             exists r, In r rs /\ neqv x r = true).
Proof. exact is_mode_of_reading. Qed.
Theorem C08_mode_outside_domain :
  b_mode [] = VList [] /\
  forall pre x post, (match x with VNum _ _ => False | _ => True end) -> b_mode (map vnum pre ++ x :: post) = VNull.
Proof. exact mode_outside. Qed.
Theorem C08_mode_runs :
  forall l, runs l [] = groups l.
Proof. exact runs_is_groups. Qed.

(* the number sort of median and mode: the stable ascending sort *)
Theorem C08_number_sort_stable :
  forall l, Permutation (nsort l) l /\ StronglySorted (fun a b => nlt b a = false) (nsort l) /\
  forall z, filter (neqv z) (nsort l) = filter (neqv z) l.
Proof. exact nsort_spec. Qed.

(* sort(list, precedes) *)
Theorem C08_sort_by_precedes :
  forall xs f, swo_on (precedes_true f) xs = true ->
  exists res, b_sort (VList xs) 2 f = VList res /\ Permutation res xs /\
    sorted_by (precedes_true f) res /\
    forall z, In z xs -> filter (eqv (precedes_true f) z) res = filter (eqv (precedes_true f) z) xs.
Proof. exact sort_spec. Qed.
Theorem C08_sort_is_determined :
  forall xs f res, swo_on (precedes_true f) xs = true -> Permutation res xs ->
  sorted_by (precedes_true f) res ->
  (forall z, In z xs -> filter (eqv (precedes_true f) z) res = filter (eqv (precedes_true f) z) xs) ->
  b_sort (VList xs) 2 f = VList res.
Proof. exact sort_is_determined. Qed.
Theorem C08_sorted_by_positions :
  forall (lt : value -> value -> bool) l, sorted_by lt l ->
  forall i j d, (i < j < length l)%nat -> lt (nth j l d) (nth i l d) = false.
Proof. exact (@sorted_by_nth value). Qed.
Theorem C08_sort_any_relation_permutation :
  forall xs f, exists res, b_sort (VList xs) 2 f = VList res /\ Permutation res xs.
Proof. exact sort_permutation_any_relation. Qed.
Theorem C08_sort_outside_domain :
  forall l n f, (match l with VList _ => n <> 2%N | _ => True end) -> b_sort l n f = VNull.
Proof. exact sort_outside_domain. Qed.
Theorem C08_number_order_is_strict_weak :
  forall l, swo_on nlt l = true.
Proof. exact nlt_swo. Qed.
Example C08_sort_nonvacuous :
  let l := [VNum 3 0; VNum 1 0; VNum 20 (-1); VNum 10 (-1); VNum 2 0] in
  swo_on (precedes_true v_lt) l = true /\ swo_on (precedes_true v_gt) l = true /\
  b_sort (VList l) 2 v_lt = VList [VNum 1 0; VNum 10 (-1); VNum 20 (-1); VNum 2 0; VNum 3 0] /\
  b_sort (VList l) 2 v_gt = VList [VNum 3 0; VNum 20 (-1); VNum 2 0; VNum 1 0; VNum 10 (-1)] /\
  b_sort (VList [VStr [98]%N; VStr [97; 98]%N; VStr []]) 2 v_lt = VList [VStr []; VStr [97; 98]%N; VStr [98]%N].
Proof. exact sort_nonvacuous. Qed.

(* median: the middle order statistic(s) *)
Theorem C08_median_order_statistic :
  forall n ns,
  let l := n :: ns in let k := (length l / 2)%nat in
  if Nat.even (length l)
  then exists lo hi, b_median (map vnum l) = vopt (obind (nadd lo hi) (fun t => ndiv t (2, 0))) /\ is_order_stat l (k - 1) lo /\ is_order_stat l k hi
  else exists m, b_median (map vnum l) = vnum m /\ is_order_stat l k m.
Proof. exact median_order_stat. Qed.
Theorem C08_order_statistic_is_determined :
  forall l i v v', is_order_stat l i v -> is_order_stat l i v' -> neqv v v' = true.
Proof. exact order_stat_unique. Qed.

(* stddev(x1, ..., xn), n >= 2, with the exact sequence of rounded operations of core.rs:
     sum = ((0 + x1) + ..) + xn;  mean = sum / n;  sum2 = ((0 + (x1 - mean)^2) + ..) + (xn - mean)^2;  sqrt(sum2 / (n - 1))
   + - / sqrt : the correctly rounded operations of the shared layer (C08_add_correctly_rounded, C08_sub_is_add_of_the_negation,
   C08_div_correctly_rounded, C08_sqrt_correctly_rounded);  ^2 = nsquare = FeelNumber::square = decNumberPower(x, 2), which rounds
   TWICE (37 digits, then 34: C08_square_two_roundings);  null as soon as one step is *)
Theorem C08_stddev_spec :
  forall x1 x2 xs,
  let l := x1 :: x2 :: xs in
  let n := (Z.of_nat (length l), 0) in
  b_stddev (map vnum l) =
  vopt (obind (fold_left nadd_opt l (Some (0, 0))) (fun sum =>
        obind (ndiv sum n) (fun mean =>
        obind (fold_left (fun acc x => obind acc (fun s => obind (nsub x mean) (fun d => obind (nsquare d) (fun q => nadd s q)))) l (Some (0, 0))) (fun sum2 =>
        obind (nsub n (1, 0)) (fun n1 =>
        obind (ndiv sum2 n1) nsqrt))))).
Proof. exact stddev_spec. Qed.
Theorem C08_stddev_outside_domain :
  b_stddev [] = VNull /\ (forall x, b_stddev [x] = VNull) /\
  forall pre x post, (match x with VNum _ _ => False | _ => True end) -> b_stddev (map vnum pre ++ x :: post) = VNull.
Proof. exact stddev_outside. Qed.
(* transfer of C02_sqrt_correctly_rounded: c * 10^q is a nearest multiple of 10^q to the exact root, ties to the even c *)
Theorem C08_sqrt_correctly_rounded :
  forall a r, 0 < fst a -> nsqrt a = Some r ->
  exists (c : N) (q : Z),
    nfmt r /\ nveq r (Z.of_N c, q) /\
    (c <= 10 ^ 34)%N /\ ETINY <= q /\ (ETINY < q -> (10 ^ 33 <= c)%N) /\
    forall B, B <= q -> 2 * B <= snd a ->
      let X := 4 * fst a * 10 ^ (snd a - 2 * B) in
      let lo := (2 * Z.of_N c - 1) * 10 ^ (q - B) in
      let hi := (2 * Z.of_N c + 1) * 10 ^ (q - B) in
      X <= hi ^ 2 /\ ((0 < c)%N -> lo ^ 2 <= X) /\
      (X = hi ^ 2 -> N.even c = true) /\ ((0 < c)%N -> X = lo ^ 2 -> N.even c = true).
Proof. exact nsqrt_correctly_rounded. Qed.
Theorem C08_sqrt_zero_negative_defined :
  (forall c e, (c = 0 -> nsqrt (c, e) = Some (0, 0)) /\ (c < 0 -> nsqrt (c, e) = None)) /\
  (forall a, nfmt a -> 0 <= fst a -> exists r, nsqrt a = Some r).
Proof. exact (conj nsqrt_zero_negative nsqrt_defined). Qed.
(* the square: round_prec p = Base/DecRound.v round34 with the precision as an argument *)
Theorem C08_square_two_roundings :
  (forall a, nsquare a = num_result (obind (round_prec 37 false (Z.abs_N (fst a) * Z.abs_N (fst a)) (snd a + snd a))
                                           (fun y => round34 false (coef y) (expo y)))) /\
  (forall s m e, round_prec 34 s m e = round34 s m e).
Proof. exact (conj nsquare_two_roundings round_prec_34). Qed.
Theorem C08_square_exact_within_34_digits :
  forall a, fst a * fst a < 10 ^ 34 -> -6176 <= 2 * snd a <= 6108 -> exists r, nsquare a = Some r /\ nveq r (fst a * fst a, 2 * snd a).
Proof. exact nsquare_exact_within_34_digits. Qed.
(* FeelNumber::square is not the correctly rounded product: ...946.50025 -> (37 digits) ...946500 -> (34 digits, tie to even) ...946 *)
Example C08_square_is_not_the_rounded_product :
  nsquare (10684414991928191245, 0) = Some (1141567237197398909870474465772946, 5) /\
  num_result (dmul (to_dec (10684414991928191245, 0)) (to_dec (10684414991928191245, 0))) = Some (1141567237197398909870474465772947, 5) /\
  10684414991928191245 * 10684414991928191245 = 114156723719739890987047446577294650025.
Proof. exact nsquare_is_not_the_rounded_product. Qed.
(* every step and every aggregate of numbers in format gives a number in format, or null *)
Theorem C08_steps_in_format :
  forall a b r,
  (nadd a b = Some r -> nfmt r) /\ (nsub a b = Some r -> nfmt r) /\ (ndiv a b = Some r -> nfmt r) /\
  (nsqrt a = Some r -> nfmt r) /\ (nsquare a = Some r -> nfmt r).
Proof. exact steps_in_format. Qed.
Theorem C08_aggregates_in_format :
  forall x xs, nfmt x -> Forall nfmt xs ->
  let l := map vnum (x :: xs) in vfmt (b_sum l) /\ vfmt (b_mean l) /\ vfmt (b_median l) /\ vfmt (b_stddev l).
Proof. exact aggregates_in_format. Qed.
Example C08_stddev_nonvacuous :
  b_stddev (map vnum [(2, 0); (4, 0); (4, 0); (4, 0); (5, 0); (5, 0); (7, 0); (9, 0)]) = VNum 2138089935299395077476427847038028 (-33) /\
  pos_stddev [VNum 10 0; VNum 20 0; VNum 60 0] = VNum 264575131106459059050161575363926 (-31) /\
  b_stddev (map vnum [(1, 0); (2, 0); (3, 0)]) = VNum 1 0 /\
  stddev_radicand_of (map vnum [(10, 0); (20, 0); (60, 0)]) = Some (7, 2) /\
  pos_stddev [VNum 10 0] = VNull /\ pos_stddev [VList [VNum 1 0; VNum 3 0]] = b_stddev [VNum 1 0; VNum 3 0] /\
  b_stddev (map vnum [(10684414991928191245, 0); (-10684414991928191245, 0)]) = VNum 1511004458760727092163960783891233 (-14).
Proof. exact stddev_nonvacuous. Qed.
(* the pinned commit returned Infinity (None: not a FEEL value) where a sum leaves the range; repaired: null *)
Theorem C08_orig_sum_overflow_refuted :
  let big := VNum 9999999999999999999999999999999999 6111 in
  pos_orig Sum [big; big] = None /\ pos Sum [big; big] = Some VNull /\
  pos_orig Median [VList [big; big]] = None /\ pos Median [VList [big; big]] = Some VNull /\
  nam_orig Sum [(PList, VList [big; VNum 5 6110])] = None /\ nam Sum [(PList, VList [big; VNum 5 6110])] = Some VNull /\
  pos_orig Sum [big; VNum 4 6110] = Some big /\ pos_orig Sum [big; VNull] = Some VNull /\ pos_orig Sum [] = Some VNull.
Proof. exact orig_sum_overflow_refuted. Qed.

(* split / replace / matches with a literal pattern *)
(* the empty delimiter / pattern matches at every position, also before the first and after the last character, as Regex::split and
   replace_all do (split("abc", "") = ["", "a", "b", "c", ""], replace("abc", "", "-") = "-a-b-c-", matches(s, "") = true; compared
   with the code); C08_split_join, C08_replace_is_split_join, C08_replace_by_itself, C08_matches_iff_split_splits hold for EVERY
   delimiter including the empty one, C08_split_pieces_free / C08_split_equation / C08_replace_equation need d <> [] and say so *)
Theorem C08_split_empty_delimiter :
  forall s r,
  split_lit s [] = [] :: map (fun c => [c]) s ++ [[]] /\
  replace_lit s [] r = r ++ flat_map (fun c => c :: r) s /\
  b_matches (VStr s) (VStr []) = VBool true.
Proof. exact split_empty_delimiter. Qed.
Theorem C08_split_join :
  forall s d, join d (split_lit s d) = s.
Proof. exact split_join. Qed.
Theorem C08_split_pieces_free :
  forall s d, d <> [] -> forall p, In p (split_lit s d) -> containsb p d = false.
Proof. exact split_pieces_free. Qed.
Theorem C08_split_equation :
  forall s d, d <> [] ->
  split_lit s d = match find d s with Some i => firstn i s :: split_lit (skipn (i + length d) s) d | None => [s] end.
Proof. exact split_equation. Qed.
Theorem C08_replace_is_split_join :
  forall s p r, replace_lit s p r = join r (split_lit s p).
Proof. exact replace_is_split_join. Qed.
Theorem C08_replace_equation :
  forall s p r, p <> [] ->
  replace_lit s p r = match find p s with Some i => firstn i s ++ r ++ replace_lit (skipn (i + length p) s) p r | None => s end.
Proof. exact replace_equation. Qed.
Theorem C08_replace_by_itself :
  forall s p, replace_lit s p p = s.
Proof. exact replace_by_itself. Qed.
Theorem C08_literal_no_occurrence :
  forall s p r, containsb s p = false ->
  split_lit s p = [s] /\ replace_lit s p r = s /\ b_matches (VStr s) (VStr p) = VBool false.
Proof. exact no_occurrence. Qed.
Theorem C08_matches_literal :
  forall s p, b_matches (VStr s) (VStr p) = VBool true <-> exists a b, s = a ++ p ++ b.
Proof. exact matches_spec. Qed.
Theorem C08_matches_iff_split_splits :
  forall s d, containsb s d = true <-> (1 < length (split_lit s d))%nat.
Proof. exact matches_iff_split_splits. Qed.
Theorem C08_split_replace_matches_domain :
  forall a b c, (match a, b with VStr _, VStr _ => False | _, _ => True end) ->
  b_split a b = VNull /\ b_matches a b = VNull /\ b_replace a b c = VNull.
Proof. exact split_replace_matches_domain. Qed.
Theorem C08_split_replace_forms :
  forall s d r,
  b_split (VStr s) (VStr d) = VList (map VStr (split_lit s d)) /\
  b_replace (VStr s) (VStr d) (VStr r) = VStr (replace_lit s d r) /\
  b_replace_impl (VStr s) (VStr d) (VStr r) = VStr (trim (replace_lit s d r)).
Proof. exact split_replace_forms. Qed.
(* known finding replace-trim: the code (b_replace_impl) trims the result, the specified value (b_replace) keeps the blanks *)
Theorem C08_replace_trim_known :
  b_replace (VStr [32; 97; 98; 32]%N) (VStr [98]%N) (VStr [120]%N) = VStr [32; 97; 120; 32]%N /\
  b_replace_impl (VStr [32; 97; 98; 32]%N) (VStr [98]%N) (VStr [120]%N) = VStr [97; 120]%N.
Proof. exact replace_trim_refuted. Qed.
Example C08_literal_nonvacuous :
  split_lit [97; 88; 98; 88; 88; 99; 88]%N [88]%N = [[97]; [98]; []; [99]; []]%N /\
  split_lit [97; 97; 97]%N [97; 97]%N = [[]; [97]]%N /\
  replace_lit [97; 98; 97; 98; 97]%N [97; 98; 97]%N [45]%N = [45; 98; 97]%N /\
  b_matches (VStr [104; 105]%N) (VStr [105]%N) = VBool true.
Proof. exact literal_nonvacuous. Qed.

Example C08_nonvacuous :
  let l := VList [VNum 1 0; VNum 10 (-1); VNull; VList [VNum 2 0]; VNum 1 0] in
  pos Sublist [l; VNum (-20) (-1); VNum 1 0] = Some (VList [VList [VNum 2 0]]) /\
  pos IndexOf [l; VNum 100 (-2)] = Some (VList [VNum 1 0; VNum 2 0; VNum 5 0]) /\
  pos DistinctValues [l] = Some (VList [VNum 1 0; VNull; VList [VNum 2 0]]) /\
  pos Flatten [l] = Some (VList [VNum 1 0; VNum 10 (-1); VNull; VNum 2 0; VNum 1 0]) /\
  nam Substring [(PLength, VNum 2 0); (PString, VStr [97; 128512; 98]%N); (PStartPosition, VNum (-2) 0)] = Some (VStr [128512; 98]%N) /\
  match pos Mean [VNum 1 0; VNum 2 0] with Some (VNum c e) => ncmp c e 15 (-1) | _ => Lt end = Eq.
Proof. exact nonvacuous. Qed.

Print Assumptions C08_position_scale.
Print Assumptions C08_sublist2.
Print Assumptions C08_sublist2_non_integer.
Print Assumptions C08_sublist3.
Print Assumptions C08_remove.
Print Assumptions C08_remove_non_integer.
Print Assumptions C08_remove_at_length.
Print Assumptions C08_remove_at_nth.
Print Assumptions C08_insert_before.
Print Assumptions C08_insert_at_length.
Print Assumptions C08_insert_at_nth.
Print Assumptions C08_substring2.
Print Assumptions C08_substring3.
Print Assumptions C08_substring_non_integer.
Print Assumptions C08_named_eq_positional.
Print Assumptions C08_named_order_irrelevant.
Print Assumptions C08_all_is_kleene_conjunction.
Print Assumptions C08_any_on_booleans.
Print Assumptions C08_any_with_non_boolean.
Print Assumptions C08_reverse_involutive.
Print Assumptions C08_reverse_nth.
Print Assumptions C08_count.
Print Assumptions C08_concatenate.
Print Assumptions C08_append.
Print Assumptions C08_flatten_no_lists.
Print Assumptions C08_flatten_idempotent.
Print Assumptions C08_flatten_order.
Print Assumptions C08_index_of.
Print Assumptions C08_list_contains.
Print Assumptions C08_distinct_values.
Print Assumptions C08_union.
Print Assumptions C08_contains.
Print Assumptions C08_starts_with.
Print Assumptions C08_ends_with.
Print Assumptions C08_substring_before_after.
Print Assumptions C08_substring_before_after_no_match.
Print Assumptions C08_string_length.
Print Assumptions C08_sort_permutation.
Print Assumptions C08_sort_ascending.
Print Assumptions C08_aggregates_empty.
Print Assumptions C08_aggregates_non_number.
Print Assumptions C08_max_numbers.
Print Assumptions C08_min_numbers.
Print Assumptions C08_min_max_null_item.
Print Assumptions C08_get_value.
Print Assumptions C08_get_entries.
Print Assumptions C08_not.
Print Assumptions C08_wrong_arity_null.
Print Assumptions C08_orig_scaled_position_refuted.
Print Assumptions C08_orig_sublist_trap_refuted.
Print Assumptions C08_orig_max_min_null_refuted.
Print Assumptions C08_orig_all_order_refuted.
Print Assumptions C08_orig_named_mean_refuted.
Print Assumptions C08_max_strings.
Print Assumptions C08_min_strings.
Print Assumptions C08_min_max_dispatch.
Print Assumptions C08_mode.
Print Assumptions C08_mode_is_determined.
Print Assumptions C08_mode_reading.
Print Assumptions C08_mode_outside_domain.
Print Assumptions C08_mode_runs.
Print Assumptions C08_number_sort_stable.
Print Assumptions C08_sort_by_precedes.
Print Assumptions C08_sort_is_determined.
Print Assumptions C08_sorted_by_positions.
Print Assumptions C08_sort_any_relation_permutation.
Print Assumptions C08_sort_outside_domain.
Print Assumptions C08_number_order_is_strict_weak.
Print Assumptions C08_sort_nonvacuous.
Print Assumptions C08_median_order_statistic.
Print Assumptions C08_order_statistic_is_determined.
Print Assumptions C08_split_join.
Print Assumptions C08_split_pieces_free.
Print Assumptions C08_split_equation.
Print Assumptions C08_replace_is_split_join.
Print Assumptions C08_replace_equation.
Print Assumptions C08_replace_by_itself.
Print Assumptions C08_literal_no_occurrence.
Print Assumptions C08_matches_literal.
Print Assumptions C08_matches_iff_split_splits.
Print Assumptions C08_split_replace_matches_domain.
Print Assumptions C08_split_replace_forms.
Print Assumptions C08_replace_trim_known.
Print Assumptions C08_literal_nonvacuous.
Print Assumptions C08_nonvacuous.
Print Assumptions C08_operators_are_the_shared_layer.
Print Assumptions C08_number_datum_round_trip.
Print Assumptions C08_sum_is_rounded_fold.
Print Assumptions C08_add_correctly_rounded.
Print Assumptions C08_add_exact_within_34_digits.
Print Assumptions C08_sub_is_add_of_the_negation.
Print Assumptions C08_sum_in_format.
Print Assumptions C08_sum_order_matters.
Print Assumptions C08_mean_correctly_rounded.
Print Assumptions C08_div_correctly_rounded.
Print Assumptions C08_div_zero_cases.
Print Assumptions C08_median_spec.
Print Assumptions C08_stddev_spec.
Print Assumptions C08_stddev_outside_domain.
Print Assumptions C08_sqrt_correctly_rounded.
Print Assumptions C08_sqrt_zero_negative_defined.
Print Assumptions C08_square_two_roundings.
Print Assumptions C08_square_exact_within_34_digits.
Print Assumptions C08_square_is_not_the_rounded_product.
Print Assumptions C08_steps_in_format.
Print Assumptions C08_aggregates_in_format.
Print Assumptions C08_stddev_nonvacuous.
Print Assumptions C08_orig_sum_overflow_refuted.
Print Assumptions C08_substring_scaled_arguments.
Print Assumptions C08_flatten_equations.
Print Assumptions C08_flatten_is_determined.
Print Assumptions C08_flatten_example.
Print Assumptions C08_distinct_values_equations.
Print Assumptions C08_distinct_values_is_determined.
Print Assumptions C08_distinct_values_order.
Print Assumptions C08_distinct_values_example.
Print Assumptions C08_split_empty_delimiter.
